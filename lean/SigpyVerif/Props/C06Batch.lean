import SigpyVerif.Props.C06Nd
set_option linter.unusedSectionVars false
/-
  C06 with leading batch axes and three transform axes.

  `nufft_adjoint` is exactly the adjoint of `nufft` for ANY oversamp / width, ndim ∈ {1, 2, 3} and any batch size `B`
  (sigpy flattens the leading batch axes of the input into one axis of length `B = Π batch` before it calls the
  numba kernels — `Gen.InterpWrappers`, C07's `ravel_batch_flatten` — and `_apodize`, `util.resize`, `fft(axes=range(-ndim,0))`
  leave the leading axes alone), as a statement about the generated pipeline:

  * apodisation: a real weight per sample (`apodLinG`; that the weights `_apodize` computes are real is
    `apodWeight_real` below, about the formula the translator checks);
  * zero-pad / crop: C09's N-d source map `resizeSrc` on the FULL shapes `[B, N…] ↔ [B, L…]` with default shifts
    (the batch axis has equal lengths: shift 0, copied);
  * FFT / IFFT over the last `ndim` axes: `1_B ⊗ U_{L₁} ⊗ … ⊗ U_{L_d}` with C05's centred DFT matrices; numpy's
    `1/ΠL` on the inverse; adjointness composed axis by axis (`adjScaled_kron`, `adjScaled_dft`, `adjScaled_one`);
  * interpolation / gridding: C07's generated `Gen.interp{1,2,3}` / `Gen.grid{1,2,3}` with `batch_size = B`
    (`input_shape 0 = B`), run with `runUpd`, real weights;
  * the scalings are the generated `Gen.nufftFwdDiv`, `Gen.nufftFwdWidthDiv`, `Gen.nufftAdjMul`, `Gen.nufftAdjWidthDiv`
    with `prodN = ΠN`, `prodOs = ΠL` over the TRANSFORM axes only (`util.prod(shape[-ndim:])`), `ndim` = 1, 2, 3.

  `nufft_adjoint_is_adjoint_{1,2,3}d_batch` have no stage hypothesis; `B = 1` is the unbatched transform
  (`nufft_adjoint_is_adjoint_3d`), and `…_3d_code` instantiates the grid lengths with `Gen.oversampLen`.
-/
namespace SigpyVerif.C06
open SigpyVerif Matrix ComplexConjugate
open scoped InnerProductSpace

/-! ### adjointness of Kronecker products, axis by axis -/

section kron
variable {ι κ : Type} [Fintype ι] [Fintype κ] [DecidableEq ι] [DecidableEq κ]

/-- `A'` scaled by `c` is the conjugate transpose of `A` -/
def AdjScaled (A A' : Matrix ι ι ℂ) (c : ℂ) : Prop := Aᴴ = c • A'

/-- an untouched (batch) axis -/
theorem adjScaled_one : AdjScaled (1 : Matrix ι ι ℂ) 1 1 := by
  unfold AdjScaled; simp

/-- one more axis: the scale factors multiply -/
theorem adjScaled_kron {A A' : Matrix ι ι ℂ} {B B' : Matrix κ κ ℂ} {a b : ℂ}
    (h1 : AdjScaled A A' a) (h2 : AdjScaled B B' b) :
    AdjScaled (kroneckerMap (· * ·) A B) (kroneckerMap (· * ·) A' B') (a * b) := by
  unfold AdjScaled at *
  rw [conjTranspose_kronecker, h1, h2]
  ext p q
  simp only [kroneckerMap_apply, Matrix.smul_apply, smul_eq_mul]
  ring

/-- `L · uIFFT = uFFTᴴ` on one axis (C05: `idftMatrix_eq_conjTranspose`) -/
theorem adjScaled_dft (L : ℕ) (hL : 0 < L) :
    AdjScaled (C05.dftMatrix (fftRoot L) L true 1) (C05.dftMatrix (fftRoot L)⁻¹ L true (1 / L)) (L : ℂ) := by
  unfold AdjScaled
  rw [← C05.idftMatrix_eq_conjTranspose (fftRoot_primitive L hL) true 1]
  ext k j
  simp only [C05.dftMatrix, Matrix.smul_apply, Matrix.of_apply, smul_eq_mul]
  have : (L : ℂ) ≠ 0 := by exact_mod_cast hL.ne'
  push_cast
  field_simp

theorem inner_of_adjScaled {A A' : Matrix ι ι ℂ} {c : ℂ} (h : AdjScaled A A' c) (z : ℤ) (hc : c = (((z : ℤ) : ℝ) : ℂ))
    (u v : EuclideanSpace ℂ ι) :
    ⟪Matrix.toEuclideanLin A u, v⟫_ℂ = ⟪u, (((z : ℤ) : ℝ) : ℂ) • Matrix.toEuclideanLin A' v⟫_ℂ := by
  unfold AdjScaled at h
  rw [inner_toEuclideanLin, h, map_smul, LinearMap.smul_apply, hc]

end kron

/-! ### multi-indices with a leading batch index -/

def bx1 (B L : ℕ) : Fin B × Fin L → List Int := fun p => [((p.1 : ℕ) : ℤ), ((p.2 : ℕ) : ℤ)]
def bx2 (B L1 L2 : ℕ) : Fin B × Fin L1 × Fin L2 → List Int :=
  fun p => [((p.1 : ℕ) : ℤ), ((p.2.1 : ℕ) : ℤ), ((p.2.2 : ℕ) : ℤ)]
def bx3 (B L1 L2 L3 : ℕ) : Fin B × Fin L1 × Fin L2 × Fin L3 → List Int :=
  fun p => [((p.1 : ℕ) : ℤ), ((p.2.1 : ℕ) : ℤ), ((p.2.2.1 : ℕ) : ℤ), ((p.2.2.2 : ℕ) : ℤ)]

theorem bx1_inj (B L : ℕ) : Function.Injective (bx1 B L) := by
  intro p q h
  simp only [bx1, List.cons.injEq, and_true] at h
  exact Prod.ext (Fin.ext (by exact_mod_cast h.1)) (Fin.ext (by exact_mod_cast h.2))

theorem bx2_inj (B L1 L2 : ℕ) : Function.Injective (bx2 B L1 L2) := by
  intro p q h
  simp only [bx2, List.cons.injEq, and_true] at h
  exact Prod.ext (Fin.ext (by exact_mod_cast h.1))
    (Prod.ext (Fin.ext (by exact_mod_cast h.2.1)) (Fin.ext (by exact_mod_cast h.2.2)))

theorem bx3_inj (B L1 L2 L3 : ℕ) : Function.Injective (bx3 B L1 L2 L3) := by
  intro p q h
  simp only [bx3, List.cons.injEq, and_true] at h
  exact Prod.ext (Fin.ext (by exact_mod_cast h.1))
    (Prod.ext (Fin.ext (by exact_mod_cast h.2.1))
      (Prod.ext (Fin.ext (by exact_mod_cast h.2.2.1)) (Fin.ext (by exact_mod_cast h.2.2.2))))

def shape4 (a b c d : ℤ) : ℤ → ℤ := fun k => if k = 0 then a else if k = 1 then b else if k = 2 then c else d

/-- image axis lengths as `shape[-3]`, `shape[-2]`, `shape[-1]` -/
def imgShape3 (N1 N2 N3 : ℤ) : ℤ → ℤ := fun k => if k = -3 then N1 else if k = -2 then N2 else N3

/-! ### one transform axis, batch size `B` -/

section batch1

noncomputable def resizeLin1B (B i o : ℕ) : EuclideanSpace ℂ (Fin B × Fin i) →ₗ[ℂ] EuclideanSpace ℂ (Fin B × Fin o) :=
  Matrix.toEuclideanLin (resizeMatNd [(B : ℤ), (i : ℤ)] [(B : ℤ), (o : ℤ)] (bx1 B i) (bx1 B o))

theorem resize1B_adjoint (B i o : ℕ) (u : EuclideanSpace ℂ (Fin B × Fin i)) (v : EuclideanSpace ℂ (Fin B × Fin o)) :
    ⟪resizeLin1B B i o u, v⟫_ℂ = ⟪u, resizeLin1B B o i v⟫_ℂ := by
  unfold resizeLin1B
  rw [inner_toEuclideanLin, resizeMatNd_conjTranspose]

/-- `fft(·, axes=(-1,), norm=None)` on `[B, L]`: identity on the batch axis ⊗ centred DFT -/
noncomputable def ufftLin1B (B L : ℕ) : EuclideanSpace ℂ (Fin B × Fin L) →ₗ[ℂ] EuclideanSpace ℂ (Fin B × Fin L) :=
  Matrix.toEuclideanLin (kroneckerMap (· * ·) (1 : Matrix (Fin B) (Fin B) ℂ) (C05.dftMatrix (fftRoot L) L true 1))

noncomputable def uifftLin1B (B L : ℕ) : EuclideanSpace ℂ (Fin B × Fin L) →ₗ[ℂ] EuclideanSpace ℂ (Fin B × Fin L) :=
  Matrix.toEuclideanLin (kroneckerMap (· * ·) (1 : Matrix (Fin B) (Fin B) ℂ)
    (C05.dftMatrix (fftRoot L)⁻¹ L true (1 / L)))

theorem ufft1B_adjoint (B L : ℕ) (hL : 0 < L) (u v : EuclideanSpace ℂ (Fin B × Fin L)) :
    ⟪ufftLin1B B L u, v⟫_ℂ = ⟪u, ((((L : ℤ) : ℤ) : ℝ) : ℂ) • uifftLin1B B L v⟫_ℂ := by
  unfold ufftLin1B uifftLin1B
  exact inner_of_adjScaled (adjScaled_kron adjScaled_one (adjScaled_dft L hL)) (L : ℤ) (by push_cast; ring) u v

noncomputable def interpLin1B (K : Rat → Rat → Rat) (wt : Rat → ℝ) (B L M : ℕ) (coord : Int → Int → Rat)
    (width param : Int → Rat) : EuclideanSpace ℂ (Fin B × Fin L) →ₗ[ℂ] EuclideanSpace ℂ (Fin B × Fin M) :=
  updLinG (cw wt (Gen.interp1 K (shape2 B M) (shape2 B L) (shape2 M 1) coord width param)) (bx1 B L) (bx1 B M)

noncomputable def gridLin1B (K : Rat → Rat → Rat) (wt : Rat → ℝ) (B L M : ℕ) (coord : Int → Int → Rat)
    (width param : Int → Rat) : EuclideanSpace ℂ (Fin B × Fin M) →ₗ[ℂ] EuclideanSpace ℂ (Fin B × Fin L) :=
  updLinG (cw wt (Gen.grid1 K (shape2 B L) (shape2 B M) (shape2 M 1) coord width param)) (bx1 B M) (bx1 B L)

theorem interp1B_adjoint (K : Rat → Rat → Rat) (wt : Rat → ℝ) (B L M : ℕ) (hL : 0 < L) (coord : Int → Int → Rat)
    (width param : Int → Rat) (u : EuclideanSpace ℂ (Fin B × Fin L)) (v : EuclideanSpace ℂ (Fin B × Fin M)) :
    ⟪interpLin1B K wt B L M coord width param u, v⟫_ℂ = ⟪u, gridLin1B K wt B L M coord width param v⟫_ℂ := by
  unfold interpLin1B gridLin1B
  rw [C07.grid1_eq_transpose_interp1, cw_swap]
  have hb : ∀ w ∈ cw wt (Gen.interp1 K (shape2 B M) (shape2 B L) (shape2 M 1) coord width param),
      (∃ j : Fin B × Fin M, w.1 = bx1 B M j) ∧ (∃ s : Fin B × Fin L, w.2.1 = bx1 B L s) := by
    intro w hw
    obtain ⟨v', hv', rfl⟩ := List.mem_map.mp hw
    have e0 : shape2 B L 0 = B := by simp [shape2]
    have e1 : shape2 B L 1 = L := by simp [shape2]
    have ec : shape2 M 1 0 = M := by simp [shape2]
    rw [C07.interp1_mem] at hv'
    simp only [e0, e1, ec] at hv'
    obtain ⟨j, i, b, hj0, hj1, _, hb0, hb1, rfl⟩ := hv'
    have hx := C07.pyMod_range i (L : ℤ) (by exact_mod_cast hL)
    refine ⟨⟨(⟨b.toNat, by omega⟩, ⟨j.toNat, by omega⟩), ?_⟩, ⟨(⟨b.toNat, by omega⟩, ⟨(pyMod i L).toNat, by omega⟩), ?_⟩⟩
    · simp only [bx1, Int.toNat_of_nonneg hb0, Int.toNat_of_nonneg hj0]
    · simp only [bx1, Int.toNat_of_nonneg hb0, Int.toNat_of_nonneg hx.1]
  exact updLinG_adjoint _ (bx1_inj B L) (bx1_inj B M) (cw_real wt _) (fun w hw => (hb w hw).1)
    (fun w hw => (hb w hw).2) u v

/-- `nufft` on one transform axis with batch size `B` -/
noncomputable def nufft1B (os : Rat) (B N L M : ℕ) (a : Fin B × Fin N → ℝ) (K : Rat → Rat → Rat) (wt : Rat → ℝ)
    (c : Int → Int → Rat) (W : Rat) (param : Int → Rat) (x : EuclideanSpace ℂ (Fin B × Fin N)) :
    EuclideanSpace ℂ (Fin B × Fin M) :=
  fwd (apodLinG a) (resizeLin1B B N L) (ufftLin1B B L)
    (interpLin1B K wt B L M (fun j k => Gen.scaleCoord os N (c j k)) (fun _ => W) param)
    (Gen.nufftFwdDiv Real.sqrt (N : ℤ)) (Gen.nufftFwdWidthDiv Real.sqrt (W : ℝ) 1) x

noncomputable def nufftAdjoint1B (os : Rat) (B N L M : ℕ) (a : Fin B × Fin N → ℝ) (K : Rat → Rat → Rat)
    (wt : Rat → ℝ) (c : Int → Int → Rat) (W : Rat) (param : Int → Rat) (y : EuclideanSpace ℂ (Fin B × Fin M)) :
    EuclideanSpace ℂ (Fin B × Fin N) :=
  adj (apodLinG a) (resizeLin1B B L N) (uifftLin1B B L)
    (gridLin1B K wt B L M (fun j k => Gen.scaleCoord os N (c j k)) (fun _ => W) param)
    (Gen.nufftAdjMul Real.sqrt (L : ℤ) (N : ℤ)) (Gen.nufftAdjWidthDiv Real.sqrt (W : ℝ) 1) y

/-- **batched 1-D: `nufft_adjoint` is exactly the adjoint of `nufft`**, no stage fact assumed -/
theorem nufft_adjoint_is_adjoint_1d_batch (os : Rat) (B N L M : ℕ) (hL : 0 < L) (a : Fin B × Fin N → ℝ)
    (K : Rat → Rat → Rat) (wt : Rat → ℝ) (c : Int → Int → Rat) (W : Rat) (param : Int → Rat)
    (x : EuclideanSpace ℂ (Fin B × Fin N)) (y : EuclideanSpace ℂ (Fin B × Fin M)) :
    ⟪nufft1B os B N L M a K wt c W param x, y⟫_ℂ = ⟪x, nufftAdjoint1B os B N L M a K wt c W param y⟫_ℂ :=
  nufft_adjoint_is_adjoint _ _ _ _ _ _ _ (L : ℤ) (N : ℤ) (W : ℝ) 1 (apodG_selfadjoint a) (resize1B_adjoint B N L)
    (ufft1B_adjoint B L hL) (interp1B_adjoint K wt B L M hL _ _ _) x y

end batch1

/-! ### two transform axes, batch size `B` -/

section batch2

noncomputable def resizeLin2B (B i1 i2 o1 o2 : ℕ) :
    EuclideanSpace ℂ (Fin B × Fin i1 × Fin i2) →ₗ[ℂ] EuclideanSpace ℂ (Fin B × Fin o1 × Fin o2) :=
  Matrix.toEuclideanLin (resizeMatNd [(B : ℤ), (i1 : ℤ), (i2 : ℤ)] [(B : ℤ), (o1 : ℤ), (o2 : ℤ)]
    (bx2 B i1 i2) (bx2 B o1 o2))

theorem resize2B_adjoint (B i1 i2 o1 o2 : ℕ) (u : EuclideanSpace ℂ (Fin B × Fin i1 × Fin i2))
    (v : EuclideanSpace ℂ (Fin B × Fin o1 × Fin o2)) :
    ⟪resizeLin2B B i1 i2 o1 o2 u, v⟫_ℂ = ⟪u, resizeLin2B B o1 o2 i1 i2 v⟫_ℂ := by
  unfold resizeLin2B
  rw [inner_toEuclideanLin, resizeMatNd_conjTranspose]

noncomputable def ufftLin2B (B L1 L2 : ℕ) :
    EuclideanSpace ℂ (Fin B × Fin L1 × Fin L2) →ₗ[ℂ] EuclideanSpace ℂ (Fin B × Fin L1 × Fin L2) :=
  Matrix.toEuclideanLin (kroneckerMap (· * ·) (1 : Matrix (Fin B) (Fin B) ℂ)
    (kroneckerMap (· * ·) (C05.dftMatrix (fftRoot L1) L1 true 1) (C05.dftMatrix (fftRoot L2) L2 true 1)))

noncomputable def uifftLin2B (B L1 L2 : ℕ) :
    EuclideanSpace ℂ (Fin B × Fin L1 × Fin L2) →ₗ[ℂ] EuclideanSpace ℂ (Fin B × Fin L1 × Fin L2) :=
  Matrix.toEuclideanLin (kroneckerMap (· * ·) (1 : Matrix (Fin B) (Fin B) ℂ)
    (kroneckerMap (· * ·) (C05.dftMatrix (fftRoot L1)⁻¹ L1 true (1 / L1)) (C05.dftMatrix (fftRoot L2)⁻¹ L2 true (1 / L2))))

theorem ufft2B_adjoint (B L1 L2 : ℕ) (h1 : 0 < L1) (h2 : 0 < L2) (u v : EuclideanSpace ℂ (Fin B × Fin L1 × Fin L2)) :
    ⟪ufftLin2B B L1 L2 u, v⟫_ℂ = ⟪u, ((((L1 : ℤ) * (L2 : ℤ) : ℤ) : ℝ) : ℂ) • uifftLin2B B L1 L2 v⟫_ℂ := by
  unfold ufftLin2B uifftLin2B
  exact inner_of_adjScaled (adjScaled_kron adjScaled_one (adjScaled_kron (adjScaled_dft L1 h1) (adjScaled_dft L2 h2)))
    ((L1 : ℤ) * (L2 : ℤ)) (by push_cast; ring) u v

noncomputable def interpLin2B (K : Rat → Rat → Rat) (wt : Rat → ℝ) (B L1 L2 M : ℕ) (coord : Int → Int → Rat)
    (width param : Int → Rat) : EuclideanSpace ℂ (Fin B × Fin L1 × Fin L2) →ₗ[ℂ] EuclideanSpace ℂ (Fin B × Fin M) :=
  updLinG (cw wt (Gen.interp2 K (shape2 B M) (shape3 B L1 L2) (shape2 M 2) coord width param)) (bx2 B L1 L2) (bx1 B M)

noncomputable def gridLin2B (K : Rat → Rat → Rat) (wt : Rat → ℝ) (B L1 L2 M : ℕ) (coord : Int → Int → Rat)
    (width param : Int → Rat) : EuclideanSpace ℂ (Fin B × Fin M) →ₗ[ℂ] EuclideanSpace ℂ (Fin B × Fin L1 × Fin L2) :=
  updLinG (cw wt (Gen.grid2 K (shape3 B L1 L2) (shape2 B M) (shape2 M 2) coord width param)) (bx1 B M) (bx2 B L1 L2)

theorem interp2B_adjoint (K : Rat → Rat → Rat) (wt : Rat → ℝ) (B L1 L2 M : ℕ) (h1 : 0 < L1) (h2 : 0 < L2)
    (coord : Int → Int → Rat) (width param : Int → Rat) (u : EuclideanSpace ℂ (Fin B × Fin L1 × Fin L2))
    (v : EuclideanSpace ℂ (Fin B × Fin M)) :
    ⟪interpLin2B K wt B L1 L2 M coord width param u, v⟫_ℂ = ⟪u, gridLin2B K wt B L1 L2 M coord width param v⟫_ℂ := by
  unfold interpLin2B gridLin2B
  rw [C07.grid2_eq_transpose_interp2, cw_swap]
  have hb : ∀ w ∈ cw wt (Gen.interp2 K (shape2 B M) (shape3 B L1 L2) (shape2 M 2) coord width param),
      (∃ j : Fin B × Fin M, w.1 = bx1 B M j) ∧ (∃ s : Fin B × Fin L1 × Fin L2, w.2.1 = bx2 B L1 L2 s) := by
    intro w hw
    obtain ⟨v', hv', rfl⟩ := List.mem_map.mp hw
    have e0 : shape3 B L1 L2 0 = B := by simp [shape3]
    have e1 : shape3 B L1 L2 1 = L1 := by simp [shape3]
    have e2 : shape3 B L1 L2 2 = L2 := by simp [shape3]
    have ec : shape2 M 2 0 = M := by simp [shape2]
    rw [C07.interp2_mem] at hv'
    simp only [e0, e1, e2, ec] at hv'
    obtain ⟨j, iy, ix, b, hj0, hj1, _, _, hb0, hb1, rfl⟩ := hv'
    have hy := C07.pyMod_range iy (L1 : ℤ) (by exact_mod_cast h1)
    have hx := C07.pyMod_range ix (L2 : ℤ) (by exact_mod_cast h2)
    refine ⟨⟨(⟨b.toNat, by omega⟩, ⟨j.toNat, by omega⟩), ?_⟩,
      ⟨(⟨b.toNat, by omega⟩, ⟨(pyMod iy L1).toNat, by omega⟩, ⟨(pyMod ix L2).toNat, by omega⟩), ?_⟩⟩
    · simp only [bx1, Int.toNat_of_nonneg hb0, Int.toNat_of_nonneg hj0]
    · simp only [bx2, Int.toNat_of_nonneg hb0, Int.toNat_of_nonneg hy.1, Int.toNat_of_nonneg hx.1]
  exact updLinG_adjoint _ (bx2_inj B L1 L2) (bx1_inj B M) (cw_real wt _) (fun w hw => (hb w hw).1)
    (fun w hw => (hb w hw).2) u v

noncomputable def nufft2B (os : Rat) (B N1 N2 L1 L2 M : ℕ) (a : Fin B × Fin N1 × Fin N2 → ℝ) (K : Rat → Rat → Rat)
    (wt : Rat → ℝ) (c : Int → Int → Rat) (W : Rat) (param : Int → Rat)
    (x : EuclideanSpace ℂ (Fin B × Fin N1 × Fin N2)) : EuclideanSpace ℂ (Fin B × Fin M) :=
  fwd (apodLinG a) (resizeLin2B B N1 N2 L1 L2) (ufftLin2B B L1 L2)
    (interpLin2B K wt B L1 L2 M (fun j k => Gen.scaleCoord os (imgShape2 N1 N2 k) (c j k)) (fun _ => W) param)
    (Gen.nufftFwdDiv Real.sqrt ((N1 : ℤ) * (N2 : ℤ))) (Gen.nufftFwdWidthDiv Real.sqrt (W : ℝ) 2) x

noncomputable def nufftAdjoint2B (os : Rat) (B N1 N2 L1 L2 M : ℕ) (a : Fin B × Fin N1 × Fin N2 → ℝ)
    (K : Rat → Rat → Rat) (wt : Rat → ℝ) (c : Int → Int → Rat) (W : Rat) (param : Int → Rat)
    (y : EuclideanSpace ℂ (Fin B × Fin M)) : EuclideanSpace ℂ (Fin B × Fin N1 × Fin N2) :=
  adj (apodLinG a) (resizeLin2B B L1 L2 N1 N2) (uifftLin2B B L1 L2)
    (gridLin2B K wt B L1 L2 M (fun j k => Gen.scaleCoord os (imgShape2 N1 N2 k) (c j k)) (fun _ => W) param)
    (Gen.nufftAdjMul Real.sqrt ((L1 : ℤ) * (L2 : ℤ)) ((N1 : ℤ) * (N2 : ℤ))) (Gen.nufftAdjWidthDiv Real.sqrt (W : ℝ) 2) y

/-- **batched 2-D: `nufft_adjoint` is exactly the adjoint of `nufft`**, no stage fact assumed -/
theorem nufft_adjoint_is_adjoint_2d_batch (os : Rat) (B N1 N2 L1 L2 M : ℕ) (h1 : 0 < L1) (h2 : 0 < L2)
    (a : Fin B × Fin N1 × Fin N2 → ℝ) (K : Rat → Rat → Rat) (wt : Rat → ℝ) (c : Int → Int → Rat) (W : Rat)
    (param : Int → Rat) (x : EuclideanSpace ℂ (Fin B × Fin N1 × Fin N2)) (y : EuclideanSpace ℂ (Fin B × Fin M)) :
    ⟪nufft2B os B N1 N2 L1 L2 M a K wt c W param x, y⟫_ℂ =
      ⟪x, nufftAdjoint2B os B N1 N2 L1 L2 M a K wt c W param y⟫_ℂ :=
  nufft_adjoint_is_adjoint _ _ _ _ _ _ _ ((L1 : ℤ) * (L2 : ℤ)) ((N1 : ℤ) * (N2 : ℤ)) (W : ℝ) 2 (apodG_selfadjoint a)
    (resize2B_adjoint B N1 N2 L1 L2) (ufft2B_adjoint B L1 L2 h1 h2) (interp2B_adjoint K wt B L1 L2 M h1 h2 _ _ _) x y

end batch2

/-! ### three transform axes, batch size `B` -/

section batch3

noncomputable def resizeLin3B (B i1 i2 i3 o1 o2 o3 : ℕ) :
    EuclideanSpace ℂ (Fin B × Fin i1 × Fin i2 × Fin i3) →ₗ[ℂ] EuclideanSpace ℂ (Fin B × Fin o1 × Fin o2 × Fin o3) :=
  Matrix.toEuclideanLin (resizeMatNd [(B : ℤ), (i1 : ℤ), (i2 : ℤ), (i3 : ℤ)] [(B : ℤ), (o1 : ℤ), (o2 : ℤ), (o3 : ℤ)]
    (bx3 B i1 i2 i3) (bx3 B o1 o2 o3))

theorem resize3B_adjoint (B i1 i2 i3 o1 o2 o3 : ℕ) (u : EuclideanSpace ℂ (Fin B × Fin i1 × Fin i2 × Fin i3))
    (v : EuclideanSpace ℂ (Fin B × Fin o1 × Fin o2 × Fin o3)) :
    ⟪resizeLin3B B i1 i2 i3 o1 o2 o3 u, v⟫_ℂ = ⟪u, resizeLin3B B o1 o2 o3 i1 i2 i3 v⟫_ℂ := by
  unfold resizeLin3B
  rw [inner_toEuclideanLin, resizeMatNd_conjTranspose]

-- non-vacuity of the batched N-d resize matrix: [2, 2, 3, 1] → [2, 3, 4, 2]: batch item 1, sample (1,1,0) lands on (1,2,1)
example : resizeMatNd [2, 2, 3, 1] [2, 3, 4, 2] (bx3 2 2 3 1) (bx3 2 3 4 2) (1, 1, 2, 1) (1, 1, 1, 0) = 1 := by
  unfold resizeMatNd
  simp only [of_apply]
  rw [if_pos]
  decide

noncomputable def ufftLin3B (B L1 L2 L3 : ℕ) :
    EuclideanSpace ℂ (Fin B × Fin L1 × Fin L2 × Fin L3) →ₗ[ℂ] EuclideanSpace ℂ (Fin B × Fin L1 × Fin L2 × Fin L3) :=
  Matrix.toEuclideanLin (kroneckerMap (· * ·) (1 : Matrix (Fin B) (Fin B) ℂ)
    (kroneckerMap (· * ·) (C05.dftMatrix (fftRoot L1) L1 true 1)
      (kroneckerMap (· * ·) (C05.dftMatrix (fftRoot L2) L2 true 1) (C05.dftMatrix (fftRoot L3) L3 true 1))))

noncomputable def uifftLin3B (B L1 L2 L3 : ℕ) :
    EuclideanSpace ℂ (Fin B × Fin L1 × Fin L2 × Fin L3) →ₗ[ℂ] EuclideanSpace ℂ (Fin B × Fin L1 × Fin L2 × Fin L3) :=
  Matrix.toEuclideanLin (kroneckerMap (· * ·) (1 : Matrix (Fin B) (Fin B) ℂ)
    (kroneckerMap (· * ·) (C05.dftMatrix (fftRoot L1)⁻¹ L1 true (1 / L1))
      (kroneckerMap (· * ·) (C05.dftMatrix (fftRoot L2)⁻¹ L2 true (1 / L2)) (C05.dftMatrix (fftRoot L3)⁻¹ L3 true (1 / L3)))))

theorem ufft3B_adjoint (B L1 L2 L3 : ℕ) (h1 : 0 < L1) (h2 : 0 < L2) (h3 : 0 < L3)
    (u v : EuclideanSpace ℂ (Fin B × Fin L1 × Fin L2 × Fin L3)) :
    ⟪ufftLin3B B L1 L2 L3 u, v⟫_ℂ =
      ⟪u, ((((L1 : ℤ) * (L2 : ℤ) * (L3 : ℤ) : ℤ) : ℝ) : ℂ) • uifftLin3B B L1 L2 L3 v⟫_ℂ := by
  unfold ufftLin3B uifftLin3B
  exact inner_of_adjScaled (adjScaled_kron adjScaled_one (adjScaled_kron (adjScaled_dft L1 h1)
    (adjScaled_kron (adjScaled_dft L2 h2) (adjScaled_dft L3 h3))))
    ((L1 : ℤ) * (L2 : ℤ) * (L3 : ℤ)) (by push_cast; ring) u v

noncomputable def interpLin3B (K : Rat → Rat → Rat) (wt : Rat → ℝ) (B L1 L2 L3 M : ℕ) (coord : Int → Int → Rat)
    (width param : Int → Rat) :
    EuclideanSpace ℂ (Fin B × Fin L1 × Fin L2 × Fin L3) →ₗ[ℂ] EuclideanSpace ℂ (Fin B × Fin M) :=
  updLinG (cw wt (Gen.interp3 K (shape2 B M) (shape4 B L1 L2 L3) (shape2 M 3) coord width param))
    (bx3 B L1 L2 L3) (bx1 B M)

noncomputable def gridLin3B (K : Rat → Rat → Rat) (wt : Rat → ℝ) (B L1 L2 L3 M : ℕ) (coord : Int → Int → Rat)
    (width param : Int → Rat) :
    EuclideanSpace ℂ (Fin B × Fin M) →ₗ[ℂ] EuclideanSpace ℂ (Fin B × Fin L1 × Fin L2 × Fin L3) :=
  updLinG (cw wt (Gen.grid3 K (shape4 B L1 L2 L3) (shape2 B M) (shape2 M 3) coord width param))
    (bx1 B M) (bx3 B L1 L2 L3)

/-- gridding = interpolationᴴ, three axes, batch size `B` (C07: `grid3_eq_transpose_interp3`, `interp3_mem`,
    `transpose_pairing`) -/
theorem interp3B_adjoint (K : Rat → Rat → Rat) (wt : Rat → ℝ) (B L1 L2 L3 M : ℕ) (h1 : 0 < L1) (h2 : 0 < L2)
    (h3 : 0 < L3) (coord : Int → Int → Rat) (width param : Int → Rat)
    (u : EuclideanSpace ℂ (Fin B × Fin L1 × Fin L2 × Fin L3)) (v : EuclideanSpace ℂ (Fin B × Fin M)) :
    ⟪interpLin3B K wt B L1 L2 L3 M coord width param u, v⟫_ℂ =
      ⟪u, gridLin3B K wt B L1 L2 L3 M coord width param v⟫_ℂ := by
  unfold interpLin3B gridLin3B
  rw [C07.grid3_eq_transpose_interp3, cw_swap]
  have hb : ∀ w ∈ cw wt (Gen.interp3 K (shape2 B M) (shape4 B L1 L2 L3) (shape2 M 3) coord width param),
      (∃ j : Fin B × Fin M, w.1 = bx1 B M j) ∧
        (∃ s : Fin B × Fin L1 × Fin L2 × Fin L3, w.2.1 = bx3 B L1 L2 L3 s) := by
    intro w hw
    obtain ⟨v', hv', rfl⟩ := List.mem_map.mp hw
    have e0 : shape4 B L1 L2 L3 0 = B := by simp [shape4]
    have e1 : shape4 B L1 L2 L3 1 = L1 := by simp [shape4]
    have e2 : shape4 B L1 L2 L3 2 = L2 := by simp [shape4]
    have e3 : shape4 B L1 L2 L3 3 = L3 := by simp [shape4]
    have ec : shape2 M 3 0 = M := by simp [shape2]
    rw [C07.interp3_mem] at hv'
    simp only [e0, e1, e2, e3, ec] at hv'
    obtain ⟨j, iz, iy, ix, b, hj0, hj1, _, _, _, hb0, hb1, rfl⟩ := hv'
    have hz := C07.pyMod_range iz (L1 : ℤ) (by exact_mod_cast h1)
    have hy := C07.pyMod_range iy (L2 : ℤ) (by exact_mod_cast h2)
    have hx := C07.pyMod_range ix (L3 : ℤ) (by exact_mod_cast h3)
    refine ⟨⟨(⟨b.toNat, by omega⟩, ⟨j.toNat, by omega⟩), ?_⟩,
      ⟨(⟨b.toNat, by omega⟩, ⟨(pyMod iz L1).toNat, by omega⟩, ⟨(pyMod iy L2).toNat, by omega⟩,
        ⟨(pyMod ix L3).toNat, by omega⟩), ?_⟩⟩
    · simp only [bx1, Int.toNat_of_nonneg hb0, Int.toNat_of_nonneg hj0]
    · simp only [bx3, Int.toNat_of_nonneg hb0, Int.toNat_of_nonneg hz.1, Int.toNat_of_nonneg hy.1,
        Int.toNat_of_nonneg hx.1]
  exact updLinG_adjoint _ (bx3_inj B L1 L2 L3) (bx1_inj B M) (cw_real wt _) (fun w hw => (hb w hw).1)
    (fun w hw => (hb w hw).2) u v

/-- `nufft` on three transform axes (`ndim = 3`), batch size `B`, from the concrete stages with the code's constants -/
noncomputable def nufft3B (os : Rat) (B N1 N2 N3 L1 L2 L3 M : ℕ) (a : Fin B × Fin N1 × Fin N2 × Fin N3 → ℝ)
    (K : Rat → Rat → Rat) (wt : Rat → ℝ) (c : Int → Int → Rat) (W : Rat) (param : Int → Rat)
    (x : EuclideanSpace ℂ (Fin B × Fin N1 × Fin N2 × Fin N3)) : EuclideanSpace ℂ (Fin B × Fin M) :=
  fwd (apodLinG a) (resizeLin3B B N1 N2 N3 L1 L2 L3) (ufftLin3B B L1 L2 L3)
    (interpLin3B K wt B L1 L2 L3 M (fun j k => Gen.scaleCoord os (imgShape3 N1 N2 N3 k) (c j k)) (fun _ => W) param)
    (Gen.nufftFwdDiv Real.sqrt ((N1 : ℤ) * (N2 : ℤ) * (N3 : ℤ))) (Gen.nufftFwdWidthDiv Real.sqrt (W : ℝ) 3) x

noncomputable def nufftAdjoint3B (os : Rat) (B N1 N2 N3 L1 L2 L3 M : ℕ) (a : Fin B × Fin N1 × Fin N2 × Fin N3 → ℝ)
    (K : Rat → Rat → Rat) (wt : Rat → ℝ) (c : Int → Int → Rat) (W : Rat) (param : Int → Rat)
    (y : EuclideanSpace ℂ (Fin B × Fin M)) : EuclideanSpace ℂ (Fin B × Fin N1 × Fin N2 × Fin N3) :=
  adj (apodLinG a) (resizeLin3B B L1 L2 L3 N1 N2 N3) (uifftLin3B B L1 L2 L3)
    (gridLin3B K wt B L1 L2 L3 M (fun j k => Gen.scaleCoord os (imgShape3 N1 N2 N3 k) (c j k)) (fun _ => W) param)
    (Gen.nufftAdjMul Real.sqrt ((L1 : ℤ) * (L2 : ℤ) * (L3 : ℤ)) ((N1 : ℤ) * (N2 : ℤ) * (N3 : ℤ)))
    (Gen.nufftAdjWidthDiv Real.sqrt (W : ℝ) 3) y

/-- **batched 3-D: `nufft_adjoint` is exactly the adjoint of `nufft`** for any oversamp, width, kernel, coordinates,
    batch size and grid lengths `L_d > 0`; no stage fact assumed (only: real apodisation weights, real-valued kernel). -/
theorem nufft_adjoint_is_adjoint_3d_batch (os : Rat) (B N1 N2 N3 L1 L2 L3 M : ℕ) (h1 : 0 < L1) (h2 : 0 < L2)
    (h3 : 0 < L3) (a : Fin B × Fin N1 × Fin N2 × Fin N3 → ℝ) (K : Rat → Rat → Rat) (wt : Rat → ℝ)
    (c : Int → Int → Rat) (W : Rat) (param : Int → Rat) (x : EuclideanSpace ℂ (Fin B × Fin N1 × Fin N2 × Fin N3))
    (y : EuclideanSpace ℂ (Fin B × Fin M)) :
    ⟪nufft3B os B N1 N2 N3 L1 L2 L3 M a K wt c W param x, y⟫_ℂ =
      ⟪x, nufftAdjoint3B os B N1 N2 N3 L1 L2 L3 M a K wt c W param y⟫_ℂ :=
  nufft_adjoint_is_adjoint _ _ _ _ _ _ _ ((L1 : ℤ) * (L2 : ℤ) * (L3 : ℤ)) ((N1 : ℤ) * (N2 : ℤ) * (N3 : ℤ)) (W : ℝ) 3
    (apodG_selfadjoint a) (resize3B_adjoint B N1 N2 N3 L1 L2 L3) (ufft3B_adjoint B L1 L2 L3 h1 h2 h3)
    (interp3B_adjoint K wt B L1 L2 L3 M h1 h2 h3 _ _ _) x y

/-- the unbatched 3-D transform is the case `B = 1` -/
theorem nufft_adjoint_is_adjoint_3d (os : Rat) (N1 N2 N3 L1 L2 L3 M : ℕ) (h1 : 0 < L1) (h2 : 0 < L2) (h3 : 0 < L3)
    (a : Fin 1 × Fin N1 × Fin N2 × Fin N3 → ℝ) (K : Rat → Rat → Rat) (wt : Rat → ℝ) (c : Int → Int → Rat) (W : Rat)
    (param : Int → Rat) (x : EuclideanSpace ℂ (Fin 1 × Fin N1 × Fin N2 × Fin N3)) (y : EuclideanSpace ℂ (Fin 1 × Fin M)) :
    ⟪nufft3B os 1 N1 N2 N3 L1 L2 L3 M a K wt c W param x, y⟫_ℂ =
      ⟪x, nufftAdjoint3B os 1 N1 N2 N3 L1 L2 L3 M a K wt c W param y⟫_ℂ :=
  nufft_adjoint_is_adjoint_3d_batch os 1 N1 N2 N3 L1 L2 L3 M h1 h2 h3 a K wt c W param x y

/-- with sigpy's grid lengths `L_d = ceil(os · N_d)` (`Gen.oversampLen`), any batch size -/
theorem nufft_adjoint_is_adjoint_3d_code (os : Rat) (B N1 N2 N3 M : ℕ) (hN1 : 0 < N1) (hN2 : 0 < N2) (hN3 : 0 < N3)
    (hos : 1 ≤ os) (a : Fin B × Fin N1 × Fin N2 × Fin N3 → ℝ) (K : Rat → Rat → Rat) (wt : Rat → ℝ)
    (c : Int → Int → Rat) (W : Rat) (param : Int → Rat) (x : EuclideanSpace ℂ (Fin B × Fin N1 × Fin N2 × Fin N3))
    (y : EuclideanSpace ℂ (Fin B × Fin M)) :
    ⟪nufft3B os B N1 N2 N3 (Gen.oversampLen os N1).toNat (Gen.oversampLen os N2).toNat (Gen.oversampLen os N3).toNat M
        a K wt c W param x, y⟫_ℂ =
      ⟪x, nufftAdjoint3B os B N1 N2 N3 (Gen.oversampLen os N1).toNat (Gen.oversampLen os N2).toNat
        (Gen.oversampLen os N3).toNat M a K wt c W param y⟫_ℂ :=
  nufft_adjoint_is_adjoint_3d_batch os B N1 N2 N3 _ _ _ M (oversampLen_pos os N1 hN1 hos) (oversampLen_pos os N2 hN2 hos)
    (oversampLen_pos os N3 hN3 hos) a K wt c W param x y

end batch3

/-! ### batch items do not mix: the batched interpolation is the same map on every item -/

/-- every update of the batched interpolation list keeps the batch index: destination `[b, j]` reads sources
    `[b, …]` of the SAME `b` (1-D; 2-D / 3-D: `C07.interp2_mem` / `interp3_mem` show the same shape) -/
theorem interp1_batch_diagonal (K : Rat → Rat → Rat) (osh ish csh : Int → Int) (coord : Int → Int → Rat)
    (width param : Int → Rat) (u : Upd Rat) (hu : u ∈ Gen.interp1 K osh ish csh coord width param) :
    u.1.head? = u.2.1.head? := by
  obtain ⟨j, i, b, _, _, _, _, _, rfl⟩ := (C07.interp1_mem ..).mp hu
  rfl

theorem interp2_batch_diagonal (K : Rat → Rat → Rat) (osh ish csh : Int → Int) (coord : Int → Int → Rat)
    (width param : Int → Rat) (u : Upd Rat) (hu : u ∈ Gen.interp2 K osh ish csh coord width param) :
    u.1.head? = u.2.1.head? := by
  obtain ⟨j, iy, ix, b, _, _, _, _, _, _, rfl⟩ := (C07.interp2_mem ..).mp hu
  rfl

theorem interp3_batch_diagonal (K : Rat → Rat → Rat) (osh ish csh : Int → Int) (coord : Int → Int → Rat)
    (width param : Int → Rat) (u : Upd Rat) (hu : u ∈ Gen.interp3 K osh ish csh coord width param) :
    u.1.head? = u.2.1.head? := by
  obtain ⟨j, iz, iy, ix, b, _, _, _, _, _, _, _, rfl⟩ := (C07.interp3_mem ..).mp hu
  rfl

/-! ### the weights `_apodize` computes are real -/

/-- numpy's `z ** 0.5` on a complex array holding the real number `r`: the principal square root -/
noncomputable def csqrtReal (r : ℝ) : ℂ := (r : ℂ) ^ (((1 / 2 : ℝ)) : ℂ)

/-- for every real `r`, `√r / sinh √r` (principal complex square root) is a real number: for `r ≥ 0` it is
    `s / sinh s` with `s = √r`, for `r < 0` it is `s / sin s` with `s = √(-r)` (`sinh(i s) = i sin s`) -/
theorem csqrt_div_sinh_real (r : ℝ) : (csqrtReal r / Complex.sinh (csqrtReal r)).im = 0 := by
  unfold csqrtReal
  by_cases hr : 0 ≤ r
  · rw [← Complex.ofReal_cpow hr, ← Complex.ofReal_sinh, ← Complex.ofReal_div, Complex.ofReal_im]
  · have hr' : r ≤ 0 := le_of_lt (not_le.mp hr)
    have hI : Complex.exp ((Real.pi : ℂ) * Complex.I * (((1 / 2 : ℝ)) : ℂ)) = Complex.I := by
      have : (Real.pi : ℂ) * Complex.I * (((1 / 2 : ℝ)) : ℂ) = ((Real.pi / 2 : ℝ) : ℂ) * Complex.I := by
        push_cast; ring
      rw [this, Complex.exp_mul_I, ← Complex.ofReal_cos, ← Complex.ofReal_sin, Real.cos_pi_div_two,
        Real.sin_pi_div_two]
      simp
    rw [Complex.ofReal_cpow_of_nonpos hr', hI, ← Complex.ofReal_neg, ← Complex.ofReal_cpow (by linarith),
      Complex.sinh_mul_I, ← Complex.ofReal_sin, mul_div_mul_right _ _ Complex.I_ne_zero, ← Complex.ofReal_div,
      Complex.ofReal_im]

/-- the factor `_apodize` multiplies sample `n` of an axis of length `N` with (the formula whose shape the translator
    checks, `Gen.apodFormulaChecked`; centre `Gen.apodCentre`, oversampled length `Gen.apodOsLen` generated):
    `a / sinh a`, `a = (β² - (π W (n - N//2) / os_N)²) ** 0.5` -/
noncomputable def apodWeight (beta W : ℝ) (os : Rat) (N n : ℤ) : ℂ :=
  csqrtReal (beta ^ 2 - (Real.pi * W * ((n - Gen.apodCentre N : ℤ) : ℝ) / ((Gen.apodOsLen os N : ℤ) : ℝ)) ^ 2) /
    Complex.sinh (csqrtReal (beta ^ 2 -
      (Real.pi * W * ((n - Gen.apodCentre N : ℤ) : ℝ) / ((Gen.apodOsLen os N : ℤ) : ℝ)) ^ 2))

/-- **`_apodize` multiplies by real numbers** (any beta, width, oversamp, axis length, index — also where the
    square root is imaginary): the hypothesis "real apodisation weights" of the adjoint theorems holds for the code's formula -/
theorem apodWeight_real (beta W : ℝ) (os : Rat) (N n : ℤ) : (apodWeight beta W os N n).im = 0 :=
  csqrt_div_sinh_real _

theorem apodWeight_eq_re (beta W : ℝ) (os : Rat) (N n : ℤ) :
    apodWeight beta W os N n = (((apodWeight beta W os N n).re : ℝ) : ℂ) := by
  apply Complex.ext
  · simp
  · simp [apodWeight_real]

/-- `_apodize` over three transform axes of a batched array multiplies sample `(b, n₁, n₂, n₃)` by the product of the
    three per-axis factors (one `output *= apod.reshape(...)` per axis, independent of `b`): that diagonal operator is
    `apodLinG` of a REAL weight vector, so `nufft_adjoint_is_adjoint_3d_batch` applies to the code's apodisation -/
theorem apodize3_is_real_diagonal (beta W : ℝ) (os : Rat) (B N1 N2 N3 : ℕ) :
    Matrix.toEuclideanLin (Matrix.diagonal fun p : Fin B × Fin N1 × Fin N2 × Fin N3 =>
        apodWeight beta W os N1 ((p.2.1 : ℕ) : ℤ) * apodWeight beta W os N2 ((p.2.2.1 : ℕ) : ℤ) *
          apodWeight beta W os N3 ((p.2.2.2 : ℕ) : ℤ)) =
      apodLinG fun p : Fin B × Fin N1 × Fin N2 × Fin N3 =>
        (apodWeight beta W os N1 ((p.2.1 : ℕ) : ℤ)).re * (apodWeight beta W os N2 ((p.2.2.1 : ℕ) : ℤ)).re *
          (apodWeight beta W os N3 ((p.2.2.2 : ℕ) : ℤ)).re := by
  unfold apodLinG
  congr 2
  funext p
  rw [apodWeight_eq_re beta W os N1, apodWeight_eq_re beta W os N2, apodWeight_eq_re beta W os N3]
  push_cast
  simp only

-- non-vacuity: at the centre sample with beta² > 0 the weight is `beta / sinh beta` (real square root branch)
example (beta W : ℝ) (os : Rat) (N : ℤ) :
    apodWeight beta W os N (Gen.apodCentre N) = csqrtReal (beta ^ 2) / Complex.sinh (csqrtReal (beta ^ 2)) := by
  unfold apodWeight
  simp

end SigpyVerif.C06
