import SigpyVerif.Model.C07
import SigpyVerif.Lemmas.Py
import SigpyVerif.Lemmas.C07
/-
  C07 — interpolate / gridding implement the documented kernel sums.

  Every theorem below is about the definitions `Gen.interp1..3`, `Gen.grid1..3`, `Gen.splineKernel`
  that the translator regenerates from sigpy/interp.py on every run: a changed bound, rounding
  direction, index expression, axis pairing, wrap or update kind in the source changes the definition
  and the theorem no longer checks.  The kernel `K : Rat → Rat → Rat` is abstract (the statements hold
  for the spline and for Kaiser–Bessel alike); coordinates, widths and params are rationals.

  The Python wrappers `interpolate` / `gridding` (batch flattening, scalar/per-axis broadcasting, dispatch,
  reshape) are translator-generated too (`Gen.InterpWrappers`) and the theorems about them — and about the
  executable array application `applyUpd` vs. the function-level semantics `runUpd` used below — are in
  `Props/C07Wrap.lean` (`wrapper_spec`, `gridding_wrapper_spec`, `applyUpd_eq_runUpd`, `*_value_spec`).

  What is NOT carried by a theorem (validated by the correspondence check instead): float rounding of the
  weights, the numerical accuracy of the polynomial approximation of I0 in `_kaiser_bessel_kernel` (search
  oracle vs scipy.special.i0), numba's compilation of the loop nests, numpy's reshape / zeros.
-/
namespace SigpyVerif.C07
open SigpyVerif

/-! ### the window -/

/-- The loop bounds `x0 = ceil(c - W/2)`, `x1 = floor(c + W/2)` (inclusive) select exactly the integers
    with `|i - c| ≤ W/2` — for every rational centre and width, ties at the window edge included
    (e.g. half-integer `c` with odd `W`, integer `c` with even `W`). -/
theorem window_iff_abs (c W : Rat) (i : Int) :
    (Rat.ceil (c - W / 2) ≤ i ∧ i ≤ Rat.floor (c + W / 2)) ↔ |(i : Rat) - c| ≤ W / 2 :=
  window_iff_abs' c W i

-- non-vacuity / ties: centre 1/2, width 1: both 0 and 1 are in the window, 2 is not
example : Rat.ceil ((1 / 2 : Rat) - 1 / 2) ≤ 0 ∧ (0 : Int) ≤ Rat.floor ((1 / 2 : Rat) + 1 / 2) :=
  (window_iff_abs (1 / 2) 1 0).mpr (by norm_num)
example : Rat.ceil ((1 / 2 : Rat) - 1 / 2) ≤ 1 ∧ (1 : Int) ≤ Rat.floor ((1 / 2 : Rat) + 1 / 2) :=
  (window_iff_abs (1 / 2) 1 1).mpr (by norm_num)
example : ¬ (Rat.ceil ((1 / 2 : Rat) - 1 / 2) ≤ 2 ∧ (2 : Int) ≤ Rat.floor ((1 / 2 : Rat) + 1 / 2)) := by
  rw [window_iff_abs]; norm_num

/-! ### interpolation: the update list is exactly the documented sum -/

/-- `_interpolate1`: `(dst, src, w)` is an update iff there are a point `j`, an integer `i` within
    `W/2` of `c_j` and a batch index `b` with `dst = [b, j]`, `src = [b, i mod n]`,
    `w = K((i - c_j)/(W/2), param)` — i.e. `y[b,j] += Σ_{|i - c_j| ≤ W/2} K(..) x[b, i mod n]` with
    periodic wrap, using `coord[j,-1]`, `width[-1]`, `param[-1]`. -/
theorem interp1_mem (K : Rat → Rat → Rat) (osh ish csh : Int → Int) (coord : Int → Int → Rat)
    (width param : Int → Rat) (u : Upd Rat) :
    u ∈ Gen.interp1 K osh ish csh coord width param ↔
      ∃ j i b : Int, 0 ≤ j ∧ j < csh 0 ∧ |(i : Rat) - coord j (-1)| ≤ width (-1) / 2 ∧ 0 ≤ b ∧ b < ish 0 ∧
        u = ([b, j], [b, pyMod i (ish 1)],
             K (((i : Rat) - coord j (-1)) / (width (-1) / 2)) (param (-1))) := by
  unfold Gen.interp1
  simp only [List.mem_flatMap, mem_pyRange0', mem_window, List.mem_singleton]
  simp only [cast2]
  constructor
  · rintro ⟨j, ⟨hj0, hj1⟩, i, hi, b, ⟨hb0, hb1⟩, rfl⟩
    exact ⟨j, i, b, hj0, hj1, hi, hb0, hb1, rfl⟩
  · rintro ⟨j, i, b, hj0, hj1, hi, hb0, hb1, rfl⟩
    exact ⟨j, ⟨hj0, hj1⟩, i, hi, b, ⟨hb0, hb1⟩, rfl⟩

/-- `_interpolate2`: same, with the separable product weight; the axis pairing is
    `coord[j,-1] ↔ last grid axis ↔ width[-1], param[-1]` and `coord[j,-2] ↔ first grid axis ↔ width[-2], param[-2]`. -/
theorem interp2_mem (K : Rat → Rat → Rat) (osh ish csh : Int → Int) (coord : Int → Int → Rat)
    (width param : Int → Rat) (u : Upd Rat) :
    u ∈ Gen.interp2 K osh ish csh coord width param ↔
      ∃ j iy ix b : Int, 0 ≤ j ∧ j < csh 0 ∧
        |(iy : Rat) - coord j (-2)| ≤ width (-2) / 2 ∧ |(ix : Rat) - coord j (-1)| ≤ width (-1) / 2 ∧
        0 ≤ b ∧ b < ish 0 ∧
        u = ([b, j], [b, pyMod iy (ish 1), pyMod ix (ish 2)],
             K (((iy : Rat) - coord j (-2)) / (width (-2) / 2)) (param (-2)) *
             K (((ix : Rat) - coord j (-1)) / (width (-1) / 2)) (param (-1))) := by
  unfold Gen.interp2
  simp only [List.mem_flatMap, mem_pyRange0', mem_window, List.mem_singleton]
  simp only [cast2]
  constructor
  · rintro ⟨j, ⟨hj0, hj1⟩, iy, hy, ix, hx, b, ⟨hb0, hb1⟩, rfl⟩
    exact ⟨j, iy, ix, b, hj0, hj1, hy, hx, hb0, hb1, rfl⟩
  · rintro ⟨j, iy, ix, b, hj0, hj1, hy, hx, hb0, hb1, rfl⟩
    exact ⟨j, ⟨hj0, hj1⟩, iy, hy, ix, hx, b, ⟨hb0, hb1⟩, rfl⟩

/-- `_interpolate3`: same in three dimensions (`coord[j,-3] ↔ first grid axis`). -/
theorem interp3_mem (K : Rat → Rat → Rat) (osh ish csh : Int → Int) (coord : Int → Int → Rat)
    (width param : Int → Rat) (u : Upd Rat) :
    u ∈ Gen.interp3 K osh ish csh coord width param ↔
      ∃ j iz iy ix b : Int, 0 ≤ j ∧ j < csh 0 ∧
        |(iz : Rat) - coord j (-3)| ≤ width (-3) / 2 ∧
        |(iy : Rat) - coord j (-2)| ≤ width (-2) / 2 ∧ |(ix : Rat) - coord j (-1)| ≤ width (-1) / 2 ∧
        0 ≤ b ∧ b < ish 0 ∧
        u = ([b, j], [b, pyMod iz (ish 1), pyMod iy (ish 2), pyMod ix (ish 3)],
             K (((iz : Rat) - coord j (-3)) / (width (-3) / 2)) (param (-3)) *
             K (((iy : Rat) - coord j (-2)) / (width (-2) / 2)) (param (-2)) *
             K (((ix : Rat) - coord j (-1)) / (width (-1) / 2)) (param (-1))) := by
  unfold Gen.interp3
  simp only [List.mem_flatMap, mem_pyRange0', mem_window, List.mem_singleton]
  simp only [cast2]
  constructor
  · rintro ⟨j, ⟨hj0, hj1⟩, iz, hz, iy, hy, ix, hx, b, ⟨hb0, hb1⟩, rfl⟩
    exact ⟨j, iz, iy, ix, b, hj0, hj1, hz, hy, hx, hb0, hb1, rfl⟩
  · rintro ⟨j, iz, iy, ix, b, hj0, hj1, hz, hy, hx, hb0, hb1, rfl⟩
    exact ⟨j, ⟨hj0, hj1⟩, iz, hz, iy, hy, ix, hx, b, ⟨hb0, hb1⟩, rfl⟩

-- non-vacuity: point 0 at c = 1/2 with W = 2 reads grid index -1 wrapped to 3 (n = 4) with linear weight 1/4... (|−1 − 1/2| = 3/2 > 1: not read); index 1 is read with weight 1/2
example : (([0, 0], [0, 1], (1 / 2 : Rat)) : Upd Rat) ∈
    Gen.interp1 (fun u _ => 1 - |u|) (fun _ => 1) (fun k => if k = 0 then 1 else 4) (fun _ => 1)
      (fun _ _ => 1 / 2) (fun _ => 2) (fun _ => 1) := by
  rw [interp1_mem]
  exact ⟨0, 1, 0, by norm_num, by norm_num, by norm_num, by norm_num, by norm_num, by
    simp only [Prod.mk.injEq, true_and]; refine ⟨by decide, by norm_num⟩⟩

/-- every index touched by `_interpolate1` is in bounds when the grid axis is non-empty: the `% n`
    wrap maps any integer (negative, far outside the grid) into `0..n-1`. -/
theorem interp1_in_bounds (K : Rat → Rat → Rat) (osh ish csh : Int → Int) (coord : Int → Int → Rat)
    (width param : Int → Rat) (hn : 0 < ish 1) (u : Upd Rat)
    (hu : u ∈ Gen.interp1 K osh ish csh coord width param) :
    ∃ b j s : Int, u.1 = [b, j] ∧ u.2.1 = [b, s] ∧ 0 ≤ b ∧ b < ish 0 ∧ 0 ≤ j ∧ j < csh 0 ∧
      0 ≤ s ∧ s < ish 1 := by
  obtain ⟨j, i, b, hj0, hj1, _, hb0, hb1, rfl⟩ := (interp1_mem ..).mp hu
  exact ⟨b, j, pyMod i (ish 1), rfl, rfl, hb0, hb1, hj0, hj1, (pyMod_range i _ hn).1, (pyMod_range i _ hn).2⟩

/-! ### gridding = transpose of interpolation, literally -/

/-- `_gridding1` produces the update list of `_interpolate1` with destination and source swapped —
    the same points, the same windows, the same wrap, the same weights, in the same order. -/
theorem grid1_eq_transpose_interp1 (K : Rat → Rat → Rat) (gsh psh csh : Int → Int)
    (coord : Int → Int → Rat) (width param : Int → Rat) :
    Gen.grid1 K gsh psh csh coord width param =
      (Gen.interp1 K psh gsh csh coord width param).map swapUpd := by
  simp only [Gen.grid1, Gen.interp1, List.map_flatMap, List.map_cons, List.map_nil, swapUpd]

theorem grid2_eq_transpose_interp2 (K : Rat → Rat → Rat) (gsh psh csh : Int → Int)
    (coord : Int → Int → Rat) (width param : Int → Rat) :
    Gen.grid2 K gsh psh csh coord width param =
      (Gen.interp2 K psh gsh csh coord width param).map swapUpd := by
  simp only [Gen.grid2, Gen.interp2, List.map_flatMap, List.map_cons, List.map_nil, swapUpd]

theorem grid3_eq_transpose_interp3 (K : Rat → Rat → Rat) (gsh psh csh : Int → Int)
    (coord : Int → Int → Rat) (width param : Int → Rat) :
    Gen.grid3 K gsh psh csh coord width param =
      (Gen.interp3 K psh gsh csh coord width param).map swapUpd := by
  simp only [Gen.grid3, Gen.interp3, List.map_flatMap, List.map_cons, List.map_nil, swapUpd]

/-- hence the documented gridding sum: `x[b, i mod n] += K((i - c_j)/(W/2)) y[b, j]` over the same index set -/
theorem grid1_mem (K : Rat → Rat → Rat) (gsh psh csh : Int → Int) (coord : Int → Int → Rat)
    (width param : Int → Rat) (u : Upd Rat) :
    u ∈ Gen.grid1 K gsh psh csh coord width param ↔
      ∃ j i b : Int, 0 ≤ j ∧ j < csh 0 ∧ |(i : Rat) - coord j (-1)| ≤ width (-1) / 2 ∧ 0 ≤ b ∧ b < gsh 0 ∧
        u = ([b, pyMod i (gsh 1)], [b, j],
             K (((i : Rat) - coord j (-1)) / (width (-1) / 2)) (param (-1))) := by
  rw [grid1_eq_transpose_interp1, List.mem_map]
  constructor
  · rintro ⟨v, hv, rfl⟩
    obtain ⟨j, i, b, h1, h2, h3, h4, h5, rfl⟩ := (interp1_mem ..).mp hv
    exact ⟨j, i, b, h1, h2, h3, h4, h5, rfl⟩
  · rintro ⟨j, i, b, h1, h2, h3, h4, h5, rfl⟩
    exact ⟨_, (interp1_mem ..).mpr ⟨j, i, b, h1, h2, h3, h4, h5, rfl⟩, rfl⟩

/-- all six loop nests update with `+=` (never `=`) -/
theorem kernels_accumulate :
    Gen.interp1_accumulates = true ∧ Gen.interp2_accumulates = true ∧ Gen.interp3_accumulates = true ∧
    Gen.grid1_accumulates = true ∧ Gen.grid2_accumulates = true ∧ Gen.grid3_accumulates = true := by
  decide

/-- both entry points bind the kernel names to the same two kernel functions -/
theorem kernel_dispatch : Gen.kernelDispatchChecked = true := rfl

/-! ### `+=`: coincident and wrapped contributions add -/

/-- With `+=` the final value at destination `d` is the initial value plus the sum — with multiplicity —
    of `w · x[src]` over *all* updates whose destination is `d`: duplicate coordinates, and window
    indices that wrap onto the same grid cell, add rather than overwrite. -/
theorem runUpd_acc_eq_sum {R : Type} [Semiring R] (E : List (Upd R)) (x out : List Int → R) (d : List Int) :
    runUpd true E x out d = out d + ((E.filter (fun u => u.1 = d)).map (fun u => u.2.2 * x u.2.1)).sum := by
  unfold runUpd
  induction E generalizing out with
  | nil => simp
  | cons u E ih =>
    rw [List.foldl_cons, ih]
    by_cases h : u.1 = d
    · subst h
      simp [add_assoc]
    · simp [h, Function.update_of_ne (Ne.symm h)]

/-- `⟨y, A x⟩ = Σ_updates y[dst] · w · x[src]` for the accumulate semantics (any finite index set `S`
    containing every destination). -/
theorem sum_mul_runUpd {R : Type} [CommSemiring R] (E : List (Upd R)) (y x : List Int → R)
    (S : Finset (List Int)) (hS : ∀ u ∈ E, u.1 ∈ S) :
    ∑ d ∈ S, y d * runUpd true E x (fun _ => 0) d = pairing E y x := by
  simp only [runUpd_acc_eq_sum, zero_add]
  unfold pairing
  induction E with
  | nil => simp
  | cons u E ih =>
    have hu : u.1 ∈ S := hS u (List.mem_cons_self)
    have ih' := ih (fun v hv => hS v (List.mem_cons_of_mem _ hv))
    simp only [List.filter_cons, List.map_cons, List.sum_cons]
    rw [← ih']
    have : ∀ d, y d * ((if decide (u.1 = d) = true then u :: List.filter (fun u => decide (u.1 = d)) E
          else List.filter (fun u => decide (u.1 = d)) E).map (fun u => u.2.2 * x u.2.1)).sum
        = (if u.1 = d then y d * (u.2.2 * x u.2.1) else 0)
          + y d * ((List.filter (fun u => decide (u.1 = d)) E).map (fun u => u.2.2 * x u.2.1)).sum := by
      intro d
      by_cases h : u.1 = d <;> simp [h, mul_add]
    simp only [this, Finset.sum_add_distrib]
    congr 1
    rw [Finset.sum_ite_eq S u.1]
    simp [hu]

/-- gridding is the transpose of interpolation at the level of values: for the update list `E` of
    `_interpolateD` and its swapped list (which is `_griddingD`'s, by `gridD_eq_transpose_interpD`),
    `Σ_i g[i] · (grid y)[i] = Σ_j y[j] · (interp g)[j]`.  The weights are real, so for complex data this is
    also the adjoint identity `⟨g, grid y⟩ = ⟨interp g, y⟩`. -/
theorem transpose_pairing {R : Type} [CommSemiring R] (E : List (Upd R)) (g y : List Int → R)
    (G P : Finset (List Int)) (hG : ∀ u ∈ E, u.2.1 ∈ G) (hP : ∀ u ∈ E, u.1 ∈ P) :
    ∑ i ∈ G, g i * runUpd true (E.map swapUpd) y (fun _ => 0) i =
      ∑ j ∈ P, y j * runUpd true E g (fun _ => 0) j := by
  rw [sum_mul_runUpd _ _ _ G, sum_mul_runUpd _ _ _ P hP, pairing_swap]
  intro u hu
  obtain ⟨v, hv, rfl⟩ := List.mem_map.mp hu
  exact hG v hv

/-! ### periodicity: moving a coordinate by whole grid lengths changes nothing -/

/-- `_interpolate1`: replacing `c_j` by `c_j + m_j · n` gives literally the same update list. -/
theorem interp1_shift_period (K : Rat → Rat → Rat) (osh ish csh : Int → Int) (c c' : Int → Int → Rat)
    (width param : Int → Rat) (mx : Int → Int) (hn : 0 < ish 1)
    (hx : ∀ j, c' j (-1) = c j (-1) + ((mx j * ish 1 : Int) : Rat)) :
    Gen.interp1 K osh ish csh c' width param = Gen.interp1 K osh ish csh c width param := by
  unfold Gen.interp1
  apply List.flatMap_congr
  intro j _
  simp only [hx j, window_shift, List.flatMap_map, cast_shift_sub, pyMod_add_mul _ _ _ hn]

theorem interp2_shift_period (K : Rat → Rat → Rat) (osh ish csh : Int → Int) (c c' : Int → Int → Rat)
    (width param : Int → Rat) (my mx : Int → Int) (hny : 0 < ish 1) (hnx : 0 < ish 2)
    (hy : ∀ j, c' j (-2) = c j (-2) + ((my j * ish 1 : Int) : Rat))
    (hx : ∀ j, c' j (-1) = c j (-1) + ((mx j * ish 2 : Int) : Rat)) :
    Gen.interp2 K osh ish csh c' width param = Gen.interp2 K osh ish csh c width param := by
  unfold Gen.interp2
  apply List.flatMap_congr
  intro j _
  simp only [hx j, hy j, window_shift, List.flatMap_map, cast_shift_sub, pyMod_add_mul _ _ _ hnx,
    pyMod_add_mul _ _ _ hny]

theorem interp3_shift_period (K : Rat → Rat → Rat) (osh ish csh : Int → Int) (c c' : Int → Int → Rat)
    (width param : Int → Rat) (mz my mx : Int → Int) (hnz : 0 < ish 1) (hny : 0 < ish 2) (hnx : 0 < ish 3)
    (hz : ∀ j, c' j (-3) = c j (-3) + ((mz j * ish 1 : Int) : Rat))
    (hy : ∀ j, c' j (-2) = c j (-2) + ((my j * ish 2 : Int) : Rat))
    (hx : ∀ j, c' j (-1) = c j (-1) + ((mx j * ish 3 : Int) : Rat)) :
    Gen.interp3 K osh ish csh c' width param = Gen.interp3 K osh ish csh c width param := by
  unfold Gen.interp3
  apply List.flatMap_congr
  intro j _
  simp only [hx j, hy j, hz j, window_shift, List.flatMap_map, cast_shift_sub, pyMod_add_mul _ _ _ hnx,
    pyMod_add_mul _ _ _ hny, pyMod_add_mul _ _ _ hnz]

/-! ### the spline kernel -/

/-- `_spline_kernel` is the documented cardinal B-spline on `[-1, 1]`: 0 outside; `1` (order 0),
    `1 - |x|` (order 1), and for order 2 `9/8 (1 - |x|)²` for `|x| > 1/3`, `3/4 (1 - 3x²)` for `|x| ≤ 1/3`. -/
theorem spline_kernel_doc (x : Rat) :
    (1 < |x| → ∀ o, Gen.splineKernel x o = 0) ∧
    (|x| ≤ 1 → Gen.splineKernel x 0 = 1 ∧ Gen.splineKernel x 1 = 1 - |x| ∧
      (1 / 3 < |x| → Gen.splineKernel x 2 = 9 / 8 * (1 - |x|) ^ 2) ∧
      (|x| ≤ 1 / 3 → Gen.splineKernel x 2 = 3 / 4 * (1 - 3 * x ^ 2))) := by
  unfold Gen.splineKernel
  simp only [ratAbs_eq_abs]
  refine ⟨fun h o => ?_, fun h => ⟨?_, ?_, fun h3 => ?_, fun h3 => ?_⟩⟩
  · rw [if_pos (by push_cast; exact h)]; norm_num
  · rw [if_neg (by push_cast; exact not_lt.mpr h)]; norm_num
  · rw [if_neg (by push_cast; exact not_lt.mpr h)]; norm_num
  · rw [if_neg (by push_cast; exact not_lt.mpr h)]
    norm_num
    intro h4; linarith
  · rw [if_neg (by push_cast; exact not_lt.mpr h)]
    norm_num
    intro h4; linarith

/-- the docstring leaves `|x| = 1/3` to either branch; they agree there (value 1/2) -/
theorem spline2_breakpoint (x : Rat) (h : |x| = 1 / 3) :
    (9 / 8 * (1 - |x|) ^ 2 : Rat) = 3 / 4 * (1 - 3 * x ^ 2) := by
  have : x ^ 2 = |x| ^ 2 := (sq_abs x).symm
  rw [this, h]; norm_num

end SigpyVerif.C07
