import SigpyVerif.Model.C06
import SigpyVerif.Props.C07
import SigpyVerif.Props.C09
import Mathlib.Analysis.InnerProductSpace.Basic
import Mathlib.Analysis.SpecialFunctions.Pow.Real
import Mathlib.Analysis.SpecialFunctions.Complex.Log
import Mathlib.Tactic.FieldSimp
/-
  C06 — nufft approximates the NUDFT; nufft_adjoint is its exact adjoint with the same scaling.

  PARTIAL BY NATURE.  The accuracy bound (relative error < 3 % at oversamp = 1.25 / width 4 and < 0.3 % at
  oversamp = 2) is an analytic fact about Kaiser–Bessel interpolation with Beatty's beta and is NOT
  proved here; it is *measured* against the exact NUDFT by the search oracle (harness/props/c06.py).
  What the theorems carry is the structure around it, stated about the definitions the translator
  regenerates from sigpy/fourier.py on every run (`Gen/NufftFormulas.lean`):

  * the three sites that compute the oversampled length agree (`os_sites_agree`), padding never crops
    (`oversampLen_ge`);
  * the two pipelines have conjugate-consistent scalings (`scale_consistency`) and, given the stage facts owned
    by other properties as hypotheses (real apodisation weights; Resize pad/crop adjoint pair — C09/C01;
    `uIFFT · ΠosN = uFFTᴴ` — C05; gridding = interpolationᵀ with real weights — C07), `nufft_adjoint` is
    exactly the adjoint of `nufft` (`nufft_adjoint_is_adjoint`);
  * periodicity: moving a coordinate by a whole number of image periods moves the scaled coordinate by
    whole periods of the oversampled grid (`scaleCoord_period`) and leaves the interpolation update list
    literally unchanged (`nufft_periodic1/2/3`, using C07's `interpD_shift_period`); the exact transform
    has the same period (`nudft_periodic`);
  * all stages use one centre: zero-padding aligns image index `N//2` with oversampled index `osN//2`
    — the `shift` of `_scale_coord` and the index where frequency 0 lands — and `_apodize` is centred at
    `N//2` (`grid_centre_consistency`, `crop_centre_consistency`, `dc_lands_on_centre`).
-/
namespace SigpyVerif.C06
open SigpyVerif
open scoped InnerProductSpace

/-! ### oversampled length, scale, shift -/

/-- `_get_oversamp_shape`, `_scale_coord` and `_apodize` compute the oversampled length with the same
    formula; `scale = osN / N` and `shift = osN // 2`. -/
theorem os_sites_agree (os : Rat) (n : Int) :
    Gen.apodOsLen os n = Gen.oversampLen os n ∧
    Gen.scaleFactor os n = ((Gen.oversampLen os n : Int) : Rat) / (n : Rat) ∧
    Gen.scaleShift os n = pyDiv (Gen.oversampLen os n) 2 := ⟨rfl, rfl, rfl⟩

/-- for `oversamp ≥ 1` the oversampled grid is at least as long as the image: `util.resize` pads, never crops -/
theorem oversampLen_ge (os : Rat) (n : Int) (hos : 1 ≤ os) (hn : 0 ≤ n) : n ≤ Gen.oversampLen os n := by
  unfold Gen.oversampLen
  have h1 : ((n : Int) : Rat) ≤ os * ((n : Int) : Rat) := by
    have : (0 : Rat) ≤ (n : Rat) := by exact_mod_cast hn
    nlinarith
  have h2 : os * ((n : Int) : Rat) ≤ ((Rat.ceil (os * ((n : Int) : Rat)) : Int) : Rat) := Rat.le_ceil
  have : ((n : Int) : Rat) ≤ ((Rat.ceil (os * ((n : Int) : Rat)) : Int) : Rat) := le_trans h1 h2
  exact_mod_cast this

-- N = 9, oversamp = 1.25: osN = ceil(11.25) = 12
example : Gen.oversampLen (5 / 4) 9 = 12 := by
  unfold Gen.oversampLen
  apply le_antisymm
  · rw [Rat.ceil_le_iff]; norm_num
  · have : (11 : Int) < Rat.ceil ((5 / 4 : Rat) * ((9 : Int) : Rat)) := by rw [Rat.lt_ceil_iff]; norm_num
    omega

/-! ### periodicity -/

/-- moving a coordinate by `m` image periods `N` moves the scaled coordinate by exactly `m` periods
    `ceil(os·N)` of the oversampled grid -/
theorem scaleCoord_period (os : Rat) (n : Int) (hn : n ≠ 0) (c : Rat) (m : Int) :
    Gen.scaleCoord os n (c + ((m * n : Int) : Rat)) =
      Gen.scaleCoord os n c + ((m * Gen.oversampLen os n : Int) : Rat) := by
  unfold Gen.scaleCoord Gen.scaleFactor Gen.oversampLen
  have : ((n : Int) : Rat) ≠ 0 := by exact_mod_cast hn
  push_cast
  field_simp
  ring

/-- 1-D nufft: coordinates `c_j + m_j N` give literally the same interpolation update list as `c_j`
    (hence the same output): the transform is periodic with the period of the image, also far outside
    `[-N/2, N/2)`. `ish 1` is the oversampled grid length. -/
theorem nufft_periodic1 (K : Rat → Rat → Rat) (osh ish csh : Int → Int) (os : Rat) (shape : Int → Int)
    (c : Int → Int → Rat) (m : Int → Int) (width param : Int → Rat)
    (hN : 0 < shape (-1)) (hos : 1 ≤ os) (hg : ish 1 = Gen.oversampLen os (shape (-1))) :
    Gen.interp1 K osh ish csh (fun j k => Gen.scaleCoord os (shape k) (c j k + ((m j * shape k : Int) : Rat))) width param
      = Gen.interp1 K osh ish csh (fun j k => Gen.scaleCoord os (shape k) (c j k)) width param := by
  apply C07.interp1_shift_period (mx := m)
  · rw [hg]; exact lt_of_lt_of_le hN (oversampLen_ge os _ hos (le_of_lt hN))
  · intro j; rw [hg]; exact scaleCoord_period os _ (ne_of_gt hN) _ _

theorem nufft_periodic2 (K : Rat → Rat → Rat) (osh ish csh : Int → Int) (os : Rat) (shape : Int → Int)
    (c : Int → Int → Rat) (m : Int → Int → Int) (width param : Int → Rat)
    (hNy : 0 < shape (-2)) (hNx : 0 < shape (-1)) (hos : 1 ≤ os)
    (hgy : ish 1 = Gen.oversampLen os (shape (-2))) (hgx : ish 2 = Gen.oversampLen os (shape (-1))) :
    Gen.interp2 K osh ish csh (fun j k => Gen.scaleCoord os (shape k) (c j k + ((m j k * shape k : Int) : Rat))) width param
      = Gen.interp2 K osh ish csh (fun j k => Gen.scaleCoord os (shape k) (c j k)) width param := by
  apply C07.interp2_shift_period (my := fun j => m j (-2)) (mx := fun j => m j (-1))
  · rw [hgy]; exact lt_of_lt_of_le hNy (oversampLen_ge os _ hos (le_of_lt hNy))
  · rw [hgx]; exact lt_of_lt_of_le hNx (oversampLen_ge os _ hos (le_of_lt hNx))
  · intro j; rw [hgy]; exact scaleCoord_period os _ (ne_of_gt hNy) _ _
  · intro j; rw [hgx]; exact scaleCoord_period os _ (ne_of_gt hNx) _ _

theorem nufft_periodic3 (K : Rat → Rat → Rat) (osh ish csh : Int → Int) (os : Rat) (shape : Int → Int)
    (c : Int → Int → Rat) (m : Int → Int → Int) (width param : Int → Rat)
    (hNz : 0 < shape (-3)) (hNy : 0 < shape (-2)) (hNx : 0 < shape (-1)) (hos : 1 ≤ os)
    (hgz : ish 1 = Gen.oversampLen os (shape (-3))) (hgy : ish 2 = Gen.oversampLen os (shape (-2)))
    (hgx : ish 3 = Gen.oversampLen os (shape (-1))) :
    Gen.interp3 K osh ish csh (fun j k => Gen.scaleCoord os (shape k) (c j k + ((m j k * shape k : Int) : Rat))) width param
      = Gen.interp3 K osh ish csh (fun j k => Gen.scaleCoord os (shape k) (c j k)) width param := by
  apply C07.interp3_shift_period (mz := fun j => m j (-3)) (my := fun j => m j (-2)) (mx := fun j => m j (-1))
  · rw [hgz]; exact lt_of_lt_of_le hNz (oversampLen_ge os _ hos (le_of_lt hNz))
  · rw [hgy]; exact lt_of_lt_of_le hNy (oversampLen_ge os _ hos (le_of_lt hNy))
  · rw [hgx]; exact lt_of_lt_of_le hNx (oversampLen_ge os _ hos (le_of_lt hNx))
  · intro j; rw [hgz]; exact scaleCoord_period os _ (ne_of_gt hNz) _ _
  · intro j; rw [hgy]; exact scaleCoord_period os _ (ne_of_gt hNy) _ _
  · intro j; rw [hgx]; exact scaleCoord_period os _ (ne_of_gt hNx) _ _

/-- one term of the exact transform (the specification): `exp(-2πi k (n - N//2) / N)` -/
noncomputable def nudftTerm (N : ℤ) (k : ℝ) (n : ℤ) : ℂ :=
  Complex.exp (-2 * Real.pi * Complex.I * k * ((n - N / 2 : ℤ) : ℂ) / N)

/-- the exact transform has period `N` in each coordinate -/
theorem nudft_periodic (N : ℤ) (hN : N ≠ 0) (k : ℝ) (n m : ℤ) :
    nudftTerm N (k + m * N) n = nudftTerm N k n := by
  unfold nudftTerm
  rw [Complex.exp_eq_exp_iff_exists_int]
  refine ⟨-(m * (n - N / 2)), ?_⟩
  have : (N : ℂ) ≠ 0 := by exact_mod_cast hN
  push_cast
  field_simp
  ring

/-! ### one centre for all stages -/

/-- zero-padding (`util.resize` with default shifts, `C09.resize_default_aligns`) puts image sample `j` on
    oversampled index `k` exactly when `j - apodCentre = k - scaleShift`: the image index `N//2` where
    `_apodize` is centred (and from which the NUDFT measures `n`) lands on `osN//2`, the `shift` that
    `_scale_coord` adds to the coordinates. -/
theorem grid_centre_consistency (os : Rat) (N k j : Int) :
    C09.resizeSrc1 N (Gen.oversampLen os N) (Gen.resizeIshiftDefault N (Gen.oversampLen os N))
        (Gen.resizeOshiftDefault N (Gen.oversampLen os N)) k = some j ↔
      (0 ≤ k ∧ k < Gen.oversampLen os N ∧ 0 ≤ j ∧ j < N ∧
        j - Gen.apodCentre N = k - Gen.scaleShift os N) := by
  rw [C09.resize_default_aligns]
  unfold Gen.apodCentre Gen.scaleShift Gen.oversampLen
  simp only [pyDiv_of_pos _ (show (0 : Int) < 2 by decide)]

/-- the crop of `nufft_adjoint` uses the same alignment (it is the transposed relation) -/
theorem crop_centre_consistency (os : Rat) (N k j : Int) :
    C09.resizeSrc1 (Gen.oversampLen os N) N (Gen.resizeIshiftDefault (Gen.oversampLen os N) N)
        (Gen.resizeOshiftDefault (Gen.oversampLen os N) N) j = some k ↔
      (0 ≤ k ∧ k < Gen.oversampLen os N ∧ 0 ≤ j ∧ j < N ∧
        j - Gen.apodCentre N = k - Gen.scaleShift os N) := by
  rw [C09.resize_default_aligns]
  unfold Gen.apodCentre Gen.scaleShift Gen.oversampLen
  simp only [pyDiv_of_pos _ (show (0 : Int) < 2 by decide)]
  constructor <;> rintro ⟨h1, h2, h3, h4, h5⟩ <;> exact ⟨h3, h4, h1, h2, by omega⟩

/-- frequency 0 is sent to the oversampled index `osN//2` -/
theorem dc_lands_on_centre (os : Rat) (N : Int) :
    Gen.scaleCoord os N 0 = ((Gen.scaleShift os N : Int) : Rat) := by
  unfold Gen.scaleCoord; simp

/-! ### scalings and the adjoint pipeline -/

/-- the adjoint's multiplier `ΠosN / √ΠN` is the forward's `1/√ΠN` times `ΠosN` (the factor that turns
    numpy's unnormalised inverse FFT, which divides by `ΠosN`, into the adjoint of the unnormalised
    FFT), and both divide by the same `width ** ndim`. -/
theorem scale_consistency (prodOs prodN : Int) (width : ℝ) (ndim : Nat) :
    Gen.nufftAdjMul Real.sqrt prodOs prodN = (prodOs : ℝ) * (Gen.nufftFwdDiv Real.sqrt prodN)⁻¹ ∧
    Gen.nufftAdjWidthDiv Real.sqrt width ndim = Gen.nufftFwdWidthDiv Real.sqrt width ndim ∧
    Gen.nufftFwdDiv Real.sqrt prodN = Real.sqrt prodN ∧
    Gen.nufftFwdWidthDiv Real.sqrt width ndim = width ^ ndim := by
  refine ⟨?_, rfl, rfl, rfl⟩
  unfold Gen.nufftAdjMul Gen.nufftFwdDiv
  rw [div_eq_mul_inv]

/-- the translator found the documented stage order, `width=width, param=beta` handed to both
    interpolation calls, one beta formula and `os_shape` from `_get_oversamp_shape` in both functions -/
theorem pipeline_checked : Gen.nufftPipelineChecked = true ∧ Gen.apodFormulaChecked = true := ⟨rfl, rfl⟩

section pipeline
variable {X G Y : Type*}
  [NormedAddCommGroup X] [InnerProductSpace ℂ X]
  [NormedAddCommGroup G] [InnerProductSpace ℂ G]
  [NormedAddCommGroup Y] [InnerProductSpace ℂ Y]

/-- `nufft` as the composition of its stages: apodise, divide by `a`, zero-pad, unnormalised FFT,
    interpolate, divide by `w`. -/
noncomputable def fwd (A : X →ₗ[ℂ] X) (R : X →ₗ[ℂ] G) (F : G →ₗ[ℂ] G) (I : G →ₗ[ℂ] Y) (a w : ℝ) (x : X) : Y :=
  ((w : ℂ)⁻¹) • I (F (R (((a : ℂ)⁻¹) • A x)))

/-- `nufft_adjoint`: grid, divide by `w`, unnormalised IFFT, crop, multiply by `s`, apodise. -/
noncomputable def adj (A : X →ₗ[ℂ] X) (Rt : G →ₗ[ℂ] X) (Fi : G →ₗ[ℂ] G) (Gr : Y →ₗ[ℂ] G) (s w : ℝ) (y : Y) : X :=
  A (((s : ℂ)) • Rt (Fi (((w : ℂ)⁻¹) • Gr y)))

/-- stagewise adjointness with real scalars `a, s, w` and `s = M / a` -/
theorem pipeline_adjoint (A : X →ₗ[ℂ] X) (R : X →ₗ[ℂ] G) (Rt : G →ₗ[ℂ] X) (F Fi : G →ₗ[ℂ] G)
    (I : G →ₗ[ℂ] Y) (Gr : Y →ₗ[ℂ] G) (a s w M : ℝ)
    (hA : ∀ u v, ⟪A u, v⟫_ℂ = ⟪u, A v⟫_ℂ)
    (hR : ∀ u v, ⟪R u, v⟫_ℂ = ⟪u, Rt v⟫_ℂ)
    (hF : ∀ u v, ⟪F u, v⟫_ℂ = ⟪u, (M : ℂ) • Fi v⟫_ℂ)
    (hI : ∀ u v, ⟪I u, v⟫_ℂ = ⟪u, Gr v⟫_ℂ)
    (hs : s = M * a⁻¹) (x : X) (y : Y) :
    ⟪fwd A R F I a w x, y⟫_ℂ = ⟪x, adj A Rt Fi Gr s w y⟫_ℂ := by
  unfold fwd adj
  simp only [map_smul, inner_smul_left, inner_smul_right, hI, hF, hR, hA, hs]
  simp only [map_inv₀, Complex.conj_ofReal]
  push_cast
  ring

/-- `nufft_adjoint` is exactly the adjoint of `nufft`, with the scalings the code uses
    (`Gen.nufftFwdDiv`, `Gen.nufftAdjMul`, `Gen.nufftFwdWidthDiv`, `Gen.nufftAdjWidthDiv` at `ℝ`), given
    the stage facts owned by the other properties:
    `hA` the apodisation is a real diagonal (self-adjoint), `hR` pad/crop are an adjoint pair (C09/C01),
    `hF` `ΠosN · uIFFT = uFFTᴴ` (C05), `hI` gridding = interpolationᴴ (C07, real weights). -/
theorem nufft_adjoint_is_adjoint (A : X →ₗ[ℂ] X) (R : X →ₗ[ℂ] G) (Rt : G →ₗ[ℂ] X) (F Fi : G →ₗ[ℂ] G)
    (I : G →ₗ[ℂ] Y) (Gr : Y →ₗ[ℂ] G) (prodOs prodN : Int) (width : ℝ) (ndim : Nat)
    (hA : ∀ u v, ⟪A u, v⟫_ℂ = ⟪u, A v⟫_ℂ)
    (hR : ∀ u v, ⟪R u, v⟫_ℂ = ⟪u, Rt v⟫_ℂ)
    (hF : ∀ u v, ⟪F u, v⟫_ℂ = ⟪u, ((prodOs : ℝ) : ℂ) • Fi v⟫_ℂ)
    (hI : ∀ u v, ⟪I u, v⟫_ℂ = ⟪u, Gr v⟫_ℂ) (x : X) (y : Y) :
    ⟪fwd A R F I (Gen.nufftFwdDiv Real.sqrt prodN) (Gen.nufftFwdWidthDiv Real.sqrt width ndim) x, y⟫_ℂ =
      ⟪x, adj A Rt Fi Gr (Gen.nufftAdjMul Real.sqrt prodOs prodN) (Gen.nufftAdjWidthDiv Real.sqrt width ndim) y⟫_ℂ :=
  pipeline_adjoint A R Rt F Fi I Gr _ _ _ (prodOs : ℝ) hA hR hF hI (scale_consistency prodOs prodN width ndim).1 x y

end pipeline

end SigpyVerif.C06
