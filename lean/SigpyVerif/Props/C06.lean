import SigpyVerif.Model.C06
import SigpyVerif.Props.C07
import SigpyVerif.Props.C09
import SigpyVerif.Lemmas.C06
import Mathlib.Analysis.InnerProductSpace.Basic
import Mathlib.Analysis.SpecialFunctions.Pow.Real
import Mathlib.Analysis.SpecialFunctions.Complex.Log
import Mathlib.Tactic.FieldSimp
/-
  C06 — nufft approximates the NUDFT; nufft_adjoint is its exact adjoint with the same scaling.

  PARTIAL BY NATURE.  The accuracy bound (relative error < 3 % at oversamp = 1.25 / width 4 and < 0.3 % at
  oversamp = 2) is an analytic fact about Kaiser–Bessel interpolation with Beatty's beta and is NOT
  proved here; it is *measured* against the exact NUDFT by the search oracle (harness/props/c06.py).
  What the theorems carry is the structure around it, stated about the definitions the translator
  regenerates from sigpy/fourier.py on every run (`Gen/NufftFormulas.lean`):

  * the three sites that compute the oversampled length agree (`os_sites_agree`), padding never crops
    (`oversampLen_ge`);
  * the two pipelines have conjugate-consistent scalings (`scale_consistency`) and `nufft_adjoint` is exactly the adjoint
    of `nufft`: abstractly, given the stage facts as hypotheses (`pipeline_adjoint`, `nufft_adjoint_is_adjoint`), and
    CONCRETELY with every stage fact discharged (`nufft_adjoint_is_adjoint_1d`, `…_1d_code`; two transform axes in
    Props/C06Nd.lean): the pipeline on `ℂ^N → ℂ^L → ℂ^M` is built from a real diagonal apodisation, C09's zero-pad / crop
    (`resizeMat`, adjoint pair by `C09.resize_transpose` / `resize_transpose_nd`), C05's centred DFT matrices
    (`L · uIFFT = uFFTᴴ` by `C05.idftMatrix_eq_conjTranspose`) and C07's generated update lists `Gen.interp1` /
    `Gen.grid1` with real weights run with C07's `runUpd` (`C07.grid1_eq_transpose_interp1`, `C07.transpose_pairing`,
    `C07.interp1_in_bounds`).  Remaining assumptions: the apodisation weights are real numbers and the kernel is a
    real-valued function (bridging lemmas: Lemmas/C06.lean);
  * the Toeplitz normal operator (`toeplitz_psf`, `NUFFT._normal_linop`): Props/C06Toeplitz.lean;
  * periodicity: moving a coordinate by a whole number of image periods moves the scaled coordinate by
    whole periods of the oversampled grid (`scaleCoord_period`) and leaves the interpolation update list
    literally unchanged (`nufft_periodic1/2/3`, using C07's `interpD_shift_period`); the exact transform
    has the same period (`nudft_periodic`);
  * all stages use one centre: zero-padding aligns image index `N//2` with oversampled index `osN//2`
    — the `shift` of `_scale_coord` and the index where frequency 0 lands — and `_apodize` is centred at
    `N//2` (`grid_centre_consistency`, `crop_centre_consistency`, `dc_lands_on_centre`).
-/
namespace SigpyVerif.C06
open SigpyVerif
open scoped InnerProductSpace

/-! ### oversampled length, scale, shift -/

/-- `_get_oversamp_shape`, `_scale_coord` and `_apodize` compute the oversampled length with the same
    formula; `scale = osN / N` and `shift = osN // 2`. -/
theorem os_sites_agree (os : Rat) (n : Int) :
    Gen.apodOsLen os n = Gen.oversampLen os n ∧
    Gen.scaleFactor os n = ((Gen.oversampLen os n : Int) : Rat) / (n : Rat) ∧
    Gen.scaleShift os n = pyDiv (Gen.oversampLen os n) 2 := by
  -- `rfl` for the source as written; robust to commuting the product inside `ceil` at any of the sites
  refine ⟨?_, ?_, ?_⟩ <;>
    first
      | rfl
      | simp only [Gen.apodOsLen, Gen.oversampLen, Gen.scaleFactor, Gen.scaleShift, mul_comm]

/-- for `oversamp ≥ 1` the oversampled grid is at least as long as the image: `util.resize` pads, never crops -/
theorem oversampLen_ge (os : Rat) (n : Int) (hos : 1 ≤ os) (hn : 0 ≤ n) : n ≤ Gen.oversampLen os n := by
  unfold Gen.oversampLen
  -- stated for any expression equal to `os · n` (robust to an algebraically equal spelling of the product)
  have key : ∀ q : Rat, q = os * ((n : Int) : Rat) → n ≤ Rat.ceil q := by
    intro q hq
    have h1 : ((n : Int) : Rat) ≤ q := by
      have : (0 : Rat) ≤ (n : Rat) := by exact_mod_cast hn
      rw [hq]; nlinarith
    have h2 : q ≤ ((Rat.ceil q : Int) : Rat) := Rat.le_ceil
    have : ((n : Int) : Rat) ≤ ((Rat.ceil q : Int) : Rat) := le_trans h1 h2
    exact_mod_cast this
  exact key _ (by ring)

-- N = 9, oversamp = 1.25: osN = ceil(11.25) = 12
example : Gen.oversampLen (5 / 4) 9 = 12 := by
  unfold Gen.oversampLen
  have key : ∀ q : Rat, q = 45 / 4 → Rat.ceil q = 12 := by
    intro q hq
    subst hq
    apply le_antisymm
    · rw [Rat.ceil_le_iff]; norm_num
    · have : (11 : Int) < Rat.ceil (45 / 4 : Rat) := by rw [Rat.lt_ceil_iff]; norm_num
      omega
  exact key _ (by norm_num)

/-! ### periodicity -/

/-- moving a coordinate by `m` image periods `N` moves the scaled coordinate by exactly `m` periods
    `ceil(os·N)` of the oversampled grid -/
theorem scaleCoord_period (os : Rat) (n : Int) (hn : n ≠ 0) (c : Rat) (m : Int) :
    Gen.scaleCoord os n (c + ((m * n : Int) : Rat)) =
      Gen.scaleCoord os n c + ((m * Gen.oversampLen os n : Int) : Rat) := by
  unfold Gen.scaleCoord
  rw [(os_sites_agree os n).2.1]
  have : ((n : Int) : Rat) ≠ 0 := by exact_mod_cast hn
  push_cast
  field_simp
  ring

/-- 1-D nufft: coordinates `c_j + m_j N` give literally the same interpolation update list as `c_j`
    (hence the same output): the transform is periodic with the period of the image, also far outside
    `[-N/2, N/2)`. `ish 1` is the oversampled grid length. -/
theorem nufft_periodic1 (K : Rat → Rat → Rat) (osh ish csh : Int → Int) (os : Rat) (shape : Int → Int)
    (c : Int → Int → Rat) (m : Int → Int) (width param : Int → Rat)
    (hN : 0 < shape (-1)) (hos : 1 ≤ os) (hg : ish 1 = Gen.oversampLen os (shape (-1))) :
    Gen.interp1 K osh ish csh (fun j k => Gen.scaleCoord os (shape k) (c j k + ((m j * shape k : Int) : Rat))) width param
      = Gen.interp1 K osh ish csh (fun j k => Gen.scaleCoord os (shape k) (c j k)) width param := by
  apply C07.interp1_shift_period (mx := m)
  · rw [hg]; exact lt_of_lt_of_le hN (oversampLen_ge os _ hos (le_of_lt hN))
  · intro j; rw [hg]; exact scaleCoord_period os _ (ne_of_gt hN) _ _

theorem nufft_periodic2 (K : Rat → Rat → Rat) (osh ish csh : Int → Int) (os : Rat) (shape : Int → Int)
    (c : Int → Int → Rat) (m : Int → Int → Int) (width param : Int → Rat)
    (hNy : 0 < shape (-2)) (hNx : 0 < shape (-1)) (hos : 1 ≤ os)
    (hgy : ish 1 = Gen.oversampLen os (shape (-2))) (hgx : ish 2 = Gen.oversampLen os (shape (-1))) :
    Gen.interp2 K osh ish csh (fun j k => Gen.scaleCoord os (shape k) (c j k + ((m j k * shape k : Int) : Rat))) width param
      = Gen.interp2 K osh ish csh (fun j k => Gen.scaleCoord os (shape k) (c j k)) width param := by
  apply C07.interp2_shift_period (my := fun j => m j (-2)) (mx := fun j => m j (-1))
  · rw [hgy]; exact lt_of_lt_of_le hNy (oversampLen_ge os _ hos (le_of_lt hNy))
  · rw [hgx]; exact lt_of_lt_of_le hNx (oversampLen_ge os _ hos (le_of_lt hNx))
  · intro j; rw [hgy]; exact scaleCoord_period os _ (ne_of_gt hNy) _ _
  · intro j; rw [hgx]; exact scaleCoord_period os _ (ne_of_gt hNx) _ _

theorem nufft_periodic3 (K : Rat → Rat → Rat) (osh ish csh : Int → Int) (os : Rat) (shape : Int → Int)
    (c : Int → Int → Rat) (m : Int → Int → Int) (width param : Int → Rat)
    (hNz : 0 < shape (-3)) (hNy : 0 < shape (-2)) (hNx : 0 < shape (-1)) (hos : 1 ≤ os)
    (hgz : ish 1 = Gen.oversampLen os (shape (-3))) (hgy : ish 2 = Gen.oversampLen os (shape (-2)))
    (hgx : ish 3 = Gen.oversampLen os (shape (-1))) :
    Gen.interp3 K osh ish csh (fun j k => Gen.scaleCoord os (shape k) (c j k + ((m j k * shape k : Int) : Rat))) width param
      = Gen.interp3 K osh ish csh (fun j k => Gen.scaleCoord os (shape k) (c j k)) width param := by
  apply C07.interp3_shift_period (mz := fun j => m j (-3)) (my := fun j => m j (-2)) (mx := fun j => m j (-1))
  · rw [hgz]; exact lt_of_lt_of_le hNz (oversampLen_ge os _ hos (le_of_lt hNz))
  · rw [hgy]; exact lt_of_lt_of_le hNy (oversampLen_ge os _ hos (le_of_lt hNy))
  · rw [hgx]; exact lt_of_lt_of_le hNx (oversampLen_ge os _ hos (le_of_lt hNx))
  · intro j; rw [hgz]; exact scaleCoord_period os _ (ne_of_gt hNz) _ _
  · intro j; rw [hgy]; exact scaleCoord_period os _ (ne_of_gt hNy) _ _
  · intro j; rw [hgx]; exact scaleCoord_period os _ (ne_of_gt hNx) _ _

/-- one term of the exact transform (the specification): `exp(-2πi k (n - N//2) / N)` -/
noncomputable def nudftTerm (N : ℤ) (k : ℝ) (n : ℤ) : ℂ :=
  Complex.exp (-2 * Real.pi * Complex.I * k * ((n - N / 2 : ℤ) : ℂ) / N)

/-- the exact transform has period `N` in each coordinate -/
theorem nudft_periodic (N : ℤ) (hN : N ≠ 0) (k : ℝ) (n m : ℤ) :
    nudftTerm N (k + m * N) n = nudftTerm N k n := by
  unfold nudftTerm
  rw [Complex.exp_eq_exp_iff_exists_int]
  refine ⟨-(m * (n - N / 2)), ?_⟩
  have : (N : ℂ) ≠ 0 := by exact_mod_cast hN
  push_cast
  field_simp
  ring

/-! ### one centre for all stages -/

/-- zero-padding (`util.resize` with default shifts, `C09.resize_default_aligns`) puts image sample `j` on
    oversampled index `k` exactly when `j - apodCentre = k - scaleShift`: the image index `N//2` where
    `_apodize` is centred (and from which the NUDFT measures `n`) lands on `osN//2`, the `shift` that
    `_scale_coord` adds to the coordinates. -/
theorem grid_centre_consistency (os : Rat) (N k j : Int) :
    C09.resizeSrc1 N (Gen.oversampLen os N) (Gen.resizeIshiftDefault N (Gen.oversampLen os N))
        (Gen.resizeOshiftDefault N (Gen.oversampLen os N)) k = some j ↔
      (0 ≤ k ∧ k < Gen.oversampLen os N ∧ 0 ≤ j ∧ j < N ∧
        j - Gen.apodCentre N = k - Gen.scaleShift os N) := by
  rw [C09.resize_default_aligns, (os_sites_agree os N).2.2]
  unfold Gen.apodCentre
  simp only [pyDiv_of_pos _ (show (0 : Int) < 2 by decide)]

/-- the crop of `nufft_adjoint` uses the same alignment (it is the transposed relation) -/
theorem crop_centre_consistency (os : Rat) (N k j : Int) :
    C09.resizeSrc1 (Gen.oversampLen os N) N (Gen.resizeIshiftDefault (Gen.oversampLen os N) N)
        (Gen.resizeOshiftDefault (Gen.oversampLen os N) N) j = some k ↔
      (0 ≤ k ∧ k < Gen.oversampLen os N ∧ 0 ≤ j ∧ j < N ∧
        j - Gen.apodCentre N = k - Gen.scaleShift os N) := by
  rw [C09.resize_default_aligns, (os_sites_agree os N).2.2]
  unfold Gen.apodCentre
  simp only [pyDiv_of_pos _ (show (0 : Int) < 2 by decide)]
  constructor <;> rintro ⟨h1, h2, h3, h4, h5⟩ <;> exact ⟨h3, h4, h1, h2, by omega⟩

/-- frequency 0 is sent to the oversampled index `osN//2` -/
theorem dc_lands_on_centre (os : Rat) (N : Int) :
    Gen.scaleCoord os N 0 = ((Gen.scaleShift os N : Int) : Rat) := by
  unfold Gen.scaleCoord; simp

/-! ### scalings and the adjoint pipeline -/

/-- the adjoint's multiplier `ΠosN / √ΠN` is the forward's `1/√ΠN` times `ΠosN` (the factor that turns
    numpy's unnormalised inverse FFT, which divides by `ΠosN`, into the adjoint of the unnormalised
    FFT), and both divide by the same `width ** ndim`. -/
theorem scale_consistency (prodOs prodN : Int) (width : ℝ) (ndim : Nat) :
    Gen.nufftAdjMul Real.sqrt prodOs prodN = (prodOs : ℝ) * (Gen.nufftFwdDiv Real.sqrt prodN)⁻¹ ∧
    Gen.nufftAdjWidthDiv Real.sqrt width ndim = Gen.nufftFwdWidthDiv Real.sqrt width ndim ∧
    Gen.nufftFwdDiv Real.sqrt prodN = Real.sqrt prodN ∧
    Gen.nufftFwdWidthDiv Real.sqrt width ndim = width ^ ndim := by
  refine ⟨?_, rfl, rfl, rfl⟩
  unfold Gen.nufftAdjMul Gen.nufftFwdDiv
  rw [div_eq_mul_inv]

/-- the translator found the documented stage order, `width=width, param=beta` handed to both
    interpolation calls, one beta formula and `os_shape` from `_get_oversamp_shape` in both functions -/
theorem pipeline_checked : Gen.nufftPipelineChecked = true ∧ Gen.apodFormulaChecked = true := ⟨rfl, rfl⟩

section pipeline
variable {X G Y : Type*}
  [NormedAddCommGroup X] [InnerProductSpace ℂ X]
  [NormedAddCommGroup G] [InnerProductSpace ℂ G]
  [NormedAddCommGroup Y] [InnerProductSpace ℂ Y]

/-- `nufft` as the composition of its stages: apodise, divide by `a`, zero-pad, unnormalised FFT,
    interpolate, divide by `w`. -/
noncomputable def fwd (A : X →ₗ[ℂ] X) (R : X →ₗ[ℂ] G) (F : G →ₗ[ℂ] G) (I : G →ₗ[ℂ] Y) (a w : ℝ) (x : X) : Y :=
  ((w : ℂ)⁻¹) • I (F (R (((a : ℂ)⁻¹) • A x)))

/-- `nufft_adjoint`: grid, divide by `w`, unnormalised IFFT, crop, multiply by `s`, apodise. -/
noncomputable def adj (A : X →ₗ[ℂ] X) (Rt : G →ₗ[ℂ] X) (Fi : G →ₗ[ℂ] G) (Gr : Y →ₗ[ℂ] G) (s w : ℝ) (y : Y) : X :=
  A (((s : ℂ)) • Rt (Fi (((w : ℂ)⁻¹) • Gr y)))

/-- stagewise adjointness with real scalars `a, s, w` and `s = M / a` -/
theorem pipeline_adjoint (A : X →ₗ[ℂ] X) (R : X →ₗ[ℂ] G) (Rt : G →ₗ[ℂ] X) (F Fi : G →ₗ[ℂ] G)
    (I : G →ₗ[ℂ] Y) (Gr : Y →ₗ[ℂ] G) (a s w M : ℝ)
    (hA : ∀ u v, ⟪A u, v⟫_ℂ = ⟪u, A v⟫_ℂ)
    (hR : ∀ u v, ⟪R u, v⟫_ℂ = ⟪u, Rt v⟫_ℂ)
    (hF : ∀ u v, ⟪F u, v⟫_ℂ = ⟪u, (M : ℂ) • Fi v⟫_ℂ)
    (hI : ∀ u v, ⟪I u, v⟫_ℂ = ⟪u, Gr v⟫_ℂ)
    (hs : s = M * a⁻¹) (x : X) (y : Y) :
    ⟪fwd A R F I a w x, y⟫_ℂ = ⟪x, adj A Rt Fi Gr s w y⟫_ℂ := by
  unfold fwd adj
  simp only [map_smul, inner_smul_left, inner_smul_right, hI, hF, hR, hA, hs]
  simp only [map_inv₀, Complex.conj_ofReal]
  push_cast
  ring

/-- `nufft_adjoint` is exactly the adjoint of `nufft`, with the scalings the code uses
    (`Gen.nufftFwdDiv`, `Gen.nufftAdjMul`, `Gen.nufftFwdWidthDiv`, `Gen.nufftAdjWidthDiv` at `ℝ`), given
    the stage facts owned by the other properties:
    `hA` the apodisation is a real diagonal (self-adjoint), `hR` pad/crop are an adjoint pair (C09/C01),
    `hF` `ΠosN · uIFFT = uFFTᴴ` (C05), `hI` gridding = interpolationᴴ (C07, real weights). -/
theorem nufft_adjoint_is_adjoint (A : X →ₗ[ℂ] X) (R : X →ₗ[ℂ] G) (Rt : G →ₗ[ℂ] X) (F Fi : G →ₗ[ℂ] G)
    (I : G →ₗ[ℂ] Y) (Gr : Y →ₗ[ℂ] G) (prodOs prodN : Int) (width : ℝ) (ndim : Nat)
    (hA : ∀ u v, ⟪A u, v⟫_ℂ = ⟪u, A v⟫_ℂ)
    (hR : ∀ u v, ⟪R u, v⟫_ℂ = ⟪u, Rt v⟫_ℂ)
    (hF : ∀ u v, ⟪F u, v⟫_ℂ = ⟪u, ((prodOs : ℝ) : ℂ) • Fi v⟫_ℂ)
    (hI : ∀ u v, ⟪I u, v⟫_ℂ = ⟪u, Gr v⟫_ℂ) (x : X) (y : Y) :
    ⟪fwd A R F I (Gen.nufftFwdDiv Real.sqrt prodN) (Gen.nufftFwdWidthDiv Real.sqrt width ndim) x, y⟫_ℂ =
      ⟪x, adj A Rt Fi Gr (Gen.nufftAdjMul Real.sqrt prodOs prodN) (Gen.nufftAdjWidthDiv Real.sqrt width ndim) y⟫_ℂ :=
  pipeline_adjoint A R Rt F Fi I Gr _ _ _ (prodOs : ℝ) hA hR hF hI (scale_consistency prodOs prodN width ndim).1 x y

end pipeline

/-! ### the concrete 1-D pipeline: every stage fact discharged (C05, C09, C07) -/

section concrete1d
open Matrix

/-- the root of unity of numpy's forward transform of length `L`: `exp(-2πi/L)` -/
noncomputable def fftRoot (L : ℕ) : ℂ := (Complex.exp (2 * Real.pi * Complex.I / L))⁻¹

theorem fftRoot_primitive (L : ℕ) (hL : 0 < L) : IsPrimitiveRoot (fftRoot L) L :=
  (Complex.isPrimitiveRoot_exp L hL.ne').inv

/-- `_apodize` on one axis: multiplication by a REAL weight per image sample -/
noncomputable def apodLin (N : ℕ) (a : Fin N → ℝ) : EuclideanSpace ℂ (Fin N) →ₗ[ℂ] EuclideanSpace ℂ (Fin N) :=
  Matrix.toEuclideanLin (Matrix.diagonal fun n => ((a n : ℝ) : ℂ))

/-- `util.resize(output, os_shape)` / `util.resize(output, oshape)`: C09's model with default shifts -/
noncomputable def resizeLin (i o : ℕ) : EuclideanSpace ℂ (Fin i) →ₗ[ℂ] EuclideanSpace ℂ (Fin o) :=
  Matrix.toEuclideanLin (resizeMat i o)

/-- `fft(output, norm=None)`: C05's centred DFT matrix with scale 1 -/
noncomputable def ufftLin (L : ℕ) : EuclideanSpace ℂ (Fin L) →ₗ[ℂ] EuclideanSpace ℂ (Fin L) :=
  Matrix.toEuclideanLin (C05.dftMatrix (fftRoot L) L true 1)

/-- `ifft(output, norm=None)`: C05's centred inverse DFT matrix with numpy's scale `1/L` -/
noncomputable def uifftLin (L : ℕ) : EuclideanSpace ℂ (Fin L) →ₗ[ℂ] EuclideanSpace ℂ (Fin L) :=
  Matrix.toEuclideanLin (C05.dftMatrix (fftRoot L)⁻¹ L true (1 / L))

/-- shapes `[a, b]` as the kernels read them (`shape[0]`, `shape[1]`) -/
def shape2 (a b : ℤ) : ℤ → ℤ := fun k => if k = 0 then a else b

/-- `interp.interpolate` on one axis, batch size 1: C07's generated update list `Gen.interp1` (grid length `L`,
    `M` points), each rational weight / kernel argument sent through the real-valued `wt` and applied to
    complex data with `+=` (C07's `runUpd`).  Kaiser–Bessel: `K = fun u _ => u`, `wt = kb_β ∘ cast`;
    spline: `K = Gen.splineKernel`, `wt = cast`. -/
noncomputable def interpLin (K : Rat → Rat → Rat) (wt : Rat → ℝ) (L M : ℕ) (coord : Int → Int → Rat)
    (width param : Int → Rat) : EuclideanSpace ℂ (Fin L) →ₗ[ℂ] EuclideanSpace ℂ (Fin M) :=
  updLin (cw wt (Gen.interp1 K (shape2 1 M) (shape2 1 L) (shape2 M 1) coord width param)) L M

/-- `interp.gridding`: C07's generated `Gen.grid1`, same conventions -/
noncomputable def gridLin (K : Rat → Rat → Rat) (wt : Rat → ℝ) (L M : ℕ) (coord : Int → Int → Rat)
    (width param : Int → Rat) : EuclideanSpace ℂ (Fin M) →ₗ[ℂ] EuclideanSpace ℂ (Fin L) :=
  updLin (cw wt (Gen.grid1 K (shape2 1 L) (shape2 1 M) (shape2 M 1) coord width param)) M L

/-- real diagonal: self-adjoint -/
theorem apod_selfadjoint (N : ℕ) (a : Fin N → ℝ) (u v : EuclideanSpace ℂ (Fin N)) :
    ⟪apodLin N a u, v⟫_ℂ = ⟪u, apodLin N a v⟫_ℂ := by
  unfold apodLin
  have h : (star fun n : Fin N => ((a n : ℝ) : ℂ)) = fun n => ((a n : ℝ) : ℂ) := by
    funext n
    simp only [Pi.star_apply, RCLike.star_def, Complex.conj_ofReal]
  rw [inner_toEuclideanLin, Matrix.diagonal_conjTranspose, h]

/-- zero-pad and crop are an adjoint pair (C09: `resize_transpose`, `resize_default_swap`) -/
theorem resize_adjoint (i o : ℕ) (u : EuclideanSpace ℂ (Fin i)) (v : EuclideanSpace ℂ (Fin o)) :
    ⟪resizeLin i o u, v⟫_ℂ = ⟪u, resizeLin o i v⟫_ℂ := by
  unfold resizeLin
  rw [inner_toEuclideanLin, resizeMat_conjTranspose]

/-- `L · uIFFT = uFFTᴴ` (C05: `idftMatrix_eq_conjTranspose`) -/
theorem ufft_adjoint (L : ℕ) (hL : 0 < L) (u v : EuclideanSpace ℂ (Fin L)) :
    ⟪ufftLin L u, v⟫_ℂ = ⟪u, (((L : ℤ) : ℝ) : ℂ) • uifftLin L v⟫_ℂ := by
  unfold ufftLin uifftLin
  rw [inner_toEuclideanLin, ← C05.idftMatrix_eq_conjTranspose (fftRoot_primitive L hL) true 1,
    ← LinearMap.smul_apply, ← map_smul]
  congr 3
  ext k j
  simp only [C05.dftMatrix, Matrix.smul_apply, Matrix.of_apply, smul_eq_mul]
  have : (L : ℂ) ≠ 0 := by exact_mod_cast hL.ne'
  push_cast
  field_simp

/-- gridding = interpolationᴴ (C07: `grid1_eq_transpose_interp1`, `transpose_pairing`, `interp1_in_bounds`) -/
theorem interp_adjoint (K : Rat → Rat → Rat) (wt : Rat → ℝ) (L M : ℕ) (hL : 0 < L) (coord : Int → Int → Rat)
    (width param : Int → Rat) (u : EuclideanSpace ℂ (Fin L)) (v : EuclideanSpace ℂ (Fin M)) :
    ⟪interpLin K wt L M coord width param u, v⟫_ℂ = ⟪u, gridLin K wt L M coord width param v⟫_ℂ := by
  unfold interpLin gridLin
  rw [C07.grid1_eq_transpose_interp1, cw_swap]
  have hb : ∀ w ∈ cw wt (Gen.interp1 K (shape2 1 M) (shape2 1 L) (shape2 M 1) coord width param),
      (∃ j : Fin M, w.1 = [0, ((j : ℕ) : ℤ)]) ∧ (∃ s : Fin L, w.2.1 = [0, ((s : ℕ) : ℤ)]) := by
    intro w hw
    obtain ⟨v', hv', rfl⟩ := List.mem_map.mp hw
    obtain ⟨b, j, s, h1, h2, hb0, hb1, hj0, hj1, hs0, hs1⟩ :=
      C07.interp1_in_bounds K (shape2 1 M) (shape2 1 L) (shape2 M 1) coord width param
        (by simp only [shape2]; norm_num; exact_mod_cast hL) v' hv'
    simp only [shape2] at hb1 hj1 hs1
    norm_num at hb1 hj1 hs1
    have hb : b = 0 := by omega
    subst hb
    refine ⟨⟨⟨j.toNat, by omega⟩, ?_⟩, ⟨⟨s.toNat, by omega⟩, ?_⟩⟩
    · simp only [h1, Int.toNat_of_nonneg hj0]
    · simp only [h2, Int.toNat_of_nonneg hs0]
  exact updLin_adjoint _ L M (cw_real wt _) (fun w hw => (hb w hw).1) (fun w hw => (hb w hw).2) u v

/-- `nufft` on one axis, assembled from the concrete stages with the code's constants -/
noncomputable def nufft1 (os : Rat) (N L M : ℕ) (a : Fin N → ℝ) (K : Rat → Rat → Rat) (wt : Rat → ℝ)
    (c : Int → Int → Rat) (W : Rat) (param : Int → Rat) (x : EuclideanSpace ℂ (Fin N)) : EuclideanSpace ℂ (Fin M) :=
  fwd (apodLin N a) (resizeLin N L) (ufftLin L)
    (interpLin K wt L M (fun j k => Gen.scaleCoord os N (c j k)) (fun _ => W) param)
    (Gen.nufftFwdDiv Real.sqrt (N : ℤ)) (Gen.nufftFwdWidthDiv Real.sqrt (W : ℝ) 1) x

/-- `nufft_adjoint` on one axis -/
noncomputable def nufftAdjoint1 (os : Rat) (N L M : ℕ) (a : Fin N → ℝ) (K : Rat → Rat → Rat) (wt : Rat → ℝ)
    (c : Int → Int → Rat) (W : Rat) (param : Int → Rat) (y : EuclideanSpace ℂ (Fin M)) : EuclideanSpace ℂ (Fin N) :=
  adj (apodLin N a) (resizeLin L N) (uifftLin L)
    (gridLin K wt L M (fun j k => Gen.scaleCoord os N (c j k)) (fun _ => W) param)
    (Gen.nufftAdjMul Real.sqrt (L : ℤ) (N : ℤ)) (Gen.nufftAdjWidthDiv Real.sqrt (W : ℝ) 1) y

/-- **`nufft_adjoint` is exactly the adjoint of `nufft` (one transform axis), no stage fact assumed.**
    The pipeline is built from: a real diagonal apodisation `a` (real weights: the only assumption on `_apodize`),
    C09's zero-pad / crop with default shifts, C05's centred unnormalised DFT / numpy-normalised inverse DFT matrices
    of the oversampled length `L > 0` (for sigpy `L = ceil(os·N)`, positive by `oversampLen_ge`), and C07's generated
    update lists `Gen.interp1` / `Gen.grid1` on the coordinates `Gen.scaleCoord os N c_j` with weights sent through a
    REAL-valued function `wt` (the only assumption on the Kaiser–Bessel kernel: it is real-valued), with the scalings
    `Gen.nufftFwdDiv`, `Gen.nufftFwdWidthDiv`, `Gen.nufftAdjMul`, `Gen.nufftAdjWidthDiv` generated from the code.
    Then `⟪nufft x, y⟫ = ⟪x, nufft_adjoint y⟫` for all `x ∈ ℂ^N`, `y ∈ ℂ^M`. -/
theorem nufft_adjoint_is_adjoint_1d (os : Rat) (N L M : ℕ) (hL : 0 < L) (a : Fin N → ℝ) (K : Rat → Rat → Rat)
    (wt : Rat → ℝ) (c : Int → Int → Rat) (W : Rat) (param : Int → Rat)
    (x : EuclideanSpace ℂ (Fin N)) (y : EuclideanSpace ℂ (Fin M)) :
    ⟪nufft1 os N L M a K wt c W param x, y⟫_ℂ = ⟪x, nufftAdjoint1 os N L M a K wt c W param y⟫_ℂ :=
  nufft_adjoint_is_adjoint _ _ _ _ _ _ _ (L : ℤ) (N : ℤ) (W : ℝ) 1 (apod_selfadjoint N a) (resize_adjoint N L)
    (ufft_adjoint L hL) (interp_adjoint K wt L M hL _ _ _) x y

/-- the oversampled length sigpy uses is positive for a non-empty image and `oversamp ≥ 1` -/
theorem oversampLen_pos (os : Rat) (N : ℕ) (hN : 0 < N) (hos : 1 ≤ os) : 0 < (Gen.oversampLen os N).toNat := by
  have := oversampLen_ge os N hos (by omega)
  omega

/-- the same with sigpy's grid length `L = ceil(os·N)` (`Gen.oversampLen`) -/
theorem nufft_adjoint_is_adjoint_1d_code (os : Rat) (N M : ℕ) (hN : 0 < N) (hos : 1 ≤ os) (a : Fin N → ℝ)
    (K : Rat → Rat → Rat) (wt : Rat → ℝ) (c : Int → Int → Rat) (W : Rat) (param : Int → Rat)
    (x : EuclideanSpace ℂ (Fin N)) (y : EuclideanSpace ℂ (Fin M)) :
    ⟪nufft1 os N (Gen.oversampLen os N).toNat M a K wt c W param x, y⟫_ℂ =
      ⟪x, nufftAdjoint1 os N (Gen.oversampLen os N).toNat M a K wt c W param y⟫_ℂ :=
  nufft_adjoint_is_adjoint_1d os N _ M (oversampLen_pos os N hN hos) a K wt c W param x y

end concrete1d

end SigpyVerif.C06
