import SigpyVerif.Model.C03
import SigpyVerif.Lemmas.C03
import SigpyVerif.Props.C03
import SigpyVerif.Gen.StackParams
/-
  C03, tie of the hand-written model to the source's LOOPS.

  `Gen/StackParams.lean` contains a statement-by-statement translation of sigpy/linop.py `_hstack_params` and
  `_vstack_params` (`Gen.hstackParams`, `Gen.vstackParams`: the `axis is None` dispatch, the IndexError-raising
  read `shapes[0][axis]` BEFORE the normalisation `axis % ndim`, the outer loop over `shapes[1:]` with the rank
  test, the inner loop `for i in range(ndim)` with its three on-axis updates in source order and the off-axis
  rejection test) and of the shape guards `Linop._check_ishape/_check_oshape` (`Gen.checkIshape/checkOshape`).
  It is regenerated from /repo on every check.

  Here it is proved that these translated loops compute, for EVERY input, what the combined per-shape model
  `stackParams` (`normAxis` + `stackFold` + `compat`, Model/C03.lean) computes, so that every theorem about the
  model (`stack_build_iff`, `stack_indices_prefix_sums`, `stack_none_accepts_all`) is a theorem about the
  translated source; and that the translated guards are the model's `zipGuard`, whose exact meaning
  (a prefix test with `-1` wildcards, NOT shape equality) is characterised.

  Proof architecture (robust to harmless rewrites of the inner loop body): the generated inner step is shown
  equal to a canonical step `innerC` by case analysis + simp/omega; the generated outer step and function body
  are instances of the templates `outerT` / `paramsAxT`; everything else is proved once for the templates.
-/
namespace SigpyVerif.C03

/-- loop state of the parameter functions: `(ishape|oshape, idx, indices)` -/
abbrev St := List Nat × Nat × List Nat

/-! ### the sequential fold -/

/-- running a translated `for` loop over `l ++ [b]` = running it over `l`, then one more iteration (unless an
    exception was raised before) -/
theorem foldE_append {σ β : Type} (f : σ → β → Except Err σ) (l : List β) (b : β) : ∀ s : σ,
    foldE f s (l ++ [b]) = (match foldE f s l with | .ok s' => f s' b | .error e => .error e) := by
  induction l with
  | nil =>
    intro s
    simp only [List.nil_append, foldE]
    cases f s b <;> rfl
  | cons a l ih =>
    intro s
    simp only [List.cons_append, foldE]
    cases f s a with
    | error e => rfl
    | ok s' => exact ih s'

/-! ### canonical inner step and templates -/

/-- canonical form of one iteration of `for i in range(ndim)` with the normalised axis `a` -/
def innerC (a : Nat) (shape : List Nat) (st : St) (i : Nat) : Except Err St :=
  if i = a then
    .ok (st.1.set a (st.1.getD a 0 + shape.getD a 0), st.2.1 + shape.getD a 0, st.2.2 ++ [st.2.1])
  else if shape.getD i 0 = st.1.getD i 0 then .ok st else .error .build

/-- the outer loop body in terms of an inner step: rank test, then `for i in range(ndim)` -/
def outerT (inner : Int → Nat → List Nat → St → Nat → Except Err St)
    (axis : Int) (ndim : Nat) (st : St) (shape : List Nat) : Except Err St :=
  if shape.length = ndim then foldE (inner axis ndim shape) st (List.range ndim) else .error .build

/-- the function body in terms of an outer step: `shapes[0]`, `shapes[0][axis]` (IndexError outside
    `[-ndim, ndim)`), then `axis % ndim`, then the loop over `shapes[1:]`, then `return shape, indices` -/
def paramsAxT (outer : Int → Nat → St → List Nat → Except Err St)
    (shapes : List (List Nat)) (axis : Int) : Except Err (List Nat × List Nat) :=
  match shapes with
  | [] => .error .build
  | s0 :: rest =>
    match pyIndex s0 axis with
    | none => .error .build
    | some idx =>
      if s0.length = 0 then .error .build
      else
        match foldE (outer (pyMod axis s0.length) s0.length) (s0, idx, []) rest with
        | .error e => .error e
        | .ok st => .ok (st.1, st.2.2)

/-! ### the inner loop computes `compat` and the three updates -/

/-- the in-place update `shape[a] = v` does not disturb the later off-axis comparisons at `i ≠ a` -/
theorem getD_set_ne (l : List Nat) (a i v : Nat) (h : i ≠ a) : (l.set a v).getD i 0 = l.getD i 0 := by
  simp [List.getD_eq_getElem?_getD, List.getElem?_set_ne (Ne.symm h)]

/-- after `k` iterations of the inner loop: an exception iff one of the first `k` off-axis entries differs;
    otherwise the state is updated iff the axis has been passed (`a < k`). -/
theorem inner_fold (a : Nat) (shape ish : List Nat) (idx : Nat) (ind : List Nat) (k : Nat) :
    foldE (innerC a shape) (ish, idx, ind) (List.range k) =
      if (List.range k).all (fun i => decide (i = a) || decide (shape.getD i 0 = ish.getD i 0)) then
        .ok (if a < k then (ish.set a (ish.getD a 0 + shape.getD a 0), idx + shape.getD a 0, ind ++ [idx])
             else (ish, idx, ind))
      else .error .build := by
  induction k with
  | zero => simp [foldE]
  | succ k ih =>
    rw [List.range_succ, foldE_append, ih, List.all_append]
    by_cases hall : (List.range k).all (fun i => decide (i = a) || decide (shape.getD i 0 = ish.getD i 0)) = true
    · rw [if_pos hall, hall]
      simp only [Bool.true_and, List.all_cons, List.all_nil, Bool.and_true]
      by_cases hka : k = a
      · subst hka
        simp [innerC]
      · have hk : decide (k = a) = false := by simpa using hka
        by_cases hlt : a < k
        · have hlt' : a < k + 1 := by omega
          rw [if_pos hlt, if_pos hlt']
          simp only [innerC, if_neg hka, getD_set_ne ish a k _ hka, hk, Bool.false_or, decide_eq_true_eq]
        · have hlt' : ¬ a < k + 1 := by omega
          rw [if_neg hlt, if_neg hlt']
          simp only [innerC, if_neg hka, hk, Bool.false_or, decide_eq_true_eq]
    · rw [if_neg hall]
      have : (List.range k).all (fun i => decide (i = a) || decide (shape.getD i 0 = ish.getD i 0)) = false := by
        simpa using hall
      rw [this]
      simp

/-- one iteration of the outer loop = the model's `compat` test and update -/
theorem outer_step (inner : Int → Nat → List Nat → St → Nat → Except Err St) (ax : Int) (a : Nat)
    (hin : ∀ ndim shape st i, inner ax ndim shape st i = innerC a shape st i)
    (ish : List Nat) (idx : Nat) (ind shape : List Nat) (ha : a < ish.length) :
    outerT inner ax ish.length (ish, idx, ind) shape =
      if compat a ish shape then
        .ok (ish.set a (ish.getD a 0 + shape.getD a 0), idx + shape.getD a 0, ind ++ [idx])
      else .error .build := by
  have hf : inner ax ish.length shape = innerC a shape := by
    funext st i; exact hin _ _ _ _
  unfold outerT compat
  rw [hf, inner_fold]
  by_cases hl : shape.length = ish.length
  · simp [hl, ha]
  · simp [hl]

/-- the loop over `shapes[1:]` = the model's `stackFold` (the running index is dropped on return) -/
theorem outer_fold (inner : Int → Nat → List Nat → St → Nat → Except Err St) (ax : Int) (a : Nat)
    (hin : ∀ ndim shape st i, inner ax ndim shape st i = innerC a shape st i) (n : Nat) (rest : List (List Nat)) :
    ∀ (ish : List Nat) (idx : Nat) (ind : List Nat), ish.length = n → a < n →
      (match foldE (outerT inner ax n) (ish, idx, ind) rest with
        | .error e => .error e
        | .ok st => .ok (st.1, st.2.2)) = stackFold a rest ish idx ind := by
  induction rest with
  | nil => intro ish idx ind _ _; simp [foldE, stackFold]
  | cons sh rest ih =>
    intro ish idx ind hn ha
    subst hn
    simp only [foldE, stackFold]
    rw [outer_step inner ax a hin ish idx ind sh ha]
    by_cases hc : compat a ish sh = true
    · rw [if_pos hc, if_pos hc]
      simp only []
      have hlen : (ish.set a (ish.getD a 0 + sh.getD a 0)).length = ish.length := by simp
      have := ih (ish.set a (ish.getD a 0 + sh.getD a 0)) (idx + sh.getD a 0) (ind ++ [idx]) hlen ha
      rw [← this]
    · rw [if_neg hc, if_neg hc]

/-- Python list indexing `l[ax]` is defined exactly when `normAxis` accepts the axis, and then reads the
    entry at the normalised axis -/
theorem pyIndex_normAxis (l : List Nat) (ax : Int) :
    (∀ a, normAxis ax l.length = .ok a → pyIndex l ax = some (l.getD a 0)) ∧
    (∀ e, normAxis ax l.length = .error e → pyIndex l ax = none) := by
  constructor
  · intro a h
    obtain ⟨h1, h2, h3, h4⟩ := (normAxis_spec ax l.length a).mp h
    unfold pyIndex
    by_cases h0 : 0 ≤ ax
    · have : ax.toNat = a := by omega
      rw [if_pos h0, this]
      simp [List.getD_eq_getElem?_getD, h3]
    · have : ((l.length : Int) + ax).toNat = a := by omega
      rw [if_neg h0, if_pos h1, this]
      simp [List.getD_eq_getElem?_getD, h3]
  · intro e h
    unfold normAxis at h
    unfold pyIndex
    by_cases hr : -(l.length : Int) ≤ ax ∧ ax < l.length
    · rw [if_pos hr] at h; cases h
    · by_cases h0 : 0 ≤ ax
      · rw [if_pos h0]
        have : l.length ≤ ax.toNat := by omega
        simp [this]
      · rw [if_neg h0]
        have : ¬ -(l.length : Int) ≤ ax := by omega
        rw [if_neg this]

/-- the function body with an int axis = `normAxis` followed by `stackFold` -/
theorem paramsAxT_eq (inner : Int → Nat → List Nat → St → Nat → Except Err St)
    (hin : ∀ (a : Nat) ndim shape st i, inner (a : Int) ndim shape st i = innerC a shape st i)
    (s0 : List Nat) (rest : List (List Nat)) (ax : Int) :
    paramsAxT (outerT inner) (s0 :: rest) ax =
      (match normAxis ax s0.length with
        | .ok a => stackFold a rest s0 (s0.getD a 0) []
        | .error e => .error e) := by
  simp only [paramsAxT]
  cases hn : normAxis ax s0.length with
  | error e =>
    rw [(pyIndex_normAxis s0 ax).2 e hn]
    have he : e = .build := by
      unfold normAxis at hn
      split at hn
      · cases hn
      · cases hn; rfl
    subst he
    rfl
  | ok a =>
    rw [(pyIndex_normAxis s0 ax).1 a hn]
    obtain ⟨_, _, h3, _⟩ := (normAxis_spec ax s0.length a).mp hn
    have hne : ¬ s0.length = 0 := by omega
    have hmod := (normAxis_eq ax s0.length a hn).1
    simp only [if_neg hne, ← hmod]
    exact outer_fold inner (a : Int) a (hin a) s0.length rest s0 (s0.getD a 0) [] rfl h3

/-- the whole function (with the `axis is None` dispatch) = the model's `stackParams` -/
theorem paramsT_eq (inner : Int → Nat → List Nat → St → Nat → Except Err St)
    (hin : ∀ (a : Nat) ndim shape st i, inner (a : Int) ndim shape st i = innerC a shape st i)
    (shapes : List (List Nat)) (axis : Option Int) :
    (match axis with
      | none => paramsAxT (outerT inner) (shapes.map fun shape => [sprod shape]) 0
      | some axis => paramsAxT (outerT inner) shapes axis) = stackParams shapes axis := by
  cases axis with
  | none =>
    cases shapes with
    | nil => rfl
    | cons s0 rest =>
      simp only [List.map_cons, stackParams]
      rw [paramsAxT_eq inner hin]
      rfl
  | some ax =>
    cases shapes with
    | nil => rfl
    | cons s0 rest =>
      simp only [stackParams]
      rw [paramsAxT_eq inner hin]
      rfl

/-! ### the generated definitions are instances of the canonical step / the templates -/

/-- the translated body of `for i in range(ndim)` in `_hstack_params`, with the normalised axis, is the canonical
    step: on the axis add `shape[i]` to the entry, append the OLD index, advance the index; off the axis raise iff
    the entries differ.  (Proved by case analysis + simp, so equivalent spellings of the source pass.) -/
theorem gen_hinner (a : Nat) (ndim : Nat) (shape : List Nat) (st : St) (i : Nat) :
    Gen.hstackInnerStep (a : Int) ndim shape st i = innerC a shape st i := by
  obtain ⟨ish, idx, ind⟩ := st
  simp only [Gen.hstackInnerStep, innerC, Int.natCast_inj]
  by_cases h : i = a
  · subst h; simp [Nat.add_comm]
  · simp only [if_neg h]
    repeat' split
    all_goals first | rfl | simp_all

/-- the same for `_vstack_params` (`oshape`) -/
theorem gen_vinner (a : Nat) (ndim : Nat) (shape : List Nat) (st : St) (i : Nat) :
    Gen.vstackInnerStep (a : Int) ndim shape st i = innerC a shape st i := by
  obtain ⟨ish, idx, ind⟩ := st
  simp only [Gen.vstackInnerStep, innerC, Int.natCast_inj]
  by_cases h : i = a
  · subst h; simp [Nat.add_comm]
  · simp only [if_neg h]
    repeat' split
    all_goals first | rfl | simp_all

set_option linter.unusedSimpArgs false in
/-- the translated body of `for shape in shapes[1:]` in `_hstack_params` is: rank test, then the inner loop -/
theorem gen_houter : Gen.hstackOuterStep = outerT Gen.hstackInnerStep := by
  funext axis ndim st shape
  obtain ⟨ish, idx, ind⟩ := st
  simp only [Gen.hstackOuterStep, outerT]
  by_cases h : shape.length = ndim
  · subst h
    simp only [ne_eq, not_true_eq_false, eq_self, if_false, if_true]
    generalize foldE _ _ _ = r
    rcases r with e | ⟨x, y, z⟩ <;> rfl
  · have h' : ¬ ndim = shape.length := fun e => h e.symm
    simp [h, h']

set_option linter.unusedSimpArgs false in
/-- the same for `_vstack_params` -/
theorem gen_vouter : Gen.vstackOuterStep = outerT Gen.vstackInnerStep := by
  funext axis ndim st shape
  obtain ⟨ish, idx, ind⟩ := st
  simp only [Gen.vstackOuterStep, outerT]
  by_cases h : shape.length = ndim
  · subst h
    simp only [ne_eq, not_true_eq_false, eq_self, if_false, if_true]
    generalize foldE _ _ _ = r
    rcases r with e | ⟨x, y, z⟩ <;> rfl
  · have h' : ¬ ndim = shape.length := fun e => h e.symm
    simp [h, h']

/-- the translated body of `_hstack_params` (int axis) has the statement order of the template: `shapes[0]`,
    then the read `shapes[0][axis]`, then `axis % ndim`, then the loop, then `return ishape, indices` -/
theorem gen_hparamsAx : Gen.hstackParamsAx = paramsAxT Gen.hstackOuterStep := by
  funext shapes axis
  cases shapes with
  | nil => rfl
  | cons s0 rest =>
    simp only [Gen.hstackParamsAx, paramsAxT]
    cases pyIndex s0 axis with
    | none => rfl
    | some idx =>
      simp only [Int.natCast_eq_zero]
      by_cases h0 : s0.length = 0
      · simp [h0]
      · simp only [if_neg h0]
        generalize foldE _ _ _ = r
        rcases r with e | ⟨x, y, z⟩ <;> rfl

/-- the same for `_vstack_params` -/
theorem gen_vparamsAx : Gen.vstackParamsAx = paramsAxT Gen.vstackOuterStep := by
  funext shapes axis
  cases shapes with
  | nil => rfl
  | cons s0 rest =>
    simp only [Gen.vstackParamsAx, paramsAxT]
    cases pyIndex s0 axis with
    | none => rfl
    | some idx =>
      simp only [Int.natCast_eq_zero]
      by_cases h0 : s0.length = 0
      · simp [h0]
      · simp only [if_neg h0]
        generalize foldE _ _ _ = r
        rcases r with e | ⟨x, y, z⟩ <;> rfl

/-! ### main theorem -/

/-- **The loops of the source are the model.**  The statement-by-statement translations of `_hstack_params` and
    `_vstack_params` (regenerated from sigpy/linop.py on every check) return, for every list of shapes —
    empty, rank 0, ranks that differ, out-of-range axes — and every axis including `None`, exactly what the model
    `stackParams` returns: the same exception-or-result, the same shape and the same indices.  Hence the
    sequential `for i in range(ndim)` loop with its in-place updates performs the combined per-shape test
    `compat` (same rank, equal off the axis) and the update `(shape[a] += n, indices.append(idx), idx += n)`;
    `shapes[0][axis]` raises exactly outside `[-ndim, ndim)`; and the comparison `i == axis` uses the normalised
    axis.  (Breaks when the normalisation is removed or moved in front of the read, the append is moved behind
    the advance, the rejection test or the rank test is weakened, in either function.) -/
theorem gen_loop_eq_combined (shapes : List (List Nat)) (axis : Option Int) :
    Gen.hstackParams shapes axis = stackParams shapes axis ∧
      Gen.vstackParams shapes axis = stackParams shapes axis := by
  constructor
  · rw [← paramsT_eq Gen.hstackInnerStep gen_hinner shapes axis]
    unfold Gen.hstackParams
    rw [gen_hparamsAx, gen_houter]
    cases axis <;> rfl
  · rw [← paramsT_eq Gen.vstackInnerStep gen_vinner shapes axis]
    unfold Gen.vstackParams
    rw [gen_vparamsAx, gen_vouter]
    cases axis <;> rfl

/-! ### the model's theorems, stated about the translated source -/

/-- **build_error_iff for the translated `_hstack_params` / `_vstack_params`**: with an int axis, the source's
    loops accept the shapes exactly when the axis lies in `[-ndim, ndim)` and every further shape has the same
    rank as the first and agrees with it off the normalised axis (`Fits`).  In particular a negative in-range
    axis is accepted by both functions, and nothing else makes them raise. -/
theorem gen_stack_build_iff (s0 : List Nat) (rest : List (List Nat)) (ax : Int) :
    ((∃ r, Gen.hstackParams (s0 :: rest) (some ax) = .ok r) ↔
      ∃ a, normAxis ax s0.length = .ok a ∧ ∀ sh ∈ rest, Fits a s0 sh) ∧
    ((∃ r, Gen.vstackParams (s0 :: rest) (some ax) = .ok r) ↔
      ∃ a, normAxis ax s0.length = .ok a ∧ ∀ sh ∈ rest, Fits a s0 sh) := by
  rw [(gen_loop_eq_combined _ _).1, (gen_loop_eq_combined _ _).2]
  exact ⟨stack_build_iff s0 rest ax, stack_build_iff s0 rest ax⟩

/-- **stack_indices_prefix_sums for the translated source**: whenever the source's `_hstack_params` (or
    `_vstack_params`) returns `(shape, indices)`, the shape is the first shape with the axis entry replaced by the
    sum of all axis entries and `indices` are the running sums `[n₀, n₀+n₁, …]` of the operand sizes along the
    normalised axis — the slab boundaries `Hstack/Vstack._apply` slice at. -/
theorem gen_stack_indices_prefix_sums (s0 : List Nat) (rest : List (List Nat)) (ax : Int) (osh ind : List Nat)
    (h : Gen.hstackParams (s0 :: rest) (some ax) = .ok (osh, ind) ∨
         Gen.vstackParams (s0 :: rest) (some ax) = .ok (osh, ind)) :
    ∃ a, normAxis ax s0.length = .ok a ∧
      osh = s0.set a (s0.getD a 0 + (rest.map (·.getD a 0)).sum) ∧
      ind = prefixFrom (s0.getD a 0) (rest.map (·.getD a 0)) := by
  rw [(gen_loop_eq_combined _ _).1, (gen_loop_eq_combined _ _).2, or_self] at h
  exact stack_indices_prefix_sums s0 rest ax osh ind h

/-- **flattened stacking in the translated source** (`axis=None`): the recursive call on `[[prod(shape)] …]`
    with axis 0 accepts every non-empty list of shapes and returns the total size and the running sums of the
    sizes, for both functions. -/
theorem gen_stack_none_accepts_all (s0 : List Nat) (rest : List (List Nat)) :
    Gen.hstackParams (s0 :: rest) none =
        .ok ([sprod s0 + (rest.map sprod).sum], prefixFrom (sprod s0) (rest.map sprod)) ∧
    Gen.vstackParams (s0 :: rest) none =
        .ok ([sprod s0 + (rest.map sprod).sum], prefixFrom (sprod s0) (rest.map sprod)) := by
  rw [(gen_loop_eq_combined _ _).1, (gen_loop_eq_combined _ _).2]
  exact ⟨stack_none_accepts_all s0 rest, stack_none_accepts_all s0 rest⟩

/-- an empty operand list raises in both functions (`shapes[0]`), with or without an axis -/
theorem gen_stack_empty (axis : Option Int) :
    Gen.hstackParams [] axis = .error .build ∧ Gen.vstackParams [] axis = .error .build := by
  rw [(gen_loop_eq_combined _ _).1, (gen_loop_eq_combined _ _).2]
  cases axis <;> exact ⟨rfl, rfl⟩

/-! ### the shape guards `_check_ishape` / `_check_oshape` -/

/-- **the translated guards are the model's `zipGuard`**: `Linop._check_ishape` and `_check_oshape` (regenerated
    from the source: a loop over `zip(array.shape, self.shape)` raising on `b != -1 and a != b`) accept exactly
    the pairs of shapes `zipGuard` accepts. -/
theorem gen_guard_agree (got adv : List Int) :
    Gen.checkIshape got adv = zipGuard got adv ∧ Gen.checkOshape got adv = zipGuard got adv := by
  induction got generalizing adv with
  | nil => simp [Gen.checkIshape, Gen.checkOshape, zipGuard]
  | cons a got ih =>
    cases adv with
    | nil => simp [Gen.checkIshape, Gen.checkOshape, zipGuard]
    | cons b adv =>
      have h := ih adv
      simp only [Gen.checkIshape, Gen.checkOshape, List.zip_cons_cons, List.all_cons, zipGuard] at h ⊢
      rw [h.1, h.2]
      have e1 : (!Gen.checkIshapeRejects a b) = (decide (b = -1) || decide (a = b)) := by
        by_cases h1 : b = -1 <;> by_cases h2 : a = b <;> simp [Gen.checkIshapeRejects, h1, h2]
      have e2 : (!Gen.checkOshapeRejects a b) = (decide (b = -1) || decide (a = b)) := by
        by_cases h1 : b = -1 <;> by_cases h2 : a = b <;> simp [Gen.checkOshapeRejects, h1, h2]
      rw [e1, e2]
      exact ⟨rfl, rfl⟩

/-- **what the guard really tests**: `zip` stops at the shorter shape, so the guard accepts iff on the COMMON
    prefix every advertised entry is the wildcard `-1` or equals the actual entry.  Nothing is demanded of the
    ranks: an array of a different rank passes as long as the common prefix matches. -/
theorem zipGuard_iff (got adv : List Int) :
    zipGuard got adv = true ↔
      ∀ i, i < got.length → i < adv.length → (adv.getD i 0 = -1 ∨ got.getD i 0 = adv.getD i 0) := by
  induction got generalizing adv with
  | nil => simp [zipGuard]
  | cons a got ih =>
    cases adv with
    | nil => simp [zipGuard]
    | cons b adv =>
      simp only [zipGuard, Bool.and_eq_true, Bool.or_eq_true, decide_eq_true_eq, ih adv, List.length_cons]
      constructor
      · rintro ⟨h0, h⟩ i hi1 hi2
        cases i with
        | zero => simpa using h0
        | succ i => simpa using h i (by omega) (by omega)
      · intro h
        refine ⟨by simpa using h 0 (by omega) (by omega), fun i h1 h2 => ?_⟩
        simpa using h (i + 1) (by omega) (by omega)

/-- **when the guard is shape equality**: for an array of the advertised rank and an advertised shape without
    wildcards, the guard accepts exactly the advertised shape.  (Both hypotheses are needed: see the examples
    below.) -/
theorem zipGuard_eq_iff (got adv : List Int) (hlen : got.length = adv.length) (hw : ∀ b ∈ adv, b ≠ -1) :
    zipGuard got adv = true ↔ got = adv := by
  induction got generalizing adv with
  | nil =>
    cases adv with
    | nil => simp [zipGuard]
    | cons b adv => simp at hlen
  | cons a got ih =>
    cases adv with
    | nil => simp at hlen
    | cons b adv =>
      have hb : b ≠ -1 := hw b (by simp)
      have := ih adv (by simpa using hlen) (fun x hx => hw x (by simp [hx]))
      simp only [zipGuard, Bool.and_eq_true, Bool.or_eq_true, decide_eq_true_eq, this, List.cons.injEq, hb,
        false_or]

/-- a strictly shorter array shape passes the guard (`zip` truncates) -/
example : zipGuard [2] [2, 3] = true := by decide
/-- a strictly longer one too -/
example : zipGuard [2, 3, 7] [2, 3] = true := by decide
/-- `-1` in the advertised shape is a wildcard -/
example : zipGuard [5, 3] [-1, 3] = true := by decide
example : zipGuard [3] [2, 3] = false := by decide
example : Gen.checkIshape [2] [2, 3] = true ∧ Gen.checkOshape [5, 3] [-1, 3] = true ∧
    Gen.checkIshape [3] [2, 3] = false := by decide

/-! ### non-vacuity: the translated loops on concrete inputs -/

example : Gen.hstackParams [[2, 3], [2, 4], [2, 1]] (some (-1)) = .ok ([2, 8], [3, 7]) := by decide
example : Gen.vstackParams [[2, 3], [5, 3], [1, 3]] (some 0) = .ok ([8, 3], [2, 7]) := by decide
example : Gen.vstackParams [[2, 3], [5, 3], [1, 3]] (some (-2)) = .ok ([8, 3], [2, 7]) := by decide
/-- out-of-range axis: `shapes[0][axis]` raises (the read comes before the normalisation) -/
example : Gen.hstackParams [[2, 3], [2, 4]] (some 2) = .error .build := by decide
example : Gen.hstackParams [[2, 3], [2, 4]] (some (-3)) = .error .build := by decide
/-- rank mismatch -/
example : Gen.hstackParams [[2, 3], [2, 3, 1]] (some 1) = .error .build := by decide
/-- off-axis mismatch -/
example : Gen.hstackParams [[2, 3], [2, 4]] (some 0) = .error .build := by decide
/-- rank-0 shapes have no axis -/
example : Gen.hstackParams [[], []] (some 0) = .error .build := by decide
/-- `axis=None`: flattened -/
example : Gen.hstackParams [[2, 3], [4], []] none = .ok ([11], [6, 10]) := by decide
example : Gen.vstackParams [] none = .error .build := by decide
/-- the hypotheses of `gen_stack_build_iff` are satisfiable -/
example : ∃ a, normAxis (-1) [2, 3].length = .ok a ∧ ∀ sh ∈ [[2, 4], [2, 1]], Fits a [2, 3] sh :=
  (gen_stack_build_iff [2, 3] [[2, 4], [2, 1]] (-1)).1.mp ⟨([2, 8], [3, 7]), by decide⟩


/-! ### the `_apply` methods -/

/-- the `_apply` methods of `Hstack`, `Vstack`, `Diag` slice along `axis mod ndim` (what `slab` / `assemble` in the
    model, and `concatOpt` in the block theorems, use) -/
theorem gen_apply_axis_agree (ax ndim : Int) :
    Gen.hstackApplyAxis ax ndim = pyMod ax ndim ∧ Gen.vstackApplyAxis ax ndim = pyMod ax ndim ∧
      Gen.diagApplyIAxis ax ndim = pyMod ax ndim ∧ Gen.diagApplyOAxis ax ndim = pyMod ax ndim :=
  ⟨rfl, rfl, rfl, rfl⟩

end SigpyVerif.C03
