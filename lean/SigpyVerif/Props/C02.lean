/-
  C02 — operators are linear over ℂ, deterministic, and never mutate inputs.

  What is PROVED here (kernel-checked, for all programs / entry lists / histories):
    * `noMutation_sound`, `noMutation_sound_entry` : if the checker `noMutation` accepts an effect-IR
      program, no execution of the concrete store semantics changes the contents of any buffer that
      existed at entry (parameters, captured arrays, anything else the caller owns).
    * `ret_sound`, `ret_fresh_disjoint` : the returned value references only buffers of the origins
      the analysis reports; "ret = {fresh}" ⇒ the result shares no buffer with any argument.
    * `denote_linear` : `applyE` (Model/Py.lean — the meaning of every index-map / weight operator)
      is additive and homogeneous over any commutative ring.
    * `conj_sandwich_linear`, `conj_half_antilinear`, `conj_half_not_linear` : `x ↦ conj(A(conj x))`
      is ℂ-linear when `A` is; dropping one conjugate gives an anti-linear map (counterexample).
    * `history_determinism` : for an operator object whose `_apply` reads only the constructor
      parameters and writes nothing, in every interleaving of `apply` / `.H` / `.N` the output of
      `apply x` is the output a brand-new object gives on `x`; `caching_operator_not_deterministic`
      shows the hypothesis is needed.
  The per-function obligations `noMutation prog_<f> = true` are in the generated `Gen/Effects.lean`
  (regenerated from the Python source on every run, closed by `decide`).

  Whole operator trees (C01 expression language: 19 leaf classes + Compose/Add/Conj/Hstack/Vstack/
  Diag) are in Props/C02Tree.lean: `tree_linear`, `tree_deterministic`, `tree_history_deterministic`.

  What is only VALIDATED (runtime correspondence stream in harness/props/c02.py): that the generated
  IR over-approximates what numpy actually does (table of view/copy semantics), and linearity /
  determinism of the operators whose arithmetic is not an entry list (FFT, NUFFT, wavelet, convolution).
-/
import SigpyVerif.Lemmas.C02
import SigpyVerif.Model.Py
import Mathlib.Tactic.Ring
import Mathlib.Tactic.Linarith
import Mathlib.Data.Complex.Basic
import Mathlib.Algebra.Star.Pi

namespace SigpyVerif.C02

/-! ### (b) soundness of the checker -/

/-- **Soundness of `noMutation`.**  Let the entry store be described by the function's initial
    abstract state under any interpretation `I` of `param i` / `captured k` as sets of entry buffers
    (`fresh` = allocated later).  If the checker accepts, then after *every* execution every buffer
    that existed at entry has its entry contents.  For sigpy: a function whose generated program
    passes never writes into the caller's arrays nor into arrays captured by the operator. -/
theorem noMutation_sound {n : Nat} (f : Func n) (hf : noMutation f = true) (I : Interp)
    (σ σ' : Store n) (hn : I.n0 = σ.next)
    (henv : ∀ v b, b ∈ σ.env v → b < σ.next ∧ ∃ o ∈ f.init v, I.own o b)
    (hret : σ.ret = []) (hex : Exec f.body σ σ') :
    ∀ b, b < σ.next → σ'.heap b = σ.heap b := by
  intro b hb
  have hc0 : Consistent I σ.heap f.abs0 σ :=
    ⟨by omega, henv, fun b _ h => absurd rfl h, by simp [hret]⟩
  simp only [noMutation, Func.result, Bool.and_eq_true, List.all_eq_true] at hf
  have hc := analyze_sound I σ.heap f.body f.abs0 σ σ' hex hf.1 hc0
  apply Decidable.byContradiction
  intro hne
  obtain ⟨o, ho, hown⟩ := hc.heap b (hn ▸ hb) hne
  have h1 : o = .fresh := by simpa using hf.2 o ho
  subst h1
  have := (I.fresh_iff b).1 hown
  omega

/-- **Soundness of `writesOnly`.**  If the checker accepts a program with the allowed origins `allowed`, then
    after every execution every entry buffer that is NOT owned by one of the allowed origins has its entry
    contents.  For the apps of sigpy (`LinearLeastSquares` set-ups and closures, the MRI recon apps): with
    `allowed` = the object itself and its solution / work arrays, the data `y`, the bias `z`, the maps, the
    weights, the coordinates and the arrays captured by `A`, `G`, `proxg` are never written. -/
theorem writesOnly_sound {n : Nat} (f : Func n) (allowed : List Origin) (hf : writesOnly f allowed = true)
    (I : Interp) (σ σ' : Store n) (hn : I.n0 = σ.next)
    (henv : ∀ v b, b ∈ σ.env v → b < σ.next ∧ ∃ o ∈ f.init v, I.own o b)
    (hret : σ.ret = []) (hex : Exec f.body σ σ') :
    ∀ b, b < σ.next → (∀ o ∈ allowed, ¬ I.own o b) → σ'.heap b = σ.heap b := by
  intro b hb hnot
  have hc0 : Consistent I σ.heap f.abs0 σ :=
    ⟨by omega, henv, fun b _ h => absurd rfl h, by simp [hret]⟩
  simp only [writesOnly, Func.result, Bool.and_eq_true, List.all_eq_true] at hf
  have hc := analyze_sound I σ.heap f.body f.abs0 σ σ' hex hf.1 hc0
  apply Decidable.byContradiction
  intro hne
  obtain ⟨o, ho, hown⟩ := hc.heap b (hn ▸ hb) hne
  have h1 := hf.2 o ho
  simp only [Bool.or_eq_true, beq_iff_eq, List.contains_eq_mem, decide_eq_true_eq] at h1
  rcases h1 with h1 | h1
  · subst h1
    have := (I.fresh_iff b).1 hown
    omega
  · exact hnot o h1 hown

/-- `writesOnly f []` is `noMutation f` -/
theorem writesOnly_nil {n : Nat} (f : Func n) : writesOnly f [] = noMutation f := by
  simp [writesOnly, noMutation]

/-- non-vacuity: `x` (parameter 0) is the documented in/out argument, `y` (parameter 1) is protected:
    `x += y` passes with `allowed = [param 0]`, `y += x` does not -/
example : writesOnly ({ np := 2, nc := 0, body := .instr (.mutate 0) } : Func 2) [.param 0] = true := by decide
example : writesOnly ({ np := 2, nc := 0, body := .instr (.mutate 1) } : Func 2) [.param 0] = false := by decide

/-- the canonical interpretation: `param i` / `captured k` own exactly the buffers their variable
    references at entry -/
def entryInterp {n : Nat} (f : Func n) (σ : Store n) : Interp where
  n0 := σ.next
  own := fun o b => if o = .fresh then σ.next ≤ b else ∃ v, o ∈ f.init v ∧ b ∈ σ.env v
  fresh_iff := by intro b; simp

/-- **Soundness, stated without an interpretation.**  Entry store: every referenced buffer is
    allocated, local variables are unbound, nothing returned yet.  Then an accepted function leaves
    every allocated buffer unchanged in every execution (any branch choices, any iteration counts, any
    values written, any behaviour of callees within their summaries). -/
theorem noMutation_sound_entry {n : Nat} (f : Func n) (hf : noMutation f = true) (σ σ' : Store n)
    (hwf : ∀ v b, b ∈ σ.env v → b < σ.next) (hloc : ∀ v, f.init v = [] → σ.env v = [])
    (hret : σ.ret = []) (hex : Exec f.body σ σ') :
    ∀ b, b < σ.next → σ'.heap b = σ.heap b := by
  refine noMutation_sound f hf (entryInterp f σ) σ σ' rfl ?_ hret hex
  intro v b hb
  refine ⟨hwf v b hb, ?_⟩
  cases hi : f.init v with
  | nil => rw [hloc v hi] at hb; cases hb
  | cons o rest =>
    have ho : o ∈ f.init v := by rw [hi]; simp
    refine ⟨o, by simp, ?_⟩
    have hne := init_ne_fresh f v o ho
    simp only [entryInterp, hne, if_false]
    exact ⟨v, ho, hb⟩

/-- every returned buffer belongs to one of the origins the analysis reports -/
theorem ret_sound {n : Nat} (f : Func n) (hok : f.result.ok = true) (I : Interp) (σ σ' : Store n)
    (hn : I.n0 = σ.next)
    (henv : ∀ v b, b ∈ σ.env v → b < σ.next ∧ ∃ o ∈ f.init v, I.own o b)
    (hret : σ.ret = []) (hex : Exec f.body σ σ') :
    ∀ b ∈ σ'.ret, ∃ o ∈ retOrigins f, I.own o b := by
  have hc0 : Consistent I σ.heap f.abs0 σ :=
    ⟨by omega, henv, fun b _ h => absurd rfl h, by simp [hret]⟩
  exact (analyze_sound I σ.heap f.body f.abs0 σ σ' hex hok hc0).ret

/-- "IR says fresh ⇒ must not share": if the analysis reports only `fresh` for the result, the
    returned value references no buffer that existed at entry. -/
theorem ret_fresh_disjoint {n : Nat} (f : Func n) (hok : f.result.ok = true)
    (hfresh : (retOrigins f).all (fun o => o == .fresh) = true) (σ σ' : Store n)
    (hwf : ∀ v b, b ∈ σ.env v → b < σ.next) (hloc : ∀ v, f.init v = [] → σ.env v = [])
    (hret : σ.ret = []) (hex : Exec f.body σ σ') :
    ∀ b ∈ σ'.ret, σ.next ≤ b := by
  intro b hb
  have henv : ∀ v b, b ∈ σ.env v → b < σ.next ∧ ∃ o ∈ f.init v, (entryInterp f σ).own o b := by
    intro v b hb
    refine ⟨hwf v b hb, ?_⟩
    cases hi : f.init v with
    | nil => rw [hloc v hi] at hb; cases hb
    | cons o rest =>
      have ho : o ∈ f.init v := by rw [hi]; simp
      refine ⟨o, by simp, ?_⟩
      have hne := init_ne_fresh f v o ho
      simp only [entryInterp, hne, if_false]
      exact ⟨v, ho, hb⟩
  obtain ⟨o, ho, hown⟩ := ret_sound f hok (entryInterp f σ) σ σ' rfl henv hret hex b hb
  have h1 : o = .fresh := by simpa using (List.all_eq_true.1 hfresh) o ho
  subst h1
  exact ((entryInterp f σ).fresh_iff b).1 hown

/-! non-vacuity: the semantics can really change a parameter, the checker rejects that program, and
    accepts the copy-then-write version (the two shapes of `get_cov`: `X -= mean` vs `X = X - mean`). -/

/-- `X = noise.reshape(..); X -= mean; return X`  (variables: 0 = noise, 1 = X) -/
def exBad : Func 2 :=
  { np := 1, nc := 0,
    body := .seq (.instr (.alias 1 [0])) (.seq (.instr (.mutate 1)) (.instr (.ret 1))) }

/-- `X = noise.reshape(..); X = X - mean; return X` -/
def exGood : Func 2 :=
  { np := 1, nc := 0,
    body := .seq (.instr (.alias 1 [0])) (.seq (.instr (.fresh 1)) (.seq (.instr (.mutate 1)) (.instr (.ret 1)))) }

example : noMutation exBad = false := by decide
example : noMutation exGood = true := by decide
example : retOrigins exGood = [.fresh] := by decide

def exStore : Store 2 :=
  { env := fun v => if v = 0 then [0] else [], heap := fun _ => 7, next := 1, ret := [] }

/-- the bad program has an execution that changes the caller's buffer 0 -/
example : ∃ σ' : Store 2, Exec exBad.body exStore σ' ∧ σ'.heap 0 ≠ exStore.heap 0 := by
  refine ⟨{ env := upd exStore.env 1 [0], heap := fun b => if b = 0 then 8 else 7, next := 1,
            ret := [] ++ [0] }, ?_, by decide⟩
  refine .seq (.instr (Step.alias exStore 1 [0] [0] ?_))
    (.seq (.instr (Step.mutate _ 1 (fun b => if b = 0 then 8 else 7) ?_)) (.instr ?_))
  · intro b hb; exact ⟨0, by simp, by simpa [exStore] using hb⟩
  · intro b hb
    have hb0 : b ≠ 0 := by
      intro e; apply hb; subst e; simp [upd]
    simp [hb0, exStore]
  · exact Step.ret _ 1

/-! ### (d) linearity -/

section linear
open SigpyVerif

variable {α : Type} [CommRing α]

private theorem getD_set' (out : Array α) (i k : Nat) (h : i < out.size) (v : α) :
    (out.set i v h).getD k 0 = if k = i then v else out.getD k 0 := by
  simp only [Array.getD_eq_getD_getElem?, Array.getElem?_set]
  by_cases hk : k = i
  · subst hk; simp
  · have : i ≠ k := fun e => hk e.symm
    simp [hk, this]

/-- one update of `applyE` (projection form of the lambda in Model/Py.lean) -/
def stepE (oshape ishape : List Int) (x : Array α) (out : Array α) (u : Upd α) : Array α :=
  if h : (ravel oshape u.1).toNat < out.size then
    out.set (ravel oshape u.1).toNat (out[(ravel oshape u.1).toNat] + u.2.2 * (x.getD (ravel ishape u.2.1).toNat 0))
  else out

theorem applyE_eq_foldl (oshape ishape : List Int) (E : Entries α) (x : Array α) :
    applyE oshape ishape E x
      = E.foldl (stepE oshape ishape x) (Array.replicate (shapeProd oshape).toNat 0) := by
  unfold applyE
  congr 1

theorem stepE_size (oshape ishape : List Int) (x out : Array α) (u : Upd α) :
    (stepE oshape ishape x out u).size = out.size := by
  unfold stepE
  split <;> simp

private theorem fold_linear (oshape ishape : List Int) (a : α) (x y xy : Array α)
    (hxy : ∀ k, xy.getD k 0 = a * x.getD k 0 + y.getD k 0) :
    ∀ (E : Entries α) (o1 o2 o3 : Array α), o1.size = o3.size → o2.size = o3.size →
      (∀ k, o3.getD k 0 = a * o1.getD k 0 + o2.getD k 0) →
      ∀ k, (E.foldl (stepE oshape ishape xy) o3).getD k 0
          = a * (E.foldl (stepE oshape ishape x) o1).getD k 0
            + (E.foldl (stepE oshape ishape y) o2).getD k 0 := by
  intro E
  induction E with
  | nil => intro o1 o2 o3 _ _ h; simpa using h
  | cons u E ih =>
    intro o1 o2 o3 h1 h2 h
    simp only [List.foldl_cons]
    apply ih
    · rw [stepE_size, stepE_size, h1]
    · rw [stepE_size, stepE_size, h2]
    · intro k
      unfold stepE
      by_cases hlt : (ravel oshape u.1).toNat < o3.size
      · have hlt1 : (ravel oshape u.1).toNat < o1.size := by omega
        have hlt2 : (ravel oshape u.1).toNat < o2.size := by omega
        simp only [dif_pos hlt, dif_pos hlt1, dif_pos hlt2, getD_set']
        by_cases hk : k = (ravel oshape u.1).toNat
        · have e1 : o1[(ravel oshape u.1).toNat] = o1.getD (ravel oshape u.1).toNat 0 := by
            simp [Array.getD, hlt1]
          have e2 : o2[(ravel oshape u.1).toNat] = o2.getD (ravel oshape u.1).toNat 0 := by
            simp [Array.getD, hlt2]
          have e3 : o3[(ravel oshape u.1).toNat] = o3.getD (ravel oshape u.1).toNat 0 := by
            simp [Array.getD, hlt]
          simp only [hk, if_true, e1, e2, e3, h, hxy]
          ring
        · simp only [hk, if_false]
          exact h k
      · have hlt1 : ¬ (ravel oshape u.1).toNat < o1.size := by omega
        have hlt2 : ¬ (ravel oshape u.1).toNat < o2.size := by omega
        simp only [dif_neg hlt, dif_neg hlt1, dif_neg hlt2]
        exact h k

/-- **Every entry-list map is linear.**  `applyE` is the meaning of every index-map / weight operator
    of the model (resize, flip, shift, sampling, blocks, interpolation, gridding, convolution, …):
    for a scalar `a` and inputs with `xy = a·x + y` elementwise, the output satisfies the same
    relation elementwise — additive and homogeneous over any commutative ring, in particular over ℂ
    (no real/imaginary part can be dropped or mixed by such an operator). -/
theorem denote_linear (oshape ishape : List Int) (E : Entries α) (a : α) (x y xy : Array α)
    (hxy : ∀ k, xy.getD k 0 = a * x.getD k 0 + y.getD k 0) :
    ∀ k, (applyE oshape ishape E xy).getD k 0
        = a * (applyE oshape ishape E x).getD k 0 + (applyE oshape ishape E y).getD k 0 := by
  simp only [applyE_eq_foldl]
  apply fold_linear oshape ishape a x y xy hxy E _ _ _ rfl rfl
  intro k
  simp only [Array.getD_eq_getD_getElem?, Array.getElem?_replicate]
  split <;> simp

/-- non-vacuity / instance: over ℤ with a concrete entry list (a 2-tap difference) -/
example : (applyE [2] [2] [([0], [0], (1 : Int)), ([0], [1], -1), ([1], [1], 2)] #[10, 3]).toList = [7, 6] := by
  decide

end linear

/-! ### `Conj`: conjugating input *and* output keeps ℂ-linearity -/

section conj
variable {ι κ : Type}

/-- **The `Conj` linop is ℂ-linear.**  `Conj(A)` computes `conj(A(conj x))`; if `A` is additive and
    ℂ-homogeneous then so is `Conj(A)`. -/
theorem conj_sandwich_linear (A : (ι → ℂ) → (κ → ℂ))
    (hadd : ∀ x y, A (x + y) = A x + A y) (hsmul : ∀ (c : ℂ) x, A (c • x) = c • A x)
    (a : ℂ) (x y : ι → ℂ) :
    star (A (star (a • x + y))) = a • star (A (star x)) + star (A (star y)) := by
  rw [star_add, star_smul, hadd, hsmul, star_add, star_smul, star_star]

/-- dropping the output conjugate (the regression `return output`) gives an ANTI-linear map … -/
theorem conj_half_antilinear (A : (ι → ℂ) → (κ → ℂ))
    (hadd : ∀ x y, A (x + y) = A x + A y) (hsmul : ∀ (c : ℂ) x, A (c • x) = c • A x)
    (a : ℂ) (x y : ι → ℂ) :
    A (star (a • x + y)) = star a • A (star x) + A (star y) := by
  rw [star_add, star_smul, hadd, hsmul]

/-- … which is not linear: with `A = id`, `a = i`, `x = 1` the two sides differ (`-i ≠ i`).  A real
    scalar `a` cannot see this — the reason the runtime stream uses complex scalars. -/
theorem conj_half_not_linear :
    ∃ (A : (Unit → ℂ) → (Unit → ℂ)) (a : ℂ) (x : Unit → ℂ),
      (∀ x y, A (x + y) = A x + A y) ∧ (∀ (c : ℂ) x, A (c • x) = c • A x) ∧
      A (star (a • x)) ≠ a • A (star x) := by
  refine ⟨id, Complex.I, fun _ => 1, fun _ _ => rfl, fun _ _ => rfl, ?_⟩
  intro h
  have h1 := congrFun h ()
  have h2 := congrArg Complex.im h1
  simp at h2
  linarith

end conj

/-! ### (e) determinism over histories -/

section history
variable {P C X Y : Type}

/-- `_apply` writes nothing into the object and its output depends on the constructor parameters
    only (not on the `.H`/`.N` caches).  For sigpy this is what `noMutation` of the `_apply` program
    (captured arrays unchanged) plus "no attribute write in `_apply`" (translator check) provide. -/
structure WellBehaved (app : OpState P C → X → Y × OpState P C) : Prop where
  frame : ∀ s x, (app s x).2 = s
  reads : ∀ s s' x, s.params = s'.params → (app s x).1 = (app s' x).1

theorem stepOp_params (app : OpState P C → X → Y × OpState P C) (hw : WellBehaved app)
    (mkH mkN : P → C) (s : OpState P C) (e : Event X) :
    (stepOp app mkH mkN s e).1.params = s.params := by
  cases e with
  | apply x => simp [stepOp, hw.frame]
  | takeH => rfl
  | takeN => rfl

/-- **Determinism over histories.**  For every history of `apply` / `.H` / `.N` events on one operator
    object and every position `i` holding `apply x`, the recorded output is `(app s₀ x).1`, the output
    of the freshly constructed object — so equal inputs give equal outputs whatever was interleaved. -/
theorem history_determinism (app : OpState P C → X → Y × OpState P C) (hw : WellBehaved app)
    (mkH mkN : P → C) :
    ∀ (evs : List (Event X)) (s : OpState P C) (i : Nat) (x : X), evs[i]? = some (.apply x) →
      (runOp app mkH mkN s evs).1[i]? = some (some (app s x).1) := by
  intro evs
  induction evs with
  | nil => intro s i x h; simp at h
  | cons e es ih =>
    intro s i x h
    cases i with
    | zero =>
      simp only [List.getElem?_cons_zero, Option.some.injEq] at h
      subst h
      simp [runOp, stepOp]
    | succ i =>
      simp only [List.getElem?_cons_succ] at h
      have := ih (stepOp app mkH mkN s e).1 i x h
      simp only [runOp, List.getElem?_cons_succ, this]
      rw [hw.reads _ s x (stepOp_params app hw mkH mkN s e)]

/-- corollary in the form of the property statement: two applications to equal inputs anywhere in a
    history give equal outputs -/
theorem history_equal_inputs_equal_outputs (app : OpState P C → X → Y × OpState P C)
    (hw : WellBehaved app) (mkH mkN : P → C) (evs : List (Event X)) (s : OpState P C) (i j : Nat)
    (x : X) (hi : evs[i]? = some (.apply x)) (hj : evs[j]? = some (.apply x)) :
    (runOp app mkH mkN s evs).1[i]? = (runOp app mkH mkN s evs).1[j]? := by
  rw [history_determinism app hw mkH mkN evs s i x hi, history_determinism app hw mkH mkN evs s j x hj]

/-- the hypothesis is needed: an operator that remembers its last input (writes `self`) answers the
    same input differently the second time -/
def cachingApp : OpState Int Int → Int → Int × OpState Int Int :=
  fun s x => (s.params * x + s.adjCache.getD 0, { s with adjCache := some x })

theorem caching_operator_not_deterministic :
    (runOp cachingApp (fun p => p) (fun p => p) ⟨2, none, none⟩ [.apply 3, .apply 3]).1
      = [some 6, some 9] := by
  decide

end history


end SigpyVerif.C02
