import SigpyVerif.Props.C17Power
import SigpyVerif.Gen.UtilFormulas
import SigpyVerif.Lemmas.Py
import Mathlib.Analysis.SpecialFunctions.Exp
import Mathlib.Analysis.SpecialFunctions.Trigonometric.Basic
import Mathlib.Analysis.Complex.Trigonometric
/-
  C17, part "eigenvalues ≤ 1, hypotheses reduced to numpy's contracts".

  `eig_le_one_espirit` (Props/C17.lean) assumes (hv) orthonormal rows of `VH`, (hε) `|ε_p|² ≤ 1/N` for the numbers `ε_p`
  with `img_kernel[c](q) = Σ_p kernel[c, p]·ε_p`, and (hP) `kw^d` kernel offsets.  Here `ε` is written out:
  `sp.ifft(sp.resize(kernel, ksp.shape), axes=image axes)` is, by definition of the centred orthonormal inverse DFT
  (C05: `ifftshift → ifftn(norm='ortho') → fftshift`, centre `n // 2`) and of the centre padding (`util.resize`, shifts
  GENERATED in `Gen/UtilFormulas.lean`), along each image axis
      `ε^{(ax)}_q(p) = n^{-1/2} · exp(2πi (q - n//2)(j - n//2)/n)`,  `j = p - ishift + oshift`  if offset `p` is copied,
      `0` if `resize` crops it,
  and the product of these over the axes.  `dftPhase_norm_sq_le` PROVES (hε) for it and `card_offsets` proves (hP), so
  `eig_le_one_espirit_dft` / `espirit_run_eig_unit_interval_dft` have ONE numerical hypothesis left: the rows of numpy's
  `VH` (all of them; the threshold keeps an arbitrary subset `S`) are orthonormal — the contract of
  `numpy.linalg.svd(full_matrices=False)`.  That `sp.ifft ∘ sp.resize` computes exactly this sum (numpy's FFT contract +
  C05/C09's index maps) is the DEFINITION used here; the correspondence compares the real `AHA` with it on every run
  (stream `eig-hypotheses`, explicit phases `dft_phases` written from the same formulas).
-/
namespace SigpyVerif.C17
open SigpyVerif
open scoped InnerProductSpace

set_option linter.unusedVariables false

/-- entry of the centred orthonormal inverse DFT of length `n`: voxel `q`, grid position `j` -/
noncomputable def dftEntry (n : ℕ) (q j : ℤ) : ℂ :=
  ((1 / Real.sqrt n : ℝ) : ℂ) *
    Complex.exp (((2 * Real.pi * ((q - (n : ℤ) / 2 : ℤ) : ℝ) * ((j - (n : ℤ) / 2 : ℤ) : ℝ) / n : ℝ) : ℂ) * Complex.I)

theorem dftEntry_norm_sq (n : ℕ) (hn : 0 < n) (q j : ℤ) : ‖dftEntry n q j‖ ^ 2 = 1 / (n : ℝ) := by
  unfold dftEntry
  rw [norm_mul, Complex.norm_exp_ofReal_mul_I, mul_one, Complex.norm_real, Real.norm_eq_abs, sq_abs, div_pow, one_pow,
    Real.sq_sqrt (Nat.cast_nonneg n)]

/-- one image axis: kernel offset `p` of a width-`kw` kernel, centre-padded/cropped to length `n` by `sp.resize`
    (GENERATED shifts and copy length), then transformed: the coefficient of `kernel[.., p, ..]` in voxel `q` -/
noncomputable def axisPhase (n kw : ℕ) (q : ℤ) (p : ℤ) : ℂ :=
  let ishift := Gen.resizeIshiftDefault kw n
  let oshift := Gen.resizeOshiftDefault kw n
  let len := Gen.resizeCopyLen kw ishift n oshift
  if ishift ≤ p ∧ p < ishift + len then dftEntry n q (p - ishift + oshift) else 0

theorem axisPhase_norm_sq_le (n kw : ℕ) (hn : 0 < n) (q p : ℤ) : ‖axisPhase n kw q p‖ ^ 2 ≤ 1 / (n : ℝ) := by
  unfold axisPhase
  simp only
  split_ifs
  · exact le_of_eq (dftEntry_norm_sq n hn q _)
  · simp only [norm_zero, ne_eq, OfNat.ofNat_ne_zero, not_false_eq_true, zero_pow]
    positivity

variable {d : ℕ}

/-- `d` image axes of lengths `nsh`, kernel offsets `p ∈ {0..kw-1}^d`, voxel `q`: the coefficient of `kernel[c, p]` in
    `img_kernel[c](q)` -/
noncomputable def dftPhase (nsh : Fin d → ℕ) (kw : ℕ) (q : Fin d → ℤ) (p : Fin d → Fin kw) : ℂ :=
  ∏ ax, axisPhase (nsh ax) kw (q ax) ((p ax : ℕ) : ℤ)

/-- **dftPhase_norm_sq_le** — hypothesis (hε) of `eig_le_one_espirit`, proved: `|ε_q(p)|² ≤ 1/N`, `N = ∏ n_ax`. -/
theorem dftPhase_norm_sq_le (nsh : Fin d → ℕ) (hn : ∀ ax, 0 < nsh ax) (kw : ℕ) (q : Fin d → ℤ) (p : Fin d → Fin kw) :
    ‖dftPhase nsh kw q p‖ ^ 2 ≤ 1 / (((∏ ax, (nsh ax : ℤ) : ℤ)) : ℝ) := by
  unfold dftPhase
  rw [norm_prod, ← Finset.prod_pow]
  have h1 : ∏ ax, ‖axisPhase (nsh ax) kw (q ax) ((p ax : ℕ) : ℤ)‖ ^ 2 ≤ ∏ ax : Fin d, (1 / (nsh ax : ℝ)) :=
    Finset.prod_le_prod (fun _ _ => by positivity) (fun ax _ => axisPhase_norm_sq_le _ _ (hn ax) _ _)
  refine h1.trans (le_of_eq ?_)
  push_cast
  rw [Finset.prod_div_distrib, Finset.prod_const_one]

/-- hypothesis (hP), proved: there are `kw^d` kernel offsets -/
theorem card_offsets (kw : ℕ) : (Fintype.card (Fin d → Fin kw) : ℤ) = (kw : ℤ) ^ d := by
  simp

variable {C : Type} [Fintype C]

/-- **eig_le_one_espirit_dft.**  `EspiritCalib`'s per-voxel matrix `AHA[q] = (N/kw^d)·Σ_{k∈S} a_k(q) a_k(q)ᴴ`, with the
    GENERATED scale, `a_k(q)[c] = Σ_p v_k[c,p]·dftPhase(q, p)` the centred orthonormal inverse DFT of the centre-padded
    kernel (written out, generated `resize` shifts), and `S` ANY subset of the rows (the threshold's choice), is a
    contraction with quadratic form `≤ ‖x‖²` — all eigenvalues `≤ 1` — for EVERY image shape, kernel width `≥ 1`, voxel
    and coil count, under the single hypothesis that the rows `v_k` of numpy's `VH` are orthonormal. -/
theorem eig_le_one_espirit_dft {ι : Type} (S : Finset ι) (nsh : Fin d → ℕ) (hn : ∀ ax, 0 < nsh ax) (kw : ℕ) (hkw : 0 < kw)
    (q : Fin d → ℤ) (v : ι → EuclideanSpace ℂ (C × (Fin d → Fin kw))) (hv : Orthonormal ℂ v) (x : EuclideanSpace ℂ C) :
    ‖gramOp S (fun k => imgKernel (dftPhase nsh kw q) (v k)) ((Gen.espiritScale (∏ ax, (nsh ax : ℤ)) kw d : Rat) : ℝ) x‖ ≤ ‖x‖ ∧
    (⟪gramOp S (fun k => imgKernel (dftPhase nsh kw q) (v k)) ((Gen.espiritScale (∏ ax, (nsh ax : ℤ)) kw d : Rat) : ℝ) x, x⟫_ℂ).re
      ≤ ‖x‖ ^ 2 :=
  eig_le_one_espirit S v hv (dftPhase nsh kw q) (∏ ax, (nsh ax : ℤ)) kw d
    (Finset.prod_pos fun ax _ => by exact_mod_cast hn ax) (by exact_mod_cast hkw) (card_offsets kw)
    (dftPhase_norm_sq_le nsh hn kw q) x

/-- eigenvalue form: `AHA[q] x = λ x`, `x ≠ 0` ⟹ `|λ| ≤ 1` -/
theorem eigenvalue_le_one_dft {ι : Type} (S : Finset ι) (nsh : Fin d → ℕ) (hn : ∀ ax, 0 < nsh ax) (kw : ℕ) (hkw : 0 < kw)
    (q : Fin d → ℤ) (v : ι → EuclideanSpace ℂ (C × (Fin d → Fin kw))) (hv : Orthonormal ℂ v) (x : EuclideanSpace ℂ C)
    (hx : x ≠ 0) (lam : ℂ)
    (hlam : gramOp S (fun k => imgKernel (dftPhase nsh kw q) (v k)) ((Gen.espiritScale (∏ ax, (nsh ax : ℤ)) kw d : Rat) : ℝ) x
      = lam • x) : ‖lam‖ ≤ 1 := by
  have h := (eig_le_one_espirit_dft S nsh hn kw hkw q v hv x).1
  rw [hlam, norm_smul] at h
  have hpos : 0 < ‖x‖ := norm_pos_iff.mpr hx
  exact le_of_mul_le_mul_right (by simpa using h) hpos

/-- **espirit_run_eig_unit_interval_dft.**  The whole per-voxel run of `EspiritCalib` under numpy's SVD contract alone:
    unit iterates after every update and eigenvalue estimates in `(0, 1]` from the second update on, for every
    `max_iter`, image shape, kernel width, coil count and threshold selection `S`, provided `AHA[q] x_0 ≠ 0`. -/
theorem espirit_run_eig_unit_interval_dft {ι : Type} (S : Finset ι) (nsh : Fin d → ℕ) (hn : ∀ ax, 0 < nsh ax) (kw : ℕ)
    (hkw : 0 < kw) (q : Fin d → ℤ) (v : ι → EuclideanSpace ℂ (C × (Fin d → Fin kw))) (hv : Orthonormal ℂ v)
    (x0 : EuclideanSpace ℂ C)
    (h0 : gramLin S (fun k => imgKernel (dftPhase nsh kw q) (v k)) ((Gen.espiritScale (∏ ax, (nsh ax : ℤ)) kw d : Rat) : ℝ) x0 ≠ 0)
    (j : ℕ) :
    ‖(epw (gramLin S (fun k => imgKernel (dftPhase nsh kw q) (v k)) ((Gen.espiritScale (∏ ax, (nsh ax : ℤ)) kw d : Rat) : ℝ))
        x0 (j + 1)).x‖ = 1 ∧
    ∃ me, (epw (gramLin S (fun k => imgKernel (dftPhase nsh kw q) (v k)) ((Gen.espiritScale (∏ ax, (nsh ax : ℤ)) kw d : Rat) : ℝ))
        x0 (j + 2)).maxEig = some me ∧ 0 < me ∧ me ≤ 1 :=
  espirit_run_eig_unit_interval S v hv (dftPhase nsh kw q) (∏ ax, (nsh ax : ℤ)) kw d
    (Finset.prod_pos fun ax _ => by exact_mod_cast hn ax) (by exact_mod_cast hkw) (card_offsets kw)
    (dftPhase_norm_sq_le nsh hn kw q) x0 h0 j

/-- the generated `resize` shifts for a kernel that fits (`kw ≤ n`): nothing is cropped, offset `p` lands at grid
    position `p + n//2 - kw//2` (so `κ = kw^d/N` exactly and the bound `c·κ ≤ 1` is attained) -/
theorem axisPhase_fits (n kw : ℕ) (h : kw ≤ n) (q : ℤ) (p : ℤ) (hp0 : 0 ≤ p) (hp1 : p < kw) :
    axisPhase n kw q p = dftEntry n q (p + ((n : ℤ) / 2 - (kw : ℤ) / 2)) := by
  have h2 : (kw : ℤ) / 2 ≤ (n : ℤ) / 2 := Int.ediv_le_ediv (by decide) (by exact_mod_cast h)
  have hk : (kw : ℤ) ≤ n := by exact_mod_cast h
  have hi : Gen.resizeIshiftDefault kw n = 0 := by
    unfold Gen.resizeIshiftDefault pyMax
    rw [pyDiv_of_pos _ (by decide), pyDiv_of_pos _ (by decide)]
    split_ifs <;> omega
  have ho : Gen.resizeOshiftDefault kw n = (n : ℤ) / 2 - (kw : ℤ) / 2 := by
    unfold Gen.resizeOshiftDefault pyMax
    rw [pyDiv_of_pos _ (by decide), pyDiv_of_pos _ (by decide)]
    split_ifs <;> omega
  have hl : Gen.resizeCopyLen kw 0 n ((n : ℤ) / 2 - (kw : ℤ) / 2) = kw := by
    unfold Gen.resizeCopyLen pyMin
    split_ifs <;> omega
  unfold axisPhase
  simp only [hi, ho, hl]
  rw [if_pos ⟨hp0, by omega⟩]
  congr 1
  ring

/-- non-vacuity: 2-D image `4 × 6`, kernel width 2, one coil, the single unit kernel supported on offset `(0,0)` -/
example : ∃ (v : Unit → EuclideanSpace ℂ (Unit × (Fin 2 → Fin 2))), Orthonormal ℂ v ∧
    (∀ ax : Fin 2, 0 < (![4, 6] : Fin 2 → ℕ) ax) := by
  refine ⟨fun _ => EuclideanSpace.single ((), fun _ => 0) 1, ?_, ?_⟩
  · rw [orthonormal_iff_ite]
    intro i j
    simp
  · intro ax; fin_cases ax <;> simp

end SigpyVerif.C17
