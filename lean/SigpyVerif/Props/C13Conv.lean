import SigpyVerif.Props.C13
import SigpyVerif.Lemmas.C13Conv
import Mathlib.Analysis.InnerProductSpace.Adjoint
/-
  C13 (deepened) — convergence of the ITERATES of the translator-generated solver steps in finite dimension, and the
  ergodic primal–dual gap of PDHG.

  All theorems are about `gmStep` / `gmRun` / `pdStep` / `pdRun` of Model/C13.lean, i.e. about the `Gen.C13.*`
  formulas regenerated from sigpy/alg.py on every run (same instantiation as Props/C13.lean).

  Proved in full:
  * `ista_step_nonexpansive`, `ista_fixed_iff_minimiser`, `ista_asymptotic_regularity`, `ista_iterates_converge`:
    `GradientMethod` without acceleration, `α ≤ 1/L`, a minimiser exists, finite dimension ⇒ the iterates `x_k`
    converge to a minimiser of `f + g`.
  * `pdhg_iterates_converge` (+ `_scalar` for the step condition in its familiar form): `PrimalDualHybridGradient`,
    constant positive scalar or array steps, `θ = 1`, the metric of the steps positive SEMI-definite
    (`MetricPSD`; for scalars `τσ‖A‖² ≤ 1`, EQUALITY ALLOWED — no strict inequality is needed), a saddle point exists,
    finite dimension ⇒ `(x_k, u_k)` converges to a saddle point.
  * `pdhg_gap_step_diag`, `pdhg_ergodic_gap`: for every `(w, v)` and the averages `X_N = (x_1+…+x_N)/N`,
    `U_N = (u_2+…+u_{N+1})/N` of the generated iterates, `L(X_N, v) - L(w, U_N) ≤ D_0(w,v)/(2N)` with
    `D_0(w,v) = ⟨T⁻¹(x_0-w), x_0-w⟩ - 2⟨A(x_0-w), u_1-v⟩ + ⟨Σ⁻¹(u_1-v), u_1-v⟩`
    (Chambolle–Pock 2011 Thm 1 in the pairing the code couples: `x` before the primal step with `u` after the
    dual step; the dual average is shifted by one accordingly).
-/
namespace SigpyVerif.C13
open RealInnerProductSpace Filter Topology

variable {E F : Type} [NormedAddCommGroup E] [InnerProductSpace ℝ E] [NormedAddCommGroup F] [InnerProductSpace ℝ F]

/-! ## GradientMethod (ISTA): the iterates converge -/
section ista
variable (sq : ℝ → ℝ) (f g : E → ℝ) (gf : E → E) (proxg : Option (ℝ → E → E)) (α L : ℝ)

/-- the new `x` of a non-accelerated update depends on the old `x` only -/
theorem gmStep_x_of_x (s s' : GMState ℝ E) (h : s.x = s'.x) :
    (gmStep sq gf proxg α false s).x = (gmStep sq gf proxg α false s').x := by
  cases proxg <;> simp [gmStep, h]

/-- `ista_step_nonexpansive` — with `α ≤ 1/L` one non-accelerated `GradientMethod.update()` is a nonexpansive map of
    `x` (the prox is 1-Lipschitz by its variational characterisation, the gradient step by Baillon–Haddad). -/
theorem ista_step_nonexpansive (hα : 0 < α) (hL : α * L ≤ 1) (hf : ConvexGrad f gf) (hd : Descent f gf L)
    (hg : ProxOpt g proxg) (s s' : GMState ℝ E) :
    ‖(gmStep sq gf proxg α false s).x - (gmStep sq gf proxg α false s').x‖ ≤ ‖s.x - s'.x‖ := by
  have hp := gmStep_x_isProx sq g gf proxg α hα hg false s
  have hp' := gmStep_x_isProx sq g gf proxg α hα hg false s'
  simp only [Bool.false_eq_true, if_false] at hp hp'
  exact (isProx_nonexpansive hα hp hp').trans (grad_step_nonexpansive f gf α L hα hL hf hd s'.x s.x)

/-- `ista_fixed_iff_minimiser` — `update()` leaves `x` unchanged iff `x` minimises `f + g`. -/
theorem ista_fixed_iff_minimiser (hα : 0 < α) (hL : α * L ≤ 1) (hf : ConvexGrad f gf) (hd : Descent f gf L)
    (hg : ProxOpt g proxg) (s : GMState ℝ E) :
    (gmStep sq gf proxg α false s).x = s.x ↔ ∀ y, f s.x + g s.x ≤ f y + g y := by
  constructor
  · intro h y
    have := ista_step_ineq sq f g gf proxg α L hα hL hf hd hg s y
    rw [h] at this
    simpa using this
  · intro h
    have h1 := ista_step_ineq sq f g gf proxg α L hα hL hf hd hg s s.x
    have h2 := h (gmStep sq gf proxg α false s).x
    rw [sub_self, norm_zero] at h1
    have hpos : 0 < 1 / (2 * α) := by positivity
    have h3 : 1 / (2 * α) * ‖(gmStep sq gf proxg α false s).x - s.x‖ ^ 2 ≤ 0 := by nlinarith
    have h4 : ‖(gmStep sq gf proxg α false s).x - s.x‖ ^ 2 ≤ 0 := by
      by_contra hc; push Not at hc
      have := mul_pos hpos hc
      linarith
    have h5 : ‖(gmStep sq gf proxg α false s).x - s.x‖ = 0 :=
      pow_eq_zero_iff (two_ne_zero) |>.mp (le_antisymm h4 (sq_nonneg _))
    exact sub_eq_zero.mp (norm_eq_zero.mp h5)

/-- `ista_asymptotic_regularity` — the squared update sizes are summable:
    `Σ_{k<N} ‖x_{k+1} - x_k‖² ≤ 2α (F(x_0) - F(w))` for every `w` with `F(w) ≤ F(x_k)` for all `k`
    (in particular a minimiser). -/
theorem ista_asymptotic_regularity (hα : 0 < α) (hL : α * L ≤ 1) (hf : ConvexGrad f gf) (hd : Descent f gf L)
    (hg : ProxOpt g proxg) (x0 w : E) (hw : ∀ y, f w + g w ≤ f y + g y) (N : ℕ) :
    ∑ k ∈ Finset.range N, ‖(gmRun sq gf proxg α false x0 (k + 1)).x - (gmRun sq gf proxg α false x0 k).x‖ ^ 2
      ≤ 2 * α * ((f x0 + g x0) - (f w + g w)) := by
  have hstep : ∀ k, 2 * α * ((f (gmRun sq gf proxg α false x0 (k + 1)).x + g (gmRun sq gf proxg α false x0 (k + 1)).x)
        - (f w + g w))
      + ‖(gmRun sq gf proxg α false x0 (k + 1)).x - (gmRun sq gf proxg α false x0 k).x‖ ^ 2
      ≤ 2 * α * ((f (gmRun sq gf proxg α false x0 k).x + g (gmRun sq gf proxg α false x0 k).x) - (f w + g w)) := by
    intro k
    have h := ista_step_ineq sq f g gf proxg α L hα hL hf hd hg (gmRun sq gf proxg α false x0 k)
      (gmRun sq gf proxg α false x0 k).x
    have e : gmRun sq gf proxg α false x0 (k + 1) = gmStep sq gf proxg α false (gmRun sq gf proxg α false x0 k) := rfl
    rw [← e, sub_self, norm_zero] at h
    have e2 : 1 / (2 * α) * (0 ^ 2 - ‖(gmRun sq gf proxg α false x0 (k + 1)).x - (gmRun sq gf proxg α false x0 k).x‖ ^ 2)
        = -(‖(gmRun sq gf proxg α false x0 (k + 1)).x - (gmRun sq gf proxg α false x0 k).x‖ ^ 2) / (2 * α) := by ring
    rw [e2, ← sub_le_iff_le_add', le_div_iff₀ (by positivity)] at h
    linarith
  have hs := fejer_sum_le
    (fun k => 2 * α * ((f (gmRun sq gf proxg α false x0 k).x + g (gmRun sq gf proxg α false x0 k).x) - (f w + g w)))
    (fun k => ‖(gmRun sq gf proxg α false x0 (k + 1)).x - (gmRun sq gf proxg α false x0 k).x‖ ^ 2) hstep N
  have hN := hw (gmRun sq gf proxg α false x0 N).x
  have h0 : (gmRun sq gf proxg α false x0 0).x = x0 := rfl
  rw [h0] at hs
  nlinarith

/-- `ista_iterates_converge` — finite dimension, `α ≤ 1/L`, `f` convex with the descent lemma, `g` given by its prox
    (or absent), a minimiser of `F = f + g` exists: the sequence `x_k` generated by `GradientMethod.update()`
    (no acceleration) CONVERGES to a minimiser of `F`. -/
theorem ista_iterates_converge [FiniteDimensional ℝ E] (hα : 0 < α) (hL : α * L ≤ 1) (hf : ConvexGrad f gf)
    (hd : Descent f gf L) (hg : ProxOpt g proxg) (x0 : E) (hmin : ∃ w, ∀ y, f w + g w ≤ f y + g y) :
    ∃ w, (∀ y, f w + g w ≤ f y + g y) ∧
      Tendsto (fun k => (gmRun sq gf proxg α false x0 k).x) atTop (𝓝 w) := by
  obtain ⟨w0, hw0⟩ := hmin
  set Tm : E → E := fun y => (gmStep sq gf proxg α false ⟨y, y, 1⟩).x with hTm
  have hfixmin : ∀ w, Tm w = w ↔ ∀ y, f w + g w ≤ f y + g y := fun w =>
    ista_fixed_iff_minimiser sq f g gf proxg α L hα hL hf hd hg ⟨w, w, 1⟩
  have hne : ∀ a b, ‖Tm a - Tm b‖ ≤ ‖a - b‖ := fun a b =>
    ista_step_nonexpansive sq f g gf proxg α L hα hL hf hd hg ⟨a, a, 1⟩ ⟨b, b, 1⟩
  have hstep : ∀ k, (gmRun sq gf proxg α false x0 (k + 1)).x = Tm (gmRun sq gf proxg α false x0 k).x := fun k =>
    gmStep_x_of_x sq gf proxg α _ _ rfl
  have hreg : Tendsto (fun k => ‖(gmRun sq gf proxg α false x0 (k + 1)).x - (gmRun sq gf proxg α false x0 k).x‖ ^ 2)
      atTop (𝓝 0) :=
    tendsto_zero_of_sum_le _ (fun k => sq_nonneg _) _
      (ista_asymptotic_regularity sq f g gf proxg α L hα hL hf hd hg x0 w0 hw0)
  obtain ⟨w, hw, hlim⟩ := opial_core (fun k => (gmRun sq gf proxg α false x0 k).x) Tm (fun a => ‖a‖ ^ 2) 1 zero_le_one
    hstep (fun a => sq_nonneg _) (by fun_prop) (by simp) (fun a => by rw [norm_neg])
    (fun a b => by rw [one_mul]; exact pow_le_pow_left₀ (norm_nonneg _) (hne a b) 2)
    (fun w hw k => by
      have := hne (gmRun sq gf proxg α false x0 k).x w
      rw [hw, ← hstep] at this
      exact pow_le_pow_left₀ (norm_nonneg _) this 2)
    hreg ⟨w0, (hfixmin w0).mpr hw0⟩
  exact ⟨w, (hfixmin w).mp hw, hlim⟩
end ista

/-! ## PrimalDualHybridGradient: the iterates converge -/
section pdconv
variable (g : E → ℝ) (fc : F → ℝ) (proxg : StepOp E → E → E) (proxfc : StepOp F → F → F)

/-- the pair the algorithm couples after `k` updates: `(x_k, u_{k+1})` -/
noncomputable def pdPair (A : E → F) (AH : F → E) (s0 : PDState ℝ E F (StepOp E) (StepOp F)) (k : ℕ) : E × F :=
  ((pdRun Real.sqrt A AH proxfc proxg 0 0 1 s0 k).x, (pdRun Real.sqrt A AH proxfc proxg 0 0 1 s0 (k + 1)).u)

/-- two consecutive generated updates are one "primal first" Chambolle–Pock sweep on the coupled pair -/
theorem pdPair_succ (A : E → F) (AH : F → E) (s0 : PDState ℝ E F (StepOp E) (StepOp F)) (k : ℕ) :
    pdPair proxg proxfc A AH s0 (k + 1) = cpMap A AH s0.tau s0.sigma proxg proxfc (pdPair proxg proxfc A AH s0 k) := by
  have hc := pdRunW_const_steps proxg proxfc A AH 1 s0 k
  have hc1 := pdRunW_const_steps proxg proxfc A AH 1 s0 (k + 1)
  have e1 : pdRun Real.sqrt A AH proxfc proxg 0 0 1 s0 (k + 1)
      = pdStep Real.sqrt A AH proxfc proxg 0 0 1 (pdRun Real.sqrt A AH proxfc proxg 0 0 1 s0 k) := rfl
  have e2 : pdRun Real.sqrt A AH proxfc proxg 0 0 1 s0 (k + 1 + 1)
      = pdStep Real.sqrt A AH proxfc proxg 0 0 1 (pdRun Real.sqrt A AH proxfc proxg 0 0 1 s0 (k + 1)) := rfl
  have hx := pdStepW_x proxg proxfc A AH 0 0 1 (pdRun Real.sqrt A AH proxfc proxg 0 0 1 s0 k)
  have hext : (pdRun Real.sqrt A AH proxfc proxg 0 0 1 s0 (k + 1)).x_ext
      = (pdRun Real.sqrt A AH proxfc proxg 0 0 1 s0 (k + 1)).x
        + ((pdRun Real.sqrt A AH proxfc proxg 0 0 1 s0 (k + 1)).x - (pdRun Real.sqrt A AH proxfc proxg 0 0 1 s0 k).x) := by
    rw [e1, pdStepW_x_ext, pdRescaleW_const]; simp
  have hu := pdStepW_u proxg proxfc A AH 0 0 1 (pdRun Real.sqrt A AH proxfc proxg 0 0 1 s0 (k + 1))
  rw [← e2, hext, hc1.2] at hu
  rw [← e1, hc.1] at hx
  unfold pdPair cpMap
  simp only
  rw [← hx, ← hu]

/-- fixed points of the sweep are exactly the saddle points -/
theorem cpMap_fixed_iff_saddle (A : E → F) (AH : F → E) (T : StepOp E) (Sg : StepOp F) (hT : T.Pos) (hS : Sg.Pos)
    (hg : ProxOfW g proxg) (hfc : ProxOfW fc proxfc) (z : E × F) :
    cpMap A AH T Sg proxg proxfc z = z ↔ IsSaddle g fc A AH z.1 z.2 := by
  have hX := hg T (z.1 + T.op (-(AH z.2))) hT
  constructor
  · intro h
    have h1 : proxg T (z.1 + T.op (-(AH z.2))) = z.1 := congrArg Prod.fst h
    have h2 : proxfc Sg (z.2 + Sg.op (A (proxg T (z.1 + T.op (-(AH z.2))) + (proxg T (z.1 + T.op (-(AH z.2))) - z.1)))) = z.2 :=
      congrArg Prod.snd h
    rw [h1, sub_self, add_zero] at h2
    have hU := hfc Sg (z.2 + Sg.op (A z.1)) hS
    rw [h1] at hX
    rw [h2] at hU
    exact ⟨(isProxW_shift_iff g hT _ _).mp hX, (isProxW_shift_iff fc hS _ _).mp hU⟩
  · rintro ⟨h1, h2⟩
    have hx : proxg T (z.1 + T.op (-(AH z.2))) = z.1 :=
      isProxW_unique hT hX ((isProxW_shift_iff g hT z.1 (-(AH z.2))).mpr h1)
    have hU := hfc Sg (z.2 + Sg.op (A z.1)) hS
    have hu : proxfc Sg (z.2 + Sg.op (A z.1)) = z.2 :=
      isProxW_unique hS hU ((isProxW_shift_iff fc hS z.2 (A z.1)).mpr h2)
    unfold cpMap
    rw [hx, sub_self, add_zero, hu]

/-- `pdhg_iterates_converge` — finite dimension, constant positive array-valued (or scalar) steps, `θ = 1`,
    `gamma = 0`, the metric of the steps positive SEMI-definite (`MetricPSD`: `2|⟨Ax,u⟩| ≤ ⟨T⁻¹x,x⟩ + ⟨Σ⁻¹u,u⟩`, for
    scalar steps `τσ‖A‖² ≤ 1` with equality allowed), a saddle point exists: the sequence `(x_k, u_k)` generated by
    `PrimalDualHybridGradient.update()` from ANY initial state CONVERGES to a saddle point. -/
theorem pdhg_iterates_converge [FiniteDimensional ℝ E] [FiniteDimensional ℝ F]
    (A : E →ₗ[ℝ] F) (AH : F → E) (hadj : ∀ x u, ⟪A x, u⟫ = ⟪x, AH u⟫)
    (hg : ProxOfW g proxg) (hfc : ProxOfW fc proxfc)
    (s0 : PDState ℝ E F (StepOp E) (StepOp F)) (hτ : s0.tau.Pos) (hσ : s0.sigma.Pos)
    (hM : MetricPSD A s0.tau s0.sigma) (hex : ∃ xs us, IsSaddle g fc A AH xs us) :
    ∃ xs us, IsSaddle g fc A AH xs us ∧
      Tendsto (fun k => (pdRun Real.sqrt A AH proxfc proxg 0 0 1 s0 k).x) atTop (𝓝 xs) ∧
      Tendsto (fun k => (pdRun Real.sqrt A AH proxfc proxg 0 0 1 s0 k).u) atTop (𝓝 us) := by
  obtain ⟨xs0, us0, hs0⟩ := hex
  obtain ⟨AHl, hAHl⟩ : ∃ AHl : F →ₗ[ℝ] E, AH = ⇑AHl := by
    refine ⟨LinearMap.adjoint A, funext fun u => ?_⟩
    apply ext_inner_left ℝ
    intro x
    rw [LinearMap.adjoint_inner_right, hadj]
  subst hAHl
  obtain ⟨K, hK, hTq⟩ := cpMap_lipschitz_metric A AHl hadj s0.tau s0.sigma hτ hσ hM g fc proxg proxfc
    (fun v => hg _ v hτ) (fun v => hfc _ v hσ)
  have hrate := fun xs us hs => pdhg_residual_rate_partial g fc proxg proxfc A AHl hadj hg hfc s0 hτ hσ hM xs us hs
  have hfixs := cpMap_fixed_iff_saddle g fc proxg proxfc A AHl s0.tau s0.sigma hτ hσ hg hfc
  have hreg : Tendsto (fun k => cpQ A s0.tau s0.sigma
      (pdPair proxg proxfc A AHl s0 (k + 1) - pdPair proxg proxfc A AHl s0 k)) atTop (𝓝 0) := by
    refine tendsto_zero_of_sum_le (fejerMove proxg proxfc A AHl s0) (fun k => hM.coupled_nonneg _ _)
      (fejerDist proxg proxfc A AHl s0 xs0 us0 0) (fun N => ?_)
    have h1 := (hrate xs0 us0 hs0 N).2.2.1
    have h2 : 0 ≤ fejerDist proxg proxfc A AHl s0 xs0 us0 N := hM.coupled_nonneg _ _
    linarith
  obtain ⟨w, hw, hlim⟩ := opial_core (pdPair proxg proxfc A AHl s0) (cpMap A AHl s0.tau s0.sigma proxg proxfc)
    (cpQ A s0.tau s0.sigma) K hK (pdPair_succ proxg proxfc A AHl s0)
    (fun a => hM.coupled_nonneg a.1 a.2) (cpQ_continuous A s0.tau s0.sigma)
    (by simp [cpQ, coupledW]) (fun a => by simp [cpQ, coupledW]) hTq
    (fun w hw k => (hrate w.1 w.2 ((hfixs w).mp hw) 0).2.1 k)
    hreg ⟨(xs0, us0), (hfixs (xs0, us0)).mpr hs0⟩
  refine ⟨w.1, w.2, (hfixs w).mp hw, (continuous_fst.tendsto w).comp hlim, ?_⟩
  have := (continuous_snd.tendsto w).comp hlim
  exact (tendsto_add_atTop_iff_nat 1).mp this

/-- the same for scalar steps with the step condition in its familiar form `τσ‖A‖² ≤ 1` (equality allowed) -/
theorem pdhg_iterates_converge_scalar [FiniteDimensional ℝ E] [FiniteDimensional ℝ F]
    (A : E →ₗ[ℝ] F) (AH : F → E) (hadj : ∀ x u, ⟪A x, u⟫ = ⟪x, AH u⟫)
    (hg : ProxOfW g proxg) (hfc : ProxOfW fc proxfc) (τ σ Lop : ℝ) (hτ : 0 < τ) (hσ : 0 < σ)
    (hstep : τ * σ * Lop ^ 2 ≤ 1) (hA : ∀ x, ‖A x‖ ≤ Lop * ‖x‖)
    (s0 : PDState ℝ E F (StepOp E) (StepOp F)) (h1 : s0.tau = StepOp.scalar τ) (h2 : s0.sigma = StepOp.scalar σ)
    (hex : ∃ xs us, IsSaddle g fc A AH xs us) :
    ∃ xs us, IsSaddle g fc A AH xs us ∧
      Tendsto (fun k => (pdRun Real.sqrt A AH proxfc proxg 0 0 1 s0 k).x) atTop (𝓝 xs) ∧
      Tendsto (fun k => (pdRun Real.sqrt A AH proxfc proxg 0 0 1 s0 k).u) atTop (𝓝 us) :=
  pdhg_iterates_converge g fc proxg proxfc A AH hadj hg hfc s0 (h1 ▸ StepOp.scalar_pos hτ) (h2 ▸ StepOp.scalar_pos hσ)
    (by rw [h1, h2]; exact metricPSD_scalar A τ σ Lop hτ hσ hstep hA) hex

end pdconv

/-! ## PrimalDualHybridGradient: ergodic primal–dual gap (Chambolle–Pock 2011, Thm 1) -/
section gap
variable (g : E → ℝ) (fc : F → ℝ) (proxg : StepOp E → E → E) (proxfc : StepOp F → F → F)

/-- the Lagrangian `L(x, u) = g(x) + ⟨A x, u⟩ - f*(u)` of the saddle problem PDHG solves -/
def lagr (A : E → F) (x : E) (u : F) : ℝ := g x + ⟪A x, u⟫ - fc u

/-- `pdhg_gap_step_diag` — two consecutive updates `s → s₁ → s₂`, constant positive (array) steps, `θ = 1`, ANY
    comparison pair `(w, v)` (no saddle point, no step condition):
    `D(x₁-w, u₂-v) + D(x₁-x, u₂-u₁) + 2 (L(x₁, v) - L(w, u₂)) ≤ D(x-w, u₁-v)`.
    (`pdhg_fejer_diag` is the case where `(w, v)` is a saddle point and the gap, then `≥ 0`, is dropped.) -/
theorem pdhg_gap_step_diag (A : E →ₗ[ℝ] F) (AH : F → E) (hadj : ∀ x u, ⟪A x, u⟫ = ⟪x, AH u⟫)
    (hg : ProxOfW g proxg) (hfc : ProxOfW fc proxfc)
    (s : PDState ℝ E F (StepOp E) (StepOp F)) (hτ : s.tau.Pos) (hσ : s.sigma.Pos) (w : E) (v : F) :
    coupledW A s.tau s.sigma
        ((pdStep Real.sqrt A AH proxfc proxg 0 0 1 s).x - w)
        ((pdStep Real.sqrt A AH proxfc proxg 0 0 1 (pdStep Real.sqrt A AH proxfc proxg 0 0 1 s)).u - v)
      + coupledW A s.tau s.sigma
        ((pdStep Real.sqrt A AH proxfc proxg 0 0 1 s).x - s.x)
        ((pdStep Real.sqrt A AH proxfc proxg 0 0 1 (pdStep Real.sqrt A AH proxfc proxg 0 0 1 s)).u
          - (pdStep Real.sqrt A AH proxfc proxg 0 0 1 s).u)
      + 2 * (lagr g fc A (pdStep Real.sqrt A AH proxfc proxg 0 0 1 s).x v
          - lagr g fc A w (pdStep Real.sqrt A AH proxfc proxg 0 0 1 (pdStep Real.sqrt A AH proxfc proxg 0 0 1 s)).u)
      ≤ coupledW A s.tau s.sigma (s.x - w) ((pdStep Real.sqrt A AH proxfc proxg 0 0 1 s).u - v) := by
  set s1 := pdStep Real.sqrt A AH proxfc proxg 0 0 1 s with hs1
  set s2 := pdStep Real.sqrt A AH proxfc proxg 0 0 1 s1 with hs2
  have hc := pdStepW_const_steps proxg proxfc A AH 1 s
  rw [← hs1] at hc
  have hX := hg s.tau (s.x + s.tau.op (-(AH s1.u))) hτ
  rw [← pdStepW_x proxg proxfc A AH 0 0 1 s, ← hs1] at hX
  have hU := hfc s1.sigma (s1.u + s1.sigma.op (A s1.x_ext)) (by rw [hc.2]; exact hσ)
  rw [← pdStepW_u proxg proxfc A AH 0 0 1 s1, ← hs2, hc.2] at hU
  have hext : s1.x_ext = s1.x + (s1.x - s.x) := by
    rw [hs1, pdStepW_x_ext, pdRescaleW_const]; simp
  rw [hext] at hU
  have p1 := hX w
  have d1 := hU v
  have eP : s.tau.inv (s.x + s.tau.op (-(AH s1.u)) - s1.x) = s.tau.inv (s.x - s1.x) - AH s1.u := by
    have : s.x + s.tau.op (-(AH s1.u)) - s1.x = (s.x - s1.x) + s.tau.op (-(AH s1.u)) := by abel
    rw [this, map_add, hτ.left_inv]; abel
  have eD : s.sigma.inv (s1.u + s.sigma.op (A (s1.x + (s1.x - s.x))) - s2.u)
      = s.sigma.inv (s1.u - s2.u) + A (s1.x + (s1.x - s.x)) := by
    have : s1.u + s.sigma.op (A (s1.x + (s1.x - s.x))) - s2.u
        = (s1.u - s2.u) + s.sigma.op (A (s1.x + (s1.x - s.x))) := by abel
    rw [this, map_add, hσ.left_inv]
  rw [eP, inner_sub_left] at p1
  rw [eD, inner_add_left] at d1
  apply fejer_coreW_gap A AH hadj s.tau s.sigma hτ.symm hσ.symm s.x s1.x w s1.u s2.u v
  unfold lagr
  linarith

/-- primal–dual gap of update `k+1` against `(w, v)`: `L(x_{k+1}, v) - L(w, u_{k+2})` -/
noncomputable def gapAt (A : E → F) (AH : F → E) (s0 : PDState ℝ E F (StepOp E) (StepOp F)) (w : E) (v : F) (k : ℕ) : ℝ :=
  lagr g fc A (pdRun Real.sqrt A AH proxfc proxg 0 0 1 s0 (k + 1)).x v
    - lagr g fc A w (pdRun Real.sqrt A AH proxfc proxg 0 0 1 s0 (k + 2)).u

/-- the one-step gap inequality along the run: `D_{k+1}(w,v) + R_k + 2 gap_k(w,v) ≤ D_k(w,v)` -/
theorem pdhg_gap_run_diag (A : E →ₗ[ℝ] F) (AH : F → E) (hadj : ∀ x u, ⟪A x, u⟫ = ⟪x, AH u⟫)
    (hg : ProxOfW g proxg) (hfc : ProxOfW fc proxfc)
    (s0 : PDState ℝ E F (StepOp E) (StepOp F)) (hτ : s0.tau.Pos) (hσ : s0.sigma.Pos) (w : E) (v : F) (k : ℕ) :
    fejerDist proxg proxfc A AH s0 w v (k + 1)
      + (fejerMove proxg proxfc A AH s0 k + 2 * gapAt g fc proxg proxfc A AH s0 w v k)
      ≤ fejerDist proxg proxfc A AH s0 w v k := by
  have hc := pdRunW_const_steps proxg proxfc A AH 1 s0 k
  have h := pdhg_gap_step_diag g fc proxg proxfc A AH hadj hg hfc (pdRun Real.sqrt A AH proxfc proxg 0 0 1 s0 k)
    (by rw [hc.1]; exact hτ) (by rw [hc.2]; exact hσ) w v
  rw [hc.1, hc.2] at h
  unfold fejerDist fejerMove gapAt
  have e1 : pdRun Real.sqrt A AH proxfc proxg 0 0 1 s0 (k + 1)
      = pdStep Real.sqrt A AH proxfc proxg 0 0 1 (pdRun Real.sqrt A AH proxfc proxg 0 0 1 s0 k) := rfl
  have e2 : pdRun Real.sqrt A AH proxfc proxg 0 0 1 s0 (k + 2)
      = pdStep Real.sqrt A AH proxfc proxg 0 0 1
          (pdStep Real.sqrt A AH proxfc proxg 0 0 1 (pdRun Real.sqrt A AH proxfc proxg 0 0 1 s0 k)) := rfl
  have e3 : pdRun Real.sqrt A AH proxfc proxg 0 0 1 s0 (k + 1 + 1) = pdRun Real.sqrt A AH proxfc proxg 0 0 1 s0 (k + 2) := rfl
  rw [e3, e2, e1]
  linarith

/-- ergodic averages of the generated iterates: `X_N = (x_1 + … + x_N)/N`, `U_N = (u_2 + … + u_{N+1})/N` -/
noncomputable def avgX (A : E → F) (AH : F → E) (s0 : PDState ℝ E F (StepOp E) (StepOp F)) (N : ℕ) : E :=
  ∑ k ∈ Finset.range N, (1 / (N : ℝ)) • (pdRun Real.sqrt A AH proxfc proxg 0 0 1 s0 (k + 1)).x
noncomputable def avgU (A : E → F) (AH : F → E) (s0 : PDState ℝ E F (StepOp E) (StepOp F)) (N : ℕ) : F :=
  ∑ k ∈ Finset.range N, (1 / (N : ℝ)) • (pdRun Real.sqrt A AH proxfc proxg 0 0 1 s0 (k + 2)).u

/-- `pdhg_ergodic_gap` — constant positive array-valued (or scalar) steps, `θ = 1`, metric positive semidefinite
    (`τσ‖A‖² ≤ 1` for scalars), `g` and `f*` convex: for EVERY `(w, v)` and every `N ≥ 1` the averages of the generated
    iterates satisfy `L(X_N, v) - L(w, U_N) ≤ D_0(w, v) / (2N)` where
    `D_0(w,v) = ⟨T⁻¹(x_0-w), x_0-w⟩ - 2⟨A(x_0-w), u_1-v⟩ + ⟨Σ⁻¹(u_1-v), u_1-v⟩`
    (= `‖x_0-w‖²/τ + ‖u_1-v‖²/σ` minus the cross term for scalar steps): the O(1/N) ergodic rate of the
    primal–dual gap. -/
theorem pdhg_ergodic_gap (A : E →ₗ[ℝ] F) (AH : F → E) (hadj : ∀ x u, ⟪A x, u⟫ = ⟪x, AH u⟫)
    (hg : ProxOfW g proxg) (hfc : ProxOfW fc proxfc) (hgc : ConvexOn ℝ Set.univ g) (hfcc : ConvexOn ℝ Set.univ fc)
    (s0 : PDState ℝ E F (StepOp E) (StepOp F)) (hτ : s0.tau.Pos) (hσ : s0.sigma.Pos)
    (hM : MetricPSD A s0.tau s0.sigma) (w : E) (v : F) (N : ℕ) (hN : 0 < N) :
    lagr g fc A (avgX proxg proxfc A AH s0 N) v - lagr g fc A w (avgU proxg proxfc A AH s0 N)
      ≤ fejerDist proxg proxfc A AH s0 w v 0 / (2 * N) := by
  have hN' : (0 : ℝ) < N := Nat.cast_pos.mpr hN
  have hsum := fejer_sum_le (fejerDist proxg proxfc A AH s0 w v)
    (fun k => fejerMove proxg proxfc A AH s0 k + 2 * gapAt g fc proxg proxfc A AH s0 w v k)
    (pdhg_gap_run_diag g fc proxg proxfc A AH hadj hg hfc s0 hτ hσ w v) N
  rw [Finset.sum_add_distrib, ← Finset.mul_sum] at hsum
  have hD : 0 ≤ fejerDist proxg proxfc A AH s0 w v N := hM.coupled_nonneg _ _
  have hR : 0 ≤ ∑ k ∈ Finset.range N, fejerMove proxg proxfc A AH s0 k :=
    Finset.sum_nonneg (fun k _ => hM.coupled_nonneg _ _)
  have hgap : ∑ k ∈ Finset.range N, gapAt g fc proxg proxfc A AH s0 w v k
      ≤ fejerDist proxg proxfc A AH s0 w v 0 / 2 := by linarith
  -- Jensen
  have hw1 : ∑ _k ∈ Finset.range N, (1 / (N : ℝ)) = 1 := by
    rw [Finset.sum_const, Finset.card_range, nsmul_eq_mul, mul_one_div_cancel hN'.ne']
  have hJg := hgc.map_sum_le (t := Finset.range N) (w := fun _ => 1 / (N : ℝ))
    (p := fun k => (pdRun Real.sqrt A AH proxfc proxg 0 0 1 s0 (k + 1)).x)
    (fun _ _ => by positivity) hw1 (fun _ _ => Set.mem_univ _)
  have hJf := hfcc.map_sum_le (t := Finset.range N) (w := fun _ => 1 / (N : ℝ))
    (p := fun k => (pdRun Real.sqrt A AH proxfc proxg 0 0 1 s0 (k + 2)).u)
    (fun _ _ => by positivity) hw1 (fun _ _ => Set.mem_univ _)
  have hAX : ⟪A (avgX proxg proxfc A AH s0 N), v⟫
      = ∑ k ∈ Finset.range N, (1 / (N : ℝ)) * ⟪A (pdRun Real.sqrt A AH proxfc proxg 0 0 1 s0 (k + 1)).x, v⟫ := by
    unfold avgX
    rw [map_sum, sum_inner]
    apply Finset.sum_congr rfl; intro k _
    rw [map_smul, real_inner_smul_left]
  have hAU : ⟪A w, avgU proxg proxfc A AH s0 N⟫
      = ∑ k ∈ Finset.range N, (1 / (N : ℝ)) * ⟪A w, (pdRun Real.sqrt A AH proxfc proxg 0 0 1 s0 (k + 2)).u⟫ := by
    unfold avgU
    rw [inner_sum]
    apply Finset.sum_congr rfl; intro k _
    rw [real_inner_smul_right]
  have hexp : ∑ k ∈ Finset.range N, (1 / (N : ℝ)) * gapAt g fc proxg proxfc A AH s0 w v k
      = (∑ k ∈ Finset.range N, (1 / (N : ℝ)) * g (pdRun Real.sqrt A AH proxfc proxg 0 0 1 s0 (k + 1)).x)
        + (∑ k ∈ Finset.range N, (1 / (N : ℝ)) * ⟪A (pdRun Real.sqrt A AH proxfc proxg 0 0 1 s0 (k + 1)).x, v⟫)
        - fc v - g w
        - (∑ k ∈ Finset.range N, (1 / (N : ℝ)) * ⟪A w, (pdRun Real.sqrt A AH proxfc proxg 0 0 1 s0 (k + 2)).u⟫)
        + (∑ k ∈ Finset.range N, (1 / (N : ℝ)) * fc (pdRun Real.sqrt A AH proxfc proxg 0 0 1 s0 (k + 2)).u) := by
    have c1 : fc v = ∑ _k ∈ Finset.range N, (1 / (N : ℝ)) * fc v := by rw [← Finset.sum_mul, hw1, one_mul]
    have c2 : g w = ∑ _k ∈ Finset.range N, (1 / (N : ℝ)) * g w := by rw [← Finset.sum_mul, hw1, one_mul]
    rw [c1, c2]
    simp only [← Finset.sum_add_distrib, ← Finset.sum_sub_distrib]
    apply Finset.sum_congr rfl; intro k _
    unfold gapAt lagr; ring
  simp only [smul_eq_mul] at hJg hJf
  have hmain : lagr g fc A (avgX proxg proxfc A AH s0 N) v - lagr g fc A w (avgU proxg proxfc A AH s0 N)
      ≤ ∑ k ∈ Finset.range N, (1 / (N : ℝ)) * gapAt g fc proxg proxfc A AH s0 w v k := by
    rw [hexp]
    unfold lagr
    rw [hAX, hAU]
    unfold avgX avgU
    linarith
  rw [← Finset.mul_sum] at hmain
  have : 1 / (N : ℝ) * ∑ k ∈ Finset.range N, gapAt g fc proxg proxfc A AH s0 w v k
      ≤ 1 / (N : ℝ) * (fejerDist proxg proxfc A AH s0 w v 0 / 2) :=
    mul_le_mul_of_nonneg_left hgap (by positivity)
  have e : 1 / (N : ℝ) * (fejerDist proxg proxfc A AH s0 w v 0 / 2) = fejerDist proxg proxfc A AH s0 w v 0 / (2 * N) := by
    field_simp
  linarith
end gap

/-! ## the hypotheses are satisfiable (non-vacuity) -/
section examples

/-- all hypotheses of `ista_iterates_converge` hold for `f(x) = x²/2`, `g = 0` (`proxg = None`), `α = L = 1` on `ℝ`,
    with minimiser `0` -/
example : ∃ (f g : ℝ → ℝ) (gf : ℝ → ℝ) (α L : ℝ), 0 < α ∧ α * L ≤ 1 ∧ ConvexGrad f gf ∧ Descent f gf L ∧
    ProxOpt g (none : Option (ℝ → ℝ → ℝ)) ∧ ∃ w, ∀ y, f w + g w ≤ f y + g y := by
  refine ⟨fun x => x ^ 2 / 2, fun _ => 0, id, 1, 1, one_pos, by norm_num, ?_, ?_, fun _ => rfl, 0, fun y => ?_⟩
  · intro y w; simp only [id, RCLike.inner_apply, conj_trivial]; nlinarith [sq_nonneg (w - y)]
  · intro y p; simp only [id, RCLike.inner_apply, conj_trivial, Real.norm_eq_abs, sq_abs]; nlinarith [sq_nonneg (p - y)]
  · simp; positivity

/-- all hypotheses of `pdhg_iterates_converge` / `pdhg_ergodic_gap` hold on `ℝ` with `A = id`, `g = f* = 0` (identity
    prox maps), `τ = σ = 1` — the BOUNDARY case `τσ‖A‖² = 1` — with saddle point `(0, 0)` -/
example : ∃ (A : ℝ →ₗ[ℝ] ℝ) (AH : ℝ → ℝ) (g fc : ℝ → ℝ) (proxg proxfc : StepOp ℝ → ℝ → ℝ) (T Sg : StepOp ℝ),
    (∀ x u, ⟪A x, u⟫ = ⟪x, AH u⟫) ∧ ProxOfW g proxg ∧ ProxOfW fc proxfc ∧ ConvexOn ℝ Set.univ g ∧
    ConvexOn ℝ Set.univ fc ∧ T.Pos ∧ Sg.Pos ∧ MetricPSD A T Sg ∧ (∃ xs us, IsSaddle g fc A AH xs us) := by
  refine ⟨LinearMap.id, id, fun _ => 0, fun _ => 0, fun _ v => v, fun _ v => v, StepOp.scalar 1, StepOp.scalar 1,
    fun x u => rfl, ?_, ?_, convexOn_const 0 convex_univ, convexOn_const 0 convex_univ,
    StepOp.scalar_pos one_pos, StepOp.scalar_pos one_pos, ?_, 0, 0, ?_⟩
  · intro T v _ w; simp
  · intro T v _ w; simp
  · exact metricPSD_scalar _ 1 1 1 one_pos one_pos (by norm_num) (fun x => by simp)
  · constructor <;> intro w <;> simp
end examples

end SigpyVerif.C13
