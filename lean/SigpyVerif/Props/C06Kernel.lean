import SigpyVerif.Props.C06Batch
import Mathlib.NumberTheory.Padics.PadicVal.Basic
import Mathlib.Data.Rat.Encodable
set_option linter.unusedSectionVars false
/-
  C06 — the `(K, wt)` parametrisation of the interpolation weights covers separable REAL kernels (Kaiser–Bessel)
  in two and three dimensions.

  The generated loop nests `Gen.interp2/3` are lists over `Rat`: their weight slot holds the PRODUCT
  `K(u_y, p_y) · K(u_x, p_x)` of rational kernel values, and the concrete adjoint theorems send that product through
  one real function `wt` (`cw wt`).  For a kernel with irrational values (Kaiser–Bessel: `kb_β(u_y)·kb_β(u_x)`) it is
  not obvious that such a pair `(K, wt)` exists — the product of two rational stand-ins has to remember both
  arguments.  It does: tag the axes through `param` (`param(-d) = d`), let `K(u, d) = p_d ^ enc(u)` with the primes
  `p_1 = 2, p_2 = 3, p_3 = 5` and an injective `enc : ℚ → ℕ`, and let `wt` read the arguments back from the
  `p_d`-adic valuations of the product.  Then `wt(K(u_y,2)·K(u_x,1)) = f₂(u_y)·f₁(u_x)` for ARBITRARY real functions
  `f_d` (`sep_encoding2`, `sep_encoding3`), so the update lists of the theorems have exactly the weights of the
  separable real kernel (`interp2_weights_separable`, `interp3_weights_separable`) and
  `nufft_adjoint_is_adjoint_2d/_3d(_batch)` — stated for all `K`, `wt`, `param` — include Kaiser–Bessel.
-/
namespace SigpyVerif.C06
open SigpyVerif

instance fact_prime_five : Fact (Nat.Prime 5) := ⟨Nat.prime_five⟩

/-- the rational argument stored in an exponent -/
noncomputable def decQ (n : ℕ) : ℚ := (Encodable.decode (α := ℚ) n).getD 0

theorem decQ_encode (u : ℚ) : decQ (Encodable.encode u) = u := by
  unfold decQ
  rw [Encodable.encodek]
  rfl

/-- the rational stand-in: axis tag `d = 1, 2, 3` (passed through `param`) selects the prime `2, 3, 5` -/
noncomputable def Kenc (u d : ℚ) : ℚ :=
  if d = 1 then ((2 ^ Encodable.encode u : ℕ) : ℚ) else if d = 2 then ((3 ^ Encodable.encode u : ℕ) : ℚ)
  else ((5 ^ Encodable.encode u : ℕ) : ℚ)

/-- the axis tags: `param(-d) = d` -/
def tagParam : ℤ → ℚ := fun k => ((-k : ℤ) : ℚ)

/-- reading the arguments back -/
noncomputable def wtEnc2 (f1 f2 : ℚ → ℝ) (q : ℚ) : ℝ :=
  f2 (decQ (padicValNat 3 q.num.natAbs)) * f1 (decQ (padicValNat 2 q.num.natAbs))

noncomputable def wtEnc3 (f1 f2 f3 : ℚ → ℝ) (q : ℚ) : ℝ :=
  f3 (decQ (padicValNat 5 q.num.natAbs)) * f2 (decQ (padicValNat 3 q.num.natAbs)) *
    f1 (decQ (padicValNat 2 q.num.natAbs))

theorem val235 (x y z : ℕ) :
    padicValNat 2 (5 ^ z * 3 ^ y * 2 ^ x) = x ∧ padicValNat 3 (5 ^ z * 3 ^ y * 2 ^ x) = y ∧
      padicValNat 5 (5 ^ z * 3 ^ y * 2 ^ x) = z := by
  have h2 : (2 : ℕ) ^ x ≠ 0 := by positivity
  have h3 : (3 : ℕ) ^ y ≠ 0 := by positivity
  have h5 : (5 : ℕ) ^ z ≠ 0 := by positivity
  have h53 : (5 : ℕ) ^ z * 3 ^ y ≠ 0 := mul_ne_zero h5 h3
  refine ⟨?_, ?_, ?_⟩
  · rw [padicValNat.mul h53 h2, padicValNat.mul h5 h3, padicValNat.prime_pow, padicValNat.pow, padicValNat.pow,
      padicValNat_primes (by norm_num), padicValNat_primes (by norm_num)]
    simp
  · rw [padicValNat.mul h53 h2, padicValNat.mul h5 h3, padicValNat.prime_pow, padicValNat.pow, padicValNat.pow,
      padicValNat_primes (by norm_num), padicValNat_primes (by norm_num)]
    simp
  · rw [padicValNat.mul h53 h2, padicValNat.mul h5 h3, padicValNat.prime_pow, padicValNat.pow, padicValNat.pow,
      padicValNat_primes (by norm_num), padicValNat_primes (by norm_num)]
    simp

theorem natAbs_num_natCast (n : ℕ) : ((n : ℚ)).num.natAbs = n := by
  rw [Rat.num_natCast, Int.natAbs_natCast]

/-- **two axes**: the product of the stand-ins determines both arguments -/
theorem sep_encoding2 (f1 f2 : ℚ → ℝ) (uy ux : ℚ) :
    wtEnc2 f1 f2 (Kenc uy (tagParam (-2)) * Kenc ux (tagParam (-1))) = f2 uy * f1 ux := by
  have t2 : tagParam (-2) = 2 := by norm_num [tagParam]
  have t1 : tagParam (-1) = 1 := by norm_num [tagParam]
  have e : Kenc uy (tagParam (-2)) * Kenc ux (tagParam (-1)) =
      ((5 ^ 0 * 3 ^ Encodable.encode uy * 2 ^ Encodable.encode ux : ℕ) : ℚ) := by
    rw [t2, t1]
    unfold Kenc
    norm_num
  obtain ⟨v2, v3, _⟩ := val235 (Encodable.encode ux) (Encodable.encode uy) 0
  unfold wtEnc2
  rw [e, natAbs_num_natCast, v2, v3, decQ_encode, decQ_encode]

/-- **three axes** -/
theorem sep_encoding3 (f1 f2 f3 : ℚ → ℝ) (uz uy ux : ℚ) :
    wtEnc3 f1 f2 f3 (Kenc uz (tagParam (-3)) * Kenc uy (tagParam (-2)) * Kenc ux (tagParam (-1))) =
      f3 uz * f2 uy * f1 ux := by
  have t3 : tagParam (-3) = 3 := by norm_num [tagParam]
  have t2 : tagParam (-2) = 2 := by norm_num [tagParam]
  have t1 : tagParam (-1) = 1 := by norm_num [tagParam]
  have e : Kenc uz (tagParam (-3)) * Kenc uy (tagParam (-2)) * Kenc ux (tagParam (-1)) =
      ((5 ^ Encodable.encode uz * 3 ^ Encodable.encode uy * 2 ^ Encodable.encode ux : ℕ) : ℚ) := by
    rw [t3, t2, t1]
    unfold Kenc
    norm_num
  obtain ⟨v2, v3, v5⟩ := val235 (Encodable.encode ux) (Encodable.encode uy) (Encodable.encode uz)
  unfold wtEnc3
  rw [e, natAbs_num_natCast, v2, v3, v5, decQ_encode, decQ_encode, decQ_encode]

/-- **the 2-D update list of the adjoint theorems with a separable real kernel**: with the stand-ins above, the list
    `cw wt (Gen.interp2 K …)` that `interpLin2 / gridLin2 / nufft2 / nufft2B` run consists exactly of the updates
    `y[b,j] += f₂((i_y - c_y)/(W_y/2)) · f₁((i_x - c_x)/(W_x/2)) · x[b, i_y mod n_y, i_x mod n_x]` over the documented
    windows — for arbitrary real `f₁, f₂` (Kaiser–Bessel: `f₁ = f₂ = kb_β`). -/
theorem interp2_weights_separable (f1 f2 : ℚ → ℝ) (osh ish csh : Int → Int) (coord : Int → Int → Rat)
    (width : Int → Rat) (u : Upd ℂ) :
    u ∈ cw (wtEnc2 f1 f2) (Gen.interp2 Kenc osh ish csh coord width tagParam) ↔
      ∃ j iy ix b : Int, 0 ≤ j ∧ j < csh 0 ∧
        |(iy : Rat) - coord j (-2)| ≤ width (-2) / 2 ∧ |(ix : Rat) - coord j (-1)| ≤ width (-1) / 2 ∧
        0 ≤ b ∧ b < ish 0 ∧
        u = ([b, j], [b, pyMod iy (ish 1), pyMod ix (ish 2)],
             (((f2 (((iy : Rat) - coord j (-2)) / (width (-2) / 2)) *
                f1 (((ix : Rat) - coord j (-1)) / (width (-1) / 2)) : ℝ)) : ℂ)) := by
  unfold cw
  simp only [List.mem_map, C07.interp2_mem]
  constructor
  · rintro ⟨v, ⟨j, iy, ix, b, h1, h2, h3, h4, h5, h6, rfl⟩, rfl⟩
    exact ⟨j, iy, ix, b, h1, h2, h3, h4, h5, h6, by simp only [sep_encoding2]⟩
  · rintro ⟨j, iy, ix, b, h1, h2, h3, h4, h5, h6, rfl⟩
    exact ⟨_, ⟨j, iy, ix, b, h1, h2, h3, h4, h5, h6, rfl⟩, by simp only [sep_encoding2]⟩

/-- three axes -/
theorem interp3_weights_separable (f1 f2 f3 : ℚ → ℝ) (osh ish csh : Int → Int) (coord : Int → Int → Rat)
    (width : Int → Rat) (u : Upd ℂ) :
    u ∈ cw (wtEnc3 f1 f2 f3) (Gen.interp3 Kenc osh ish csh coord width tagParam) ↔
      ∃ j iz iy ix b : Int, 0 ≤ j ∧ j < csh 0 ∧
        |(iz : Rat) - coord j (-3)| ≤ width (-3) / 2 ∧
        |(iy : Rat) - coord j (-2)| ≤ width (-2) / 2 ∧ |(ix : Rat) - coord j (-1)| ≤ width (-1) / 2 ∧
        0 ≤ b ∧ b < ish 0 ∧
        u = ([b, j], [b, pyMod iz (ish 1), pyMod iy (ish 2), pyMod ix (ish 3)],
             (((f3 (((iz : Rat) - coord j (-3)) / (width (-3) / 2)) *
                f2 (((iy : Rat) - coord j (-2)) / (width (-2) / 2)) *
                f1 (((ix : Rat) - coord j (-1)) / (width (-1) / 2)) : ℝ)) : ℂ)) := by
  unfold cw
  simp only [List.mem_map, C07.interp3_mem]
  constructor
  · rintro ⟨v, ⟨j, iz, iy, ix, b, h1, h2, h3, h4, h5, h6, h7, rfl⟩, rfl⟩
    exact ⟨j, iz, iy, ix, b, h1, h2, h3, h4, h5, h6, h7, by simp only [sep_encoding3]⟩
  · rintro ⟨j, iz, iy, ix, b, h1, h2, h3, h4, h5, h6, h7, rfl⟩
    exact ⟨_, ⟨j, iz, iy, ix, b, h1, h2, h3, h4, h5, h6, h7, rfl⟩, by simp only [sep_encoding3]⟩

/-- **`nufft_adjoint` is the exact adjoint of `nufft` in 3-D with batch, for a separable REAL kernel `f` per axis**
    (e.g. Kaiser–Bessel with any beta): the instance of `nufft_adjoint_is_adjoint_3d_batch` whose interpolation /
    gridding weights are `f₃(u_z) f₂(u_y) f₁(u_x)` (`interp3_weights_separable`). -/
theorem nufft_adjoint_is_adjoint_3d_batch_separable (f1 f2 f3 : ℚ → ℝ) (os : Rat) (B N1 N2 N3 L1 L2 L3 M : ℕ)
    (h1 : 0 < L1) (h2 : 0 < L2) (h3 : 0 < L3) (a : Fin B × Fin N1 × Fin N2 × Fin N3 → ℝ) (c : Int → Int → Rat) (W : Rat)
    (x : EuclideanSpace ℂ (Fin B × Fin N1 × Fin N2 × Fin N3)) (y : EuclideanSpace ℂ (Fin B × Fin M)) :
    inner ℂ (nufft3B os B N1 N2 N3 L1 L2 L3 M a Kenc (wtEnc3 f1 f2 f3) c W tagParam x) y =
      inner ℂ x (nufftAdjoint3B os B N1 N2 N3 L1 L2 L3 M a Kenc (wtEnc3 f1 f2 f3) c W tagParam y) :=
  nufft_adjoint_is_adjoint_3d_batch os B N1 N2 N3 L1 L2 L3 M h1 h2 h3 a Kenc (wtEnc3 f1 f2 f3) c W tagParam x y

end SigpyVerif.C06
