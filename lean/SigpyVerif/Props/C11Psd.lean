import SigpyVerif.Gen.Prox
import SigpyVerif.Lemmas.C11
import SigpyVerif.Lemmas.C11Psd
import SigpyVerif.Props.C11
/-
  C11 — `thresh.psd_proj` / `prox.PsdProj`: the nearest positive semi-definite matrix (Frobenius norm).

  The body of `psd_proj` is the *generated* `Gen.Prox.psdProjWith ops eigh input` (translator pass
  `gen_c11.gen_psd`): `w, v = eigh(psdEighArg input); w := psdClamp w; return psdRecon v w`, a term over the
  record `PsdOps` of numpy array operations.  Here `PsdOps` is instantiated with Mathlib matrices over
  `𝕜 = ℝ` or `ℂ` (`matOps`: the meaning of `+`, `conj`, `.T`, `/ k`, `@`, broadcasting `*`, masked update),
  and `xp.linalg.eigh` is a *parameter* `eigh` subject to the spectral contract
      `eigh A = (w, V)`  with  `Vᴴ V = 1`  and  `A = V diag(w) Vᴴ`,  `w` real               (`EighContract`)
  at the one matrix it is called on.  numpy's `eigh` is a trusted primitive; the contract is checked
  numerically on every run (harness/props/c11.py `psd_stream`, incl. repeated eigenvalues).

  Proved (all for `𝕜` any `RCLike` field, so for real-symmetric and complex-Hermitian data at once):
  * `psd_proj_spectral` — for `H = V diag(w) Vᴴ`, `P = V diag(w₊) Vᴴ`: `P` PSD, `H - P` negative semidefinite,
    `(H - P) P = 0`, and `Re⟨H - P, Q - P⟩ ≤ 0` for every PSD `Q`;
  * `psd_proj_skew` — the skew-Hermitian part of `y` is orthogonal to every Hermitian matrix, and
    `‖y - S‖² = ‖herm(y) - S‖² + ‖skew(y)‖²` for Hermitian `S` (nearest PSD to `y` = nearest PSD to `herm(y)`);
  * `psd_proj_prox` — **the value of the generated `psd_proj` body is the projection of `y` onto the PSD cone**
    (`IsProjOn`, same strong form as every other prox theorem of C11; gives minimality and uniqueness, hence
    independence of which eigenbasis `eigh` picks for repeated eigenvalues);
  * `psd_proj_nearest` — `‖y - P‖_F ≤ ‖y - Q‖_F` for every PSD `Q`; `psd_proj_diag` — the diagonal case.
-/
set_option linter.unusedSectionVars false
namespace SigpyVerif.C11
open Matrix SigpyVerif.Gen.Prox
open scoped ComplexOrder

variable {n : Type} [Fintype n] [DecidableEq n] {𝕜 : Type} [RCLike 𝕜]

/-! ### the numpy operations on Mathlib matrices -/

/-- meaning of the `PsdOps` fields for an `(n, n)` array over `𝕜` and a real `(n,)` array -/
noncomputable def matOps (n 𝕜 : Type) [Fintype n] [RCLike 𝕜] : PsdOps ℝ (Matrix n n 𝕜) (n → ℝ) where
  add A B := A + B
  conj A := A.map star
  transpose A := Aᵀ
  divNat A k := A.map fun z => z / (k : 𝕜)
  matmul A B := A * B
  mulCols A w := of fun i j => A i j * ((w j : ℝ) : 𝕜)
  mapW f w := fun i => f (w i)

/-- Hermitian part `(y + yᴴ)/2` and skew-Hermitian part `(y - yᴴ)/2` -/
noncomputable def hermPart (y : Matrix n n 𝕜) : Matrix n n 𝕜 := (2 : 𝕜)⁻¹ • (y + yᴴ)
noncomputable def skewPart (y : Matrix n n 𝕜) : Matrix n n 𝕜 := (2 : 𝕜)⁻¹ • (y - yᴴ)

theorem hermPart_add_skewPart (y : Matrix n n 𝕜) : hermPart y + skewPart y = y := by
  unfold hermPart skewPart
  rw [← smul_add]
  have : y + yᴴ + (y - yᴴ) = (2 : 𝕜) • y := by rw [two_smul]; abel
  rw [this, smul_smul, inv_mul_cancel₀ two_ne_zero, one_smul]

theorem hermPart_conjTranspose (y : Matrix n n 𝕜) : (hermPart y)ᴴ = hermPart y := by
  unfold hermPart
  rw [conjTranspose_smul, conjTranspose_add, conjTranspose_conjTranspose, add_comm]
  simp

theorem skewPart_conjTranspose (y : Matrix n n 𝕜) : (skewPart y)ᴴ = -skewPart y := by
  unfold skewPart
  rw [conjTranspose_smul, conjTranspose_sub, conjTranspose_conjTranspose, ← smul_neg, neg_sub]
  simp

/-- the generated eigenvalue update is `w₊ = max(w, 0)` (`w[w > 0] = 0` or `abs(w)` do not check) -/
theorem psdClamp_eq (w : ℝ) : psdClamp w = max w 0 := by
  unfold psdClamp
  try unfold gmax
  rcases lt_trichotomy w 0 with h | h | h
  · rw [max_eq_right h.le]; split_ifs <;> linarith
  · rw [h, max_self]; split_ifs <;> rfl
  · rw [max_eq_left h.le]; split_ifs <;> linarith

/-- the generated argument of `eigh` is the Hermitian part of the input (`eigh(input)` does not check) -/
theorem psdEighArg_eq (y : Matrix n n 𝕜) : psdEighArg (matOps n 𝕜) y = hermPart y := by
  ext i j
  simp only [psdEighArg, hermPart, matOps, map_apply, Matrix.add_apply, transpose_apply, Matrix.smul_apply,
    conjTranspose_apply, smul_eq_mul, Nat.cast_ofNat]
  ring

/-- the generated result is `V diag(w) Vᴴ` (`(v * w) @ v.T` without the conjugate does not check) -/
theorem psdRecon_eq (V : Matrix n n 𝕜) (w : n → ℝ) : psdRecon (matOps n 𝕜) V w = V * dg w * Vᴴ := by
  unfold psdRecon matOps dg
  simp only
  congr 1
  ext i j
  simp [mul_diagonal]

/-! ### the spectral theorem of the projection -/

/-- **`psd_proj_spectral`.**  `H = V diag(w) Vᴴ` with `Vᴴ V = 1`, `w` real, and `P = V diag(w₊) Vᴴ`:
    `P` is PSD, `H - P = -V diag(w₋) Vᴴ` is negative semidefinite, `(H - P) P = 0` (so `⟨H - P, P⟩ = 0`), and
    for every PSD `Q`: `Re⟨H - P, Q - P⟩ ≤ 0` — the projection characterisation of `P` for `H`. -/
theorem psd_proj_spectral (V : Matrix n n 𝕜) (hV : Vᴴ * V = 1) (w : n → ℝ) :
    (V * dg (fun i => max (w i) 0) * Vᴴ).PosSemidef ∧
    (V * dg (fun i => max (w i) 0) * Vᴴ - V * dg w * Vᴴ).PosSemidef ∧
    (V * dg w * Vᴴ - V * dg (fun i => max (w i) 0) * Vᴴ) * (V * dg (fun i => max (w i) 0) * Vᴴ) = 0 ∧
    frobRe (V * dg w * Vᴴ - V * dg (fun i => max (w i) 0) * Vᴴ) (V * dg (fun i => max (w i) 0) * Vᴴ) = 0 ∧
    ∀ Q : Matrix n n 𝕜, Q.PosSemidef →
      frobRe (V * dg w * Vᴴ - V * dg (fun i => max (w i) 0) * Vᴴ) (Q - V * dg (fun i => max (w i) 0) * Vᴴ) ≤ 0 := by
  obtain ⟨h1, h2, h3, h4⟩ := psd_spectral_core V hV w
  refine ⟨h1, h2, h3, ?_, h4⟩
  have := h4 0 PosSemidef.zero
  have h5 := h4 ((2 : ℝ) • (V * dg (fun i => max (w i) 0) * Vᴴ))
    (h1.smul (by norm_num : (0 : ℝ) ≤ 2))
  rw [zero_sub, frobRe_neg_right] at this
  have e : (2 : ℝ) • (V * dg (fun i => max (w i) 0) * Vᴴ) - V * dg (fun i => max (w i) 0) * Vᴴ
      = V * dg (fun i => max (w i) 0) * Vᴴ := by rw [two_smul]; abel
  rw [e] at h5
  linarith

/-- **`psd_proj_skew`.**  For an arbitrary square `y = herm(y) + skew(y)`: the skew-Hermitian part is
    Frobenius-orthogonal to every Hermitian `S`, hence `‖y - S‖² = ‖herm(y) - S‖² + ‖skew(y)‖²`: the nearest
    PSD matrix to `y` is the nearest PSD matrix to its Hermitian part (why `psd_proj` symmetrises first). -/
theorem psd_proj_skew (y S : Matrix n n 𝕜) (hS : Sᴴ = S) :
    frobRe (skewPart y) S = 0 ∧
    frobRe (y - S) (y - S) = frobRe (hermPart y - S) (hermPart y - S) + frobRe (skewPart y) (skewPart y) := by
  have h0 : ∀ T : Matrix n n 𝕜, Tᴴ = T → frobRe (skewPart y) T = 0 :=
    fun T hT => frobRe_skew_herm (skewPart_conjTranspose y) hT
  refine ⟨h0 S hS, ?_⟩
  have e : y - S = (hermPart y - S) + skewPart y := by
    conv_lhs => rw [← hermPart_add_skewPart y]
    abel
  rw [e, frobRe_add_self, frobRe_comm (hermPart y - S) (skewPart y),
    h0 (hermPart y - S) (by rw [conjTranspose_sub, hermPart_conjTranspose, hS])]
  ring

/-- the spectral contract of `xp.linalg.eigh` at the matrix `A` it is called on -/
def EighContract (eigh : Matrix n n 𝕜 → (n → ℝ) × Matrix n n 𝕜) (A : Matrix n n 𝕜) : Prop :=
  (eigh A).2ᴴ * (eigh A).2 = 1 ∧ A = (eigh A).2 * dg (eigh A).1 * (eigh A).2ᴴ

/-- value of the generated body under the contract: `V diag(w₊) Vᴴ` -/
theorem psdProjWith_eq (eigh : Matrix n n 𝕜 → (n → ℝ) × Matrix n n 𝕜) (y : Matrix n n 𝕜) :
    psdProjWith (matOps n 𝕜) eigh y
      = (eigh (hermPart y)).2 * dg (fun i => max ((eigh (hermPart y)).1 i) 0) * (eigh (hermPart y)).2ᴴ := by
  unfold psdProjWith
  simp only [psdEighArg_eq, psdRecon_eq]
  congr 3
  funext i
  exact psdClamp_eq _

/-- variational inequality for the generated body: `Re⟨y - P, Q - P⟩ ≤ 0` for every PSD `Q`, and `P` is PSD -/
theorem psd_proj_variational (eigh : Matrix n n 𝕜 → (n → ℝ) × Matrix n n 𝕜) (y : Matrix n n 𝕜)
    (hc : EighContract eigh (psdEighArg (matOps n 𝕜) y)) :
    (psdProjWith (matOps n 𝕜) eigh y).PosSemidef ∧
    ∀ Q : Matrix n n 𝕜, Q.PosSemidef → frobRe (y - psdProjWith (matOps n 𝕜) eigh y) (Q - psdProjWith (matOps n 𝕜) eigh y) ≤ 0 := by
  rw [psdEighArg_eq] at hc
  obtain ⟨hV, hH⟩ := hc
  rw [psdProjWith_eq]
  set V := (eigh (hermPart y)).2
  set w := (eigh (hermPart y)).1
  obtain ⟨h1, _, _, _, h5⟩ := psd_proj_spectral V hV w
  refine ⟨h1, fun Q hQ => ?_⟩
  have e : y - V * dg (fun i => max (w i) 0) * Vᴴ
      = (V * dg w * Vᴴ - V * dg (fun i => max (w i) 0) * Vᴴ) + skewPart y := by
    rw [← hH]
    conv_lhs => rw [← hermPart_add_skewPart y]
    abel
  rw [e, frobRe_add_left]
  have hs : (Q - V * dg (fun i => max (w i) 0) * Vᴴ)ᴴ = Q - V * dg (fun i => max (w i) 0) * Vᴴ := by
    rw [conjTranspose_sub, hQ.1.eq, h1.1.eq]
  rw [frobRe_skew_herm (skewPart_conjTranspose y) hs, add_zero]
  exact h5 Q hQ

/-- **`psd_proj_nearest`.**  `‖y - psd_proj(y)‖_F² ≤ ‖y - Q‖_F²` for every PSD `Q` (with the strong-convexity
    gap `‖Q - P‖²`). -/
theorem psd_proj_nearest (eigh : Matrix n n 𝕜 → (n → ℝ) × Matrix n n 𝕜) (y : Matrix n n 𝕜)
    (hc : EighContract eigh (psdEighArg (matOps n 𝕜) y)) (Q : Matrix n n 𝕜) (hQ : Q.PosSemidef) :
    frobRe (y - psdProjWith (matOps n 𝕜) eigh y) (y - psdProjWith (matOps n 𝕜) eigh y)
      + frobRe (Q - psdProjWith (matOps n 𝕜) eigh y) (Q - psdProjWith (matOps n 𝕜) eigh y)
      ≤ frobRe (y - Q) (y - Q) := by
  have h := (psd_proj_variational eigh y hc).2 Q hQ
  set P := psdProjWith (matOps n 𝕜) eigh y
  have e : y - Q = (y - P) + -(Q - P) := by abel
  rw [e, frobRe_add_self, frobRe_neg_right, frobRe_neg_left, frobRe_neg_right]
  linarith

/-! ### in the form of every other prox theorem: `IsProjOn` on the flattened array -/

/-- the flattened `(n, n)` array as an `ℓ²` vector (`‖vecM A‖ = ‖A‖_F`) -/
noncomputable def vecM (A : Matrix n n 𝕜) : Vec (n × n) 𝕜 := vec fun p => A p.1 p.2
/-- and back -/
def unvecM (x : Vec (n × n) 𝕜) : Matrix n n 𝕜 := of fun i j => x (i, j)

theorem vecM_unvecM (x : Vec (n × n) 𝕜) : vecM (unvecM x) = x := by
  ext p; simp [vecM, unvecM]

theorem norm_vecM_sq (A : Matrix n n 𝕜) : ‖vecM A‖ ^ 2 = frobRe A A := by
  rw [PiLp.norm_sq_eq_of_L2, frobRe_self, Fintype.sum_prod_type]
  simp [vecM]

theorem vecM_sub (A B : Matrix n n 𝕜) : vecM A - vecM B = vecM (A - B) := by
  ext p; simp [vecM]

/-- **`psd_proj_prox`: `PsdProj(shape)(α, y) = psd_proj(y)` is the exact minimiser.**  For every square `y`
    (real or complex, Hermitian or not), if the `eigh` the code calls satisfies its spectral contract at the
    matrix it is called on, then the value of the generated body is the projection of `y` onto the cone of
    positive semi-definite matrices in the Frobenius norm (`IsProjOn`: feasible, and
    `½‖p-y‖² + ½‖x-p‖² ≤ ½‖x-y‖²` for every PSD `x` — minimal and unique). -/
theorem psd_proj_prox (eigh : Matrix n n 𝕜 → (n → ℝ) × Matrix n n 𝕜) (y : Matrix n n 𝕜)
    (hc : EighContract eigh (psdEighArg (matOps n 𝕜) y)) :
    IsProjOn {x : Vec (n × n) 𝕜 | (unvecM x).PosSemidef} (vecM y) (vecM (psdProjWith (matOps n 𝕜) eigh y)) := by
  obtain ⟨hP, _⟩ := psd_proj_variational eigh y hc
  have hu : ∀ A : Matrix n n 𝕜, unvecM (vecM A) = A := fun A => by ext i j; simp [unvecM, vecM]
  refine ⟨by simpa only [Set.mem_ofPred_eq, hu] using hP, fun x hx => ?_⟩
  have hQ : (unvecM x).PosSemidef := hx
  have := psd_proj_nearest eigh y hc (unvecM x) hQ
  rw [← vecM_unvecM x, vecM_sub, vecM_sub, vecM_sub, norm_vecM_sq, norm_vecM_sq, norm_vecM_sq]
  have e1 : frobRe (psdProjWith (matOps n 𝕜) eigh y - y) (psdProjWith (matOps n 𝕜) eigh y - y)
      = frobRe (y - psdProjWith (matOps n 𝕜) eigh y) (y - psdProjWith (matOps n 𝕜) eigh y) := by
    rw [← neg_sub y, frobRe_neg_left, frobRe_neg_right, neg_neg]
  have e2 : frobRe (unvecM x - y) (unvecM x - y) = frobRe (y - unvecM x) (y - unvecM x) := by
    rw [← neg_sub y, frobRe_neg_left, frobRe_neg_right, neg_neg]
  rw [e1, e2]
  linarith

/-- real-symmetric / general real input (`eigh` of a real array returns a real orthogonal `V`) -/
theorem psd_proj_prox_real (eigh : Matrix n n ℝ → (n → ℝ) × Matrix n n ℝ) (y : Matrix n n ℝ)
    (hc : EighContract eigh (psdEighArg (matOps n ℝ) y)) :
    IsProjOn {x : Vec (n × n) ℝ | (unvecM x).PosSemidef} (vecM y) (vecM (psdProjWith (matOps n ℝ) eigh y)) :=
  psd_proj_prox eigh y hc

/-- complex input -/
theorem psd_proj_prox_complex (eigh : Matrix n n ℂ → (n → ℝ) × Matrix n n ℂ) (y : Matrix n n ℂ)
    (hc : EighContract eigh (psdEighArg (matOps n ℂ) y)) :
    IsProjOn {x : Vec (n × n) ℂ | (unvecM x).PosSemidef} (vecM y) (vecM (psdProjWith (matOps n ℂ) eigh y)) :=
  psd_proj_prox eigh y hc

/-- **`psd_proj_diag`** (and non-vacuity of `EighContract`): a real diagonal input `diag(w)` has the spectral data
    `(w, I)`, the code returns `diag(w₊)`, and that is the projection. -/
theorem psd_proj_diag (w : n → ℝ) :
    EighContract (fun _ => (w, (1 : Matrix n n 𝕜))) (psdEighArg (matOps n 𝕜) (dg w)) ∧
    psdProjWith (matOps n 𝕜) (fun _ => (w, (1 : Matrix n n 𝕜))) (dg w) = dg (fun i => max (w i) 0) ∧
    IsProjOn {x : Vec (n × n) 𝕜 | (unvecM x).PosSemidef} (vecM (dg w : Matrix n n 𝕜))
      (vecM (dg (fun i => max (w i) 0) : Matrix n n 𝕜)) := by
  have hh : hermPart (dg w : Matrix n n 𝕜) = dg w := by
    unfold hermPart
    rw [dg_conjTranspose, ← two_smul 𝕜, smul_smul, inv_mul_cancel₀ two_ne_zero, one_smul]
  have hc : EighContract (fun _ => (w, (1 : Matrix n n 𝕜))) (psdEighArg (matOps n 𝕜) (dg w)) := by
    rw [psdEighArg_eq, hh]
    exact ⟨by simp, by simp⟩
  have hv : psdProjWith (matOps n 𝕜) (fun _ => (w, (1 : Matrix n n 𝕜))) (dg w) = dg (fun i => max (w i) 0) := by
    rw [psdProjWith_eq]; simp
  refine ⟨hc, hv, ?_⟩
  rw [← hv]
  exact psd_proj_prox _ _ hc

/-! ### non-vacuity -/

example : psdClamp (-3 : ℝ) = 0 ∧ psdClamp (2 : ℝ) = 2 := by
  constructor <;> (rw [psdClamp_eq]; norm_num)

/-- `diag(1, -1)` is projected to `diag(1, 0)` -/
example : IsProjOn {x : Vec (Fin 2 × Fin 2) ℝ | (unvecM x).PosSemidef} (vecM (dg ![1, -1] : Matrix (Fin 2) (Fin 2) ℝ))
    (vecM (dg (fun i => max (![1, -1] i) 0) : Matrix (Fin 2) (Fin 2) ℝ)) := (psd_proj_diag ![1, -1]).2.2

end SigpyVerif.C11
