/-
  C14 — LinearLeastSquares returns the documented minimiser whatever the solver.

  Every theorem is about definitions REGENERATED from sigpy/app.py on every check:
  (a) `Gen.C14.getAlg`, the decision function of `LinearLeastSquares._get_alg` (Gen/C14Select.lean), and
  (b) `Gen.C14.cgArgs / gmArgs / pdhgArgsNoG / pdhgArgsG / admmArgsNoG / admmArgsG` (Gen/C14Setup.lean): the
      arguments `_get_ConjugateGradient`, `_get_GradientMethod`, `_get_PrimalDualHybridGradient`, `_get_ADMM`
      hand to the solver classes (system operators, right-hand sides, the closures `gradf`, `minL_x`, `minL_v` as
      functions of the captured state, prox trees, gammas, step rules, the operator given to `MaxEig`, the ADMM
      constraint), as terms over the vocabulary of Model/C14Base.lean with the source's branch structure —
      the very definitions the driver executes over `Rat` — instantiated here at real inner-product spaces
      `E` (unknown), `F` (data), `H` (range of `G`).
  `A`, `G` are linear maps with adjoints `AH`, `GH` (`IsAdj`); `g` enters through its (sub)gradient relation `dg`
  and the prox characterisation `IsProxOf` (optimality condition of `argmin ½‖w - v‖² + α g(w)`).

  Bridging lemmas (`cgArgs_sys`, `cgArgs_rhs`, `gm_gradient`, `gmArgs_eig`, `gmArgs_alpha`, `pdhgArgs_parts_*`,
  `pdhgArgs_steps`, `pdhgArgs_eig_*`, `admmArgs_*`) state the closed form of each generated component; they are
  proved by unfolding + case split + `module`, so a commuted sum / a temporary / `x * a` for `a * x` in the
  source does not break them, while a dropped or wrong term does.  Everything else is proved FROM them.

  What is proved: the decision table; CG system ⇔ stationarity ⇔ (λ ≥ 0) global minimiser, unique when
  positive definite; `gradf` is the gradient and the step-size operator is the Hessian; the data-term
  conjugate/biconjugate identity and the prox identities of `L2Reg`/`Conj`; fixed points of the PDHG
  and ADMM set-ups are exactly the KKT points of the documented objective, for every routing of
  `lamda`, `z`, `proxg`, `G`; KKT points are global minimisers (convex `g`, λ ≥ 0); `default_steps`: the default
  `alpha` / `tau` / `sigma` satisfy the step conditions of the solvers' convergence theorems when `max_eig` bounds
  the Rayleigh quotient of the operator handed to `MaxEig`.
  Not proved here (validated by correspondence + search): convergence of the solver classes to those
  fixed points (C12/C13), complex data, floating point, the power method's under-estimate of `max_eig`.
-/
import SigpyVerif.Model.C14
import SigpyVerif.Gen.C14Select
import SigpyVerif.Gen.C14Setup
import Mathlib.Analysis.InnerProductSpace.Basic
import Mathlib.Algebra.QuadraticDiscriminant
import Mathlib.Tactic.Module
import Mathlib.Tactic.Linarith

namespace SigpyVerif.C14
open SigpyVerif.Gen.C14

/-! ## 1. solver selection (`_get_alg`, generated definition `Gen.C14.getAlg`) -/

/-- the four solver names `_get_alg` knows -/
def solverNames : List String :=
  ["ConjugateGradient", "GradientMethod", "PrimalDualHybridGradient", "ADMM"]

/-- `solver=None`: ConjugateGradient when no `proxg` is given, else GradientMethod when no `G` is given,
    else PrimalDualHybridGradient — and that set-up is built (never a rejection). -/
theorem select_default (p g : Bool) :
    getAlg none p g = .built (if !p then "ConjugateGradient" else if !g then "GradientMethod"
      else "PrimalDualHybridGradient") := by
  cases p <;> cases g <;> rfl

/-- a named solver is built exactly in the combinations it supports -/
theorem select_named (p g : Bool) :
    getAlg (some "ConjugateGradient") false g = .built "ConjugateGradient" ∧
    getAlg (some "GradientMethod") p false = .built "GradientMethod" ∧
    getAlg (some "PrimalDualHybridGradient") p g = .built "PrimalDualHybridGradient" ∧
    getAlg (some "ADMM") p g = .built "ADMM" := by
  cases p <;> cases g <;> exact ⟨rfl, rfl, rfl, rfl⟩

/-- `_get_alg` raises exactly for: ConjugateGradient with `proxg`, GradientMethod with `G`, and a solver
    string that is none of the four names. -/
theorem rejects_iff (s : Option String) (p g : Bool) :
    (∃ t, getAlg s p g = .raised t) ↔
      (s = some "ConjugateGradient" ∧ p = true) ∨ (s = some "GradientMethod" ∧ g = true) ∨
      (∃ n, s = some n ∧ n ∉ solverNames) := by
  cases s with
  | none => cases p <;> cases g <;> simp [getAlg]
  | some n =>
    by_cases h1 : n = "ConjugateGradient"
    · subst h1; cases p <;> cases g <;> simp [getAlg, solverNames]
    by_cases h2 : n = "GradientMethod"
    · subst h2; cases p <;> cases g <;> simp [getAlg, solverNames]
    by_cases h3 : n = "PrimalDualHybridGradient"
    · subst h3; cases p <;> cases g <;> simp [getAlg, solverNames]
    by_cases h4 : n = "ADMM"
    · subst h4; cases p <;> cases g <;> simp [getAlg, solverNames]
    · simp [getAlg, solverNames, h1, h2, h3, h4]

/-- `_get_alg` never falls off the end: it builds one of the four set-ups or raises. -/
theorem select_total (s : Option String) (p g : Bool) :
    (∃ n ∈ solverNames, getAlg s p g = .built n) ∨ (∃ t, getAlg s p g = .raised t) := by
  cases s with
  | none => cases p <;> cases g <;> simp [getAlg, solverNames]
  | some n =>
    by_cases h1 : n = "ConjugateGradient"
    · subst h1; cases p <;> cases g <;> simp [getAlg, solverNames]
    by_cases h2 : n = "GradientMethod"
    · subst h2; cases p <;> cases g <;> simp [getAlg, solverNames]
    by_cases h3 : n = "PrimalDualHybridGradient"
    · subst h3; cases p <;> cases g <;> simp [getAlg, solverNames]
    by_cases h4 : n = "ADMM"
    · subst h4; cases p <;> cases g <;> simp [getAlg, solverNames]
    · simp [getAlg, solverNames, h1, h2, h3, h4]


/-! ## 2. the smooth part, its gradient, CG and GradientMethod set-ups -/
open scoped RealInnerProductSpace
set_option linter.unusedSectionVars false
set_option linter.unusedTactic false
set_option linter.unreachableTactic false
set_option linter.unusedSimpArgs false

variable {E F H : Type} [NormedAddCommGroup E] [InnerProductSpace ℝ E]
  [NormedAddCommGroup F] [InnerProductSpace ℝ F] [NormedAddCommGroup H] [InnerProductSpace ℝ H]

/-- `z=None` is the documented objective with `z = 0` -/
def zOf {V : Type} [Zero V] (z : Option V) : V := z.getD 0

/-- smooth part of the documented objective: `½‖A x - y‖² + λ/2 ‖x - z‖²` -/
noncomputable def smooth (A : E →ₗ[ℝ] F) (y : F) (lam : ℝ) (z : E) (x : E) : ℝ :=
  1 / 2 * ‖A x - y‖ ^ 2 + lam / 2 * ‖x - z‖ ^ 2

/-- its gradient `Aᴴ(A x - y) + λ (x - z)` -/
def grad (A : E →ₗ[ℝ] F) (AH : F →ₗ[ℝ] E) (y : F) (lam : ℝ) (z : E) (x : E) : E :=
  AH (A x - y) + lam • (x - z)

/-- `AH` is the adjoint of `A` -/
def IsAdj {E F : Type} [NormedAddCommGroup E] [InnerProductSpace ℝ E] [NormedAddCommGroup F]
    [InnerProductSpace ℝ F] (A : E →ₗ[ℝ] F) (AH : F →ₗ[ℝ] E) : Prop := ∀ x u, ⟪A x, u⟫ = ⟪x, AH u⟫

/-- exact second-order expansion of the smooth part: `grad` is its gradient and `AᴴA + λI` its Hessian -/
theorem obj_expand (A : E →ₗ[ℝ] F) (AH : F →ₗ[ℝ] E) (hA : IsAdj A AH) (y : F) (lam : ℝ) (z x h : E) :
    smooth A y lam z (x + h) =
      smooth A y lam z x + ⟪grad A AH y lam z x, h⟫ + (1 / 2 * ‖A h‖ ^ 2 + lam / 2 * ‖h‖ ^ 2) := by
  have e1 : A (x + h) - y = (A x - y) + A h := by rw [map_add]; abel
  have e2 : x + h - z = (x - z) + h := by abel
  have e3 : ⟪AH (A x - y), h⟫ = ⟪A x - y, A h⟫ := by
    rw [real_inner_comm, ← hA, real_inner_comm]
  unfold smooth grad
  rw [e1, e2, norm_add_sq_real, norm_add_sq_real, inner_add_left, e3, inner_smul_left]
  simp only [RCLike.conj_to_real]
  ring

/-! ### bridging: normal forms of the GENERATED `cgArgs` (robust to reordering of sums in the source) -/

/-- the system operator `_get_ConjugateGradient` hands to `ConjugateGradient` is `AᴴA + λI`
    (for `λ = 0` the source skips the `λI` term) -/
theorem cgArgs_sys (A : E →ₗ[ℝ] F) (AH : F →ₗ[ℝ] E) (y : F) (lam : ℝ) (z : Option E) (x : E) :
    (cgArgs A AH y lam z).sys x = AH (A x) + lam • x := by
  by_cases h : lam = 0
  · subst h
    simp only [cgArgs, ne_eq, not_true_eq_false, if_false, opAdd, opN, opSmul, opId]; first | done | module
  · simp only [cgArgs, ne_eq, h, not_false_eq_true, if_true, opAdd, opN, opSmul, opId]; first | done | module

/-- the right-hand side is `Aᴴy + λz` (`z = 0` when not given; the source adds `λz` only for `λ ≠ 0`) -/
theorem cgArgs_rhs (A : E →ₗ[ℝ] F) (AH : F →ₗ[ℝ] E) (y : F) (lam : ℝ) (z : Option E) :
    (cgArgs A AH y lam z).rhs = AH y + lam • zOf z := by
  by_cases h : lam = 0
  · subst h
    cases z <;> simp only [cgArgs, ne_eq, not_true_eq_false, if_false, zOf, Option.getD_none, Option.getD_some] <;>
      first | done | module
  · cases z <;> simp only [cgArgs, ne_eq, h, not_false_eq_true, if_true, zOf, Option.getD_none, Option.getD_some,
      smul_zero] <;> first | done | module

/-- the CG set-up is the normal equation -/
theorem cgSys_cgRhs_eq_normal (A : E →ₗ[ℝ] F) (AH : F →ₗ[ℝ] E) (y : F) (lam : ℝ) (z : Option E) (x : E) :
    (cgArgs A AH y lam z).sys x = (cgArgs A AH y lam z).rhs ↔ grad A AH y lam (zOf z) x = 0 := by
  rw [cgArgs_sys, cgArgs_rhs, ← sub_eq_zero]
  have : AH (A x) + lam • x - (AH y + lam • zOf z) = grad A AH y lam (zOf z) x := by
    simp only [grad, map_sub]; module
  rw [this]

/-- a first-order term that never makes a quadratic negative vanishes -/
theorem lin_zero_of_quad_nonneg (b c : ℝ) (h : ∀ t : ℝ, 0 ≤ t * b + t ^ 2 * c) : b = 0 := by
  have := discrim_le_zero (a := c) (b := b) (c := 0) (fun t => by have := h t; nlinarith)
  unfold discrim at this
  have hb : b ^ 2 ≤ 0 := by linarith
  exact pow_eq_zero_iff (two_ne_zero) |>.mp (le_antisymm hb (sq_nonneg b))

theorem cg_normal_eq (A : E →ₗ[ℝ] F) (AH : F →ₗ[ℝ] E) (hA : IsAdj A AH) (y : F) (lam : ℝ) (hl : 0 ≤ lam)
    (z : Option E) (x : E) :
    (cgArgs A AH y lam z).sys x = (cgArgs A AH y lam z).rhs ↔ ∀ x', smooth A y lam (zOf z) x ≤ smooth A y lam (zOf z) x' := by
  rw [cgSys_cgRhs_eq_normal]
  constructor
  · intro hg x'
    have := obj_expand A AH hA y lam (zOf z) x (x' - x)
    rw [hg, inner_zero_left, add_sub_cancel] at this
    rw [this]
    have h1 : 0 ≤ 1 / 2 * ‖A (x' - x)‖ ^ 2 := by positivity
    have h2 : 0 ≤ lam / 2 * ‖x' - x‖ ^ 2 := by positivity
    linarith
  · intro hmin
    set g := grad A AH y lam (zOf z) x with hgdef
    have hb : ⟪g, g⟫ = 0 := by
      apply lin_zero_of_quad_nonneg _ (1 / 2 * ‖A g‖ ^ 2 + lam / 2 * ‖g‖ ^ 2)
      intro t
      have h1 := obj_expand A AH hA y lam (zOf z) x (t • g)
      have h2 := hmin (x + t • g)
      rw [h1, inner_smul_right, map_smul, norm_smul, norm_smul, Real.norm_eq_abs, mul_pow, mul_pow, sq_abs,
        ← hgdef] at h2
      nlinarith
    exact inner_self_eq_zero.mp hb

/-- with `AᴴA + λI` positive definite the solution of the CG system is the unique minimiser -/
theorem cg_unique_minimiser (A : E →ₗ[ℝ] F) (AH : F →ₗ[ℝ] E) (hA : IsAdj A AH) (y : F) (lam : ℝ)
    (z : Option E) (x : E) (hpd : ∀ h : E, h ≠ 0 → 0 < ‖A h‖ ^ 2 + lam * ‖h‖ ^ 2)
    (hx : (cgArgs A AH y lam z).sys x = (cgArgs A AH y lam z).rhs) (x' : E) (hne : x' ≠ x) :
    smooth A y lam (zOf z) x < smooth A y lam (zOf z) x' := by
  rw [cgSys_cgRhs_eq_normal] at hx
  have := obj_expand A AH hA y lam (zOf z) x (x' - x)
  rw [hx, inner_zero_left, add_sub_cancel] at this
  rw [this]
  have := hpd (x' - x) (sub_ne_zero.mpr hne)
  linarith

/-- the closure `gradf` of the GENERATED GradientMethod set-up is the gradient of the smooth part
    (the first-order term of `obj_expand`), for every routing of `lamda` and `z` (and whatever `alpha`) -/
theorem gm_gradient (A : E →ₗ[ℝ] F) (AH : F →ₗ[ℝ] E) (y : F) (lam : ℝ) (z : Option E) (alpha : Option ℝ)
    (me : ℝ) (x : E) :
    (gmArgs A AH y lam z alpha me).gradf x = grad A AH y lam (zOf z) x := by
  by_cases h : lam = 0
  · subst h
    cases z <;> simp only [gmArgs, opN, grad, zOf, ne_eq, not_true_eq_false, if_false, Option.getD_none,
      Option.getD_some, map_sub] <;> first | done | module
  · cases z <;> simp only [gmArgs, opN, grad, zOf, ne_eq, h, not_false_eq_true, if_true, Option.getD_none,
      Option.getD_some, sub_zero, map_sub] <;> first | done | module

/-- `MaxEig` is run exactly when `alpha` is not given, and the operator it gets is the Hessian `AᴴA + λI` of the
    smooth part -/
theorem gmArgs_eig (A : E →ₗ[ℝ] F) (AH : F →ₗ[ℝ] E) (y : F) (lam : ℝ) (z : Option E) (me : ℝ) :
    (∃ f, (gmArgs A AH y lam z none me).eig = .primal f ∧ ∀ h, f h = AH (A h) + lam • h) ∧
    ∀ a, (gmArgs A AH y lam z (some a) me).eig = .none := by
  refine ⟨⟨_, rfl, fun h => ?_⟩, fun a => rfl⟩
  by_cases hl : lam = 0
  · subst hl
    simp only [ne_eq, not_true_eq_false, if_false, opAdd, opN, opSmul, opId]; first | done | module
  · simp only [ne_eq, hl, not_false_eq_true, if_true, opAdd, opN, opSmul, opId]; first | done | module

/-- the step size handed to `GradientMethod`: the caller's `alpha`, else `1/max_eig` (`1` when `max_eig == 0`) -/
theorem gmArgs_alpha (A : E →ₗ[ℝ] F) (AH : F →ₗ[ℝ] E) (y : F) (lam : ℝ) (z : Option E) (me : ℝ) :
    (gmArgs A AH y lam z none me).alpha = (if me = 0 then 1 else 1 / me) ∧
    ∀ a, (gmArgs A AH y lam z (some a) me).alpha = a := ⟨rfl, fun _ => rfl⟩

/-- the operator whose largest eigenvalue sets the default step is the Hessian `AᴴA + λI` of the smooth part:
    `gradf (x + h) - gradf x = eig h` -/
theorem gmEigOp_eq_hessian (A : E →ₗ[ℝ] F) (AH : F →ₗ[ℝ] E) (y : F) (lam : ℝ) (z : Option E) (me : ℝ) :
    ∃ f, (gmArgs A AH y lam z none me).eig = .primal f ∧
      ∀ x h, (gmArgs A AH y lam z none me).gradf (x + h) - (gmArgs A AH y lam z none me).gradf x = f h := by
  obtain ⟨⟨f, hf, hf'⟩, -⟩ := gmArgs_eig A AH y lam z me
  refine ⟨f, hf, fun x h => ?_⟩
  rw [gm_gradient, gm_gradient, hf']
  simp only [grad, map_add, map_sub]; module

/-- without `proxg`, a gradient step with any non-zero step size leaves `x` fixed iff `x` minimises the
    documented objective (`g = 0`) -/
theorem gm_fixed_point_iff_minimiser (A : E →ₗ[ℝ] F) (AH : F →ₗ[ℝ] E) (hA : IsAdj A AH) (y : F) (lam : ℝ)
    (hl : 0 ≤ lam) (z : Option E) (alpha : Option ℝ) (me : ℝ) (x : E)
    (ha : (gmArgs A AH y lam z alpha me).alpha ≠ 0) :
    x - (gmArgs A AH y lam z alpha me).alpha • (gmArgs A AH y lam z alpha me).gradf x = x ↔
      ∀ x', smooth A y lam (zOf z) x ≤ smooth A y lam (zOf z) x' := by
  rw [← cg_normal_eq A AH hA y lam hl, cgSys_cgRhs_eq_normal, gm_gradient, sub_eq_self, smul_eq_zero]
  simp [ha]

/-! ## prox characterisations -/

/-- `p` is the proximal operator belonging to the (sub)gradient relation `dg` of a function `g`:
    `p α v = w ↔ (v - w)/α ∈ ∂g(w)` for every `α > 0` (the optimality condition of
    `argmin_w ½‖w - v‖² + α g(w)`). -/
def IsProxOf (p : ℝ → H → H) (dg : H → Set H) : Prop :=
  ∀ α : ℝ, 0 < α → ∀ v w : H, p α v = w ↔ (1 / α) • (v - w) ∈ dg w

/-- `proxg=None` behaves as the prox of `g = 0` (subgradient `{0}`) -/
def effDg (hasProxg : Bool) (dg : H → Set H) : H → Set H := if hasProxg then dg else fun _ => {0}

/-- the tree the set-ups use for the caller's prox -/
def userTree (hasProxg : Bool) : PD ℝ H := if hasProxg then .user else .noop

theorem userTree_isProx (hasProxg : Bool) (user : ℝ → H → H) (dg : H → Set H)
    (hu : hasProxg = true → IsProxOf user dg) :
    IsProxOf ((userTree hasProxg).eval user) (effDg hasProxg dg) := by
  cases hasProxg with
  | true => simpa [userTree, effDg, PD.eval] using hu rfl
  | false =>
    intro α hα v w
    simp only [userTree, effDg, PD.eval, Bool.false_eq_true, if_false, Set.mem_singleton_iff, smul_eq_zero,
      one_div, inv_eq_zero, hα.ne', false_or, sub_eq_zero]


/-- `L2Reg(shape, lam, y)` is the prox of `lam/2 ‖· - y‖²`: `w = prox_α(v) ⇔ (v - w)/α = lam (w - y)` -/
theorem l2reg_is_prox (lam : ℝ) (hl : 0 ≤ lam) (y : Option H) :
    IsProxOf (l2regOut lam y) (fun w => {lam • (w - zOf y)}) := by
  intro α hα v w
  have h1 : (1 + lam * α) ≠ 0 := by positivity
  simp only [Set.mem_singleton_iff]
  cases y with
  | none =>
    simp only [l2regOut, zOf, Option.getD_none, sub_zero]
    rw [one_div, inv_smul_eq_iff₀ h1, one_div, inv_smul_eq_iff₀ hα.ne']
    constructor <;> intro h
    · rw [h]; module
    · have : v = w + α • lam • w := by rw [← h]; abel
      rw [this]; module
  | some y =>
    simp only [l2regOut, zOf, Option.getD_some]
    rw [one_div, inv_smul_eq_iff₀ h1, one_div, inv_smul_eq_iff₀ hα.ne']
    constructor <;> intro h
    · have : v = (1 + lam * α) • w - (lam * α) • y := eq_sub_of_add_eq h
      rw [this]; module
    · have : v = w + α • lam • (w - y) := by rw [← h]; abel
      rw [this]; module

/-! ## 3. the data term: conjugate, biconjugate and its prox (`L2Reg(y.shape, 1, y=-y)`) -/

/-- data fidelity `f(v) = ½‖v - y‖²` and the function whose prox the set-up uses, `f*(u) = ½‖u‖² + ⟨u, y⟩` -/
noncomputable def fData (y v : F) : ℝ := 1 / 2 * ‖v - y‖ ^ 2
noncomputable def fDataConj (y u : F) : ℝ := 1 / 2 * ‖u‖ ^ 2 + ⟪u, y⟫

/-- Fenchel–Young with equality: `f*` is the conjugate of `f` (sup attained at `v = u + y`) and `f` is the
    conjugate of `f*` (sup attained at `u = v - y`), i.e. `max_u ⟨A x, u⟩ - f*(u) = ½‖A x - y‖²`: the
    saddle problem the PDHG set-up hands to the solver has the documented data term as its primal. -/
theorem data_conj_biconj (y u v : F) :
    ⟪u, v⟫ - fData y v ≤ fDataConj y u ∧ ⟪u, u + y⟫ - fData y (u + y) = fDataConj y u ∧
    ⟪u, v⟫ - fDataConj y u ≤ fData y v ∧ ⟪v - y, v⟫ - fDataConj y (v - y) = fData y v := by
  have key : fDataConj y u - ⟪u, v⟫ + fData y v = 1 / 2 * ‖u - (v - y)‖ ^ 2 := by
    unfold fDataConj fData
    rw [norm_sub_sq_real u (v - y), inner_sub_right]; ring
  have hnn : 0 ≤ 1 / 2 * ‖u - (v - y)‖ ^ 2 := by positivity
  refine ⟨by linarith, ?_, by linarith, ?_⟩
  · unfold fDataConj fData
    rw [add_sub_cancel_right, inner_add_right, real_inner_self_eq_norm_sq]; ring
  · unfold fDataConj fData
    rw [inner_sub_left, inner_sub_left, real_inner_self_eq_norm_sq, norm_sub_sq_real,
      real_inner_self_eq_norm_sq, real_inner_comm y v]
    ring

/-- the dual prox of the data term, `L2Reg(y.shape, 1, y=-y)`, is the prox of `f*`
    (gradient of `f*` at `w` is `w + y`) -/
theorem proxfc_data_is_prox (y : F) :
    IsProxOf (l2regOut (1 : ℝ) (some (-y))) (fun w => {w + y}) := by
  have := l2reg_is_prox (H := F) 1 zero_le_one (some (-y))
  simpa [zOf, sub_neg_eq_add] using this

/-- fixed point of the dual update on the data block: `u = prox_{σ f*}(u + σ a) ⇔ u = a - y` -/
theorem data_dual_fixed (y u a : F) (σ : ℝ) (hσ : 0 < σ) :
    (PD.l2reg (1 : ℝ) (some (-y))).eval (fun _ v => v) σ (u + σ • a) = u ↔ u = a - y := by
  have := proxfc_data_is_prox y σ hσ (u + σ • a) u
  simp only [PD.eval]
  rw [this, Set.mem_singleton_iff, add_sub_cancel_left, smul_smul, one_div, inv_mul_cancel₀ hσ.ne', one_smul]
  constructor <;> intro h
  · rw [h]; abel
  · rw [h]; abel

/-- Moreau: fixed point of the conjugated prox `Conj(p)`:  `u = prox_{σ g*}(u + σ a) ⇔ u ∈ ∂g(a)` -/
theorem conj_fixed_point (P : PD ℝ H) (user : ℝ → H → H) (dg : H → Set H)
    (hP : IsProxOf (P.eval user) dg) (σ : ℝ) (hσ : 0 < σ) (u a : H) :
    (PD.conj P).eval user σ (u + σ • a) = u ↔ u ∈ dg a := by
  simp only [PD.eval]
  have h1 : u + σ • a - σ • P.eval user (1 / σ) ((1 / σ) • (u + σ • a)) = u ↔
      P.eval user (1 / σ) ((1 / σ) • (u + σ • a)) = a := by
    rw [add_sub_assoc, add_eq_left, sub_eq_zero]
    rw [eq_comm]
    exact smul_right_injective H hσ.ne' |>.eq_iff
  rw [h1, hP (1 / σ) (by positivity)]
  have : (1 / (1 / σ)) • ((1 / σ) • (u + σ • a) - a) = u := by
    rw [one_div_one_div, smul_sub, smul_smul, mul_one_div_cancel hσ.ne', one_smul]; abel
  rw [this]

/-! ## 4. KKT points of the documented objective -/

/-- KKT point of `½‖A x - y‖² + g(G x) + λ/2‖x - z‖²` with multiplier `w ∈ ∂g(G x)` -/
def IsKKT (A : E →ₗ[ℝ] F) (AH : F →ₗ[ℝ] E) (G : E →ₗ[ℝ] H) (GH : H →ₗ[ℝ] E) (dg : H → Set H)
    (y : F) (lam : ℝ) (z : E) (x : E) (w : H) : Prop :=
  w ∈ dg (G x) ∧ grad A AH y lam z x + GH w = 0

/-- the documented objective -/
noncomputable def Obj (A : E →ₗ[ℝ] F) (G : E →ₗ[ℝ] H) (g : H → ℝ) (y : F) (lam : ℝ) (z : E) (x : E) : ℝ :=
  1 / 2 * ‖A x - y‖ ^ 2 + g (G x) + lam / 2 * ‖x - z‖ ^ 2

/-- a KKT point whose multiplier is a subgradient of `g` is a global minimiser of the documented objective
    (`λ ≥ 0`) -/
theorem kkt_is_minimiser (A : E →ₗ[ℝ] F) (AH : F →ₗ[ℝ] E) (hA : IsAdj A AH) (G : E →ₗ[ℝ] H) (GH : H →ₗ[ℝ] E)
    (hG : IsAdj G GH) (g : H → ℝ) (dg : H → Set H)
    (hsub : ∀ p w, w ∈ dg p → ∀ q, g p + ⟪w, q - p⟫ ≤ g q)
    (y : F) (lam : ℝ) (hl : 0 ≤ lam) (z x : E) (w : H) (hk : IsKKT A AH G GH dg y lam z x w) (x' : E) :
    Obj A G g y lam z x ≤ Obj A G g y lam z x' := by
  obtain ⟨hw, hst⟩ := hk
  have h1 := obj_expand A AH hA y lam z x (x' - x)
  rw [add_sub_cancel] at h1
  have h2 := hsub (G x) w hw (G x')
  have h3 : ⟪w, G x' - G x⟫ = ⟪GH w, x' - x⟫ := by
    rw [← map_sub, real_inner_comm, hG, real_inner_comm]
  have h4 : ⟪grad A AH y lam z x, x' - x⟫ + ⟪GH w, x' - x⟫ = 0 := by
    rw [← inner_add_left, hst, inner_zero_left]
  have h5 : 0 ≤ 1 / 2 * ‖A (x' - x)‖ ^ 2 := by positivity
  have h6 : 0 ≤ lam / 2 * ‖x' - x‖ ^ 2 := by positivity
  have e : ∀ t, Obj A G g y lam z t = smooth A y lam z t + g (G t) := by intro t; unfold Obj smooth; ring
  rw [e, e, h1]
  linarith

/-! ## 5. PrimalDualHybridGradient set-up (GENERATED `pdhgArgsNoG` / `pdhgArgsG`): fixed points = KKT points -/

/-- what `_get_PrimalDualHybridGradient` hands over without `G`: the dual prox of the data term, `A`, `A.H`,
    `gamma_primal = λ` (when positive), `gamma_dual = 1` -/
theorem pdhgArgs_parts_noG (A : E →ₗ[ℝ] F) (AH : F →ₗ[ℝ] E) (y : F) (lam : ℝ) (z : Option E) (hasProxg : Bool)
    (tau sigma : Option ℝ) (me : ℝ) :
    let su := pdhgArgsNoG A AH y lam z hasProxg tau sigma me
    su.proxfc = .l2reg 1 (some (-y)) ∧ (∀ x, su.K x = A x) ∧ (∀ u, su.KH u = AH u) ∧
      su.gammaP = (if 0 < lam then lam else 0) ∧ su.gammaD = 1 := by
  refine ⟨?_, fun _ => ?_, fun _ => ?_, ?_, ?_⟩ <;> simp only [pdhgArgsNoG]

/-- with `G`: `Stack([L2Reg(1, -y), Conj(proxg or NoOp)])`, `Vstack([A, G])` and its adjoint, `gamma_dual = 0` -/
theorem pdhgArgs_parts_G (A : E →ₗ[ℝ] F) (AH : F →ₗ[ℝ] E) (G : E →ₗ[ℝ] H) (GH : H →ₗ[ℝ] E) (y : F) (lam : ℝ)
    (z : Option E) (hasProxg : Bool) (tau sigma : Option ℝ) (me : ℝ) :
    let su := pdhgArgsG A AH G GH y lam z hasProxg tau sigma me
    su.proxfc = { p1 := .l2reg 1 (some (-y)), p2 := .conj (userTree hasProxg) } ∧ (∀ x, su.K x = ⟨A x, G x⟩) ∧
      (∀ u, su.KH u = AH u.fst + GH u.snd) ∧ su.gammaP = (if 0 < lam then lam else 0) ∧ su.gammaD = 0 := by
  refine ⟨?_, fun _ => ?_, fun _ => ?_, ?_, ?_⟩
  · cases hasProxg <;> simp [pdhgArgsG, userTree]
  · simp only [pdhgArgsG, opVstack]
  · simp only [pdhgArgsG, opHstack]; first | done | module
  · simp only [pdhgArgsG]
  · simp only [pdhgArgsG]

/-- the step sizes handed to the solver: `tau = 1/max_eig` when not given (then `sigma` defaults to 1);
    `sigma = 1/max_eig` when only `tau` is given; the caller's values otherwise — with or without `G` -/
theorem pdhgArgs_steps (A : E →ₗ[ℝ] F) (AH : F →ₗ[ℝ] E) (G : E →ₗ[ℝ] H) (GH : H →ₗ[ℝ] E) (y : F) (lam : ℝ)
    (z : Option E) (hasProxg : Bool) (tau sigma : Option ℝ) (me : ℝ) :
    let su := pdhgArgsNoG A AH y lam z hasProxg tau sigma me
    let sg := pdhgArgsG A AH G GH y lam z hasProxg tau sigma me
    (su.tau, su.sigma) = (sg.tau, sg.sigma) ∧
    (su.tau, su.sigma) = (match tau, sigma with
      | none, none => (1 / me, 1)
      | none, some s => (1 / me, s)
      | some t, none => (t, 1 / me)
      | some t, some s => (t, s)) := by
  cases tau <;> cases sigma <;> exact ⟨rfl, rfl⟩

/-- the primal prox of the set-up without `G`, for every `(lamda, proxg)` case: `L2Reg` followed by the
    caller's prox with the rescaled step -/
theorem primal_eval_noG (A : E →ₗ[ℝ] F) (AH : F →ₗ[ℝ] E) (y : F) (lam : ℝ) (hl : 0 ≤ lam) (z : Option E)
    (hasProxg : Bool) (tau sigma : Option ℝ) (me : ℝ) (user : ℝ → E → E) (a : ℝ) (v : E) :
    (pdhgArgsNoG A AH y lam z hasProxg tau sigma me).proxg.eval user a v =
      (userTree hasProxg).eval user (a / (1 + lam * a)) (l2regOut lam z a v) := by
  simp only [pdhgArgsNoG]
  by_cases h : 0 < lam
  · cases hasProxg <;> simp [h, PD.eval, userTree]
  · have h0 : lam = 0 := le_antisymm (not_lt.mp h) hl
    subst h0
    cases hasProxg <;> cases z <;> simp [PD.eval, userTree, l2regOut]

theorem primal_eval_G (A : E →ₗ[ℝ] F) (AH : F →ₗ[ℝ] E) (G : E →ₗ[ℝ] H) (GH : H →ₗ[ℝ] E) (y : F) (lam : ℝ)
    (hl : 0 ≤ lam) (z : Option E) (hasProxg : Bool) (tau sigma : Option ℝ) (me : ℝ)
    (user : ℝ → E → E) (a : ℝ) (v : E) :
    (pdhgArgsG A AH G GH y lam z hasProxg tau sigma me).proxg.eval user a v = l2regOut lam z a v := by
  simp only [pdhgArgsG]
  by_cases h : 0 < lam
  · simp [h, PD.eval]
  · have h0 : lam = 0 := le_antisymm (not_lt.mp h) hl
    subst h0
    cases z <;> simp [PD.eval, l2regOut]

theorem scale_help (τ c : ℝ) (hτ : τ ≠ 0) (hc : c ≠ 0) (m x : E) :
    (1 / (τ / c)) • ((1 / c) • m - x) = (1 / τ) • (m - c • x) := by
  have e2 : 1 / (τ / c) = (1 / τ) * c := by field_simp
  rw [e2, mul_smul, smul_sub c, smul_smul c, mul_one_div_cancel hc, one_smul]

/-- fixed point of the primal update without `G`: `x = prox(x - τ q) ⇔ -(q + λ(x - z)) ∈ ∂g(x)` -/
theorem primal_fixed_noG (A : E →ₗ[ℝ] F) (AH : F →ₗ[ℝ] E) (y : F) (lam : ℝ) (hl : 0 ≤ lam) (z : Option E)
    (hasProxg : Bool) (tau sigma : Option ℝ) (me : ℝ)
    (user : ℝ → E → E) (dg : E → Set E) (hu : hasProxg = true → IsProxOf user dg)
    (τ : ℝ) (hτ : 0 < τ) (x q : E) :
    (pdhgArgsNoG A AH y lam z hasProxg tau sigma me).proxg.eval user τ (x - τ • q) = x ↔
      -(q + lam • (x - zOf z)) ∈ effDg hasProxg dg x := by
  rw [primal_eval_noG A AH y lam hl]
  have hc : 0 < 1 + lam * τ := by positivity
  rw [userTree_isProx hasProxg user dg hu (τ / (1 + lam * τ)) (by positivity)]
  have key : (1 / (τ / (1 + lam * τ))) • (l2regOut lam z τ (x - τ • q) - x) = -(q + lam • (x - zOf z)) := by
    cases z with
    | none =>
      simp only [l2regOut, zOf, Option.getD_none, sub_zero]
      rw [scale_help τ (1 + lam * τ) hτ.ne' hc.ne', one_div, inv_smul_eq_iff₀ hτ.ne']
      module
    | some z =>
      simp only [l2regOut, zOf, Option.getD_some]
      rw [scale_help τ (1 + lam * τ) hτ.ne' hc.ne', one_div, inv_smul_eq_iff₀ hτ.ne']
      module
  rw [key]

/-- fixed point of the primal update with `G` (`L2Reg(x.shape, lamda, y=z)` or `NoOp`) -/
theorem primal_fixed_G (A : E →ₗ[ℝ] F) (AH : F →ₗ[ℝ] E) (G : E →ₗ[ℝ] H) (GH : H →ₗ[ℝ] E) (y : F) (lam : ℝ)
    (hl : 0 ≤ lam) (z : Option E) (hasProxg : Bool) (tau sigma : Option ℝ) (me : ℝ)
    (user : ℝ → E → E) (τ : ℝ) (hτ : 0 < τ) (x q : E) :
    (pdhgArgsG A AH G GH y lam z hasProxg tau sigma me).proxg.eval user τ (x - τ • q) = x ↔
      q + lam • (x - zOf z) = 0 := by
  rw [primal_eval_G A AH G GH y lam hl, l2reg_is_prox lam hl z τ hτ, Set.mem_singleton_iff, sub_sub_cancel_left,
    smul_neg, smul_smul, one_div, inv_mul_cancel₀ hτ.ne', one_smul, neg_eq_iff_add_eq_zero]

/-- **PDHG without `G`.**  `(x, u)` is a fixed point of the primal–dual update with the prox objects and the
    operators `K`, `KH` built by `_get_PrimalDualHybridGradient` (any `τ, σ > 0`; `λ ≥ 0`; `proxg` given or not;
    `z` given or not; whatever `tau`, `sigma` options) iff `u = A x - y` and `x` is a KKT point of the documented
    objective `½‖Ax-y‖² + g(x) + λ/2‖x-z‖²`. -/
theorem pdhg_fixed_point_kkt_noG (A : E →ₗ[ℝ] F) (AH : F →ₗ[ℝ] E) (y : F) (lam : ℝ) (hl : 0 ≤ lam)
    (z : Option E) (hasProxg : Bool) (tau sigma : Option ℝ) (me : ℝ) (user : ℝ → E → E) (dg : E → Set E)
    (hu : hasProxg = true → IsProxOf user dg) (τ σ : ℝ) (hτ : 0 < τ) (hσ : 0 < σ) (x : E) (u : F) :
    let su := pdhgArgsNoG A AH y lam z hasProxg tau sigma me
    (su.proxfc.eval (fun _ v => v) σ (u + σ • su.K x) = u ∧ su.proxg.eval user τ (x - τ • su.KH u) = x) ↔
    (u = A x - y ∧ ∃ w, IsKKT A AH LinearMap.id LinearMap.id (effDg hasProxg dg) y lam (zOf z) x w) := by
  intro su
  obtain ⟨h1, hK, hKH, -, -⟩ := pdhgArgs_parts_noG A AH y lam z hasProxg tau sigma me
  rw [h1, hK, hKH, data_dual_fixed y u (A x) σ hσ, primal_fixed_noG A AH y lam hl z hasProxg tau sigma me user dg hu τ hτ]
  constructor
  · rintro ⟨hu1, hw⟩
    refine ⟨hu1, -(AH u + lam • (x - zOf z)), ?_, ?_⟩
    · simpa using hw
    · rw [hu1]; simp [grad]
  · rintro ⟨hu1, w, hw, hst⟩
    refine ⟨hu1, ?_⟩
    have : w = -(AH u + lam • (x - zOf z)) := by
      rw [hu1]; simp only [grad, LinearMap.id_coe, id_eq] at hst; exact eq_neg_of_add_eq_zero_right hst
    rw [← this]; simpa using hw

/-- **PDHG with `G`.**  `(x, u)` with `u = (u₁, u₂)` is a fixed point of the update built with `Vstack([A, G])`,
    `Stack([L2Reg(1, -y), Conj(proxg)])` and the primal `L2Reg(λ, z)`/`NoOp` iff `u₁ = A x - y` and `x` is a
    KKT point of `½‖Ax-y‖² + g(Gx) + λ/2‖x-z‖²` with multiplier `u₂ ∈ ∂g(G x)`.
    (At the pinned commit `λ/2‖·-z‖²` sat inside the conjugated prox of the `G` block: this theorem failed.) -/
theorem pdhg_fixed_point_kkt_G (A : E →ₗ[ℝ] F) (AH : F →ₗ[ℝ] E) (G : E →ₗ[ℝ] H) (GH : H →ₗ[ℝ] E)
    (y : F) (lam : ℝ) (hl : 0 ≤ lam) (z : Option E) (hasProxg : Bool) (tau sigma : Option ℝ) (me : ℝ)
    (user : ℝ → H → H) (userE : ℝ → E → E)
    (dg : H → Set H) (hu : hasProxg = true → IsProxOf user dg) (τ σ : ℝ) (hτ : 0 < τ) (hσ : 0 < σ)
    (x : E) (u : Pair F H) :
    let su := pdhgArgsG A AH G GH y lam z hasProxg tau sigma me
    (su.proxfc.eval (fun _ v => v) user σ (u + σ • su.K x) = u ∧ su.proxg.eval userE τ (x - τ • su.KH u) = x) ↔
    (u.fst = A x - y ∧ IsKKT A AH G GH (effDg hasProxg dg) y lam (zOf z) x u.snd) := by
  intro su
  obtain ⟨h1, hK, hKH, -, -⟩ := pdhgArgs_parts_G A AH G GH y lam z hasProxg tau sigma me
  obtain ⟨u1, u2⟩ := u
  rw [h1, hK, hKH, primal_fixed_G A AH G GH y lam hl z hasProxg tau sigma me userE τ hτ]
  simp only [PStack.eval, Pair.add_def, Pair.smul_def, Pair.mk.injEq]
  rw [data_dual_fixed y u1 (A x) σ hσ,
    conj_fixed_point (userTree hasProxg) user (effDg hasProxg dg) (userTree_isProx hasProxg user dg hu) σ hσ]
  unfold IsKKT grad
  constructor
  · rintro ⟨⟨hu1, hw⟩, hst⟩
    refine ⟨hu1, hw, ?_⟩
    rw [← hu1, ← hst]; abel
  · rintro ⟨hu1, hw, hst⟩
    refine ⟨⟨hu1, hw⟩, ?_⟩
    rw [← hst, ← hu1]; abel

/-! ## 6. ADMM set-up (GENERATED `admmArgsNoG` / `admmArgsG`): fixed points = KKT points -/

/-- what `minL_v` computes: `v = G x + u; if proxg is not None: v = proxg(1 / rho, v)` (specification) -/
noncomputable def admmV (proxg : Option (ℝ → H → H)) (ρ : ℝ) (Gx u : H) : H :=
  match proxg with
  | none => Gx + u
  | some p => p (1 / ρ) (Gx + u)

theorem admmV_fixed (proxg : Option (ℝ → H → H)) (dg : H → Set H)
    (hp : ∀ p, proxg = some p → IsProxOf p dg) (ρ : ℝ) (hρ : 0 < ρ) (a u : H) :
    admmV proxg ρ a u = a ↔ ρ • u ∈ effDg proxg.isSome dg a := by
  cases proxg with
  | none => simp [admmV, effDg, hρ.ne']
  | some p =>
    simp only [admmV, effDg, Option.isSome_some, if_true]
    rw [hp p rfl (1 / ρ) (by positivity), add_sub_cancel_left, one_div_one_div]

/-- bridging, no `G`: the closures and constructor arguments `_get_ADMM` builds.  `minL_x` solves
    `(AᴴA + (λ+ρ)I) x = Aᴴy + ρ(v-u) + λz`; `minL_v` is `prox_{g/ρ}(x + u)`; `v` starts as a copy of `x`; the
    constraint handed to `ADMM` is `I x + (-I) v = 0` -/
theorem admmArgs_noG (A : E →ₗ[ℝ] F) (AH : F →ₗ[ℝ] E) (y : F) (lam : ℝ) (z : Option E) (ρ : ℝ)
    (proxg : Option (ℝ → E → E)) (x v u h : E) :
    let a := admmArgsNoG A AH y lam z ρ proxg
    (a.minLx x v u).sys h = AH (A h) + (lam + ρ) • h ∧
    (a.minLx x v u).rhs = AH y + ρ • (v - u) + lam • zOf z ∧
    a.minLv x v u = admmV proxg ρ x u ∧ a.v0 x = x ∧ a.A x = x ∧ a.B v = -v ∧ a.c = 0 := by
  refine ⟨?_, ?_, ?_, ?_, ?_, ?_, ?_⟩
  · simp only [admmArgsNoG, opAdd, opN, opSmul, opId]; first | done | module
  · cases z <;> simp only [admmArgsNoG, zOf, Option.getD_none, Option.getD_some, smul_zero, add_zero] <;>
      first | done | module
  · cases proxg <;> simp only [admmArgsNoG, admmV] <;> first | done | (congr 1; module)
  · simp only [admmArgsNoG]
  · simp only [admmArgsNoG, opId]
  · simp only [admmArgsNoG, opNeg, opId]
  · simp only [admmArgsNoG]

/-- bridging, with `G`: `minL_x` solves `(AᴴA + λI + ρGᴴG) x = Aᴴy + ρGᴴ(v-u) + λz` (the source adds `λI` only
    for `λ > 0`); `minL_v` is `prox_{g/ρ}(G x + u)`; `v` starts as `G x`; the constraint is `G x + (-I) v = 0` -/
theorem admmArgs_G (A : E →ₗ[ℝ] F) (AH : F →ₗ[ℝ] E) (G : E →ₗ[ℝ] H) (GH : H →ₗ[ℝ] E) (y : F) (lam : ℝ)
    (hl : 0 ≤ lam) (z : Option E) (ρ : ℝ) (proxg : Option (ℝ → H → H)) (x h : E) (v u : H) :
    let a := admmArgsG A AH G GH y lam z ρ proxg
    (a.minLx x v u).sys h = AH (A h) + lam • h + ρ • GH (G h) ∧
    (a.minLx x v u).rhs = AH y + ρ • GH (v - u) + lam • zOf z ∧
    a.minLv x v u = admmV proxg ρ (G x) u ∧ a.v0 x = G x ∧ a.A x = G x ∧ a.B v = -v ∧ a.c = 0 := by
  refine ⟨?_, ?_, ?_, ?_, ?_, ?_, ?_⟩
  · by_cases hpos : 0 < lam
    · simp only [admmArgsG, hpos, if_true, opAdd, opN, opSmul, opId, opComp]; first | done | module
    · obtain rfl : lam = 0 := le_antisymm (not_lt.mp hpos) hl
      simp only [admmArgsG, lt_irrefl, if_false, opAdd, opN, opSmul, opId, opComp]; first | done | module
  · cases z <;> simp only [admmArgsG, zOf, Option.getD_none, Option.getD_some, smul_zero, add_zero] <;>
      first | done | module
  · cases proxg <;> simp only [admmArgsG, admmV] <;> first | done | (congr 1; module)
  · simp only [admmArgsG]
  · simp only [admmArgsG]
  · simp only [admmArgsG, opNeg, opId]
  · simp only [admmArgsG]

/-- **ADMM without `G`** (`v`-space = `x`-space, constraint `x - v = 0`).  `(x, v, u)` is left fixed by the three
    updates of the GENERATED `_get_ADMM` set-up — `x` solves the `minL_x` system, `v = minL_v`, `u += A x + B v`
    (`c = 0`, see `admmArgs_noG`) — iff `v = x` and `x` is a KKT point of the documented objective with
    multiplier `ρ u`. -/
theorem admm_fixed_point_kkt_noG (A : E →ₗ[ℝ] F) (AH : F →ₗ[ℝ] E) (y : F) (lam : ℝ) (z : Option E)
    (proxg : Option (ℝ → E → E)) (dg : E → Set E) (hp : ∀ p, proxg = some p → IsProxOf p dg)
    (ρ : ℝ) (hρ : 0 < ρ) (x v u : E) :
    let a := admmArgsNoG A AH y lam z ρ proxg
    ((a.minLx x v u).sys x = (a.minLx x v u).rhs ∧ a.minLv x v u = v ∧ u + (a.A x + a.B v) = u) ↔
    (v = x ∧ IsKKT A AH LinearMap.id LinearMap.id (effDg proxg.isSome dg) y lam (zOf z) x (ρ • u)) := by
  intro a
  obtain ⟨e1, e2, e3, -, e5, e6, -⟩ := admmArgs_noG A AH y lam z ρ proxg x v u x
  rw [e1, e2, e3, e5, e6]
  have hU : u + (x + -v) = u ↔ v = x := by
    rw [add_eq_left, ← sub_eq_add_neg, sub_eq_zero, eq_comm]
  have hS : AH (A x) + (lam + ρ) • x = AH y + ρ • (x - u) + lam • zOf z ↔
      grad A AH y lam (zOf z) x + ρ • u = 0 := by
    rw [← sub_eq_zero]
    have : AH (A x) + (lam + ρ) • x - (AH y + ρ • (x - u) + lam • zOf z) =
        grad A AH y lam (zOf z) x + ρ • u := by simp only [grad, map_sub]; module
    rw [this]
  unfold IsKKT
  simp only [LinearMap.id_coe, id_eq]
  constructor
  · rintro ⟨h1, h2, h3⟩
    obtain rfl := hU.mp h3
    exact ⟨rfl, (admmV_fixed proxg dg hp ρ hρ v u).mp h2, hS.mp h1⟩
  · rintro ⟨rfl, hw, hst⟩
    exact ⟨hS.mpr hst, (admmV_fixed proxg dg hp ρ hρ v u).mpr hw, hU.mpr rfl⟩

/-- **ADMM with `G`** (constraint `G x - v = 0`).  Fixed points of the GENERATED `minL_x` (system
    `(AᴴA (+ λI) + ρGᴴG) x = Aᴴy + ρGᴴ(v-u) (+ λz)`), `minL_v` (`v = prox_{g/ρ}(G x + u)`) and `u += A x + B v`
    are exactly: `v = G x` and `x` a KKT point of `½‖Ax-y‖² + g(Gx) + λ/2‖x-z‖²` with multiplier `ρ u`. -/
theorem admm_fixed_point_kkt_G (A : E →ₗ[ℝ] F) (AH : F →ₗ[ℝ] E) (G : E →ₗ[ℝ] H) (GH : H →ₗ[ℝ] E)
    (y : F) (lam : ℝ) (hl : 0 ≤ lam) (z : Option E)
    (proxg : Option (ℝ → H → H)) (dg : H → Set H) (hp : ∀ p, proxg = some p → IsProxOf p dg)
    (ρ : ℝ) (hρ : 0 < ρ) (x : E) (v u : H) :
    let a := admmArgsG A AH G GH y lam z ρ proxg
    ((a.minLx x v u).sys x = (a.minLx x v u).rhs ∧ a.minLv x v u = v ∧ u + (a.A x + a.B v) = u) ↔
    (v = G x ∧ IsKKT A AH G GH (effDg proxg.isSome dg) y lam (zOf z) x (ρ • u)) := by
  intro a
  obtain ⟨e1, e2, e3, -, e5, e6, -⟩ := admmArgs_G A AH G GH y lam hl z ρ proxg x x v u
  rw [e1, e2, e3, e5, e6]
  have hU : u + (G x + -v) = u ↔ v = G x := by
    rw [add_eq_left, ← sub_eq_add_neg, sub_eq_zero, eq_comm]
  have hS : AH (A x) + lam • x + ρ • GH (G x) = AH y + ρ • GH (G x - u) + lam • zOf z ↔
      grad A AH y lam (zOf z) x + GH (ρ • u) = 0 := by
    rw [← sub_eq_zero]
    have : AH (A x) + lam • x + ρ • GH (G x) - (AH y + ρ • GH (G x - u) + lam • zOf z) =
        grad A AH y lam (zOf z) x + GH (ρ • u) := by simp only [grad, map_sub, map_smul]; module
    rw [this]
  unfold IsKKT
  constructor
  · rintro ⟨h1, h2, h3⟩
    obtain rfl := hU.mp h3
    exact ⟨rfl, (admmV_fixed proxg dg hp ρ hρ (G x) u).mp h2, hS.mp h1⟩
  · rintro ⟨rfl, hw, hst⟩
    exact ⟨hS.mpr hst, (admmV_fixed proxg dg hp ρ hρ (G x) u).mpr hw, hU.mpr rfl⟩

/-! ## 7. `default_steps`: the step sizes the set-ups choose satisfy the step conditions of the solvers' theorems

  `max_eig` is the number `MaxEig(op).run()` returned for the operator `op` the GENERATED set-up hands to it.
  The hypothesis `hR` says that `max_eig` bounds the Rayleigh quotient of that operator (`⟨h, op h⟩ ≤ max_eig ‖h‖²`),
  which holds when `max_eig = λmax(op)` exactly.  NOT modelled: the power method returns an UNDER-estimate of
  `λmax` after finitely many iterations (then `alpha` may exceed `1/L` slightly) — that stays with the search. -/

/-- `⟨h, (AᴴA + λI) h⟩ = ‖A h‖² + λ‖h‖²` -/
theorem hessian_quad (A : E →ₗ[ℝ] F) (AH : F →ₗ[ℝ] E) (hA : IsAdj A AH) (lam : ℝ) (h : E) :
    ⟪h, AH (A h) + lam • h⟫ = ‖A h‖ ^ 2 + lam * ‖h‖ ^ 2 := by
  rw [inner_add_right, ← hA, inner_smul_right, real_inner_self_eq_norm_sq, real_inner_self_eq_norm_sq]

/-- the smooth part lies above its tangent planes for `λ ≥ 0` (`ConvexGrad` of C13's ista/fista theorems, with
    the GENERATED `gradf`) -/
theorem gm_convex_grad (A : E →ₗ[ℝ] F) (AH : F →ₗ[ℝ] E) (hA : IsAdj A AH) (y : F) (lam : ℝ) (hl : 0 ≤ lam)
    (z : Option E) (alpha : Option ℝ) (me : ℝ) (x w : E) :
    smooth A y lam (zOf z) x + ⟪(gmArgs A AH y lam z alpha me).gradf x, w - x⟫ ≤ smooth A y lam (zOf z) w := by
  have h1 := obj_expand A AH hA y lam (zOf z) x (w - x)
  rw [add_sub_cancel] at h1
  rw [gm_gradient, h1]
  have h5 : 0 ≤ 1 / 2 * ‖A (w - x)‖ ^ 2 := by positivity
  have h6 : 0 ≤ lam / 2 * ‖w - x‖ ^ 2 := by positivity
  linarith

/-- **default step of GradientMethod.**  With `alpha=None` the set-up runs `MaxEig` on the Hessian `AᴴA + λI` and
    takes `alpha = 1/max_eig` (`1` if `max_eig == 0`).  If `max_eig` bounds the Rayleigh quotient of the operator
    that was handed to `MaxEig` (exact `λmax`), then `L := max_eig` and `alpha` satisfy exactly the hypotheses of
    C13's `ista_rate` / `fista_rate`: `0 < alpha`, `alpha * L ≤ 1`, and the descent lemma
    `f(p) ≤ f(x) + ⟨gradf x, p - x⟩ + L/2 ‖p - x‖²` for the smooth part `f` with the generated `gradf`. -/
theorem default_steps_gm (A : E →ₗ[ℝ] F) (AH : F →ₗ[ℝ] E) (hA : IsAdj A AH) (y : F) (lam : ℝ) (z : Option E)
    (me : ℝ) (hme : 0 ≤ me)
    (hR : ∀ f, (gmArgs A AH y lam z none me).eig = .primal f → ∀ h, ⟪h, f h⟫ ≤ me * ‖h‖ ^ 2) :
    let a := gmArgs A AH y lam z none me
    0 < a.alpha ∧ a.alpha * me ≤ 1 ∧
    ∀ x p, smooth A y lam (zOf z) p ≤ smooth A y lam (zOf z) x + ⟪a.gradf x, p - x⟫ + me / 2 * ‖p - x‖ ^ 2 := by
  intro a
  obtain ⟨⟨f, hf, hf'⟩, -⟩ := gmArgs_eig A AH y lam z me
  have hal : a.alpha = if me = 0 then 1 else 1 / me := (gmArgs_alpha A AH y lam z me).1
  refine ⟨?_, ?_, fun x p => ?_⟩
  · rw [hal]; split_ifs with h0
    · exact one_pos
    · exact one_div_pos.mpr (lt_of_le_of_ne hme (Ne.symm h0))
  · rw [hal]; split_ifs with h0
    · rw [h0]; norm_num
    · rw [one_div, inv_mul_cancel₀ h0]
  · have h1 := obj_expand A AH hA y lam (zOf z) x (p - x)
    rw [add_sub_cancel] at h1
    have h2 := hR f hf (p - x)
    rw [hf', hessian_quad A AH hA] at h2
    rw [gm_gradient, h1]
    linarith

/-- the operator `_get_PrimalDualHybridGradient` hands to `MaxEig`, without `G`: `Aᴴ S A` with `S = sigma` (1 when
    not given) when `tau` is not given; `A T Aᴴ` when only `tau` is given; none when both are given -/
theorem pdhgArgs_eig_noG (A : E →ₗ[ℝ] F) (AH : F →ₗ[ℝ] E) (y : F) (lam : ℝ) (z : Option E) (hasProxg : Bool)
    (me : ℝ) :
    (∀ sigma, ∃ f, (pdhgArgsNoG A AH y lam z hasProxg none sigma me).eig = .primal f ∧
      ∀ x, f x = AH (sigma.getD 1 • A x)) ∧
    (∀ t, ∃ f, (pdhgArgsNoG A AH y lam z hasProxg (some t) none me).eig = .dual f ∧ ∀ u, f u = A (t • AH u)) ∧
    (∀ t s, (pdhgArgsNoG A AH y lam z hasProxg (some t) (some s) me).eig = .none) := by
  refine ⟨fun sigma => ⟨_, rfl, fun x => ?_⟩, fun t => ⟨_, rfl, fun u => ?_⟩, fun t s => rfl⟩
  · cases sigma <;> simp only [opComp, opMul, Option.getD_none, Option.getD_some]
  · simp only [opComp, opMul]

/-- the same with `G`: `Kᴴ S K = Aᴴ S A + Gᴴ S G` on the primal side, `K T Kᴴ` (blockwise) on the dual side -/
theorem pdhgArgs_eig_G (A : E →ₗ[ℝ] F) (AH : F →ₗ[ℝ] E) (G : E →ₗ[ℝ] H) (GH : H →ₗ[ℝ] E) (y : F) (lam : ℝ)
    (z : Option E) (hasProxg : Bool) (me : ℝ) :
    (∀ sigma, ∃ f, (pdhgArgsG A AH G GH y lam z hasProxg none sigma me).eig = .primal f ∧
      ∀ x, f x = AH (sigma.getD 1 • A x) + GH (sigma.getD 1 • G x)) ∧
    (∀ t, ∃ f, (pdhgArgsG A AH G GH y lam z hasProxg (some t) none me).eig = .dual f ∧
      ∀ u, f u = ⟨A (t • (AH u.fst + GH u.snd)), G (t • (AH u.fst + GH u.snd))⟩) ∧
    (∀ t s, (pdhgArgsG A AH G GH y lam z hasProxg (some t) (some s) me).eig = .none) := by
  refine ⟨fun sigma => ⟨_, rfl, fun x => ?_⟩, fun t => ⟨_, rfl, fun u => ?_⟩, fun t s => rfl⟩
  · cases sigma <;> simp only [opComp, opMul, opVstack, opHstack, Pair.smul_def, Option.getD_none, Option.getD_some]
  · simp only [opComp, opMul, opVstack, opHstack]

/-- **default `tau` of PDHG, without `G`.**  With `tau=None` the set-up takes `tau = 1/max_eig` of `Aᴴ S A` and
    `sigma` (1 when not given).  If `max_eig` bounds the Rayleigh quotient of the operator that was handed to
    `MaxEig`, the step condition `τ σ ‖K x‖² ≤ ‖x‖²` (`τσ‖K‖² ≤ 1`) of the PDHG convergence theorems holds for the
    `K` handed to the solver. -/
theorem default_steps_pdhg_primal_noG (A : E →ₗ[ℝ] F) (AH : F →ₗ[ℝ] E) (hA : IsAdj A AH) (y : F) (lam : ℝ)
    (z : Option E) (hasProxg : Bool) (sigma : Option ℝ) (hσ : ∀ s, sigma = some s → 0 < s) (me : ℝ) (hme : 0 < me)
    (hR : ∀ f, (pdhgArgsNoG A AH y lam z hasProxg none sigma me).eig = .primal f → ∀ x, ⟪x, f x⟫ ≤ me * ‖x‖ ^ 2) :
    let su := pdhgArgsNoG A AH y lam z hasProxg none sigma me
    0 < su.tau ∧ 0 < su.sigma ∧ ∀ x, su.tau * su.sigma * ‖su.K x‖ ^ 2 ≤ ‖x‖ ^ 2 := by
  intro su
  obtain ⟨f, hf, hf'⟩ := (pdhgArgs_eig_noG A AH y lam z hasProxg me).1 sigma
  obtain ⟨-, hK, -, -, -⟩ := pdhgArgs_parts_noG A AH y lam z hasProxg none sigma me
  have hst := (pdhgArgs_steps A AH (0 : E →ₗ[ℝ] E) 0 y lam z hasProxg none sigma me).2
  have hts : su.tau = 1 / me ∧ su.sigma = sigma.getD 1 := by
    cases sigma <;> simpa [Prod.ext_iff] using hst
  have hs : 0 < sigma.getD 1 := by
    cases sigma with
    | none => exact one_pos
    | some s => exact hσ s rfl
  refine ⟨by rw [hts.1]; positivity, by rw [hts.2]; exact hs, fun x => ?_⟩
  have h2 := hR f hf x
  rw [hf', ← hA, inner_smul_right, real_inner_self_eq_norm_sq] at h2
  rw [hK, hts.1, hts.2, one_div, mul_assoc, inv_mul_le_iff₀ hme]
  exact h2

/-- **default `tau` of PDHG, with `G`**: `τ σ (‖A x‖² + ‖G x‖²) ≤ ‖x‖²` for `K = Vstack([A, G])`. -/
theorem default_steps_pdhg_primal_G (A : E →ₗ[ℝ] F) (AH : F →ₗ[ℝ] E) (hA : IsAdj A AH) (G : E →ₗ[ℝ] H)
    (GH : H →ₗ[ℝ] E) (hG : IsAdj G GH) (y : F) (lam : ℝ) (z : Option E) (hasProxg : Bool) (sigma : Option ℝ)
    (hσ : ∀ s, sigma = some s → 0 < s) (me : ℝ) (hme : 0 < me)
    (hR : ∀ f, (pdhgArgsG A AH G GH y lam z hasProxg none sigma me).eig = .primal f →
      ∀ x, ⟪x, f x⟫ ≤ me * ‖x‖ ^ 2) :
    let su := pdhgArgsG A AH G GH y lam z hasProxg none sigma me
    0 < su.tau ∧ 0 < su.sigma ∧
      ∀ x, su.tau * su.sigma * (‖(su.K x).fst‖ ^ 2 + ‖(su.K x).snd‖ ^ 2) ≤ ‖x‖ ^ 2 := by
  intro su
  obtain ⟨f, hf, hf'⟩ := (pdhgArgs_eig_G A AH G GH y lam z hasProxg me).1 sigma
  obtain ⟨-, hK, -, -, -⟩ := pdhgArgs_parts_G A AH G GH y lam z hasProxg none sigma me
  obtain ⟨hst0, hst⟩ := pdhgArgs_steps A AH G GH y lam z hasProxg none sigma me
  rw [hst0] at hst
  have hts : su.tau = 1 / me ∧ su.sigma = sigma.getD 1 := by
    cases sigma <;> simpa [Prod.ext_iff] using hst
  have hs : 0 < sigma.getD 1 := by
    cases sigma with
    | none => exact one_pos
    | some s => exact hσ s rfl
  refine ⟨by rw [hts.1]; positivity, by rw [hts.2]; exact hs, fun x => ?_⟩
  have h2 := hR f hf x
  rw [hf', inner_add_right, ← hA, ← hG, inner_smul_right, inner_smul_right, real_inner_self_eq_norm_sq,
    real_inner_self_eq_norm_sq, ← mul_add] at h2
  rw [hK, hts.1, hts.2, one_div, mul_assoc, inv_mul_le_iff₀ hme]
  exact h2

/-- **default `sigma` of PDHG (only `tau` given), without `G`**: `sigma = 1/max_eig` of `A T Aᴴ`; with `max_eig`
    a Rayleigh bound, `τ σ ‖Kᴴ u‖² ≤ ‖u‖²` (the same condition `τσ‖K‖² ≤ 1`, stated on the adjoint). -/
theorem default_steps_pdhg_dual_noG (A : E →ₗ[ℝ] F) (AH : F →ₗ[ℝ] E) (hA : IsAdj A AH) (y : F) (lam : ℝ)
    (z : Option E) (hasProxg : Bool) (t : ℝ) (me : ℝ) (hme : 0 < me)
    (hR : ∀ f, (pdhgArgsNoG A AH y lam z hasProxg (some t) none me).eig = .dual f → ∀ u, ⟪u, f u⟫ ≤ me * ‖u‖ ^ 2) :
    let su := pdhgArgsNoG A AH y lam z hasProxg (some t) none me
    su.tau = t ∧ 0 < su.sigma ∧ ∀ u, su.tau * su.sigma * ‖su.KH u‖ ^ 2 ≤ ‖u‖ ^ 2 := by
  intro su
  obtain ⟨f, hf, hf'⟩ := (pdhgArgs_eig_noG A AH y lam z hasProxg me).2.1 t
  obtain ⟨-, -, hKH, -, -⟩ := pdhgArgs_parts_noG A AH y lam z hasProxg (some t) none me
  have hst := (pdhgArgs_steps A AH (0 : E →ₗ[ℝ] E) 0 y lam z hasProxg (some t) none me).2
  have hts : su.tau = t ∧ su.sigma = 1 / me := by simpa [Prod.ext_iff] using hst
  refine ⟨hts.1, by rw [hts.2]; positivity, fun u => ?_⟩
  have h2 := hR f hf u
  rw [hf', real_inner_comm, hA, inner_smul_left, real_inner_self_eq_norm_sq] at h2
  simp only [RCLike.conj_to_real] at h2
  rw [hKH, hts.1, hts.2, mul_comm t, mul_assoc, one_div, inv_mul_le_iff₀ hme]
  exact h2

/-- **default `sigma` of PDHG (only `tau` given), with `G`**: `τ σ ‖Aᴴu₁ + Gᴴu₂‖² ≤ ‖u₁‖² + ‖u₂‖²`, the Rayleigh
    bound being stated blockwise on the product space. -/
theorem default_steps_pdhg_dual_G (A : E →ₗ[ℝ] F) (AH : F →ₗ[ℝ] E) (hA : IsAdj A AH) (G : E →ₗ[ℝ] H)
    (GH : H →ₗ[ℝ] E) (hG : IsAdj G GH) (y : F) (lam : ℝ) (z : Option E) (hasProxg : Bool) (t : ℝ) (me : ℝ)
    (hme : 0 < me)
    (hR : ∀ f, (pdhgArgsG A AH G GH y lam z hasProxg (some t) none me).eig = .dual f →
      ∀ u : Pair F H, ⟪u.fst, (f u).fst⟫ + ⟪u.snd, (f u).snd⟫ ≤ me * (‖u.fst‖ ^ 2 + ‖u.snd‖ ^ 2)) :
    let su := pdhgArgsG A AH G GH y lam z hasProxg (some t) none me
    su.tau = t ∧ 0 < su.sigma ∧ ∀ u, su.tau * su.sigma * ‖su.KH u‖ ^ 2 ≤ ‖u.fst‖ ^ 2 + ‖u.snd‖ ^ 2 := by
  intro su
  obtain ⟨f, hf, hf'⟩ := (pdhgArgs_eig_G A AH G GH y lam z hasProxg me).2.1 t
  obtain ⟨-, -, hKH, -, -⟩ := pdhgArgs_parts_G A AH G GH y lam z hasProxg (some t) none me
  obtain ⟨hst0, hst⟩ := pdhgArgs_steps A AH G GH y lam z hasProxg (some t) none me
  rw [hst0] at hst
  have hts : su.tau = t ∧ su.sigma = 1 / me := by simpa [Prod.ext_iff] using hst
  refine ⟨hts.1, by rw [hts.2]; positivity, fun u => ?_⟩
  have h2 := hR f hf u
  rw [hf'] at h2
  simp only at h2
  rw [real_inner_comm, hA, real_inner_comm (G _), hG, ← inner_add_right, real_inner_comm, inner_smul_right,
    real_inner_self_eq_norm_sq] at h2
  rw [hKH, hts.1, hts.2, mul_comm t, mul_assoc, one_div, inv_mul_le_iff₀ hme]
  exact h2

/-- **`default_steps`**: the defaults of both first-order set-ups at once (`alpha=None`; `tau=None`, with and
    without `G`) — see `default_steps_gm`, `default_steps_pdhg_primal_noG`, `default_steps_pdhg_primal_G`. -/
theorem default_steps (A : E →ₗ[ℝ] F) (AH : F →ₗ[ℝ] E) (hA : IsAdj A AH) (G : E →ₗ[ℝ] H) (GH : H →ₗ[ℝ] E)
    (hG : IsAdj G GH) (y : F) (lam : ℝ) (z : Option E) (hasProxg : Bool) (sigma : Option ℝ)
    (hσ : ∀ s, sigma = some s → 0 < s) (me : ℝ) (hme : 0 < me) :
    (let a := gmArgs A AH y lam z none me
     (∀ f, a.eig = .primal f → ∀ h, ⟪h, f h⟫ ≤ me * ‖h‖ ^ 2) →
      0 < a.alpha ∧ a.alpha * me ≤ 1 ∧
      ∀ x p, smooth A y lam (zOf z) p ≤ smooth A y lam (zOf z) x + ⟪a.gradf x, p - x⟫ + me / 2 * ‖p - x‖ ^ 2) ∧
    (let su := pdhgArgsNoG A AH y lam z hasProxg none sigma me
     (∀ f, su.eig = .primal f → ∀ x, ⟪x, f x⟫ ≤ me * ‖x‖ ^ 2) →
      0 < su.tau ∧ 0 < su.sigma ∧ ∀ x, su.tau * su.sigma * ‖su.K x‖ ^ 2 ≤ ‖x‖ ^ 2) ∧
    (let su := pdhgArgsG A AH G GH y lam z hasProxg none sigma me
     (∀ f, su.eig = .primal f → ∀ x, ⟪x, f x⟫ ≤ me * ‖x‖ ^ 2) →
      0 < su.tau ∧ 0 < su.sigma ∧
      ∀ x, su.tau * su.sigma * (‖(su.K x).fst‖ ^ 2 + ‖(su.K x).snd‖ ^ 2) ≤ ‖x‖ ^ 2) :=
  ⟨fun hR => default_steps_gm A AH hA y lam z me hme.le hR,
   fun hR => default_steps_pdhg_primal_noG A AH hA y lam z hasProxg sigma hσ me hme hR,
   fun hR => default_steps_pdhg_primal_G A AH hA G GH hG y lam z hasProxg sigma hσ me hme hR⟩

/-- non-vacuity of the Rayleigh hypothesis: `A = I`, `λ = 1`: the Hessian is `2I` and `max_eig = 2` is exact -/
example (y : E) (z : Option E) (f : E → E)
    (hf : (gmArgs (LinearMap.id : E →ₗ[ℝ] E) (LinearMap.id : E →ₗ[ℝ] E) y (1 : ℝ) z none (2 : ℝ)).eig = .primal f) (h : E) :
    ⟪h, f h⟫ ≤ 2 * ‖h‖ ^ 2 := by
  obtain ⟨⟨f', hf1, hf2⟩, -⟩ := gmArgs_eig (LinearMap.id : E →ₗ[ℝ] E) LinearMap.id y 1 z 2
  rw [hf] at hf1
  obtain rfl : f = f' := by injection hf1
  have hid : IsAdj (LinearMap.id : E →ₗ[ℝ] E) LinearMap.id := fun _ _ => rfl
  rw [hf2, hessian_quad _ _ hid]
  simp only [LinearMap.id_coe, id_eq]; linarith

/-! ## 8. the hypotheses are satisfiable (non-vacuity) -/

example : IsAdj (LinearMap.id : E →ₗ[ℝ] E) LinearMap.id := fun _ _ => rfl

/-- `proxg=None` (identity) is the prox of `g = 0` -/
example : IsProxOf (fun (_ : ℝ) (v : H) => v) (fun _ => {0}) := by
  simpa [userTree, effDg, PD.eval] using
    userTree_isProx (H := H) false (fun _ v => v) (fun _ => {0}) (by simp)

/-- sigpy's `L2Reg(shape, c)` is a caller prox satisfying `IsProxOf`, and its relation is a subgradient of
    `g = c/2‖·‖²` as `kkt_is_minimiser` requires -/
example (c : ℝ) (hc : 0 ≤ c) : IsProxOf (l2regOut c (none : Option H)) (fun w => {c • (w - zOf none)}) :=
  l2reg_is_prox c hc none

example (c : ℝ) (hc : 0 ≤ c) (p w : H) (hw : w ∈ ({c • p} : Set H)) (q : H) :
    c / 2 * ‖p‖ ^ 2 + ⟪w, q - p⟫ ≤ c / 2 * ‖q‖ ^ 2 := by
  rw [Set.mem_singleton_iff] at hw
  have h : ‖q‖ ^ 2 = ‖p‖ ^ 2 + 2 * ⟪p, q - p⟫ + ‖q - p‖ ^ 2 := by
    have := norm_add_sq_real p (q - p); rwa [add_sub_cancel] at this
  have h2 : 0 ≤ c / 2 * ‖q - p‖ ^ 2 := by positivity
  rw [hw, inner_smul_left, h]; simp only [RCLike.conj_to_real]; nlinarith

/-- the two pinned-commit regressions as statements about the generated set-up: with `G` the set-up keeps
    `L2Reg(λ, z)` on the primal variable, `gamma_dual = 0`, `gamma_primal = λ` -/
example (A : E →ₗ[ℝ] F) (AH : F →ₗ[ℝ] E) (G : E →ₗ[ℝ] H) (GH : H →ₗ[ℝ] E) (y : F) (lam : ℝ) (hl : 0 < lam)
    (z : Option E) (b : Bool) (t s : Option ℝ) (me : ℝ) :
    (pdhgArgsG A AH G GH y lam z b t s me).proxg = .l2reg lam z ∧
    (pdhgArgsG A AH G GH y lam z b t s me).gammaD = 0 ∧ (pdhgArgsG A AH G GH y lam z b t s me).gammaP = lam := by
  simp [pdhgArgsG, hl]

end SigpyVerif.C14
