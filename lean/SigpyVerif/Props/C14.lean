/-
  C14 — LinearLeastSquares returns the documented minimiser whatever the solver.

  Theorems are about (a) `Gen.C14.getAlg`, the decision function REGENERATED from
  `LinearLeastSquares._get_alg` on every check, and (b) the generic set-up definitions of
  `Model/C14.lean` (the very definitions the driver executes over `Rat`), instantiated at real
  inner-product spaces `E` (unknown), `F` (data), `H` (range of `G`).  `A`, `G` are linear maps with
  adjoints `AH`, `GH` (`IsAdj`); `g` enters through its (sub)gradient relation `dg` and the prox
  characterisation `IsProxOf` (optimality condition of `argmin ½‖w - v‖² + α g(w)`).

  What is proved: the decision table; CG system ⇔ stationarity ⇔ (λ ≥ 0) global minimiser, unique when
  positive definite; `gradf` is the gradient and the step-size operator is the Hessian; the data-term
  conjugate/biconjugate identity and the prox identities of `L2Reg`/`Conj`; fixed points of the PDHG
  and ADMM set-ups are exactly the KKT points of the documented objective, for every routing of
  `lamda`, `z`, `proxg`, `G`; KKT points are global minimisers (convex `g`, λ ≥ 0).
  Not proved here (validated by correspondence + search): convergence of the solver classes to those
  fixed points (C12/C13), complex data, floating point, the power-method estimate of the step sizes.
-/
import SigpyVerif.Model.C14
import SigpyVerif.Gen.C14Select
import Mathlib.Analysis.InnerProductSpace.Basic
import Mathlib.Algebra.QuadraticDiscriminant
import Mathlib.Tactic.Module
import Mathlib.Tactic.Linarith

namespace SigpyVerif.C14
open SigpyVerif.Gen.C14

/-! ## 1. solver selection (`_get_alg`, generated definition `Gen.C14.getAlg`) -/

/-- the four solver names `_get_alg` knows -/
def solverNames : List String :=
  ["ConjugateGradient", "GradientMethod", "PrimalDualHybridGradient", "ADMM"]

/-- `solver=None`: ConjugateGradient when no `proxg` is given, else GradientMethod when no `G` is given,
    else PrimalDualHybridGradient — and that set-up is built (never a rejection). -/
theorem select_default (p g : Bool) :
    getAlg none p g = .built (if !p then "ConjugateGradient" else if !g then "GradientMethod"
      else "PrimalDualHybridGradient") := by
  cases p <;> cases g <;> rfl

/-- a named solver is built exactly in the combinations it supports -/
theorem select_named (p g : Bool) :
    getAlg (some "ConjugateGradient") false g = .built "ConjugateGradient" ∧
    getAlg (some "GradientMethod") p false = .built "GradientMethod" ∧
    getAlg (some "PrimalDualHybridGradient") p g = .built "PrimalDualHybridGradient" ∧
    getAlg (some "ADMM") p g = .built "ADMM" := by
  cases p <;> cases g <;> exact ⟨rfl, rfl, rfl, rfl⟩

/-- `_get_alg` raises exactly for: ConjugateGradient with `proxg`, GradientMethod with `G`, and a solver
    string that is none of the four names. -/
theorem rejects_iff (s : Option String) (p g : Bool) :
    (∃ t, getAlg s p g = .raised t) ↔
      (s = some "ConjugateGradient" ∧ p = true) ∨ (s = some "GradientMethod" ∧ g = true) ∨
      (∃ n, s = some n ∧ n ∉ solverNames) := by
  cases s with
  | none => cases p <;> cases g <;> simp [getAlg]
  | some n =>
    by_cases h1 : n = "ConjugateGradient"
    · subst h1; cases p <;> cases g <;> simp [getAlg, solverNames]
    by_cases h2 : n = "GradientMethod"
    · subst h2; cases p <;> cases g <;> simp [getAlg, solverNames]
    by_cases h3 : n = "PrimalDualHybridGradient"
    · subst h3; cases p <;> cases g <;> simp [getAlg, solverNames]
    by_cases h4 : n = "ADMM"
    · subst h4; cases p <;> cases g <;> simp [getAlg, solverNames]
    · simp [getAlg, solverNames, h1, h2, h3, h4]

/-- `_get_alg` never falls off the end: it builds one of the four set-ups or raises. -/
theorem select_total (s : Option String) (p g : Bool) :
    (∃ n ∈ solverNames, getAlg s p g = .built n) ∨ (∃ t, getAlg s p g = .raised t) := by
  cases s with
  | none => cases p <;> cases g <;> simp [getAlg, solverNames]
  | some n =>
    by_cases h1 : n = "ConjugateGradient"
    · subst h1; cases p <;> cases g <;> simp [getAlg, solverNames]
    by_cases h2 : n = "GradientMethod"
    · subst h2; cases p <;> cases g <;> simp [getAlg, solverNames]
    by_cases h3 : n = "PrimalDualHybridGradient"
    · subst h3; cases p <;> cases g <;> simp [getAlg, solverNames]
    by_cases h4 : n = "ADMM"
    · subst h4; cases p <;> cases g <;> simp [getAlg, solverNames]
    · simp [getAlg, solverNames, h1, h2, h3, h4]


/-! ## 2. the smooth part, its gradient, CG and GradientMethod set-ups -/
open scoped RealInnerProductSpace
set_option linter.unusedSectionVars false

variable {E F H : Type} [NormedAddCommGroup E] [InnerProductSpace ℝ E]
  [NormedAddCommGroup F] [InnerProductSpace ℝ F] [NormedAddCommGroup H] [InnerProductSpace ℝ H]

/-- `z=None` is the documented objective with `z = 0` -/
def zOf {V : Type} [Zero V] (z : Option V) : V := z.getD 0

/-- smooth part of the documented objective: `½‖A x - y‖² + λ/2 ‖x - z‖²` -/
noncomputable def smooth (A : E →ₗ[ℝ] F) (y : F) (lam : ℝ) (z : E) (x : E) : ℝ :=
  1 / 2 * ‖A x - y‖ ^ 2 + lam / 2 * ‖x - z‖ ^ 2

/-- its gradient `Aᴴ(A x - y) + λ (x - z)` -/
def grad (A : E →ₗ[ℝ] F) (AH : F →ₗ[ℝ] E) (y : F) (lam : ℝ) (z : E) (x : E) : E :=
  AH (A x - y) + lam • (x - z)

/-- `AH` is the adjoint of `A` -/
def IsAdj {E F : Type} [NormedAddCommGroup E] [InnerProductSpace ℝ E] [NormedAddCommGroup F]
    [InnerProductSpace ℝ F] (A : E →ₗ[ℝ] F) (AH : F →ₗ[ℝ] E) : Prop := ∀ x u, ⟪A x, u⟫ = ⟪x, AH u⟫

/-- exact second-order expansion of the smooth part: `grad` is its gradient and `AᴴA + λI` its Hessian -/
theorem obj_expand (A : E →ₗ[ℝ] F) (AH : F →ₗ[ℝ] E) (hA : IsAdj A AH) (y : F) (lam : ℝ) (z x h : E) :
    smooth A y lam z (x + h) =
      smooth A y lam z x + ⟪grad A AH y lam z x, h⟫ + (1 / 2 * ‖A h‖ ^ 2 + lam / 2 * ‖h‖ ^ 2) := by
  have e1 : A (x + h) - y = (A x - y) + A h := by rw [map_add]; abel
  have e2 : x + h - z = (x - z) + h := by abel
  have e3 : ⟪AH (A x - y), h⟫ = ⟪A x - y, A h⟫ := by
    rw [real_inner_comm, ← hA, real_inner_comm]
  unfold smooth grad
  rw [e1, e2, norm_add_sq_real, norm_add_sq_real, inner_add_left, e3, inner_smul_left]
  simp only [RCLike.conj_to_real]
  ring

/-- the CG set-up is the normal equation -/
theorem cgSys_cgRhs_eq_normal (A : E →ₗ[ℝ] F) (AH : F →ₗ[ℝ] E) (y : F) (lam : ℝ) (z : Option E) (x : E) :
    cgSys A AH lam x = cgRhs AH y lam z ↔ grad A AH y lam (zOf z) x = 0 := by
  unfold cgSys cgRhs grad zOf addLamZ
  by_cases hl : lam = 0
  · subst hl
    simp only [ne_eq, not_true_eq_false, if_false, zero_smul, add_zero, map_sub, sub_eq_zero]
  · simp only [ne_eq, hl, not_false_eq_true, if_true, map_sub]
    cases z with
    | none =>
      simp only [Option.getD_none, sub_zero]
      rw [← sub_eq_zero]
      have : AH (A x) + lam • x - AH y = AH (A x) - AH y + lam • x := by abel
      rw [this]
    | some z =>
      simp only [Option.getD_some]
      rw [← sub_eq_zero]
      have : AH (A x) + lam • x - (AH y + lam • z) = AH (A x) - AH y + lam • (x - z) := by
        rw [smul_sub]; abel
      rw [this]

/-- a first-order term that never makes a quadratic negative vanishes -/
theorem lin_zero_of_quad_nonneg (b c : ℝ) (h : ∀ t : ℝ, 0 ≤ t * b + t ^ 2 * c) : b = 0 := by
  have := discrim_le_zero (a := c) (b := b) (c := 0) (fun t => by have := h t; nlinarith)
  unfold discrim at this
  have hb : b ^ 2 ≤ 0 := by linarith
  exact pow_eq_zero_iff (two_ne_zero) |>.mp (le_antisymm hb (sq_nonneg b))

theorem cg_normal_eq (A : E →ₗ[ℝ] F) (AH : F →ₗ[ℝ] E) (hA : IsAdj A AH) (y : F) (lam : ℝ) (hl : 0 ≤ lam)
    (z : Option E) (x : E) :
    cgSys A AH lam x = cgRhs AH y lam z ↔ ∀ x', smooth A y lam (zOf z) x ≤ smooth A y lam (zOf z) x' := by
  rw [cgSys_cgRhs_eq_normal]
  constructor
  · intro hg x'
    have := obj_expand A AH hA y lam (zOf z) x (x' - x)
    rw [hg, inner_zero_left, add_sub_cancel] at this
    rw [this]
    have h1 : 0 ≤ 1 / 2 * ‖A (x' - x)‖ ^ 2 := by positivity
    have h2 : 0 ≤ lam / 2 * ‖x' - x‖ ^ 2 := by positivity
    linarith
  · intro hmin
    set g := grad A AH y lam (zOf z) x with hgdef
    have hb : ⟪g, g⟫ = 0 := by
      apply lin_zero_of_quad_nonneg _ (1 / 2 * ‖A g‖ ^ 2 + lam / 2 * ‖g‖ ^ 2)
      intro t
      have h1 := obj_expand A AH hA y lam (zOf z) x (t • g)
      have h2 := hmin (x + t • g)
      rw [h1, inner_smul_right, map_smul, norm_smul, norm_smul, Real.norm_eq_abs, mul_pow, mul_pow, sq_abs,
        ← hgdef] at h2
      nlinarith
    exact inner_self_eq_zero.mp hb

/-- with `AᴴA + λI` positive definite the solution of the CG system is the unique minimiser -/
theorem cg_unique_minimiser (A : E →ₗ[ℝ] F) (AH : F →ₗ[ℝ] E) (hA : IsAdj A AH) (y : F) (lam : ℝ)
    (z : Option E) (x : E) (hpd : ∀ h : E, h ≠ 0 → 0 < ‖A h‖ ^ 2 + lam * ‖h‖ ^ 2)
    (hx : cgSys A AH lam x = cgRhs AH y lam z) (x' : E) (hne : x' ≠ x) :
    smooth A y lam (zOf z) x < smooth A y lam (zOf z) x' := by
  rw [cgSys_cgRhs_eq_normal] at hx
  have := obj_expand A AH hA y lam (zOf z) x (x' - x)
  rw [hx, inner_zero_left, add_sub_cancel] at this
  rw [this]
  have := hpd (x' - x) (sub_ne_zero.mpr hne)
  linarith

/-- the closure `gradf` of the GradientMethod set-up is the gradient of the smooth part
    (the first-order term of `obj_expand`), for every routing of `lamda` and `z` -/
theorem gm_gradient (A : E →ₗ[ℝ] F) (AH : F →ₗ[ℝ] E) (y : F) (lam : ℝ) (z : Option E) (x : E) :
    gmGrad A AH y lam z x = grad A AH y lam (zOf z) x := by
  unfold gmGrad grad zOf
  by_cases hl : lam = 0
  · subst hl; simp
  · cases z <;> simp [hl]

/-- the operator whose largest eigenvalue sets the default step is the Hessian `AᴴA + λI` of the smooth part:
    `gradf (x + h) - gradf x = gmEigOp h` -/
theorem gmEigOp_eq_hessian (A : E →ₗ[ℝ] F) (AH : F →ₗ[ℝ] E) (y : F) (lam : ℝ) (z : Option E) (x h : E) :
    gmGrad A AH y lam z (x + h) - gmGrad A AH y lam z x = gmEigOp A AH lam h := by
  rw [gm_gradient, gm_gradient]
  unfold grad gmEigOp cgSys
  by_cases hl : lam = 0
  · subst hl; simp
  · simp only [ne_eq, hl, not_false_eq_true, if_true, map_add, map_sub, smul_sub, smul_add]; abel

/-- without `proxg`, a gradient step with any non-zero step size leaves `x` fixed iff `x` minimises the
    documented objective (`g = 0`) -/
theorem gm_fixed_point_iff_minimiser (A : E →ₗ[ℝ] F) (AH : F →ₗ[ℝ] E) (hA : IsAdj A AH) (y : F) (lam : ℝ)
    (hl : 0 ≤ lam) (z : Option E) (alpha : ℝ) (ha : alpha ≠ 0) (x : E) :
    x - alpha • gmGrad A AH y lam z x = x ↔
      ∀ x', smooth A y lam (zOf z) x ≤ smooth A y lam (zOf z) x' := by
  rw [← cg_normal_eq A AH hA y lam hl, cgSys_cgRhs_eq_normal, gm_gradient, sub_eq_self, smul_eq_zero]
  simp [ha]

/-! ## prox characterisations -/

/-- `p` is the proximal operator belonging to the (sub)gradient relation `dg` of a function `g`:
    `p α v = w ↔ (v - w)/α ∈ ∂g(w)` for every `α > 0` (the optimality condition of
    `argmin_w ½‖w - v‖² + α g(w)`). -/
def IsProxOf (p : ℝ → H → H) (dg : H → Set H) : Prop :=
  ∀ α : ℝ, 0 < α → ∀ v w : H, p α v = w ↔ (1 / α) • (v - w) ∈ dg w

/-- `proxg=None` behaves as the prox of `g = 0` (subgradient `{0}`) -/
def effDg (hasProxg : Bool) (dg : H → Set H) : H → Set H := if hasProxg then dg else fun _ => {0}

/-- the tree the set-ups use for the caller's prox -/
def userTree (hasProxg : Bool) : PD ℝ H := if hasProxg then .user else .noop

theorem userTree_isProx (hasProxg : Bool) (user : ℝ → H → H) (dg : H → Set H)
    (hu : hasProxg = true → IsProxOf user dg) :
    IsProxOf ((userTree hasProxg).eval user) (effDg hasProxg dg) := by
  cases hasProxg with
  | true => simpa [userTree, effDg, PD.eval] using hu rfl
  | false =>
    intro α hα v w
    simp only [userTree, effDg, PD.eval, Bool.false_eq_true, if_false, Set.mem_singleton_iff, smul_eq_zero,
      one_div, inv_eq_zero, hα.ne', false_or, sub_eq_zero]


/-- `L2Reg(shape, lam, y)` is the prox of `lam/2 ‖· - y‖²`: `w = prox_α(v) ⇔ (v - w)/α = lam (w - y)` -/
theorem l2reg_is_prox (lam : ℝ) (hl : 0 ≤ lam) (y : Option H) :
    IsProxOf (l2regOut lam y) (fun w => {lam • (w - zOf y)}) := by
  intro α hα v w
  have h1 : (1 + lam * α) ≠ 0 := by positivity
  simp only [Set.mem_singleton_iff]
  cases y with
  | none =>
    simp only [l2regOut, zOf, Option.getD_none, sub_zero]
    rw [one_div, inv_smul_eq_iff₀ h1, one_div, inv_smul_eq_iff₀ hα.ne']
    constructor <;> intro h
    · rw [h]; module
    · have : v = w + α • lam • w := by rw [← h]; abel
      rw [this]; module
  | some y =>
    simp only [l2regOut, zOf, Option.getD_some]
    rw [one_div, inv_smul_eq_iff₀ h1, one_div, inv_smul_eq_iff₀ hα.ne']
    constructor <;> intro h
    · have : v = (1 + lam * α) • w - (lam * α) • y := eq_sub_of_add_eq h
      rw [this]; module
    · have : v = w + α • lam • (w - y) := by rw [← h]; abel
      rw [this]; module

/-! ## 3. the data term: conjugate, biconjugate and its prox (`L2Reg(y.shape, 1, y=-y)`) -/

/-- data fidelity `f(v) = ½‖v - y‖²` and the function whose prox the set-up uses, `f*(u) = ½‖u‖² + ⟨u, y⟩` -/
noncomputable def fData (y v : F) : ℝ := 1 / 2 * ‖v - y‖ ^ 2
noncomputable def fDataConj (y u : F) : ℝ := 1 / 2 * ‖u‖ ^ 2 + ⟪u, y⟫

/-- Fenchel–Young with equality: `f*` is the conjugate of `f` (sup attained at `v = u + y`) and `f` is the
    conjugate of `f*` (sup attained at `u = v - y`), i.e. `max_u ⟨A x, u⟩ - f*(u) = ½‖A x - y‖²`: the
    saddle problem the PDHG set-up hands to the solver has the documented data term as its primal. -/
theorem data_conj_biconj (y u v : F) :
    ⟪u, v⟫ - fData y v ≤ fDataConj y u ∧ ⟪u, u + y⟫ - fData y (u + y) = fDataConj y u ∧
    ⟪u, v⟫ - fDataConj y u ≤ fData y v ∧ ⟪v - y, v⟫ - fDataConj y (v - y) = fData y v := by
  have key : fDataConj y u - ⟪u, v⟫ + fData y v = 1 / 2 * ‖u - (v - y)‖ ^ 2 := by
    unfold fDataConj fData
    rw [norm_sub_sq_real u (v - y), inner_sub_right]; ring
  have hnn : 0 ≤ 1 / 2 * ‖u - (v - y)‖ ^ 2 := by positivity
  refine ⟨by linarith, ?_, by linarith, ?_⟩
  · unfold fDataConj fData
    rw [add_sub_cancel_right, inner_add_right, real_inner_self_eq_norm_sq]; ring
  · unfold fDataConj fData
    rw [inner_sub_left, inner_sub_left, real_inner_self_eq_norm_sq, norm_sub_sq_real,
      real_inner_self_eq_norm_sq, real_inner_comm y v]
    ring

/-- the dual prox of the data term, `L2Reg(y.shape, 1, y=-y)`, is the prox of `f*`
    (gradient of `f*` at `w` is `w + y`) -/
theorem proxfc_data_is_prox (y : F) :
    IsProxOf (l2regOut (1 : ℝ) (some (-y))) (fun w => {w + y}) := by
  have := l2reg_is_prox (H := F) 1 zero_le_one (some (-y))
  simpa [zOf, sub_neg_eq_add] using this

/-- fixed point of the dual update on the data block: `u = prox_{σ f*}(u + σ a) ⇔ u = a - y` -/
theorem data_dual_fixed (y u a : F) (σ : ℝ) (hσ : 0 < σ) :
    (PD.l2reg (1 : ℝ) (some (-y))).eval (fun _ v => v) σ (u + σ • a) = u ↔ u = a - y := by
  have := proxfc_data_is_prox y σ hσ (u + σ • a) u
  simp only [PD.eval]
  rw [this, Set.mem_singleton_iff, add_sub_cancel_left, smul_smul, one_div, inv_mul_cancel₀ hσ.ne', one_smul]
  constructor <;> intro h
  · rw [h]; abel
  · rw [h]; abel

/-- Moreau: fixed point of the conjugated prox `Conj(p)`:  `u = prox_{σ g*}(u + σ a) ⇔ u ∈ ∂g(a)` -/
theorem conj_fixed_point (P : PD ℝ H) (user : ℝ → H → H) (dg : H → Set H)
    (hP : IsProxOf (P.eval user) dg) (σ : ℝ) (hσ : 0 < σ) (u a : H) :
    (PD.conj P).eval user σ (u + σ • a) = u ↔ u ∈ dg a := by
  simp only [PD.eval]
  have h1 : u + σ • a - σ • P.eval user (1 / σ) ((1 / σ) • (u + σ • a)) = u ↔
      P.eval user (1 / σ) ((1 / σ) • (u + σ • a)) = a := by
    rw [add_sub_assoc, add_eq_left, sub_eq_zero]
    rw [eq_comm]
    exact smul_right_injective H hσ.ne' |>.eq_iff
  rw [h1, hP (1 / σ) (by positivity)]
  have : (1 / (1 / σ)) • ((1 / σ) • (u + σ • a) - a) = u := by
    rw [one_div_one_div, smul_sub, smul_smul, mul_one_div_cancel hσ.ne', one_smul]; abel
  rw [this]

/-! ## 4. KKT points of the documented objective -/

/-- KKT point of `½‖A x - y‖² + g(G x) + λ/2‖x - z‖²` with multiplier `w ∈ ∂g(G x)` -/
def IsKKT (A : E →ₗ[ℝ] F) (AH : F →ₗ[ℝ] E) (G : E →ₗ[ℝ] H) (GH : H →ₗ[ℝ] E) (dg : H → Set H)
    (y : F) (lam : ℝ) (z : E) (x : E) (w : H) : Prop :=
  w ∈ dg (G x) ∧ grad A AH y lam z x + GH w = 0

/-- the documented objective -/
noncomputable def Obj (A : E →ₗ[ℝ] F) (G : E →ₗ[ℝ] H) (g : H → ℝ) (y : F) (lam : ℝ) (z : E) (x : E) : ℝ :=
  1 / 2 * ‖A x - y‖ ^ 2 + g (G x) + lam / 2 * ‖x - z‖ ^ 2

/-- a KKT point whose multiplier is a subgradient of `g` is a global minimiser of the documented objective
    (`λ ≥ 0`) -/
theorem kkt_is_minimiser (A : E →ₗ[ℝ] F) (AH : F →ₗ[ℝ] E) (hA : IsAdj A AH) (G : E →ₗ[ℝ] H) (GH : H →ₗ[ℝ] E)
    (hG : IsAdj G GH) (g : H → ℝ) (dg : H → Set H)
    (hsub : ∀ p w, w ∈ dg p → ∀ q, g p + ⟪w, q - p⟫ ≤ g q)
    (y : F) (lam : ℝ) (hl : 0 ≤ lam) (z x : E) (w : H) (hk : IsKKT A AH G GH dg y lam z x w) (x' : E) :
    Obj A G g y lam z x ≤ Obj A G g y lam z x' := by
  obtain ⟨hw, hst⟩ := hk
  have h1 := obj_expand A AH hA y lam z x (x' - x)
  rw [add_sub_cancel] at h1
  have h2 := hsub (G x) w hw (G x')
  have h3 : ⟪w, G x' - G x⟫ = ⟪GH w, x' - x⟫ := by
    rw [← map_sub, real_inner_comm, hG, real_inner_comm]
  have h4 : ⟪grad A AH y lam z x, x' - x⟫ + ⟪GH w, x' - x⟫ = 0 := by
    rw [← inner_add_left, hst, inner_zero_left]
  have h5 : 0 ≤ 1 / 2 * ‖A (x' - x)‖ ^ 2 := by positivity
  have h6 : 0 ≤ lam / 2 * ‖x' - x‖ ^ 2 := by positivity
  have e : ∀ t, Obj A G g y lam z t = smooth A y lam z t + g (G t) := by intro t; unfold Obj smooth; ring
  rw [e, e, h1]
  linarith

/-! ## 5. PrimalDualHybridGradient set-up: fixed points = KKT points -/

/-- the primal prox of the set-up without `G`, for every `(lamda, proxg)` case: `L2Reg` followed by the
    caller's prox with the rescaled step -/
theorem primal_eval_noG (y : F) (lam : ℝ) (hl : 0 ≤ lam) (z : Option E) (hasProxg : Bool)
    (user : ℝ → E → E) (a : ℝ) (v : E) :
    (pdhgSetup (U := E) y lam z hasProxg false).proxg.eval user a v =
      (userTree hasProxg).eval user (a / (1 + lam * a)) (l2regOut lam z a v) := by
  unfold pdhgSetup
  by_cases h : 0 < lam
  · cases hasProxg <;> simp [h, PD.eval, userTree]
  · have h0 : lam = 0 := le_antisymm (not_lt.mp h) hl
    subst h0
    cases hasProxg <;> cases z <;> simp [PD.eval, userTree, l2regOut]

theorem primal_eval_G (y : F) (lam : ℝ) (hl : 0 ≤ lam) (z : Option E) (hasProxg : Bool)
    (user : ℝ → E → E) (a : ℝ) (v : E) :
    (pdhgSetup (U := H) y lam z hasProxg true).proxg.eval user a v = l2regOut lam z a v := by
  unfold pdhgSetup
  by_cases h : 0 < lam
  · simp [h, PD.eval]
  · have h0 : lam = 0 := le_antisymm (not_lt.mp h) hl
    subst h0
    cases z <;> simp [PD.eval, l2regOut]

theorem scale_help (τ c : ℝ) (hτ : τ ≠ 0) (hc : c ≠ 0) (m x : E) :
    (1 / (τ / c)) • ((1 / c) • m - x) = (1 / τ) • (m - c • x) := by
  have e2 : 1 / (τ / c) = (1 / τ) * c := by field_simp
  rw [e2, mul_smul, smul_sub c, smul_smul c, mul_one_div_cancel hc, one_smul]

/-- fixed point of the primal update without `G`: `x = prox(x - τ q) ⇔ -(q + λ(x - z)) ∈ ∂g(x)` -/
theorem primal_fixed_noG (y : F) (lam : ℝ) (hl : 0 ≤ lam) (z : Option E) (hasProxg : Bool)
    (user : ℝ → E → E) (dg : E → Set E) (hu : hasProxg = true → IsProxOf user dg)
    (τ : ℝ) (hτ : 0 < τ) (x q : E) :
    (pdhgSetup (U := E) y lam z hasProxg false).proxg.eval user τ (x - τ • q) = x ↔
      -(q + lam • (x - zOf z)) ∈ effDg hasProxg dg x := by
  rw [primal_eval_noG y lam hl]
  have hc : 0 < 1 + lam * τ := by positivity
  rw [userTree_isProx hasProxg user dg hu (τ / (1 + lam * τ)) (by positivity)]
  have key : (1 / (τ / (1 + lam * τ))) • (l2regOut lam z τ (x - τ • q) - x) = -(q + lam • (x - zOf z)) := by
    cases z with
    | none =>
      simp only [l2regOut, zOf, Option.getD_none, sub_zero]
      rw [scale_help τ (1 + lam * τ) hτ.ne' hc.ne', one_div, inv_smul_eq_iff₀ hτ.ne']
      module
    | some z =>
      simp only [l2regOut, zOf, Option.getD_some]
      rw [scale_help τ (1 + lam * τ) hτ.ne' hc.ne', one_div, inv_smul_eq_iff₀ hτ.ne']
      module
  rw [key]

/-- fixed point of the primal update with `G` (`L2Reg(x.shape, lamda, y=z)` or `NoOp`) -/
theorem primal_fixed_G (y : F) (lam : ℝ) (hl : 0 ≤ lam) (z : Option E) (hasProxg : Bool)
    (user : ℝ → E → E) (τ : ℝ) (hτ : 0 < τ) (x q : E) :
    (pdhgSetup (U := H) y lam z hasProxg true).proxg.eval user τ (x - τ • q) = x ↔
      q + lam • (x - zOf z) = 0 := by
  rw [primal_eval_G y lam hl, l2reg_is_prox lam hl z τ hτ, Set.mem_singleton_iff, sub_sub_cancel_left,
    smul_neg, smul_smul, one_div, inv_mul_cancel₀ hτ.ne', one_smul, neg_eq_iff_add_eq_zero]

/-- **PDHG without `G`.**  `(x, u)` is a fixed point of the primal–dual update built by
    `_get_PrimalDualHybridGradient` (any `τ, σ > 0`; `λ ≥ 0`; `proxg` given or not; `z` given or not) iff
    `u = A x - y` and `x` is a KKT point of the documented objective `½‖Ax-y‖² + g(x) + λ/2‖x-z‖²`. -/
theorem pdhg_fixed_point_kkt_noG (A : E →ₗ[ℝ] F) (AH : F →ₗ[ℝ] E) (y : F) (lam : ℝ) (hl : 0 ≤ lam)
    (z : Option E) (hasProxg : Bool) (user : ℝ → E → E) (dg : E → Set E)
    (hu : hasProxg = true → IsProxOf user dg) (τ σ : ℝ) (hτ : 0 < τ) (hσ : 0 < σ) (x : E) (u : F) :
    let su := pdhgSetup (U := E) y lam z hasProxg false
    (su.proxfc1.eval (fun _ v => v) σ (u + σ • A x) = u ∧ su.proxfc2 = none ∧
      su.proxg.eval user τ (x - τ • AH u) = x) ↔
    (u = A x - y ∧ ∃ w, IsKKT A AH LinearMap.id LinearMap.id (effDg hasProxg dg) y lam (zOf z) x w) := by
  intro su
  have h1 : su.proxfc1 = .l2reg 1 (some (-y)) := by simp [su, pdhgSetup]
  have h2 : su.proxfc2 = none := by simp [su, pdhgSetup]
  rw [h1, data_dual_fixed y u (A x) σ hσ, primal_fixed_noG y lam hl z hasProxg user dg hu τ hτ]
  simp only [h2, true_and]
  constructor
  · rintro ⟨hu1, hw⟩
    refine ⟨hu1, -(AH u + lam • (x - zOf z)), ?_, ?_⟩
    · simpa using hw
    · rw [hu1]; simp [grad]
  · rintro ⟨hu1, w, hw, hst⟩
    refine ⟨hu1, ?_⟩
    have : w = -(AH u + lam • (x - zOf z)) := by
      rw [hu1]; simp only [grad, LinearMap.id_coe, id_eq] at hst; exact eq_neg_of_add_eq_zero_right hst
    rw [← this]; simpa using hw

/-- **PDHG with `G`.**  `(x, u₁, u₂)` is a fixed point of the update built with `Vstack([A, G])`,
    `Stack([L2Reg(1, -y), Conj(proxg)])` and the primal `L2Reg(λ, z)`/`NoOp` iff `u₁ = A x - y` and `x` is a
    KKT point of `½‖Ax-y‖² + g(Gx) + λ/2‖x-z‖²` with multiplier `u₂ ∈ ∂g(G x)`.
    (At the pinned commit `λ/2‖·-z‖²` sat inside the conjugated prox of the `G` block: this theorem failed.) -/
theorem pdhg_fixed_point_kkt_G (A : E →ₗ[ℝ] F) (AH : F →ₗ[ℝ] E) (G : E →ₗ[ℝ] H) (GH : H →ₗ[ℝ] E)
    (y : F) (lam : ℝ) (hl : 0 ≤ lam) (z : Option E) (hasProxg : Bool) (user : ℝ → H → H) (userE : ℝ → E → E)
    (dg : H → Set H) (hu : hasProxg = true → IsProxOf user dg) (τ σ : ℝ) (hτ : 0 < τ) (hσ : 0 < σ)
    (x : E) (u1 : F) (u2 : H) :
    let su := pdhgSetup (U := H) y lam z hasProxg true
    (su.proxfc1.eval (fun _ v => v) σ (u1 + σ • A x) = u1 ∧
      (∃ p2, su.proxfc2 = some p2 ∧ p2.eval user σ (u2 + σ • G x) = u2) ∧
      su.proxg.eval userE τ (x - τ • (AH u1 + GH u2)) = x) ↔
    (u1 = A x - y ∧ IsKKT A AH G GH (effDg hasProxg dg) y lam (zOf z) x u2) := by
  intro su
  have h1 : su.proxfc1 = .l2reg 1 (some (-y)) := by simp [su, pdhgSetup]
  have h2 : su.proxfc2 = some (.conj (userTree hasProxg)) := by simp [su, pdhgSetup, userTree]
  rw [h1, data_dual_fixed y u1 (A x) σ hσ, primal_fixed_G y lam hl z hasProxg userE τ hτ]
  simp only [h2, Option.some.injEq, exists_eq_left']
  rw [conj_fixed_point (userTree hasProxg) user (effDg hasProxg dg) (userTree_isProx hasProxg user dg hu) σ hσ]
  unfold IsKKT grad
  constructor
  · rintro ⟨hu1, hw, hst⟩
    refine ⟨hu1, hw, ?_⟩
    rw [← hu1, ← hst]; abel
  · rintro ⟨hu1, hw, hst⟩
    refine ⟨hu1, hw, ?_⟩
    rw [← hst, ← hu1]; abel

/-! ## 6. ADMM set-up: fixed points = KKT points -/

theorem admmV_fixed (proxg : Option (ℝ → H → H)) (dg : H → Set H)
    (hp : ∀ p, proxg = some p → IsProxOf p dg) (ρ : ℝ) (hρ : 0 < ρ) (a u : H) :
    admmV proxg ρ a u = a ↔ ρ • u ∈ effDg proxg.isSome dg a := by
  cases proxg with
  | none => simp [admmV, effDg, hρ.ne']
  | some p =>
    simp only [admmV, effDg, Option.isSome_some, if_true]
    rw [hp p rfl (1 / ρ) (by positivity), add_sub_cancel_left, one_div_one_div]

/-- **ADMM without `G`** (`v`-space = `x`-space, constraint `x - v = 0`).  `(x, v, u)` is left fixed by the three
    updates of `_get_ADMM` — `x` solves the `minL_x` system `(AᴴA + (λ+ρ)I) x = Aᴴy + ρ(v-u) (+ λz)`,
    `v = prox_{g/ρ}(x + u)`, `u += x - v` — iff `v = x` and `x` is a KKT point of the documented objective with
    multiplier `ρ u`. -/
theorem admm_fixed_point_kkt_noG (A : E →ₗ[ℝ] F) (AH : F →ₗ[ℝ] E) (y : F) (lam : ℝ) (z : Option E)
    (proxg : Option (ℝ → E → E)) (dg : E → Set E) (hp : ∀ p, proxg = some p → IsProxOf p dg)
    (ρ : ℝ) (hρ : 0 < ρ) (x v u : E) :
    (admmSysNoG A AH lam ρ x = admmRhsNoG AH y lam z ρ v u ∧ admmV proxg ρ x u = v ∧ admmU u x v = u) ↔
    (v = x ∧ IsKKT A AH LinearMap.id LinearMap.id (effDg proxg.isSome dg) y lam (zOf z) x (ρ • u)) := by
  have hU : admmU u x v = u ↔ v = x := by
    unfold admmU; rw [add_eq_left, sub_eq_zero, eq_comm]
  have hS : admmSysNoG A AH lam ρ x = admmRhsNoG AH y lam z ρ x u ↔
      grad A AH y lam (zOf z) x + ρ • u = 0 := by
    unfold admmSysNoG admmRhsNoG addLamZ grad zOf
    rw [← sub_eq_zero]
    cases z with
    | none =>
      simp only [Option.getD_none, sub_zero, map_sub]
      have : AH (A x) + (lam + ρ) • x - (AH y + ρ • (x - u)) = AH (A x) - AH y + lam • x + ρ • u := by module
      rw [this]
    | some z =>
      simp only [Option.getD_some, map_sub]
      have : AH (A x) + (lam + ρ) • x - (AH y + ρ • (x - u) + lam • z) =
          AH (A x) - AH y + lam • (x - z) + ρ • u := by module
      rw [this]
  unfold IsKKT
  simp only [LinearMap.id_coe, id_eq]
  constructor
  · rintro ⟨h1, h2, h3⟩
    obtain rfl := hU.mp h3
    exact ⟨rfl, (admmV_fixed proxg dg hp ρ hρ v u).mp h2, hS.mp h1⟩
  · rintro ⟨rfl, hw, hst⟩
    exact ⟨hS.mpr hst, (admmV_fixed proxg dg hp ρ hρ v u).mpr hw, hU.mpr rfl⟩

/-- **ADMM with `G`** (constraint `G x - v = 0`).  Fixed points of `minL_x` (system
    `(AᴴA (+ λI) + ρGᴴG) x = Aᴴy + ρGᴴ(v-u) (+ λz)`), `minL_v` (`v = prox_{g/ρ}(G x + u)`) and `u += G x - v`
    are exactly: `v = G x` and `x` a KKT point of `½‖Ax-y‖² + g(Gx) + λ/2‖x-z‖²` with multiplier `ρ u`. -/
theorem admm_fixed_point_kkt_G (A : E →ₗ[ℝ] F) (AH : F →ₗ[ℝ] E) (G : E →ₗ[ℝ] H) (GH : H →ₗ[ℝ] E)
    (y : F) (lam : ℝ) (hl : 0 ≤ lam) (z : Option E)
    (proxg : Option (ℝ → H → H)) (dg : H → Set H) (hp : ∀ p, proxg = some p → IsProxOf p dg)
    (ρ : ℝ) (hρ : 0 < ρ) (x : E) (v u : H) :
    (admmSysG A AH G GH lam ρ x = admmRhsG AH GH y lam z ρ v u ∧ admmV proxg ρ (G x) u = v ∧
      admmU u (G x) v = u) ↔
    (v = G x ∧ IsKKT A AH G GH (effDg proxg.isSome dg) y lam (zOf z) x (ρ • u)) := by
  have hU : admmU u (G x) v = u ↔ v = G x := by
    unfold admmU; rw [add_eq_left, sub_eq_zero, eq_comm]
  have hS : admmSysG A AH G GH lam ρ x = admmRhsG AH GH y lam z ρ (G x) u ↔
      grad A AH y lam (zOf z) x + GH (ρ • u) = 0 := by
    have hsys : (if 0 < lam then AH (A x) + lam • x else AH (A x)) = AH (A x) + lam • x := by
      by_cases h : 0 < lam
      · simp [h]
      · have h0 : lam = 0 := le_antisymm (not_lt.mp h) hl
        simp [h0]
    unfold admmSysG admmRhsG addLamZ grad zOf
    rw [hsys, ← sub_eq_zero]
    cases z with
    | none =>
      simp only [Option.getD_none, sub_zero, map_sub, map_smul]
      have : AH (A x) + lam • x + ρ • GH (G x) - (AH y + ρ • (GH (G x) - GH u)) =
          AH (A x) - AH y + lam • x + ρ • GH u := by module
      rw [this]
    | some z =>
      simp only [Option.getD_some, map_sub, map_smul]
      have : AH (A x) + lam • x + ρ • GH (G x) - (AH y + ρ • (GH (G x) - GH u) + lam • z) =
          AH (A x) - AH y + lam • (x - z) + ρ • GH u := by module
      rw [this]
  unfold IsKKT
  constructor
  · rintro ⟨h1, h2, h3⟩
    obtain rfl := hU.mp h3
    exact ⟨rfl, (admmV_fixed proxg dg hp ρ hρ (G x) u).mp h2, hS.mp h1⟩
  · rintro ⟨rfl, hw, hst⟩
    exact ⟨hS.mpr hst, (admmV_fixed proxg dg hp ρ hρ (G x) u).mpr hw, hU.mpr rfl⟩

/-! ## 7. the hypotheses are satisfiable (non-vacuity) -/

example : IsAdj (LinearMap.id : E →ₗ[ℝ] E) LinearMap.id := fun _ _ => rfl

/-- `proxg=None` (identity) is the prox of `g = 0` -/
example : IsProxOf (fun (_ : ℝ) (v : H) => v) (fun _ => {0}) := by
  simpa [userTree, effDg, PD.eval] using
    userTree_isProx (H := H) false (fun _ v => v) (fun _ => {0}) (by simp)

/-- sigpy's `L2Reg(shape, c)` is a caller prox satisfying `IsProxOf`, and its relation is a subgradient of
    `g = c/2‖·‖²` as `kkt_is_minimiser` requires -/
example (c : ℝ) (hc : 0 ≤ c) : IsProxOf (l2regOut c (none : Option H)) (fun w => {c • (w - zOf none)}) :=
  l2reg_is_prox c hc none

example (c : ℝ) (hc : 0 ≤ c) (p w : H) (hw : w ∈ ({c • p} : Set H)) (q : H) :
    c / 2 * ‖p‖ ^ 2 + ⟪w, q - p⟫ ≤ c / 2 * ‖q‖ ^ 2 := by
  rw [Set.mem_singleton_iff] at hw
  have h : ‖q‖ ^ 2 = ‖p‖ ^ 2 + 2 * ⟪p, q - p⟫ + ‖q - p‖ ^ 2 := by
    have := norm_add_sq_real p (q - p); rwa [add_sub_cancel] at this
  have h2 : 0 ≤ c / 2 * ‖q - p‖ ^ 2 := by positivity
  rw [hw, inner_smul_left, h]; simp only [RCLike.conj_to_real]; nlinarith

/-- the two pinned-commit regressions as statements about the model: the CG right-hand side contains `λ z`,
    and with `G` the set-up keeps `L2Reg(λ, z)` on the primal variable -/
example (y : F) (lam : ℝ) (hl : 0 < lam) (z : Option E) (b : Bool) :
    (pdhgSetup (U := H) y lam z b true).proxg = .l2reg lam z ∧
    (pdhgSetup (U := H) y lam z b true).gammaD = 0 ∧ (pdhgSetup (U := H) y lam z b true).gammaP = lam := by
  simp [pdhgSetup, hl]

end SigpyVerif.C14
