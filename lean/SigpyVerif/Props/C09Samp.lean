import SigpyVerif.Props.C09
import SigpyVerif.Lemmas.C09
set_option linter.unusedTactic false
set_option linter.unreachableTactic false
/-
  C09 — `util.downsample` / `util.upsample` on whole arrays (N-d), and their two compositions.
  Everything is about `C09.downsample` / `C09.upsample` of Model/C09.lean, which the correspondence
  check runs against `sigpy.util.downsample/upsample` and `linop.Downsample/Upsample` on every run.
-/
namespace SigpyVerif.C09
open SigpyVerif

/-! ### names for the pieces of the model -/

/-- factors padded with ones to the rank of the array (`slice(None)` on the remaining axes) -/
def sampF (rank : Nat) (factors : List Int) : List Int :=
  factors ++ List.replicate (rank - factors.length) 1

/-- shifts (default zeros) padded with zeros to the rank of the array -/
def sampS (rank : Nat) (factors : List Int) (shift : Option (List Int)) : List Int :=
  shift.getD (factors.map fun _ => 0) ++ List.replicate (rank - factors.length) 0

/-- shape of `x[s_0::f_0, s_1::f_1, …]` -/
def smallShape (shape s' f' : List Int) : List Int := zip3With (fun n s f => sliceLen n s f) shape s' f'

/-- position in the big array of entry `k` of the small array: `s + k·f` on every axis -/
def downSrc (k s' f' : List Int) : List Int := zip3With (fun kd s f => s + kd * f) k s' f'

/-- the membership test of upsample: on every axis `k - s` is a non-negative multiple of `f` -/
def upTest (k s' f' : List Int) : Bool :=
  (zip3With (fun kd s f => (kd - s, f)) k s' f').all fun (d, f) => decide (0 ≤ d ∧ pyMod d f = 0)

/-- position in the small array of a big-array position that passes the test: `(k - s) // f` -/
def upSrc (k s' f' : List Int) : List Int :=
  (zip3With (fun kd s f => (kd - s, f)) k s' f').map fun (d, f) => pyDiv d f

/-! ### one axis -/

/-- `k` indexes the slice `s::f` of an axis of length `n` iff `s + k·f < n` -/
theorem sliceLen_spec (n s f k : Int) (hf : 0 < f) (hk : 0 ≤ k) :
    k < sliceLen n s f ↔ s + k * f < n := by
  unfold sliceLen pyRange
  rw [if_neg (by omega)]
  simp only [List.length_map, List.length_range]
  have h1 : k < (((n - s + f - 1) / f).toNat : Int) ↔ k < (n - s + f - 1) / f := by omega
  rw [h1]
  constructor
  · intro h
    have : (k + 1) * f ≤ n - s + f - 1 := (Int.le_ediv_iff_mul_le hf).mp (by omega)
    nlinarith
  · intro h
    have : k + 1 ≤ (n - s + f - 1) / f := (Int.le_ediv_iff_mul_le hf).mpr (by nlinarith)
    omega

/-! ### all axes -/

/-- a sampled position lies inside the big array -/
theorem downSrc_mem (shape s' f' k : List Int) (hs : s'.length = shape.length)
    (hf : f'.length = shape.length) (hfpos : ∀ f ∈ f', 0 < f) (hs0 : ∀ s ∈ s', 0 ≤ s)
    (hk : k ∈ allIdx (smallShape shape s' f')) : downSrc k s' f' ∈ allIdx shape := by
  induction shape generalizing s' f' k with
  | nil =>
    cases s' <;> cases f' <;> simp_all [smallShape, zip3With, downSrc, allIdx]
  | cons n shape ih =>
    cases s' with
    | nil => simp at hs
    | cons s s' =>
    cases f' with
    | nil => simp at hf
    | cons f f' =>
    have hsm : smallShape (n :: shape) (s :: s') (f :: f') = sliceLen n s f :: smallShape shape s' f' := rfl
    rw [hsm, mem_allIdx] at hk
    cases hk with
    | cons hk0 hks =>
    rename_i k0 ks
    have hfp : 0 < f := hfpos f (by simp)
    have hsp : 0 ≤ s := hs0 s (by simp)
    have := ih s' f' ks (by simpa using hs) (by simpa using hf) (fun g hg => hfpos g (by simp [hg]))
      (fun g hg => hs0 g (by simp [hg])) (mem_allIdx.mpr hks)
    have hd : downSrc (k0 :: ks) (s :: s') (f :: f') = (s + k0 * f) :: downSrc ks s' f' := rfl
    rw [hd, mem_allIdx]
    refine List.Forall₂.cons ⟨by nlinarith [hk0.1], (sliceLen_spec n s f k0 hfp hk0.1).mp hk0.2⟩
      (mem_allIdx.mp this)

/-- a sampled position passes upsample's test and is mapped back to the index it came from -/
theorem up_of_down (k s' f' : List Int) (hs : s'.length = k.length) (hf : f'.length = k.length)
    (hfpos : ∀ f ∈ f', 0 < f) (hk : ∀ v ∈ k, 0 ≤ v) :
    upTest (downSrc k s' f') s' f' = true ∧ upSrc (downSrc k s' f') s' f' = k := by
  induction k generalizing s' f' with
  | nil => cases s' <;> cases f' <;> simp_all [upTest, upSrc, downSrc, zip3With]
  | cons k0 ks ih =>
    cases s' with
    | nil => simp at hs
    | cons s s' =>
    cases f' with
    | nil => simp at hf
    | cons f f' =>
    have hfp : 0 < f := hfpos f (by simp)
    have hk0 : 0 ≤ k0 := hk k0 (by simp)
    obtain ⟨t1, t2⟩ := ih s' f' (by simpa using hs) (by simpa using hf)
      (fun g hg => hfpos g (by simp [hg])) (fun g hg => hk g (by simp [hg]))
    obtain ⟨a1, a2, a3⟩ := up_down_index f s k0 hfp hk0
    unfold upTest upSrc downSrc at *
    simp only [zip3With, List.all_cons, List.map_cons, Bool.and_eq_true, decide_eq_true_eq]
    exact ⟨⟨⟨a1, a2⟩, t1⟩, by rw [a3, t2]⟩

/-- a big-array position that passes the test comes from an in-range small-array index, and
    sampling that index gives the position back -/
theorem down_of_up (shape s' f' k : List Int) (hs : s'.length = shape.length)
    (hf : f'.length = shape.length) (hfpos : ∀ f ∈ f', 0 < f) (hk : k ∈ allIdx shape)
    (ht : upTest k s' f' = true) :
    upSrc k s' f' ∈ allIdx (smallShape shape s' f') ∧ downSrc (upSrc k s' f') s' f' = k := by
  induction shape generalizing s' f' k with
  | nil =>
    have : k = [] := by simpa [allIdx] using hk
    subst this
    cases s' <;> cases f' <;> simp_all [smallShape, zip3With, downSrc, upSrc, allIdx]
  | cons n shape ih =>
    cases s' with
    | nil => simp at hs
    | cons s s' =>
    cases f' with
    | nil => simp at hf
    | cons f f' =>
    rw [mem_allIdx] at hk
    cases hk with
    | cons hk0 hks =>
    rename_i k0 ks
    have hfp : 0 < f := hfpos f (by simp)
    have ht' : (0 ≤ k0 - s ∧ pyMod (k0 - s) f = 0) ∧ upTest ks s' f' = true := by
      unfold upTest at ht ⊢
      simpa only [zip3With, List.all_cons, Bool.and_eq_true, decide_eq_true_eq] using ht
    obtain ⟨⟨c0, c1⟩, ht2⟩ := ht'
    obtain ⟨r1, r2⟩ := ih s' f' ks (by simpa using hs) (by simpa using hf)
      (fun g hg => hfpos g (by simp [hg])) (mem_allIdx.mpr hks) ht2
    obtain ⟨b1, b2⟩ := up_test_is_sample f s k0 hfp c0 c1
    have e1 : upSrc (k0 :: ks) (s :: s') (f :: f') = pyDiv (k0 - s) f :: upSrc ks s' f' := rfl
    have e2 : smallShape (n :: shape) (s :: s') (f :: f') = sliceLen n s f :: smallShape shape s' f' := rfl
    have e3 : downSrc (pyDiv (k0 - s) f :: upSrc ks s' f') (s :: s') (f :: f')
        = (s + pyDiv (k0 - s) f * f) :: downSrc (upSrc ks s' f') s' f' := rfl
    rw [e1, e2, e3, r2, ← b1]
    refine ⟨?_, rfl⟩
    rw [mem_allIdx]
    refine List.Forall₂.cons ⟨b2, (sliceLen_spec n s f _ hfp b2).mpr (by rw [← b1]; exact hk0.2)⟩
      (mem_allIdx.mp r1)

/-! ### the arrays -/

/-- **`util.downsample` on arrays.**  The result has shape `smallShape` (the lengths of the slices
    `s::f`), and its entry at multi-index `k` is the input entry at `s + k·f` on every axis. -/
theorem downsample_array_spec {α : Type} [Zero α] (shape factors : List Int)
    (shift : Option (List Int)) (x : Array α) :
    (downsample shape factors shift x).1
        = smallShape shape (sampS shape.length factors shift) (sampF shape.length factors) ∧
    ∀ k ∈ allIdx (smallShape shape (sampS shape.length factors shift) (sampF shape.length factors)),
      (downsample shape factors shift x).2.getD
          (ravel (smallShape shape (sampS shape.length factors shift) (sampF shape.length factors)) k).toNat 0
        = x.getD (ravel shape
            (downSrc k (sampS shape.length factors shift) (sampF shape.length factors))).toNat 0 := by
  refine ⟨rfl, fun k hk => ?_⟩
  unfold downsample
  exact map_allIdx_getD _ _ k hk

/-- **`util.upsample` on arrays.**  The entry of the output at multi-index `k` of `oshape` is the
    input entry at `(k - s) // f` when `k - s` is a non-negative multiple of `f` on every axis, and
    zero otherwise. -/
theorem upsample_array_spec {α : Type} [Zero α] (oshape factors : List Int)
    (shift : Option (List Int)) (x : Array α) (k : List Int) (hk : k ∈ allIdx oshape) :
    (upsample oshape factors shift x).2.getD (ravel oshape k).toNat 0
      = if upTest k (sampS oshape.length factors shift) (sampF oshape.length factors) = true then
          x.getD (ravel (smallShape oshape (sampS oshape.length factors shift) (sampF oshape.length factors))
            (upSrc k (sampS oshape.length factors shift) (sampF oshape.length factors))).toNat 0
        else 0 := by
  unfold upsample
  exact map_allIdx_getD _ _ k hk

/-- the padded parameter lists have the rank of the array, positive factors and non-negative shifts
    whenever the user's lists do -/
theorem samp_params_ok (rank : Nat) (factors : List Int) (shift : Option (List Int))
    (hlen : factors.length ≤ rank) (hsl : ∀ s, shift = some s → s.length = factors.length)
    (hf : ∀ f ∈ factors, 0 < f) (hs : ∀ s, shift = some s → ∀ v ∈ s, 0 ≤ v) :
    (sampS rank factors shift).length = rank ∧ (sampF rank factors).length = rank ∧
    (∀ f ∈ sampF rank factors, 0 < f) ∧ (∀ s ∈ sampS rank factors shift, 0 ≤ s) := by
  unfold sampS sampF
  refine ⟨?_, ?_, ?_, ?_⟩
  · cases shift with
    | none => simp; omega
    | some s => simp [hsl s rfl]; omega
  · simp; omega
  · intro f hfm
    rcases List.mem_append.mp hfm with h | h
    · exact hf f h
    · rw [List.mem_replicate] at h; omega
  · intro v hv
    rcases List.mem_append.mp hv with h | h
    · cases shift with
      | none => simp at h; omega
      | some s => exact hs s rfl v (by simpa using h)
    · rw [List.mem_replicate] at h; omega

/-- **`downsample ∘ upsample = id`** on arrays: every entry of `x` is recovered. -/
theorem downsample_upsample_id {α : Type} [Zero α] (oshape factors : List Int)
    (shift : Option (List Int)) (x : Array α)
    (hS : (sampS oshape.length factors shift).length = oshape.length)
    (hF : (sampF oshape.length factors).length = oshape.length)
    (hFpos : ∀ f ∈ sampF oshape.length factors, 0 < f)
    (hS0 : ∀ s ∈ sampS oshape.length factors shift, 0 ≤ s) (k : List Int)
    (hk : k ∈ allIdx (smallShape oshape (sampS oshape.length factors shift) (sampF oshape.length factors))) :
    (downsample oshape factors shift (upsample oshape factors shift x).2).2.getD
        (ravel (smallShape oshape (sampS oshape.length factors shift) (sampF oshape.length factors)) k).toNat 0
      = x.getD (ravel (smallShape oshape (sampS oshape.length factors shift)
          (sampF oshape.length factors)) k).toNat 0 := by
  rw [(downsample_array_spec oshape factors shift _).2 k hk]
  have hmem := downSrc_mem oshape _ _ k hS hF hFpos hS0 hk
  rw [upsample_array_spec oshape factors shift x _ hmem]
  have hkl : k.length = oshape.length := by
    have := length_of_mem_allIdx hk
    rw [this]
    have : ∀ (a b c : List Int), b.length = a.length → c.length = a.length →
        (smallShape a b c).length = a.length := by
      intro a
      induction a with
      | nil => intro b c _ _; cases b <;> cases c <;> rfl
      | cons n a ih =>
        intro b c hb hc
        cases b with
        | nil => simp at hb
        | cons s b =>
        cases c with
        | nil => simp at hc
        | cons f c =>
          show (sliceLen n s f :: smallShape a b c).length = _
          simp [ih b c (by simpa using hb) (by simpa using hc)]
    exact this _ _ _ hS hF
  have hk0 : ∀ v ∈ k, 0 ≤ v := by
    intro v hv
    obtain ⟨d, hd, rfl⟩ := List.getElem_of_mem hv
    have := ((mem_allIdx_iff_getD.mp hk).2 d (by rw [← (mem_allIdx_iff_getD.mp hk).1]; exact hd)).1
    simpa [List.getD_eq_getElem?_getD, List.getElem?_eq_getElem hd] using this
  obtain ⟨t1, t2⟩ := up_of_down k (sampS oshape.length factors shift) (sampF oshape.length factors)
    (by omega) (by omega) hFpos hk0
  rw [if_pos t1, t2]

/-- **`upsample ∘ downsample` = mask** on arrays: the sampled positions keep their value, every
    other entry becomes zero. -/
theorem upsample_downsample_mask {α : Type} [Zero α] (shape factors : List Int)
    (shift : Option (List Int)) (x : Array α)
    (hS : (sampS shape.length factors shift).length = shape.length)
    (hF : (sampF shape.length factors).length = shape.length)
    (hFpos : ∀ f ∈ sampF shape.length factors, 0 < f) (k : List Int) (hk : k ∈ allIdx shape) :
    (upsample shape factors shift (downsample shape factors shift x).2).2.getD (ravel shape k).toNat 0
      = if upTest k (sampS shape.length factors shift) (sampF shape.length factors) = true then
          x.getD (ravel shape k).toNat 0 else 0 := by
  rw [upsample_array_spec shape factors shift _ k hk]
  split_ifs with ht
  · obtain ⟨r1, r2⟩ := down_of_up shape _ _ k hS hF hFpos hk ht
    rw [(downsample_array_spec shape factors shift x).2 _ r1, r2]
  · rfl

/-! ### non-vacuity -/

example : downsample [7] [3] (some [1]) #[(10 : Int), 11, 12, 13, 14, 15, 16] = ([2], #[11, 14]) := by
  decide
example : (upsample [7] [3] (some [1]) #[(5 : Int), 6]).2 = #[0, 5, 0, 0, 6, 0, 0] := by decide
example : upTest [4, 2] [1, 0] [3, 1] = true ∧ upSrc [4, 2] [1, 0] [3, 1] = [1, 2] := by decide
example : (samp_params_ok 2 [3] (some [1]) (by decide) (by simp) (by simp) (by simp)).1 = rfl := rfl

end SigpyVerif.C09
