import SigpyVerif.Model.C11
/-
  C11 — `prox_shape`: every `P(α, x)` of the model returns an array of the input's shape.
  Decision logic over the `PExpr` inductive (all classes and nestings), including the early-return path of
  `l1_proj` (`l1proj_shape`).  The model's shapes are compared with the real classes' output shapes by the
  correspondence check; at the pinned commit the real `l1_proj` returned the flattened input on that path.
-/
namespace SigpyVerif.C11
open SigpyVerif

mutual
/-- well-formed nesting: an inner prox has the shape its wrapper hands it, no `-1` wildcard in a `Stack` size -/
def WF : PExpr → Prop
  | .l2regH sh _ _ h => pshape h = sh ∧ WF h
  | .conj p => WF p
  | .stack ps => stackSize ps ≠ -1 ∧ WFL ps
  | .unitary p _ osh _ => pshape p = osh ∧ WF p
  | _ => True
def WFL : PList → Prop
  | .nil => True
  | .cons p rest => WF p ∧ WFL rest
end

theorem withShape_ok {sh : List Int} {r : Except String (Array CQ)} {out : Tens}
    (h : withShape sh r = .ok out) : out.shape = sh := by
  unfold withShape at h
  split at h
  · cases h
  · cases h; rfl

theorem guard_ok {sh : List Int} {x out : Tens} {r : Except String Tens} (h : guard sh x r = .ok out) :
    r = .ok out ∧ checkShape x.shape sh = true ∧ checkShape out.shape sh = true := by
  unfold guard at h
  by_cases h1 : checkShape x.shape sh = true
  · simp only [h1, Bool.not_true, Bool.false_eq_true, if_false] at h
    cases r with
    | error e => simp at h
    | ok o =>
      by_cases h2 : checkShape o.shape sh = true
      · simp only [h2, Bool.not_true, Bool.false_eq_true, if_false] at h
        cases h; exact ⟨rfl, h1, h2⟩
      · simp [h2] at h
  · simp [h1] at h

/-- one-dimensional shape check without wildcard is equality -/
theorem checkShape_single {a b : Int} (hb : b ≠ -1) (h : checkShape [a] [b] = true) : a = b := by
  simp [checkShape] at h
  rcases h with h | h
  · exact absurd h hb
  · exact h

/-- the generated body of `thresh.l1_proj` (`Gen.ProxBody.l1projWith`): whenever it returns, the result carries the
    input's shape — all ranks, any entry type, any `sort` (both `return` statements reshape to the recorded shape) -/
theorem l1projWith_shape {α β : Type} [Zero α] [One α] [Add α] [Sub α] [Mul α] [Div α] [Neg α] [NatCast α] [LT α]
    [DecidableLT α] [DecidableEq α] (absf : β → α) (soft : α → β → β) (sort : List α → List α) (eps : α)
    (x out : Arr β) (h : Gen.ProxBody.l1projWith absf soft sort eps x = some out) : out.shape = x.shape := by
  unfold Gen.ProxBody.l1projWith at h
  simp only [Arr.ravel, Arr.reshape, Arr.mapData] at h
  by_cases hc : lsum (List.map absf x.data) < eps
  · simp only [hc, ↓reduceIte] at h; cases h; rfl
  · simp only [hc, ↓reduceIte] at h
    -- whatever the nesting of the raising operations (`.max()`, `st[idx]`) around the final `soft_thresh`
    -- (index bound to a name or used in place), the result is `⟨x.shape, _⟩`
    simp only [Option.bind_eq_some_iff, Option.map_eq_some_iff] at h
    first
      | (obtain ⟨_, _, _, _, rfl⟩ := h; rfl)
      | (obtain ⟨_, ⟨_, _, _⟩, rfl⟩ := h; rfl)
      | (obtain ⟨_, _, rfl⟩ := h; rfl)

/-- **`l1_proj` keeps the input's shape on both paths** (feasible early return and thresholded). -/
theorem l1proj_shape (eps : Rat) (x out : Tens) (h : l1projQ eps x = .ok out) : out.shape = x.shape := by
  unfold l1projQ at h
  cases hm : moduli x.data with
  | error e => rw [hm] at h; cases h
  | ok mods =>
    rw [hm] at h
    simp only [bind, Except.bind] at h
    split at h
    · cases h
    · rename_i o ho
      cases h
      exact l1projWith_shape _ _ _ _ _ _ ho

set_option linter.unusedSimpArgs false in
/-- the model's shape guard IS the generated `Prox._check_shape` / `Prox.__call__` -/
theorem checkShape_is_generated (a b : List Int) : checkShape a b = Gen.ProxBody.checkShapeGen a b := by
  unfold checkShape Gen.ProxBody.checkShapeGen
  congr 1
  funext ⟨i1, i2⟩
  -- robust to the spelling of the guard (De Morgan, nested `if`s, `continue` on the negated guard, commuted
  -- comparisons): both sides become propositions over integer (in)equalities, decided by `omega`
  rw [Bool.eq_iff_iff]
  simp only [bne_iff_ne, bne_eq_false_iff_eq, Bool.not_eq_true', Bool.and_eq_true, Bool.or_eq_true, Bool.not_eq_true,
    Bool.and_eq_false_iff, Bool.or_eq_false_iff, Bool.not_eq_false', decide_eq_true_eq, decide_eq_false_iff_not,
    Bool.not_eq_false, ne_eq, gt_iff_lt, ge_iff_le]
  first | done | omega

theorem guard_is_generated (sh : List Int) (x : Tens) (r : Except String Tens) :
    guard sh x r = Gen.ProxBody.callWith Tens.shape sh (fun (_ : Unit) _ => r) () x := by
  unfold guard Gen.ProxBody.callWith
  simp only [checkShape_is_generated]
  cases r <;> rfl

/-- **every `_prox` wrapped by `Prox.__call__` returns the input's shape** — for every class and every
    well-formed nesting, applied to an input of the operator's own shape. -/
theorem prox_shape : ∀ (e : PExpr) (α : Rat) (x out : Tens), WF e → x.shape = pshape e →
    call e α x = .ok out → out.shape = x.shape
  | .noop _, _, _, _, _, _, h => by
      obtain ⟨h, _, _⟩ := guard_ok h; simp only [prox] at h; exact withShape_ok h
  | .l1reg _ _, _, _, _, _, _, h => by
      obtain ⟨h, _, _⟩ := guard_ok h; simp only [prox] at h; exact withShape_ok h
  | .l2reg _ _ _, _, _, _, _, _, h => by
      obtain ⟨h, _, _⟩ := guard_ok h; simp only [prox] at h; exact withShape_ok h
  | .l2proj _ _ _ _, _, _, _, _, _, h => by
      obtain ⟨h, _, _⟩ := guard_ok h; simp only [prox] at h; exact withShape_ok h
  | .linfproj _ _ _, _, _, _, _, _, h => by
      obtain ⟨h, _, _⟩ := guard_ok h; simp only [prox] at h; exact withShape_ok h
  | .l1proj _ _, _, _, _, _, _, h => by
      obtain ⟨h, _, _⟩ := guard_ok h; simp only [prox] at h; exact l1proj_shape _ _ _ h
  | .box _ _ _, _, _, _, _, _, h => by
      obtain ⟨h, _, _⟩ := guard_ok h; simp only [prox] at h; exact withShape_ok h
  | .l2regH sh lam y hh, α, x, out, hwf, hx, h => by
      obtain ⟨h, _, _⟩ := guard_ok h
      simp only [prox] at h
      split at h
      · cases h
      · rename_i u _
        simp only [WF] at hwf
        simp only [pshape] at hx
        have := prox_shape hh _ ⟨x.shape, u⟩ out hwf.2 (by simp [hx, hwf.1]) h
        simpa using this
  | .conj p, α, x, out, _, _, h => by
      obtain ⟨h, _, _⟩ := guard_ok h
      simp only [prox] at h
      split at h
      · cases h
      · exact withShape_ok h
  | .stack ps, α, x, out, hwf, hx, h => by
      obtain ⟨h, _, h2⟩ := guard_ok h
      simp only [prox] at h
      split at h
      · cases h
      · cases h
        simp only [WF] at hwf
        simp only [pshape] at hx h2 ⊢
        rw [hx, checkShape_single hwf.1 h2]
  | .unitary p ish osh A, α, x, out, _, hx, h => by
      obtain ⟨h, _, _⟩ := guard_ok h
      simp only [prox] at h
      simp only [pshape] at hx
      split at h
      · cases h
      · split at h
        · cases h
        · split at h
          · cases h
          · split at h
            · cases h
            · split at h
              · cases h
              · cases h; simp [hx]

example : WF (.stack (.cons (.l1reg [2] 1) (.cons (.conj (.l1proj [2, 2] 3)) .nil))) := by
  simp [WF, WFL, stackSize, pshape, shapeProd]

end SigpyVerif.C11
