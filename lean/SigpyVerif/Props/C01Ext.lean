import SigpyVerif.Props.C01Gen
import SigpyVerif.Props.C08
/-
  C01 — leaf classes imported from other properties.

  An `ext` leaf (Model/C01.lean) carries the entries `E` of an operator class and the entries `E'` of the
  class its `_adjoint_linop` returns; `LeafProved (.ext ..)` asks that `E` and `E'` be adjoint matrices,
  and then `adj_denote_leaves` / `normal_gram_leaves` cover every tree that contains the leaf.

  Here: ConvolveData, ConvolveDataAdjoint, ConvolveFilter, ConvolveFilterAdjoint in the 1-D
  single-channel case (both modes, any stride; 'valid' with the data at least as long as the filter).
  `E` / `E'` are the matrices (columns = images of the unit signals) of the functions of the C08 model
  `C08.conv1At`, `C08.dataAdj1At`, `C08.filtAdj1At` — the model C08 ties to conv.py on every run — and
  *which* class with *which* arguments is the adjoint comes from the generated pairing table
  `Gen.LinopAdjoint.adjOpaque`; the adjointness is C08's `conv1_entries`, `data_adj_entries`,
  `filt_adj_entries`.
-/
set_option linter.unusedSectionVars false
set_option linter.unusedVariables false
set_option linter.unusedSimpArgs false
namespace SigpyVerif.C01
open SigpyVerif

section
variable {α : Type} [CommRing α] [StarRing α]

theorem matOf_congr (p m : Nat) (F : (Int → α) → Int → α) (ent : Nat → Nat → α)
    (h : ∀ k < p, ∀ i < m, F (delta (i : Int)) (k : Int) = ent k i) :
    matOf p m F = (List.range p).flatMap fun k => (List.range m).flatMap fun i => [((k, i, ent k i) : Ent α)] := by
  unfold matOf
  apply List.flatMap_congr; intro k hk
  apply List.flatMap_congr; intro i hi
  rw [h k (List.mem_range.mp hk) i (List.mem_range.mp hi)]

/-- two maps whose matrices (on unit signals) are conjugate transposes of each other give adjoint entry lists -/
theorem matOf_isAdj (p m : Nat) (F F' : (Int → α) → Int → α) (ent : Nat → Nat → α)
    (hF : ∀ k < p, ∀ i < m, F (delta (i : Int)) (k : Int) = ent k i)
    (hF' : ∀ i < m, ∀ k < p, F' (delta (k : Int)) (i : Int) = star (ent k i)) :
    IsAdj p m (inRangeE p m (matOf p m F)) (inRangeE m p (matOf m p F')) := by
  apply isAdj_clip_of_perm
  rw [matOf_congr p m F ent hF, matOf_congr m p F' (fun i k => star (ent k i)) hF']
  unfold adjE
  simp only [List.map_flatMap, List.map_cons, List.map_nil]
  exact flatMap_swap_perm _ _ _

theorem sum_delta_right (n : Nat) (g : Nat → α) (i : Nat) (hi : i < n) :
    ∑ j ∈ Finset.range n, g j * delta (i : Int) (j : Int) = g i := by
  unfold delta
  rw [Finset.sum_eq_single i]
  · simp
  · intro j _ hj
    have : ¬ ((j : Int) = (i : Int)) := fun h => hj (by exact_mod_cast h)
    simp [this]
  · intro h; exact absurd (Finset.mem_range.mpr hi) h

/-! ### 1-D single-channel convolution classes -/

theorem conv1Params_spec {ds fs : List Int} {mode : String} {st : Option (List Int)} {mc : Bool}
    {full : Bool} {m n s : Int} (h : conv1Params ds fs mode st mc = some (full, m, n, s)) :
    1 ≤ m ∧ 1 ≤ n ∧ 0 < s ∧ (full = true ∨ n ≤ m) := by
  unfold conv1Params at h
  split_ifs at h with h1 h2
  simp only [Option.some.injEq, Prod.mk.injEq] at h
  obtain ⟨rfl, rfl, rfl, rfl⟩ := h
  exact h2

/-- the leaf of an opaque operator: its own entries, and the entries of the operator that the *generated*
    `_adjoint_linop` table returns for it -/
def convLeaf (c : Opaque α) : Option (Leaf α) :=
  match convSem star c, convSem star (Gen.LinopAdjoint.adjOpaque c) with
  | some s, some s' => some (.ext 8 s.osh s.ish s.E s'.E)
  | _, _ => none

theorem shapeProd_single (a : Int) : shapeProd [a] = a := by
  rw [shapeProd_cons, shapeProd_nil, mul_one]

theorem conv_data_entries (full : Bool) (m n s : Int) (f : Int → α) (hm : 1 ≤ m) (hn : 1 ≤ n) (hs : 0 < s)
    (h : full = true ∨ n ≤ m) :
    (∀ k < (C08.codeLen full m n s).toNat, ∀ i < m.toNat,
      C08.conv1At full m n s (delta (i : Int)) f (k : Int) = C08.entD full m n s f (k : Int) (i : Int)) ∧
    (∀ i < m.toNat, ∀ k < (C08.codeLen full m n s).toNat,
      C08.dataAdj1At star full m n s (delta (k : Int)) f (i : Int) = star (C08.entD full m n s f (k : Int) (i : Int))) := by
  constructor
  · intro k _ i hi
    rw [(C08.conv1_entries full m n s (delta (i : Int)) f (k : Int)).1]
    exact sum_delta_right m.toNat (fun i' => C08.entD full m n s f (k : Int) (i' : Int)) i hi
  · intro i _ k hk
    rw [C08.data_adj_entries full m n s _ (delta (k : Int)) f (i : Int) hm hn hs (C08.code_len_counts full m n s hs h)]
    exact sum_delta_right _ (fun k' => star (C08.entD full m n s f (k' : Int) (i : Int))) k hk

theorem conv_filt_entries (full : Bool) (m n s : Int) (d : Int → α) (hm : 1 ≤ m) (hn : 1 ≤ n) (hs : 0 < s)
    (h : full = true ∨ n ≤ m) :
    (∀ k < (C08.codeLen full m n s).toNat, ∀ j < n.toNat,
      C08.conv1At full m n s d (delta (j : Int)) (k : Int) = C08.entF full m n s d (k : Int) (j : Int)) ∧
    (∀ j < n.toNat, ∀ k < (C08.codeLen full m n s).toNat,
      C08.filtAdj1At star full m n s (delta (k : Int)) d (j : Int) = star (C08.entF full m n s d (k : Int) (j : Int))) := by
  constructor
  · intro k _ j hj
    rw [(C08.conv1_entries full m n s d (delta (j : Int)) (k : Int)).2]
    exact sum_delta_right n.toNat (fun j' => C08.entF full m n s d (k : Int) (j' : Int)) j hj
  · intro j _ k hk
    rw [C08.filt_adj_entries full m n s _ (delta (k : Int)) d (j : Int) hm hn hs (C08.code_len_counts full m n s hs h)]
    exact sum_delta_right _ (fun k' => star (C08.entF full m n s d (k' : Int) (j : Int))) k hk

/-- **ConvolveData / ConvolveDataAdjoint / ConvolveFilter / ConvolveFilterAdjoint (1-D, single channel):**
    the leaf built from the C08 model of the class and of the class its generated `_adjoint_linop` returns
    satisfies `LeafProved`, for every length, filter / data array, mode and stride in C08's domain.  Trees
    over these leaves and the 19 exact classes are therefore covered by `adj_denote_leaves`. -/
theorem conv_leaf_proved (c : Opaque α) (l : Leaf α) (h : convLeaf c = some l) : LeafProved l := by
  unfold convLeaf at h
  cases c with
  | convData ds filt mode st mc =>
    simp only [convSem, Gen.LinopAdjoint.adjOpaque] at h
    cases hp : conv1Params ds filt.shape mode st mc with
    | none => simp [hp] at h
    | some q =>
      obtain ⟨full, m, n, s⟩ := q
      obtain ⟨hm, hn, hs, hv⟩ := conv1Params_spec hp
      simp only [hp, Option.map_some, Option.some.injEq] at h
      subst h
      simp only [LeafProved, shapeProd_single]
      obtain ⟨h1, h2⟩ := conv_data_entries full m n s (sig filt.data) hm hn hs hv
      exact matOf_isAdj _ _ _ _ (fun k i => C08.entD full m n s (sig filt.data) (k : Int) (i : Int)) h1 h2
  | convDataAdj ds filt mode st mc =>
    simp only [convSem, Gen.LinopAdjoint.adjOpaque] at h
    cases hp : conv1Params ds filt.shape mode st mc with
    | none => simp [hp] at h
    | some q =>
      obtain ⟨full, m, n, s⟩ := q
      obtain ⟨hm, hn, hs, hv⟩ := conv1Params_spec hp
      simp only [hp, Option.map_some, Option.some.injEq] at h
      subst h
      simp only [LeafProved, shapeProd_single]
      obtain ⟨h1, h2⟩ := conv_data_entries full m n s (sig filt.data) hm hn hs hv
      exact matOf_isAdj _ _ _ _ (fun i k => star (C08.entD full m n s (sig filt.data) (k : Int) (i : Int))) h2
        (fun k hk i hi => by rw [star_star]; exact h1 k hk i hi)
  | convFilt fs data mode st mc =>
    simp only [convSem, Gen.LinopAdjoint.adjOpaque] at h
    cases hp : conv1Params data.shape fs mode st mc with
    | none => simp [hp] at h
    | some q =>
      obtain ⟨full, m, n, s⟩ := q
      obtain ⟨hm, hn, hs, hv⟩ := conv1Params_spec hp
      simp only [hp, Option.map_some, Option.some.injEq] at h
      subst h
      simp only [LeafProved, shapeProd_single]
      obtain ⟨h1, h2⟩ := conv_filt_entries full m n s (sig data.data) hm hn hs hv
      exact matOf_isAdj _ _ _ _ (fun k j => C08.entF full m n s (sig data.data) (k : Int) (j : Int)) h1 h2
  | convFiltAdj fs data mode st mc =>
    simp only [convSem, Gen.LinopAdjoint.adjOpaque] at h
    cases hp : conv1Params data.shape fs mode st mc with
    | none => simp [hp] at h
    | some q =>
      obtain ⟨full, m, n, s⟩ := q
      obtain ⟨hm, hn, hs, hv⟩ := conv1Params_spec hp
      simp only [hp, Option.map_some, Option.some.injEq] at h
      subst h
      simp only [LeafProved, shapeProd_single]
      obtain ⟨h1, h2⟩ := conv_filt_entries full m n s (sig data.data) hm hn hs hv
      exact matOf_isAdj _ _ _ _ (fun j k => star (C08.entF full m n s (sig data.data) (k : Int) (j : Int))) h2
        (fun k hk j hj => by rw [star_star]; exact h1 k hk j hj)
  | _ => simp [convSem] at h

/-- **the pairing of the remaining opaque classes, as translated from their `_adjoint_linop`:**
    FFT ↔ IFFT with the same shape, axes and `center` (what C05's `ifft_table_eq_conjTranspose` /
    `sigpy_fft_unitary` need: the adjoint of the centred orthonormal DFT is the inverse on the same axes),
    Wavelet ↔ InverseWavelet with the same axes, wavelet name and level (C10's `iwt1_is_adjoint`),
    NUFFT ↔ NUFFTAdjoint with the same coordinates, oversampling and width (C06/C07).  Kernel-checked
    against the generated table on every run. -/
theorem adjOpaque_table :
    (∀ s a c, Gen.LinopAdjoint.adjOpaque (.fft s a c : Opaque α) = .ifft s a c) ∧
    (∀ s a c, Gen.LinopAdjoint.adjOpaque (.ifft s a c : Opaque α) = .fft s a c) ∧
    (∀ s a w l, Gen.LinopAdjoint.adjOpaque (.wavelet s a w l : Opaque α) = .iwavelet s a w l) ∧
    (∀ s a w l, Gen.LinopAdjoint.adjOpaque (.iwavelet s a w l : Opaque α) = .wavelet s a w l) ∧
    (∀ s c o w t, Gen.LinopAdjoint.adjOpaque (.nufft s c o w t : Opaque α) = .nufftAdj s c o w) ∧
    (∀ s c o w, Gen.LinopAdjoint.adjOpaque (.nufftAdj s c o w : Opaque α) = .nufft s c o w false) ∧
    (∀ d f m s c, Gen.LinopAdjoint.adjOpaque (.convData d f m s c : Opaque α) = .convDataAdj d f m s c) ∧
    (∀ d f m s c, Gen.LinopAdjoint.adjOpaque (.convDataAdj d f m s c : Opaque α) = .convData d f m s c) ∧
    (∀ d f m s c, Gen.LinopAdjoint.adjOpaque (.convFilt d f m s c : Opaque α) = .convFiltAdj d f m s c) ∧
    (∀ d f m s c, Gen.LinopAdjoint.adjOpaque (.convFiltAdj d f m s c : Opaque α) = .convFilt d f m s c) :=
  ⟨fun _ _ _ => rfl, fun _ _ _ => rfl, fun _ _ _ _ => rfl, fun _ _ _ _ => rfl, fun _ _ _ _ _ => rfl,
   fun _ _ _ _ => rfl, fun _ _ _ _ _ => rfl, fun _ _ _ _ _ => rfl, fun _ _ _ _ _ => rfl, fun _ _ _ _ _ => rfl⟩

variable (ofRat : Rat → α)

/-- hence `ConvolveData.H = ConvolveDataAdjoint(...)` etc. are true adjoints … -/
theorem conv_leaf_adjoint (hreal : ∀ r, star (ofRat r) = ofRat r) (c : Opaque α) (l : Leaf α)
    (h : convLeaf c = some l) : AdjOK ofRat (.leaf l) :=
  leafProved_adjOK ofRat hreal l (conv_leaf_proved c l h)

/-- … and so is `.H` of any tree that mixes them with the exact classes: e.g. a convolution followed by a
    broadcasting MatMul and a Resize, `⟨A x, y⟩ = ⟨x, A.H y⟩` with no hypothesis on the leaves. -/
theorem conv_tree_adjoint (hreal : ∀ r, star (ofRat r) = ofRat r) (c : Opaque α) (l : Leaf α)
    (h : convLeaf c = some l) (e₁ e₂ : Expr α) (h₁ : allLeaves LeafProved e₁) (h₂ : allLeaves LeafProved e₂) :
    AdjOK ofRat (.comp e₁ (.add (.comp (.leaf l) e₂) (.comp (.leaf l) e₂))) :=
  adj_denote_leaves ofRat hreal _ ⟨h₁, ⟨conv_leaf_proved c l h, h₂⟩, ⟨conv_leaf_proved c l h, h₂⟩⟩

/-- non-vacuity: a concrete 'full' convolution of a length-4 signal with a length-2 filter, stride 2, is a
    `3 × 4` leaf whose adjoint side is the `4 × 3` matrix of `ConvolveDataAdjoint` -/
example : ((convLeaf (α := ℤ) (.convData [4] ⟨[2], [1, 2]⟩ "full" (some [2]) false)).map fun l =>
    match l with
    | .ext _ o i E E' => (o, i, E.length, E'.length)
    | _ => ([], [], 0, 0)) = some ([3], [4], 12, 12) := by decide +kernel

end
end SigpyVerif.C01
