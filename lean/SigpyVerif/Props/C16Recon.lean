import SigpyVerif.Props.C14
import SigpyVerif.Gen.ReconSetup
import Mathlib.Analysis.InnerProductSpace.Basic
import Mathlib.Tactic.Linarith
/-
  C16 (recon part) — the `LinearLeastSquares` problem that `SenseRecon`, `L1WaveletRecon`, `TotalVariationRecon` set up
  IS the documented objective for the SENSE operator, and the solvers' fixed points minimise it.

  Every theorem is about `Gen.C16.recon…Call` (Gen/ReconSetup.lean), REGENERATED from the statements of the three
  `__init__`s and of `_estimate_weights` in sigpy/mri/app.py on every run: which weights reach `linop.Sense`, how `y` is
  pre-multiplied, what is passed as `lamda` / `proxg` / `G` to `LinearLeastSquares.__init__` (defaults of that
  constructor generated from sigpy/app.py).  They are instantiated at real inner-product spaces (`E` images, `F`
  multi-coil k-space, `H` range of `G`; complex arrays are real inner-product spaces with `Re⟨·,·⟩`):
    `Sense(mps, weights=w) = P_w ∘ FS` (`FS` = the unweighted encoding `x ↦ (F(S_c·x))_c`, `P_w` = multiplication by
    `√w`: `sense_denote` of Props/C16.lean), `y * w**(1/2) = P_w y`.
  The routing theorems of C14 (`cg_normal_eq`, `kkt_is_minimiser`, `pdhg_fixed_point_kkt_*`, `admm_fixed_point_kkt_*`,
  about the GENERATED solver set-ups of `LinearLeastSquares`) are then applied to the generated problem.
  Not proved (search only): the iterative solvers reach those fixed points in the given number of iterations.
-/
namespace SigpyVerif.C16
open SigpyVerif SigpyVerif.Gen.C16 SigpyVerif.C14 SigpyVerif.Gen.C14
open scoped RealInnerProductSpace
set_option linter.unusedSectionVars false
set_option linter.unusedVariables false

variable {E F H Wt : Type} [NormedAddCommGroup E] [InnerProductSpace ℝ E]
  [NormedAddCommGroup F] [InnerProductSpace ℝ F] [NormedAddCommGroup H] [InnerProductSpace ℝ H]

/-- `linop.Sense(mps, weights=w, …)` as a linear map: `FS` without weights, `P_w ∘ FS` with (Props/C16 `sense_denote`).
    If `coord` were not forwarded the operator would ignore the trajectory: that request has no meaning here (`0`). -/
def senseLin (FS : E →ₗ[ℝ] F) (P : Wt → F →ₗ[ℝ] F) (w : Option Wt) (coordFwd batchFwd transpFwd : Bool) : E →ₗ[ℝ] F :=
  if coordFwd then
    match w with
    | none => FS
    | some w => (P w).comp FS
  else 0

/-- its adjoint (`P_w` is a real diagonal multiplication: self-adjoint) -/
def senseLinH (FSH : F →ₗ[ℝ] E) (P : Wt → F →ₗ[ℝ] F) (w : Option Wt) : F →ₗ[ℝ] E :=
  match w with
  | none => FSH
  | some w => FSH.comp (P w)

/-- `y * w**e`: the multiplication by `√w` exactly when `e = 1/2` -/
def wmulLin (P : Wt → F →ₗ[ℝ] F) (w : Wt) (e : Rat) (y : F) : F := if e = (1 : Rat) / 2 then P w y else y

/-- the weights of the documented objective: the caller's; for Cartesian data without weights the sampling mask
    estimated from `y` (the `P` of `‖P F S x - y‖`); none otherwise -/
def docWeights (est : F → Wt) (y : F) (weights : Option Wt) (coordNone : Bool) : Option Wt :=
  match weights, coordNone with
  | some w, _ => some w
  | none, true => some (est y)
  | none, false => none

/-- the documented data term `½‖P (F S x - y)‖²` -/
noncomputable def docData (FS : E →ₗ[ℝ] F) (P : Wt → F →ₗ[ℝ] F) (w : Option Wt) (y : F) (x : E) : ℝ :=
  match w with
  | none => 1 / 2 * ‖FS x - y‖ ^ 2
  | some w => 1 / 2 * ‖P w (FS x - y)‖ ^ 2

/-- generated default `lamda = 0` of `LinearLeastSquares.__init__` -/
theorem lls_lamda_default : ((llsLamdaDefault : Rat) : ℝ) = 0 := by
  unfold llsLamdaDefault; norm_num

/-- the GENERATED `_estimate_weights` rule is the documented one -/
theorem estimate_weights_doc (est : F → Wt) (y : F) (weights : Option Wt) (coordNone : Bool) :
    estimateWeights est y weights coordNone = docWeights est y weights coordNone := by
  unfold estimateWeights docWeights
  cases weights <;> cases coordNone <;> rfl

/-- `y` after the pre-weighting: `P_w y` -/
def preweighted (P : Wt → F →ₗ[ℝ] F) (w : Option Wt) (y : F) : F :=
  match w with
  | some w => P w y
  | none => y

theorem recon_y_weighted (P : Wt → F →ₗ[ℝ] F) (w' : Option Wt) (y : F) (e : Rat) (he : e = 1 / 2) :
    (match w' with
      | some w => wmulLin P w e y
      | none => y) = preweighted P w' y := by
  cases w' <;> simp [wmulLin, preweighted, he]

section setups
variable (FS : E →ₗ[ℝ] F) (FSH : F →ₗ[ℝ] E) (P : Wt → F →ₗ[ℝ] F) (est : F → Wt) (fd : E →ₗ[ℝ] H)

/-- **SenseRecon sets up the documented problem.**  What `SenseRecon.__init__` (GENERATED `reconSenseReconCall`) hands to
    `LinearLeastSquares`: `A = P_w F S`, `y ↦ P_w y` with `w` the documented weights, `lamda = λ`, no `proxg`, no `G` —
    so that `½‖A x - y'‖² = ½‖P_w (F S x - y)‖²` for every `x`, every weights/coord combination. -/
theorem senserecon_setup (y : F) (weights : Option Wt) (coordNone : Bool) (lamda : ℝ) :
    let c := reconSenseReconCall (senseLin FS P) (wmulLin P) est fd ((llsLamdaDefault : Rat) : ℝ) y weights coordNone lamda
    c.A = senseLin FS P (docWeights est y weights coordNone) true true true ∧ c.lam = lamda ∧ c.proxL1 = none ∧ c.G = none ∧
      ∀ x, 1 / 2 * ‖c.A x - c.y‖ ^ 2 = docData FS P (docWeights est y weights coordNone) y x := by
  intro c
  refine ⟨?_, rfl, rfl, rfl, ?_⟩
  · show senseLin FS P (estimateWeights est y weights coordNone) true true true = _
    rw [estimate_weights_doc]
  · intro x
    have hA : c.A = senseLin FS P (docWeights est y weights coordNone) true true true := by
      show senseLin FS P (estimateWeights est y weights coordNone) true true true = _
      rw [estimate_weights_doc]
    have hy : c.y = preweighted P (docWeights est y weights coordNone) y := by
      rw [← estimate_weights_doc]
      exact recon_y_weighted P _ y _ (by norm_num)
    rw [hA, hy]
    cases docWeights est y weights coordNone <;> simp [senseLin, docData, preweighted, map_sub]

/-- **L1WaveletRecon**: same data term; `lamda` is NOT `LinearLeastSquares`' `λ/2‖x‖²` (that stays at its default 0) but
    the threshold of `proxg = UnitaryTransform(L1Reg(W.oshape, λ), W)`; no `G`. -/
theorem l1waveletrecon_setup (y : F) (weights : Option Wt) (coordNone : Bool) (lamda : ℝ) :
    let c := reconL1WaveletReconCall (senseLin FS P) (wmulLin P) est fd ((llsLamdaDefault : Rat) : ℝ) y weights coordNone lamda
    c.A = senseLin FS P (docWeights est y weights coordNone) true true true ∧ c.lam = 0 ∧ c.proxL1 = some lamda ∧
      c.proxUnitary = true ∧ c.proxOn = "W" ∧ c.G = none ∧
      ∀ x, 1 / 2 * ‖c.A x - c.y‖ ^ 2 = docData FS P (docWeights est y weights coordNone) y x := by
  intro c
  refine ⟨?_, lls_lamda_default, rfl, rfl, rfl, rfl, ?_⟩
  · show senseLin FS P (estimateWeights est y weights coordNone) true true true = _
    rw [estimate_weights_doc]
  · intro x
    have hA : c.A = senseLin FS P (docWeights est y weights coordNone) true true true := by
      show senseLin FS P (estimateWeights est y weights coordNone) true true true = _
      rw [estimate_weights_doc]
    have hy : c.y = preweighted P (docWeights est y weights coordNone) y := by
      rw [← estimate_weights_doc]
      exact recon_y_weighted P _ y _ (by norm_num)
    rw [hA, hy]
    cases docWeights est y weights coordNone <;> simp [senseLin, docData, preweighted, map_sub]

/-- **TotalVariationRecon**: same data term; `G = FiniteDifference(A.ishape)`, `proxg = L1Reg(G.oshape, λ)` (the prox of
    `λ‖·‖₁` on the range of `G`), `LinearLeastSquares`' own `lamda` at its default 0. -/
theorem tvrecon_setup (y : F) (weights : Option Wt) (coordNone : Bool) (lamda : ℝ) :
    let c := reconTotalVariationReconCall (senseLin FS P) (wmulLin P) est fd ((llsLamdaDefault : Rat) : ℝ) y weights coordNone lamda
    c.A = senseLin FS P (docWeights est y weights coordNone) true true true ∧ c.lam = 0 ∧ c.proxL1 = some lamda ∧
      c.proxUnitary = false ∧ c.proxOn = "G" ∧ c.G = some fd ∧
      ∀ x, 1 / 2 * ‖c.A x - c.y‖ ^ 2 = docData FS P (docWeights est y weights coordNone) y x := by
  intro c
  refine ⟨?_, lls_lamda_default, rfl, rfl, rfl, rfl, ?_⟩
  · show senseLin FS P (estimateWeights est y weights coordNone) true true true = _
    rw [estimate_weights_doc]
  · intro x
    have hA : c.A = senseLin FS P (docWeights est y weights coordNone) true true true := by
      show senseLin FS P (estimateWeights est y weights coordNone) true true true = _
      rw [estimate_weights_doc]
    have hy : c.y = preweighted P (docWeights est y weights coordNone) y := by
      rw [← estimate_weights_doc]
      exact recon_y_weighted P _ y _ (by norm_num)
    rw [hA, hy]
    cases docWeights est y weights coordNone <;> simp [senseLin, docData, preweighted, map_sub]

/-- the adjoint of `P_w F S` is `(F S)ᴴ P_w` -/
theorem senseLin_isAdj (hFS : IsAdj FS FSH) (hP : ∀ w, IsAdj (P w) (P w)) (w : Option Wt) :
    IsAdj (senseLin FS P w true true true) (senseLinH FSH P w) := by
  intro x u
  cases w with
  | none => simpa [senseLin, senseLinH] using hFS x u
  | some w =>
    simp only [senseLin, senseLinH, if_true, LinearMap.comp_apply]
    rw [hP w, hFS]

/-- **senserecon_cg_minimises.**  For the problem `SenseRecon` sets up (generated), the system `ConjugateGradient` is
    given by `LinearLeastSquares` (C14's GENERATED `cgArgs`) is solved by `x` iff `x` minimises the DOCUMENTED objective
    `½‖P_w (F S x - y)‖² + λ/2‖x‖²` over all images (`λ ≥ 0`; `y` is the caller's k-space, `w` the documented weights). -/
theorem senserecon_cg_minimises (hFS : IsAdj FS FSH) (hP : ∀ w, IsAdj (P w) (P w))
    (y : F) (weights : Option Wt) (coordNone : Bool) (lamda : ℝ) (hl : 0 ≤ lamda) (x : E) :
    let c := reconSenseReconCall (senseLin FS P) (wmulLin P) est fd ((llsLamdaDefault : Rat) : ℝ) y weights coordNone lamda
    let w := docWeights est y weights coordNone
    ((cgArgs c.A (senseLinH FSH P w) c.y c.lam none).sys x = (cgArgs c.A (senseLinH FSH P w) c.y c.lam none).rhs) ↔
      ∀ x', docData FS P w y x + lamda / 2 * ‖x‖ ^ 2 ≤ docData FS P w y x' + lamda / 2 * ‖x'‖ ^ 2 := by
  intro c w
  obtain ⟨hA, hlam, -, -, hdata⟩ := senserecon_setup FS P est fd y weights coordNone lamda
  have hadj : IsAdj c.A (senseLinH FSH P w) := by rw [hA]; exact senseLin_isAdj FS FSH P hFS hP w
  rw [cg_normal_eq c.A _ hadj c.y c.lam (by rw [hlam]; exact hl) none x]
  have e : ∀ t, smooth c.A c.y c.lam (zOf (none : Option E)) t = docData FS P w y t + lamda / 2 * ‖t‖ ^ 2 := by
    intro t
    unfold smooth zOf
    rw [hdata t, hlam]; simp [w]
  simp only [e]

/-- **tvrecon_kkt_minimises / l1waveletrecon (with `G = W`).**  For the problem `TotalVariationRecon` sets up (generated):
    a KKT point of `LinearLeastSquares`' objective — which by C14's `pdhg_fixed_point_kkt_G` / `admm_fixed_point_kkt_G`
    is exactly what a fixed point of the GENERATED PDHG / ADMM set-up is — minimises the DOCUMENTED objective
    `½‖P_w (F S x - y)‖² + g(G x)`, `g` convex with subgradient relation `dg` (`g = λ‖·‖₁` for `L1Reg(G.oshape, λ)`). -/
theorem tvrecon_kkt_minimises (FDH : H →ₗ[ℝ] E) (hFS : IsAdj FS FSH) (hP : ∀ w, IsAdj (P w) (P w)) (hG : IsAdj fd FDH)
    (g : H → ℝ) (dg : H → Set H) (hsub : ∀ p w, w ∈ dg p → ∀ q, g p + ⟪w, q - p⟫ ≤ g q)
    (y : F) (weights : Option Wt) (coordNone : Bool) (lamda : ℝ) (x : E) (u : H) :
    let c := reconTotalVariationReconCall (senseLin FS P) (wmulLin P) est fd ((llsLamdaDefault : Rat) : ℝ) y weights coordNone lamda
    let w := docWeights est y weights coordNone
    c.G = some fd → IsKKT c.A (senseLinH FSH P w) fd FDH dg c.y c.lam 0 x u →
      ∀ x', docData FS P w y x + g (fd x) ≤ docData FS P w y x' + g (fd x') := by
  intro c w _ hk x'
  obtain ⟨hA, hlam, -, -, -, -, hdata⟩ := tvrecon_setup FS P est fd y weights coordNone lamda
  have hadj : IsAdj c.A (senseLinH FSH P w) := by rw [hA]; exact senseLin_isAdj FS FSH P hFS hP w
  have := kkt_is_minimiser c.A _ hadj fd FDH hG g dg hsub c.y c.lam (by rw [hlam]) 0 x u hk x'
  unfold Obj at this
  rw [hdata x, hdata x', hlam] at this
  linarith

end setups

/-- **unitary_transform_prox.**  `UnitaryTransform(prox_g, W)` — `v ↦ Wᴴ prox_g(α, W v)` — is the proximal operator of
    `g ∘ W` whenever `W` is unitary (`Wᴴ W = I`, `W Wᴴ = I`): its optimality relation is the subgradient relation of
    `g ∘ W`, `{u | W u ∈ ∂g(W x)}`.  This is why `L1WaveletRecon` minimises `½‖P F S x - y‖² + λ‖W x‖₁` only for a
    unitary wavelet transform (the property's proviso). -/
theorem unitary_transform_prox (W : E →ₗ[ℝ] H) (WH : H →ₗ[ℝ] E) (h1 : ∀ x, WH (W x) = x) (h2 : ∀ v, W (WH v) = v)
    (p : ℝ → H → H) (dg : H → Set H) (hp : IsProxOf p dg) :
    IsProxOf (fun α v => WH (p α (W v))) (fun x => {u | W u ∈ dg (W x)}) := by
  intro α hα v w
  have e : WH (p α (W v)) = w ↔ p α (W v) = W w := by
    constructor
    · intro h; rw [← h, h2]
    · intro h; rw [h, h1]
  show WH (p α (W v)) = w ↔ W ((1 / α) • (v - w)) ∈ dg (W w)
  rw [e, hp α hα, map_smul, map_sub]

/-- non-vacuity: the identity is a unitary transform, the identity multiplication is self-adjoint -/
example : IsAdj (LinearMap.id : E →ₗ[ℝ] E) LinearMap.id := fun _ _ => rfl

end SigpyVerif.C16
