import SigpyVerif.Model.C09
import SigpyVerif.Lemmas.Py
set_option linter.unusedTactic false
set_option linter.unreachableTactic false
/-
  C09 — Resize/shift/resample/block functions move exactly the documented elements.
  Property theorems only (helper lemmas live in `Lemmas/`).  Everything is stated about the
  definitions in `Gen.*` that the translator regenerates from sigpy on every run, or about the
  hand-written model in `Model/C09.lean`, which the correspondence check ties to the code.
  This file: one axis at a time + membership in the block loop nests.  N-d / whole-array statements:
  `Lemmas/C09.lean` (row-major enumeration), `Props/C09Nd.lean` (resize), `Props/C09Samp.lean`
  (down/upsample), `Props/C09Shift.lean` (flip, circshift), `Props/C09Block.lean` (gather destinations
  unique, scatter multiplicities).  Proofs about generated formulas compare them as integers
  (`same_arith`), so a commuted / re-associated sum in the source still checks and a different value
  does not.
-/
namespace SigpyVerif.C09
open SigpyVerif

/-- closes `f a = f b` for generated formulas whose arguments agree as integers (the source may
    commute or re-associate a sum); fails when the values differ -/
macro "same_arith" : tactic =>
  `(tactic| first | rfl | (congr 1 <;> ring) | (congr 2 <;> ring))

/-! ### resize -/

/-- With the default shifts, output index `k` reads input index `j` exactly when both are in range
    and `j - i//2 = k - o//2`: index `i//2` of the input is aligned with index `o//2` of the output,
    and *every* pair that can be copied is copied (pad, crop, and mixed cases alike). -/
theorem resize_default_aligns (i o k j : Int) :
    resizeSrc1 i o (Gen.resizeIshiftDefault i o) (Gen.resizeOshiftDefault i o) k = some j ↔
      (0 ≤ k ∧ k < o ∧ 0 ≤ j ∧ j < i ∧ j - i / 2 = k - o / 2) := by
  unfold resizeSrc1 Gen.resizeIshiftDefault Gen.resizeOshiftDefault Gen.resizeCopyLen pyMax pyMin
  simp only [pyDiv_of_pos _ (show (0 : Int) < 2 by decide)]
  split_ifs <;> simp <;> omega

/-- With explicit in-range shifts the copy never reads or writes out of bounds. -/
theorem resize_in_bounds (i o si so k j : Int) (h1 : 0 ≤ si) (h2 : 0 ≤ so)
    (h : resizeSrc1 i o si so k = some j) : 0 ≤ k ∧ k < o ∧ 0 ≤ j ∧ j < i := by
  unfold resizeSrc1 Gen.resizeCopyLen pyMin at h
  split_ifs at h <;> simp at h <;> omega

/-- Swapping the roles of input and output (and of the two shifts) gives the transposed index
    relation: this is why `Resize(o,i,ishift,oshift).H = Resize(i,o,oshift,ishift)`. -/
theorem resize_transpose (i o si so k j : Int) :
    resizeSrc1 i o si so k = some j ↔ resizeSrc1 o i so si j = some k := by
  unfold resizeSrc1 Gen.resizeCopyLen pyMin
  split_ifs <;> simp <;> omega

/-- The default shift of one side is the swapped default of the other. -/
theorem resize_default_swap (i o : Int) :
    Gen.resizeIshiftDefault i o = Gen.resizeOshiftDefault o i := by
  -- robust to commuted / re-associated arithmetic in the source: compared as integers, not syntactically
  unfold Gen.resizeIshiftDefault Gen.resizeOshiftDefault
  first
  | rfl
  | (unfold pyMax; simp only [pyDiv_of_pos _ (show (0 : Int) < 2 by decide)]; split_ifs <;> omega)

example : resizeSrc1 5 8 (Gen.resizeIshiftDefault 5 8) (Gen.resizeOshiftDefault 5 8) 2 = some 0 := by decide
example : resizeSrc1 7 4 (Gen.resizeIshiftDefault 7 4) (Gen.resizeOshiftDefault 7 4) 0 = some 1 := by decide

/-! ### circshift (numpy.roll contract) -/

/-- rolling by `s` and then by `-s` is the identity on `0 ≤ k < n` -/
theorem roll_inverse (n s k : Int) (hn : 0 < n) (hk : 0 ≤ k) (hkn : k < n) :
    rollSrc n s (rollSrc n (-s) k) = k := by
  unfold rollSrc
  rw [pyMod_of_pos _ hn, pyMod_of_pos _ hn]
  rw [Int.emod_sub_emod]  -- ((k + s) % n - s) % n
  have : k - -s - s = k := by ring
  rw [this]; exact Int.emod_eq_of_lt hk hkn

/-- a roll is a bijection of `0 ≤ k < n`: sources stay in range -/
theorem roll_in_range (n s k : Int) (hn : 0 < n) : 0 ≤ rollSrc n s k ∧ rollSrc n s k < n := by
  unfold rollSrc; rw [pyMod_of_pos _ hn]
  exact ⟨Int.emod_nonneg _ (by omega), Int.emod_lt_of_pos _ hn⟩

/-! ### downsample / upsample -/

/-- `Downsample`'s advertised length `(i - s + f - 1) // f` counts exactly the indices
    `s, s+f, s+2f, … < i` that the slice `s::f` selects. -/
theorem downsampleLen_spec (i f s k : Int) (hf : 0 < f) :
    (0 ≤ k ∧ s + k * f < i) ↔ (0 ≤ k ∧ k < Gen.downsampleLen i f s) := by
  have key : Gen.downsampleLen i f s = pyDiv (i - s + f - 1) f := by
    unfold Gen.downsampleLen; same_arith
  rw [key, pyDiv_of_pos _ hf]
  constructor
  · rintro ⟨h0, h1⟩
    refine ⟨h0, ?_⟩
    have : k + 1 ≤ (i - s + f - 1) / f := (Int.le_ediv_iff_mul_le hf).mpr (by nlinarith)
    omega
  · rintro ⟨h0, h1⟩
    refine ⟨h0, ?_⟩
    have : (k + 1) * f ≤ i - s + f - 1 := (Int.le_ediv_iff_mul_le hf).mp (by omega)
    nlinarith

theorem upsampleLen_eq_downsampleLen (i f s : Int) : Gen.upsampleLen i f s = Gen.downsampleLen i f s := by
  -- the two `__init__` sites may write the same sum in a different order
  unfold Gen.upsampleLen Gen.downsampleLen
  same_arith

/-- upsample's membership test recovers exactly the index downsample took: `(s + k f - s)` is a
    non-negative multiple of `f` with quotient `k`; so `downsample ∘ upsample = id` and
    `upsample ∘ downsample` keeps the sampled positions and zeroes the rest. -/
theorem up_down_index (f s k : Int) (hf : 0 < f) (hk : 0 ≤ k) :
    0 ≤ (s + k * f) - s ∧ pyMod ((s + k * f) - s) f = 0 ∧ pyDiv ((s + k * f) - s) f = k := by
  rw [pyMod_of_pos _ hf, pyDiv_of_pos _ hf]
  have : s + k * f - s = k * f := by ring
  rw [this]
  refine ⟨by positivity, by simp, Int.mul_ediv_cancel _ (by omega)⟩

/-- conversely a position passing upsample's test is one downsample reads -/
theorem up_test_is_sample (f s d : Int) (hf : 0 < f) (h0 : 0 ≤ d - s) (h1 : pyMod (d - s) f = 0) :
    d = s + pyDiv (d - s) f * f ∧ 0 ≤ pyDiv (d - s) f := by
  rw [pyMod_of_pos _ hf] at h1
  rw [pyDiv_of_pos _ hf]
  have := Int.ediv_mul_cancel (Int.dvd_of_emod_eq_zero h1)
  exact ⟨by linarith, Int.ediv_nonneg h0 (by omega)⟩

/-! ### blocks: the generated loop nests -/

/-- `num_blks = (N - B + S) // S` is the largest block count whose last block still fits
    (for `B ≤ N`), so the in-bounds guard of `_array_to_blocks*` is never false. -/
theorem numBlks_maximal (N B S : Int) (hS : 0 < S) (hB : B ≤ N) :
    (∀ n, 0 ≤ n → n < Gen.numBlks N B S → n * S + B ≤ N) ∧
    N < Gen.numBlks N B S * S + B ∧ 0 < Gen.numBlks N B S := by
  have key : Gen.numBlks N B S = pyDiv (N - B + S) S := by unfold Gen.numBlks; same_arith
  rw [key, pyDiv_of_pos _ hS]
  have hle : (N - B + S) / S * S ≤ N - B + S := Int.ediv_mul_le _ (by omega)
  have hlt : N - B + S < ((N - B + S) / S + 1) * S := by
    have := Int.lt_ediv_add_one_mul_self (N - B + S) hS
    linarith
  refine ⟨?_, by nlinarith, ?_⟩
  · intro n h0 h1
    have : (n + 1) * S ≤ (N - B + S) / S * S := by
      apply mul_le_mul_of_nonneg_right (by omega) (by omega)
    nlinarith
  · have : 1 ≤ (N - B + S) / S := (Int.le_ediv_iff_mul_le hS).mpr (by omega)
    omega

theorem numBlks_sites_agree (i b s : Int) :
    Gen.a2bNumBlks i b s = Gen.numBlks i b s ∧ Gen.b2aNumBlks i b s = Gen.numBlks i b s := by
  -- the three `num_blks` sites (block.py, ArrayToBlocks, BlocksToArray) may commute / re-associate
  -- `i - b + s`; a different value (e.g. `i - b + s - 1`) does not check
  unfold Gen.a2bNumBlks Gen.b2aNumBlks Gen.numBlks
  constructor <;> same_arith

/-- `_array_to_blocks1`: block `(n, b)` reads array index `n·S + b` — exactly the window starting
    at each stride multiple — for every batch, and nothing else is written. -/
theorem a2b1_mem (osh ish : Int → Int) (batch B S N : Int) (u : Upd Rat) :
    u ∈ Gen.a2b1 osh ish batch B S N ↔
      ∃ b n x, 0 ≤ b ∧ b < batch ∧ 0 ≤ n ∧ n < N ∧ 0 ≤ x ∧ x < B ∧ n * S + x < ish (-1) ∧
        u = ([b, n, x], [b, n * S + x], 1) := by
  unfold Gen.a2b1
  simp only [List.mem_flatMap, mem_pyRange0']
  constructor
  · rintro ⟨b, ⟨hb0, hb1⟩, n, ⟨hn0, hn1⟩, x, ⟨hx0, hx1⟩, h⟩
    split_ifs at h with hg
    · simp at h; exact ⟨b, n, x, hb0, hb1, hn0, hn1, hx0, hx1, hg, h⟩
    · simp at h
  · rintro ⟨b, n, x, hb0, hb1, hn0, hn1, hx0, hx1, hg, rfl⟩
    refine ⟨b, ⟨hb0, hb1⟩, n, ⟨hn0, hn1⟩, x, ⟨hx0, hx1⟩, ?_⟩
    simp [hg]

/-- `_blocks_to_array1` is the transpose of `_array_to_blocks1`: array index `n·S + x` receives
    block entry `(n, x)`, for *every* in-range pair (overlaps accumulate because the kernel uses
    `+=`, see `Gen.b2a1_accumulates`), and nothing else is touched (uncovered indices stay 0). -/
theorem b2a1_mem (osh ish : Int → Int) (batch B S N : Int) (hS : 0 < S) (u : Upd Rat) :
    u ∈ Gen.b2a1 osh ish batch B S N ↔
      ∃ b n x, 0 ≤ b ∧ b < batch ∧ 0 ≤ n ∧ n < N ∧ 0 ≤ x ∧ x < B ∧ n * S + x < osh (-1) ∧
        u = ([b, n * S + x], [b, n, x], 1) := by
  unfold Gen.b2a1
  simp only [List.mem_flatMap, mem_pyRange0']
  constructor
  · rintro ⟨b, ⟨hb0, hb1⟩, ix, ⟨hi0, hi1⟩, bx, hbx, h⟩
    split_ifs at h with hg
    · have := (scatter_iff S B N ix bx hS).mp ⟨hbx, hg.1, hg.2⟩
      obtain ⟨h0, h2, h4, h5, h6⟩ := this
      simp at h
      refine ⟨b, pyDiv (ix - bx) S, bx, hb0, hb1, h4, h5, h0, h2, by omega, ?_⟩
      rw [h, ← h6]
    · simp at h
  · rintro ⟨b, n, x, hb0, hb1, hn0, hn1, hx0, hx1, hg, rfl⟩
    have hq : pyDiv (n * S + x - x) S = n := by
      rw [pyDiv_of_pos _ hS]; simp [Int.mul_ediv_cancel _ (ne_of_gt hS)]
    have := (scatter_iff S B N (n * S + x) x hS).mpr ⟨hx0, hx1, by rw [hq]; exact hn0, by rw [hq]; exact hn1, by rw [hq]⟩
    refine ⟨b, ⟨hb0, hb1⟩, n * S + x, ⟨by positivity, hg⟩, x, this.1, ?_⟩
    have hq' : pyDiv (n * S) S = n := by
      rw [pyDiv_of_pos _ hS]; exact Int.mul_ediv_cancel _ (ne_of_gt hS)
    simp [hq', hn0, hn1]

/-- gather and scatter are mutually transposed relations when both see the same array length -/
theorem b2a1_transpose_a2b1 (osh ish osh' ish' : Int → Int) (batch B S N : Int) (hS : 0 < S)
    (hlen : osh (-1) = ish' (-1)) (d s : List Int) (w : Rat) :
    (d, s, w) ∈ Gen.b2a1 osh ish batch B S N ↔ (s, d, w) ∈ Gen.a2b1 osh' ish' batch B S N := by
  rw [b2a1_mem _ _ _ _ _ _ hS, a2b1_mem]
  constructor <;> rintro ⟨b, n, x, h1, h2, h3, h4, h5, h6, h7, h8⟩ <;>
    refine ⟨b, n, x, h1, h2, h3, h4, h5, h6, by simpa [hlen] using h7, ?_⟩ <;>
    simp only [Prod.mk.injEq] at h8 ⊢ <;> tauto

/-! ### advertised lengths, flip -/

/-- The length of the numpy slice `s::f` (what `util.downsample` returns) equals the length
    `Downsample`/`Upsample` advertise, `(n - s + f - 1) // f`, whenever that is non-negative. -/
theorem sliceLen_eq_advertised (n s f : Int) (hf : 0 < f) (h : 0 ≤ Gen.downsampleLen n f s) :
    (sliceLen n s f : Int) = Gen.downsampleLen n f s := by
  have key : Gen.downsampleLen n f s = pyDiv (n - s + f - 1) f := by
    unfold Gen.downsampleLen; same_arith
  rw [key, pyDiv_of_pos _ hf] at h ⊢
  unfold sliceLen pyRange
  rw [if_neg (by omega)]
  simp only [List.length_map, List.length_range]
  rw [Int.toNat_of_nonneg h]

/-- flipping twice is the identity on the index level, and a flipped index stays in range -/
theorem flip_index (n k : Int) (h0 : 0 ≤ k) (h1 : k < n) :
    n - 1 - (n - 1 - k) = k ∧ 0 ≤ n - 1 - k ∧ n - 1 - k < n := by omega

/-! ### 2-D and 3-D block loop nests -/

/-- `_array_to_blocks2`: block `(ny, nx, by, bx)` reads array position `(ny·Sy + by, nx·Sx + bx)`;
    `y` indices pair with `Sy/By/Ny`, `x` indices with `Sx/Bx/Nx`, output index order
    `[b, ny, nx, by, bx]`. -/
theorem a2b2_mem (osh ish : Int → Int) (batch Bx By Sx Sy Nx Ny : Int) (u : Upd Rat) :
    u ∈ Gen.a2b2 osh ish batch Bx By Sx Sy Nx Ny ↔
      ∃ b ny nx y x, 0 ≤ b ∧ b < batch ∧ 0 ≤ ny ∧ ny < Ny ∧ 0 ≤ nx ∧ nx < Nx ∧
        0 ≤ y ∧ y < By ∧ 0 ≤ x ∧ x < Bx ∧ nx * Sx + x < ish (-1) ∧ ny * Sy + y < ish (-2) ∧
        u = ([b, ny, nx, y, x], [b, ny * Sy + y, nx * Sx + x], 1) := by
  unfold Gen.a2b2
  simp only [List.mem_flatMap, mem_pyRange0']
  constructor
  · rintro ⟨b, hb, ny, hny, nx, hnx, y, hy, x, hx, h⟩
    split_ifs at h with hg
    · simp at h
      exact ⟨b, ny, nx, y, x, hb.1, hb.2, hny.1, hny.2, hnx.1, hnx.2, hy.1, hy.2, hx.1, hx.2, hg.1, hg.2, h⟩
    · simp at h
  · rintro ⟨b, ny, nx, y, x, hb0, hb1, hny0, hny1, hnx0, hnx1, hy0, hy1, hx0, hx1, hgx, hgy, rfl⟩
    refine ⟨b, ⟨hb0, hb1⟩, ny, ⟨hny0, hny1⟩, nx, ⟨hnx0, hnx1⟩, y, ⟨hy0, hy1⟩, x, ⟨hx0, hx1⟩, ?_⟩
    simp [hgx, hgy]

/-- `_blocks_to_array2` is the transpose of `_array_to_blocks2`. -/
theorem b2a2_mem (osh ish : Int → Int) (batch Bx By Sx Sy Nx Ny : Int) (hSx : 0 < Sx) (hSy : 0 < Sy)
    (u : Upd Rat) :
    u ∈ Gen.b2a2 osh ish batch Bx By Sx Sy Nx Ny ↔
      ∃ b ny nx y x, 0 ≤ b ∧ b < batch ∧ 0 ≤ ny ∧ ny < Ny ∧ 0 ≤ nx ∧ nx < Nx ∧
        0 ≤ y ∧ y < By ∧ 0 ≤ x ∧ x < Bx ∧ nx * Sx + x < osh (-1) ∧ ny * Sy + y < osh (-2) ∧
        u = ([b, ny * Sy + y, nx * Sx + x], [b, ny, nx, y, x], 1) := by
  unfold Gen.b2a2
  simp only [List.mem_flatMap, mem_pyRange0']
  constructor
  · rintro ⟨b, hb, iy, hiy, ix, hix, y, hy, h⟩
    split_ifs at h with hgy
    · simp only [List.mem_flatMap] at h
      obtain ⟨x, hx, h⟩ := h
      split_ifs at h with hgx
      · obtain ⟨y0, y2, y4, y5, y6⟩ := (scatter_iff Sy By Ny iy y hSy).mp ⟨hy, hgy.1, hgy.2⟩
        obtain ⟨x0, x2, x4, x5, x6⟩ := (scatter_iff Sx Bx Nx ix x hSx).mp ⟨hx, hgx.1, hgx.2⟩
        simp at h
        refine ⟨b, pyDiv (iy - y) Sy, pyDiv (ix - x) Sx, y, x, hb.1, hb.2, y4, y5, x4, x5, y0, y2, x0, x2,
          by omega, by omega, ?_⟩
        rw [h, ← y6, ← x6]
      · simp at h
    · simp at h
  · rintro ⟨b, ny, nx, y, x, hb0, hb1, hny0, hny1, hnx0, hnx1, hy0, hy1, hx0, hx1, hgx, hgy, rfl⟩
    have hqy : pyDiv (ny * Sy + y - y) Sy = ny := by
      rw [pyDiv_of_pos _ hSy]; simp [Int.mul_ediv_cancel _ (ne_of_gt hSy)]
    have hqx : pyDiv (nx * Sx + x - x) Sx = nx := by
      rw [pyDiv_of_pos _ hSx]; simp [Int.mul_ediv_cancel _ (ne_of_gt hSx)]
    have hy := (scatter_iff Sy By Ny (ny * Sy + y) y hSy).mpr
      ⟨hy0, hy1, by rw [hqy]; exact hny0, by rw [hqy]; exact hny1, by rw [hqy]⟩
    have hx := (scatter_iff Sx Bx Nx (nx * Sx + x) x hSx).mpr
      ⟨hx0, hx1, by rw [hqx]; exact hnx0, by rw [hqx]; exact hnx1, by rw [hqx]⟩
    refine ⟨b, ⟨hb0, hb1⟩, ny * Sy + y, ⟨by positivity, hgy⟩, nx * Sx + x, ⟨by positivity, hgx⟩, y, hy.1, ?_⟩
    rw [if_pos ⟨by rw [hqy]; exact hny0, by rw [hqy]; exact hny1⟩]
    simp only [List.mem_flatMap]
    refine ⟨x, hx.1, ?_⟩
    rw [if_pos ⟨by rw [hqx]; exact hnx0, by rw [hqx]; exact hnx1⟩]
    have hqy' : pyDiv (ny * Sy) Sy = ny := by
      rw [pyDiv_of_pos _ hSy]; exact Int.mul_ediv_cancel _ (ne_of_gt hSy)
    have hqx' : pyDiv (nx * Sx) Sx = nx := by
      rw [pyDiv_of_pos _ hSx]; exact Int.mul_ediv_cancel _ (ne_of_gt hSx)
    simp [hqy', hqx']

theorem pyDiv_mul_add_sub (n S x : Int) (hS : 0 < S) : pyDiv (n * S + x - x) S = n := by
  rw [pyDiv_of_pos _ hS]; simp [Int.mul_ediv_cancel _ (ne_of_gt hS)]

/-- `_array_to_blocks3`: block `(nz,ny,nx,bz,by,bx)` reads `(nz·Sz+bz, ny·Sy+by, nx·Sx+bx)`. -/
theorem a2b3_mem (osh ish : Int → Int) (batch Bx By Bz Sx Sy Sz Nx Ny Nz : Int) (u : Upd Rat) :
    u ∈ Gen.a2b3 osh ish batch Bx By Bz Sx Sy Sz Nx Ny Nz ↔
      ∃ b nz ny nx z y x, 0 ≤ b ∧ b < batch ∧ 0 ≤ nz ∧ nz < Nz ∧ 0 ≤ ny ∧ ny < Ny ∧ 0 ≤ nx ∧ nx < Nx ∧
        0 ≤ z ∧ z < Bz ∧ 0 ≤ y ∧ y < By ∧ 0 ≤ x ∧ x < Bx ∧
        nx * Sx + x < ish (-1) ∧ ny * Sy + y < ish (-2) ∧ nz * Sz + z < ish (-3) ∧
        u = ([b, nz, ny, nx, z, y, x], [b, nz * Sz + z, ny * Sy + y, nx * Sx + x], 1) := by
  unfold Gen.a2b3
  simp only [List.mem_flatMap, mem_pyRange0']
  constructor
  · rintro ⟨b, hb, nz, hnz, ny, hny, nx, hnx, z, hz, y, hy, x, hx, h⟩
    split_ifs at h with hg
    · simp at h
      exact ⟨b, nz, ny, nx, z, y, x, hb.1, hb.2, hnz.1, hnz.2, hny.1, hny.2, hnx.1, hnx.2, hz.1, hz.2,
        hy.1, hy.2, hx.1, hx.2, hg.1, hg.2.1, hg.2.2, h⟩
    · simp at h
  · rintro ⟨b, nz, ny, nx, z, y, x, hb0, hb1, hnz0, hnz1, hny0, hny1, hnx0, hnx1, hz0, hz1, hy0, hy1,
      hx0, hx1, hgx, hgy, hgz, rfl⟩
    refine ⟨b, ⟨hb0, hb1⟩, nz, ⟨hnz0, hnz1⟩, ny, ⟨hny0, hny1⟩, nx, ⟨hnx0, hnx1⟩, z, ⟨hz0, hz1⟩,
      y, ⟨hy0, hy1⟩, x, ⟨hx0, hx1⟩, ?_⟩
    simp [hgx, hgy, hgz]

/-- `_blocks_to_array3` is the transpose of `_array_to_blocks3`. -/
theorem b2a3_mem (osh ish : Int → Int) (batch Bx By Bz Sx Sy Sz Nx Ny Nz : Int)
    (hSx : 0 < Sx) (hSy : 0 < Sy) (hSz : 0 < Sz) (u : Upd Rat) :
    u ∈ Gen.b2a3 osh ish batch Bx By Bz Sx Sy Sz Nx Ny Nz ↔
      ∃ b nz ny nx z y x, 0 ≤ b ∧ b < batch ∧ 0 ≤ nz ∧ nz < Nz ∧ 0 ≤ ny ∧ ny < Ny ∧ 0 ≤ nx ∧ nx < Nx ∧
        0 ≤ z ∧ z < Bz ∧ 0 ≤ y ∧ y < By ∧ 0 ≤ x ∧ x < Bx ∧
        nx * Sx + x < osh (-1) ∧ ny * Sy + y < osh (-2) ∧ nz * Sz + z < osh (-3) ∧
        u = ([b, nz * Sz + z, ny * Sy + y, nx * Sx + x], [b, nz, ny, nx, z, y, x], 1) := by
  unfold Gen.b2a3
  simp only [List.mem_flatMap, mem_pyRange0']
  constructor
  · rintro ⟨b, hb, iz, hiz, iy, hiy, ix, hix, z, hz, y, hy, x, hx, h⟩
    split_ifs at h with hg
    · obtain ⟨gx0, gx1, gy0, gy1, gz0, gz1⟩ := hg
      obtain ⟨z0, z2, z4, z5, z6⟩ := (scatter_iff Sz Bz Nz iz z hSz).mp ⟨hz, gz0, gz1⟩
      obtain ⟨y0, y2, y4, y5, y6⟩ := (scatter_iff Sy By Ny iy y hSy).mp ⟨hy, gy0, gy1⟩
      obtain ⟨x0, x2, x4, x5, x6⟩ := (scatter_iff Sx Bx Nx ix x hSx).mp ⟨hx, gx0, gx1⟩
      simp at h
      refine ⟨b, pyDiv (iz - z) Sz, pyDiv (iy - y) Sy, pyDiv (ix - x) Sx, z, y, x, hb.1, hb.2,
        z4, z5, y4, y5, x4, x5, z0, z2, y0, y2, x0, x2, by omega, by omega, by omega, ?_⟩
      rw [h, ← z6, ← y6, ← x6]
    · simp at h
  · rintro ⟨b, nz, ny, nx, z, y, x, hb0, hb1, hnz0, hnz1, hny0, hny1, hnx0, hnx1, hz0, hz1, hy0, hy1,
      hx0, hx1, hgx, hgy, hgz, rfl⟩
    have hqz := pyDiv_mul_add_sub nz Sz z hSz
    have hqy := pyDiv_mul_add_sub ny Sy y hSy
    have hqx := pyDiv_mul_add_sub nx Sx x hSx
    have hz := (scatter_iff Sz Bz Nz (nz * Sz + z) z hSz).mpr
      ⟨hz0, hz1, by rw [hqz]; exact hnz0, by rw [hqz]; exact hnz1, by rw [hqz]⟩
    have hy := (scatter_iff Sy By Ny (ny * Sy + y) y hSy).mpr
      ⟨hy0, hy1, by rw [hqy]; exact hny0, by rw [hqy]; exact hny1, by rw [hqy]⟩
    have hx := (scatter_iff Sx Bx Nx (nx * Sx + x) x hSx).mpr
      ⟨hx0, hx1, by rw [hqx]; exact hnx0, by rw [hqx]; exact hnx1, by rw [hqx]⟩
    refine ⟨b, ⟨hb0, hb1⟩, nz * Sz + z, ⟨by positivity, hgz⟩, ny * Sy + y, ⟨by positivity, hgy⟩,
      nx * Sx + x, ⟨by positivity, hgx⟩, z, hz.1, y, hy.1, x, hx.1, ?_⟩
    rw [if_pos ⟨by rw [hqx]; exact hnx0, by rw [hqx]; exact hnx1, by rw [hqy]; exact hny0,
      by rw [hqy]; exact hny1, by rw [hqz]; exact hnz0, by rw [hqz]; exact hnz1⟩]
    have hqz' : pyDiv (nz * Sz) Sz = nz := by
      rw [pyDiv_of_pos _ hSz]; exact Int.mul_ediv_cancel _ (ne_of_gt hSz)
    have hqy' : pyDiv (ny * Sy) Sy = ny := by
      rw [pyDiv_of_pos _ hSy]; exact Int.mul_ediv_cancel _ (ne_of_gt hSy)
    have hqx' : pyDiv (nx * Sx) Sx = nx := by
      rw [pyDiv_of_pos _ hSx]; exact Int.mul_ediv_cancel _ (ne_of_gt hSx)
    simp [hqz', hqy', hqx']

end SigpyVerif.C09
