import SigpyVerif.Props.C09
import SigpyVerif.Lemmas.C09
set_option linter.unusedTactic false
set_option linter.unreachableTactic false
/-
  C09 — N-dimensional statements.  `Props/C09.lean` proves the index maps one axis at a time; here they
  are lifted to the functions the driver actually runs (`C09.resize`, `downsample`, `upsample` of
  Model/C09.lean, compared with `sigpy.util` on every run) on whole row-major arrays
  (`flip` / `circshift` are in Props/C09Shift.lean, blocks in Props/C09Block.lean).
-/
namespace SigpyVerif.C09
open SigpyVerif

/-! ### `_expand_shapes` -/

/-- `_expand_shapes` left-pads both shapes with ones to the common rank `max (len a) (len b)` -/
theorem expandShapes_spec (a b : List Int) :
    (expandShapes a b).1 = List.replicate (max a.length b.length - a.length) 1 ++ a ∧
    (expandShapes a b).2 = List.replicate (max a.length b.length - b.length) 1 ++ b ∧
    (expandShapes a b).1.length = max a.length b.length ∧
    (expandShapes a b).2.length = max a.length b.length := by
  unfold expandShapes
  refine ⟨rfl, rfl, ?_, ?_⟩ <;> simp only [List.length_append, List.length_replicate] <;> omega

/-- padding with ones does not change the number of elements: the expanded input/output are
    reshapes of the original arrays -/
theorem expandShapes_prod (a b : List Int) :
    shapeProd (expandShapes a b).1 = shapeProd a ∧ shapeProd (expandShapes a b).2 = shapeProd b := by
  unfold expandShapes
  simp only [shapeProd_append, shapeProd_replicate_one, one_mul, and_self]

/-- shapes of equal rank are not padded -/
theorem expandShapes_same_rank (a b : List Int) (h : a.length = b.length) : expandShapes a b = (a, b) := by
  unfold expandShapes; simp [h]

example : expandShapes [3, 4] [2, 5, 6] = ([1, 3, 4], [2, 5, 6]) := by decide

/-! ### resize: the N-d source map -/

/-- **`resizeSrc` is `resizeSrc1` on every axis.**  Output multi-index `k` reads input multi-index `j`
    iff all six lists have the same rank and on every axis `d` the one-axis window rule holds. -/
theorem resizeSrc_spec (ish osh si so k j : List Int) :
    resizeSrc ish osh si so k = some j ↔
      (osh.length = ish.length ∧ si.length = ish.length ∧ so.length = ish.length ∧
        k.length = ish.length ∧ j.length = ish.length ∧
        ∀ d, d < ish.length →
          resizeSrc1 (ish.getD d 0) (osh.getD d 0) (si.getD d 0) (so.getD d 0) (k.getD d 0)
            = some (j.getD d 0)) := by
  unfold resizeSrc
  induction ish generalizing osh si so k j with
  | nil =>
    cases osh <;> cases si <;> cases so <;> cases k <;> cases j <;> simp [resizeSrc.go]
  | cons i is ih =>
    cases osh with
    | nil => simp [resizeSrc.go]
    | cons o os =>
    cases si with
    | nil => simp [resizeSrc.go]
    | cons s1 sis =>
    cases so with
    | nil => simp [resizeSrc.go]
    | cons s2 sos =>
    cases k with
    | nil => simp [resizeSrc.go]
    | cons k0 ks =>
    simp only [resizeSrc.go, Option.pure_def, Option.bind_eq_bind, List.length_cons,
      Nat.add_right_cancel_iff]
    cases j with
    | nil =>
      constructor
      · intro h
        cases h1 : resizeSrc1 i o s1 s2 k0 <;> simp [h1] at h
        cases h2 : resizeSrc.go is os sis sos ks <;> simp [h2] at h
      · rintro ⟨_, _, _, _, h, _⟩; simp at h
    | cons j0 js =>
      constructor
      · intro h
        cases h1 : resizeSrc1 i o s1 s2 k0 with
        | none => simp [h1] at h
        | some j0' =>
          cases h2 : resizeSrc.go is os sis sos ks with
          | none => simp [h1, h2] at h
          | some js' =>
            simp only [h1, h2, Option.bind_some, Option.some.injEq, List.cons.injEq] at h
            obtain ⟨rfl, rfl⟩ := h
            obtain ⟨e1, e2, e3, e4, e5, e6⟩ := (ih os sis sos ks js').mp h2
            refine ⟨e1, e2, e3, e4, by simpa using e5, fun d hd => ?_⟩
            cases d with
            | zero => simpa using h1
            | succ d => simpa using e6 d (by omega)
      · rintro ⟨e1, e2, e3, e4, e5, e6⟩
        have h1 : resizeSrc1 i o s1 s2 k0 = some j0 := by simpa using e6 0 (by omega)
        have h2 : resizeSrc.go is os sis sos ks = some js :=
          (ih os sis sos ks js).mpr ⟨e1, e2, e3, e4, by simpa using e5, fun d hd => by
            simpa using e6 (d + 1) (by omega)⟩
        simp [h1, h2]

theorem getD_zipWith (f : Int → Int → Int) (a b : List Int) (d : Nat) (ha : d < a.length)
    (hb : d < b.length) : (List.zipWith f a b).getD d 0 = f (a.getD d 0) (b.getD d 0) := by
  simp [List.getD_eq_getElem?_getD, List.getElem?_zipWith, List.getElem?_eq_getElem ha,
    List.getElem?_eq_getElem hb]

/-- **Default alignment in N dimensions.**  With the default shifts of `util.resize`, output
    multi-index `k` reads input multi-index `j` exactly when both are in range and on *every* axis
    `j_d − i_d//2 = k_d − o_d//2`: the centres `i//2` and `o//2` are aligned axis by axis, every pair
    that can be copied is copied (pad, crop, and mixed per axis), nothing else is. -/
theorem resize_default_aligns_nd (ish osh k j : List Int) (hr : osh.length = ish.length) :
    resizeSrc ish osh (List.zipWith Gen.resizeIshiftDefault ish osh)
        (List.zipWith Gen.resizeOshiftDefault ish osh) k = some j ↔
      (k.length = ish.length ∧ j.length = ish.length ∧
        ∀ d, d < ish.length →
          0 ≤ k.getD d 0 ∧ k.getD d 0 < osh.getD d 0 ∧ 0 ≤ j.getD d 0 ∧ j.getD d 0 < ish.getD d 0 ∧
            j.getD d 0 - ish.getD d 0 / 2 = k.getD d 0 - osh.getD d 0 / 2) := by
  rw [resizeSrc_spec]
  simp only [List.length_zipWith, hr, Nat.min_self, true_and]
  constructor
  · rintro ⟨e4, e5, h⟩
    refine ⟨e4, e5, fun d hd => ?_⟩
    have := h d hd
    rw [getD_zipWith _ _ _ d hd (by omega), getD_zipWith _ _ _ d hd (by omega)] at this
    exact (resize_default_aligns _ _ _ _).mp this
  · rintro ⟨e4, e5, h⟩
    refine ⟨e4, e5, fun d hd => ?_⟩
    rw [getD_zipWith _ _ _ d hd (by omega), getD_zipWith _ _ _ d hd (by omega)]
    exact (resize_default_aligns _ _ _ _).mpr (h d hd)

/-- **Transpose in N dimensions.**  Swapping input and output (and the two shift lists) transposes
    the index relation: `Resize(o, i, ishift, oshift).H = Resize(i, o, oshift, ishift)` entry by entry. -/
theorem resize_transpose_nd (ish osh si so k j : List Int) :
    resizeSrc ish osh si so k = some j ↔ resizeSrc osh ish so si j = some k := by
  rw [resizeSrc_spec, resizeSrc_spec]
  constructor
  · rintro ⟨e1, e2, e3, e4, e5, h⟩
    refine ⟨by omega, by omega, by omega, by omega, by omega, fun d hd => ?_⟩
    exact (resize_transpose _ _ _ _ _ _).mp (h d (by omega))
  · rintro ⟨e1, e2, e3, e4, e5, h⟩
    refine ⟨by omega, by omega, by omega, by omega, by omega, fun d hd => ?_⟩
    exact (resize_transpose _ _ _ _ _ _).mpr (h d (by omega))

theorem getD_nonneg (l : List Int) (h : ∀ s ∈ l, 0 ≤ s) (d : Nat) : 0 ≤ l.getD d 0 := by
  rw [List.getD_eq_getElem?_getD]
  cases hd : l[d]? with
  | none => simp
  | some v => simpa using h v (List.mem_of_getElem? hd)

/-- in-range shifts never read or write out of bounds, on any axis -/
theorem resize_in_bounds_nd (ish osh si so k j : List Int) (h1 : ∀ s ∈ si, 0 ≤ s)
    (h2 : ∀ s ∈ so, 0 ≤ s) (h : resizeSrc ish osh si so k = some j) :
    k ∈ allIdx osh ∧ j ∈ allIdx ish := by
  obtain ⟨e1, e2, e3, e4, e5, h⟩ := (resizeSrc_spec _ _ _ _ _ _).mp h
  rw [mem_allIdx_iff_getD, mem_allIdx_iff_getD]
  have hb : ∀ d, d < ish.length → _ := fun d hd =>
    resize_in_bounds _ _ _ _ _ _
      (getD_nonneg si h1 d) (getD_nonneg so h2 d) (h d hd)
  exact ⟨⟨by omega, fun d hd => ⟨(hb d (by omega)).1, (hb d (by omega)).2.1⟩⟩,
    ⟨e5, fun d hd => ⟨(hb d hd).2.2.1, (hb d hd).2.2.2⟩⟩⟩

example : resizeSrc [5, 3] [8, 2] (List.zipWith Gen.resizeIshiftDefault [5, 3] [8, 2])
    (List.zipWith Gen.resizeOshiftDefault [5, 3] [8, 2]) [2, 0] = some [0, 0] := by decide

/-! ### resize: the array -/

/-- the expanded shapes and the effective shifts `util.resize` works with -/
def resizeParams (ishape oshape : List Int) (ishift oshift : Option (List Int)) :
    List Int × List Int × List Int × List Int :=
  let ish := (expandShapes ishape oshape).1
  let osh := (expandShapes ishape oshape).2
  (ish, osh, ishift.getD (List.zipWith Gen.resizeIshiftDefault ish osh),
    oshift.getD (List.zipWith Gen.resizeOshiftDefault ish osh))

/-- **`util.resize` on arrays.**  When the expanded shapes differ, the entry of the output at
    (row-major) multi-index `k` is the input entry at multi-index `j` exactly when
    `resizeSrc … k = some j`, and zero otherwise: element `j` of the input is placed at position `k` of
    the output iff the N-d window rule holds, everything else is zero. -/
theorem resize_array_spec {α : Type} [Zero α] (ishape oshape : List Int)
    (ishift oshift : Option (List Int)) (x : Array α)
    (hne : (expandShapes ishape oshape).1 ≠ (expandShapes ishape oshape).2) (k : List Int)
    (hk : k ∈ allIdx (expandShapes ishape oshape).2) :
    (resize ishape oshape ishift oshift x).getD
        (ravel (resizeParams ishape oshape ishift oshift).2.1 k).toNat 0
      = match resizeSrc (resizeParams ishape oshape ishift oshift).1
            (resizeParams ishape oshape ishift oshift).2.1
            (resizeParams ishape oshape ishift oshift).2.2.1
            (resizeParams ishape oshape ishift oshift).2.2.2 k with
        | some j => x.getD (ravel (resizeParams ishape oshape ishift oshift).1 j).toNat 0
        | none => 0 := by
  have hb : ((expandShapes ishape oshape).1 == (expandShapes ishape oshape).2) = false := by
    simpa using hne
  unfold resize resizeParams
  simp only [hb, Bool.false_eq_true, if_false]
  exact map_allIdx_getD _ _ k hk

/-- the early return of `util.resize`: equal expanded shapes give the input back (a reshape) -/
theorem resize_same_shape {α : Type} [Zero α] (ishape oshape : List Int)
    (ishift oshift : Option (List Int)) (x : Array α)
    (h : (expandShapes ishape oshape).1 = (expandShapes ishape oshape).2) :
    resize ishape oshape ishift oshift x = x := by
  unfold resize
  simp [h]

/-- the output has `prod oshape` entries (row-major over the expanded output shape) -/
theorem resize_size {α : Type} [Zero α] (ishape oshape : List Int)
    (ishift oshift : Option (List Int)) (x : Array α)
    (hne : (expandShapes ishape oshape).1 ≠ (expandShapes ishape oshape).2)
    (ho : ∀ n ∈ oshape, 0 ≤ n) :
    (resize ishape oshape ishift oshift x).size = (shapeProd oshape).toNat := by
  have hb : ((expandShapes ishape oshape).1 == (expandShapes ishape oshape).2) = false := by
    simpa using hne
  unfold resize
  simp only [hb, Bool.false_eq_true, if_false]
  rw [map_allIdx_size, (expandShapes_prod ishape oshape).2]
  intro n hn
  rw [(expandShapes_spec ishape oshape).2.1, List.mem_append, List.mem_replicate] at hn
  rcases hn with ⟨_, rfl⟩ | hn
  · omega
  · exact ho n hn

/-- non-vacuity: 1-D pad 3 → 5 puts the input in the middle -/
example : resize [3] [5] none none #[(1 : Int), 2, 3] = #[0, 1, 2, 3, 0] := by decide

end SigpyVerif.C09
