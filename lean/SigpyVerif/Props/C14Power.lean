/-
  C14, part "the power-method gap": what `MaxEig(op).run()` — the `maxEig` the generated set-ups divide by —
  really is.

  `default_steps_*` (Props/C14.lean) assume that `max_eig` BOUNDS the Rayleigh quotient of the operator handed to
  `MaxEig`.  The real `MaxEig` runs `max_iter = 30` updates of `alg.PowerMethod` from a random start.  The machine
  `pmRun` (Model/C14Power.lean) iterates the GENERATED step `Gen.C14.pmUpdate` (regenerated from
  `PowerMethod._update` / `Alg.update` on every check); here it is instantiated in a real inner-product space
  (`norm = ‖·‖`, `y / s = (1/s) • y`).  A complex Hermitian operator is a symmetric operator of the underlying real
  space with `⟪·,·⟫_ℝ = re ⟪·,·⟫_ℂ` and the same norm (Props/C14Cplx.lean, `isAdj_restrict`), so nothing is lost.

  Proved (for `T` symmetric = Hermitian, the operator every set-up hands to `MaxEig`):
    * `pm_step`            after `k+1` updates `max_eig = ‖T x_k‖`, `x_{k+1} = T x_k / ‖T x_k‖`;
    * `pm_unit`, `pm_nondegenerate`   the iterates are unit vectors from the first update on and never hit the
                           division by zero, provided `T x_0 ≠ 0`;
    * `pm_estimate_ge_rayleigh`       the estimate dominates the Rayleigh quotient of the current iterate;
    * `pm_estimate_le_lmax`  (PSD) every estimate from the 2nd on is `≤ L` for EVERY Rayleigh bound `L` of `T`, in
                           particular `≤ λmax`: the power method UNDER-estimates;
    * `pm_estimate_mono`   the estimates are non-decreasing from the 2nd on (true of the code's formula `‖T x_k‖`;
                           needs symmetry only);
    * `maxeig_default_alpha_gap`  hence `alpha = 1/max_eig ≥ 1/L`, `alpha·L = L/max_eig ≥ 1`, non-increasing in the
                           number of power iterations, `= 1` iff the estimate is exact;
    * `pm_done_iff`        `while not done(): update()` performs exactly `max_iter` updates.
  Consequence for C13 (see Props/C14Join.lean `ista_descent_relaxed`): with the under-estimate, `(α, L) = (1/max_eig,
  λmax)` violates `hL : α·L ≤ 1` of `ista_rate` / `fista_rate` / `ista_descent` (equivalently, `(1/max_eig, max_eig)`
  violates `hd : Descent f gradf max_eig`); monotone descent of the un-accelerated method itself survives as long as
  `α·L ≤ 2`, i.e. `max_eig ≥ λmax/2`.
-/
import SigpyVerif.Model.C14Power
import Mathlib.Analysis.InnerProductSpace.Basic
import Mathlib.Algebra.QuadraticDiscriminant
import Mathlib.Tactic.Linarith
import Mathlib.Tactic.FieldSimp

namespace SigpyVerif.C14
open SigpyVerif.Gen.C14
open scoped RealInnerProductSpace

set_option linter.unusedSectionVars false
set_option linter.unusedVariables false

section generic
variable {V S : Type} (o : PmOps V S) (A : V → V) (nf : Option (V → S)) (x0 : V)

/-- `update()` advances the counter by one -/
theorem pm_update_iter (s : PmState V S) : (pmUpdate o A nf s).iter = s.iter + 1 := rfl

/-- after `k` updates the counter is `k` -/
theorem pm_iter_counts (k : Nat) : (pmRun o A nf x0 k).iter = k := by
  induction k with
  | zero => rfl
  | succ k ih => simp only [pmRun, pm_update_iter, ih]; push_cast; ring

/-- `done()` becomes true exactly after `max_iter` updates: `while not done(): update()` performs `max(max_iter, 0)`
    updates, so `MaxEig` (default `max_iter = 30`, `Gen.C14.maxEigDefaultIter`) returns the 30th estimate -/
theorem pm_done_iff (m : Int) (k : Nat) : pmDone m (pmRun o A nf x0 k) = true ↔ m ≤ k := by
  simp only [pmDone, pm_iter_counts, decide_eq_true_eq, ge_iff_le]

/-- `MaxEig` hands no `norm_func` to `PowerMethod` and its default budget is 30 updates -/
theorem maxEig_passes : (maxEigNormFunc : Option (V → S)) = none ∧ maxEigDefaultIter = 30 := ⟨rfl, rfl⟩

end generic

variable {E : Type} [NormedAddCommGroup E] [InnerProductSpace ℝ E]

/-- the two operations of `PowerMethod._update` in an inner-product space -/
noncomputable def ipPmOps : PmOps E ℝ where
  norm := fun v => ‖v‖
  divS := fun v s => (1 / s) • v

/-- state of `PowerMethod(T, x0)` (as `MaxEig` builds it: `norm_func=None`) after `k` updates -/
noncomputable def pw (T : E →ₗ[ℝ] E) (x0 : E) (k : ℕ) : PmState E ℝ := pmRun ipPmOps (⇑T) maxEigNormFunc x0 k

/-- one update in formulas: the new estimate is `‖T x_k‖`, the new iterate `T x_k / ‖T x_k‖` -/
theorem pm_step (T : E →ₗ[ℝ] E) (x0 : E) (k : ℕ) :
    (pw T x0 (k + 1)).maxEig = some ‖T (pw T x0 k).x‖ ∧
    (pw T x0 (k + 1)).x = (1 / ‖T (pw T x0 k).x‖) • T (pw T x0 k).x := ⟨rfl, rfl⟩

/-- before the first update the estimate is `np.inf` (`none`) and `x` is the start vector -/
theorem pm_zero (T : E →ₗ[ℝ] E) (x0 : E) : (pw T x0 0).maxEig = none ∧ (pw T x0 0).x = x0 := ⟨rfl, rfl⟩

/-- the new iterate is a unit vector unless the division was by zero -/
theorem pm_unit (T : E →ₗ[ℝ] E) (x0 : E) (k : ℕ) (h : T (pw T x0 k).x ≠ 0) : ‖(pw T x0 (k + 1)).x‖ = 1 := by
  rw [(pm_step T x0 k).2, norm_smul, Real.norm_eq_abs, abs_of_nonneg (by positivity)]
  have : ‖T (pw T x0 k).x‖ ≠ 0 := norm_ne_zero_iff.mpr h
  field_simp

/-- `T` symmetric (real data) / Hermitian (complex data, real part of the inner product) -/
def IsSymm (T : E →ₗ[ℝ] E) : Prop := ∀ u v, ⟪T u, v⟫ = ⟪u, T v⟫

/-- `‖T x‖² ≤ ‖x‖ ‖T (T x)‖` for symmetric `T` -/
theorem sq_norm_le_of_symm (T : E →ₗ[ℝ] E) (hs : IsSymm T) (x : E) : ‖T x‖ ^ 2 ≤ ‖x‖ * ‖T (T x)‖ := by
  rw [← real_inner_self_eq_norm_sq, hs]
  exact real_inner_le_norm _ _

/-- a symmetric `T` never maps a power iterate to zero once `T x_0 ≠ 0`: no update divides by zero -/
theorem pm_nondegenerate (T : E →ₗ[ℝ] E) (hs : IsSymm T) (x0 : E) (h0 : T x0 ≠ 0) (k : ℕ) :
    T (pw T x0 k).x ≠ 0 := by
  induction k with
  | zero => exact h0
  | succ k ih =>
    rw [(pm_step T x0 k).2, map_smul]
    intro hz
    have hn : ‖T (pw T x0 k).x‖ ≠ 0 := norm_ne_zero_iff.mpr ih
    have h1 : T (T (pw T x0 k).x) = 0 := by
      rcases smul_eq_zero.mp hz with h | h
      · exact absurd h (one_div_ne_zero hn)
      · exact h
    have h2 := sq_norm_le_of_symm T hs (pw T x0 k).x
    rw [h1, norm_zero, mul_zero] at h2
    have : ‖T (pw T x0 k).x‖ ^ 2 = 0 := le_antisymm h2 (sq_nonneg _)
    exact hn (pow_eq_zero_iff two_ne_zero |>.mp this)

/-- the estimate dominates the Rayleigh quotient of the (unit) iterate it was computed from -/
theorem pm_estimate_ge_rayleigh (T : E →ₗ[ℝ] E) (x : E) (hx : ‖x‖ = 1) : ⟪x, T x⟫ ≤ ‖T x‖ := by
  have := real_inner_le_norm x (T x)
  rwa [hx, one_mul] at this

/-- one step of monotonicity: for a unit vector `x` the next estimate `‖T (T x / ‖T x‖)‖` is at least `‖T x‖` -/
theorem pm_mono_step (T : E →ₗ[ℝ] E) (hs : IsSymm T) (x : E) (hx : ‖x‖ = 1) (hne : T x ≠ 0) :
    ‖T x‖ ≤ ‖T ((1 / ‖T x‖) • T x)‖ := by
  have hpos : 0 < ‖T x‖ := norm_pos_iff.mpr hne
  rw [map_smul, norm_smul, Real.norm_eq_abs, abs_of_nonneg (by positivity), one_div, ← div_eq_inv_mul,
    le_div_iff₀ hpos]
  have := sq_norm_le_of_symm T hs x
  rw [hx, one_mul] at this
  nlinarith

/-- Cauchy–Schwarz for the positive semi-definite form `⟪·, T ·⟫` -/
theorem psd_cauchy_schwarz (T : E →ₗ[ℝ] E) (hs : IsSymm T) (hp : ∀ v, 0 ≤ ⟪v, T v⟫) (u v : E) :
    ⟪u, T v⟫ ^ 2 ≤ ⟪u, T u⟫ * ⟪v, T v⟫ := by
  have key : ∀ t : ℝ, 0 ≤ ⟪v, T v⟫ * (t * t) + (2 * ⟪u, T v⟫) * t + ⟪u, T u⟫ := by
    intro t
    have h := hp (u + t • v)
    have e : ⟪u + t • v, T (u + t • v)⟫ = ⟪v, T v⟫ * (t * t) + (2 * ⟪u, T v⟫) * t + ⟪u, T u⟫ := by
      have e1 : ⟪v, T u⟫ = ⟪u, T v⟫ := by rw [← hs, real_inner_comm]
      rw [map_add, map_smul, inner_add_left, inner_add_right, inner_add_right, real_inner_smul_left,
        real_inner_smul_left, real_inner_smul_right, real_inner_smul_right, e1]
      ring
    rw [e] at h; exact h
  have := discrim_le_zero key
  unfold discrim at this
  nlinarith

/-- for a symmetric positive semi-definite `T`, a bound `L` of the Rayleigh quotient bounds the operator norm:
    `‖T h‖ ≤ L ‖h‖` -/
theorem opnorm_le_of_rayleigh (T : E →ₗ[ℝ] E) (hs : IsSymm T) (hp : ∀ v, 0 ≤ ⟪v, T v⟫) (L : ℝ)
    (hL : ∀ v, ⟪v, T v⟫ ≤ L * ‖v‖ ^ 2) (h : E) : ‖T h‖ ≤ L * ‖h‖ := by
  by_cases hz : T h = 0
  · rw [hz, norm_zero]
    by_cases hh : h = 0
    · rw [hh, norm_zero, mul_zero]
    · have hpos : 0 < ‖h‖ := norm_pos_iff.mpr hh
      have h1 := (hp h).trans (hL h)
      have : 0 ≤ L := by
        by_contra hc
        have : L * ‖h‖ ^ 2 < 0 := mul_neg_of_neg_of_pos (not_le.mp hc) (by positivity)
        linarith
      positivity
  · have hpos : 0 < ‖T h‖ := norm_pos_iff.mpr hz
    have cs := psd_cauchy_schwarz T hs hp h (T h)
    have e1 : ⟪h, T (T h)⟫ = ‖T h‖ ^ 2 := by rw [← hs, real_inner_self_eq_norm_sq]
    rw [e1] at cs
    have a1 := hL h
    have a2 := hL (T h)
    have b1 := hp h
    have b2 := hp (T h)
    have hprod : ⟪h, T h⟫ * ⟪T h, T (T h)⟫ ≤ (L * ‖h‖ ^ 2) * (L * ‖T h‖ ^ 2) :=
      mul_le_mul a1 a2 b2 (b1.trans a1)
    have h4 : ‖T h‖ ^ 2 * ‖T h‖ ^ 2 ≤ (L * ‖h‖) ^ 2 * ‖T h‖ ^ 2 := by nlinarith
    have h5 : ‖T h‖ ^ 2 ≤ (L * ‖h‖) ^ 2 := le_of_mul_le_mul_right h4 (by positivity)
    have hL0 : 0 ≤ L * ‖h‖ := by
      have hh : h ≠ 0 := fun hh => hz (by rw [hh, map_zero])
      have hhp : 0 < ‖h‖ := norm_pos_iff.mpr hh
      have : 0 ≤ L := by
        by_contra hc
        have : L * ‖h‖ ^ 2 < 0 := mul_neg_of_neg_of_pos (not_le.mp hc) (by positivity)
        linarith
      positivity
    exact (pow_le_pow_iff_left₀ (norm_nonneg _) hL0 two_ne_zero).mp h5

/-- **the power method under-estimates.**  `T` symmetric positive semi-definite (every operator the set-ups hand to
    `MaxEig`: `AᴴA + λI`, `Aᴴ S A`, `K T Kᴴ` with `λ, S, T ≥ 0`), `L` ANY bound of its Rayleigh quotient (e.g. `λmax`),
    `T x_0 ≠ 0`: every estimate from the second update on is `≤ L`. -/
theorem pm_estimate_le_lmax (T : E →ₗ[ℝ] E) (hs : IsSymm T) (hp : ∀ v, 0 ≤ ⟪v, T v⟫) (L : ℝ)
    (hL : ∀ v, ⟪v, T v⟫ ≤ L * ‖v‖ ^ 2) (x0 : E) (h0 : T x0 ≠ 0) (k : ℕ) :
    ∃ me, (pw T x0 (k + 2)).maxEig = some me ∧ 0 < me ∧ me ≤ L := by
  refine ⟨_, (pm_step T x0 (k + 1)).1, norm_pos_iff.mpr (pm_nondegenerate T hs x0 h0 (k + 1)), ?_⟩
  have hu := pm_unit T x0 k (pm_nondegenerate T hs x0 h0 k)
  have := opnorm_le_of_rayleigh T hs hp L hL (pw T x0 (k + 1)).x
  rwa [hu, mul_one] at this

/-- **monotone.**  For symmetric `T` the estimates `‖T x_k‖` are non-decreasing from the second update on
    (the first one, `‖T x_0‖`, depends on the scale of the random start vector). -/
theorem pm_estimate_mono (T : E →ₗ[ℝ] E) (hs : IsSymm T) (x0 : E) (h0 : T x0 ≠ 0) (k : ℕ) :
    ∃ a b, (pw T x0 (k + 2)).maxEig = some a ∧ (pw T x0 (k + 3)).maxEig = some b ∧ a ≤ b := by
  refine ⟨_, _, (pm_step T x0 (k + 1)).1, (pm_step T x0 (k + 2)).1, ?_⟩
  have hu := pm_unit T x0 k (pm_nondegenerate T hs x0 h0 k)
  have := pm_mono_step T hs (pw T x0 (k + 1)).x hu (pm_nondegenerate T hs x0 h0 (k + 1))
  rwa [← (pm_step T x0 (k + 1)).2] at this

/-- the estimate is a Rayleigh-type quantity: it lies between the Rayleigh quotient of the current (unit) iterate
    and every Rayleigh bound -/
theorem pm_estimate_rayleigh_sandwich (T : E →ₗ[ℝ] E) (hs : IsSymm T) (hp : ∀ v, 0 ≤ ⟪v, T v⟫) (L : ℝ)
    (hL : ∀ v, ⟪v, T v⟫ ≤ L * ‖v‖ ^ 2) (x0 : E) (h0 : T x0 ≠ 0) (k : ℕ) :
    ⟪(pw T x0 (k + 1)).x, T (pw T x0 (k + 1)).x⟫ ≤ ‖T (pw T x0 (k + 1)).x‖ ∧ ‖T (pw T x0 (k + 1)).x‖ ≤ L := by
  have hu := pm_unit T x0 k (pm_nondegenerate T hs x0 h0 k)
  refine ⟨pm_estimate_ge_rayleigh T _ hu, ?_⟩
  have := opnorm_le_of_rayleigh T hs hp L hL (pw T x0 (k + 1)).x
  rwa [hu, mul_one] at this

/-- **how far the default step can exceed `1/L`.**  With `max_eig` the estimate after `k+2` power iterations and `L` a
    Rayleigh bound of `T` (`λmax`): the default `alpha = 1/max_eig` satisfies `1/L ≤ alpha` and
    `alpha · L = L / max_eig ≥ 1`, with equality iff the estimate is exact; one more power iteration never makes it
    worse (`alpha` is non-increasing in the number of power iterations). -/
theorem maxeig_default_alpha_gap (T : E →ₗ[ℝ] E) (hs : IsSymm T) (hp : ∀ v, 0 ≤ ⟪v, T v⟫) (L : ℝ)
    (hL : ∀ v, ⟪v, T v⟫ ≤ L * ‖v‖ ^ 2) (x0 : E) (h0 : T x0 ≠ 0) (k : ℕ) :
    ∃ me me', (pw T x0 (k + 2)).maxEig = some me ∧ (pw T x0 (k + 3)).maxEig = some me' ∧
      0 < me ∧ 1 / L ≤ 1 / me ∧ 1 ≤ 1 / me * L ∧ (1 / me * L = 1 ↔ me = L) ∧ 1 / me' ≤ 1 / me := by
  obtain ⟨a, b, ha, hb, hab⟩ := pm_estimate_mono T hs x0 h0 k
  obtain ⟨me, hme, hpos, hle⟩ := pm_estimate_le_lmax T hs hp L hL x0 h0 k
  rw [ha] at hme
  obtain rfl : a = me := by injection hme
  refine ⟨a, b, ha, hb, hpos, one_div_le_one_div_of_le hpos hle, ?_, ?_, one_div_le_one_div_of_le hpos hab⟩
  · rw [one_div, inv_mul_eq_div, le_div_iff₀ hpos, one_mul]; exact hle
  · rw [one_div, inv_mul_eq_div, div_eq_one_iff_eq hpos.ne', eq_comm]

/-! ## non-vacuity and sharpness -/

/-- the hypotheses are satisfiable: `T = 2·id` is symmetric PSD with Rayleigh bound `2` -/
example : IsSymm ((2 : ℝ) • (LinearMap.id : E →ₗ[ℝ] E)) ∧
    (∀ v : E, 0 ≤ ⟪v, ((2 : ℝ) • (LinearMap.id : E →ₗ[ℝ] E)) v⟫) ∧
    (∀ v : E, ⟪v, ((2 : ℝ) • (LinearMap.id : E →ₗ[ℝ] E)) v⟫ ≤ 2 * ‖v‖ ^ 2) := by
  refine ⟨fun u v => ?_, fun v => ?_, fun v => ?_⟩
  · simp only [LinearMap.smul_apply, LinearMap.id_coe, id_eq, real_inner_smul_left, real_inner_smul_right]
  · simp only [LinearMap.smul_apply, LinearMap.id_coe, id_eq, real_inner_smul_right, real_inner_self_eq_norm_sq]
    positivity
  · simp only [LinearMap.smul_apply, LinearMap.id_coe, id_eq, real_inner_smul_right, real_inner_self_eq_norm_sq]
    exact le_rfl

/-- a concrete run on `E = ℝ`, `T = 2·id`, `x_0 = 3`: the first estimate is `‖T x_0‖ = 6` (NOT `≤ λmax = 2`: it
    depends on the scale of the start vector), the iterate is normalised to `1` -/
example : (pw ((2 : ℝ) • (LinearMap.id : ℝ →ₗ[ℝ] ℝ)) 3 1).maxEig = some 6 ∧
    (pw ((2 : ℝ) • (LinearMap.id : ℝ →ₗ[ℝ] ℝ)) 3 1).x = 1 := by
  refine ⟨?_, ?_⟩
  · rw [(pm_step _ _ 0).1]
    simp only [pw, pmRun, pmInit, LinearMap.smul_apply, LinearMap.id_coe, id_eq, smul_eq_mul, Real.norm_eq_abs]
    norm_num
  · rw [(pm_step _ _ 0).2]
    simp only [pw, pmRun, pmInit, LinearMap.smul_apply, LinearMap.id_coe, id_eq, smul_eq_mul, Real.norm_eq_abs]
    norm_num

end SigpyVerif.C14
