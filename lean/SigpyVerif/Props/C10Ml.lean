import SigpyVerif.Props.C10
import SigpyVerif.Lemmas.C10Ml
/-
  C10, multi-level N-d: `sigpy.fwt / iwt` for ANY number of levels, ANY rank, ANY duplicate-free list of
  (normalised) axes, ANY shape (odd sizes: zero padding to even, centre crop back).

  Model (Model/C10Nd.lean, executed by the driver against `sp.fwt`/`sp.iwt`/`linop.Wavelet(.H)` on every run):
  `fwtn = fwtnRec J ∘ pad`, where one level is the 1-D analysis pair along every transformed axis laid out as
  `coeffs_to_array` does (`levelMap`: `[a | zero filling | d]`), and the next level acts on the approximation
  sub-box only and overwrites the sub-box of its packed shape.  `iwtn = crop ∘ iwtnRec J`.
  PROVED here, for every filter pair of length `L ≥ 2` satisfying completeness (adjointness: any filters):
    `fwtn_isometry`   ‖fwt X‖² = ‖X‖²          (sum over the advertised coefficient box, zero filling included)
    `fwtn_pr`         iwt (fwt X) = X           (at every multi-index of the input box; `iwt` may be handed any
                                                 array that agrees with `fwt X` on the coefficient box)
    `fwtn_adjoint`    ⟨fwt X, C⟩ = ⟨X, iwt C⟩   (ARBITRARY coefficient arrays `C`, any values in the zero filling)
    `fwtnOutShape_eq_waveShape`  the box these identities are stated on IS `waveShape` = the advertised
                                                 `Wavelet.oshape` (correspondence stream `shapes`)
    `maxLevel_spec`   `level=None` is `⌊log2(n/(L-1))⌋` (`pywt.dwt_max_level`).
  Negative axes: sigpy hands `axes` to PyWavelets unchanged and PyWavelets indexes `shape[ax]` / slices with them,
  i.e. `a` and `a + ndim` are the same axis; the driver requests carry `a % ndim` and the correspondence compares
  with the real call on the unnormalised tuple.
-/
namespace SigpyVerif.C10
open SigpyVerif Finset

variable {R : Type*} [CommRing R]

/-! ### one level along one axis, in `coeffs_to_array`'s layout -/

theorem levelMap_isIso {L : ℕ} {h g : ℤ → R} (hh : SupportedOn L h) (hg : SupportedOn L g)
    (hc : Complete h g) (hL : 2 ≤ L) (J : ℕ) : (levelMap h g L J).IsIso := by
  intro N x
  have key := qmf_isometry_1level hh hg hc (M := dwtLen N L) (N := N) (by unfold dwtLen; omega) x
  simp only [sumN_eq_sum] at key
  have hnp := le_packedLen hL J (dwtLen N L)
  simp only [levelMap]
  rw [sum_packed_axis _ _ hnp _ (fun k h1 h2 => by rw [if_neg (by omega), if_pos h2]; simp), ← key]
  congr 1
  · apply sum_congr rfl; intro k hk
    rw [if_pos (mem_range.mp hk)]
  · apply sum_congr rfl; intro k _
    rw [if_neg (by omega), if_neg (by omega), Nat.add_sub_cancel_left]

theorem levelMap_isAdj (h g : ℤ → R) {L : ℕ} (hL : 2 ≤ L) (J : ℕ) : (levelMap h g L J).IsAdj := by
  intro N x c
  have key := synthesis_is_adjoint h g N (dwtLen N L) x c (fun k => c (packedLen (dwtLen N L) L J + k))
  simp only [sumN_eq_sum] at key
  have hnp := le_packedLen hL J (dwtLen N L)
  simp only [levelMap]
  rw [sum_packed_axis _ _ hnp _ (fun k h1 h2 => by rw [if_neg (by omega), if_pos h2]; simp), ← key]
  congr 1
  · apply sum_congr rfl; intro k hk
    rw [if_pos (mem_range.mp hk)]
  · apply sum_congr rfl; intro k _
    rw [if_neg (by omega), if_neg (by omega), Nat.add_sub_cancel_left]

theorem levelMap_isInv {L : ℕ} {h g : ℤ → R} (hh : SupportedOn L h) (hg : SupportedOn L g)
    (hc : Complete h g) (hL : 2 ≤ L) (J : ℕ) : (levelMap h g L J).IsInv := by
  constructor
  · intro N x n hn
    have hnp := le_packedLen hL J (dwtLen N L)
    simp only [levelMap]
    rw [← qmf_perfect_reconstruction hh hg hc (M := dwtLen N L) (N := N) (by unfold dwtLen; omega) x hn]
    apply syn_congr
    · intro k hk; rw [if_pos hk]
    · intro k _; rw [if_neg (by omega), if_neg (by omega), Nat.add_sub_cancel_left]
  · intro N c c' hcc n _
    simp only [levelMap] at hcc ⊢
    apply syn_congr
    · intro k hk; exact hcc k (by omega)
    · intro k hk; exact hcc _ (by omega)

theorem levelMap_fwd_zero (h g : ℤ → R) (L J N k : ℕ) : (levelMap h g L J).fwd N (fun _ => 0) k = 0 := by
  simp only [levelMap, ana, sumN_eq_sum]
  split_ifs <;> simp

/-- with no level to follow the layout is the tight `[a | d]` of `level1Map` -/
theorem levelMap_zero (h g : ℤ → R) (L : ℕ) : levelMap h g L 0 = level1Map h g L := by
  simp only [levelMap, level1Map, packedLen_zero]
  congr 1
  · funext N x k; split_ifs <;> rfl
  · funext N; omega

theorem lvSteps_cons (h g : ℤ → R) (L J c : ℕ) (as : List ℕ) :
    lvSteps h g L J (c :: as) = (c, levelMap h g L J) :: lvSteps h g L J as := rfl

theorem lvSteps_ok (h g : ℤ → R) (L J : ℕ) (axes shape : List ℕ) (hax : ∀ a ∈ axes, a < shape.length)
    (P : AxisMap R → Prop) (hP : P (levelMap h g L J)) :
    ∀ s ∈ lvSteps h g L J axes, s.1 < shape.length ∧ P s.2 := by
  intro s hs
  simp only [lvSteps, List.mem_map] at hs
  obtain ⟨a, ha, rfl⟩ := hs
  exact ⟨hax a ha, hP⟩

theorem shapeAxes_lvSteps (h g : ℤ → R) (L J : ℕ) (axes shape : List ℕ) (hnd : axes.Nodup)
    (hax : ∀ a ∈ axes, a < shape.length) :
    shapeAxes (lvSteps h g L J axes) shape = packShape L (J + 1) axes shape := by
  unfold lvSteps packShape
  rw [shapeAxes_map _ _ _ hnd hax]
  apply mapAxes_congr
  intro n
  simp only [levelMap]
  rw [packedLen_succ]

/-- the output of one level vanishes where a transformed index lies in the zero filling -/
theorem lvSteps_vanish (h g : ℤ → R) (L J : ℕ) : ∀ (axes shape : List ℕ) (X : List ℕ → R), axes.Nodup →
    ∀ a ∈ axes, ∀ idx : List ℕ, dwtLen (shape.getD a 0) L ≤ idx.getD a 0 →
      idx.getD a 0 < packedLen (dwtLen (shape.getD a 0) L) L J →
      applyAxes (lvSteps h g L J axes) shape X idx = 0 := by
  intro axes
  induction axes with
  | nil => intro shape X _ a ha; simp at ha
  | cons c as ih =>
    intro shape X hnd a ha idx h1 h2
    have hnd' := List.nodup_cons.mp hnd
    rw [lvSteps_cons]
    simp only [applyAxes]
    by_cases hac : a = c
    · subst hac
      apply applyAxes_vanish_other a
        (fun k => dwtLen (shape.getD a 0) L ≤ k ∧ k < packedLen (dwtLen (shape.getD a 0) L) L J) _ _ _ ?_ ?_ idx ⟨h1, h2⟩
      · intro s hs
        simp only [lvSteps, List.mem_map] at hs
        obtain ⟨b, hb, rfl⟩ := hs
        exact ⟨fun hba => hnd'.1 (hba ▸ hb), fun N k => levelMap_fwd_zero h g L J N k⟩
      · rintro idx' ⟨g1, g2⟩
        unfold alongAxis
        simp only [levelMap]
        rw [if_neg (by omega), if_pos g2]
    · have ha' : a ∈ as := by simpa [hac] using ha
      have := ih (shape.set c ((levelMap h g L J).len (shape.getD c 0)))
        (alongAxis c ((levelMap h g L J).fwd (shape.getD c 0)) X) hnd'.2 a ha' idx
      rw [getD_set_ne _ _ (Ne.symm hac)] at this
      exact this h1 h2

/-- … in box form: inside the packed approximation sub-box but outside the approximation sub-box -/
theorem lvSteps_zero_filling (h g : ℤ → R) (L J : ℕ) (axes shape : List ℕ) (X : List ℕ → R) (hnd : axes.Nodup)
    (idx : List ℕ) (hidx : InBox (mapAxes (fun n => packedLen (dwtLen n L) L J) axes shape) idx)
    (hout : ¬ InBox (mapAxes (dwtLen · L) axes shape) idx) :
    applyAxes (lvSteps h g L J axes) shape X idx = 0 := by
  rw [inBox_iff] at hidx hout
  simp only [length_mapAxes] at hidx hout
  push Not at hout
  obtain ⟨a, ha, hge⟩ := hout hidx.1
  have hlt := hidx.2 a ha
  rw [getD_mapAxes _ _ _ _ ha] at hge hlt
  by_cases hm : a ∈ axes
  · rw [if_pos hm] at hge hlt
    exact lvSteps_vanish h g L J axes shape X hnd a hm idx hge hlt
  · rw [if_neg hm] at hge hlt
    omega

/-! ### all levels (no padding yet): induction over the level count -/

section levels
variable {L : ℕ} {h g : ℤ → R} (axes : List ℕ)

theorem subBox_apx_packed (hL : 2 ≤ L) (J : ℕ) (shape : List ℕ) :
    SubBox (mapAxes (dwtLen · L) axes shape) (mapAxes (packedLen · L J) axes (mapAxes (dwtLen · L) axes shape)) := by
  rw [mapAxes_mapAxes]
  exact subBox_mapAxes _ _ _ _ (fun n => le_packedLen hL J _)

theorem subBox_packed_out (J : ℕ) (shape : List ℕ) :
    SubBox (mapAxes (packedLen · L J) axes (mapAxes (dwtLen · L) axes shape)) (packShape L (J + 1) axes shape) := by
  rw [mapAxes_mapAxes]
  unfold packShape
  exact subBox_mapAxes _ _ _ _ (fun n => by rw [packedLen_succ]; omega)

/-- **C10 isometry, all levels, N-d** (on an already padded array): the packed coefficient array of
    `coeffs_to_array(wavedecn(X, level=J, axes))`, zero filling included, has the norm of `X`. -/
theorem fwtnRec_isometry (hh : SupportedOn L h) (hg : SupportedOn L g) (hc : Complete h g) (hL : 2 ≤ L)
    (hnd : axes.Nodup) : ∀ (J : ℕ) (shape : List ℕ) (X : List ℕ → R), (∀ a ∈ axes, a < shape.length) →
    boxSum (packShape L J axes shape) (fun idx => fwtnRec h g L axes J shape X idx ^ 2)
      = boxSum shape (fun idx => X idx ^ 2) := by
  intro J
  induction J with
  | zero =>
    intro shape X _
    simp only [fwtnRec, packShape]
    rw [mapAxes_id _ _ _ (fun n => packedLen_zero n L)]
  | succ J ih =>
    intro shape X hax
    have hax1 : ∀ a ∈ axes, a < (mapAxes (dwtLen · L) axes shape).length := by
      intro a ha; rw [length_mapAxes]; exact hax a ha
    have sub1 := subBox_apx_packed axes hL J shape
    have sub2 := subBox_packed_out (L := L) axes J shape
    simp only [fwtnRec]
    have e1 : ∀ (p q : R) (b : Bool), (if b = true then p else q) ^ 2 = (if b = true then p ^ 2 - q ^ 2 else 0) + q ^ 2 := by
      intro p q b; split_ifs <;> ring
    simp only [e1]
    rw [boxSum_add, boxSum_indicator _ _ _ sub2, boxSum_sub]
    have ih' := ih (mapAxes (dwtLen · L) axes shape) (applyAxes (lvSteps h g L J axes) shape X) hax1
    unfold packShape at ih'
    rw [ih']
    have e2 : boxSum (mapAxes (packedLen · L J) axes (mapAxes (dwtLen · L) axes shape))
          (fun idx => applyAxes (lvSteps h g L J axes) shape X idx ^ 2)
        = boxSum (mapAxes (dwtLen · L) axes shape) (fun idx => applyAxes (lvSteps h g L J axes) shape X idx ^ 2) := by
      rw [← boxSum_indicator _ _ _ sub1]
      apply boxSum_congr; intro idx hidx
      split_ifs with hin
      · rfl
      · rw [mapAxes_mapAxes] at hidx
        rw [lvSteps_zero_filling h g L J axes shape X hnd idx hidx (by rwa [← inBoxB_iff])]
        ring
    rw [e2, ← shapeAxes_lvSteps h g L J axes shape hnd hax,
      applyAxes_isometry _ shape X (lvSteps_ok h g L J axes shape hax AxisMap.IsIso (levelMap_isIso hh hg hc hL J))]
    ring

/-- **C10 adjoint, all levels, N-d**: `⟨pack (wavedecn X), C⟩ = ⟨X, waverecn (unpack C)⟩` for ANY filters and
    ARBITRARY arrays `C` on the packed box (whatever they hold in the zero filling). -/
theorem fwtnRec_adjoint (h g : ℤ → R) (hL : 2 ≤ L) (hnd : axes.Nodup) :
    ∀ (J : ℕ) (shape : List ℕ) (X C : List ℕ → R), (∀ a ∈ axes, a < shape.length) →
    boxSum (packShape L J axes shape) (fun idx => fwtnRec h g L axes J shape X idx * C idx)
      = boxSum shape (fun idx => X idx * iwtnRec h g L axes J shape C idx) := by
  intro J
  induction J with
  | zero =>
    intro shape X C _
    simp only [fwtnRec, iwtnRec, packShape]
    rw [mapAxes_id _ _ _ (fun n => packedLen_zero n L)]
  | succ J ih =>
    intro shape X C hax
    have hax1 : ∀ a ∈ axes, a < (mapAxes (dwtLen · L) axes shape).length := by
      intro a ha; rw [length_mapAxes]; exact hax a ha
    have sub1 := subBox_apx_packed axes hL J shape
    have sub2 := subBox_packed_out (L := L) axes J shape
    simp only [fwtnRec, iwtnRec]
    have e1 : ∀ (p q c : R) (b : Bool), (if b = true then p else q) * c = (if b = true then p * c - q * c else 0) + q * c := by
      intro p q c b; split_ifs <;> ring
    simp only [e1]
    rw [boxSum_add, boxSum_indicator _ _ _ sub2, boxSum_sub]
    have ih' := ih (mapAxes (dwtLen · L) axes shape) (applyAxes (lvSteps h g L J axes) shape X) C hax1
    unfold packShape at ih'
    rw [ih', ← applyAxes_adjoint _ shape X _ (lvSteps_ok h g L J axes shape hax AxisMap.IsAdj (levelMap_isAdj h g hL J)),
      shapeAxes_lvSteps h g L J axes shape hnd hax]
    -- the adjoint of "overwrite the packed sub-box": read the approximation sub-box, drop the zero filling
    have key : boxSum (packShape L (J + 1) axes shape) (fun idx => applyAxes (lvSteps h g L J axes) shape X idx *
          (if inBoxB (mapAxes (dwtLen · L) axes shape) idx = true then
              iwtnRec h g L axes J (mapAxes (dwtLen · L) axes shape) C idx
            else if inBoxB (mapAxes (packedLen · L J) axes (mapAxes (dwtLen · L) axes shape)) idx = true then 0 else C idx))
        + boxSum (mapAxes (packedLen · L J) axes (mapAxes (dwtLen · L) axes shape))
            (fun idx => applyAxes (lvSteps h g L J axes) shape X idx * C idx)
        = boxSum (mapAxes (dwtLen · L) axes shape) (fun idx => applyAxes (lvSteps h g L J axes) shape X idx *
            iwtnRec h g L axes J (mapAxes (dwtLen · L) axes shape) C idx)
          + boxSum (packShape L (J + 1) axes shape) (fun idx => applyAxes (lvSteps h g L J axes) shape X idx * C idx) := by
      rw [← boxSum_indicator _ _ _ sub2, ← boxSum_indicator _ _ _ (sub1.trans sub2), ← boxSum_add, ← boxSum_add]
      apply boxSum_congr; intro idx _
      by_cases h1 : inBoxB (mapAxes (dwtLen · L) axes shape) idx = true
      · have h2 : inBoxB (mapAxes (packedLen · L J) axes (mapAxes (dwtLen · L) axes shape)) idx = true :=
          (inBoxB_iff _ _).mpr (sub1.inBox ((inBoxB_iff _ _).mp h1))
        simp only [h1, h2, if_true]
      · by_cases h2 : inBoxB (mapAxes (packedLen · L J) axes (mapAxes (dwtLen · L) axes shape)) idx = true
        · simp only [h1, h2, Bool.false_eq_true, if_false, if_true]; ring
        · simp only [h1, h2, Bool.false_eq_true, if_false]; ring
    linear_combination (-1 : R) * key

/-- **C10 perfect reconstruction, all levels, N-d**: `waverecn(array_to_coeffs(C))` returns `X` at every multi-index
    of the box for every array `C` that agrees with `coeffs_to_array(wavedecn(X))` on the packed box (the inverse
    reads nothing else; the trimming of over-long approximations is the restriction to the box). -/
theorem fwtnRec_pr (hh : SupportedOn L h) (hg : SupportedOn L g) (hc : Complete h g) (hL : 2 ≤ L)
    (hnd : axes.Nodup) : ∀ (J : ℕ) (shape : List ℕ) (X C : List ℕ → R), (∀ a ∈ axes, a < shape.length) →
    (∀ idx, InBox (packShape L J axes shape) idx → C idx = fwtnRec h g L axes J shape X idx) →
    ∀ idx, InBox shape idx → iwtnRec h g L axes J shape C idx = X idx := by
  intro J
  induction J with
  | zero =>
    intro shape X C _ hC idx hidx
    simp only [fwtnRec, packShape] at hC
    rw [mapAxes_id _ _ _ (fun n => packedLen_zero n L)] at hC
    simp only [iwtnRec]
    exact hC idx hidx
  | succ J ih =>
    intro shape X C hax hC idx hidx
    have hax1 : ∀ a ∈ axes, a < (mapAxes (dwtLen · L) axes shape).length := by
      intro a ha; rw [length_mapAxes]; exact hax a ha
    have sub1 := subBox_apx_packed axes hL J shape
    have sub2 := subBox_packed_out (L := L) axes J shape
    simp only [fwtnRec] at hC
    simp only [iwtnRec]
    apply applyAxes_left_inverse_on _ shape X _ idx
      (lvSteps_ok h g L J axes shape hax AxisMap.IsInv (levelMap_isInv hh hg hc hL J)) ?_ hidx
    intro i2 hi2
    rw [shapeAxes_lvSteps h g L J axes shape hnd hax] at hi2
    by_cases h1 : inBoxB (mapAxes (dwtLen · L) axes shape) i2 = true
    · rw [if_pos h1]
      apply ih (mapAxes (dwtLen · L) axes shape) (applyAxes (lvSteps h g L J axes) shape X) C hax1 ?_ i2
        ((inBoxB_iff _ _).mp h1)
      intro i3 hi3
      unfold packShape at hi3
      rw [hC i3 (sub2.inBox hi3), if_pos ((inBoxB_iff _ _).mpr hi3)]
    · rw [if_neg h1]
      by_cases h2 : inBoxB (mapAxes (packedLen · L J) axes (mapAxes (dwtLen · L) axes shape)) i2 = true
      · rw [if_pos h2]
        have hi2' := (inBoxB_iff _ _).mp h2
        rw [mapAxes_mapAxes] at hi2'
        exact (lvSteps_zero_filling h g L J axes shape X hnd i2 hi2' (by rwa [← inBoxB_iff])).symm
      · rw [if_neg h2, hC i2 hi2, if_neg h2]

end levels

/-! ### the full sigpy pipeline: pad every axis to even, all levels, centre crop -/

theorem padSteps_ok (shape : List ℕ) (P : AxisMap R → Prop) (hP : P padMap) :
    ∀ s ∈ (padSteps shape.length : List (ℕ × AxisMap R)), s.1 < shape.length ∧ P s.2 := by
  intro s hs
  simp only [padSteps, List.mem_map, List.mem_range] at hs
  obtain ⟨a, ha, rfl⟩ := hs
  exact ⟨ha, hP⟩

theorem shapeAxes_padSteps (shape : List ℕ) :
    shapeAxes (padSteps shape.length : List (ℕ × AxisMap R)) shape = zShape shape := by
  unfold padSteps
  rw [shapeAxes_map _ _ _ List.nodup_range (fun a ha => List.mem_range.mp ha)]
  apply list_ext_getD (by simp [length_mapAxes, zShape])
  intro b hb
  rw [length_mapAxes] at hb
  rw [getD_mapAxes _ _ _ _ hb, if_pos (List.mem_range.mpr hb)]
  simp only [padMap, zShape]
  rw [List.getD_eq_getElem?_getD, List.getD_eq_getElem?_getD, List.getElem?_map, List.getElem?_eq_getElem hb]
  rfl

theorem length_zShape (shape : List ℕ) : (zShape shape).length = shape.length := by simp [zShape]

/-- the padded shape is the generated `zshape` formula of `sigpy/wavelet.py` applied to every axis length -/
theorem zShape_eq_gen (shape : List ℕ) :
    zShape shape = shape.map fun (i : ℕ) => (Gen.waveZshapeShape (i : Int)).toNat := by
  unfold zShape
  apply List.map_congr_left
  intro n _
  have := zshape_spec (n : Int)
  rw [zshape_sites_agree]
  omega

/-- `padMap` (the padding step of the N-d model) has the generated padded length and reads where the C09 resize
    model with the generated default shifts reads (`padSrc`) -/
theorem padMap_eq_gen (N k : ℕ) (x : ℕ → R) (hk : k < zlen N) :
    (padMap : AxisMap R).len N = zlen N ∧
    (padMap : AxisMap R).fwd N x k = (match padSrc (N : Int) (k : Int) with | some j => x j.toNat | none => 0) := by
  have hz := zshape_spec (N : Int)
  unfold zlen at hk ⊢
  refine ⟨by simp only [padMap]; omega, ?_⟩
  have key := pad_extra_zero_in_front (N : Int) (k : Int)
  simp only [padMap]
  cases hp : padSrc (N : Int) (k : Int) with
  | none =>
    simp only []
    by_cases hev : N % 2 = 0
    · exfalso
      have := (key (k : Int)).mpr ⟨by omega, by omega, by omega⟩
      rw [hp] at this; exact absurd this (by simp)
    · rw [if_neg hev]
      by_cases hk0 : k = 0
      · rw [if_pos hk0]
      · exfalso
        have := (key ((k : Int) - 1)).mpr ⟨by omega, by omega, by omega⟩
        rw [hp] at this; exact absurd this (by simp)
  | some j =>
    simp only []
    have := (key j).mp hp
    by_cases hev : N % 2 = 0
    · rw [if_pos hev]; congr 1; omega
    · rw [if_neg hev, if_neg (by omega)]; congr 1; omega

section pipeline
variable {L : ℕ} {h g : ℤ → R} (axes : List ℕ)

/-- **C10 isometry — sigpy.fwt, every level count (incl. `level=None`), every rank, every duplicate-free axes
    list, every shape (odd sizes included).**  The sum of squares of `fwt(X)` over the advertised coefficient
    box equals the sum of squares of `X`. -/
theorem fwtn_isometry (hh : SupportedOn L h) (hg : SupportedOn L g) (hc : Complete h g) (hL : 2 ≤ L)
    (hnd : axes.Nodup) (level : Option ℕ) (shape : List ℕ) (hax : ∀ a ∈ axes, a < shape.length)
    (X : List ℕ → R) :
    boxSum (fwtnOutShape L axes level shape) (fun idx => fwtn h g L axes level shape X idx ^ 2)
      = boxSum shape (fun idx => X idx ^ 2) := by
  unfold fwtn fwtnOutShape
  rw [fwtnRec_isometry axes hh hg hc hL hnd _ _ _ (by rw [length_zShape]; exact hax),
    ← shapeAxes_padSteps (R := R) shape]
  exact applyAxes_isometry _ shape X (padSteps_ok shape AxisMap.IsIso padMap_isIso)

/-- **C10 adjoint — `iwt = fwtᴴ`, every level count, rank, axes list and shape; ANY filters, ARBITRARY
    coefficient arrays.** -/
theorem fwtn_adjoint (h g : ℤ → R) (hL : 2 ≤ L) (hnd : axes.Nodup) (level : Option ℕ) (shape : List ℕ)
    (hax : ∀ a ∈ axes, a < shape.length) (X C : List ℕ → R) :
    boxSum (fwtnOutShape L axes level shape) (fun idx => fwtn h g L axes level shape X idx * C idx)
      = boxSum shape (fun idx => X idx * iwtn h g L axes level shape C idx) := by
  unfold fwtn iwtn fwtnOutShape
  rw [fwtnRec_adjoint axes h g hL hnd _ _ _ _ (by rw [length_zShape]; exact hax),
    ← shapeAxes_padSteps (R := R) shape]
  exact applyAxes_adjoint _ shape X _ (padSteps_ok shape AxisMap.IsAdj padMap_isAdj)

/-- **C10 perfect reconstruction — `iwt(fwt(X)) = X`, every level count, rank, axes list and shape**, at every
    multi-index of the input box. -/
theorem fwtn_pr (hh : SupportedOn L h) (hg : SupportedOn L g) (hc : Complete h g) (hL : 2 ≤ L)
    (hnd : axes.Nodup) (level : Option ℕ) (shape : List ℕ) (hax : ∀ a ∈ axes, a < shape.length)
    (X : List ℕ → R) (idx : List ℕ) (hidx : InBox shape idx) :
    iwtn h g L axes level shape (fwtn h g L axes level shape X) idx = X idx := by
  unfold fwtn iwtn
  apply applyAxes_left_inverse_on _ shape X _ idx (padSteps_ok shape AxisMap.IsInv padMap_isInv) ?_ hidx
  intro i2 hi2
  rw [shapeAxes_padSteps] at hi2
  exact fwtnRec_pr axes hh hg hc hL hnd _ _ _ _ (by rw [length_zShape]; exact hax) (fun _ _ => rfl) i2 hi2

end pipeline

/-! ### the executed twins are the same functions -/

section exec
variable {α : Type*} [Add α] [Mul α] [Zero α]

theorem fwtnRecM_app (h g : ℤ → α) (L : ℕ) (axes : List ℕ) : ∀ (J : ℕ) (shape : List ℕ) (X : Fn α),
    (fwtnRecM h g L axes J shape X).app = fwtnRec h g L axes J shape X.app := by
  intro J
  induction J with
  | zero => intro shape X; rfl
  | succ J ih => intro shape X; simp only [fwtnRecM, fwtnRec, selM, ih, tabM_app]

theorem iwtnRecM_app (h g : ℤ → α) (L : ℕ) (axes : List ℕ) : ∀ (J : ℕ) (shape : List ℕ) (C : Fn α),
    (iwtnRecM h g L axes J shape C).app = iwtnRec h g L axes J shape C.app := by
  intro J
  induction J with
  | zero => intro shape C; rfl
  | succ J ih => intro shape C; simp only [iwtnRecM, iwtnRec, selAdjM, ih, tabM_app]

/-- the function the driver executes against `sp.fwt` is `fwtn`, the function of `fwtn_isometry/_adjoint/_pr` -/
theorem fwtnM_app (h g : ℤ → α) (L : ℕ) (axes : List ℕ) (level : Option ℕ) (shape : List ℕ) (X : List ℕ → α) :
    (fwtnM h g L axes level shape X).app = fwtn h g L axes level shape X := by
  simp only [fwtnM, fwtn, fwtnRecM_app, tabM_app]

/-- the function the driver executes against `sp.iwt` is `iwtn` -/
theorem iwtnM_app (h g : ℤ → α) (L : ℕ) (axes : List ℕ) (level : Option ℕ) (shape : List ℕ) (C : List ℕ → α) :
    (iwtnM h g L axes level shape C).app = iwtn h g L axes level shape C := by
  simp only [iwtnM, iwtn, iwtnRecM_app, tabM_app]

end exec

/-! ### the advertised shape -/

/-- **C10 advertised shape.**  The box on which `fwtn_isometry/_adjoint/_pr` are stated is `waveShape`, the model
    of `get_wavelet_shape(...)[0]` = `Wavelet.oshape` = `InverseWavelet.ishape` (compared with the real code by the
    `shapes` stream), for every shape, level (`none` included) and axes list. -/
theorem fwtnOutShape_eq_waveShape (L : ℕ) (axes : List ℕ) (level : Option ℕ) (shape : List ℕ) :
    fwtnOutShape L axes level shape = waveShape shape axes L level := by
  unfold fwtnOutShape waveShape packShape
  simp only []
  rw [← zShape_eq_gen]
  apply list_ext_getD (by simp [length_mapAxes])
  intro b hb
  rw [length_mapAxes] at hb
  rw [getD_mapAxes _ _ _ _ hb]
  rw [List.getD_eq_getElem?_getD (l := List.map _ _), List.getElem?_map, List.getElem?_range hb]
  simp only [Option.map_some, Option.getD_some, List.contains_iff_mem]
  rfl

/-- `level=None`: `maxLevel n L` is the largest `J ≤ 64` with `(L-1)·2^J ≤ n` — PyWavelets'
    `dwt_max_level = ⌊log2(n/(L-1))⌋` (contract: the formula is PyWavelets' C code; compared on every run through
    the `shapes` stream with `level=None`). -/
theorem maxLevel_spec (n L : ℕ) (hn : n < (L - 1) * 2 ^ 65) :
    (maxLevel n L = 0 ∨ (L - 1) * 2 ^ maxLevel n L ≤ n) ∧ n < (L - 1) * 2 ^ (maxLevel n L + 1) := by
  have gen : ∀ K : ℕ,
      let r := (List.range K).foldl (fun J j => if (L - 1) * 2 ^ (j + 1) ≤ n then j + 1 else J) 0
      r ≤ K ∧ (r = 0 ∨ (L - 1) * 2 ^ r ≤ n) ∧ ∀ j, r < j → j ≤ K → n < (L - 1) * 2 ^ j := by
    intro K
    induction K with
    | zero => simp; intro j hj hj0; omega
    | succ K ih =>
      simp only [List.range_succ, List.foldl_append, List.foldl_cons, List.foldl_nil]
      obtain ⟨h1, h2, h3⟩ := ih
      split_ifs with hc
      · exact ⟨le_refl _, Or.inr hc, fun j hj hjK => by omega⟩
      · refine ⟨by omega, h2, fun j hj hjK => ?_⟩
        by_cases hjK' : j ≤ K
        · exact h3 j hj hjK'
        · have : j = K + 1 := by omega
          subst this; omega
  obtain ⟨h1, h2, h3⟩ := gen 64
  refine ⟨h2, ?_⟩
  by_cases h64 : maxLevel n L + 1 ≤ 64
  · exact h3 _ (by unfold maxLevel; omega) h64
  · have : maxLevel n L = 64 := by unfold maxLevel at h64 ⊢; omega
    rw [this]; exact hn

/-! ### non-vacuity -/

/-- Haar over ℝ, two levels over both axes of a 5 × 6 array (odd size: padded to 6 × 6): an instance of the three
    theorems; and concrete packed shapes incl. one with zero filling (db2-length filter, 8 → 5 → 4: `2·4 > 5`). -/
example (X : List ℕ → ℝ) :
    boxSum (fwtnOutShape 2 [0, 1] (some 2) [5, 6])
        (fun idx => fwtn (haarLo (Real.sqrt 2 / 2)) (haarHi (Real.sqrt 2 / 2)) 2 [0, 1] (some 2) [5, 6] X idx ^ 2)
      = boxSum [5, 6] (fun idx => X idx ^ 2) :=
  fwtn_isometry [0, 1] haar_real.1 haar_real.2.1 haar_real.2.2.1 (by norm_num) (by decide) _ _ (by decide) X

example : fwtnOutShape 2 [0, 1] (some 2) [5, 6] = [7, 7] ∧ fwtnOutShape 4 [0, 1] (some 2) [8, 3] = [13, 9]
    ∧ fwtnOutShape 4 [1] none [7, 8] = [8, 10] ∧ maxLevel 8 4 = 1 ∧ maxLevel 24 4 = 3 := by decide

end SigpyVerif.C10
