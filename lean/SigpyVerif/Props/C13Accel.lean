import SigpyVerif.Props.C13
import SigpyVerif.Lemmas.C13Conv
/-
  C13 (deepened) — the accelerated PDHG rate for `gamma_primal > 0` (Chambolle–Pock 2011, Alg. 2 / Thm 2).

  About `pdStep` / `pdRun` of Model/C13.lean with `gamma_primal = γ > 0`, `gamma_dual = 0`, scalar steps, i.e. about the
  generated formulas `Gen.C13.pdThetaP` (`θ = 1/√(1+2γ·tau_min)`), `pdTauP` (`tau *= θ`), `pdSigmaP` (`sigma /= θ`),
  `pdTauMinP`, `pdXExt` (`x_ext = x + θ (x - x_old)`), `pdDualArg`, `pdPrimalArg`, `pdDualProx`, `pdPrimalProx`.

  Proved in full (`g` γ-strongly convex — Mathlib's `StrongConvexOn` —, `τ₀σ₀‖A‖² ≤ 1`, `(x*, u*)` a saddle point):
  * `pdhg_accel_lyapunov`: ONE update does not increase
      `Ψ(s) = (‖x-x*‖²/(2τ) + ‖u-u*‖²/(2σ))/τ + ‖x_ext-x‖²/(2τ²) + ⟨A(x_ext-x), u-u*⟩/τ`  (τ, σ the CURRENT steps);
  * `pdhg_accel_energy_run`: `Ψ(s_k) ≤ Ψ(s_0)` along the run;  `pdhg_accel_tau_decay`: `1/τ_k ≥ 1/τ_0 + kγ/(1+γτ_0)`
    (so `τ_k = O(1/k)`, `σ_k = τ_0σ_0/τ_k` grows linearly);
  * `pdhg_accel_dist_tau`: `‖x_N - x*‖² ≤ τ_N² (‖x_0-x*‖²/τ_0² + ‖u_0-u*‖²/(τ_0σ_0))`;
  * `pdhg_accel_rate`: from a state with `x_ext = x` (what `__init__` builds),
      `‖x_N - x*‖² ≤ (‖x_0-x*‖²/τ_0² + ‖u_0-u*‖²/(τ_0σ_0)) / (1/τ_0 + Nγ/(1+γτ_0))²`   — the `O(1/N²)` rate.
  * `gamma_dual = γ > 0` (`f*` γ-strongly convex; the code rescales `sigma *= θ`, `tau /= θ` and STILL extrapolates the
    primal variable, so this is not the mirror image of Alg. 2): `pdhg_accel_lyapunov_dual` (`Ψ_d` non-increasing,
    `τσ‖A‖² ≤ 1`), `pdhg_accel_run_dual`, `pdhg_accel_energy_run_dual`, `pdhg_accel_sigma_decay`, and
    `pdhg_accel_rate_dual`: `(1-τ_0σ_0‖A‖²) ‖u_N - u*‖² ≤ (‖u_0-u*‖²/σ_0² + ‖x_0-x*‖²/(τ_0σ_0)) / (1/σ_0 + Nγ/(1+γσ_0))²`
    — an `O(1/N²)` rate under the STRICT condition `τ_0σ_0‖A‖² < 1` (for equality the statement is void).
  NOT proved: array-valued steps with acceleration (the code rescales with `tau_min` / `sigma_min`, for which the rate
  theorem of the paper does not apply verbatim); a dual rate at `τ_0σ_0‖A‖² = 1`.
-/
namespace SigpyVerif.C13
open RealInnerProductSpace

variable {E F : Type} [NormedAddCommGroup E] [InnerProductSpace ℝ E] [NormedAddCommGroup F] [InnerProductSpace ℝ F]

section accel2
variable (g : E → ℝ) (fc : F → ℝ) (proxg : ℝ → E → E) (proxfc : ℝ → F → F)

/-- Lyapunov function of the accelerated method on the state the code keeps -/
noncomputable def accelEnergy (A : E → F) (xs : E) (us : F) (s : PDState ℝ E F ℝ ℝ) : ℝ :=
  (‖s.x - xs‖ ^ 2 / (2 * s.tau) + ‖s.u - us‖ ^ 2 / (2 * s.sigma)) / s.tau + ‖s.x_ext - s.x‖ ^ 2 / (2 * s.tau ^ 2)
    + ⟪A (s.x_ext - s.x), s.u - us⟫ / s.tau

/-- `pdhg_accel_lyapunov` — `gamma_primal = γ > 0`, `gamma_dual = 0`, scalar steps with `τσ‖A‖² ≤ 1`
    (`tau_min = tau`, as `__init__` sets for a scalar `tau`), `g` γ-strongly convex, `(x*, u*)` a saddle point:
    one `update()` does not increase `Ψ`. Uses the generated `θ`, `tau *= θ`, `sigma /= θ` and extrapolation. -/
theorem pdhg_accel_lyapunov (A : E →ₗ[ℝ] F) (AH : F → E) (hadj : ∀ x u, ⟪A x, u⟫ = ⟪x, AH u⟫)
    (hg : ProxOf g proxg) (hfc : ProxOf fc proxfc) (γ θ0 : ℝ) (hγ : 0 < γ) (hsc : StrongConvexOn Set.univ γ g)
    (Lop : ℝ) (hA : ∀ x, ‖A x‖ ≤ Lop * ‖x‖)
    (s : PDState ℝ E F ℝ ℝ) (hτ : 0 < s.tau) (hσ : 0 < s.sigma) (hstep : s.tau * s.sigma * Lop ^ 2 ≤ 1)
    (hmin : s.tau_min = s.tau) (xs : E) (us : F) (hs : IsSaddle g fc A AH xs us) :
    accelEnergy A xs us (pdStep Real.sqrt A AH proxfc proxg γ 0 θ0 s) ≤ accelEnergy A xs us s := by
  set s1 := pdStep Real.sqrt A AH proxfc proxg γ 0 θ0 s with hs1
  have hU := hfc s.sigma (s.u + s.sigma • A s.x_ext) hσ
  rw [← pdStep_u proxg proxfc A AH γ 0 θ0 s, ← hs1] at hU
  have hX := hg s.tau (s.x + s.tau • (-(AH s1.u))) hτ
  rw [← pdStep_x proxg proxfc A AH γ 0 θ0 s, ← hs1] at hX
  -- prox + saddle inequalities (primal ones strengthened by strong convexity)
  have d1 := hU us
  have d2 := hs.2 s1.u
  have p1 := strong_subgrad hγ.le hsc (fun w => hX w) xs
  have p2 := strong_subgrad hγ.le hsc hs.1 s1.x
  rw [inner_prox_arg _ hτ] at p1
  rw [inner_prox_arg _ hσ] at d1
  have i1 : ⟪-(AH s1.u), xs - s1.x⟫ = ⟪A (s1.x - xs), s1.u⟫ := by
    rw [inner_neg_left, real_inner_comm, ← hadj, ← inner_neg_left, ← map_neg, neg_sub]
  have i2 : ⟪-(AH us), s1.x - xs⟫ = -⟪A (s1.x - xs), us⟫ := by
    rw [inner_neg_left, real_inner_comm, ← hadj]
  have i3 : ‖xs - s1.x‖ = ‖s1.x - xs‖ := norm_sub_rev _ _
  rw [i1, i3] at p1
  rw [i2] at p2
  have hP : (1 / s.tau) * ⟪(s.x - xs) - (s1.x - xs), -(s1.x - xs)⟫ + ⟪A (s1.x - xs), s1.u - us⟫
      + γ * ‖s1.x - xs‖ ^ 2 ≤ 0 := by
    have e1 : (s.x - xs) - (s1.x - xs) = s.x - s1.x := by abel
    have e2 : -(s1.x - xs) = xs - s1.x := by abel
    rw [e1, e2, inner_sub_right (A (s1.x - xs))]
    linarith
  have hD : (1 / s.sigma) * ⟪(s.u - us) - (s1.u - us), -(s1.u - us)⟫
      - ⟪A ((s.x - xs) + (s.x_ext - s.x)), s1.u - us⟫ ≤ 0 := by
    have e1 : (s.u - us) - (s1.u - us) = s.u - s1.u := by abel
    have e2 : -(s1.u - us) = us - s1.u := by abel
    have e3 : (s.x - xs) + (s.x_ext - s.x) = s.x_ext - xs := by abel
    have e4 : ⟪A (s.x_ext - xs), s1.u - us⟫ = -⟪A s.x_ext, us - s1.u⟫ - ⟪A xs, s1.u - us⟫ := by
      rw [map_sub, inner_sub_left, ← inner_neg_right, neg_sub]
    rw [e1, e2, e3, e4]
    linarith
  have hcore := accel_core A Lop hA s.tau s.sigma γ hτ hσ hstep (s.x - xs) (s1.x - xs) (s.x_ext - s.x)
    (s.u - us) (s1.u - us) hP hD
  -- the new steps and the new extrapolated point
  obtain ⟨a1, a2, _, a4, a5, _, _, _⟩ := pdhg_accel_steps_primal γ θ0 s.tau s.sigma s.sigma_min hγ hτ
  have et : s1.tau = (pdRescale Real.sqrt γ 0 θ0 s.tau s.sigma s.tau_min s.sigma_min : Rescale ℝ ℝ ℝ).tau := rfl
  have es : s1.sigma = (pdRescale Real.sqrt γ 0 θ0 s.tau s.sigma s.tau_min s.sigma_min : Rescale ℝ ℝ ℝ).sigma := rfl
  have ex := pdStep_x_ext proxg proxfc A AH γ 0 θ0 s
  rw [← hs1] at ex
  rw [hmin] at et es ex
  rw [a4, a1] at et
  rw [a5, a1] at es
  rw [a1] at ex
  have hρ : 0 < Real.sqrt (1 + 2 * γ * s.tau) := Real.sqrt_pos.mpr (by positivity)
  have hρ2 : Real.sqrt (1 + 2 * γ * s.tau) ^ 2 = 1 + 2 * γ * s.tau := Real.sq_sqrt (by positivity)
  set ρ := Real.sqrt (1 + 2 * γ * s.tau) with hρdef
  have hγeq : γ = (ρ ^ 2 - 1) / (2 * s.tau) := by
    rw [hρ2]; field_simp; ring
  have e5 : s1.x_ext - s1.x = (1 / ρ) • ((s1.x - xs) - (s.x - xs)) := by
    rw [ex, add_sub_cancel_left, sub_sub_sub_cancel_right]
  have hnew : accelEnergy A xs us s1
      = ((1 / (2 * s.tau) + γ) * ‖s1.x - xs‖ ^ 2 + ‖s1.u - us‖ ^ 2 / (2 * s.sigma)
          + ‖(s1.x - xs) - (s.x - xs)‖ ^ 2 / (2 * s.tau) + ⟪A ((s1.x - xs) - (s.x - xs)), s1.u - us⟫) / s.tau := by
    unfold accelEnergy
    rw [e5, et, es, map_smul, real_inner_smul_left, norm_smul, Real.norm_eq_abs, abs_of_pos (by positivity : 0 < 1 / ρ),
      hγeq]
    field_simp
    ring
  rw [hnew]
  exact hcore

/-- the invariants of the accelerated run (`pdhg_accel_run_primal`) plus positivity of `sigma` -/
theorem pdhg_accel_run_pos (A : E → F) (AH : F → E) (γ θ0 : ℝ) (hγ : 0 < γ) (s0 : PDState ℝ E F ℝ ℝ)
    (hτ : 0 < s0.tau) (hσ : 0 < s0.sigma) (hmin : s0.tau_min = s0.tau) (k : ℕ) :
    0 < (pdRun Real.sqrt A AH proxfc proxg γ 0 θ0 s0 k).sigma := by
  obtain ⟨h1, _, h3⟩ := pdhg_accel_run_primal A AH proxg proxfc γ θ0 hγ s0 hτ hmin k
  have hp : 0 < (pdRun Real.sqrt A AH proxfc proxg γ 0 θ0 s0 k).tau * (pdRun Real.sqrt A AH proxfc proxg γ 0 θ0 s0 k).sigma := by
    rw [h1]; exact mul_pos hτ hσ
  by_contra hc
  push Not at hc
  have := mul_nonpos_of_nonneg_of_nonpos h3.le hc
  linarith

/-- `pdhg_accel_energy_run` — `Ψ(s_k) ≤ Ψ(s_0)` along the whole accelerated run -/
theorem pdhg_accel_energy_run (A : E →ₗ[ℝ] F) (AH : F → E) (hadj : ∀ x u, ⟪A x, u⟫ = ⟪x, AH u⟫)
    (hg : ProxOf g proxg) (hfc : ProxOf fc proxfc) (γ θ0 : ℝ) (hγ : 0 < γ) (hsc : StrongConvexOn Set.univ γ g)
    (Lop : ℝ) (hA : ∀ x, ‖A x‖ ≤ Lop * ‖x‖)
    (s0 : PDState ℝ E F ℝ ℝ) (hτ : 0 < s0.tau) (hσ : 0 < s0.sigma) (hstep : s0.tau * s0.sigma * Lop ^ 2 ≤ 1)
    (hmin : s0.tau_min = s0.tau) (xs : E) (us : F) (hs : IsSaddle g fc A AH xs us) (k : ℕ) :
    accelEnergy A xs us (pdRun Real.sqrt A AH proxfc proxg γ 0 θ0 s0 k) ≤ accelEnergy A xs us s0 := by
  induction k with
  | zero => exact le_rfl
  | succ k ih =>
    obtain ⟨h1, h2, h3⟩ := pdhg_accel_run_primal A AH proxg proxfc γ θ0 hγ s0 hτ hmin k
    have h4 := pdhg_accel_run_pos proxg proxfc A AH γ θ0 hγ s0 hτ hσ hmin k
    have e : pdRun Real.sqrt A AH proxfc proxg γ 0 θ0 s0 (k + 1)
        = pdStep Real.sqrt A AH proxfc proxg γ 0 θ0 (pdRun Real.sqrt A AH proxfc proxg γ 0 θ0 s0 k) := rfl
    rw [e]
    exact (pdhg_accel_lyapunov g fc proxg proxfc A AH hadj hg hfc γ θ0 hγ hsc Lop hA _ h3 h4
      (by rw [h1]; exact hstep) h2 xs us hs).trans ih

/-- `pdhg_accel_tau_decay` — with the code's `θ = 1/√(1+2γτ)`, `tau *= θ`: `1/τ_k ≥ 1/τ_0 + kγ/(1+γτ_0)`, i.e.
    `τ_k = O(1/k)` and (`τσ` being invariant) `σ_k` grows at least linearly. -/
theorem pdhg_accel_tau_decay (A : E → F) (AH : F → E) (γ θ0 : ℝ) (hγ : 0 < γ) (s0 : PDState ℝ E F ℝ ℝ)
    (hτ : 0 < s0.tau) (hmin : s0.tau_min = s0.tau) (k : ℕ) :
    1 / s0.tau + k * (γ / (1 + γ * s0.tau)) ≤ 1 / (pdRun Real.sqrt A AH proxfc proxg γ 0 θ0 s0 k).tau := by
  induction k with
  | zero => simp [pdRun]
  | succ k ih =>
    obtain ⟨_, h2, h3⟩ := pdhg_accel_run_primal A AH proxg proxfc γ θ0 hγ s0 hτ hmin k
    set s := pdRun Real.sqrt A AH proxfc proxg γ 0 θ0 s0 k with hsdef
    have e : pdRun Real.sqrt A AH proxfc proxg γ 0 θ0 s0 (k + 1) = pdStep Real.sqrt A AH proxfc proxg γ 0 θ0 s := rfl
    have et : (pdStep Real.sqrt A AH proxfc proxg γ 0 θ0 s).tau
        = (pdRescale Real.sqrt γ 0 θ0 s.tau s.sigma s.tau_min s.sigma_min : Rescale ℝ ℝ ℝ).tau := rfl
    obtain ⟨a1, _, _, a4, _, _, _, _⟩ := pdhg_accel_steps_primal γ θ0 s.tau s.sigma s.sigma_min hγ h3
    rw [e, et, h2, a4, a1]
    have hg1 := inv_tau_growth γ s.tau hγ h3
    -- τ_k ≤ τ_0, hence γ/(1+γτ_0) ≤ γ/(1+γτ_k)
    have hle : s.tau ≤ s0.tau := by
      have hk : 0 ≤ (k : ℝ) * (γ / (1 + γ * s0.tau)) := by positivity
      have : 1 / s0.tau ≤ 1 / s.tau := by linarith
      exact (one_div_le_one_div hτ h3).mp this
    have hmono : γ / (1 + γ * s0.tau) ≤ γ / (1 + γ * s.tau) := by
      apply div_le_div_of_nonneg_left hγ.le (by positivity)
      nlinarith
    push_cast
    linarith

/-- `pdhg_accel_dist_tau` — the form of Chambolle–Pock Thm 2 in terms of the CURRENT step:
    `‖x_N - x*‖² ≤ τ_N² (‖x_0-x*‖²/τ_0² + ‖u_0-u*‖²/(τ_0σ_0))` (this is what the search oracle evaluates on the real
    code, with the `tau` the object holds after `N` updates). -/
theorem pdhg_accel_dist_tau (A : E →ₗ[ℝ] F) (AH : F → E) (hadj : ∀ x u, ⟪A x, u⟫ = ⟪x, AH u⟫)
    (hg : ProxOf g proxg) (hfc : ProxOf fc proxfc) (γ θ0 : ℝ) (hγ : 0 < γ) (hsc : StrongConvexOn Set.univ γ g)
    (Lop : ℝ) (hA : ∀ x, ‖A x‖ ≤ Lop * ‖x‖)
    (s0 : PDState ℝ E F ℝ ℝ) (hτ : 0 < s0.tau) (hσ : 0 < s0.sigma) (hstep : s0.tau * s0.sigma * Lop ^ 2 ≤ 1)
    (hmin : s0.tau_min = s0.tau) (hext : s0.x_ext = s0.x) (xs : E) (us : F) (hs : IsSaddle g fc A AH xs us) (N : ℕ) :
    ‖(pdRun Real.sqrt A AH proxfc proxg γ 0 θ0 s0 N).x - xs‖ ^ 2
      ≤ (pdRun Real.sqrt A AH proxfc proxg γ 0 θ0 s0 N).tau ^ 2
        * (‖s0.x - xs‖ ^ 2 / s0.tau ^ 2 + ‖s0.u - us‖ ^ 2 / (s0.tau * s0.sigma)) := by
  obtain ⟨h1, _, h3⟩ := pdhg_accel_run_primal A AH proxg proxfc γ θ0 hγ s0 hτ hmin N
  have h4 := pdhg_accel_run_pos proxg proxfc A AH γ θ0 hγ s0 hτ hσ hmin N
  have hE := pdhg_accel_energy_run g fc proxg proxfc A AH hadj hg hfc γ θ0 hγ hsc Lop hA s0 hτ hσ hstep hmin xs us hs N
  set s := pdRun Real.sqrt A AH proxfc proxg γ 0 θ0 s0 N with hsdef
  have hlow := accel_energy_lower A Lop hA s.tau s.sigma h3 h4 (by rw [h1]; exact hstep) (s.x - xs) (s.x_ext - s.x) (s.u - us)
  have hE0 : accelEnergy A xs us s0 = (‖s0.x - xs‖ ^ 2 / s0.tau ^ 2 + ‖s0.u - us‖ ^ 2 / (s0.tau * s0.sigma)) / 2 := by
    unfold accelEnergy
    rw [hext, sub_self, map_zero, norm_zero, inner_zero_left]
    field_simp
    ring
  set C := ‖s0.x - xs‖ ^ 2 / s0.tau ^ 2 + ‖s0.u - us‖ ^ 2 / (s0.tau * s0.sigma) with hC
  have hchain : ‖s.x - xs‖ ^ 2 / (2 * s.tau ^ 2) ≤ C / 2 := by
    have : accelEnergy A xs us s = (‖s.x - xs‖ ^ 2 / (2 * s.tau) + ‖s.u - us‖ ^ 2 / (2 * s.sigma)) / s.tau
        + ‖s.x_ext - s.x‖ ^ 2 / (2 * s.tau ^ 2) + ⟪A (s.x_ext - s.x), s.u - us⟫ / s.tau := rfl
    linarith
  rw [div_le_iff₀ (by positivity)] at hchain
  linarith

/-- `pdhg_accel_rate` — Chambolle–Pock Thm 2 for the generated updates: `gamma_primal = γ > 0` (`g` γ-strongly convex),
    `gamma_dual = 0`, scalar steps with `τ₀σ₀‖A‖² ≤ 1`, initial state as built by `__init__` (`x_ext = x`,
    `tau_min = tau`): for every saddle point `(x*, u*)` and every `N`
    `‖x_N - x*‖² ≤ (‖x_0-x*‖²/τ_0² + ‖u_0-u*‖²/(τ_0σ_0)) / (1/τ_0 + Nγ/(1+γτ_0))²` — the `O(1/N²)` rate. -/
theorem pdhg_accel_rate (A : E →ₗ[ℝ] F) (AH : F → E) (hadj : ∀ x u, ⟪A x, u⟫ = ⟪x, AH u⟫)
    (hg : ProxOf g proxg) (hfc : ProxOf fc proxfc) (γ θ0 : ℝ) (hγ : 0 < γ) (hsc : StrongConvexOn Set.univ γ g)
    (Lop : ℝ) (hA : ∀ x, ‖A x‖ ≤ Lop * ‖x‖)
    (s0 : PDState ℝ E F ℝ ℝ) (hτ : 0 < s0.tau) (hσ : 0 < s0.sigma) (hstep : s0.tau * s0.sigma * Lop ^ 2 ≤ 1)
    (hmin : s0.tau_min = s0.tau) (hext : s0.x_ext = s0.x) (xs : E) (us : F) (hs : IsSaddle g fc A AH xs us) (N : ℕ) :
    ‖(pdRun Real.sqrt A AH proxfc proxg γ 0 θ0 s0 N).x - xs‖ ^ 2
      ≤ (‖s0.x - xs‖ ^ 2 / s0.tau ^ 2 + ‖s0.u - us‖ ^ 2 / (s0.tau * s0.sigma))
        / (1 / s0.tau + N * (γ / (1 + γ * s0.tau))) ^ 2 := by
  obtain ⟨_, _, h3⟩ := pdhg_accel_run_primal A AH proxg proxfc γ θ0 hγ s0 hτ hmin N
  have hb := pdhg_accel_dist_tau g fc proxg proxfc A AH hadj hg hfc γ θ0 hγ hsc Lop hA s0 hτ hσ hstep hmin hext xs us hs N
  have hdec := pdhg_accel_tau_decay proxg proxfc A AH γ θ0 hγ s0 hτ hmin N
  set s := pdRun Real.sqrt A AH proxfc proxg γ 0 θ0 s0 N with hsdef
  set C := ‖s0.x - xs‖ ^ 2 / s0.tau ^ 2 + ‖s0.u - us‖ ^ 2 / (s0.tau * s0.sigma) with hC
  have hC0 : 0 ≤ C := by positivity
  set S := 1 / s0.tau + N * (γ / (1 + γ * s0.tau)) with hS
  have hS0 : 0 < S := by positivity
  have hτS : s.tau ≤ 1 / S := by
    rw [le_div_iff₀ hS0]
    have := (le_div_iff₀ h3).mp hdec
    linarith
  have hτS2 : s.tau ^ 2 ≤ 1 / S ^ 2 := by
    have := pow_le_pow_left₀ h3.le hτS 2
    rwa [div_pow, one_pow] at this
  calc ‖s.x - xs‖ ^ 2 ≤ s.tau ^ 2 * C := hb
    _ ≤ 1 / S ^ 2 * C := mul_le_mul_of_nonneg_right hτS2 hC0
    _ = C / S ^ 2 := by ring

end accel2

/-! ### `gamma_dual > 0` (the code rescales `sigma *= θ`, `tau /= θ` with `θ = 1/√(1+2γ·sigma_min)` and STILL extrapolates
    the primal variable — not the mirror image of Chambolle–Pock Alg. 2).  Proved: the `O(1/N²)` rate for the dual
    variable under the STRICT step condition `τ₀σ₀‖A‖² < 1` (constant `1/(1-τ₀σ₀‖A‖²)`). -/
section accelDual
variable (g : E → ℝ) (fc : F → ℝ) (proxg : ℝ → E → E) (proxfc : ℝ → F → F)

/-- Lyapunov function of the dual-accelerated method on the state the code keeps -/
noncomputable def accelEnergyD (A : E → F) (xs : E) (us : F) (s : PDState ℝ E F ℝ ℝ) : ℝ :=
  (‖s.x - xs‖ ^ 2 / (2 * s.tau) + ‖s.u - us‖ ^ 2 / (2 * s.sigma)) / s.sigma
    + ⟪A (s.x_ext - s.x), s.u - us⟫ / s.sigma + ‖s.x_ext - s.x‖ ^ 2 / (2 * (s.tau * s.sigma))

/-- `pdhg_accel_lyapunov_dual` — `gamma_primal = 0`, `gamma_dual = γ > 0`, scalar steps with `τσ‖A‖² ≤ 1`
    (`sigma_min = sigma`), `f*` γ-strongly convex, `(x*, u*)` a saddle point: one `update()` does not increase `Ψ_d`. -/
theorem pdhg_accel_lyapunov_dual (A : E →ₗ[ℝ] F) (AH : F → E) (hadj : ∀ x u, ⟪A x, u⟫ = ⟪x, AH u⟫)
    (hg : ProxOf g proxg) (hfc : ProxOf fc proxfc) (γ θ0 : ℝ) (hγ : 0 < γ) (hsc : StrongConvexOn Set.univ γ fc)
    (Lop : ℝ) (hA : ∀ x, ‖A x‖ ≤ Lop * ‖x‖)
    (s : PDState ℝ E F ℝ ℝ) (hτ : 0 < s.tau) (hσ : 0 < s.sigma) (hstep : s.tau * s.sigma * Lop ^ 2 ≤ 1)
    (hmin : s.sigma_min = s.sigma) (xs : E) (us : F) (hs : IsSaddle g fc A AH xs us) :
    accelEnergyD A xs us (pdStep Real.sqrt A AH proxfc proxg 0 γ θ0 s) ≤ accelEnergyD A xs us s := by
  set s1 := pdStep Real.sqrt A AH proxfc proxg 0 γ θ0 s with hs1
  have hU := hfc s.sigma (s.u + s.sigma • A s.x_ext) hσ
  rw [← pdStep_u proxg proxfc A AH 0 γ θ0 s, ← hs1] at hU
  have hX := hg s.tau (s.x + s.tau • (-(AH s1.u))) hτ
  rw [← pdStep_x proxg proxfc A AH 0 γ θ0 s, ← hs1] at hX
  have d1 := strong_subgrad hγ.le hsc (fun w => hU w) us
  have d2 := strong_subgrad hγ.le hsc hs.2 s1.u
  have p1 := hX xs
  have p2 := hs.1 s1.x
  rw [inner_prox_arg _ hτ] at p1
  rw [inner_prox_arg _ hσ] at d1
  have i1 : ⟪-(AH s1.u), xs - s1.x⟫ = ⟪A (s1.x - xs), s1.u⟫ := by
    rw [inner_neg_left, real_inner_comm, ← hadj, ← inner_neg_left, ← map_neg, neg_sub]
  have i2 : ⟪-(AH us), s1.x - xs⟫ = -⟪A (s1.x - xs), us⟫ := by
    rw [inner_neg_left, real_inner_comm, ← hadj]
  have i3 : ‖us - s1.u‖ = ‖s1.u - us‖ := norm_sub_rev _ _
  rw [i1] at p1
  rw [i2] at p2
  rw [i3] at d1
  have hP : (1 / s.tau) * ⟪(s.x - xs) - (s1.x - xs), -(s1.x - xs)⟫ + ⟪A (s1.x - xs), s1.u - us⟫ ≤ 0 := by
    have e1 : (s.x - xs) - (s1.x - xs) = s.x - s1.x := by abel
    have e2 : -(s1.x - xs) = xs - s1.x := by abel
    rw [e1, e2, inner_sub_right (A (s1.x - xs))]
    linarith
  have hD : (1 / s.sigma) * ⟪(s.u - us) - (s1.u - us), -(s1.u - us)⟫
      - ⟪A ((s.x - xs) + (s.x_ext - s.x)), s1.u - us⟫ + γ * ‖s1.u - us‖ ^ 2 ≤ 0 := by
    have e1 : (s.u - us) - (s1.u - us) = s.u - s1.u := by abel
    have e2 : -(s1.u - us) = us - s1.u := by abel
    have e3 : (s.x - xs) + (s.x_ext - s.x) = s.x_ext - xs := by abel
    have e4 : ⟪A (s.x_ext - xs), s1.u - us⟫ = -⟪A s.x_ext, us - s1.u⟫ - ⟪A xs, s1.u - us⟫ := by
      rw [map_sub, inner_sub_left, ← inner_neg_right, neg_sub]
    rw [e1, e2, e3, e4]
    linarith
  have hcore := accel_core_dual A Lop hA s.tau s.sigma γ hτ hσ hstep (s.x - xs) (s1.x - xs) (s.x_ext - s.x)
    (s.u - us) (s1.u - us) hP hD
  obtain ⟨a1, a2, _, a4, a5, _, _, _⟩ := pdhg_accel_steps_dual γ θ0 s.tau s.sigma s.tau_min hγ hσ
  have et : s1.tau = (pdRescale Real.sqrt 0 γ θ0 s.tau s.sigma s.tau_min s.sigma_min : Rescale ℝ ℝ ℝ).tau := rfl
  have es : s1.sigma = (pdRescale Real.sqrt 0 γ θ0 s.tau s.sigma s.tau_min s.sigma_min : Rescale ℝ ℝ ℝ).sigma := rfl
  have ex := pdStep_x_ext proxg proxfc A AH 0 γ θ0 s
  rw [← hs1] at ex
  rw [hmin] at et es ex
  rw [a5, a1] at et
  rw [a4, a1] at es
  rw [a1] at ex
  have hρ : 0 < Real.sqrt (1 + 2 * γ * s.sigma) := Real.sqrt_pos.mpr (by positivity)
  have hρ2 : Real.sqrt (1 + 2 * γ * s.sigma) ^ 2 = 1 + 2 * γ * s.sigma := Real.sq_sqrt (by positivity)
  set ρ := Real.sqrt (1 + 2 * γ * s.sigma) with hρdef
  have hγeq : γ = (ρ ^ 2 - 1) / (2 * s.sigma) := by
    rw [hρ2]; field_simp; ring
  have hρ1 : 1 ≤ ρ ^ 2 := by rw [hρ2]; nlinarith [mul_pos hγ hσ]
  have e5 : s1.x_ext - s1.x = (1 / ρ) • ((s1.x - xs) - (s.x - xs)) := by
    rw [ex, add_sub_cancel_left, sub_sub_sub_cancel_right]
  have hnew : accelEnergyD A xs us s1
      = (‖s1.x - xs‖ ^ 2 / (2 * s.tau) + (1 / (2 * s.sigma) + γ) * ‖s1.u - us‖ ^ 2
          + ‖(s1.x - xs) - (s.x - xs)‖ ^ 2 / (2 * s.tau) + ⟪A ((s1.x - xs) - (s.x - xs)), s1.u - us⟫) / s.sigma
        - (1 - 1 / ρ ^ 2) * ‖(s1.x - xs) - (s.x - xs)‖ ^ 2 / (2 * (s.tau * s.sigma)) := by
    unfold accelEnergyD
    rw [e5, et, es, map_smul, real_inner_smul_left, norm_smul, Real.norm_eq_abs, abs_of_pos (by positivity : 0 < 1 / ρ),
      hγeq]
    field_simp
    ring
  have hsub : 0 ≤ (1 - 1 / ρ ^ 2) * ‖(s1.x - xs) - (s.x - xs)‖ ^ 2 / (2 * (s.tau * s.sigma)) := by
    have : 0 ≤ 1 - 1 / ρ ^ 2 := by
      rw [sub_nonneg, div_le_one (by positivity)]; exact hρ1
    positivity
  rw [hnew]
  unfold accelEnergyD
  linarith

/-- invariants of the dual-accelerated run: `tau*sigma` constant, `sigma_min` tracks `sigma`, both steps positive -/
theorem pdhg_accel_run_dual (A : E → F) (AH : F → E) (γ θ0 : ℝ) (hγ : 0 < γ) (s0 : PDState ℝ E F ℝ ℝ)
    (hτ : 0 < s0.tau) (hσ : 0 < s0.sigma) (hmin : s0.sigma_min = s0.sigma) (k : ℕ) :
    (pdRun Real.sqrt A AH proxfc proxg 0 γ θ0 s0 k).tau * (pdRun Real.sqrt A AH proxfc proxg 0 γ θ0 s0 k).sigma
        = s0.tau * s0.sigma ∧
      (pdRun Real.sqrt A AH proxfc proxg 0 γ θ0 s0 k).sigma_min = (pdRun Real.sqrt A AH proxfc proxg 0 γ θ0 s0 k).sigma ∧
      0 < (pdRun Real.sqrt A AH proxfc proxg 0 γ θ0 s0 k).sigma ∧
      0 < (pdRun Real.sqrt A AH proxfc proxg 0 γ θ0 s0 k).tau := by
  induction k with
  | zero => exact ⟨rfl, hmin, hσ, hτ⟩
  | succ k ih =>
    obtain ⟨h1, h2, h3, h4⟩ := ih
    set s := pdRun Real.sqrt A AH proxfc proxg 0 γ θ0 s0 k
    have e : pdRun Real.sqrt A AH proxfc proxg 0 γ θ0 s0 (k + 1)
        = pdStep Real.sqrt A AH proxfc proxg 0 γ θ0 s := rfl
    have et : (pdStep Real.sqrt A AH proxfc proxg 0 γ θ0 s).tau
        = (pdRescale Real.sqrt 0 γ θ0 s.tau s.sigma s.tau_min s.sigma_min : Rescale ℝ ℝ ℝ).tau := rfl
    have es : (pdStep Real.sqrt A AH proxfc proxg 0 γ θ0 s).sigma
        = (pdRescale Real.sqrt 0 γ θ0 s.tau s.sigma s.tau_min s.sigma_min : Rescale ℝ ℝ ℝ).sigma := rfl
    have em : (pdStep Real.sqrt A AH proxfc proxg 0 γ θ0 s).sigma_min
        = (pdRescale Real.sqrt 0 γ θ0 s.tau s.sigma s.tau_min s.sigma_min : Rescale ℝ ℝ ℝ).sigma_min := rfl
    rw [e, et, es, em, h2]
    obtain ⟨_, a2, _, a4, a5, a6, a7, _⟩ := pdhg_accel_steps_dual γ θ0 s.tau s.sigma s.tau_min hγ h3
    refine ⟨a6.trans h1, a7, ?_, ?_⟩
    · rw [a4]; exact mul_pos a2 h3
    · rw [a5]; exact div_pos h4 a2

/-- `Ψ_d(s_k) ≤ Ψ_d(s_0)` along the dual-accelerated run -/
theorem pdhg_accel_energy_run_dual (A : E →ₗ[ℝ] F) (AH : F → E) (hadj : ∀ x u, ⟪A x, u⟫ = ⟪x, AH u⟫)
    (hg : ProxOf g proxg) (hfc : ProxOf fc proxfc) (γ θ0 : ℝ) (hγ : 0 < γ) (hsc : StrongConvexOn Set.univ γ fc)
    (Lop : ℝ) (hA : ∀ x, ‖A x‖ ≤ Lop * ‖x‖)
    (s0 : PDState ℝ E F ℝ ℝ) (hτ : 0 < s0.tau) (hσ : 0 < s0.sigma) (hstep : s0.tau * s0.sigma * Lop ^ 2 ≤ 1)
    (hmin : s0.sigma_min = s0.sigma) (xs : E) (us : F) (hs : IsSaddle g fc A AH xs us) (k : ℕ) :
    accelEnergyD A xs us (pdRun Real.sqrt A AH proxfc proxg 0 γ θ0 s0 k) ≤ accelEnergyD A xs us s0 := by
  induction k with
  | zero => exact le_rfl
  | succ k ih =>
    obtain ⟨h1, h2, h3, h4⟩ := pdhg_accel_run_dual proxg proxfc A AH γ θ0 hγ s0 hτ hσ hmin k
    have e : pdRun Real.sqrt A AH proxfc proxg 0 γ θ0 s0 (k + 1)
        = pdStep Real.sqrt A AH proxfc proxg 0 γ θ0 (pdRun Real.sqrt A AH proxfc proxg 0 γ θ0 s0 k) := rfl
    rw [e]
    exact (pdhg_accel_lyapunov_dual g fc proxg proxfc A AH hadj hg hfc γ θ0 hγ hsc Lop hA _ h4 h3
      (by rw [h1]; exact hstep) h2 xs us hs).trans ih

/-- `1/σ_k ≥ 1/σ_0 + kγ/(1+γσ_0)` -/
theorem pdhg_accel_sigma_decay (A : E → F) (AH : F → E) (γ θ0 : ℝ) (hγ : 0 < γ) (s0 : PDState ℝ E F ℝ ℝ)
    (hτ : 0 < s0.tau) (hσ : 0 < s0.sigma) (hmin : s0.sigma_min = s0.sigma) (k : ℕ) :
    1 / s0.sigma + k * (γ / (1 + γ * s0.sigma)) ≤ 1 / (pdRun Real.sqrt A AH proxfc proxg 0 γ θ0 s0 k).sigma := by
  induction k with
  | zero => simp [pdRun]
  | succ k ih =>
    obtain ⟨_, h2, h3, _⟩ := pdhg_accel_run_dual proxg proxfc A AH γ θ0 hγ s0 hτ hσ hmin k
    set s := pdRun Real.sqrt A AH proxfc proxg 0 γ θ0 s0 k with hsdef
    have e : pdRun Real.sqrt A AH proxfc proxg 0 γ θ0 s0 (k + 1) = pdStep Real.sqrt A AH proxfc proxg 0 γ θ0 s := rfl
    have es : (pdStep Real.sqrt A AH proxfc proxg 0 γ θ0 s).sigma
        = (pdRescale Real.sqrt 0 γ θ0 s.tau s.sigma s.tau_min s.sigma_min : Rescale ℝ ℝ ℝ).sigma := rfl
    obtain ⟨a1, _, _, a4, _, _, _, _⟩ := pdhg_accel_steps_dual γ θ0 s.tau s.sigma s.tau_min hγ h3
    rw [e, es, h2, a4, a1]
    have hg1 := inv_tau_growth γ s.sigma hγ h3
    have hle : s.sigma ≤ s0.sigma := by
      have hk : 0 ≤ (k : ℝ) * (γ / (1 + γ * s0.sigma)) := by positivity
      have : 1 / s0.sigma ≤ 1 / s.sigma := by linarith
      exact (one_div_le_one_div hσ h3).mp this
    have hmono : γ / (1 + γ * s0.sigma) ≤ γ / (1 + γ * s.sigma) := by
      apply div_le_div_of_nonneg_left hγ.le (by positivity)
      nlinarith
    push_cast
    linarith

/-- `pdhg_accel_rate_dual` — the generated updates with `gamma_dual = γ > 0` (`f*` γ-strongly convex), `gamma_primal = 0`,
    scalar steps with the STRICT condition `τ₀σ₀‖A‖² < 1`, initial state as built by `__init__`: for every saddle point
    `(1 - τ₀σ₀‖A‖²) ‖u_N - u*‖² ≤ (‖u_0-u*‖²/σ_0² + ‖x_0-x*‖²/(τ_0σ_0)) / (1/σ_0 + Nγ/(1+γσ_0))²` — `O(1/N²)` for the
    dual variable. -/
theorem pdhg_accel_rate_dual (A : E →ₗ[ℝ] F) (AH : F → E) (hadj : ∀ x u, ⟪A x, u⟫ = ⟪x, AH u⟫)
    (hg : ProxOf g proxg) (hfc : ProxOf fc proxfc) (γ θ0 : ℝ) (hγ : 0 < γ) (hsc : StrongConvexOn Set.univ γ fc)
    (Lop : ℝ) (hA : ∀ x, ‖A x‖ ≤ Lop * ‖x‖)
    (s0 : PDState ℝ E F ℝ ℝ) (hτ : 0 < s0.tau) (hσ : 0 < s0.sigma) (hstep : s0.tau * s0.sigma * Lop ^ 2 ≤ 1)
    (hmin : s0.sigma_min = s0.sigma) (hext : s0.x_ext = s0.x) (xs : E) (us : F) (hs : IsSaddle g fc A AH xs us) (N : ℕ) :
    (1 - s0.tau * s0.sigma * Lop ^ 2) * ‖(pdRun Real.sqrt A AH proxfc proxg 0 γ θ0 s0 N).u - us‖ ^ 2
      ≤ (‖s0.u - us‖ ^ 2 / s0.sigma ^ 2 + ‖s0.x - xs‖ ^ 2 / (s0.tau * s0.sigma))
        / (1 / s0.sigma + N * (γ / (1 + γ * s0.sigma))) ^ 2 := by
  obtain ⟨h1, _, h3, h4⟩ := pdhg_accel_run_dual proxg proxfc A AH γ θ0 hγ s0 hτ hσ hmin N
  have hE := pdhg_accel_energy_run_dual g fc proxg proxfc A AH hadj hg hfc γ θ0 hγ hsc Lop hA s0 hτ hσ hstep hmin xs us hs N
  have hdec := pdhg_accel_sigma_decay proxg proxfc A AH γ θ0 hγ s0 hτ hσ hmin N
  set s := pdRun Real.sqrt A AH proxfc proxg 0 γ θ0 s0 N with hsdef
  have hlow := accel_energy_lower_dual A Lop hA s.tau s.sigma h4 h3 (s.x - xs) (s.x_ext - s.x) (s.u - us)
  rw [h1] at hlow
  have hE0 : accelEnergyD A xs us s0 = (‖s0.u - us‖ ^ 2 / s0.sigma ^ 2 + ‖s0.x - xs‖ ^ 2 / (s0.tau * s0.sigma)) / 2 := by
    unfold accelEnergyD
    rw [hext, sub_self, map_zero, norm_zero, inner_zero_left]
    field_simp
    ring
  set C := ‖s0.u - us‖ ^ 2 / s0.sigma ^ 2 + ‖s0.x - xs‖ ^ 2 / (s0.tau * s0.sigma) with hC
  have hC0 : 0 ≤ C := by positivity
  set S := 1 / s0.sigma + N * (γ / (1 + γ * s0.sigma)) with hS
  have hS0 : 0 < S := by positivity
  have hb : (1 - s0.tau * s0.sigma * Lop ^ 2) * ‖s.u - us‖ ^ 2 ≤ s.sigma ^ 2 * C := by
    have hchain : (1 - s0.tau * s0.sigma * Lop ^ 2) * ‖s.u - us‖ ^ 2 / (2 * s.sigma ^ 2) ≤ C / 2 := by
      have : accelEnergyD A xs us s = (‖s.x - xs‖ ^ 2 / (2 * s.tau) + ‖s.u - us‖ ^ 2 / (2 * s.sigma)) / s.sigma
          + ⟪A (s.x_ext - s.x), s.u - us⟫ / s.sigma + ‖s.x_ext - s.x‖ ^ 2 / (2 * (s.tau * s.sigma)) := rfl
      rw [h1] at this
      linarith
    rw [div_le_iff₀ (by positivity)] at hchain
    linarith
  have hσS : s.sigma ≤ 1 / S := by
    rw [le_div_iff₀ hS0]
    have := (le_div_iff₀ h3).mp hdec
    linarith
  have hσS2 : s.sigma ^ 2 ≤ 1 / S ^ 2 := by
    have := pow_le_pow_left₀ h3.le hσS 2
    rwa [div_pow, one_pow] at this
  calc (1 - s0.tau * s0.sigma * Lop ^ 2) * ‖s.u - us‖ ^ 2 ≤ s.sigma ^ 2 * C := hb
    _ ≤ 1 / S ^ 2 * C := mul_le_mul_of_nonneg_right hσS2 hC0
    _ = C / S ^ 2 := by ring
end accelDual

/-! ## non-vacuity -/
section examples

/-- the hypotheses of `pdhg_accel_rate` are satisfiable: on `ℝ`, `g(x) = x²/2` (1-strongly convex, prox `v/(1+α)`),
    `f* = 0`, `A = id`, `τ = σ = 1` (`τσ‖A‖² = 1`), saddle point `(0, 0)` -/
example : ∃ (g fc : ℝ → ℝ) (proxg proxfc : ℝ → ℝ → ℝ) (A : ℝ →ₗ[ℝ] ℝ) (AH : ℝ → ℝ) (γ Lop : ℝ),
    (∀ x u, ⟪A x, u⟫ = ⟪x, AH u⟫) ∧ ProxOf g proxg ∧ ProxOf fc proxfc ∧ 0 < γ ∧ StrongConvexOn Set.univ γ g ∧
    (∀ x, ‖A x‖ ≤ Lop * ‖x‖) ∧ (1 : ℝ) * 1 * Lop ^ 2 ≤ 1 ∧ IsSaddle g fc A AH 0 0 := by
  refine ⟨fun x => x ^ 2 / 2, fun _ => 0, fun α v => v / (1 + α), fun _ v => v, LinearMap.id, id, 1, 1,
    fun x u => rfl, ?_, ?_, one_pos, ?_, fun x => by simp, by norm_num, ?_⟩
  · intro α v hα w
    simp only [RCLike.inner_apply, conj_trivial, smul_eq_mul]
    have h1 : 0 < 1 + α := by linarith
    have e : 1 / α * (v - v / (1 + α)) = v / (1 + α) := by field_simp; ring
    rw [mul_comm (w - v / (1 + α)), e]
    nlinarith [sq_nonneg (w - v / (1 + α))]
  · intro α v _ w; simp
  · refine ⟨convex_univ, ?_⟩
    intro x _ y _ a b ha hb hab
    simp only [smul_eq_mul, Real.norm_eq_abs, sq_abs]
    have hb' : b = 1 - a := by linarith
    subst hb'
    nlinarith [sq_nonneg (x - y)]
  · constructor <;> intro w <;> simp
    positivity

/-- the hypotheses of `pdhg_accel_rate_dual` are satisfiable with a STRICT step condition: on `ℝ`, `g = 0`,
    `f*(u) = u²/2` (1-strongly convex, prox `v/(1+α)`), `A = id`, `τ = σ = 1/2` (`τσ‖A‖² = 1/4 < 1`) -/
example : ∃ (g fc : ℝ → ℝ) (proxg proxfc : ℝ → ℝ → ℝ) (A : ℝ →ₗ[ℝ] ℝ) (AH : ℝ → ℝ) (γ Lop : ℝ),
    (∀ x u, ⟪A x, u⟫ = ⟪x, AH u⟫) ∧ ProxOf g proxg ∧ ProxOf fc proxfc ∧ 0 < γ ∧ StrongConvexOn Set.univ γ fc ∧
    (∀ x, ‖A x‖ ≤ Lop * ‖x‖) ∧ (1 / 2 : ℝ) * (1 / 2) * Lop ^ 2 < 1 ∧ IsSaddle g fc A AH 0 0 := by
  refine ⟨fun _ => 0, fun x => x ^ 2 / 2, fun _ v => v, fun α v => v / (1 + α), LinearMap.id, id, 1, 1,
    fun x u => rfl, ?_, ?_, one_pos, ?_, fun x => by simp, by norm_num, ?_⟩
  · intro α v _ w; simp
  · intro α v hα w
    simp only [RCLike.inner_apply, conj_trivial, smul_eq_mul]
    have h1 : 0 < 1 + α := by linarith
    have e : 1 / α * (v - v / (1 + α)) = v / (1 + α) := by field_simp; ring
    rw [mul_comm (w - v / (1 + α)), e]
    nlinarith [sq_nonneg (w - v / (1 + α))]
  · refine ⟨convex_univ, ?_⟩
    intro x _ y _ a b ha hb hab
    simp only [smul_eq_mul, Real.norm_eq_abs, sq_abs]
    have hb' : b = 1 - a := by linarith
    subst hb'
    nlinarith [sq_nonneg (x - y)]
  · constructor <;> intro w <;> simp
    positivity

/-- a concrete accelerated step really rescales: `γ = 3/2`, `τ = 1` gives `θ = 1/2`, `τ⁺ = 1/2`, `σ⁺ = 2σ` -/
example (θ0 σ sm : ℝ) : (pdRescale Real.sqrt (3 / 2) 0 θ0 1 σ 1 sm : Rescale ℝ ℝ ℝ).tau = 1 / 2 := by
  obtain ⟨a1, _, _, a4, _⟩ := pdhg_accel_steps_primal (3 / 2) θ0 1 σ sm (by norm_num) one_pos
  rw [a4, a1]
  have : Real.sqrt (1 + 2 * (3 / 2) * 1) = 2 := by
    rw [show (1 : ℝ) + 2 * (3 / 2) * 1 = 2 ^ 2 by norm_num]; exact Real.sqrt_sq (by norm_num)
  rw [this]; norm_num
end examples

end SigpyVerif.C13
