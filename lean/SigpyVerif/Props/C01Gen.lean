import SigpyVerif.Props.C01LeavesGen
import SigpyVerif.Gen.LinopAdjoint
/-
  C01 — the model's adjoint rules ARE the ones written in sigpy/linop.py.

  `Gen/LinopAdjoint.lean` is regenerated on every run from the bodies of every `_adjoint_linop`
  (harness/translate/gen_c01.py).  This file proves, for every leaf class and every tree node, that the
  hand-written `adjLeaf` / `adj` of Model/C01.lean — the definitions all C01 / C04 theorems are about —
  coincide with the generated `adjLeafGen` / `adjGen`, so that `adj_denote_leaves` is a theorem about the
  translation of the source (`adj_denote_gen`).  An edit of an `_adjoint_linop` (swapped arguments, a
  dropped negation or `not`, a different class, a different sum-axes helper or argument order, a changed
  `if` in the helpers) changes the generated definition and one of these proofs stops compiling.
  Also: the tree `FiniteDifference` builds, generated from the factory, consists of proved leaves only.
-/
set_option linter.unusedSectionVars false
set_option linter.unusedVariables false
set_option linter.unusedSimpArgs false
namespace SigpyVerif.C01
open SigpyVerif

section
variable {α : Type} [CommRing α] [StarRing α] (ofRat : Rat → α)

/-- the `oshape` attribute of an operator object: the output shape of what it denotes -/
def oshOf (l : Leaf α) : List Int := ((leafSem0 star ofRat l).map Sem.osh).getD []

/-- the generated `if` test of `_get_multiply_adjoint_sum_axes`, on the output extents that occur
    (`o = max(i, m)`, the broadcast of input and multiplier), is `i == 1 and (m != 1 or o != 1)` — proved by
    cases on the comparisons, so every spelling of the test that is equivalent on broadcast shapes is
    accepted (e.g. `i == 1 and m != 1`, reordered conjuncts, De Morgan forms) -/
theorem multiplySumTest_spec (i m d : Int) :
    Gen.LinopAdjoint.multiplySumTest i m (max i m) d = decide (i = 1 ∧ (m ≠ 1 ∨ max i m ≠ 1)) := by
  unfold Gen.LinopAdjoint.multiplySumTest
  by_cases h1 : i = 1 <;> by_cases h2 : m = 1 <;> simp [h1, h2]

theorem matmulSumTest_spec (i m d : Int) :
    Gen.LinopAdjoint.matmulSumTest i m (max i m) d = decide (i = 1 ∧ (m ≠ 1 ∨ max i m ≠ 1)) := by
  unfold Gen.LinopAdjoint.matmulSumTest
  by_cases h1 : i = 1 <;> by_cases h2 : m = 1 <;> simp [h1, h2]

/-- `_get_multiply_adjoint_sum_axes` as generated (test, zip ranges) = as modelled, on broadcast output shapes -/
theorem multiplySumAxes_gen (osh ish msh : List Int)
    (hmax : ∀ d, d < (C09.expandShapes ish msh).1.length →
      getI osh d = max (getI (C09.expandShapes ish msh).1 d) (getI (C09.expandShapes ish msh).2 d)) :
    Gen.LinopAdjoint.multiplySumAxes osh ish msh = multiplySumAxes osh ish msh := by
  unfold multiplySumAxes Gen.LinopAdjoint.multiplySumAxes Gen.LinopAdjoint.multiplySumDrop
  simp only [Nat.sub_zero]
  apply List.filterMap_congr
  intro d hd
  rw [hmax d (List.mem_range.mp hd), multiplySumTest_spec]
  simp only [decide_eq_true_eq]

/-- `_get_matmul_adjoint_sum_axes` as generated (test, the two trailing axes skipped) = as modelled -/
theorem matmulSumAxes_gen (osh ish msh : List Int)
    (hmax : ∀ d, d < (C09.expandShapes ish msh).1.length - 2 →
      getI osh d = max (getI (C09.expandShapes ish msh).1 d) (getI (C09.expandShapes ish msh).2 d)) :
    Gen.LinopAdjoint.matmulSumAxes osh ish msh = matmulSumAxes osh ish msh := by
  unfold matmulSumAxes Gen.LinopAdjoint.matmulSumAxes Gen.LinopAdjoint.matmulSumDrop
  apply List.filterMap_congr
  intro d hd
  rw [hmax d (List.mem_range.mp hd), matmulSumTest_spec]
  simp only [decide_eq_true_eq]
  rfl

theorem oshOf_sum (ish axes : List Int) (h : normAxes axes ish.length = axes) :
    oshOf ofRat (.sum ish axes : Leaf α) = removeAxes axes ish := by
  simp only [oshOf, leafSem0, sumSem, Option.map_some, Option.getD_some, h]

/-- **Multiply**: the generated plumbing is the modelled one -/
theorem adjLeaf_multiply_gen (ish msh : List Int) (mult : List α) (cj : Bool) (hv : MulValid ish msh)
    (hs : (leafSem0 star ofRat (.multiply ish msh mult cj : Leaf α)).isSome) :
    adjLeaf star (.multiply ish msh mult cj : Leaf α)
      = Gen.LinopAdjoint.adjLeafGen (oshOf ofRat) (.multiply ish msh mult cj) := by
  obtain ⟨s0, hm⟩ := Option.isSome_iff_exists.mp hs
  simp only [leafSem0] at hm
  obtain ⟨osh, hb, hlen, rfl⟩ := (multiplySem_iff ish msh mult cj s0).mp hm
  have hlie : (C09.expandShapes ish msh).1.length = (C09.expandShapes ish msh).2.length := by
    rw [(expand_len ish msh).1, (expand_len ish msh).2]
  obtain ⟨hol, hax⟩ := bshape_spec hb hlie
  have hgen := multiplySumAxes_gen osh ish msh (fun d hd => (hax d hd).2)
  have hosh : ((C09.expandShapes ish msh).1.zip (C09.expandShapes ish msh).2).map (fun (i, m) => max i m) = osh :=
    (bshape_eq_zip hb).symm
  have hmlen : msh.length ≤ osh.length := by rw [hol, (expand_len ish msh).1]; omega
  have e1 : (C09.expandShapes osh msh).1 = osh := expand_fst_of_len osh msh hmlen
  have e2 : (C09.expandShapes osh msh).2 = (C09.expandShapes ish msh).2 :=
    expand_snd_of_len ish osh msh (by rw [hol, (expand_len ish msh).1])
  have hM : multiplySem star osh msh mult (!cj)
      = some ⟨osh, osh, mulE osh osh (C09.expandShapes ish msh).2 mult (!cj)⟩ := by
    rw [multiplySem_iff]
    exact ⟨osh, by rw [e1, e2]; exact bshape_idem hb hlie, hlen, by rw [e1, e2]⟩
  have hself : oshOf ofRat (.multiply ish msh mult cj : Leaf α) = osh := by
    simp only [oshOf, leafSem0, hm, Option.map_some, Option.getD_some]
  have hMo : oshOf ofRat (.multiply osh msh mult (!cj) : Leaf α) = osh := by
    simp only [oshOf, leafSem0, hM, Option.map_some, Option.getD_some]
  have hnorm := saOf_norm (C09.expandShapes ish msh).1 (C09.expandShapes ish msh).2 osh osh.length hol.symm
  have hS : oshOf ofRat (.sum osh (multiplySumAxes osh ish msh) : Leaf α)
      = removeAxes (multiplySumAxes osh ish msh) osh :=
    oshOf_sum ofRat osh (multiplySumAxes osh ish msh) (by rw [multiplySumAxes_eq]; exact hnorm)
  simp only [adjLeaf, Gen.LinopAdjoint.adjLeafGen, hosh, hself, hMo, hgen, hS]

/-- **MatMul** -/
theorem adjLeaf_matmul_gen (ish msh : List Int) (mat : List α) (adjoint : Bool) (hv : MulValid ish msh)
    (hs : (leafSem0 star ofRat (.matmul ish msh mat adjoint : Leaf α)).isSome) :
    adjLeaf star (.matmul ish msh mat adjoint : Leaf α)
      = Gen.LinopAdjoint.adjLeafGen (oshOf ofRat) (.matmul ish msh mat adjoint) := by
  obtain ⟨s0, hm⟩ := Option.isSome_iff_exists.mp hs
  simp only [leafSem0] at hm
  obtain ⟨m, hM, _, hnorm, _, _, _, _, _, _, hmax⟩ := matmul_core false adjoint ish msh mat hv s0 hm
  have hgen := matmulSumAxes_gen s0.osh ish msh hmax
  have hself : oshOf ofRat (.matmul ish msh mat adjoint : Leaf α) = s0.osh := by
    simp only [oshOf, leafSem0, hm, Option.map_some, Option.getD_some]
  have hMo : oshOf ofRat (.matmul s0.osh msh mat (!adjoint) : Leaf α) = m.osh := by
    simp only [oshOf, leafSem0, hM, Option.map_some, Option.getD_some]
  have hS := oshOf_sum ofRat m.osh (matmulSumAxes s0.osh ish msh) hnorm
  simp only [adjLeaf, Gen.LinopAdjoint.adjLeafGen, hm, hM, hself, hMo, hgen, hS]

/-- **RightMatMul** -/
theorem adjLeaf_rmatmul_gen (ish msh : List Int) (mat : List α) (adjoint : Bool) (hv : MulValid ish msh)
    (hs : (leafSem0 star ofRat (.rmatmul ish msh mat adjoint : Leaf α)).isSome) :
    adjLeaf star (.rmatmul ish msh mat adjoint : Leaf α)
      = Gen.LinopAdjoint.adjLeafGen (oshOf ofRat) (.rmatmul ish msh mat adjoint) := by
  obtain ⟨s0, hm⟩ := Option.isSome_iff_exists.mp hs
  simp only [leafSem0] at hm
  obtain ⟨m, hM, _, hnorm, _, _, _, _, _, _, hmax⟩ := matmul_core true adjoint ish msh mat hv s0 hm
  have hgen := matmulSumAxes_gen s0.osh ish msh hmax
  have hself : oshOf ofRat (.rmatmul ish msh mat adjoint : Leaf α) = s0.osh := by
    simp only [oshOf, leafSem0, hm, Option.map_some, Option.getD_some]
  have hMo : oshOf ofRat (.rmatmul s0.osh msh mat (!adjoint) : Leaf α) = m.osh := by
    simp only [oshOf, leafSem0, hM, Option.map_some, Option.getD_some]
  have hS := oshOf_sum ofRat m.osh (matmulSumAxes s0.osh ish msh) hnorm
  simp only [adjLeaf, Gen.LinopAdjoint.adjLeafGen, hm, hM, hself, hMo, hgen, hS]

/-- **Every leaf class**: for valid parameters, the operator the model's `adjLeaf` builds is the one
    the translation of the class's `_adjoint_linop` builds (same class, same arguments). -/
theorem adjLeaf_eq_gen (l : Leaf α) (hl : LeafProved l) (hs : (leafSem0 star ofRat l).isSome) :
    adjLeaf star l = Gen.LinopAdjoint.adjLeafGen (oshOf ofRat) l := by
  cases l with
  | transpose ish axes => cases axes <;> rfl
  | multiply ish msh mult cj => exact adjLeaf_multiply_gen ofRat _ _ _ _ hl hs
  | matmul ish msh mat a => exact adjLeaf_matmul_gen ofRat _ _ _ _ hl hs
  | rmatmul ish msh mat a => exact adjLeaf_rmatmul_gen ofRat _ _ _ _ hl hs
  | _ => rfl

/-- the parameter-free classes do not even need validity -/
theorem adjLeaf_eq_gen_simple (osh : Leaf α → List Int) (l : Leaf α)
    (h : match l with | .multiply .. => False | .matmul .. => False | .rmatmul .. => False | _ => True) :
    adjLeaf star l = Gen.LinopAdjoint.adjLeafGen osh l := by
  cases l with
  | transpose ish axes => cases axes <;> rfl
  | multiply ish msh mult cj => exact absurd h id
  | matmul ish msh mat a => exact absurd h id
  | rmatmul ish msh mat a => exact absurd h id
  | _ => rfl

/-- **Every tree node**: Conj / Add / Compose (reversed) / Hstack↔Vstack (same axis) / Diag (axes swapped)
    as generated = as modelled -/
theorem adj_eq_gen (osh : Leaf α → List Int) (e : Expr α)
    (h : allLeaves (fun l => adjLeaf star l = Gen.LinopAdjoint.adjLeafGen osh l) e) :
    adj star e = Gen.LinopAdjoint.adjGen osh e := by
  induction e with
  | leaf l => exact h
  | comp a b iha ihb => simp only [adj, Gen.LinopAdjoint.adjGen, iha h.1, ihb h.2]
  | add a b iha ihb => simp only [adj, Gen.LinopAdjoint.adjGen, iha h.1, ihb h.2]
  | conj a iha => simp only [adj, Gen.LinopAdjoint.adjGen, iha h]
  | hstack ax a b iha ihb => simp only [adj, Gen.LinopAdjoint.adjGen, iha h.1, ihb h.2]
  | vstack ax a b iha ihb => simp only [adj, Gen.LinopAdjoint.adjGen, iha h.1, ihb h.2]
  | diag oax iax a b iha ihb => simp only [adj, Gen.LinopAdjoint.adjGen, iha h.1, ihb h.2]

theorem allLeaves_imp {P Q : Leaf α → Prop} (hPQ : ∀ l, P l → Q l) (e : Expr α) (h : allLeaves P e) :
    allLeaves Q e := by
  induction e with
  | leaf l => exact hPQ l h
  | comp a b iha ihb => exact ⟨iha h.1, ihb h.2⟩
  | add a b iha ihb => exact ⟨iha h.1, ihb h.2⟩
  | conj a iha => exact iha h
  | hstack ax a b iha ihb => exact ⟨iha h.1, ihb h.2⟩
  | vstack ax a b iha ihb => exact ⟨iha h.1, ihb h.2⟩
  | diag oax iax a b iha ihb => exact ⟨iha h.1, ihb h.2⟩

/-- leaves with valid parameters that denote an operator -/
def LeafOK (l : Leaf α) : Prop := LeafProved l ∧ (leafSem0 star ofRat l).isSome

/-- **`adj_denote_leaves` about the translated source.**  For every tree over the proved leaf classes
    (now including MatMul / RightMatMul and imported `ext` leaves), the tree obtained by running the
    *generated* `_adjoint_linop` rules (`Gen.LinopAdjoint.adjGen`, regenerated from sigpy/linop.py on every
    run) denotes an operator with swapped shapes and `⟨A x, y⟩ = ⟨x, A.H y⟩` for all `x`, `y`. -/
theorem adj_denote_gen (hreal : ∀ r, star (ofRat r) = ofRat r) (e : Expr α)
    (he : allLeaves (LeafOK ofRat) e) (s : Sem α) (hs : denote star ofRat e = some s) :
    ∃ s', denote star ofRat (Gen.LinopAdjoint.adjGen (oshOf ofRat) e) = some s' ∧ s'.osh = s.ish ∧
      s'.ish = s.osh ∧ IsAdj s.osz s.isz s.E s'.E := by
  rw [← adj_eq_gen (oshOf ofRat) e (allLeaves_imp (fun l hl => adjLeaf_eq_gen ofRat l hl.1 hl.2) e he)]
  exact adj_denote_leaves ofRat hreal e (allLeaves_imp (fun l hl => hl.1) e he) s hs

/-! ### `_apply` bodies -/

theorem transposeSem_norm (ish : List Int) (axes : Option (List Int)) :
    (transposeSem ish (axes.map fun a => normAxes a ish.length) : Option (Sem α)) = transposeSem ish axes := by
  cases axes with
  | none => rfl
  | some a => simp only [Option.map_some, transposeSem, normAxes_idem]

theorem sumSem_norm (ish axes : List Int) : (sumSem ish (normAxes axes ish.length) : Sem α) = sumSem ish axes := by
  simp only [sumSem, normAxes_idem]

/-- **The entry model of seventeen classes is the translation of their `_apply`.**  For Identity, Reshape,
    Transpose, Resize, Flip, Circshift, Downsample, Upsample, Sum, Slice, Embed, ArrayToBlocks, BlocksToArray,
    Interpolate, Gridding, MatMul, RightMatMul (operand order, `conj(mat).swapaxes(-1,-2)` under `adjoint`): what the
    leaf denotes in the model (`leafSem0`, the object of every C01 / C02 / C04 theorem) is the primitive the
    generated table `applyGen` reads off the class's `_apply` body — same numpy / util / block / interp
    function, same attributes in the same argument positions — applied to an array of shape `self.ishape`.
    (The semantics of the primitives themselves stay the model's numpy contracts, tied by the correspondence.) -/
theorem leafSem0_eq_prim (l : Leaf α) (ish : List Int) (p : Prim α) (h1 : ishOf l = some ish)
    (h2 : Gen.LinopAdjoint.applyGen l = some p) : leafSem0 star ofRat l = primSem star ofRat ish p := by
  cases l <;> simp only [ishOf, Gen.LinopAdjoint.applyGen, Option.some.injEq, reduceCtorEq] at h1 h2 <;>
    (try subst h1) <;> subst h2 <;>
    first
      | rfl
      | simp only [leafSem0, primSem, transposeSem_norm, sumSem_norm]

/-- the table covers every exactly-representable class except Tile and Multiply (reshape + tile with derived
    attributes; scalar / array branches) -/
theorem applyGen_covers (l : Leaf α) :
    (Gen.LinopAdjoint.applyGen l).isSome =
      (match l with
       | .tile .. => false | .multiply .. => false | .ext .. => false
       | _ => true) := by
  cases l <;> rfl

/-! ### FiniteDifference -/

theorem allLeaves_vstackList (P : Leaf α → Prop) (ax : Option Int) (es : List (Expr α)) (e : Expr α)
    (h : vstackList ax es = some e) (hes : ∀ x ∈ es, allLeaves P x) : allLeaves P e := by
  cases es with
  | nil => simp [vstackList] at h
  | cons e0 es =>
    simp only [vstackList, Option.some.injEq] at h
    subst h
    have h0 := hes e0 (List.mem_cons_self ..)
    have hr : ∀ x ∈ es, allLeaves P x := fun x hx => hes x (List.mem_cons_of_mem _ hx)
    clear hes
    induction es generalizing e0 with
    | nil => exact h0
    | cons x xs ih =>
      simp only [List.foldl_cons]
      exact ih (.vstack ax e0 x) ⟨h0, hr x (List.mem_cons_self ..)⟩
        (fun y hy => hr y (List.mem_cons_of_mem _ hy))

/-- **`FiniteDifference(ishape, axes)`** — the tree generated from the factory's source (per axis:
    `Reshape([1]+ishape) * (Identity - Circshift(ishape, [1], axes=[i]))`, stacked with `Vstack(axis=0)`) —
    has only leaves whose adjoint pairing is proved, for every shape with positive extents and every axes
    list: `adj_denote_leaves` / `normal_gram_leaves` apply to it with no hypothesis. -/
theorem finiteDifference_leaves (ishape axes : List Int) (hsh : ∀ n ∈ ishape, 0 < n) (e : Expr α)
    (h : Gen.LinopAdjoint.finiteDifference (-1 : α) ishape axes = some e) : allLeaves LeafProved e := by
  unfold Gen.LinopAdjoint.finiteDifference at h
  refine allLeaves_vstackList LeafProved _ _ e h ?_
  intro x hx
  obtain ⟨i, _, rfl⟩ := List.mem_map.mp hx
  simp only [allLeaves, LeafProved, MulValid, true_and, and_true]
  refine ⟨⟨hsh, by simp⟩, fun n hn => le_of_lt (hsh n hn)⟩

/-- hence `FiniteDifference.H` is the true adjoint -/
theorem finiteDifference_adjoint (hreal : ∀ r, star (ofRat r) = ofRat r) (ishape axes : List Int)
    (hsh : ∀ n ∈ ishape, 0 < n) (e : Expr α)
    (h : Gen.LinopAdjoint.finiteDifference (-1 : α) ishape axes = some e) : AdjOK ofRat e :=
  adj_denote_leaves ofRat hreal e (finiteDifference_leaves ishape axes hsh e h)

/-- non-vacuity: the generated tree for a 2-D shape, both axes, denotes a `[2,2,3] × [2,3]` operator whose
    generated adjoint denotes too -/
example : ((Gen.LinopAdjoint.finiteDifference (-1 : ℤ) [2, 3] [0, 1]).bind fun e =>
    (denote star (fun r => r.num) e).map fun s => (s.osh, s.ish, s.E.length)) = some ([2, 2, 3], [2, 3], 24) := by
  decide +kernel
example : ((Gen.LinopAdjoint.finiteDifference (-1 : ℤ) [2, 3] [0, 1]).bind fun e =>
    (denote star (fun r => r.num) (Gen.LinopAdjoint.adjGen (oshOf (fun r => r.num)) e)).map
      fun s => (s.osh, s.ish)) = some ([2, 3], [2, 2, 3]) := by
  decide +kernel

end
end SigpyVerif.C01
