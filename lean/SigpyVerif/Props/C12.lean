import SigpyVerif.Model.C12
import Mathlib.Analysis.InnerProductSpace.Basic
import Mathlib.Tactic.Ring
import Mathlib.Tactic.Linarith
import Mathlib.Tactic.FieldSimp
import Mathlib.Analysis.InnerProductSpace.Symmetric
import Mathlib.LinearAlgebra.FiniteDimensional.Lemmas
/-
  C12 — conjugate gradient produces the Krylov-optimal iterate at every step.
  All theorems are about `C12.init / update_ / update / done / run` of `Model/C12.lean`, which ARE
  `Gen.C12.init / update_ / update / done`: the statement-by-statement translation of
  `sigpy.alg.ConjugateGradient.__init__/_update/_done` (+ `Alg.__init__`, `Alg.update`) that
  harness/translate/gen_c12.py regenerates from the source on every check.  The driver executes the same
  definitions over exact Gaussian rationals and the correspondence check compares them with the real
  class after every update.
-/
namespace SigpyVerif.C12

section generic
variable {V S : Type} (o : Ops V S) (A : V → V) (P : Option (V → V)) (b x : V) (M : Int)

/-- the model's machine is, by definition, the generated one -/
theorem model_is_generated (tol : S) (s : State V S) :
    init o A P b x M = Gen.C12.init o A P b x M ∧ update_ o A P M s = Gen.C12.update_ o A P M s ∧
      update o A P M s = Gen.C12.update o A P M s ∧ done o M tol s = Gen.C12.done o M tol s :=
  ⟨rfl, rfl, rfl, rfl⟩

/-- `Alg.update` is `_update` followed by `iter += 1` -/
theorem update_eq (s : State V S) :
    update o A P M s = { update_ o A P M s with iter := (update_ o A P M s).iter + 1 } := rfl

/-- `_update` never touches the counter, whatever branch it takes -/
theorem update_keeps_iter (s : State V S) : (update_ o A P M s).iter = s.iter := by
  cases P <;> simp only [update_, Gen.C12.update_] <;> split_ifs <;> rfl

/-- `update()` advances the counter by exactly one, whatever branch `_update` takes
    (breakdown `return`, skipped residual update, full update). -/
theorem update_iter (s : State V S) : (update o A P M s).iter = s.iter + 1 := by
  rw [update_eq]; simp only [update_keeps_iter]

/-- after `k` calls of `update()` the counter is `k`. -/
theorem iter_counts_updates (k : Nat) : (run o A P b x M k).iter = k := by
  induction k with
  | zero => cases P <;> simp only [run, init, Gen.C12.init] <;> split_ifs <;> rfl
  | succ k ih => simp only [run, update_iter, ih]; push_cast; ring

theorem update_alias (s : State V S) : (update o A P M s).alias = s.alias := by
  rw [update_eq]
  cases P <;> simp only [update_, Gen.C12.update_] <;> split_ifs <;> rfl

theorem run_alias (k : Nat) : (run o A P b x M k).alias = !decide (M > 1) := by
  induction k with
  | zero => cases P <;> simp only [run, init, Gen.C12.init] <;> split_ifs with h <;> simp [h]
  | succ k ih => simp only [run, update_alias, ih]

set_option linter.unusedTactic false in
set_option linter.unreachableTactic false in
/-- `self.p` is (or may be) the array `self.r` — `__init__` made no private copy — only when
    `max_iter <= 1`, and then the condition under which `_update` updates `self.r` or `self.p` IN PLACE
    (`Gen.C12.updInplaceGuard`, collected by the translator from every in-place statement on these two
    arrays) is false: the sharing is unobservable, which is why the machine may treat arrays as values. -/
theorem alias_branch_unreachable (k : Nat) (h : (run o A P b x M k).alias = true) :
    Gen.C12.updInplaceGuard M (run o A P b x M k).iter = false := by
  rw [run_alias] at h
  rw [iter_counts_updates]
  simp at h
  -- whatever and / or combination of integer path conditions the translator collected
  first
    | (simp only [Gen.C12.updInplaceGuard, decide_eq_false_iff_not]; omega)
    | (simp [Gen.C12.updInplaceGuard] <;> omega)

/-- `self.x` is the array the caller passed and no statement of `__init__` / `_update` rebinds it: the
    caller's array holds the iterate (the code updates it in place). -/
theorem x_is_callers_array : Gen.C12.initXIsCaller = true ∧ Gen.C12.updXIsCaller = true := ⟨rfl, rfl⟩

theorem update_resid2 (s : State V S) (h : s.resid2 = s.rzold) :
    (update o A P M s).resid2 = (update o A P M s).rzold := by
  rw [update_eq]
  cases P <;> simp only [update_, Gen.C12.update_] <;> split_ifs <;> simp [h]

/-- `resid` is always `rzold ** 0.5` (so `resid <= tol` tests the preconditioned residual norm). -/
theorem resid2_eq_rzold (k : Nat) :
    (run o A P b x M k).resid2 = (run o A P b x M k).rzold := by
  induction k with
  | zero => cases P <;> simp only [run, init, Gen.C12.init] <;> split_ifs <;> rfl
  | succ k ih => exact update_resid2 o A P M _ ih

/-- Non-positive curvature: if `p^H A p <= 0` the update leaves `x`, `r`, `p`, `rzold` untouched,
    sets the flag, still counts as an update, and `done()` is true from then on (for every `tol`). -/
theorem cg_breakdown (s : State V S) (tol : S) (h : o.nonpos (o.rdot s.p (A s.p)) = true) :
    let s' := update o A P M s
    s'.x = s.x ∧ s'.r = s.r ∧ s'.p = s.p ∧ s'.rzold = s.rzold ∧ s'.npd = true ∧
      s'.iter = s.iter + 1 ∧ done o M tol s' = true := by
  simp [update, Gen.C12.update, Gen.C12.update_, h, done, Gen.C12.done]

/-- the flag, once set, stays set -/
theorem npd_sticky (s : State V S) (h : s.npd = true) : (update o A P M s).npd = true := by
  rw [update_eq]
  cases P <;> simp only [update_, Gen.C12.update_] <;> split_ifs <;> simp [h]

/-- `x` after an update never depends on whether the residual update is skipped: -/
theorem update_x (M' : Int) (s t : State V S) (hx : s.x = t.x) (hp : s.p = t.p) (hz : s.rzold = t.rzold) :
    (update o A P M s).x = (update o A P M' t).x := by
  rw [update_eq, update_eq]
  cases P <;> simp only [update_, Gen.C12.update_] <;> rw [hp, hx, hz] <;> split_ifs <;> rfl

/-- states that agree on everything the code reads (all fields but the `alias` marker) -/
def Sim (s t : State V S) : Prop :=
  s.x = t.x ∧ s.r = t.r ∧ s.p = t.p ∧ s.rzold = t.rzold ∧ s.resid2 = t.resid2 ∧ s.npd = t.npd ∧ s.iter = t.iter

theorem sim_update (M' : Int) (s t : State V S) (h : Sim s t) (hM : M ≤ M') (hi : s.iter < M - 1) :
    Sim (update o A P M s) (update o A P M' t) := by
  obtain ⟨h1, h2, h3, h4, h5, h6, h7⟩ := h
  have hi' : s.iter < M' - 1 := by omega
  rw [update_eq, update_eq]
  cases P <;> simp only [Sim, update_, Gen.C12.update_] <;> rw [← h1, ← h2, ← h3, ← h4, ← h5, ← h6, ← h7] <;>
    simp only [hi, hi', if_true] <;> split_ifs <;> simp

theorem sim_run (M' : Int) (hM : M ≤ M') (k : Nat) (hk : (k : Int) ≤ M - 1) :
    Sim (run o A P b x M k) (run o A P b x M' k) := by
  induction k with
  | zero =>
    cases P <;> simp only [Sim, run, init, Gen.C12.init] <;> split_ifs <;> simp
  | succ k ih =>
    have := ih (by push_cast at hk; omega)
    simp only [run]
    apply sim_update _ _ _ _ _ _ _ this hM
    rw [iter_counts_updates]; push_cast at hk; omega

/-- The iterate after `k ≤ max_iter` updates does not depend on `max_iter`: the skipped residual
    update of the last permitted iteration affects `r`, `p`, `rzold` only.  (All the theorems below
    about `x_k` for `k ≤ max_iter - 1` therefore also hold for the final `x_{max_iter}`,
    see `cg_optimal_last`.) -/
theorem cg_x_maxiter_irrelevant (M' : Int) (hM : M ≤ M') (k : Nat) (hk : (k : Int) ≤ M) :
    (run o A P b x M k).x = (run o A P b x M' k).x := by
  cases k with
  | zero => cases P <;> simp only [run, init, Gen.C12.init] <;> split_ifs <;> rfl
  | succ k =>
    have h := sim_run o A P b x M M' hM k (by push_cast at hk; omega)
    simp only [run]
    exact update_x o A P M M' _ _ h.1 h.2.2.1 h.2.2.2.1

end generic


/-! ### the same machine in an inner-product space over `𝕜 = ℝ` or `ℂ` -/
section hilbert
open RCLike
variable {𝕜 E : Type} [RCLike 𝕜] [NormedAddCommGroup E] [InnerProductSpace 𝕜 E]

local notation "⟪" x ", " y "⟫" => inner 𝕜 x y

/-- the operations `ConjugateGradient` uses, in an inner-product space: `vdot(a,b) = ⟪a,b⟫`
    (conjugate-linear in the first argument, like numpy), real scalars. -/
noncomputable def ipOps (𝕜 : Type) {E : Type} [RCLike 𝕜] [NormedAddCommGroup E] [InnerProductSpace 𝕜 E] :
    Ops E ℝ where
  sub := fun a b => a - b
  axpy := fun y a x => y + (a : 𝕜) • x
  xpay := fun y a x => (a : 𝕜) • y + x
  rdot := fun a b => re (inner 𝕜 a b)
  div := fun a b => a / b
  neg := fun a => -a
  nonpos := fun s => decide (s ≤ 0)
  sqrtLe := fun r2 tol => decide (Real.sqrt r2 ≤ tol)

/-- Hermitian positive definite -/
structure HPD (T : E →ₗ[𝕜] E) : Prop where
  symm : ∀ u v, ⟪T u, v⟫ = ⟪u, T v⟫
  pos : ∀ v, v ≠ 0 → 0 < re ⟪v, T v⟫

/-- `xp.real(xp.vdot(v, T v))` loses nothing: for Hermitian `T` the form `⟪v, T v⟫` is real. -/
theorem cg_real_inner (T : E →ₗ[𝕜] E) (h : ∀ u v, ⟪T u, v⟫ = ⟪u, T v⟫) (v : E) :
    ((re ⟪v, T v⟫ : ℝ) : 𝕜) = ⟪v, T v⟫ := by
  apply RCLike.conj_eq_iff_re.mp
  rw [inner_conj_symm, h]

theorem HPD.eq_zero {T : E →ₗ[𝕜] E} (h : HPD T) (v : E) (hv : re ⟪v, T v⟫ ≤ 0) : v = 0 := by
  by_contra hne
  exact absurd (h.pos v hne) (not_lt.mpr hv)

theorem HPD.nonneg {T : E →ₗ[𝕜] E} (h : HPD T) (v : E) : 0 ≤ re ⟪v, T v⟫ := by
  by_cases hv : v = 0
  · simp [hv]
  · exact (h.pos v hv).le

variable (A P : E →ₗ[𝕜] E) (b x0 : E) (M : ℤ)

/-- state after `k` updates of `ConjugateGradient(A, b, x0, P=P, max_iter=M)` -/
noncomputable def st (k : ℕ) : State E ℝ := run (ipOps 𝕜) (⇑A) (some ⇑P) b x0 M k

/-- the curvature `pAp` the `k+1`-st update computes -/
noncomputable def pAp (k : ℕ) : ℝ := re ⟪(st A P b x0 M k).p, A (st A P b x0 M k).p⟫

theorem st_zero : st A P b x0 M 0 =
    { x := x0, r := b - A x0, p := P (b - A x0), rzold := re ⟪b - A x0, P (b - A x0)⟫,
      resid2 := re ⟪b - A x0, P (b - A x0)⟫, npd := false, iter := 0, «alias» := !decide (M > 1) } := by
  simp only [st, run, init, Gen.C12.init, ipOps]
  split_ifs with h <;> simp [h]

/-- a full (non-breakdown, non-final) update from any state, in formulas -/
theorem update_full (s : State E ℝ) (hk : s.iter < M - 1) (hpos : 0 < re ⟪s.p, A s.p⟫) :
    (update (ipOps 𝕜) (⇑A) (some ⇑P) M s).x = s.x + ((s.rzold / re ⟪s.p, A s.p⟫ : ℝ) : 𝕜) • s.p ∧
    (update (ipOps 𝕜) (⇑A) (some ⇑P) M s).r = s.r + ((-(s.rzold / re ⟪s.p, A s.p⟫) : ℝ) : 𝕜) • A s.p ∧
    (update (ipOps 𝕜) (⇑A) (some ⇑P) M s).rzold =
      re ⟪(update (ipOps 𝕜) (⇑A) (some ⇑P) M s).r, P (update (ipOps 𝕜) (⇑A) (some ⇑P) M s).r⟫ ∧
    (update (ipOps 𝕜) (⇑A) (some ⇑P) M s).p =
      (((update (ipOps 𝕜) (⇑A) (some ⇑P) M s).rzold / s.rzold : ℝ) : 𝕜) • s.p
        + P (update (ipOps 𝕜) (⇑A) (some ⇑P) M s).r := by
  have hnp : ¬ (re ⟪s.p, A s.p⟫ ≤ 0) := not_le.mpr hpos
  simp [update, Gen.C12.update, Gen.C12.update_, ipOps, hk, hnp]

/-- a full (non-breakdown, non-final) update, in formulas -/
theorem st_succ (k : ℕ) (hk : (k : ℤ) < M - 1) (hpos : 0 < pAp A P b x0 M k) :
    (st A P b x0 M (k + 1)).x = (st A P b x0 M k).x
        + (((st A P b x0 M k).rzold / pAp A P b x0 M k : ℝ) : 𝕜) • (st A P b x0 M k).p ∧
    (st A P b x0 M (k + 1)).r = (st A P b x0 M k).r
        + ((-((st A P b x0 M k).rzold / pAp A P b x0 M k) : ℝ) : 𝕜) • A (st A P b x0 M k).p ∧
    (st A P b x0 M (k + 1)).rzold = re ⟪(st A P b x0 M (k + 1)).r, P (st A P b x0 M (k + 1)).r⟫ ∧
    (st A P b x0 M (k + 1)).p =
        (((st A P b x0 M (k + 1)).rzold / (st A P b x0 M k).rzold : ℝ) : 𝕜) • (st A P b x0 M k).p
          + P (st A P b x0 M (k + 1)).r := by
  have hi : (st A P b x0 M k).iter = k := iter_counts_updates _ _ _ _ _ _ _
  exact update_full A P M (st A P b x0 M k) (by rw [hi]; exact hk) hpos

/-- span of the first `k` search directions -/
def Dsp (p : ℕ → E) : ℕ → Submodule 𝕜 E
  | 0 => ⊥
  | k + 1 => Dsp p k ⊔ Submodule.span 𝕜 {p k}

/-- `K_k(T, z) = span{z, T z, …, T^(k-1) z}` -/
def Ksp (T : E →ₗ[𝕜] E) (z : E) : ℕ → Submodule 𝕜 E
  | 0 => ⊥
  | k + 1 => Submodule.span 𝕜 {z} ⊔ (Ksp T z k).map T

theorem Dsp_le_succ (p : ℕ → E) (k : ℕ) : Dsp (𝕜 := 𝕜) p k ≤ Dsp p (k + 1) := le_sup_left

theorem Dsp_mono (p : ℕ → E) {i j : ℕ} (h : i ≤ j) : Dsp (𝕜 := 𝕜) p i ≤ Dsp p j := by
  induction h with
  | refl => exact le_rfl
  | step _ ih => exact ih.trans (Dsp_le_succ p _)

theorem mem_Dsp_self (p : ℕ → E) (k : ℕ) : p k ∈ Dsp (𝕜 := 𝕜) p (k + 1) :=
  Submodule.mem_sup_right (Submodule.subset_span rfl)

theorem mem_Dsp_succ (p : ℕ → E) (k : ℕ) (v : E) :
    v ∈ Dsp (𝕜 := 𝕜) p (k + 1) ↔ ∃ y ∈ Dsp (𝕜 := 𝕜) p k, ∃ a : 𝕜, y + a • p k = v := by
  simp only [Dsp, Submodule.mem_sup, Submodule.mem_span_singleton]
  constructor
  · rintro ⟨y, hy, z, ⟨a, rfl⟩, rfl⟩; exact ⟨y, hy, a, rfl⟩
  · rintro ⟨y, hy, a, rfl⟩; exact ⟨y, hy, _, ⟨a, rfl⟩, rfl⟩

theorem Ksp_le_succ (T : E →ₗ[𝕜] E) (z : E) (k : ℕ) : Ksp T z k ≤ Ksp T z (k + 1) := by
  induction k with
  | zero => exact bot_le
  | succ k ih => exact sup_le_sup_left (Submodule.map_mono ih) _

theorem Ksp_map (T : E →ₗ[𝕜] E) (z : E) (k : ℕ) {v : E} (hv : v ∈ Ksp T z k) : T v ∈ Ksp T z (k + 1) :=
  Submodule.mem_sup_right (Submodule.mem_map_of_mem hv)

theorem Ksp_self (T : E →ₗ[𝕜] E) (z : E) (k : ℕ) : z ∈ Ksp T z (k + 1) :=
  Submodule.mem_sup_left (Submodule.subset_span rfl)


local notation "X[" k "]" => State.x (st A P b x0 M k)
local notation "R[" k "]" => State.r (st A P b x0 M k)
local notation "Pd[" k "]" => State.p (st A P b x0 M k)
local notation "ρ[" k "]" => State.rzold (st A P b x0 M k)
local notation "D[" k "]" => Dsp (𝕜 := 𝕜) (fun j => State.p (st A P b x0 M j)) k
local notation "K[" k "]" => Ksp (P ∘ₗ A) (P (b - A x0)) k

/-- the CG invariants after `k` full updates -/
structure Inv (k : ℕ) : Prop where
  res : R[k] = b - A X[k]
  rz : ρ[k] = re ⟪R[k], P R[k]⟫
  r_orth : ∀ v ∈ D[k], ⟪R[k], v⟫ = 0
  p_conj : ∀ v ∈ D[k], ⟪Pd[k], A v⟫ = 0
  pz : Pd[k] - P R[k] ∈ D[k]
  PA_D : ∀ v ∈ D[k], P (A v) ∈ D[k + 1]
  x_mem : X[k] - x0 ∈ D[k]
  p0 : ρ[k] = 0 → Pd[k] = 0
  kryD : D[k] ≤ K[k]
  pK : Pd[k] ∈ K[k + 1]
  zK : P R[k] ∈ K[k + 1]
  kryK : K[k] ≤ D[k]

theorem inv_zero (hP : HPD P) : Inv A P b x0 M 0 := by
  have h0 := st_zero A P b x0 M
  have hbot : ∀ v ∈ D[0], v = 0 := fun v hv => (Submodule.mem_bot 𝕜).mp hv
  refine ⟨by rw [h0], by rw [h0], ?_, ?_, ?_, ?_, ?_, ?_, bot_le, ?_, ?_, bot_le⟩
  · intro v hv; rw [hbot v hv]; simp
  · intro v hv; rw [hbot v hv]; simp
  · rw [h0]; simp [Dsp]
  · intro v hv; rw [hbot v hv]; simp
  · rw [h0]; simp [Dsp]
  · rw [h0]; intro h
    have : b - A x0 = 0 := hP.eq_zero _ (le_of_eq h)
    simp [this]
  · rw [h0]; exact Ksp_self _ _ 0
  · rw [h0]; exact Ksp_self _ _ 0


theorem mem_D_succ (k : ℕ) (v : E) : v ∈ D[k + 1] ↔ ∃ y ∈ D[k], ∃ a : 𝕜, y + a • Pd[k] = v :=
  mem_Dsp_succ _ k v

theorem mem_D_self (k : ℕ) : Pd[k] ∈ D[k + 1] := mem_Dsp_self (𝕜 := 𝕜) (fun j => Pd[j]) k

theorem inv_succ (hA : HPD A) (hP : HPD P) (k : ℕ) (I : Inv A P b x0 M k) (hk : (k : ℤ) < M - 1)
    (hpos : 0 < pAp A P b x0 M k) : Inv A P b x0 M (k + 1) := by
  obtain ⟨hx, hr, hrz, hp⟩ := st_succ A P b x0 M k hk hpos
  have hπ : pAp A P b x0 M k = re ⟪Pd[k], A Pd[k]⟫ := rfl
  have hπ0 : pAp A P b x0 M k ≠ 0 := hpos.ne'
  have hpp : ⟪Pd[k], A Pd[k]⟫ = ((pAp A P b x0 M k : ℝ) : 𝕜) := (cg_real_inner A hA.symm _).symm
  have hApp : ⟪A Pd[k], Pd[k]⟫ = ((pAp A P b x0 M k : ℝ) : 𝕜) := by rw [hA.symm]; exact hpp
  have hpne : Pd[k] ≠ 0 := by
    intro h; rw [hπ, h] at hpos; simp at hpos
  have hρ0 : ρ[k] ≠ 0 := fun h => hpne (I.p0 h)
  have hrp : ⟪R[k], Pd[k]⟫ = ((ρ[k] : ℝ) : 𝕜) := by
    have h1 := I.r_orth _ I.pz
    rw [inner_sub_right, sub_eq_zero] at h1
    rw [h1, I.rz]; exact (cg_real_inner P hP.symm _).symm
  have hpD : Pd[k] ∈ D[k + 1] := mem_D_self A P b x0 M k
  have hzD : P R[k] ∈ D[k + 1] := by
    have := Submodule.sub_mem _ hpD (Dsp_le_succ _ k I.pz)
    simpa using this
  have hrr' : ⟪R[k + 1], P R[k + 1]⟫ = ((ρ[k + 1] : ℝ) : 𝕜) := by
    rw [hrz]; exact (cg_real_inner P hP.symm _).symm
  -- residual orthogonal to the enlarged direction space
  have r_orth' : ∀ v ∈ D[k + 1], ⟪R[k + 1], v⟫ = 0 := by
    intro v hv
    obtain ⟨y, hy, a, rfl⟩ := (mem_D_succ A P b x0 M k v).mp hv
    have h1 : ⟪R[k + 1], y⟫ = 0 := by
      rw [hr, inner_add_left, inner_smul_left, I.r_orth y hy, hA.symm, I.p_conj y hy]; simp
    have h2 : ⟪R[k + 1], Pd[k]⟫ = 0 := by
      rw [hr, inner_add_left, inner_smul_left, hrp, hApp, RCLike.conj_ofReal, ← RCLike.ofReal_mul,
        ← RCLike.ofReal_add]
      have : ρ[k] + -(ρ[k] / pAp A P b x0 M k) * pAp A P b x0 M k = 0 := by field_simp; ring
      rw [this]; simp
    rw [inner_add_right, inner_smul_right, h1, h2]; simp
  -- P A p_k in terms of z_k, z_{k+1}
  have hαne : (((ρ[k] / pAp A P b x0 M k : ℝ)) : 𝕜) ≠ 0 := by
    rw [Ne, RCLike.ofReal_eq_zero]; exact div_ne_zero hρ0 hπ0
  have hPAp : P (A Pd[k]) = (((ρ[k] / pAp A P b x0 M k : ℝ) : 𝕜))⁻¹ • (P R[k] - P R[k + 1]) := by
    rw [hr, map_add, map_smul, RCLike.ofReal_neg, neg_smul, sub_add_eq_sub_sub, sub_self, zero_sub, neg_neg,
      smul_smul, inv_mul_cancel₀ hαne, one_smul]
  have hp'D : Pd[k + 1] ∈ D[k + 2] := mem_D_self A P b x0 M (k + 1)
  have hz'D : P R[k + 1] ∈ D[k + 2] := by
    have h1 : ((ρ[k + 1] / ρ[k] : ℝ) : 𝕜) • Pd[k] ∈ D[k + 2] :=
      Submodule.smul_mem _ _ (Dsp_le_succ _ (k + 1) hpD)
    have := Submodule.sub_mem _ hp'D h1
    rw [hp] at this; simpa using this
  have hPApD : P (A Pd[k]) ∈ D[k + 2] := by
    rw [hPAp]
    exact Submodule.smul_mem _ _ (Submodule.sub_mem _ (Dsp_le_succ _ (k + 1) hzD) hz'D)
  refine ⟨?_, hrz, r_orth', ?_, ?_, ?_, ?_, ?_, ?_, ?_, ?_, ?_⟩
  · -- residual identity
    rw [hr, hx, I.res, map_add, map_smul, RCLike.ofReal_neg, neg_smul]; abel
  · -- conjugacy
    intro v hv
    obtain ⟨y, hy, a, rfl⟩ := (mem_D_succ A P b x0 M k v).mp hv
    have h1 : ⟪Pd[k + 1], A y⟫ = 0 := by
      rw [hp, inner_add_left, inner_smul_left, I.p_conj y hy, hP.symm, r_orth' _ (I.PA_D y hy)]; simp
    have h2 : ⟪Pd[k + 1], A Pd[k]⟫ = 0 := by
      rw [hp, inner_add_left, inner_smul_left, hpp, hP.symm, hPAp, inner_smul_right, inner_sub_right,
        r_orth' _ hzD, hrr', RCLike.conj_ofReal, ← RCLike.ofReal_inv, zero_sub, ← RCLike.ofReal_neg,
        ← RCLike.ofReal_mul, ← RCLike.ofReal_mul, ← RCLike.ofReal_add]
      have : ρ[k + 1] / ρ[k] * pAp A P b x0 M k + (ρ[k] / pAp A P b x0 M k)⁻¹ * -ρ[k + 1] = 0 := by
        field_simp; ring
      rw [this]; simp
    rw [map_add, map_smul, inner_add_right, inner_smul_right, h1, h2]; simp
  · -- p_{k+1} - z_{k+1} = β p_k
    rw [hp]; simp only [add_sub_cancel_right]
    exact Submodule.smul_mem _ _ hpD
  · -- P A D_{k+1} ⊆ D_{k+2}
    intro v hv
    obtain ⟨y, hy, a, rfl⟩ := (mem_D_succ A P b x0 M k v).mp hv
    rw [map_add, map_smul, map_add, map_smul]
    exact Submodule.add_mem _ (Dsp_le_succ _ (k + 1) (I.PA_D y hy)) (Submodule.smul_mem _ _ hPApD)
  · -- x_{k+1} - x0
    rw [hx, add_sub_right_comm]
    exact Submodule.add_mem _ (Dsp_le_succ _ k I.x_mem) (Submodule.smul_mem _ _ hpD)
  · -- rz_{k+1} = 0 → p_{k+1} = 0
    intro h
    have hr0 : R[k + 1] = 0 := hP.eq_zero _ (by rw [← hrz, h])
    rw [hp, h, hr0]; simp
  · -- D_{k+1} ≤ K_{k+1}
    exact sup_le (I.kryD.trans (Ksp_le_succ _ _ k)) ((Submodule.span_singleton_le_iff_mem _ _).mpr I.pK)
  · -- p_{k+1} ∈ K_{k+2}
    have hz'K : P R[k + 1] ∈ K[k + 2] := by
      rw [hr, map_add, map_smul]
      exact Submodule.add_mem _ (Ksp_le_succ _ _ (k + 1) I.zK) (Submodule.smul_mem _ _ (Ksp_map _ _ (k + 1) I.pK))
    rw [hp]
    exact Submodule.add_mem _ (Submodule.smul_mem _ _ (Ksp_le_succ _ _ (k + 1) I.pK)) hz'K
  · rw [hr, map_add, map_smul]
    exact Submodule.add_mem _ (Ksp_le_succ _ _ (k + 1) I.zK) (Submodule.smul_mem _ _ (Ksp_map _ _ (k + 1) I.pK))
  · -- K_{k+1} ≤ D_{k+1}
    refine sup_le ((Submodule.span_singleton_le_iff_mem _ _).mpr ?_) ?_
    · have h0 : P (b - A x0) = Pd[0] := by rw [st_zero]
      rw [h0]
      exact Dsp_mono _ (Nat.succ_le_succ (Nat.zero_le k)) (mem_D_self A P b x0 M 0)
    · rintro _ ⟨v, hv, rfl⟩
      exact I.PA_D v (I.kryK hv)


theorem inv_all (hA : HPD A) (hP : HPD P) (k : ℕ) (h : ∀ j < k, 0 < pAp A P b x0 M j)
    (hk : (k : ℤ) ≤ M - 1) : Inv A P b x0 M k := by
  induction k with
  | zero => exact inv_zero A P b x0 M hP
  | succ k ih =>
    exact inv_succ A P b x0 M hA hP k (ih (fun j hj => h j (Nat.lt_succ_of_lt hj)) (by push_cast at hk; omega))
      (by push_cast at hk; omega) (h k (Nat.lt_succ_self k))

theorem inv_rp (hP : HPD P) (k : ℕ) (I : Inv A P b x0 M k) : ⟪R[k], Pd[k]⟫ = ((ρ[k] : ℝ) : 𝕜) := by
  have h1 := I.r_orth _ I.pz
  rw [inner_sub_right, sub_eq_zero] at h1
  rw [h1, I.rz]; exact (cg_real_inner P hP.symm _).symm

/-! #### the property theorems.  Hypotheses common to all: `A`, `P` Hermitian positive definite
(`P = id` is the un-preconditioned solver, see `run_none`), the first `k` updates met positive
curvature (`pAp j > 0`, i.e. no breakdown `return`), and `k ≤ max_iter - 1` (the residual update
was performed in each of them; the final permitted update is covered by `cg_optimal_last`). -/

/-- `P=None` is the solver with the identity preconditioner. -/
theorem run_none (k : ℕ) :
    run (ipOps 𝕜) (⇑A) none b x0 M k = run (ipOps 𝕜) (⇑A) (some ⇑(LinearMap.id : E →ₗ[𝕜] E)) b x0 M k := by
  induction k with
  | zero => rfl
  | succ k ih => simp only [run, ih]; rfl

theorem hpd_id : HPD (LinearMap.id : E →ₗ[𝕜] E) :=
  ⟨fun _ _ => rfl, fun v hv => by
    simp only [LinearMap.id_coe, id_eq, inner_self_eq_norm_sq_to_K]
    have : 0 < ‖v‖ := norm_pos_iff.mpr hv
    norm_cast; positivity⟩

/-- The residual the solver tracks is the true residual: `alg.r = b - A alg.x` after every update
    in which the residual update is performed (all but the last permitted one). -/
theorem cg_residual (hA : HPD A) (hP : HPD P) (k : ℕ) (h : ∀ j < k, 0 < pAp A P b x0 M j)
    (hk : (k : ℤ) ≤ M - 1) : R[k] = b - A X[k] :=
  (inv_all A P b x0 M hA hP k h hk).res

/-- consecutive residuals are `P`-orthogonal: `⟪r_{k+1}, P r_k⟫ = 0` -/
theorem cg_orth_local (hA : HPD A) (hP : HPD P) (k : ℕ) (h : ∀ j < k + 1, 0 < pAp A P b x0 M j)
    (hk : ((k + 1 : ℕ) : ℤ) ≤ M - 1) : ⟪R[k + 1], P R[k]⟫ = 0 := by
  have I := inv_all A P b x0 M hA hP k (fun j hj => h j (Nat.lt_succ_of_lt hj)) (by push_cast at hk ⊢; omega)
  have I' := inv_all A P b x0 M hA hP (k + 1) h hk
  have hzD : P R[k] ∈ D[k + 1] := by
    have := Submodule.sub_mem _ (mem_D_self A P b x0 M k) (Dsp_le_succ _ k I.pz)
    simpa using this
  exact I'.r_orth _ hzD

/-- consecutive search directions are `A`-conjugate: `⟪p_{k+1}, A p_k⟫ = 0` -/
theorem cg_conj_local (hA : HPD A) (hP : HPD P) (k : ℕ) (h : ∀ j < k + 1, 0 < pAp A P b x0 M j)
    (hk : ((k + 1 : ℕ) : ℤ) ≤ M - 1) : ⟪Pd[k + 1], A Pd[k]⟫ = 0 :=
  (inv_all A P b x0 M hA hP (k + 1) h hk).p_conj _ (mem_D_self A P b x0 M k)

/-- full orthogonality: `⟪r_k, P r_j⟫ = 0` for all `j < k` -/
theorem cg_orth (hA : HPD A) (hP : HPD P) (k j : ℕ) (hj : j < k) (h : ∀ i < k, 0 < pAp A P b x0 M i)
    (hk : (k : ℤ) ≤ M - 1) : ⟪R[k], P R[j]⟫ = 0 := by
  have I := inv_all A P b x0 M hA hP j (fun i hi => h i (hi.trans hj)) (by omega)
  have I' := inv_all A P b x0 M hA hP k h hk
  have hzD : P R[j] ∈ D[j + 1] := by
    have := Submodule.sub_mem _ (mem_D_self A P b x0 M j) (Dsp_le_succ _ j I.pz)
    simpa using this
  exact I'.r_orth _ (Dsp_mono _ hj hzD)

/-- full conjugacy: `⟪p_k, A p_j⟫ = 0` for all `j < k` -/
theorem cg_conj (hA : HPD A) (hP : HPD P) (k j : ℕ) (hj : j < k) (h : ∀ i < k, 0 < pAp A P b x0 M i)
    (hk : (k : ℤ) ≤ M - 1) : ⟪Pd[k], A Pd[j]⟫ = 0 :=
  (inv_all A P b x0 M hA hP k h hk).p_conj _ (Dsp_mono _ hj (mem_D_self A P b x0 M j))

/-- `x_k - x_0` lies in the preconditioned Krylov space `K_k(PA, P r_0)` -/
theorem cg_krylov (hA : HPD A) (hP : HPD P) (k : ℕ) (h : ∀ j < k, 0 < pAp A P b x0 M j)
    (hk : (k : ℤ) ≤ M - 1) : X[k] - x0 ∈ K[k] :=
  let I := inv_all A P b x0 M hA hP k h hk
  I.kryD I.x_mem

/-- … and the search directions span exactly that Krylov space -/
theorem cg_krylov_eq (hA : HPD A) (hP : HPD P) (k : ℕ) (h : ∀ j < k, 0 < pAp A P b x0 M j)
    (hk : (k : ℤ) ≤ M - 1) : D[k] = K[k] :=
  let I := inv_all A P b x0 M hA hP k h hk
  le_antisymm I.kryD I.kryK

theorem optimal_of_inv (hA : HPD A) (k : ℕ) (I : Inv A P b x0 M k) (xs : E) (hxs : A xs = b) (y : E)
    (hy : y - x0 ∈ D[k]) :
    re ⟪xs - X[k], A (xs - X[k])⟫ ≤ re ⟪xs - y, A (xs - y)⟫ := by
  have hd : X[k] - y ∈ D[k] := by
    have := Submodule.sub_mem _ I.x_mem hy
    simpa using this
  have hAe : A (xs - X[k]) = R[k] := by rw [map_sub, hxs, I.res]
  have hsplit : xs - y = (xs - X[k]) + (X[k] - y) := by abel
  have h1 : ⟪xs - X[k], A (X[k] - y)⟫ = 0 := by rw [← hA.symm, hAe]; exact I.r_orth _ hd
  have h2 : ⟪X[k] - y, A (xs - X[k])⟫ = 0 := by
    rw [hAe, ← inner_conj_symm, I.r_orth _ hd]; simp
  rw [hsplit, map_add, inner_add_left, inner_add_right, inner_add_right, h1, h2]
  simp only [add_zero, zero_add, map_add]
  linarith [hA.nonneg (X[k] - y)]

/-- **Krylov optimality.**  After `k` updates the iterate minimises the `A`-norm of the error
    `‖x* - y‖_A² = re ⟪x* - y, A (x* - y)⟫` over all `y ∈ x_0 + K_k(PA, P r_0)` (span over `𝕜`:
    the complex Krylov space for complex systems). -/
theorem cg_optimal (hA : HPD A) (hP : HPD P) (k : ℕ) (h : ∀ j < k, 0 < pAp A P b x0 M j)
    (hk : (k : ℤ) ≤ M - 1) (xs : E) (hxs : A xs = b) (y : E) (hy : y - x0 ∈ K[k]) :
    re ⟪xs - X[k], A (xs - X[k])⟫ ≤ re ⟪xs - y, A (xs - y)⟫ :=
  let I := inv_all A P b x0 M hA hP k h hk
  optimal_of_inv A P b x0 M hA k I xs hxs y (I.kryK hy)

/-- the `A`-norm error never increases -/
theorem cg_monotone (hA : HPD A) (hP : HPD P) (k : ℕ) (h : ∀ j < k + 1, 0 < pAp A P b x0 M j)
    (hk : ((k + 1 : ℕ) : ℤ) ≤ M - 1) (xs : E) (hxs : A xs = b) :
    re ⟪xs - X[k + 1], A (xs - X[k + 1])⟫ ≤ re ⟪xs - X[k], A (xs - X[k])⟫ := by
  have I := inv_all A P b x0 M hA hP k (fun j hj => h j (Nat.lt_succ_of_lt hj)) (by push_cast at hk ⊢; omega)
  have I' := inv_all A P b x0 M hA hP (k + 1) h hk
  exact optimal_of_inv A P b x0 M hA (k + 1) I' xs hxs _ (Dsp_le_succ _ k I.x_mem)

/-- Breakdown under a positive definite `A` means convergence: if the `k+1`-st update meets
    `pAp ≤ 0` then `r_k = 0`, i.e. `x_k` already solves the system (and by `cg_breakdown` the
    update leaves `x` alone and `done()` turns true). -/
theorem cg_breakdown_converged (hA : HPD A) (hP : HPD P) (k : ℕ) (h : ∀ j < k, 0 < pAp A P b x0 M j)
    (hk : (k : ℤ) ≤ M - 1) (hb : pAp A P b x0 M k ≤ 0) : R[k] = 0 ∧ A X[k] = b := by
  have I := inv_all A P b x0 M hA hP k h hk
  have hp0 : Pd[k] = 0 := hA.eq_zero _ hb
  have hρ : ρ[k] = 0 := by
    have := inv_rp A P b x0 M hP k I
    rw [hp0, inner_zero_right] at this
    exact_mod_cast this.symm
  have hr0 : R[k] = 0 := hP.eq_zero _ (by rw [← I.rz, hρ])
  refine ⟨hr0, ?_⟩
  have := I.res; rw [hr0] at this
  exact (sub_eq_zero.mp this.symm).symm


/-- **Finite termination.**  In dimension `n`, if the first `n` updates are regular, the residual
    after them is exactly zero: `x_n` solves `A x = b`.  (If some earlier update breaks down the
    system was already solved there: `cg_breakdown_converged`, and `x` stays put: `cg_breakdown`.) -/
theorem cg_finite [FiniteDimensional 𝕜 E] (hA : HPD A) (hP : HPD P)
    (h : ∀ j < Module.finrank 𝕜 E, 0 < pAp A P b x0 M j) (hk : (Module.finrank 𝕜 E : ℤ) ≤ M - 1) :
    R[Module.finrank 𝕜 E] = 0 ∧ A X[Module.finrank 𝕜 E] = b := by
  have hrank : ∀ k ≤ Module.finrank 𝕜 E, k ≤ Module.finrank 𝕜 D[k] := by
    intro k
    induction k with
    | zero => intro _; exact Nat.zero_le _
    | succ k ih =>
      intro hle
      have hk' : k < Module.finrank 𝕜 E := hle
      have I := inv_all A P b x0 M hA hP k (fun j hj => h j (hj.trans hk')) (by omega)
      have hnot : Pd[k] ∉ D[k] := by
        intro hmem
        have h0 := I.p_conj _ hmem
        have hp := h k hk'
        rw [pAp, h0] at hp; simp at hp
      have hlt : D[k] < D[k + 1] :=
        lt_of_le_of_ne (Dsp_le_succ _ k) (fun heq => hnot (heq ▸ mem_D_self A P b x0 M k))
      have := Submodule.finrank_lt_finrank_of_lt hlt
      have := ih hk'.le
      omega
  have I := inv_all A P b x0 M hA hP _ h hk
  have htop : D[Module.finrank 𝕜 E] = ⊤ :=
    Submodule.eq_top_of_finrank_eq (le_antisymm (Submodule.finrank_le _) (hrank _ le_rfl))
  have hr0 : R[Module.finrank 𝕜 E] = 0 := by
    have := I.r_orth (R[Module.finrank 𝕜 E]) (by rw [htop]; exact Submodule.mem_top)
    exact inner_self_eq_zero.mp this
  refine ⟨hr0, ?_⟩
  have := I.res; rw [hr0] at this
  exact (sub_eq_zero.mp this.symm).symm

/-- **Krylov optimality of the final iterate.**  The last permitted update (`iter = max_iter - 1`)
    skips the residual update but not the `x` update: `x_{max_iter}` is the iterate a solver with a
    larger budget would produce (`cg_x_maxiter_irrelevant`) and is therefore optimal over
    `x_0 + K_{max_iter}`. -/
theorem cg_optimal_last (hA : HPD A) (hP : HPD P) (k : ℕ) (hkM : (k : ℤ) = M)
    (h : ∀ j < k, 0 < pAp A P b x0 (M + 1) j) (xs : E) (hxs : A xs = b) (y : E) (hy : y - x0 ∈ K[k]) :
    re ⟪xs - X[k], A (xs - X[k])⟫ ≤ re ⟪xs - y, A (xs - y)⟫ := by
  have hx : X[k] = (st A P b x0 (M + 1) k).x :=
    cg_x_maxiter_irrelevant (ipOps 𝕜) (⇑A) (some ⇑P) b x0 M (M + 1) (by omega) k (by omega)
  rw [hx]
  exact cg_optimal A P b x0 (M + 1) hA hP k h (by omega) xs hxs y hy

/-- the curvature values seen by the solver with budget `M` and with budget `M+1` coincide for the
    first `M` updates (so the hypothesis of `cg_optimal_last` may be read on the actual run). -/
theorem pAp_budget (k : ℕ) (hk : (k : ℤ) ≤ M - 1) : pAp A P b x0 M k = pAp A P b x0 (M + 1) k := by
  have h := sim_run (ipOps 𝕜) (⇑A) (some ⇑P) b x0 M (M + 1) (by omega) k hk
  simp only [pAp, st]
  rw [h.2.2.1]

theorem update_rz (s : State E ℝ) (h : s.rzold = re ⟪s.r, P s.r⟫) :
    (update (ipOps 𝕜) (⇑A) (some ⇑P) M s).rzold =
      re ⟪(update (ipOps 𝕜) (⇑A) (some ⇑P) M s).r, P (update (ipOps 𝕜) (⇑A) (some ⇑P) M s).r⟫ := by
  by_cases h1 : re ⟪s.p, A s.p⟫ ≤ 0
  · simp [update, Gen.C12.update, Gen.C12.update_, ipOps, h1, h]
  · by_cases h2 : s.iter < M - 1
    · simp [update, Gen.C12.update, Gen.C12.update_, ipOps, h1, h2]
    · simp [update, Gen.C12.update, Gen.C12.update_, ipOps, h1, h2, h]

theorem update_x_rz0 (Po : Option (E → E)) (s : State E ℝ) (h0 : s.rzold = 0) :
    (update (ipOps 𝕜) (⇑A) Po M s).x = s.x := by
  by_cases h1 : re ⟪s.p, A s.p⟫ ≤ 0
  · simp [update, Gen.C12.update, Gen.C12.update_, ipOps, h1]
  · by_cases h2 : s.iter < M - 1
    · cases Po <;> simp [update, Gen.C12.update, Gen.C12.update_, ipOps, h1, h2, h0]
    · simp [update, Gen.C12.update, Gen.C12.update_, ipOps, h1, h2, h0]

/-- `rzold = re ⟪r, P r⟫` at all times (breakdown and skipped updates included) -/
theorem rz_always (k : ℕ) : ρ[k] = re ⟪R[k], P R[k]⟫ := by
  induction k with
  | zero => rw [st_zero]
  | succ k ih => exact update_rz A P M _ ih

/-- **Early stop is a fixed point (C15).**  With `tol = 0`, `resid <= tol` means
    `rzold ** 0.5 <= 0`; for positive definite `P` then `rzold = 0`, and the next `update()` leaves
    `x` unchanged (it either reports breakdown or takes a step of length `alpha = 0`). -/
theorem cg_early_stop_fixed (hP : HPD P) (k : ℕ) (hd : Real.sqrt (st A P b x0 M k).resid2 ≤ 0) :
    X[k + 1] = X[k] := by
  have h2 : (st A P b x0 M k).resid2 = ρ[k] := resid2_eq_rzold _ _ _ _ _ _ _
  have hnn : 0 ≤ ρ[k] := by rw [rz_always]; exact hP.nonneg _
  have h0 : ρ[k] = 0 := by
    rw [h2] at hd
    have := Real.sqrt_eq_zero'.mp (le_antisymm hd (Real.sqrt_nonneg _))
    linarith
  exact update_x_rz0 A M (some ⇑P) _ h0

/-! non-vacuity: the hypotheses are satisfiable (`𝕜 = E = ℝ`, `A = 2·id`, `P = id`). -/
example : HPD (LinearMap.id : ℝ →ₗ[ℝ] ℝ) := hpd_id

example : ∀ j < 1, 0 < pAp (LinearMap.id : ℝ →ₗ[ℝ] ℝ) LinearMap.id 1 0 3 j := by
  intro j hj
  have : j = 0 := by omega
  subst this
  simp [pAp, st_zero]

end hilbert

end SigpyVerif.C12
