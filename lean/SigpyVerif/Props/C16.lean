import SigpyVerif.Model.C16
import SigpyVerif.Lemmas.C16
import Mathlib.Analysis.InnerProductSpace.Basic
import Mathlib.Analysis.Complex.Basic
/-
  C16 — SENSE operator = explicit multi-coil encoding; batching invariant; recons minimise it.

  Theorems about `Model/C16.lean` (`sense`, the transcription of `sigpy.mri.linop.Sense`), whose integer
  formulas (`Gen.sense*`) are regenerated from the source on every run.  The model is tied to the real
  operator by the correspondence streams of `harness/props/c16.py`.

  Proved here:      forward formula, forward batch invariance for EVERY batch size (shared and per-coil
                    weights), partition of the coils by the generated slice bounds, which keywords the
                    batches receive, the adjoint's batch decomposition (`…_partial`: on the level of the
                    per-coil sums), recon set-ups and the objective they denote, recovery of consistent data.
  Only validated by correspondence/search:  the adjoint of the model vs the real `.H` for every batch size,
                    FFT/NUFFT being the matrix `F`, and that the iterative solvers reach the minimiser.
-/
namespace SigpyVerif.C16
open SigpyVerif

section operator
variable {α : Type} [CommSemiring α]

/-- explicit encoding of one coil: `out[k] = Σ_r F[k,r] · (m[r] · x[r])` -/
def encode (F : Mat α) (x m : Vec α) : Vec α := F.map fun frow => dot frow (vmul m x)

/-- the documented operator, coil by coil:
    `out[c,k] = √w[c,k] · Σ_r F[k,r] · mps[c,r] · x[r]` (`√w[k]` when the weights have no coil axis) -/
def explicitSense (sqrt : α → α) (F : Mat α) (w : Weights α) (mps : Mat α) (x : Vec α) : Mat α :=
  match w with
  | .none => mps.map (encode F x)
  | .shared w => mps.map fun m => vmul (w.map (wpow sqrt)) (encode F x m)
  | .perCoil w => List.zipWith (fun wr m => vmul (wr.map (wpow sqrt)) (encode F x m)) w mps

theorem flatten_map_map {β γ δ : Type} (l : List β) (f : β → List γ) (h : γ → δ) :
    (l.map fun c => (f c).map h).flatten = ((l.map f).flatten).map h := by
  simp [List.map_flatten, List.map_map, Function.comp_def]

theorem sum_map_sum {β : Type} (l : List β) (f : β → List α) :
    (l.map fun c => (f c).sum).sum = ((l.map f).flatten).sum := by
  simp [List.sum_flatten, List.map_map, Function.comp_def]

theorem unbatched_apply (sqrt : α → α) (mps F : Mat α) (w : Weights α) (X : Mat α) :
    (senseUnbatched sqrt mps F w).apply X = explicitSense sqrt F w mps (X.headD []) := by
  cases w with
  | none => simp [senseUnbatched, Chain.apply, Leaf.apply, explicitSense, encode, List.map_map, Function.comp_def]
  | shared w => simp [senseUnbatched, Chain.apply, Leaf.apply, explicitSense, encode, List.map_map, Function.comp_def]
  | perCoil w =>
    simp [senseUnbatched, Chain.apply, Leaf.apply, explicitSense, encode, List.map_map, Function.comp_def,
      List.zipWith_map_left, List.zipWith_map_right]

/-- the weights square root is what the source applies (`weights ** 0.5`) -/
theorem weights_exponent_is_half : Gen.senseWeightsExp = (1 : Rat) / 2 := by
  unfold Gen.senseWeightsExp; rfl

omit [CommSemiring α] in
theorem wpow_eq_sqrt [Add α] [Mul α] [Zero α] (sqrt : α → α) (w : α) : wpow sqrt w = sqrt w := by
  unfold wpow; rw [if_pos weights_exponent_is_half]

/-- **sense_denote.** Without batching, `Sense(mps, weights)(x)` is the explicit multi-coil encoding:
    `out[c,k] = √w[k]·Σ_r F[k,r]·mps[c,r]·x[r]` for an arbitrary linear Fourier stage `F`. -/
theorem sense_denote (o : SenseOpts α) (x : Vec α) :
    (sense { o with batch := none }).apply [x] = explicitSense o.sqrt o.F o.weights o.mps x := by
  unfold sense
  have : Gen.senseBatched (o.mps.length : Int) (Gen.senseBatchDefault (o.mps.length : Int)) = false := by
    unfold Gen.senseBatched Gen.senseBatchDefault; simp
  simp only [this, Bool.false_eq_true, if_false, Op.apply]
  rw [unbatched_apply]; rfl

/-- the weights slice uses the same bounds as the coil slice -/
theorem weights_sliced_with_coils : Gen.senseWeightsSliced = true ∧
    (∀ c b n, Gen.senseWLo c b n = Gen.senseMpsLo c b n) ∧ (∀ c b n, Gen.senseWHi c b n = Gen.senseMpsHi c b n) :=
  ⟨rfl, fun _ _ _ => rfl, fun _ _ _ => rfl⟩

/-- each batch is built with everything but `coil_batch_size`/`comm`: the batched branch forwards
    `coord`, `weights`, `tseg`, `ishape` and `transp_nufft` (the pre-fix code dropped two of them) -/
theorem batch_forwards_all : Gen.senseBatchKw = ["coord", "ishape", "transp_nufft", "tseg", "weights"] ∧
    Gen.senseVstackAxis = 0 := ⟨rfl, rfl⟩

/-- forward value of the batched operator: the concatenation over the batches of the explicit encoding of
    the batch's coils -/
theorem batched_apply (o : SenseOpts α) (B : Nat) (x : Vec α) (hb : Gen.senseBatched (o.mps.length : Int) B = true) :
    (sense { o with batch := some (B : Int) }).apply [x] =
      ((Gen.senseBatchRange (Gen.senseNumCoilBatches o.mps.length B) o.mps.length B).map fun c =>
        explicitSense o.sqrt o.F (batchWeights o.weights c B o.mps.length)
          (pySlice o.mps (Gen.senseMpsLo c B o.mps.length) (Gen.senseMpsHi c B o.mps.length)) x).flatten := by
  unfold sense
  simp only [hb, if_true, Op.apply, List.map_map]
  congr 1
  apply List.map_congr_left
  intro c _
  simp only [Function.comp, unbatched_apply]; rfl

/-- **sense_batch_invariant (forward).** For EVERY batch size `b ≥ 1` (dividing the number of coils or not,
    larger than it or not) the batched operator — `Vstack(axis=0)` of the per-batch `Sense` operators on the
    coil slices `mps[c·b:(c+1)·b]`, `c < ⌈n/b⌉` — has the same value as the unbatched one, with no weights,
    with k-space-shaped weights shared by the batches, and with per-coil weights sliced like the coils. -/
theorem sense_batch_invariant (o : SenseOpts α) (B : Nat) (hB : 0 < B) (x : Vec α) :
    (sense { o with batch := some (B : Int) }).apply [x] = (sense { o with batch := none }).apply [x] := by
  rw [sense_denote]
  by_cases hb : Gen.senseBatched (o.mps.length : Int) B = true
  · rw [batched_apply o B x hb]
    cases hw : o.weights with
    | none =>
      simp only [batchWeights, explicitSense]
      rw [flatten_map_map, batch_slices_partition _ _ _ hB (le_refl _)]
    | shared w =>
      simp only [batchWeights, explicitSense]
      rw [flatten_map_map, batch_slices_partition _ _ _ hB (le_refl _)]
    | perCoil w =>
      simp only [batchWeights, weights_sliced_with_coils.1, if_true, explicitSense,
        weights_sliced_with_coils.2.1, weights_sliced_with_coils.2.2, pySlice_zipWith]
      exact batch_slices_partition _ _ _ hB (by simp [List.length_zipWith])
  · unfold sense
    simp only [hb, Bool.false_eq_true, if_false, Op.apply]
    rw [unbatched_apply]; rfl

/-- **sense_batch_partition.** The coil slices `[c·b, min((c+1)·b, n))`, `c < ⌈n/b⌉`, computed by the
    generated slice-bound formulas list the coils `0..n-1` in order, each once — for all `n` and `b ≥ 1`. -/
theorem sense_batch_partition (n B : Nat) (hB : 0 < B) (hb : Gen.senseBatched (n : Int) B = true) :
    (batchCoils (n : Int) (some (B : Int))).flatten = pyRange0 n := by
  unfold batchCoils
  simp only [hb, if_true]
  apply batch_slices_partition _ _ _ hB
  rw [pyRange0, pyRange0_eq]; simp

/-- every batch is non-empty (no zero-coil operator is ever built): `c·b < n` for `c < ⌈n/b⌉` -/
theorem sense_batches_nonempty (n B : Nat) (hB : 0 < B) (c : Int)
    (hc : c ∈ Gen.senseBatchRange (Gen.senseNumCoilBatches n B) n B) :
    0 ≤ Gen.senseMpsLo c B n ∧ Gen.senseMpsLo c B n < n := by
  unfold Gen.senseBatchRange at hc
  rw [mem_pyRange0'] at hc
  unfold Gen.senseNumCoilBatches at hc
  rw [pyDiv_of_pos _ (by exact_mod_cast hB)] at hc
  unfold Gen.senseMpsLo
  obtain ⟨h0, h1⟩ := hc
  have hBz : (0 : Int) < B := by exact_mod_cast hB
  refine ⟨by positivity, ?_⟩
  have h2 : c + 1 ≤ ((n : Int) + B - 1) / B := by omega
  have h3 := (Int.le_ediv_iff_mul_le hBz).mp h2
  nlinarith

/-- **sense_adjoint_batch_sum_partial.** The adjoint of the batched operator is `Hstack` of the batch
    adjoints: a sum over batches of the per-batch sums `Σ_{c ∈ batch} t(mps_c, y_c)`.  For every per-coil
    contribution `t` that sum over the generated slices equals the single sum over all coils.  (Partial: the
    identification of `Op.adj` of the model with these sums is validated by correspondence, not proved.) -/
theorem sense_adjoint_batch_sum_partial {β γ : Type} (t : β → γ → α) (mps : List β) (y : List γ) (B : Nat) (hB : 0 < B) :
    ((Gen.senseBatchRange (Gen.senseNumCoilBatches mps.length B) mps.length B).map fun c =>
      (List.zipWith t (pySlice mps (Gen.senseMpsLo c B mps.length) (Gen.senseMpsHi c B mps.length))
        (pySlice y (Gen.senseMpsLo c B mps.length) (Gen.senseMpsHi c B mps.length))).sum).sum
      = (List.zipWith t mps y).sum := by
  simp only [pySlice_zipWith]
  rw [sum_map_sum, batch_slices_partition _ _ _ hB (by simp [List.length_zipWith])]

end operator

/-! ### recon set-ups -/

/-- `SenseRecon`: weights (given, or estimated from the sampled positions for Cartesian data) go into BOTH
    `A = Sense(…, weights)` (as `√w`) and `y ↦ y·√w`; `lamda` is LinearLeastSquares' `λ/2‖x‖²`; no prox, no G. -/
theorem recon_setup_sense (wg cn : Bool) :
    reconSetup .senseRecon wg cn =
      { wsource := if wg then .given else if cn then .estimated else .none,
        aWeighted := wg || cn, yWeighted := wg || cn, yExpHalf := true, l2 := true, prox := [], hasG := false } := by
  cases wg <;> cases cn <;> rfl

/-- `L1WaveletRecon`: same data term; `proxg = UnitaryTransform(L1Reg(W.oshape, lamda), W)`, no G, no `λ/2‖x‖²`. -/
theorem recon_setup_l1wavelet (wg cn : Bool) :
    reconSetup .l1Wavelet wg cn =
      { wsource := if wg then .given else if cn then .estimated else .none,
        aWeighted := wg || cn, yWeighted := wg || cn, yExpHalf := true, l2 := false,
        prox := ["UnitaryTransform", "L1Reg", "W.oshape", "lamda", "W"], hasG := false } := by
  cases wg <;> cases cn <;> rfl

/-- `TotalVariationRecon`: same data term; `G = FiniteDifference(A.ishape)`, `proxg = L1Reg(G.oshape, lamda)`. -/
theorem recon_setup_tv (wg cn : Bool) :
    reconSetup .totalVariation wg cn =
      { wsource := if wg then .given else if cn then .estimated else .none,
        aWeighted := wg || cn, yWeighted := wg || cn, yExpHalf := true, l2 := false,
        prox := ["L1Reg", "G.oshape", "lamda", "FiniteDifference", "A.ishape"], hasG := true } := by
  cases wg <;> cases cn <;> rfl

/-- **recon_objective.** With `A' = √w·A` and `y' = √w·y` (what every recon hands to LinearLeastSquares:
    `aWeighted ∧ yWeighted ∧ yExpHalf` above), the data term `‖A'x − y'‖²` that LinearLeastSquares minimises
    is the weighted residual `Σ_k w_k |(Ax)_k − y_k|²` of the documented objective `½‖P F S x − y‖²`
    (`w ≥ 0` real, `s = √w`; for estimated weights `w ∈ {0,1}` is the sampling mask `P`). -/
theorem recon_objective {ι : Type} (K : Finset ι) (a y : ι → ℂ) (s w : ι → ℝ) (hs : ∀ k, s k ^ 2 = w k) :
    (∑ k ∈ K, ‖(s k : ℂ) * a k - (s k : ℂ) * y k‖ ^ 2) = ∑ k ∈ K, w k * ‖a k - y k‖ ^ 2 := by
  apply Finset.sum_congr rfl
  intro k _
  rw [← mul_sub, norm_mul, mul_pow, Complex.norm_real, Real.norm_eq_abs, sq_abs, hs]

/-- a 0/1 mask is its own square root, so pre-weighting `y` by the estimated weights leaves the sampled
    data untouched and zeroes nothing that was not already zero-weighted -/
theorem estimated_weights_sqrt (w : ℝ) (h : w = 0 ∨ w = 1) : w ^ 2 = w := by
  rcases h with h | h <;> simp [h]

/-- **consistent_data_recovers.** If the (weighted) encoding operator `A` is injective — the problem is
    fully determined — and the data are consistent, `y = A x₀`, then with `λ = 0` (for any regulariser `g`:
    L2, L1-wavelet or TV) the minimisers of `½‖A x − y‖² + λ·g(x)` are exactly `{x₀}`: a recon that returns
    the minimiser of its objective reproduces the image. -/
theorem consistent_data_recovers {E F : Type} [NormedAddCommGroup E] [NormedSpace ℂ E]
    [NormedAddCommGroup F] [NormedSpace ℂ F] (A : E →ₗ[ℂ] F) (hA : Function.Injective A) (x₀ : E)
    (g : E → ℝ) (lam : ℝ) (hlam : lam = 0) (x : E) :
    (∀ x', 1 / 2 * ‖A x - A x₀‖ ^ 2 + lam * g x ≤ 1 / 2 * ‖A x' - A x₀‖ ^ 2 + lam * g x') ↔ x = x₀ := by
  subst hlam
  constructor
  · intro h
    have h0 := h x₀
    simp only [sub_self, norm_zero, zero_mul, add_zero] at h0
    have h1 : ‖A x - A x₀‖ ^ 2 ≤ 0 := by
      have : (0:ℝ) ^ 2 = 0 := by norm_num
      rw [this] at h0; linarith
    have h2 : ‖A x - A x₀‖ = 0 := by
      have := sq_nonneg ‖A x - A x₀‖
      exact pow_eq_zero_iff (n := 2) (by norm_num) |>.mp (le_antisymm h1 this)
    exact hA (sub_eq_zero.mp (norm_eq_zero.mp h2))
  · rintro rfl x'
    simp only [sub_self, norm_zero, zero_mul, add_zero]
    have : (0:ℝ) ^ 2 = 0 := by norm_num
    rw [this]
    have := sq_nonneg ‖A x' - A x‖
    linarith

/-- non-vacuity: the identity is injective, so the hypotheses are satisfiable -/
example : Function.Injective (LinearMap.id : ℂ →ₗ[ℂ] ℂ) := fun _ _ h => h

end SigpyVerif.C16
