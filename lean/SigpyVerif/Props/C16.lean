import SigpyVerif.Model.C16
import SigpyVerif.Lemmas.C16
import Mathlib.Analysis.InnerProductSpace.Basic
import Mathlib.Analysis.Complex.Basic
/-
  C16 — SENSE operator = explicit multi-coil encoding; batching invariant; recons minimise it.

  Theorems about `sense` = `Gen.C16.senseGen` (Gen/SenseTree.lean): the FACTORY ITSELF is translator-generated — the
  symbolic execution of the statements of `sigpy.mri.linop.Sense` (tseg = comm = None) into a term over the operator
  vocabulary of Model/C16Base.lean, referring to the integer formulas `Gen.sense*` generated from the same AST nodes.
  `sense_gen_eq` proves that term equal to the normal form `senseNF` (`[P,] F, S`; batched: `Vstack(axis=0)` of
  `[P_c,] F, S_c`, every batch with the same Fourier operator and ITS weights, never batching again) under `Valid`
  (ishape None or the maps' image shape; the weights array read as numpy broadcasts it); `fft_axes_per_coil`,
  `fkindOf_perCoil`: the Fourier leaf is the FFT over exactly the image axes / the NUFFT at `coord` / `NUFFT(-coord).H`.
  All operator theorems below are then about the generated definition.  The model is tied to the real operator by the
  correspondence streams of `harness/props/c16.py` (values for every batch size, reified trees incl. the Fourier kind).
  The recon part continues in Props/C16Recon.lean (generated `Gen.C16.recon…Call` + C14's routing theorems).

  Proved here:      forward formula (row-wise `sense_denote` and index-wise `sense_denote_index`), forward batch
                    invariance for EVERY batch size (shared and per-coil weights), partition of the coils by the
                    generated slice bounds, which keywords the batches receive; the adjoint `Op.adj` of the model (the
                    definition the driver runs against the real `A.H`): its formula `Σ_c conj(mps_c)⊙Fᴴ(conj√w_c⊙y_c)`
                    (`sense_adjoint_denote`, `sense_adjoint_index`), `Vstack.H = Hstack` of the batch adjoints
                    (`vstack_adjoint`, for an abstract `Fᴴ`), adjoint batch invariance for EVERY batch size
                    (`sense_adjoint_batch_invariant`), the adjoint identity `⟨A x, y⟩ = ⟨x, Aᴴ y⟩` for an abstract
                    `F`/`Fᴴ` pair (`sense_dot_test_abstract`) and for the model, unbatched and every batch size
                    (`sense_dot_test`); recon set-ups and the objective they denote, recovery of consistent data.
  Only validated by correspondence/search:  FFT/NUFFT being the matrix `F` (C05/C06), the real `A`, `A.H` being the
                    model's `Op.apply`, `Op.adj` (compared on every run for every batch size), and that the iterative
                    solvers reach the minimiser.
-/
namespace SigpyVerif.C16
open SigpyVerif
set_option linter.unusedTactic false
set_option linter.unreachableTactic false

/-! ### the generated factory and its normal form -/

section nf
variable {α : Type} [Add α] [Mul α] [Zero α]

/-- `weights ** e` with the GENERATED exponent -/
def wpow (sqrt : α → α) (w : α) : α := wpowE sqrt Gen.senseWeightsExp w

/-- which Fourier operator the documented `Sense` uses: the FFT over the image axes for Cartesian data, the NUFFT at
    `coord` otherwise (`NUFFT(-coord).H` with `transp_nufft`) -/
def fkindOf (o : SenseArgs α) : FKind :=
  match o.coordNdim with
  | none => .fft (Gen.senseFftAxes (o.mpsNdim - 1)) o.mpsNdim
  | some _ => if o.transp then .nufft true true else .nufft false false

/-- NORMAL FORM of the unbatched branch: `[P,] F, S` -/
def senseUnbatched (kind : FKind) (sqrt : α → α) (mps F : Mat α) (w : Weights α) : Chain α :=
  let S := Leaf.multiplyMaps mps
  let Fop := Leaf.fourier kind mps.length ((mps.headD []).length) F
  match w with
  | .none => [Fop, S]
  | .shared w => [.multiplyWShared (w.map (wpow sqrt)), Fop, S]
  | .perCoil w => [.multiplyWCoil (w.map fun row => row.map (wpow sqrt)), Fop, S]

/-- the weights handed to batch `c` -/
def batchWeights (w : Weights α) (c b n : Int) : Weights α :=
  match w with
  | .perCoil w =>
      if Gen.senseWeightsSliced then .perCoil (pySlice w (Gen.senseWLo c b n) (Gen.senseWHi c b n)) else .perCoil w
  | w => w

/-- NORMAL FORM of the factory (what the generated `sense` is proved equal to in `sense_gen_eq`) -/
def senseNF (o : SenseArgs α) : Op α :=
  let n : Int := o.mps.length
  let b : Int := batchOf n o.batch
  if Gen.senseBatched n b then
    let nb := Gen.senseNumCoilBatches n b
    .vstack ((Gen.senseBatchRange nb n b).map fun c =>
      senseUnbatched (fkindOf o) o.sqrt (pySlice o.mps (Gen.senseMpsLo c b n) (Gen.senseMpsHi c b n)) o.F
        (batchWeights o.weights c b n))
  else
    .single (senseUnbatched (fkindOf o) o.sqrt o.mps o.F o.weights)

/-- `ksp_ndim` as documented: the image dimension for Cartesian data, `coord.ndim - 1` otherwise -/
def kspNdimDoc (o : SenseArgs α) : Int :=
  match o.coordNdim with
  | none => o.mpsNdim - 1
  | some d => d - 1

/-- the request describes arrays: `ishape` is `None` or the maps' image shape, and the weights array is read as
    per-coil exactly when it has one more axis than k-space and one leading entry per coil (numpy broadcasting
    against `[coils, k-space]`) -/
structure Valid (o : SenseArgs α) : Prop where
  ndim : 1 ≤ o.mpsNdim
  ishape : o.ishapeLen = none ∨ o.ishapeLen = some (o.mpsNdim - 1)
  wclass : (o.wNdim = kspNdimDoc o + 1 ∧ o.wShape0 = o.mps.length) ↔ ∃ m, o.weights = .perCoil m

omit [Add α] [Mul α] [Zero α] in
theorem Valid.withBatch {o : SenseArgs α} (hv : Valid o) (b : Option Int) : Valid { o with batch := b } :=
  ⟨hv.ndim, hv.ishape, hv.wclass⟩

end nf

theorem pyMod_cases (a n : Int) (hn : 0 < n) (h : -n ≤ a ∧ a < n) : pyMod a n = if a < 0 then a + n else a := by
  rw [pyMod_of_pos _ hn]
  split_ifs with h0
  · rw [← Int.add_emod_right]
    exact Int.emod_eq_of_lt (by omega) (by omega)
  · exact Int.emod_eq_of_lt (by omega) (by omega)

/-- **fft_axes_per_coil.** The axes of the FFT that `Sense` builds, `range(-img_ndim, 0)` (GENERATED `Gen.senseFftAxes`),
    on the `img_ndim + 1`-axis coil-image array are exactly the image axes: none is the coil axis 0 and every image axis
    `1 … img_ndim` occurs — the transform is applied to each coil image separately, over all its axes. -/
theorem fft_axes_per_coil (d : Int) (hd : 0 ≤ d) : fftPerCoil (Gen.senseFftAxes d) (d + 1) = true := by
  unfold fftPerCoil
  rw [Bool.and_eq_true, List.all_eq_true, List.all_eq_true]
  constructor
  · intro a ha
    unfold Gen.senseFftAxes at ha
    rw [mem_pyRange (by omega)] at ha
    have hb : -(d + 1) ≤ a ∧ a < d + 1 := by omega
    rw [pyMod_cases a (d + 1) (by omega) hb]
    simp only [bne_iff_ne, ne_eq]
    split_ifs <;> omega
  · intro i hi
    rw [mem_pyRange (by omega)] at hi
    rw [List.any_eq_true]
    unfold Gen.senseFftAxes
    first
      | refine ⟨i - (d + 1), ?_, ?_⟩
        · rw [mem_pyRange (by omega)]; omega
        · rw [pyMod_cases _ (d + 1) (by omega) (by omega)]
          simp only [beq_iff_eq]
          split_ifs <;> omega
      | refine ⟨i, ?_, ?_⟩
        · rw [mem_pyRange (by omega)]; omega
        · rw [pyMod_cases _ (d + 1) (by omega) (by omega)]
          simp only [beq_iff_eq]
          split_ifs <;> omega

section nf2
variable {α : Type} [Add α] [Mul α] [Zero α]

omit [Add α] [Mul α] [Zero α] in
theorem fkindOf_perCoil (o : SenseArgs α) (hv : Valid o) : (fkindOf o).perCoil = true := by
  unfold fkindOf
  cases o.coordNdim with
  | none =>
    simp only [FKind.perCoil]
    have := fft_axes_per_coil (o.mpsNdim - 1) (by have := hv.ndim; omega)
    rwa [Int.sub_add_cancel] at this
  | some d => cases o.transp <;> simp [FKind.perCoil]

/-- the batching guard is false when `coil_batch_size` is `None` (the default is `num_coils`) -/
theorem not_batched_default (n : Int) : Gen.senseBatched n (Gen.senseBatchDefault n) = false := by
  unfold Gen.senseBatched Gen.senseBatchDefault; simp

/-- the unbatched path of the GENERATED body is the chain `[P,] F, S` with the documented Fourier kind -/
theorem senseBody_unbatched (rec : SenseArgs α → Op α) (a : SenseArgs α)
    (hI : a.ishapeLen = none ∨ a.ishapeLen = some (a.mpsNdim - 1))
    (h : Gen.senseBatched (a.mps.length : Int) (batchOf a.mps.length a.batch) = false) :
    Gen.C16.senseBody rec a = .single (senseUnbatched (fkindOf a) a.sqrt a.mps a.F a.weights) := by
  unfold Gen.C16.senseBody
  have hb : (if a.batch.isNone then Gen.senseBatchDefault (a.mps.length : Int) else a.batch.getD 0) = batchOf a.mps.length a.batch := by
    unfold batchOf; cases a.batch <;> simp
  simp only [hb, h, Bool.false_eq_true, if_false]
  congr 1
  have hd : (if a.ishapeLen.isNone then a.mpsNdim - 1 else a.ishapeLen.getD 0) = a.mpsNdim - 1 := by
    rcases hI with h | h <;> simp [h]
  rw [hd]
  cases hw : a.weights <;> cases hc : a.coordNdim <;> cases ht : a.transp <;>
    simp [senseUnbatched, fkindOf, opMultiplyMaps, opFFT, opNUFFT, Chain.hermitian, Chain.mul, opMultiplyW, Weights.pow,
      Weights.isSome, Chain.oshape, wpow, hc, ht]

omit [Add α] [Mul α] [Zero α] in
theorem flatMap_chains_single {β : Type} (l : List β) (f : β → Op α) (g : β → Chain α)
    (h : ∀ c ∈ l, f c = .single (g c)) : (l.map f).flatMap Op.chains = l.map g := by
  induction l with
  | nil => rfl
  | cons x l ih =>
    simp only [List.map_cons, List.flatMap_cons]
    rw [h x (by simp), ih (fun c hc => h c (by simp [hc]))]
    rfl

omit [Add α] [Mul α] [Zero α] in
theorem kspNdim_gen (o : SenseArgs α) :
    Gen.senseKspNdim (o.mpsNdim - 1) (o.coordNdim.getD 0) o.coordNdim.isNone = kspNdimDoc o := by
  unfold Gen.senseKspNdim kspNdimDoc
  cases o.coordNdim <;> simp

omit [Add α] [Mul α] [Zero α] in
/-- the GENERATED per-batch weights expression: per-coil weights are sliced like the coils, anything else is passed on -/
theorem batchWeights_gen (o : SenseArgs α) (hv : Valid o) (c b : Int) :
    (if ((!(!o.weights.isSome)) && Gen.senseWeightsPerCoil o.wNdim o.wShape0 (kspNdimDoc o) (o.mps.length : Int))
      then Weights.sliceIf o.weights true (Gen.senseWLo c b o.mps.length) (Gen.senseWHi c b o.mps.length) else o.weights)
      = batchWeights o.weights c b o.mps.length := by
  have hw : Gen.senseWeightsPerCoil o.wNdim o.wShape0 (kspNdimDoc o) (o.mps.length : Int) = true ↔ ∃ m, o.weights = .perCoil m := by
    rw [← hv.wclass]; unfold Gen.senseWeightsPerCoil; simp
  cases hws : o.weights with
  | none => simp [Weights.isSome, batchWeights]
  | shared v =>
    have : Gen.senseWeightsPerCoil o.wNdim o.wShape0 (kspNdimDoc o) (o.mps.length : Int) = false := by
      rw [← Bool.not_eq_true, hw, hws]; simp
    simp [this, batchWeights]
  | perCoil m =>
    have : Gen.senseWeightsPerCoil o.wNdim o.wShape0 (kspNdimDoc o) (o.mps.length : Int) = true := hw.mpr ⟨m, hws⟩
    have hs : Gen.senseWeightsSliced = true := rfl
    simp [this, batchWeights, Weights.isSome, Weights.sliceIf, hs]

/-- **sense_gen_eq.** The translator-generated factory (`Gen.C16.senseGen`, the recursion unfolded twice) equals the
    normal form `senseNF`: unbatched `[P,] F, S`; batched `Vstack(axis=0)` of `[P_c,] F, S_c` over the coil slices, each
    batch with the same Fourier operator, `√` of ITS weights, and never batching again. -/
theorem sense_gen_eq (o : SenseArgs α) (hv : Valid o) : sense o = senseNF o := by
  unfold sense Gen.C16.senseGen senseNF
  by_cases hb : Gen.senseBatched (o.mps.length : Int) (batchOf o.mps.length o.batch) = true
  · simp only [hb, if_true]
    have hrec : ∀ a' : SenseArgs α, (a'.ishapeLen = none ∨ a'.ishapeLen = some (a'.mpsNdim - 1)) → a'.batch = none →
        Gen.C16.senseBody (fun _ => Op.single [Leaf.invalid]) a'
          = .single (senseUnbatched (fkindOf a') a'.sqrt a'.mps a'.F a'.weights) :=
      fun a' h1 h2 => senseBody_unbatched _ a' h1 (by rw [h2]; exact not_batched_default _)
    generalize Gen.C16.senseBody (α := α) (fun _ => Op.single [Leaf.invalid]) = rec' at hrec ⊢
    unfold Gen.C16.senseBody
    have hbb : (if o.batch.isNone then Gen.senseBatchDefault (o.mps.length : Int) else o.batch.getD 0) = batchOf o.mps.length o.batch := by
      unfold batchOf; cases o.batch <;> simp
    have hax : Gen.senseVstackAxis = 0 := rfl
    have hd : (if o.ishapeLen.isNone then o.mpsNdim - 1 else o.ishapeLen.getD 0) = o.mpsNdim - 1 := by
      rcases hv.ishape with h | h <;> simp [h]
    simp only [hbb, hb, if_true, hax, Op.vstackOf, hd, kspNdim_gen]
    congr 1
    apply flatMap_chains_single
    intro c _
    rw [hrec _ (Or.inr rfl) rfl]
    simp only [batchWeights_gen o hv]
    rfl
  · have hb' : Gen.senseBatched (o.mps.length : Int) (batchOf o.mps.length o.batch) = false := by simpa using hb
    rw [senseBody_unbatched _ o hv.ishape hb']
    simp only [hb', Bool.false_eq_true, if_false]

end nf2

section operator
variable {α : Type} [CommSemiring α]

/-- explicit encoding of one coil: `out[k] = Σ_r F[k,r] · (m[r] · x[r])` -/
def encode (F : Mat α) (x m : Vec α) : Vec α := F.map fun frow => dot frow (vmul m x)

/-- the documented operator, coil by coil:
    `out[c,k] = √w[c,k] · Σ_r F[k,r] · mps[c,r] · x[r]` (`√w[k]` when the weights have no coil axis) -/
def explicitSense (sqrt : α → α) (F : Mat α) (w : Weights α) (mps : Mat α) (x : Vec α) : Mat α :=
  match w with
  | .none => mps.map (encode F x)
  | .shared w => mps.map fun m => vmul (w.map (wpow sqrt)) (encode F x m)
  | .perCoil w => List.zipWith (fun wr m => vmul (wr.map (wpow sqrt)) (encode F x m)) w mps

theorem flatten_map_map {β γ δ : Type} (l : List β) (f : β → List γ) (h : γ → δ) :
    (l.map fun c => (f c).map h).flatten = ((l.map f).flatten).map h := by
  simp [List.map_flatten, List.map_map, Function.comp_def]

theorem sum_map_sum {β : Type} (l : List β) (f : β → List α) :
    (l.map fun c => (f c).sum).sum = ((l.map f).flatten).sum := by
  simp [List.sum_flatten, List.map_map, Function.comp_def]

theorem unbatched_apply (kind : FKind) (hk : kind.perCoil = true) (sqrt : α → α) (mps F : Mat α) (w : Weights α) (X : Mat α) :
    (senseUnbatched kind sqrt mps F w).apply X = explicitSense sqrt F w mps (X.headD []) := by
  cases w with
  | none => simp [hk, senseUnbatched, Chain.apply, Leaf.apply, explicitSense, encode, List.map_map, Function.comp_def]
  | shared w => simp [hk, senseUnbatched, Chain.apply, Leaf.apply, explicitSense, encode, List.map_map, Function.comp_def]
  | perCoil w =>
    simp [hk, senseUnbatched, Chain.apply, Leaf.apply, explicitSense, encode, List.map_map, Function.comp_def,
      List.zipWith_map_left, List.zipWith_map_right]

/-- the weights square root is what the source applies (`weights ** 0.5`) -/
theorem weights_exponent_is_half : Gen.senseWeightsExp = (1 : Rat) / 2 := by
  unfold Gen.senseWeightsExp; rfl

omit [CommSemiring α] in
theorem wpow_eq_sqrt [Add α] [Mul α] [Zero α] (sqrt : α → α) (w : α) : wpow sqrt w = sqrt w := by
  unfold wpow wpowE; rw [if_pos weights_exponent_is_half]

/-- **sense_denote.** Without batching, `Sense(mps, weights)(x)` is the explicit multi-coil encoding:
    `out[c,k] = √w[k]·Σ_r F[k,r]·mps[c,r]·x[r]` for an arbitrary linear Fourier stage `F`. -/
theorem sense_denote (o : SenseOpts α) (hv : Valid o) (x : Vec α) :
    (sense { o with batch := none }).apply [x] = explicitSense o.sqrt o.F o.weights o.mps x := by
  rw [sense_gen_eq _ (hv.withBatch none)]
  unfold senseNF batchOf
  simp only [not_batched_default, Bool.false_eq_true, if_false, Op.apply]
  rw [unbatched_apply _ (fkindOf_perCoil _ (hv.withBatch none))]; rfl

/-- the weights slice uses the same bounds as the coil slice -/
theorem weights_sliced_with_coils : Gen.senseWeightsSliced = true ∧
    (∀ c b n, Gen.senseWLo c b n = Gen.senseMpsLo c b n) ∧ (∀ c b n, Gen.senseWHi c b n = Gen.senseMpsHi c b n) :=
  ⟨rfl, fun _ _ _ => by unfold Gen.senseWLo Gen.senseMpsLo; ring, fun _ _ _ => by unfold Gen.senseWHi Gen.senseMpsHi; ring⟩

/-- each batch is built with everything but `coil_batch_size`/`comm`: the batched branch forwards
    `coord`, `weights`, `tseg`, `ishape` and `transp_nufft` (the pre-fix code dropped two of them) -/
theorem batch_forwards_all : Gen.senseBatchKw = ["coord", "ishape", "transp_nufft", "tseg", "weights"] ∧
    Gen.senseVstackAxis = 0 := ⟨rfl, rfl⟩

/-- forward value of the batched operator: the concatenation over the batches of the explicit encoding of
    the batch's coils -/
theorem batched_apply (o : SenseOpts α) (hv : Valid o) (B : Nat) (x : Vec α) (hb : Gen.senseBatched (o.mps.length : Int) B = true) :
    (sense { o with batch := some (B : Int) }).apply [x] =
      ((Gen.senseBatchRange (Gen.senseNumCoilBatches o.mps.length B) o.mps.length B).map fun c =>
        explicitSense o.sqrt o.F (batchWeights o.weights c B o.mps.length)
          (pySlice o.mps (Gen.senseMpsLo c B o.mps.length) (Gen.senseMpsHi c B o.mps.length)) x).flatten := by
  rw [sense_gen_eq _ (hv.withBatch _)]
  unfold senseNF batchOf
  simp only [hb, if_true, Op.apply, List.map_map]
  congr 1
  apply List.map_congr_left
  intro c _
  simp only [Function.comp, unbatched_apply _ (fkindOf_perCoil _ (hv.withBatch (some (B : Int))))]; rfl

/-- **sense_batch_invariant (forward).** For EVERY batch size `b ≥ 1` (dividing the number of coils or not,
    larger than it or not) the batched operator — `Vstack(axis=0)` of the per-batch `Sense` operators on the
    coil slices `mps[c·b:(c+1)·b]`, `c < ⌈n/b⌉` — has the same value as the unbatched one, with no weights,
    with k-space-shaped weights shared by the batches, and with per-coil weights sliced like the coils. -/
theorem sense_batch_invariant (o : SenseOpts α) (hv : Valid o) (B : Nat) (hB : 0 < B) (x : Vec α) :
    (sense { o with batch := some (B : Int) }).apply [x] = (sense { o with batch := none }).apply [x] := by
  rw [sense_denote _ hv]
  by_cases hb : Gen.senseBatched (o.mps.length : Int) B = true
  · rw [batched_apply o hv B x hb]
    cases hw : o.weights with
    | none =>
      simp only [batchWeights, explicitSense]
      rw [flatten_map_map, batch_slices_partition _ _ _ hB (le_refl _)]
    | shared w =>
      simp only [batchWeights, explicitSense]
      rw [flatten_map_map, batch_slices_partition _ _ _ hB (le_refl _)]
    | perCoil w =>
      simp only [batchWeights, weights_sliced_with_coils.1, if_true, explicitSense,
        weights_sliced_with_coils.2.1, weights_sliced_with_coils.2.2, pySlice_zipWith]
      exact batch_slices_partition _ _ _ hB (by simp [List.length_zipWith])
  · rw [sense_gen_eq _ (hv.withBatch _)]
    unfold senseNF batchOf
    simp only [hb, Bool.false_eq_true, if_false, Op.apply]
    rw [unbatched_apply _ (fkindOf_perCoil _ (hv.withBatch (some (B : Int))))]; rfl

/-- **sense_batch_partition.** The coil slices `[c·b, min((c+1)·b, n))`, `c < ⌈n/b⌉`, computed by the
    generated slice-bound formulas list the coils `0..n-1` in order, each once — for all `n` and `b ≥ 1`. -/
theorem sense_batch_partition (n B : Nat) (hB : 0 < B) (hb : Gen.senseBatched (n : Int) B = true) :
    (batchCoils (n : Int) (some (B : Int))).flatten = pyRange0 n := by
  unfold batchCoils batchOf
  simp only [hb, if_true]
  apply batch_slices_partition _ _ _ hB
  rw [pyRange0, pyRange0_eq]; simp

/-- every batch is non-empty (no zero-coil operator is ever built): `c·b < n` for `c < ⌈n/b⌉` -/
theorem sense_batches_nonempty (n B : Nat) (hB : 0 < B) (c : Int)
    (hc : c ∈ Gen.senseBatchRange (Gen.senseNumCoilBatches n B) n B) :
    0 ≤ Gen.senseMpsLo c B n ∧ Gen.senseMpsLo c B n < n := by
  unfold Gen.senseBatchRange at hc
  rw [mem_pyRange0'] at hc
  rw [(senseMps_lo_hi _ _ _).1]
  obtain ⟨h0, h1⟩ := hc
  have hBz : (0 : Int) < B := by exact_mod_cast hB
  -- only the CHARACTERISATION of the generated `num_coil_batches` is used (not its shape)
  obtain ⟨hq, _⟩ := numCoilBatches_char n B hBz
  refine ⟨by positivity, ?_⟩
  have h2 := mul_le_mul_of_nonneg_right (show c ≤ Gen.senseNumCoilBatches n B - 1 by omega) hBz.le
  linarith

/-- **sense_adjoint_batch_sum_partial.** The adjoint of the batched operator is `Hstack` of the batch
    adjoints: a sum over batches of the per-batch sums `Σ_{c ∈ batch} t(mps_c, y_c)`.  For every per-coil
    contribution `t` that sum over the generated slices equals the single sum over all coils.  (Sum form only;
    SUPERSEDED by `sense_adjoint_batch_invariant` below, which identifies `Op.adj` of the model — Vstack.H = Hstack
    with the row split — with these sums and proves the full statement.  Kept because it is audited by name.) -/
theorem sense_adjoint_batch_sum_partial {β γ : Type} (t : β → γ → α) (mps : List β) (y : List γ) (B : Nat) (hB : 0 < B) :
    ((Gen.senseBatchRange (Gen.senseNumCoilBatches mps.length B) mps.length B).map fun c =>
      (List.zipWith t (pySlice mps (Gen.senseMpsLo c B mps.length) (Gen.senseMpsHi c B mps.length))
        (pySlice y (Gen.senseMpsLo c B mps.length) (Gen.senseMpsHi c B mps.length))).sum).sum
      = (List.zipWith t mps y).sum := by
  simp only [pySlice_zipWith]
  rw [sum_map_sum, batch_slices_partition _ _ _ hB (by simp [List.length_zipWith])]

end operator

/-! ### the adjoint -/

section adjoint
variable {α : Type} [CommSemiring α]

/-- `Fᴴ` of the matrix `F` on one k-space row (conjugate transpose): `(Fᴴ y)[r] = Σ_k conj F[k,r] · y[k]`
    — literally what `Leaf.adj` (the definition the driver runs) computes for the Fourier leaf -/
def fourierAdjRow (conj : α → α) (R : Nat) (F : Mat α) (row : Vec α) : Vec α :=
  (List.range R).map fun r => (List.zipWith (fun (frow : Vec α) (yk : α) => conj (frow.getD r 0) * yk) F row).sum

/-- `P.H` on one row: multiply by `conj √w` (no weights: identity) -/
def weighRow (conj : α → α) (sw : Option (Vec α)) (row : Vec α) : Vec α :=
  match sw with
  | none => row
  | some s => vmul (s.map conj) row

/-- per coil: its sensitivity map and its `√w` row -/
def coilData (sqrt : α → α) (w : Weights α) (mps : Mat α) : List (Vec α × Option (Vec α)) :=
  match w with
  | .none => mps.map fun m => (m, none)
  | .shared w => mps.map fun m => (m, some (w.map (wpow sqrt)))
  | .perCoil w => List.zipWith (fun m wr => (m, some (wr.map (wpow sqrt)))) mps w

/-- contribution of one coil to image position `r`: `conj(mps_c[r]) · Fᴴ(conj(√w_c) ⊙ y_c)[r]`, for an ABSTRACT
    `Fᴴ : k-space row → image` -/
def coilAdjTerm (conj : α → α) (FH : Vec α → Vec α) (r : Nat) (cd : Vec α × Option (Vec α)) (y : Vec α) : α :=
  conj (cd.1.getD r 0) * (FH (weighRow conj cd.2 y)).getD r 0

/-- the documented adjoint `y ↦ Σ_c conj(mps_c) ⊙ Fᴴ(√w_c ⊙ y_c)` -/
def explicitAdjoint (conj : α → α) (FH : Vec α → Vec α) (R : Nat) (coils : List (Vec α × Option (Vec α))) (Y : Mat α) : Vec α :=
  (List.range R).map fun r => (List.zipWith (coilAdjTerm conj FH r) coils Y).sum

theorem unbatched_adj (kind : FKind) (hk : kind.perCoil = true) (conj sqrt : α → α) (mps F : Mat α) (w : Weights α) (Y : Mat α) :
    (senseUnbatched kind sqrt mps F w).adj conj Y =
      [explicitAdjoint conj (fourierAdjRow conj (mps.headD []).length F) (mps.headD []).length (coilData sqrt w mps) Y] := by
  cases w with
  | none =>
    simp [hk, senseUnbatched, Chain.adj, Leaf.adj, explicitAdjoint, coilData, coilAdjTerm, weighRow, fourierAdjRow,
      List.zipWith_map_left, List.zipWith_map_right]
  | shared w =>
    simp [hk, senseUnbatched, Chain.adj, Leaf.adj, explicitAdjoint, coilData, coilAdjTerm, weighRow, fourierAdjRow,
      List.zipWith_map_left, List.zipWith_map_right]
  | perCoil w =>
    simp only [hk, if_true, senseUnbatched, Chain.adj, Leaf.adj, explicitAdjoint, coilData, List.foldl_cons, List.foldl_nil,
      List.zipWith_map_left, List.map_zipWith, List.cons.injEq, and_true]
    apply List.map_congr_left
    intro r _
    have h : List.zipWith (fun (m wr : Vec α) => (m, some (List.map (wpow sqrt) wr))) mps w
        = (List.zipWith Prod.mk mps w).map (fun p => (p.1, some (p.2.map (wpow sqrt)))) := by
      rw [List.map_zipWith]
    rw [zipWith_zipWith_pair, h, List.zipWith_map_left]
    simp [coilAdjTerm, weighRow, fourierAdjRow]

/-- **sense_adjoint_denote.** Without batching `Sense(mps, weights).H(y)` is
    `Σ_c conj(mps_c) ⊙ Fᴴ(conj(√w_c) ⊙ y_c)` with `Fᴴ` the conjugate transpose of the Fourier matrix. -/
theorem sense_adjoint_denote (conj : α → α) (o : SenseOpts α) (hv : Valid o) (Y : Mat α) :
    (sense { o with batch := none }).adj conj Y =
      [explicitAdjoint conj (fourierAdjRow conj (o.mps.headD []).length o.F) (o.mps.headD []).length
        (coilData o.sqrt o.weights o.mps) Y] := by
  rw [sense_gen_eq _ (hv.withBatch none)]
  unfold senseNF batchOf
  simp only [not_batched_default, Bool.false_eq_true, if_false, Op.adj]
  exact unbatched_adj _ (fkindOf_perCoil _ (hv.withBatch none)) conj o.sqrt o.mps o.F o.weights Y

/-- **vstack_adjoint (Vstack.H = Hstack of the adjoints).**  If every stacked chain `mk c` has the adjoint
    `y ↦ Σ_{coils of c} conj(mps)·Fᴴ(√w·y)` over its own coils `sl c` and as many rows as coils, then the
    adjoint of `Vstack(axis=0)` — split `Y` by the chains' row counts, apply the adjoints, sum — is the
    adjoint formula over the CONCATENATED coils.  `FH` is an arbitrary map (no linearity needed). -/
theorem vstack_adjoint {ι : Type} (conj : α → α) (FH : Vec α → Vec α) (R : Nat) (batches : List ι)
    (mk : ι → Chain α) (sl : ι → List (Vec α × Option (Vec α)))
    (hadj : ∀ c ∈ batches, ∀ y, (mk c).adj conj y = [explicitAdjoint conj FH R (sl c) y])
    (hrows : ∀ c ∈ batches, (mk c).rows = (sl c).length)
    (hR : ((batches.map mk).headD []).imgLen = R) (Y : Mat α) :
    (Op.vstack (batches.map mk)).adj conj Y = [explicitAdjoint conj FH R (batches.map sl).flatten Y] := by
  simp only [Op.adj, hR, explicitAdjoint, List.cons.injEq, and_true]
  apply List.map_congr_left
  intro r hr
  have hr' : r < R := List.mem_range.mp hr
  rw [← splitRows_zip_sum, List.map_map, List.map_map, List.zipWith_map_left, List.zipWith_map_left, List.map_zipWith]
  have hlen : List.map (Chain.rows ∘ mk) batches = List.map (List.length ∘ sl) batches := by
    apply List.map_congr_left
    intro c hc
    exact hrows c hc
  rw [hlen]
  congr 1
  apply zipWith_congr_mem
  intro c hc y
  rw [hadj c hc y]
  simp only [explicitAdjoint, List.headD_cons]
  rw [getD_range_map_lt _ _ _ hr']

omit [CommSemiring α] in
theorem coilData_length (sqrt : α → α) (w : Weights α) (mps : Mat α)
    (hw : ∀ wc, w = .perCoil wc → wc.length = mps.length) : (coilData sqrt w mps).length = mps.length := by
  cases w with
  | none => simp [coilData]
  | shared w => simp [coilData]
  | perCoil wc => simp [coilData, hw wc rfl]

omit [CommSemiring α] in
/-- the coils (map + weight row) handed to batch `c` are the slice `[c·b, (c+1)·b)` of all coils -/
theorem coilData_batch (sqrt : α → α) (w : Weights α) (mps : Mat α) (c b n : Int) :
    coilData sqrt (batchWeights w c b n) (pySlice mps (Gen.senseMpsLo c b n) (Gen.senseMpsHi c b n))
      = pySlice (coilData sqrt w mps) (Gen.senseMpsLo c b n) (Gen.senseMpsHi c b n) := by
  cases w with
  | none => simp only [coilData, batchWeights, pySlice_map]
  | shared w => simp only [coilData, batchWeights, pySlice_map]
  | perCoil wc =>
    simp only [coilData, batchWeights, weights_sliced_with_coils.1, if_true, weights_sliced_with_coils.2.1,
      weights_sliced_with_coils.2.2, pySlice_zipWith]

omit [CommSemiring α] in
theorem unbatched_rows [Add α] [Mul α] [Zero α] (kind : FKind) (sqrt : α → α) (mps F : Mat α) (w : Weights α) :
    (senseUnbatched kind sqrt mps F w).rows = mps.length ∧ (senseUnbatched kind sqrt mps F w).imgLen = (mps.headD []).length := by
  cases w <;> simp [senseUnbatched, Chain.rows, Chain.imgLen]

/-- a non-empty slice of a rectangular coil array starts with a row of the common length -/
theorem pySlice_head_length {β : Type} (mps : List (List β)) (R : Nat) (hrect : ∀ m ∈ mps, m.length = R) (lo hi : Int)
    (hne : pySlice mps lo hi ≠ []) : ((pySlice mps lo hi).headD []).length = R := by
  cases hs : pySlice mps lo hi with
  | nil => exact absurd hs hne
  | cons a l =>
    have : a ∈ pySlice mps lo hi := by rw [hs]; simp
    unfold pySlice at this
    exact hrect a (List.mem_of_mem_drop (List.mem_of_mem_take this))

/-- **sense_adjoint_batch_invariant.** For EVERY batch size `b ≥ 1` the adjoint of the batched operator —
    `Vstack(axis=0).H = Hstack`: split the k-space rows by the batches' coil counts, apply each batch's
    `Sense(mps[c·b:(c+1)·b], weights-of-batch).H`, sum the images — equals the adjoint of the unbatched operator
    `y ↦ Σ_c conj(mps_c) ⊙ Fᴴ(conj √w_c ⊙ y_c)`, with no weights, k-space-shaped weights shared by the batches, and
    per-coil weights sliced like the coils.  `Op.adj` is the definition the driver runs against the real `A.H(y)`.
    Hypotheses = the arrays are arrays: every coil map has `R` entries, per-coil weights have one row per coil. -/
theorem sense_adjoint_batch_invariant (conj : α → α) (o : SenseOpts α) (hv : Valid o) (B : Nat) (hB : 0 < B) (R : Nat)
    (hrect : ∀ m ∈ o.mps, m.length = R) (hw : ∀ wc, o.weights = .perCoil wc → wc.length = o.mps.length) (Y : Mat α) :
    (sense { o with batch := some (B : Int) }).adj conj Y = (sense { o with batch := none }).adj conj Y := by
  rw [sense_adjoint_denote _ _ hv]
  have hkind := fkindOf_perCoil _ (hv.withBatch (some (B : Int)))
  by_cases hb : Gen.senseBatched (o.mps.length : Int) B = true
  · have hpart := batch_slices_partition (coilData o.sqrt o.weights o.mps) o.mps.length B hB
      (le_of_eq (coilData_length _ _ _ hw))
    have hn : (B : Int) < o.mps.length := by simpa [Gen.senseBatched] using hb
    have hne : o.mps ≠ [] := by intro h; rw [h] at hn; simp at hn; omega
    have hR0 : (o.mps.headD []).length = R := by
      cases hm : o.mps with
      | nil => exact absurd hm hne
      | cons a l => exact hrect a (by rw [hm]; simp)
    -- every batch is non-empty
    have hslice : ∀ c ∈ Gen.senseBatchRange (Gen.senseNumCoilBatches o.mps.length B) o.mps.length B,
        pySlice o.mps (Gen.senseMpsLo c B o.mps.length) (Gen.senseMpsHi c B o.mps.length) ≠ [] := by
      intro c hc
      have h1 := sense_batches_nonempty o.mps.length B hB c hc
      rw [(senseMps_lo_hi _ _ _).1] at h1
      intro h
      have := congrArg List.length h
      rw [pySlice_length, (senseMps_lo_hi _ _ _).1, (senseMps_lo_hi _ _ _).2] at this
      have e1 : ((c + 1) * (B : Int)).toNat - (c * (B : Int)).toNat = B := by
        have : (c + 1) * (B : Int) = c * B + B := by ring
        omega
      rw [e1] at this
      simp only [List.length_nil] at this
      omega
    rw [sense_gen_eq _ (hv.withBatch _)]
    unfold senseNF batchOf
    simp only [hb, if_true]
    rw [vstack_adjoint conj (fourierAdjRow conj R o.F) R _ _
      (fun c => pySlice (coilData o.sqrt o.weights o.mps) (Gen.senseMpsLo c B o.mps.length) (Gen.senseMpsHi c B o.mps.length))
      ?_ ?_ ?_ Y, hpart, hR0]
    · intro c hc y
      rw [unbatched_adj _ hkind, coilData_batch, pySlice_head_length o.mps R hrect _ _ (hslice c hc)]
    · intro c hc
      rw [(unbatched_rows _ _ _ _ _).1]
      exact pySlice_length_congr _ _ (coilData_length _ _ _ hw).symm _ _
    · cases hbs : Gen.senseBatchRange (Gen.senseNumCoilBatches o.mps.length B) o.mps.length B with
      | nil =>
        rw [hbs] at hpart
        simp only [List.map_nil, List.flatten_nil] at hpart
        have := congrArg List.length hpart
        rw [coilData_length _ _ _ hw] at this
        simp only [List.length_nil] at this
        exact absurd (List.length_eq_zero_iff.mp this.symm) hne
      | cons c0 rest =>
        simp only [List.map_cons, List.headD_cons]
        rw [(unbatched_rows _ _ _ _ _).2]
        exact pySlice_head_length o.mps R hrect _ _ (hslice c0 (by rw [hbs]; simp))
  · rw [sense_gen_eq _ (hv.withBatch _)]
    unfold senseNF batchOf
    simp only [hb, Bool.false_eq_true, if_false, Op.adj]
    exact unbatched_adj _ hkind conj o.sqrt o.mps o.F o.weights Y

end adjoint

/-! ### index-wise denotation and the adjoint identity (dot test) -/

section indexwise
variable {α : Type} [CommSemiring α]

/-- `√w[c,k]` (`1` without weights, `√w[k]` for weights without a coil axis) -/
def swAt (sqrt : α → α) (w : Weights α) (c k : Nat) : α :=
  match w with
  | .none => 1
  | .shared w => wpow sqrt (w.getD k 0)
  | .perCoil wc => wpow sqrt ((wc.getD c []).getD k 0)

/-- the request is a well-shaped set of arrays: `mps : n × R`, `F : K × R`, weights `K` or `n × K` -/
structure Shaped (o : SenseOpts α) (n R K : Nat) : Prop where
  mpsRows : o.mps.length = n
  mpsRect : ∀ m ∈ o.mps, m.length = R
  fRows : o.F.length = K
  fRect : ∀ f ∈ o.F, f.length = R
  wShared : ∀ w, o.weights = .shared w → w.length = K
  wCoilRows : ∀ wc, o.weights = .perCoil wc → wc.length = n
  wCoilRect : ∀ wc, o.weights = .perCoil wc → ∀ row ∈ wc, row.length = K

theorem getD_mem {β : Type} (l : List β) (i : Nat) (h : i < l.length) (d : β) : l.getD i d ∈ l := by
  rw [getD_of_lt _ _ h]; exact List.getElem_mem h

theorem vmul_getD (a b : Vec α) (n i : Nat) (ha : a.length = n) (hb : b.length = n) (hi : i < n) :
    (vmul a b).getD i 0 = a.getD i 0 * b.getD i 0 := by
  unfold vmul
  exact getD_zipWith_lt _ a b i (by omega) (by omega) 0 0 0

theorem vmul_length (a b : Vec α) (n : Nat) (ha : a.length = n) (hb : b.length = n) : (vmul a b).length = n := by
  unfold vmul; simp [ha, hb]

theorem encode_length (F : Mat α) (x m : Vec α) : (encode F x m).length = F.length := by
  unfold encode; simp

theorem encode_getD (F : Mat α) (x m : Vec α) (R k : Nat) (hk : k < F.length) (hF : ∀ f ∈ F, f.length = R)
    (hm : m.length = R) (hx : x.length = R) :
    (encode F x m).getD k 0 = ∑ r ∈ Finset.range R, (F.getD k []).getD r 0 * (m.getD r 0 * x.getD r 0) := by
  unfold encode
  rw [getD_map_lt _ F k hk 0 [], dot, vmul,
    zipWith_sum_eq_range _ _ _ R (hF _ (getD_mem F k hk [])) (vmul_length m x R hm hx) 0 0]
  apply Finset.sum_congr rfl
  intro r hr
  rw [vmul_getD m x R r hm hx (Finset.mem_range.mp hr)]

/-- **sense_denote_index.** Index-wise form of `sense_denote`: for a `K × R` Fourier matrix `F`,
    `Sense(mps, weights)(x)[c, k] = √w[c,k] · Σ_r F[k,r] · mps[c,r] · x[r]` for every coil `c < n` and k-space
    position `k < K` (`√w[k]` for weights without a coil axis, `1` without weights). -/
theorem sense_denote_index (o : SenseOpts α) (hv : Valid o) (x : Vec α) (n R K : Nat) (hs : Shaped o n R K) (hx : x.length = R)
    (c k : Nat) (hc : c < n) (hk : k < K) :
    (((sense { o with batch := none }).apply [x]).getD c []).getD k 0 =
      swAt o.sqrt o.weights c k *
        ∑ r ∈ Finset.range R, (o.F.getD k []).getD r 0 * ((o.mps.getD c []).getD r 0 * x.getD r 0) := by
  rw [sense_denote _ hv]
  have hcm : c < o.mps.length := by rw [hs.mpsRows]; exact hc
  have hkF : k < o.F.length := by rw [hs.fRows]; exact hk
  have hm := hs.mpsRect _ (getD_mem o.mps c hcm [])
  cases hw : o.weights with
  | none =>
    simp only [explicitSense, swAt, one_mul]
    rw [getD_map_lt _ o.mps c hcm [] [], encode_getD o.F x _ R k hkF hs.fRect hm hx]
  | shared w =>
    simp only [explicitSense, swAt]
    rw [getD_map_lt _ o.mps c hcm [] [], vmul_getD _ _ K k (by simp [hs.wShared w hw]) (by rw [encode_length, hs.fRows]) hk,
      getD_map_lt _ w k (by rw [hs.wShared w hw]; exact hk) 0 0, encode_getD o.F x _ R k hkF hs.fRect hm hx]
  | perCoil wc =>
    simp only [explicitSense, swAt]
    have hcw : c < wc.length := by rw [hs.wCoilRows wc hw]; exact hc
    have hrow := hs.wCoilRect wc hw _ (getD_mem wc c hcw [])
    rw [getD_zipWith_lt _ wc o.mps c hcw hcm [] [] [], vmul_getD _ _ K k (by rw [List.length_map, hrow]) (by rw [encode_length, hs.fRows]) hk,
      getD_map_lt _ _ k (by rw [hrow]; exact hk) 0 0, encode_getD o.F x _ R k hkF hs.fRect hm hx]

end indexwise

section dot
variable {α : Type} [CommSemiring α] [StarRing α]

/-- **sense_dot_test_abstract.** For an ABSTRACT Fourier stage `F` (any map: linearity is not needed) and an
    abstract `Fᴴ` with `⟨F u, v⟩ = ⟨u, Fᴴ v⟩`, the operator `A x = (√w_c ⊙ F(mps_c ⊙ x))_c` and
    `Aᴴ y = Σ_c conj(mps_c) ⊙ Fᴴ(conj √w_c ⊙ y_c)` satisfy `⟨A x, y⟩ = ⟨x, Aᴴ y⟩`
    (`⟨a, b⟩ = Σ a·conj b`; over `ℂ`, `star = conj`). -/
theorem sense_dot_test_abstract {C Kt Rt : Type} (sC : Finset C) (sK : Finset Kt) (sR : Finset Rt)
    (F : (Rt → α) → (Kt → α)) (FH : (Kt → α) → (Rt → α))
    (hF : ∀ u v, ∑ k ∈ sK, F u k * star (v k) = ∑ r ∈ sR, u r * star (FH v r))
    (m : C → Rt → α) (sw : C → Kt → α) (x : Rt → α) (y : C → Kt → α) :
    ∑ c ∈ sC, ∑ k ∈ sK, (sw c k * F (fun r => m c r * x r) k) * star (y c k) =
      ∑ r ∈ sR, x r * star (∑ c ∈ sC, star (m c r) * FH (fun k => star (sw c k) * y c k) r) := by
  have h1 : ∀ c ∈ sC, ∑ k ∈ sK, (sw c k * F (fun r => m c r * x r) k) * star (y c k)
      = ∑ r ∈ sR, x r * (m c r * star (FH (fun k => star (sw c k) * y c k) r)) := by
    intro c _
    rw [← Finset.sum_congr rfl (fun r _ => (mul_assoc (m c r) (x r) _).trans (mul_left_comm (m c r) (x r) _)),
      ← hF (fun r => m c r * x r) (fun k => star (sw c k) * y c k)]
    apply Finset.sum_congr rfl
    intro k _
    rw [star_mul', star_star]; ring
  rw [Finset.sum_congr rfl h1, Finset.sum_comm]
  apply Finset.sum_congr rfl
  intro r _
  rw [star_sum, Finset.mul_sum]
  apply Finset.sum_congr rfl
  intro c _
  rw [star_mul', star_star]

/-- the conjugate transpose of a matrix satisfies the adjoint identity -/
theorem matrix_adjoint_identity {Kt Rt : Type} (sK : Finset Kt) (sR : Finset Rt) (Fm : Kt → Rt → α) (u : Rt → α) (v : Kt → α) :
    ∑ k ∈ sK, (∑ r ∈ sR, Fm k r * u r) * star (v k) = ∑ r ∈ sR, u r * star (∑ k ∈ sK, star (Fm k r) * v k) := by
  simp only [Finset.sum_mul, star_sum, Finset.mul_sum, star_mul', star_star]
  rw [Finset.sum_comm]
  apply Finset.sum_congr rfl; intro r _
  apply Finset.sum_congr rfl; intro k _
  ring

/-- the `√w` row of coil `c` -/
def swRow (sqrt : α → α) (w : Weights α) (c : Nat) : Option (Vec α) :=
  match w with
  | .none => none
  | .shared w => some (w.map (wpow sqrt))
  | .perCoil wc => some ((wc.getD c []).map (wpow sqrt))

omit [CommSemiring α] [StarRing α] in
theorem coilData_getD (o : SenseOpts α) (n R K : Nat) (hs : Shaped o n R K) (c : Nat) (hc : c < n) :
    (coilData o.sqrt o.weights o.mps).getD c ([], none) = (o.mps.getD c [], swRow o.sqrt o.weights c) := by
  have hcm : c < o.mps.length := by rw [hs.mpsRows]; exact hc
  cases hw : o.weights with
  | none => simp only [coilData, swRow]; rw [getD_map_lt _ o.mps c hcm _ []]
  | shared w => simp only [coilData, swRow]; rw [getD_map_lt _ o.mps c hcm _ []]
  | perCoil wc =>
    simp only [coilData, swRow]
    rw [getD_zipWith_lt _ o.mps wc c hcm (by rw [hs.wCoilRows wc hw]; exact hc) _ [] []]

theorem weighRow_spec (o : SenseOpts α) (n R K : Nat) (hs : Shaped o n R K) (c : Nat) (hc : c < n) (y : Vec α) (hy : y.length = K) :
    (weighRow star (swRow o.sqrt o.weights c) y).length = K ∧
    ∀ k, k < K → (weighRow star (swRow o.sqrt o.weights c) y).getD k 0 = star (swAt o.sqrt o.weights c k) * y.getD k 0 := by
  cases hw : o.weights with
  | none => simp [weighRow, swRow, swAt, hy]
  | shared w =>
    have hl : (List.map star (List.map (wpow o.sqrt) w)).length = K := by simp [hs.wShared w hw]
    refine ⟨vmul_length _ _ K hl hy, fun k hk => ?_⟩
    simp only [weighRow, swRow, swAt]
    rw [vmul_getD _ _ K k hl hy hk, getD_map_lt _ _ k (by rw [List.length_map, hs.wShared w hw]; exact hk) 0 0,
      getD_map_lt _ w k (by rw [hs.wShared w hw]; exact hk) 0 0]
  | perCoil wc =>
    have hcw : c < wc.length := by rw [hs.wCoilRows wc hw]; exact hc
    have hrow := hs.wCoilRect wc hw _ (getD_mem wc c hcw [])
    have hl : (List.map star (List.map (wpow o.sqrt) (wc.getD c []))).length = K := by
      rw [List.length_map, List.length_map, hrow]
    refine ⟨vmul_length _ _ K hl hy, fun k hk => ?_⟩
    simp only [weighRow, swRow, swAt]
    rw [vmul_getD _ _ K k hl hy hk, getD_map_lt _ _ k (by rw [List.length_map, hrow]; exact hk) 0 0,
      getD_map_lt _ _ k (by rw [hrow]; exact hk) 0 0]

/-- **sense_adjoint_index.** Index-wise form of the adjoint the driver runs (`Op.adj` with `conj = star`):
    `Sense(mps, weights).H(y)[r] = Σ_c conj(mps[c,r]) · Σ_k conj(F[k,r]) · conj(√w[c,k]) · y[c,k]`. -/
theorem sense_adjoint_index (o : SenseOpts α) (hv : Valid o) (Y : Mat α) (n R K : Nat) (hs : Shaped o n R K)
    (hY : Y.length = n) (hYr : ∀ row ∈ Y, row.length = K) (r : Nat) (hr : r < R) :
    (((sense { o with batch := none }).adj star Y).headD []).getD r 0 =
      ∑ c ∈ Finset.range n, star ((o.mps.getD c []).getD r 0) *
        ∑ k ∈ Finset.range K, star ((o.F.getD k []).getD r 0) * (star (swAt o.sqrt o.weights c k) * (Y.getD c []).getD k 0) := by
  rw [sense_adjoint_denote _ _ hv]
  simp only [List.headD_cons]
  by_cases hn : n = 0
  · subst hn
    have : o.mps = [] := List.length_eq_zero_iff.mp hs.mpsRows
    simp [this, explicitAdjoint]
  · have hR0 : (o.mps.headD []).length = R := by
      cases hm : o.mps with
      | nil => have h0 := hs.mpsRows; rw [hm] at h0; simp at h0; omega
      | cons a l => exact hs.mpsRect a (by rw [hm]; simp)
    rw [hR0]
    unfold explicitAdjoint
    rw [getD_range_map_lt _ _ _ hr,
      zipWith_sum_eq_range _ _ _ n ((coilData_length _ _ _ (fun wc hw => (hs.wCoilRows wc hw).trans hs.mpsRows.symm)).trans hs.mpsRows)
        hY ([], none) []]
    apply Finset.sum_congr rfl
    intro c hc
    have hc' : c < n := Finset.mem_range.mp hc
    have hy := hYr _ (getD_mem Y c (by rw [hY]; exact hc') [])
    obtain ⟨hwl, hwk⟩ := weighRow_spec o n R K hs c hc' (Y.getD c []) hy
    rw [coilData_getD o n R K hs c hc']
    simp only [coilAdjTerm, fourierAdjRow]
    rw [getD_range_map_lt _ _ _ hr, zipWith_sum_eq_range _ _ _ K hs.fRows hwl [] 0]
    congr 1
    apply Finset.sum_congr rfl
    intro k hk
    rw [hwk k (Finset.mem_range.mp hk)]

/-- **sense_dot_test.** The adjoint identity for the model the driver runs, over any commutative `*`-ring (`ℂ`
    with `star = conj`): `⟨A x, y⟩ = ⟨x, Aᴴ y⟩`, i.e.
    `Σ_{c<n,k<K} (A x)[c,k]·conj y[c,k] = Σ_{r<R} x[r]·conj (Aᴴ y)[r]`, for the unbatched operator and — by
    `sense_batch_invariant` / `sense_adjoint_batch_invariant` — for EVERY `coil_batch_size ≥ 1`. -/
theorem sense_dot_test (o : SenseOpts α) (hv : Valid o) (x : Vec α) (Y : Mat α) (n R K : Nat) (hs : Shaped o n R K) (hx : x.length = R)
    (hY : Y.length = n) (hYr : ∀ row ∈ Y, row.length = K) (b : Option Nat) (hb : ∀ B, b = some B → 0 < B) :
    let A := sense { o with batch := b.map Int.ofNat }
    ∑ c ∈ Finset.range n, ∑ k ∈ Finset.range K, ((A.apply [x]).getD c []).getD k 0 * star ((Y.getD c []).getD k 0)
      = ∑ r ∈ Finset.range R, x.getD r 0 * star (((A.adj star Y).headD []).getD r 0) := by
  intro A
  have hA : A.apply [x] = (sense { o with batch := none }).apply [x] ∧ A.adj star Y = (sense { o with batch := none }).adj star Y := by
    cases b with
    | none => exact ⟨rfl, rfl⟩
    | some B =>
      exact ⟨sense_batch_invariant o hv B (hb B rfl) x,
        sense_adjoint_batch_invariant star o hv B (hb B rfl) R hs.mpsRect
          (fun wc hw => (hs.wCoilRows wc hw).trans hs.mpsRows.symm) Y⟩
  rw [hA.1, hA.2]
  have key := sense_dot_test_abstract (Finset.range n) (Finset.range K) (Finset.range R)
    (fun u k => ∑ r ∈ Finset.range R, (o.F.getD k []).getD r 0 * u r)
    (fun v r => ∑ k ∈ Finset.range K, star ((o.F.getD k []).getD r 0) * v k)
    (fun u v => matrix_adjoint_identity _ _ (fun k r => (o.F.getD k []).getD r 0) u v)
    (fun c r => (o.mps.getD c []).getD r 0) (fun c k => swAt o.sqrt o.weights c k) (fun r => x.getD r 0)
    (fun c k => (Y.getD c []).getD k 0)
  have hL : ∑ c ∈ Finset.range n, ∑ k ∈ Finset.range K,
        (((sense { o with batch := none }).apply [x]).getD c []).getD k 0 * star ((Y.getD c []).getD k 0)
      = ∑ c ∈ Finset.range n, ∑ k ∈ Finset.range K,
        (swAt o.sqrt o.weights c k * ∑ r ∈ Finset.range R, (o.F.getD k []).getD r 0 * ((o.mps.getD c []).getD r 0 * x.getD r 0))
          * star ((Y.getD c []).getD k 0) :=
    Finset.sum_congr rfl (fun c hc => Finset.sum_congr rfl (fun k hk => by
      rw [sense_denote_index o hv x n R K hs hx c k (Finset.mem_range.mp hc) (Finset.mem_range.mp hk)]))
  have hRr : ∑ r ∈ Finset.range R, x.getD r 0 * star ((((sense { o with batch := none }).adj star Y).headD []).getD r 0)
      = ∑ r ∈ Finset.range R, x.getD r 0 * star (∑ c ∈ Finset.range n, star ((o.mps.getD c []).getD r 0) *
        ∑ k ∈ Finset.range K, star ((o.F.getD k []).getD r 0) * (star (swAt o.sqrt o.weights c k) * (Y.getD c []).getD k 0)) :=
    Finset.sum_congr rfl (fun r hr => by rw [sense_adjoint_index o hv Y n R K hs hY hYr r (Finset.mem_range.mp hr)])
  rw [hL, hRr]
  exact key

end dot

/-- the dot test over `ℂ` with complex conjugation -/
theorem sense_dot_test_complex (o : SenseOpts ℂ) (hv : Valid o) (x : Vec ℂ) (Y : Mat ℂ) (n R K : Nat) (hs : Shaped o n R K) (hx : x.length = R)
    (hY : Y.length = n) (hYr : ∀ row ∈ Y, row.length = K) (B : Nat) (hB : 0 < B) :
    ∑ c ∈ Finset.range n, ∑ k ∈ Finset.range K,
        (((sense { o with batch := some (B : Int) }).apply [x]).getD c []).getD k 0 * (starRingEnd ℂ) ((Y.getD c []).getD k 0)
      = ∑ r ∈ Finset.range R, x.getD r 0 *
          (starRingEnd ℂ) ((((sense { o with batch := some (B : Int) }).adj (starRingEnd ℂ) Y).headD []).getD r 0) :=
  sense_dot_test o hv x Y n R K hs hx hY hYr (some B) (fun _ h => by cases h; exact hB)

/-- a 2-coil, 2-pixel, 3-sample request with per-coil weights, batched one coil at a time -/
def exampleOpts : SenseOpts ℂ where
  mps := [[1, 2], [3, 4]]
  mpsNdim := 2
  ishapeLen := none
  coordNdim := some 2
  F := [[1, 0], [0, 1], [1, 1]]
  weights := .perCoil [[1, 4, 9], [0, 1, 4]]
  wNdim := 2
  wShape0 := 2
  batch := some 1
  transp := false
  sqrt := id

/-- non-vacuity: `Valid` is satisfiable (1-D image, three non-Cartesian samples, per-coil weights) -/
example : Valid exampleOpts where
  ndim := by decide
  ishape := Or.inl rfl
  wclass := by simp [exampleOpts, kspNdimDoc]

/-- non-vacuity: the hypotheses of the index-wise theorems and of the dot test are satisfiable -/
example : Shaped exampleOpts 2 2 3 where
  mpsRows := rfl
  mpsRect := by simp [exampleOpts]
  fRows := rfl
  fRect := by simp [exampleOpts]
  wShared := by intro w h; simp [exampleOpts] at h
  wCoilRows := by intro wc h; simp [exampleOpts] at h; subst h; rfl
  wCoilRect := by intro wc h; simp [exampleOpts] at h; subst h; simp

/-! ### recon set-ups -/

/-- `SenseRecon`: weights (given, or estimated from the sampled positions for Cartesian data) go into BOTH
    `A = Sense(…, weights)` (as `√w`) and `y ↦ y·√w`; `lamda` is LinearLeastSquares' `λ/2‖x‖²`; no prox, no G. -/
theorem recon_setup_sense (wg cn : Bool) :
    reconSetup .senseRecon wg cn =
      { wsource := if wg then .given else if cn then .estimated else .none,
        aWeighted := wg || cn, yWeighted := wg || cn, yExpHalf := true, l2 := true, prox := [], hasG := false } := by
  cases wg <;> cases cn <;> rfl

/-- `L1WaveletRecon`: same data term; `proxg = UnitaryTransform(L1Reg(W.oshape, lamda), W)`, no G, no `λ/2‖x‖²`. -/
theorem recon_setup_l1wavelet (wg cn : Bool) :
    reconSetup .l1Wavelet wg cn =
      { wsource := if wg then .given else if cn then .estimated else .none,
        aWeighted := wg || cn, yWeighted := wg || cn, yExpHalf := true, l2 := false,
        prox := ["UnitaryTransform", "L1Reg", "W.oshape", "lamda", "W"], hasG := false } := by
  cases wg <;> cases cn <;> rfl

/-- `TotalVariationRecon`: same data term; `G = FiniteDifference(A.ishape)`, `proxg = L1Reg(G.oshape, lamda)`. -/
theorem recon_setup_tv (wg cn : Bool) :
    reconSetup .totalVariation wg cn =
      { wsource := if wg then .given else if cn then .estimated else .none,
        aWeighted := wg || cn, yWeighted := wg || cn, yExpHalf := true, l2 := false,
        prox := ["L1Reg", "G.oshape", "lamda", "FiniteDifference", "A.ishape"], hasG := true } := by
  cases wg <;> cases cn <;> rfl

/-- **recon_objective.** With `A' = √w·A` and `y' = √w·y` (what every recon hands to LinearLeastSquares:
    `aWeighted ∧ yWeighted ∧ yExpHalf` above), the data term `‖A'x − y'‖²` that LinearLeastSquares minimises
    is the weighted residual `Σ_k w_k |(Ax)_k − y_k|²` of the documented objective `½‖P F S x − y‖²`
    (`w ≥ 0` real, `s = √w`; for estimated weights `w ∈ {0,1}` is the sampling mask `P`). -/
theorem recon_objective {ι : Type} (K : Finset ι) (a y : ι → ℂ) (s w : ι → ℝ) (hs : ∀ k, s k ^ 2 = w k) :
    (∑ k ∈ K, ‖(s k : ℂ) * a k - (s k : ℂ) * y k‖ ^ 2) = ∑ k ∈ K, w k * ‖a k - y k‖ ^ 2 := by
  apply Finset.sum_congr rfl
  intro k _
  rw [← mul_sub, norm_mul, mul_pow, Complex.norm_real, Real.norm_eq_abs, sq_abs, hs]

/-- a 0/1 mask is its own square root, so pre-weighting `y` by the estimated weights leaves the sampled
    data untouched and zeroes nothing that was not already zero-weighted -/
theorem estimated_weights_sqrt (w : ℝ) (h : w = 0 ∨ w = 1) : w ^ 2 = w := by
  rcases h with h | h <;> simp [h]

/-- **consistent_data_recovers.** If the (weighted) encoding operator `A` is injective — the problem is
    fully determined — and the data are consistent, `y = A x₀`, then with `λ = 0` (for any regulariser `g`:
    L2, L1-wavelet or TV) the minimisers of `½‖A x − y‖² + λ·g(x)` are exactly `{x₀}`: a recon that returns
    the minimiser of its objective reproduces the image. -/
theorem consistent_data_recovers {E F : Type} [NormedAddCommGroup E] [NormedSpace ℂ E]
    [NormedAddCommGroup F] [NormedSpace ℂ F] (A : E →ₗ[ℂ] F) (hA : Function.Injective A) (x₀ : E)
    (g : E → ℝ) (lam : ℝ) (hlam : lam = 0) (x : E) :
    (∀ x', 1 / 2 * ‖A x - A x₀‖ ^ 2 + lam * g x ≤ 1 / 2 * ‖A x' - A x₀‖ ^ 2 + lam * g x') ↔ x = x₀ := by
  subst hlam
  constructor
  · intro h
    have h0 := h x₀
    simp only [sub_self, norm_zero, zero_mul, add_zero] at h0
    have h1 : ‖A x - A x₀‖ ^ 2 ≤ 0 := by
      have : (0:ℝ) ^ 2 = 0 := by norm_num
      rw [this] at h0; linarith
    have h2 : ‖A x - A x₀‖ = 0 := by
      have := sq_nonneg ‖A x - A x₀‖
      exact pow_eq_zero_iff (n := 2) (by norm_num) |>.mp (le_antisymm h1 this)
    exact hA (sub_eq_zero.mp (norm_eq_zero.mp h2))
  · rintro rfl x'
    simp only [sub_self, norm_zero, zero_mul, add_zero]
    have : (0:ℝ) ^ 2 = 0 := by norm_num
    rw [this]
    have := sq_nonneg ‖A x' - A x‖
    linarith

/-- non-vacuity: the identity is injective, so the hypotheses are satisfiable -/
example : Function.Injective (LinearMap.id : ℂ →ₗ[ℂ] ℂ) := fun _ _ h => h

end SigpyVerif.C16
