import SigpyVerif.Props.C04Gen
import Mathlib.Analysis.Complex.Basic
/-
  C04 — "every solver that works through `A.N` minimises the objective defined by `A` itself".

  For every operator tree over the proved leaf classes (the hypotheses of `normal_denote`): the normal equations
  `A.N x = A.H y` — with `A.N` and `A.H` the trees built by the GENERATED `_normal_linop` / `_adjoint_linop`
  rules — are the stationarity condition of `½‖A x − y‖²`:

  * `objective_expand` (any commutative star ring): `‖A(x+h) − y‖² = ‖Ax − y‖² + ⟨Ah, r⟩ + ⟨r, Ah⟩ + ‖Ah‖²`, `r = Ax − y`;
  * `normal_equations_iff_stationary` (any commutative star ring): `A.N x = A.H y` on the input range ⇔ the first
    variation `⟨A h, A x − y⟩` vanishes for every direction `h`;
  * `normal_equations_minimise` (ℂ): a solution of the normal equations is a global minimiser of `‖A x − y‖²`;
  * `minimiser_solves_normal_equations` (ℂ): and every global minimiser solves them.
  Joined with C14 (`cg_normal_eq`: the system CG is given IS `A.N x = A.H y` for `λ = 0`) this is the property text.
-/
set_option linter.unusedSectionVars false
set_option linter.unusedVariables false
namespace SigpyVerif.C04
open SigpyVerif SigpyVerif.C01

section generic
variable {α : Type} [CommRing α] [StarRing α]

theorem applyF_add (E : List (Ent α)) (a b : Nat → α) (o : Nat) :
    applyF E (fun i => a i + b i) o = applyF E a o + applyF E b o := by
  induction E with
  | nil => simp [applyF_nil]
  | cons e E ih =>
    rw [applyF_cons, applyF_cons, applyF_cons, ih]
    split_ifs <;> ring

theorem applyF_sub (E : List (Ent α)) (a b : Nat → α) (o : Nat) :
    applyF E (fun i => a i - b i) o = applyF E a o - applyF E b o := by
  induction E with
  | nil => simp [applyF_nil]
  | cons e E ih =>
    rw [applyF_cons, applyF_cons, applyF_cons, ih]
    split_ifs <;> ring

theorem applyF_smul (E : List (Ent α)) (t : α) (a : Nat → α) (o : Nat) :
    applyF E (fun i => t * a i) o = t * applyF E a o := by
  induction E with
  | nil => simp [applyF_nil]
  | cons e E ih =>
    rw [applyF_cons, applyF_cons, ih]
    split_ifs <;> ring

theorem dotL_swap (I : List Nat) (a b : Nat → α) : dotL star I a b = star (dotL star I b a) := by
  unfold dotL
  rw [star_sum_list, List.map_map]
  congr 1
  apply List.map_congr_left
  intro i _
  simp [star_mul', mul_comm]

theorem dotL_congr (I : List Nat) (a b b' : Nat → α) (h : ∀ i ∈ I, b i = b' i) : dotL star I a b = dotL star I a b' := by
  unfold dotL
  congr 1
  apply List.map_congr_left
  intro i hi
  rw [h i hi]

theorem dotL_zero_right (I : List Nat) (a : Nat → α) : dotL star I a (fun _ => 0) = 0 := by
  unfold dotL
  apply List.sum_eq_zero
  intro z hz
  obtain ⟨i, _, rfl⟩ := List.mem_map.mp hz
  simp

theorem dotL_unit (n j : Nat) (hj : j < n) (g : Nat → α) : dotL star (List.range n) (unitVec j) g = g j := by
  unfold dotL
  have e1 : (List.range n).map (fun i => star (unitVec (α := α) j i) * g i)
      = (List.range n).map fun i => if j = i then g i else 0 := by
    apply List.map_congr_left
    intro i _
    unfold unitVec
    by_cases hh : i = j
    · subst hh; simp
    · have hh' : ¬ j = i := fun e => hh e.symm
      simp [hh, hh']
  rw [e1, sum_ite_single _ List.nodup_range j (List.mem_range.mpr hj)]

/-- twice the data term: `‖A x − y‖² = ⟨Ax − y, Ax − y⟩` over the output range -/
def objective (s : Sem α) (y x : Nat → α) : α :=
  dotL star (List.range s.osz) (fun o => applyF s.E x o - y o) (fun o => applyF s.E x o - y o)

/-- **second-order expansion**: `‖A(x+h) − y‖² = ‖Ax − y‖² + ⟨Ah, r⟩ + ⟨r, Ah⟩ + ‖Ah‖²` with `r = Ax − y` -/
theorem objective_expand (s : Sem α) (y x h : Nat → α) :
    objective s y (fun i => x i + h i) = objective s y x
      + dotL star (List.range s.osz) (applyF s.E h) (fun o => applyF s.E x o - y o)
      + dotL star (List.range s.osz) (fun o => applyF s.E x o - y o) (applyF s.E h)
      + dotL star (List.range s.osz) (applyF s.E h) (applyF s.E h) := by
  unfold objective
  have e : (fun o => applyF s.E (fun i => x i + h i) o - y o)
      = fun o => (applyF s.E x o - y o) + applyF s.E h o := by
    funext o; rw [applyF_add]; ring
  rw [e, dotL_add_left, dotL_add_right, dotL_add_right]
  ring

/-- **The normal equations are the stationarity condition.**  `s` is what a tree denotes, `sH` a true adjoint
    (`IsAdj`) and `sN` acts as `x ↦ Aᴴ(A x)` on the input range (the conclusion of `normal_denote`).  Then
    `A.N x = A.H y` on the input range ⇔ the first variation of `‖A x − y‖²` vanishes in every direction:
    `⟨A h, A x − y⟩ = 0` for all `h`. -/
theorem normal_equations_iff_stationary (s sH sN : Sem α) (hadj : IsAdj s.osz s.isz s.E sH.E)
    (hN : ∀ (x : Nat → α) (j : Nat), j < s.isz → applyF sN.E x j = applyF sH.E (applyF s.E x) j)
    (y x : Nat → α) :
    (∀ j, j < s.isz → applyF sN.E x j = applyF sH.E y j) ↔
      ∀ h : Nat → α, dotL star (List.range s.osz) (applyF s.E h) (fun o => applyF s.E x o - y o) = 0 := by
  have hg : ∀ j, applyF sH.E (fun o => applyF s.E x o - y o) j
      = applyF sH.E (applyF s.E x) j - applyF sH.E y j := fun j => applyF_sub _ _ _ j
  constructor
  · intro hne h
    rw [hadj h (fun o => applyF s.E x o - y o)]
    rw [dotL_congr _ _ _ (fun _ => 0) ?_, dotL_zero_right]
    intro j hj
    rw [hg j, ← hN x j (List.mem_range.mp hj), hne j (List.mem_range.mp hj), sub_self]
  · intro hst j hj
    have := hst (unitVec j)
    rw [hadj (unitVec j) (fun o => applyF s.E x o - y o), dotL_unit _ _ hj, hg j, ← hN x j hj] at this
    exact sub_eq_zero.mp this

/-- the same for every tree over the proved leaf classes, about the trees the GENERATED `.N` / `.H` rules build -/
theorem normal_equations_iff_stationary_tree (ofRat : Rat → α) (hreal : ∀ r, star (ofRat r) = ofRat r) (e : Expr α)
    (he : allLeaves (NormalLeafOK ofRat) e) (s : Sem α) (hs : denote star ofRat e = some s) :
    ∃ sN sH, denote star ofRat (Gen.LinopNormal.normalGen (oshOf ofRat) e) = some sN ∧
      denote star ofRat (Gen.LinopAdjoint.adjGen (oshOf ofRat) e) = some sH ∧
      ∀ y x : Nat → α, (∀ j, j < s.isz → applyF sN.E x j = applyF sH.E y j) ↔
        ∀ h : Nat → α, dotL star (List.range s.osz) (applyF s.E h) (fun o => applyF s.E x o - y o) = 0 := by
  obtain ⟨sN, sH, h1, h2, _, _, hadj, hact⟩ := normal_denote ofRat hreal e he s hs
  exact ⟨sN, sH, h1, h2, fun y x =>
    normal_equations_iff_stationary s sH sN hadj (fun x j hj => (hact x j hj).1) y x⟩

end generic

/-! ### over ℂ: stationary points are the global minimisers -/
section complex

theorem dotL_self_re_nonneg (I : List Nat) (a : Nat → ℂ) : 0 ≤ (dotL star I a a).re := by
  unfold dotL
  induction I with
  | nil => simp
  | cons i I ih =>
    simp only [List.map_cons, List.sum_cons, Complex.add_re]
    have : 0 ≤ (star (a i) * a i).re := by
      have e : star (a i) * a i = ((Complex.normSq (a i) : ℝ) : ℂ) := by
        rw [mul_comm]; exact Complex.mul_conj (a i)
      rw [e, Complex.ofReal_re]
      exact Complex.normSq_nonneg _
    linarith

theorem dotL_self_re_eq_zero (n : Nat) (a : Nat → ℂ) (h : (dotL star (List.range n) a a).re = 0) :
    ∀ j, j < n → a j = 0 := by
  induction n with
  | zero => intro j hj; omega
  | succ n ih =>
    have e : dotL star (List.range (n + 1)) a a = dotL star (List.range n) a a + star (a n) * a n := by
      unfold dotL
      rw [List.range_succ, List.map_append, List.sum_append]
      simp
    have e2 : star (a n) * a n = ((Complex.normSq (a n) : ℝ) : ℂ) := by
      rw [mul_comm]; exact Complex.mul_conj (a n)
    rw [e, e2, Complex.add_re, Complex.ofReal_re] at h
    have h1 := dotL_self_re_nonneg (List.range n) a
    have h2 := Complex.normSq_nonneg (a n)
    intro j hj
    by_cases hjn : j = n
    · subst hjn
      exact Complex.normSq_eq_zero.mp (by linarith)
    · exact ih (by linarith) j (by omega)

/-- **a solution of the normal equations minimises `‖A x − y‖²`** (complex data, any tree operator with a true
    adjoint): if `A.N x = A.H y` on the input range then `‖A x − y‖² ≤ ‖A z − y‖²` for every `z`. -/
theorem normal_equations_minimise (s sH sN : Sem ℂ) (hadj : IsAdj s.osz s.isz s.E sH.E)
    (hN : ∀ (x : Nat → ℂ) (j : Nat), j < s.isz → applyF sN.E x j = applyF sH.E (applyF s.E x) j)
    (y x : Nat → ℂ) (hne : ∀ j, j < s.isz → applyF sN.E x j = applyF sH.E y j) (z : Nat → ℂ) :
    (objective s y x).re ≤ (objective s y z).re := by
  have hst := (normal_equations_iff_stationary s sH sN hadj hN y x).mp hne
  have hz : z = fun i => x i + (z i - x i) := by funext i; ring
  rw [hz, objective_expand, hst, dotL_swap, hst]
  have := dotL_self_re_nonneg (List.range s.osz) (applyF s.E fun i => z i - x i)
  simp only [star_zero, add_zero, Complex.add_re]
  linarith

/-- a first-order term that never makes a quadratic negative vanishes -/
theorem lin_zero_of_quad_nonneg' (b c : ℝ) (h : ∀ t : ℝ, 0 ≤ t * b + t ^ 2 * c) : b = 0 := by
  by_contra hb
  have h1 := h (-b / (2 * (|c| + 1)))
  have hc : 0 < |c| + 1 := by positivity
  have hc2 : c ≤ |c| := le_abs_self c
  have e : -b / (2 * (|c| + 1)) * b + (-b / (2 * (|c| + 1))) ^ 2 * c
      = b ^ 2 * (c - 2 * (|c| + 1)) / (4 * (|c| + 1) ^ 2) := by
    field_simp
    ring
  rw [e] at h1
  have hb2 : 0 < b ^ 2 := by positivity
  have hneg : b ^ 2 * (c - 2 * (|c| + 1)) < 0 := by nlinarith
  have hden : 0 < 4 * (|c| + 1) ^ 2 := by positivity
  have := div_neg_of_neg_of_pos hneg hden
  linarith

/-- **every global minimiser of `‖A x − y‖²` solves the normal equations** `A.N x = A.H y` (complex data). -/
theorem minimiser_solves_normal_equations (s sH sN : Sem ℂ) (hadj : IsAdj s.osz s.isz s.E sH.E)
    (hN : ∀ (x : Nat → ℂ) (j : Nat), j < s.isz → applyF sN.E x j = applyF sH.E (applyF s.E x) j)
    (y x : Nat → ℂ) (hmin : ∀ z, (objective s y x).re ≤ (objective s y z).re) :
    ∀ j, j < s.isz → applyF sN.E x j = applyF sH.E y j := by
  -- gradient g = Aᴴ(Ax − y); move along t·g
  set r : Nat → ℂ := fun o => applyF s.E x o - y o with hr
  set g : Nat → ℂ := applyF sH.E r with hgdef
  have hgg : (dotL star (List.range s.isz) g g).re = 0 := by
    apply lin_zero_of_quad_nonneg' _ ((dotL star (List.range s.osz) (applyF s.E g) (applyF s.E g)).re / 2)
    intro t
    have h1 := hmin (fun i => x i + (t : ℂ) * g i)
    rw [objective_expand] at h1
    have e1 : applyF s.E (fun i => (t : ℂ) * g i) = fun o => (t : ℂ) * applyF s.E g o := by
      funext o; exact applyF_smul _ _ _ o
    have e2 : dotL star (List.range s.osz) (fun o => (t : ℂ) * applyF s.E g o) r
        = (t : ℂ) * dotL star (List.range s.isz) g g := by
      have : dotL star (List.range s.osz) (fun o => (t : ℂ) * applyF s.E g o) r
          = (t : ℂ) * dotL star (List.range s.osz) (applyF s.E g) r := by
        unfold dotL
        rw [← List.sum_map_mul_left]
        congr 1
        apply List.map_congr_left
        intro i _
        simp only [star_mul', Complex.star_def, Complex.conj_ofReal]
        ring
      rw [this, hadj g r]
    have e3 : dotL star (List.range s.osz) (fun o => (t : ℂ) * applyF s.E g o) (fun o => (t : ℂ) * applyF s.E g o)
        = ((t ^ 2 : ℝ) : ℂ) * dotL star (List.range s.osz) (applyF s.E g) (applyF s.E g) := by
      unfold dotL
      rw [← List.sum_map_mul_left]
      congr 1
      apply List.map_congr_left
      intro i _
      simp only [star_mul', Complex.star_def, Complex.conj_ofReal]
      push_cast
      ring
    rw [e1, e2, dotL_swap (List.range s.osz) r, e2, e3] at h1
    have hsr : ∀ z : ℂ, (star z).re = z.re := fun z => Complex.conj_re z
    simp only [Complex.add_re, Complex.mul_re, Complex.ofReal_re, Complex.ofReal_im, zero_mul, sub_zero, hsr] at h1
    nlinarith
  have hzero := dotL_self_re_eq_zero s.isz g hgg
  intro j hj
  have := hzero j hj
  rw [hgdef, hr, applyF_sub, ← hN x j hj] at this
  exact sub_eq_zero.mp this

/-- **the property text, for every tree**: for every operator tree over the proved leaf classes (complex data),
    with `A.N` / `A.H` the trees the generated `_normal_linop` / `_adjoint_linop` rules build: `x` solves the normal
    equations `A.N x = A.H y` ⇔ `x` is a global minimiser of `‖A x − y‖²` — a solver that works through `A.N`
    minimises the objective defined by `A` itself. -/
theorem normal_equations_iff_minimiser_tree (ofRat : Rat → ℂ) (hreal : ∀ r, star (ofRat r) = ofRat r) (e : Expr ℂ)
    (he : allLeaves (NormalLeafOK ofRat) e) (s : Sem ℂ) (hs : denote star ofRat e = some s) :
    ∃ sN sH, denote star ofRat (Gen.LinopNormal.normalGen (oshOf ofRat) e) = some sN ∧
      denote star ofRat (Gen.LinopAdjoint.adjGen (oshOf ofRat) e) = some sH ∧
      ∀ y x : Nat → ℂ, (∀ j, j < s.isz → applyF sN.E x j = applyF sH.E y j) ↔
        ∀ z, (objective s y x).re ≤ (objective s y z).re := by
  obtain ⟨sN, sH, h1, h2, _, _, hadj, hact⟩ := normal_denote ofRat hreal e he s hs
  refine ⟨sN, sH, h1, h2, fun y x => ⟨fun h z => ?_, fun h => ?_⟩⟩
  · exact normal_equations_minimise s sH sN hadj (fun x j hj => (hact x j hj).1) y x h z
  · exact minimiser_solves_normal_equations s sH sN hadj (fun x j hj => (hact x j hj).1) y x h

/-- non-vacuity: `ofRat` = the cast ℚ → ℂ is real, and a two-leaf tree satisfies the leaf hypothesis -/
example : ∀ r : Rat, star ((r : ℂ)) = (r : ℂ) := fun r => by simp

end complex
end SigpyVerif.C04
