import SigpyVerif.Gen.Prox
import SigpyVerif.Lemmas.C11
import Mathlib.Analysis.InnerProductSpace.PiL2
import Mathlib.Analysis.Complex.Norm
/-
  C11 — every proximal operator returns the exact minimiser.

  `IsProxOn C F y p` (Lemmas/C11.lean) is "p = argmin_{x∈C} ½‖x-y‖² + F x" in the strong form
  `∀ x∈C, F p + ½‖p-y‖² + ½‖x-p‖² ≤ F x + ½‖x-y‖²`, which yields minimality and uniqueness
  (`prox_is_minimiser`, `prox_unique`) and is equivalent to the variational inequality
  (`prox_iff_variational`).  `IsProjOn C y p` is the case `F = 0` (projection).

  The scalar formulas are the definitions `Gen.Prox.*` that the translator regenerates from
  sigpy/prox.py and sigpy/thresh.py on every run; vectors are `ℓ²` tuples `PiLp 2 (fun _ : ι => ℝ)`
  (`‖x‖² = Σ |x i|²`, exactly `½‖x-y‖²` of a flattened numpy array), complex scalars are `ℂ`.
  What is *not* proved here but only validated by the correspondence check: that numpy's elementwise
  evaluation / sort / cumsum / norm and the `Prox` plumbing (split, vec, reshape) compute these
  formulas (Model/C11.lean executes them over ℚ and is compared with the real classes).
  Duchi's index search of `l1_proj` is proved in `Props/C11Duchi.lean` (`duchi_theta`, `l1_proj_duchi_*`) and, for
  the executable model, in `Props/C11DuchiModel.lean` (`duchiTheta_kkt`); `psd_proj` in `Props/C11Psd.lean`
  (`psd_proj_prox`, with numpy's `eigh` as a parameter under its spectral contract).
-/
namespace SigpyVerif.C11
open SigpyVerif.Gen.Prox InnerProductSpace

/-- real or complex vectors with the Euclidean norm (a flattened numpy array) -/
abbrev Vec (ι : Type) (𝕂 : Type) [Fintype ι] := PiLp 2 (fun _ : ι => 𝕂)
/-- build a vector from its entries -/
abbrev vec {ι 𝕂 : Type} [Fintype ι] (f : ι → 𝕂) : Vec ι 𝕂 := WithLp.toLp 2 f

/-! ### what "exact minimiser" means -/

/-- minimality -/
theorem prox_is_minimiser {E : Type*} [NormedAddCommGroup E] {C : Set E} {F : E → ℝ} {y p : E}
    (h : IsProxOn C F y p) : ∀ x ∈ C, F p + ‖p - y‖ ^ 2 / 2 ≤ F x + ‖x - y‖ ^ 2 / 2 :=
  fun _ hx => h.le hx

/-- uniqueness of the minimiser -/
theorem prox_unique {E : Type*} [NormedAddCommGroup E] {C : Set E} {F : E → ℝ} {y p : E}
    (h : IsProxOn C F y p) : ∀ x ∈ C, F x + ‖x - y‖ ^ 2 / 2 ≤ F p + ‖p - y‖ ^ 2 / 2 → x = p :=
  fun _ hx hle => h.unique hx hle

/-- the strong inequality is the usual variational characterisation; for projections:
    `p ∈ C ∧ ∀ q ∈ C, ⟪y - p, q - p⟫ ≤ 0`. -/
theorem prox_iff_variational {E : Type*} [NormedAddCommGroup E] [InnerProductSpace ℝ E] {C : Set E}
    {F : E → ℝ} {y p : E} : IsProxOn C F y p ↔ p ∈ C ∧ ∀ x ∈ C, F p + ⟪y - p, x - p⟫_ℝ ≤ F x :=
  isProxOn_iff_subgrad

/-- projections return a feasible input unchanged -/
theorem proj_feasible_fixed {E : Type*} [NormedAddCommGroup E] {C : Set E} {y p : E}
    (h : IsProjOn C y p) (hy : y ∈ C) : p = y := h.fixed_of_feasible hy

/-- projections are idempotent -/
theorem proj_idempotent {E : Type*} [NormedAddCommGroup E] {C : Set E} {y p q : E}
    (h : IsProjOn C y p) (h' : IsProjOn C p q) : q = p := h.idempotent h'

/-! ### soft threshold (`thresh._soft_thresh`, `L1Reg`) -/

theorem gabs_eq_abs (x : ℝ) : gabs x = |x| := by
  unfold gabs; split_ifs with h
  · rw [abs_of_neg h]
  · rw [abs_of_nonneg (not_lt.mp h)]

/-- the generated kernel formula with `abs_input = ‖y‖`, applied to one real component `c` of `y`,
    is the component of the block soft threshold: `(‖y‖-λ)₊ · c/‖y‖`. -/
theorem softThresh_component (lam c n : ℝ) (_hn : 0 ≤ n) (h0 : n = 0 → c = 0) :
    softThresh lam c n = if n ≤ lam then 0 else (1 - lam / n) * c := by
  unfold softThresh
  rw [gabs_eq_abs]
  simp only [Nat.cast_ofNat]
  split_ifs with h1 h2 h2
  · simp
  · simp [h0 h1]
  · rw [abs_of_nonpos (by linarith)]; ring
  · rw [not_le] at h2
    rw [abs_of_pos (by linarith)]
    have : n ≠ 0 := h1
    field_simp; ring

/-- real scalar: the kernel is the block soft threshold of `ℝ` -/
theorem softThresh_real (lam y : ℝ) : softThresh lam y |y| = blockSoft lam y := by
  rw [softThresh_component lam y |y| (abs_nonneg y) (fun h => abs_eq_zero.mp h)]
  unfold blockSoft; simp only [Real.norm_eq_abs, smul_eq_mul]

/-- complex scalar `z` (the numba kernel computes `mag * (z / |z|)`, i.e. the formula on both components) -/
noncomputable def csoft (lam : ℝ) (z : ℂ) : ℂ := ⟨softThresh lam z.re ‖z‖, softThresh lam z.im ‖z‖⟩

theorem csoft_eq (lam : ℝ) (z : ℂ) : csoft lam z = blockSoft lam z := by
  have h0 : ‖z‖ = 0 → z = 0 := fun h => norm_eq_zero.mp h
  unfold csoft
  rw [softThresh_component lam z.re ‖z‖ (norm_nonneg z) (fun h => by rw [h0 h]; rfl),
    softThresh_component lam z.im ‖z‖ (norm_nonneg z) (fun h => by rw [h0 h]; rfl)]
  unfold blockSoft
  split_ifs with h
  · rfl
  · apply Complex.ext <;> simp

/-- **`soft_thresh` is the prox of `λ|·|` (real scalar).** -/
theorem soft_thresh_prox_real {lam : ℝ} (hl : 0 ≤ lam) (y : ℝ) :
    IsProxOn Set.univ (fun x : ℝ => lam * |x|) y (softThresh lam y |y|) := by
  rw [softThresh_real]
  exact (norm_prox hl y).congr rfl (fun x => by simp [Real.norm_eq_abs])

/-- **`soft_thresh` is the prox of `λ|·|` (complex scalar: modulus shrinks, phase is kept).** -/
theorem soft_thresh_prox_complex {lam : ℝ} (hl : 0 ≤ lam) (z : ℂ) :
    IsProxOn Set.univ (fun x : ℂ => lam * ‖x‖) z (csoft lam z) := by
  rw [csoft_eq]; exact norm_prox hl z

/-- the modulus of the result is `(|y| - λ)₊` -/
theorem soft_thresh_abs {lam : ℝ} (hl : 0 ≤ lam) (y : ℝ) : abs (softThresh lam y |y|) = max (|y| - lam) 0 := by
  rw [softThresh_real, ← Real.norm_eq_abs, norm_blockSoft hl, Real.norm_eq_abs]

theorem csoft_norm {lam : ℝ} (hl : 0 ≤ lam) (z : ℂ) : ‖csoft lam z‖ = max (‖z‖ - lam) 0 := by
  rw [csoft_eq, norm_blockSoft hl]

variable {ι : Type} [Fintype ι]

/-- **`L1Reg(shape, λ)(α, y)`** `= soft_thresh(λ·α, y)` is the minimiser of `½‖x-y‖² + α·λ‖x‖₁`
    (real arrays).  The threshold is the generated `l1regLam λ α` (so `λ` not multiplied by `α`
    does not check). -/
theorem l1reg_prox_real {lamda α : ℝ} (hl : 0 ≤ lamda) (hα : 0 < α) (y : Vec ι ℝ) :
    IsProxOn Set.univ (fun x : Vec ι ℝ => α * (lamda * ∑ i, |x i|)) y
      (vec fun i => softThresh (l1regLam lamda α) (y i) |y i|) := by
  have hla : 0 ≤ l1regLam lamda α := by unfold l1regLam; positivity
  have := isProxOn_pi (β := fun _ : ι => ℝ) (C := fun _ => Set.univ)
    (F := fun _ x => l1regLam lamda α * |x|) y (vec fun i => softThresh (l1regLam lamda α) (y i) |y i|)
    (fun i => soft_thresh_prox_real hla (y i))
  refine this.congr (by ext; simp) (fun x => ?_)
  unfold l1regLam
  rw [Finset.mul_sum, Finset.mul_sum]
  exact Finset.sum_congr rfl (fun i _ => by ring)

/-- the same for complex arrays -/
theorem l1reg_prox_complex {lamda α : ℝ} (hl : 0 ≤ lamda) (hα : 0 < α) (y : Vec ι ℂ) :
    IsProxOn Set.univ (fun x : Vec ι ℂ => α * (lamda * ∑ i, ‖x i‖)) y
      (vec fun i => csoft (l1regLam lamda α) (y i)) := by
  have hla : 0 ≤ l1regLam lamda α := by unfold l1regLam; positivity
  have := isProxOn_pi (β := fun _ : ι => ℂ) (C := fun _ => Set.univ)
    (F := fun _ x => l1regLam lamda α * ‖x‖) y (vec fun i => csoft (l1regLam lamda α) (y i))
    (fun i => soft_thresh_prox_complex hla (y i))
  refine this.congr (by ext; simp) (fun x => ?_)
  unfold l1regLam
  rw [Finset.mul_sum, Finset.mul_sum]
  exact Finset.sum_congr rfl (fun i _ => by ring)

/-! ### box constraint (`BoxConstraint`: `xp.clip(input, lower, upper)`) -/

theorem gclip_eq (a lo hi : ℝ) : gclip a lo hi = min (max a lo) hi := by
  have h1 : gmax a lo = max a lo := by
    unfold gmax; split_ifs with h
    · exact (max_eq_right h.le).symm
    · exact (max_eq_left (not_lt.mp h)).symm
  have h2 : ∀ b, gmin b hi = min b hi := by
    intro b; unfold gmin; split_ifs with h
    · exact (min_eq_right h.le).symm
    · exact (min_eq_left (not_lt.mp h)).symm
  unfold gclip; rw [h1, h2]

/-- **clip is the projection onto `[lo, hi]`** (scalar) -/
theorem box_proj_scalar {lo hi : ℝ} (h : lo ≤ hi) (y : ℝ) : IsProjOn (Set.Icc lo hi) y (boxOut y lo hi) := by
  unfold boxOut; rw [gclip_eq]
  refine ⟨⟨le_min (le_max_right _ _) h, min_le_right _ _⟩, fun x hx => ?_⟩
  obtain ⟨h1, h2⟩ := hx
  simp only [Real.norm_eq_abs, sq_abs, zero_add]
  rcases le_total y lo with c1 | c1
  · rw [max_eq_right c1, min_eq_left h]; nlinarith
  · rw [max_eq_left c1]
    rcases le_total y hi with c2 | c2
    · rw [min_eq_left c2]; nlinarith
    · rw [min_eq_right c2]; nlinarith

/-- **`BoxConstraint(shape, lower, upper)(α, y)`** with scalar or per-entry bounds is the nearest point
    of the box. -/
theorem box_proj {lo hi : ι → ℝ} (h : ∀ i, lo i ≤ hi i) (y : Vec ι ℝ) :
    IsProjOn {x : Vec ι ℝ | ∀ i, lo i ≤ x i ∧ x i ≤ hi i} y (vec fun i => boxOut (y i) (lo i) (hi i)) := by
  have := isProxOn_pi (β := fun _ : ι => ℝ) (C := fun i => Set.Icc (lo i) (hi i))
    (F := fun _ _ => (0 : ℝ)) y (vec fun i => boxOut (y i) (lo i) (hi i))
    (fun i => box_proj_scalar (h i) (y i))
  exact this.congr (by ext; simp [Set.mem_Icc]) (fun x => by simp)

/-! ### l2 ball (`thresh.l2_proj`, `L2Proj`) -/

/-- the generated entry formula `mask*y + (1-mask)*(ε*y/(norm+mask))` -/
theorem l2projOut_eq (ε c n : ℝ) : l2projOut ε c n = if n < ε then c else ε / n * c := by
  unfold l2projOut
  split_ifs with h
  · simp
  · simp; ring

/-- **`l2_proj(ε, y)`** is the projection onto `{‖x‖₂ ≤ ε}`, including the boundary `‖y‖ = ε`
    (an inverted mask does not check). -/
theorem l2_proj_prox {ε : ℝ} (hε : 0 ≤ ε) (y : Vec ι ℝ) :
    IsProjOn {x : Vec ι ℝ | ‖x‖ ≤ ε} y (vec fun i => l2projOut ε (y i) ‖y‖) := by
  have e : (vec fun i => l2projOut ε (y i) ‖y‖) = if ‖y‖ < ε then y else (ε / ‖y‖) • y := by
    ext i
    simp only [l2projOut_eq]
    split_ifs <;> simp
  rw [e]; exact l2_ball_proj hε y

/-- complex arrays: the formula acts on real and imaginary parts with `norm = ‖y‖` -/
theorem l2_proj_prox_complex {ε : ℝ} (hε : 0 ≤ ε) (y : Vec ι ℂ) :
    IsProjOn {x : Vec ι ℂ | ‖x‖ ≤ ε} y
      (vec fun i => (⟨l2projOut ε (y i).re ‖y‖, l2projOut ε (y i).im ‖y‖⟩ : ℂ)) := by
  have e : (vec fun i => (⟨l2projOut ε (y i).re ‖y‖, l2projOut ε (y i).im ‖y‖⟩ : ℂ))
      = if ‖y‖ < ε then y else (ε / ‖y‖) • y := by
    ext i
    simp only [l2projOut_eq]
    split_ifs <;> apply Complex.ext <;> simp
  rw [e]; exact l2_ball_proj hε y

/-- **`L2Proj(shape, ε, y=b)`**: `l2_proj(ε, input - b) + b` is the projection onto the ball around `b`. -/
theorem l2proj_bias_prox {ε : ℝ} (hε : 0 ≤ ε) (y b : Vec ι ℝ) :
    IsProjOn {x : Vec ι ℝ | ‖x - b‖ ≤ ε} y
      (vec fun i => l2projBiasOut (b i)
        (l2projOut ε (l2projArgIn (y i) (b i)) ‖vec fun j => l2projArgIn (y j) (b j)‖)) := by
  have e1 : (vec fun j => l2projArgIn (y j) (b j)) = y - b := by ext j; simp [l2projArgIn]
  have := (l2_proj_prox hε (y - b)).translate b
  rw [e1]
  have e2 : (vec fun i => l2projBiasOut (b i) (l2projOut ε (l2projArgIn (y i) (b i)) ‖y - b‖))
      = (vec fun i => l2projOut ε ((y - b) i) ‖y - b‖) + b := by
    ext i; simp [l2projBiasOut, l2projArgIn]
  rw [e2]
  simpa using this

/-- **`L2Proj(axes=…)`**: projecting every slice separately is the projection onto the product of balls. -/
theorem l2_proj_axes {κ : Type} [Fintype κ] {E : Type} [NormedAddCommGroup E] [InnerProductSpace ℝ E]
    {ε : ℝ} (hε : 0 ≤ ε) (y : PiLp 2 (fun _ : κ => E)) :
    IsProjOn {x : PiLp 2 (fun _ : κ => E) | ∀ k, ‖x k‖ ≤ ε} y
      (WithLp.toLp 2 fun k => if ‖y k‖ < ε then y k else (ε / ‖y k‖) • y k) := by
  have := isProxOn_pi (β := fun _ : κ => E) (C := fun _ => {x | ‖x‖ ≤ ε}) (F := fun _ _ => (0 : ℝ)) y
    (WithLp.toLp 2 fun k => if ‖y k‖ < ε then y k else (ε / ‖y k‖) • y k) (fun k => l2_ball_proj hε (y k))
  exact this.congr (by ext; simp) (fun x => by simp)

/-! ### l∞ ball (`thresh.linf_proj`, `LInfProj`): `y - soft(ε, y)` -/

/-- real entry: `linf_proj` is the clamp to `[-ε, ε]` -/
theorem linf_eq_clamp {ε : ℝ} (hε : 0 ≤ ε) (y : ℝ) :
    linfProjOut y (softThresh (linfProjArgLam ε) (linfProjArgIn y) |linfProjArgIn y|) = gclip y (-ε) ε := by
  unfold linfProjOut linfProjArgLam linfProjArgIn
  rw [softThresh_real, sub_blockSoft_eq, gclip_eq, Real.norm_eq_abs]
  split_ifs with h
  · rw [abs_lt] at h
    rw [max_eq_left h.1.le, min_eq_left h.2.le]
  · rw [not_lt] at h
    rcases le_total 0 y with c | c
    · rw [abs_of_nonneg c] at h ⊢
      rw [max_eq_left (by linarith), min_eq_right h]
      rcases eq_or_lt_of_le c with c0 | c0
      · have : ε = 0 := by linarith
        simp [this, ← c0]
      · rw [smul_eq_mul]; field_simp
    · rw [abs_of_nonpos c] at h ⊢
      rw [max_eq_right (by linarith), min_eq_left (by linarith)]
      rcases eq_or_lt_of_le c with c0 | c0
      · have : ε = 0 := by linarith
        simp [this, c0]
      · have hy : y ≠ 0 := ne_of_lt c0
        rw [smul_eq_mul]; field_simp

/-- **`linf_proj(ε, y)`** (real arrays) is the projection onto `{‖x‖∞ ≤ ε}`. -/
theorem linf_proj_prox_real {ε : ℝ} (hε : 0 ≤ ε) (y : Vec ι ℝ) :
    IsProjOn {x : Vec ι ℝ | ∀ i, |x i| ≤ ε} y
      (vec fun i => linfProjOut (y i) (softThresh (linfProjArgLam ε) (linfProjArgIn (y i)) |linfProjArgIn (y i)|)) := by
  have := isProxOn_pi (β := fun _ : ι => ℝ) (C := fun _ => {x | ‖x‖ ≤ ε}) (F := fun _ _ => (0 : ℝ)) y
    (vec fun i => linfProjOut (y i) (softThresh (linfProjArgLam ε) (linfProjArgIn (y i)) |linfProjArgIn (y i)|))
    (fun i => by
      dsimp only
      unfold linfProjOut linfProjArgLam linfProjArgIn
      rw [softThresh_real]; exact sub_blockSoft_proj hε (y i))
  exact this.congr (by ext; simp [Real.norm_eq_abs]) (fun x => by simp)

/-- **`linf_proj(ε, y)`** (complex arrays): every entry's modulus is clamped to `ε`, the phase is kept;
    this is the projection onto `{max_i |x i| ≤ ε}`. -/
theorem linf_proj_prox_complex {ε : ℝ} (hε : 0 ≤ ε) (y : Vec ι ℂ) :
    IsProjOn {x : Vec ι ℂ | ∀ i, ‖x i‖ ≤ ε} y (vec fun i => y i - csoft ε (y i)) := by
  have := isProxOn_pi (β := fun _ : ι => ℂ) (C := fun _ => {x | ‖x‖ ≤ ε}) (F := fun _ _ => (0 : ℝ)) y
    (vec fun i => y i - csoft ε (y i))
    (fun i => by
      dsimp only
      rw [csoft_eq]; exact sub_blockSoft_proj hε (y i))
  exact this.congr (by ext; simp) (fun x => by simp)

/-- modulus clamp: `|y - soft(ε,y)| = min(|y|, ε)` with the phase of `y` -/
theorem linf_complex_eq_clamp (ε : ℝ) (z : ℂ) :
    z - csoft ε z = if ‖z‖ < ε then z else ((ε / ‖z‖ : ℝ) : ℂ) * z := by
  rw [csoft_eq, sub_blockSoft_eq]
  split_ifs
  · rfl
  · rw [Complex.real_smul]

/-- **`LInfProj(bias=b)`**: `(input - b) - soft(ε, input - b) + b` is the projection onto the l∞ ball around `b`. -/
theorem linf_bias_prox_real {ε : ℝ} (hε : 0 ≤ ε) (y b : Vec ι ℝ) :
    IsProjOn {x : Vec ι ℝ | ∀ i, |x i - b i| ≤ ε} y
      (vec fun i => linfProjBiasOut (y i) (b i)
        (softThresh (linfProjBiasArgLam ε) (linfProjBiasArgIn (y i) (b i)) |linfProjBiasArgIn (y i) (b i)|)) := by
  have := (linf_proj_prox_real hε (y - b)).translate b
  have e : (vec fun i => linfProjBiasOut (y i) (b i)
        (softThresh (linfProjBiasArgLam ε) (linfProjBiasArgIn (y i) (b i)) |linfProjBiasArgIn (y i) (b i)|))
      = (vec fun i => linfProjOut ((y - b) i)
          (softThresh (linfProjArgLam ε) (linfProjArgIn ((y - b) i)) |linfProjArgIn ((y - b) i)|)) + b := by
    -- robust to the order in which the bias is added back (`output + bias` / `bias + output`)
    ext i; simp [linfProjBiasOut, linfProjBiasArgIn, linfProjBiasArgLam, linfProjOut, linfProjArgIn, linfProjArgLam] <;> ring
  rw [e]
  simpa using this

/-! ### `L2Reg` -/

/-- **`L2Reg(shape, λ, y=z, proxh=h)`**: the code calls `proxh(α/(1+λα), (input + λα z)/(1+λα))`
    (generated `l2regBiasArgAlpha`, `l2regBiasArgIn`).  If that inner call returns the minimiser for
    its step and point, the result is the minimiser of `½‖x-y‖² + α(λ/2‖x-z‖² + h x)`.
    (Dividing before adding the bias does not check.) -/
theorem l2reg_proxh {C : Set (Vec ι ℝ)} {h : Vec ι ℝ → ℝ} {α lamda : ℝ} (hα : 0 < α) (hl : 0 ≤ lamda)
    (y z p : Vec ι ℝ)
    (hp : IsProxOn C (fun x => l2regBiasArgAlpha lamda α * h x)
      (vec fun i => l2regBiasArgIn lamda α (y i) (z i)) p) :
    IsProxOn C (fun x => α * (lamda / 2 * ‖x - z‖ ^ 2 + h x)) y p := by
  apply l2reg_prox hα hl y z p
  have e : (vec fun i => l2regBiasArgIn lamda α (y i) (z i)) = (1 + lamda * α)⁻¹ • (y + (lamda * α) • z) := by
    ext i; simp [l2regBiasArgIn]; ring
  rw [← e]; exact hp

/-- without bias (`y=None`): `z = 0` -/
theorem l2reg_proxh_nobias {C : Set (Vec ι ℝ)} {h : Vec ι ℝ → ℝ} {α lamda : ℝ} (hα : 0 < α) (hl : 0 ≤ lamda)
    (y p : Vec ι ℝ)
    (hp : IsProxOn C (fun x => l2regArgAlpha lamda α * h x) (vec fun i => l2regArgIn lamda α (y i)) p) :
    IsProxOn C (fun x => α * (lamda / 2 * ‖x‖ ^ 2 + h x)) y p := by
  have := l2reg_prox (h := h) hα hl y 0 p (by
    have e : (vec fun i => l2regArgIn lamda α (y i)) = (1 + lamda * α)⁻¹ • (y + (lamda * α) • (0 : Vec ι ℝ)) := by
      ext i; simp [l2regArgIn]; ring
    rw [← e]; exact hp)
  simpa using this

/-- **`L2Reg(shape, λ, y=z)`** without `proxh`: `(input + λα z)/(1+λα)` minimises `½‖x-y‖² + αλ/2‖x-z‖²`. -/
theorem l2reg_prox_bias {α lamda : ℝ} (hα : 0 < α) (hl : 0 ≤ lamda) (y z : Vec ι ℝ) :
    IsProxOn Set.univ (fun x : Vec ι ℝ => α * (lamda / 2 * ‖x - z‖ ^ 2)) y
      (vec fun i => l2regBiasOut lamda α (y i) (z i)) := by
  have e : (vec fun i => l2regBiasOut lamda α (y i) (z i)) = (1 + lamda * α)⁻¹ • (y + (lamda * α) • z) := by
    ext i; simp [l2regBiasOut]; ring
  have := l2reg_prox (C := Set.univ) (h := fun _ => (0 : ℝ)) hα hl y z _
    ((isProjOn_self (Set.mem_univ ((1 + lamda * α)⁻¹ • (y + (lamda * α) • z)))).congr rfl (fun x => by simp))
  rw [e]
  exact this.congr rfl (fun x => by simp)

/-- **`L2Reg(shape, λ)`**: `input/(1+λα)` minimises `½‖x-y‖² + αλ/2‖x‖²`. -/
theorem l2reg_prox_plain {α lamda : ℝ} (hα : 0 < α) (hl : 0 ≤ lamda) (y : Vec ι ℝ) :
    IsProxOn Set.univ (fun x : Vec ι ℝ => α * (lamda / 2 * ‖x‖ ^ 2)) y (vec fun i => l2regOut lamda α (y i)) := by
  have e : (vec fun i => l2regOut lamda α (y i)) = vec fun i => l2regBiasOut lamda α (y i) ((0 : Vec ι ℝ) i) := by
    ext i; simp [l2regOut, l2regBiasOut]
  rw [e]
  simpa using l2reg_prox_bias hα hl y 0

/-! ### `Conj` (Moreau identity) -/

/-- **`Conj(P)(α, x) = x - α·P(1/α, x/α)`** (generated `conjArgAlpha`, `conjArgIn`, `conjOut`): if the inner
    call returns `prox_{g/α}(x/α)` then the result is `prox_{α g*}(x)`, `g*` the Fenchel conjugate of
    `g` (`IsConjOn`; extended-valued: `g* = gs` on `D`, `+∞` outside).  (`α` in place of `1/α` does
    not check.) -/
theorem conj_moreau {C D : Set (Vec ι ℝ)} {g gs : Vec ι ℝ → ℝ} (hc : IsConjOn C g D gs) {α : ℝ} (hα : 0 < α)
    (x p : Vec ι ℝ)
    (hp : IsProxOn C (fun u => conjArgAlpha α * g u) (vec fun i => conjArgIn α (x i)) p) :
    IsProxOn D (fun q => α * gs q) x (vec fun i => conjOut α (x i) (p i)) := by
  have e1 : (vec fun i => conjArgIn α (x i)) = (1 / α) • x := by
    ext i; simp [conjArgIn]; ring
  have e2 : (vec fun i => conjOut α (x i) (p i)) = x - α • p := by
    ext i; simp [conjOut] <;> ring   -- `alpha * inner` / `inner * alpha`
  rw [e2]
  apply moreau hc hα x p
  rw [← e1]; exact hp

/-- the abstract identity in any real inner product space (complex arrays, matrices, stacked vectors) -/
theorem conj_moreau_abstract {E : Type*} [NormedAddCommGroup E] [InnerProductSpace ℝ E]
    {C D : Set E} {g gs : E → ℝ} (hc : IsConjOn C g D gs) {α : ℝ} (hα : 0 < α) (x p : E)
    (hp : IsProxOn C (fun u => (1 / α) * g u) ((1 / α) • x) p) :
    IsProxOn D (fun q => α * gs q) x (x - α • p) := moreau hc hα x p hp

/-! ### `Stack` and `UnitaryTransform` -/

/-- **`Stack([P₁, P₂])`**: the concatenation of the two minimisers minimises the separable sum. -/
theorem stack_separable₂ {E₁ E₂ : Type*} [NormedAddCommGroup E₁] [NormedAddCommGroup E₂]
    {C₁ : Set E₁} {C₂ : Set E₂} {F₁ : E₁ → ℝ} {F₂ : E₂ → ℝ} (y p : WithLp 2 (E₁ × E₂))
    (h1 : IsProxOn C₁ F₁ y.fst p.fst) (h2 : IsProxOn C₂ F₂ y.snd p.snd) :
    IsProxOn {x : WithLp 2 (E₁ × E₂) | x.fst ∈ C₁ ∧ x.snd ∈ C₂} (fun x => F₁ x.fst + F₂ x.snd) y p :=
  isProxOn_prod y p h1 h2

/-- **`Stack(proxs)`**, any number of blocks (also: every elementwise prox). -/
theorem stack_separable {κ : Type*} [Fintype κ] {β : κ → Type*} [∀ k, NormedAddCommGroup (β k)]
    {C : ∀ k, Set (β k)} {F : ∀ k, β k → ℝ} (y p : PiLp 2 β) (h : ∀ k, IsProxOn (C k) (F k) (y k) (p k)) :
    IsProxOn {x : PiLp 2 β | ∀ k, x k ∈ C k} (fun x => ∑ k, F k (x k)) y p :=
  isProxOn_pi y p h

/-- **`UnitaryTransform(P, A)(α, y) = Aᴴ P(α, A y)`** (generated `unitaryProx`): for `A` unitary
    (`AᴴA = AAᴴ = I`) and `P(α, ·)` the prox of `α g`, the result is the prox of `α g∘A`. -/
theorem unitary_transform_prox {E F' : Type} [NormedAddCommGroup E] [InnerProductSpace ℝ E]
    [NormedAddCommGroup F'] [InnerProductSpace ℝ F']
    (A : E →ₗ[ℝ] F') (AH : F' →ₗ[ℝ] E) (hadj : ∀ u v, ⟪A u, v⟫_ℝ = ⟪u, AH v⟫_ℝ)
    (hAHA : ∀ u, AH (A u) = u) (hAAH : ∀ v, A (AH v) = v)
    {C : Set F'} {g : F' → ℝ} (P : ℝ → F' → F') (hP : ∀ a, 0 < a → ∀ u, IsProxOn C (fun x => a * g x) u (P a u))
    {α : ℝ} (hα : 0 < α) (y : E) :
    IsProxOn {x | A x ∈ C} (fun x => α * g (A x)) y (unitaryProx A AH P α y) :=
  unitary_transform A AH hadj hAHA hAAH y (P α (A y)) (hP α hα (A y))

/-! ### l1 ball (`thresh.l1_proj`, `L1Proj`): KKT certificate -/

/-- **KKT for the l1-ball projection** (real arrays): if `θ ≥ 0` and `Σ (|y i| - θ)₊ = ε` then
    `soft_thresh(θ, y)` is the projection of `y` onto `{‖x‖₁ ≤ ε}`.  (Duchi's sort/cumsum search
    returns such a `θ`: `duchi_theta` / `l1_proj_duchi_real` in `Props/C11Duchi.lean`.) -/
theorem l1_proj_kkt_real {θ ε : ℝ} (hθ : 0 ≤ θ) (y : Vec ι ℝ) (hsum : ∑ i, max (|y i| - θ) 0 = ε) :
    IsProjOn {x : Vec ι ℝ | ∑ i, |x i| ≤ ε} y (vec fun i => softThresh θ (y i) |y i|) := by
  have h1 : IsProxOn Set.univ (fun x : Vec ι ℝ => θ * ∑ i, |x i|) y (vec fun i => softThresh θ (y i) |y i|) := by
    have := isProxOn_pi (β := fun _ : ι => ℝ) (C := fun _ => Set.univ) (F := fun _ x => θ * |x|) y
      (vec fun i => softThresh θ (y i) |y i|) (fun i => soft_thresh_prox_real hθ (y i))
    exact this.congr (by ext; simp) (fun x => by rw [Finset.mul_sum])
  apply proj_of_prox_on_level (N := fun x : Vec ι ℝ => ∑ i, |x i|) hθ h1
  rw [← hsum]
  exact Finset.sum_congr rfl (fun i _ => by dsimp only; exact soft_thresh_abs hθ (y i))

/-- the same for complex arrays -/
theorem l1_proj_kkt_complex {θ ε : ℝ} (hθ : 0 ≤ θ) (y : Vec ι ℂ) (hsum : ∑ i, max (‖y i‖ - θ) 0 = ε) :
    IsProjOn {x : Vec ι ℂ | ∑ i, ‖x i‖ ≤ ε} y (vec fun i => csoft θ (y i)) := by
  have h1 : IsProxOn Set.univ (fun x : Vec ι ℂ => θ * ∑ i, ‖x i‖) y (vec fun i => csoft θ (y i)) := by
    have := isProxOn_pi (β := fun _ : ι => ℂ) (C := fun _ => Set.univ) (F := fun _ x => θ * ‖x‖) y
      (vec fun i => csoft θ (y i)) (fun i => soft_thresh_prox_complex hθ (y i))
    exact this.congr (by ext; simp) (fun x => by rw [Finset.mul_sum])
  apply proj_of_prox_on_level (N := fun x : Vec ι ℂ => ∑ i, ‖x i‖) hθ h1
  rw [← hsum]
  exact Finset.sum_congr rfl (fun i _ => by dsimp only; exact csoft_norm hθ (y i))

/-- a feasible `y` (the early-return path `‖y‖₁ < ε`) is its own projection -/
theorem l1_proj_feasible {ε : ℝ} (y : Vec ι ℝ) (h : ∑ i, |y i| ≤ ε) :
    IsProjOn {x : Vec ι ℝ | ∑ i, |x i| ≤ ε} y y := isProjOn_self h

/-! ### hard threshold (`thresh._hard_thresh`; not wrapped by a Prox class) -/

/-- `hard_thresh(λ, y)` is *a* global minimiser of the (non-convex) `½(x-y)² + (λ²/2)·[x ≠ 0]`
    (at `|y| = λ` both `0` and `y` are minimisers; the code returns `0`). -/
theorem hard_thresh_minimiser {lam : ℝ} (hl : 0 ≤ lam) (y x : ℝ) :
    (hardThresh lam y |y| - y) ^ 2 / 2 + lam ^ 2 / 2 * (if hardThresh lam y |y| = 0 then 0 else 1)
      ≤ (x - y) ^ 2 / 2 + lam ^ 2 / 2 * (if x = 0 then 0 else 1) := by
  have hy2 : y ^ 2 = |y| ^ 2 := (sq_abs y).symm
  have ha : 0 ≤ |y| := abs_nonneg y
  unfold hardThresh
  by_cases h1 : |y| > lam
  · rw [if_pos h1]
    have hyne : y ≠ 0 := by
      intro h0; rw [h0, abs_zero] at h1; linarith
    rw [if_neg hyne]
    by_cases hx : x = 0
    · rw [if_pos hx, hx]; nlinarith
    · rw [if_neg hx]; nlinarith [sq_nonneg (x - y)]
  · rw [if_neg h1, if_pos rfl]
    rw [not_lt] at h1
    by_cases hx : x = 0
    · rw [if_pos hx, hx]
    · rw [if_neg hx]; nlinarith [sq_nonneg (x - y)]

/-! ### non-vacuity -/

example {E : Type*} [NormedAddCommGroup E] [InnerProductSpace ℝ E] :
    IsConjOn (Set.univ : Set E) (fun x => ‖x‖ ^ 2 / 2) Set.univ (fun q => ‖q‖ ^ 2 / 2) := isConjOn_half_sq

example : IsProxOn Set.univ (fun x : ℝ => 1 * |x|) 3 (softThresh 1 3 |3|) := soft_thresh_prox_real zero_le_one 3
example : softThresh (1 : ℝ) 3 |3| = 2 := by
  rw [softThresh_component 1 3 |3| (abs_nonneg _) (by norm_num)]; norm_num
example : boxOut (5 : ℝ) 0 2 = 2 := by unfold boxOut; rw [gclip_eq]; norm_num
example : l2projOut (1 : ℝ) 3 5 = 3 / 5 := by rw [l2projOut_eq]; norm_num

end SigpyVerif.C11
