import SigpyVerif.Model.C01
import SigpyVerif.Lemmas.C01
import SigpyVerif.Props.C09
/-
  C01 — every linear operator's adjoint is its true adjoint.

  Everything is about the executable model `Model/C01.lean` (entry lists, `Expr`, `denote`, `adj`),
  which the correspondence check compares with the real operators' matrices on every run, and about
  the `Gen.*` loop nests regenerated from block.py / interp.py.  Scalars: any commutative star ring
  (ℂ in particular); `⟨a,b⟩ = Σ conj(a)·b` is numpy's `vdot`.

  Proved here: the algebra (`coo_adjoint`, composition / sum / conjugation / stacking rules,
  `adj_denote` by structural induction over a leaf predicate `P`) and the leaf pairs Identity,
  Reshape, Slice↔Embed.  Props/C01Leaves.lean discharges the leaf hypothesis for Transpose, Resize,
  Flip, Circshift, Down/Upsample, Sum/Tile, Multiply, Props/C01MatMul.lean for MatMul / RightMatMul,
  Props/C01LeavesGen.lean for ArrayToBlocks/BlocksToArray and Interpolate/Gridding (`adj_denote_leaves`);
  Props/C01Gen.lean ties `adj` to the translation of every `_adjoint_linop`; Props/C01Ext.lean and
  Props/C01Fft.lean import convolution and FFT leaves from C08 / C05.
-/
set_option linter.unusedSectionVars false
namespace SigpyVerif.C01
open SigpyVerif

section
variable {α : Type} [CommRing α] [StarRing α]

/-- the action is additive in the entry list: the matrix of `A + B` is the concatenation -/
theorem applyF_append {ι κ : Type} [DecidableEq ι] (A B : List (ι × κ × α)) (x : κ → α) (o : ι) :
    applyF (A ++ B) x o = applyF A x o + applyF B x o := applyF_append' A B x o

/-- `compE` is the matrix product: `Compose([A, B])(x) = A(B(x))` -/
theorem applyF_compE {ι κ μ : Type} [DecidableEq ι] [DecidableEq κ]
    (A : List (ι × κ × α)) (B : List (κ × μ × α)) (x : μ → α) (o : ι) :
    applyF (compE A B) x o = applyF A (applyF B x) o := by
  induction A with
  | nil => simp [compE, applyF]
  | cons a A ih =>
    have h : compE (a :: A) B =
        (B.filterMap fun b => if a.2.1 = b.1 then some (a.1, b.2.1, a.2.2 * b.2.2) else none)
          ++ compE A B := by simp [compE]
    rw [h, applyF_append', ih, applyF_cons, applyF_row]

/-- `conjE` is the matrix of `Conj(A)`: `x ↦ conj(A(conj x))` -/
theorem applyF_conjE {ι κ : Type} [DecidableEq ι] (E : List (ι × κ × α)) (x : κ → α) (o : ι) :
    applyF (conjE star E) x o = star (applyF E (fun i => star (x i)) o) := by
  induction E with
  | nil => simp [conjE, applyF]
  | cons e E ih =>
    have h : conjE star (e :: E) = (e.1, e.2.1, star e.2.2) :: conjE star E := by simp [conjE]
    rw [h, applyF_cons, applyF_cons, ih, star_add]
    congr 1
    by_cases ho : e.1 = o <;> simp [ho, star_mul']

/-- **Core theorem.** For any entry list `E` (out index, in index, weight) over a commutative ring
    with conjugation, whose indices lie in the (duplicate-free) index lists `I`, `J`:
    `⟨E x, y⟩ = ⟨x, Eᴴ y⟩` where `Eᴴ = adjE E` swaps the indices and conjugates the weights. -/
theorem coo_adjoint {ι κ : Type} [DecidableEq ι] [DecidableEq κ] (I : List ι) (J : List κ)
    (hI : I.Nodup) (hJ : J.Nodup) (E : List (ι × κ × α)) (hE : ∀ e ∈ E, e.1 ∈ I ∧ e.2.1 ∈ J)
    (x : κ → α) (y : ι → α) :
    dotL star I (applyF E x) y = dotL star J x (applyF (adjE star E) y) := by
  induction E with
  | nil => simp [adjE, applyF, dotL]
  | cons e E ih =>
    have hadj : adjE star (e :: E) = (e.2.1, e.1, star e.2.2) :: adjE star E := by simp [adjE]
    have h1 : applyF (e :: E) x = fun o => (if e.1 = o then e.2.2 * x e.2.1 else 0) + applyF E x o := by
      funext o; exact applyF_cons e E x o
    have h2 : applyF (adjE star (e :: E)) y =
        fun j => (if e.2.1 = j then star e.2.2 * y e.1 else 0) + applyF (adjE star E) y j := by
      funext j; rw [hadj]; exact applyF_cons _ _ y j
    rw [h1, h2, dotL_add_left, dotL_add_right, ih (fun e' he' => hE e' (List.mem_cons_of_mem _ he'))]
    congr 1
    obtain ⟨heI, heJ⟩ := hE e (List.mem_cons_self ..)
    unfold dotL
    have e1 : (I.map fun i => star (if e.1 = i then e.2.2 * x e.2.1 else 0) * y i)
        = I.map fun i => if e.1 = i then star (e.2.2 * x e.2.1) * y i else 0 := by
      apply List.map_congr_left; intro i _; by_cases h : e.1 = i <;> simp [h]
    have e2 : (J.map fun j => star (x j) * (if e.2.1 = j then star e.2.2 * y e.1 else 0))
        = J.map fun j => if e.2.1 = j then star (x j) * (star e.2.2 * y e.1) else 0 := by
      apply List.map_congr_left; intro j _; by_cases h : e.2.1 = j <;> simp [h]
    rw [e1, e2, sum_ite_single I hI e.1 heI, sum_ite_single J hJ e.2.1 heJ, star_mul']
    ring

/-- an `n × m` entry list and its conjugate transpose are adjoint for `vdot` on `ℂ^n`, `ℂ^m` -/
theorem isAdj_of_entries (n m : Nat) (E : List (Ent α)) (h : InRange n m E) :
    IsAdj n m E (adjE star E) := by
  intro x y
  exact coo_adjoint (List.range n) (List.range m) List.nodup_range List.nodup_range E
    (fun e he => ⟨List.mem_range.mpr (h e he).1, List.mem_range.mpr (h e he).2⟩) x y

/-- `Compose._adjoint_linop`: reverse the order and take adjoints -/
theorem isAdj_comp (n k m : Nat) (A A' B B' : List (Ent α)) (hA : IsAdj n k A A') (hB : IsAdj k m B B') :
    IsAdj n m (compE A B) (compE B' A') := by
  intro x y
  have e1 : applyF (compE A B) x = applyF A (applyF B x) := by funext o; exact applyF_compE A B x o
  have e2 : applyF (compE B' A') y = applyF B' (applyF A' y) := by funext o; exact applyF_compE B' A' y o
  rw [e1, e2, hA, hB]

/-- three factors, associated the way `Diag` places its blocks: `(S_oᵀ · A · S_i)ᴴ = S_iᵀ · Aᴴ · S_o` -/
theorem isAdj_comp3 (n k l m : Nat) (A A' B B' C C' : List (Ent α)) (hA : IsAdj n k A A')
    (hB : IsAdj k l B B') (hC : IsAdj l m C C') :
    IsAdj n m (compE A (compE B C)) (compE C' (compE B' A')) := by
  intro x y
  have e1 : applyF (compE A (compE B C)) x = applyF A (applyF B (applyF C x)) := by
    funext o; rw [applyF_compE]; congr 1; funext o'; exact applyF_compE B C x o'
  have e2 : applyF (compE C' (compE B' A')) y = applyF C' (applyF B' (applyF A' y)) := by
    funext o; rw [applyF_compE]; congr 1; funext o'; exact applyF_compE B' A' y o'
  rw [e1, e2, hA, hB, hC]

/-- `Add._adjoint_linop`: termwise -/
theorem isAdj_add (n m : Nat) (A A' B B' : List (Ent α)) (hA : IsAdj n m A A') (hB : IsAdj n m B B') :
    IsAdj n m (A ++ B) (A' ++ B') := by
  intro x y
  have e1 : applyF (A ++ B) x = fun o => applyF A x o + applyF B x o := by
    funext o; exact applyF_append' A B x o
  have e2 : applyF (A' ++ B') y = fun o => applyF A' y o + applyF B' y o := by
    funext o; exact applyF_append' A' B' y o
  rw [e1, e2, dotL_add_left, dotL_add_right, hA, hB]

/-- `Conj._adjoint_linop`: `Conj(A).H = Conj(A.H)` -/
theorem isAdj_conj (n m : Nat) (A A' : List (Ent α)) (hA : IsAdj n m A A') :
    IsAdj n m (conjE star A) (conjE star A') := by
  intro x y
  have e1 : applyF (conjE star A) x = fun o => star (applyF A (fun i => star (x i)) o) := by
    funext o; exact applyF_conjE A x o
  have e2 : applyF (conjE star A') y = fun o => star (applyF A' (fun i => star (y i)) o) := by
    funext o; exact applyF_conjE A' y o
  have h := hA (fun i => star (x i)) (fun i => star (y i))
  rw [e1, e2]
  have l : dotL star (List.range n) (fun o => star (applyF A (fun i => star (x i)) o)) y
      = star (dotL star (List.range n) (applyF A fun i => star (x i)) fun i => star (y i)) := by
    unfold dotL
    rw [star_sum_list]
    · simp [List.map_map, Function.comp_def, star_mul']
  have r : dotL star (List.range m) x (fun o => star (applyF A' (fun i => star (y i)) o))
      = star (dotL star (List.range m) (fun i => star (x i)) (applyF A' fun i => star (y i))) := by
    unfold dotL
    rw [star_sum_list]
    · simp [List.map_map, Function.comp_def, star_mul']
  rw [l, r, h]

/-- a 0/1 selection (gather) and its transposed scatter are adjoint: `Slice ↔ Embed`, and the
    selections used by `Hstack`/`Vstack`/`Diag` -/
theorem isAdj_swap_gather (n m : Nat) (E : List (Ent α)) (h : InRange n m E) (hw : ∀ e ∈ E, e.2.2 = 1) :
    IsAdj n m E (swapE E) ∧ IsAdj m n (swapE E) E := by
  constructor
  · rw [← weights_one_swap E hw]; exact isAdj_of_entries n m E h
  · have hs : InRange m n (swapE E) := by
      intro e he
      have := h _ (mem_swapE.mp he)
      exact ⟨this.2, this.1⟩
    have hws : ∀ e ∈ swapE E, e.2.2 = 1 := fun e he => hw (e.2.1, e.1, e.2.2) (mem_swapE.mp he)
    have := isAdj_of_entries m n (swapE E) hs
    rwa [weights_one_swap _ hws, swapE_swapE] at this


/-! ### expression trees -/
variable (ofRat : Rat → α)

/-- "`.H` of `e` denotes the adjoint of what `e` denotes, with the shapes swapped" -/
def AdjOK (e : Expr α) : Prop :=
  ∀ s, denote star ofRat e = some s →
    ∃ s', denote star ofRat (adj star e) = some s' ∧ s'.osh = s.ish ∧ s'.ish = s.osh ∧
      IsAdj s.osz s.isz s.E s'.E

/-- every leaf of the tree satisfies `P` -/
def allLeaves (P : Leaf α → Prop) : Expr α → Prop
  | .leaf l => P l
  | .comp a b => allLeaves P a ∧ allLeaves P b
  | .add a b => allLeaves P a ∧ allLeaves P b
  | .conj a => allLeaves P a
  | .hstack _ a b => allLeaves P a ∧ allLeaves P b
  | .vstack _ a b => allLeaves P a ∧ allLeaves P b
  | .diag _ _ a b => allLeaves P a ∧ allLeaves P b

theorem catParts_spec (ax : Option Int) (a b tot : List Int) (pa pb : List (Ent α))
    (h : catParts ax a b = some (tot, pa, pb)) :
    (InRange (shapeProd a).toNat (shapeProd tot).toNat pa ∧ ∀ e ∈ pa, e.2.2 = 1) ∧
    (InRange (shapeProd b).toNat (shapeProd tot).toNat pb ∧ ∀ e ∈ pb, e.2.2 = 1) := by
  unfold catParts at h
  cases hc : catShape ax a b with
  | none => simp [hc] at h
  | some t =>
    obtain ⟨tot', d, a', b'⟩ := t
    simp only [hc, Option.map_some, Option.some.injEq, Prod.mk.injEq] at h
    obtain ⟨rfl, rfl, rfl⟩ := h
    exact ⟨⟨inRangeE_inRange _ _ _, inRangeE_weights _ _ _ (gatherE_weights _ _ _)⟩,
           ⟨inRangeE_inRange _ _ _, inRangeE_weights _ _ _ (gatherE_weights _ _ _)⟩⟩

/-- **`adj_denote`.** For every expression tree whose leaves satisfy the leaf pairing `AdjOK`
    (proved below for Identity, Reshape, Slice/Embed, Interpolate/Gridding; index-level + exact
    correspondence for the rest), the tree `adj e` built by the transcribed `_adjoint_linop` rules —
    Compose reverses, Add termwise, Hstack↔Vstack on the same axis, Diag with the axes swapped,
    `Conj(A).H = Conj(A.H)` — denotes an operator with swapped shapes that satisfies
    `⟨A x, y⟩ = ⟨x, A.H y⟩` for all `x`, `y`. -/
theorem adj_denote (P : Leaf α → Prop) (hP : ∀ l, P l → AdjOK ofRat (.leaf l)) (e : Expr α)
    (he : allLeaves P e) : AdjOK ofRat e := by
  induction e with
  | leaf l => exact hP l he
  | comp a b iha ihb =>
    intro s hs
    cases ha : denote star ofRat a with
    | none => simp [denote, ha] at hs
    | some sa =>
    cases hb : denote star ofRat b with
    | none => simp [denote, ha, hb] at hs
    | some sb =>
    simp only [denote, ha, hb] at hs
    split_ifs at hs with hsh
    obtain ⟨sa', ha', hao, hai, hA⟩ := iha he.1 sa ha
    obtain ⟨sb', hb', hbo, hbi, hB⟩ := ihb he.2 sb hb
    cases hs
    refine ⟨⟨sb'.osh, sa'.ish, compE sb'.E sa'.E⟩, ?_, hbo, hai, ?_⟩
    · simp only [adj, denote, ha', hb']
      rw [if_pos (by rw [hbi, hao, hsh])]
    · have hk : sb.osz = sa.isz := by unfold Sem.osz Sem.isz; rw [hsh]
      simp only [Sem.osz, Sem.isz] at hA hB hk ⊢
      rw [hk] at hB
      exact isAdj_comp _ _ _ _ _ _ _ hA hB
  | add a b iha ihb =>
    intro s hs
    cases ha : denote star ofRat a with
    | none => simp [denote, ha] at hs
    | some sa =>
    cases hb : denote star ofRat b with
    | none => simp [denote, ha, hb] at hs
    | some sb =>
    simp only [denote, ha, hb] at hs
    split_ifs at hs with hsh
    obtain ⟨sa', ha', hao, hai, hA⟩ := iha he.1 sa ha
    obtain ⟨sb', hb', hbo, hbi, hB⟩ := ihb he.2 sb hb
    cases hs
    refine ⟨⟨sa'.osh, sa'.ish, sa'.E ++ sb'.E⟩, ?_, hao, hai, ?_⟩
    · simp only [adj, denote, ha', hb']
      rw [if_pos ⟨by rw [hai, hbi, hsh.2], by rw [hao, hbo, hsh.1]⟩]
    · simp only [Sem.osz, Sem.isz] at hA hB ⊢
      rw [← hsh.1, ← hsh.2] at hB
      exact isAdj_add _ _ _ _ _ _ hA hB
  | conj a iha =>
    intro s hs
    cases ha : denote star ofRat a with
    | none => simp [denote, ha] at hs
    | some sa =>
    simp only [denote, ha] at hs
    obtain ⟨sa', ha', hao, hai, hA⟩ := iha he sa ha
    cases hs
    refine ⟨⟨sa'.osh, sa'.ish, conjE star sa'.E⟩, ?_, hao, hai, ?_⟩
    · simp only [adj, denote, ha']
    · exact isAdj_conj _ _ _ _ hA
  | hstack ax a b iha ihb =>
    intro s hs
    cases ha : denote star ofRat a with
    | none => simp [denote, ha] at hs
    | some sa =>
    cases hb : denote star ofRat b with
    | none => simp [denote, ha, hb] at hs
    | some sb =>
    simp only [denote, ha, hb] at hs
    split_ifs at hs with hsh
    cases hc : (catParts ax sa.ish sb.ish : Option (List Int × List (Ent α) × List (Ent α))) with
    | none => simp [hc] at hs
    | some t =>
    obtain ⟨tot, pa, pb⟩ := t
    simp only [hc] at hs
    obtain ⟨sa', ha', hao, hai, hA⟩ := iha he.1 sa ha
    obtain ⟨sb', hb', hbo, hbi, hB⟩ := ihb he.2 sb hb
    obtain ⟨⟨ra, wa⟩, ⟨rb, wb⟩⟩ := catParts_spec ax _ _ _ _ _ hc
    cases hs
    refine ⟨⟨tot, sa'.ish, compE (swapE pa) sa'.E ++ compE (swapE pb) sb'.E⟩, ?_, rfl, hai, ?_⟩
    · simp only [adj, denote, ha', hb']
      rw [if_pos (by rw [hai, hbi, hsh]), hao, hbo, hc]
    · simp only [Sem.osz, Sem.isz] at hA hB ⊢
      rw [← hsh] at hB
      exact isAdj_add _ _ _ _ _ _
        (isAdj_comp _ _ _ _ _ _ _ hA (isAdj_swap_gather _ _ pa ra wa).1)
        (isAdj_comp _ _ _ _ _ _ _ hB (isAdj_swap_gather _ _ pb rb wb).1)
  | vstack ax a b iha ihb =>
    intro s hs
    cases ha : denote star ofRat a with
    | none => simp [denote, ha] at hs
    | some sa =>
    cases hb : denote star ofRat b with
    | none => simp [denote, ha, hb] at hs
    | some sb =>
    simp only [denote, ha, hb] at hs
    split_ifs at hs with hsh
    cases hc : (catParts ax sa.osh sb.osh : Option (List Int × List (Ent α) × List (Ent α))) with
    | none => simp [hc] at hs
    | some t =>
    obtain ⟨tot, pa, pb⟩ := t
    simp only [hc] at hs
    obtain ⟨sa', ha', hao, hai, hA⟩ := iha he.1 sa ha
    obtain ⟨sb', hb', hbo, hbi, hB⟩ := ihb he.2 sb hb
    obtain ⟨⟨ra, wa⟩, ⟨rb, wb⟩⟩ := catParts_spec ax _ _ _ _ _ hc
    cases hs
    refine ⟨⟨sa'.osh, tot, compE sa'.E pa ++ compE sb'.E pb⟩, ?_, hao, rfl, ?_⟩
    · simp only [adj, denote, ha', hb']
      rw [if_pos (by rw [hao, hbo, hsh]), hai, hbi, hc]
    · simp only [Sem.osz, Sem.isz] at hA hB ⊢
      rw [← hsh] at hB
      exact isAdj_add _ _ _ _ _ _
        (isAdj_comp _ _ _ _ _ _ _ (isAdj_swap_gather _ _ pa ra wa).2 hA)
        (isAdj_comp _ _ _ _ _ _ _ (isAdj_swap_gather _ _ pb rb wb).2 hB)
  | diag oax iax a b iha ihb =>
    intro s hs
    cases ha : denote star ofRat a with
    | none => simp [denote, ha] at hs
    | some sa =>
    cases hb : denote star ofRat b with
    | none => simp [denote, ha, hb] at hs
    | some sb =>
    simp only [denote, ha, hb] at hs
    cases hci : (catParts iax sa.ish sb.ish : Option (List Int × List (Ent α) × List (Ent α))) with
    | none => simp [hci] at hs
    | some ti =>
    cases hco : (catParts oax sa.osh sb.osh : Option (List Int × List (Ent α) × List (Ent α))) with
    | none => simp [hci, hco] at hs
    | some t2 =>
    obtain ⟨itot, ia, ib⟩ := ti
    obtain ⟨otot, oa, ob⟩ := t2
    simp only [hci, hco] at hs
    obtain ⟨sa', ha', hao, hai, hA⟩ := iha he.1 sa ha
    obtain ⟨sb', hb', hbo, hbi, hB⟩ := ihb he.2 sb hb
    obtain ⟨⟨ria, wia⟩, ⟨rib, wib⟩⟩ := catParts_spec iax _ _ _ _ _ hci
    obtain ⟨⟨roa, woa⟩, ⟨rob, wob⟩⟩ := catParts_spec oax _ _ _ _ _ hco
    cases hs
    refine ⟨⟨itot, otot, compE (swapE ia) (compE sa'.E oa) ++ compE (swapE ib) (compE sb'.E ob)⟩,
      ?_, rfl, rfl, ?_⟩
    · simp only [adj, denote, ha', hb']
      rw [hai, hbi, hao, hbo, hco, hci]
    · simp only [Sem.osz, Sem.isz] at hA hB ⊢
      exact isAdj_add _ _ _ _ _ _
        (isAdj_comp3 _ _ _ _ _ _ _ _ _ _ (isAdj_swap_gather _ _ oa roa woa).2 hA
          (isAdj_swap_gather _ _ ia ria wia).1)
        (isAdj_comp3 _ _ _ _ _ _ _ _ _ _ (isAdj_swap_gather _ _ ob rob wob).2 hB
          (isAdj_swap_gather _ _ ib rib wib).1)


/-! ### leaf pairs proved at the entry level -/

theorem swapE_of_diag (E : List (Ent α)) (h : ∀ e ∈ E, e.1 = e.2.1) : swapE E = E := by
  unfold swapE
  conv_rhs => rw [← List.map_id E]
  apply List.map_congr_left
  intro e he
  have := h e he
  obtain ⟨a, b, c⟩ := e
  simp only at this
  subst this
  rfl

theorem inRangeE_swapE (n m : Nat) (E : List (Ent α)) :
    inRangeE m n (swapE E) = swapE (inRangeE n m E) := by
  unfold inRangeE swapE
  rw [List.filter_map]
  congr 1
  apply List.filter_congr
  intro e _
  simp only [Bool.decide_and]
  exact Bool.and_comm _ _

theorem idE_spec (n : Nat) : (∀ e ∈ (idE n : List (Ent α)), e.1 = e.2.1) ∧ ∀ e ∈ (idE n : List (Ent α)), e.2.2 = 1 := by
  unfold idE
  constructor <;> intro e he <;> obtain ⟨k, _, rfl⟩ := List.mem_map.mp he <;> rfl

/-- a clipped identity matrix is its own adjoint -/
theorem idE_isAdj (n m k : Nat) : IsAdj n m (inRangeE n m (idE k : List (Ent α))) (inRangeE m n (idE k)) := by
  have hw : ∀ e ∈ inRangeE n m (idE k : List (Ent α)), e.2.2 = 1 :=
    inRangeE_weights _ _ _ (idE_spec k).2
  have h := (isAdj_swap_gather n m _ (inRangeE_inRange n m (idE k : List (Ent α))) hw).1
  rwa [← inRangeE_swapE, swapE_of_diag _ (idE_spec k).1] at h

/-- `Identity.H = Identity` is the true adjoint -/
theorem identity_leaf_adjoint (sh : List Int) : AdjOK ofRat (.leaf (.identity sh : Leaf α)) := by
  intro s hs
  simp only [denote, leafSem, leafSem0, Option.map_some, Option.some.injEq] at hs
  subst hs
  have hd : denote star ofRat (adj star (.leaf (.identity sh : Leaf α)))
      = some (Sem.clip ⟨sh, sh, idE (shapeProd sh).toNat⟩) := by
    simp only [adj, adjLeaf, denote, leafSem, leafSem0, Option.map_some]
  exact ⟨_, hd, rfl, rfl, idE_isAdj _ _ _⟩

/-- `Reshape(o, i).H = Reshape(i, o)` is the true adjoint (row-major flat index is unchanged) -/
theorem reshape_leaf_adjoint (osh ish : List Int) : AdjOK ofRat (.leaf (.reshape osh ish : Leaf α)) := by
  intro s hs
  simp only [denote, leafSem, leafSem0] at hs
  by_cases hp : shapeProd osh = shapeProd ish
  swap
  · simp [hp] at hs
  simp only [if_pos hp, Option.map_some, Option.some.injEq] at hs
  subst hs
  have hd : denote star ofRat (adj star (.leaf (.reshape osh ish : Leaf α)))
      = some (Sem.clip ⟨ish, osh, idE (shapeProd osh).toNat⟩) := by
    simp only [adj, adjLeaf, denote, leafSem, leafSem0, if_pos hp.symm, Option.map_some]
  refine ⟨_, hd, rfl, rfl, ?_⟩
  simp only [Sem.clip, Sem.osz, Sem.isz]
  rw [hp]
  exact idE_isAdj _ _ _

/-- `Slice(shape, idx).H = Embed(shape, idx)` is the true adjoint, for every tuple of Python slices
    (positive and negative steps, negative / omitted bounds) -/
theorem slice_leaf_adjoint (ish : List Int) (idx : List PySlice) :
    AdjOK ofRat (.leaf (.slice ish idx : Leaf α)) := by
  intro s hs
  simp only [denote, leafSem, leafSem0] at hs
  cases hsl : (sliceSem ish idx : Option (Sem α)) with
  | none => simp [hsl] at hs
  | some t =>
    simp only [hsl, Option.map_some, Option.some.injEq] at hs
    subst hs
    have hd : denote star ofRat (adj star (.leaf (.slice ish idx : Leaf α)))
        = some (Sem.clip ⟨t.ish, t.osh, swapE t.E⟩) := by
      simp only [adj, adjLeaf, denote, leafSem, leafSem0, hsl, Option.map_some]
    refine ⟨_, hd, rfl, rfl, ?_⟩
    simp only [Sem.clip, Sem.osz, Sem.isz]
    rw [inRangeE_swapE]
    have hw : ∀ e ∈ t.E, e.2.2 = 1 := by
      unfold sliceSem at hsl
      cases hps : sliceParams ish idx with
      | none => simp [hps] at hsl
      | some ps =>
        simp only [hps, Option.bind_eq_bind, Option.bind_some, Option.pure_def, Option.some.injEq] at hsl
        subst hsl
        exact gatherE_weights _ _ _
    exact (isAdj_swap_gather _ _ _ (inRangeE_inRange _ _ _) (inRangeE_weights _ _ _ hw)).1

/-- `Embed(shape, idx).H = Slice(shape, idx)` is the true adjoint -/
theorem embed_leaf_adjoint (osh : List Int) (idx : List PySlice) :
    AdjOK ofRat (.leaf (.embed osh idx : Leaf α)) := by
  intro s hs
  simp only [denote, leafSem, leafSem0] at hs
  cases hsl : (sliceSem osh idx : Option (Sem α)) with
  | none => simp [hsl] at hs
  | some t =>
    simp only [hsl, Option.map_some, Option.some.injEq] at hs
    subst hs
    have hd : denote star ofRat (adj star (.leaf (.embed osh idx : Leaf α))) = some (Sem.clip t) := by
      simp only [adj, adjLeaf, denote, leafSem, leafSem0, hsl, Option.map_some]
    refine ⟨_, hd, rfl, rfl, ?_⟩
    simp only [Sem.clip, Sem.osz, Sem.isz]
    rw [inRangeE_swapE]
    have hw : ∀ e ∈ t.E, e.2.2 = 1 := by
      unfold sliceSem at hsl
      cases hps : sliceParams osh idx with
      | none => simp [hps] at hsl
      | some ps =>
        simp only [hps, Option.bind_eq_bind, Option.bind_some, Option.pure_def, Option.some.injEq] at hsl
        subst hsl
        exact gatherE_weights _ _ _
    exact (isAdj_swap_gather _ _ _ (inRangeE_inRange _ _ _) (inRangeE_weights _ _ _ hw)).2

/-- the leaf classes whose pairing is proved at the entry level in this file -/
def ProvedLeaf : Leaf α → Prop
  | .identity _ => True
  | .reshape _ _ => True
  | .slice _ _ => True
  | .embed _ _ => True
  | _ => False

/-- **Unconditional instance of `adj_denote`:** every tree built from Identity / Reshape / Slice /
    Embed leaves with Compose, Add, Conj, Hstack, Vstack, Diag (in particular every pure stacking /
    selection network) has `⟨A x, y⟩ = ⟨x, A.H y⟩` and swapped shapes. -/
theorem adj_denote_shapes (e : Expr α) (he : allLeaves ProvedLeaf e) : AdjOK ofRat e := by
  refine adj_denote ofRat ProvedLeaf ?_ e he
  intro l hl
  cases l <;> simp only [ProvedLeaf] at hl
  · exact identity_leaf_adjoint ofRat _
  · exact reshape_leaf_adjoint ofRat _ _
  · exact slice_leaf_adjoint ofRat _ _
  · exact embed_leaf_adjoint ofRat _ _

/-- one axis of `Resize`: the copy relation of `Resize(o,i,ishift,oshift)` is the transpose of the
    relation of `Resize(i,o,oshift,ishift)` (from Props/C09), which is what `Resize._adjoint_linop` builds -/
theorem resize_axis_adjoint (i o si so k j : Int) :
    C09.resizeSrc1 i o si so k = some j ↔ C09.resizeSrc1 o i so si j = some k :=
  C09.resize_transpose i o si so k j

example : allLeaves (α := α) ProvedLeaf
    (.hstack (some 0) (.leaf (.identity [2, 3])) (.comp (.leaf (.slice [4, 3] [⟨some 1, some 3, none⟩])) (.leaf (.identity [4, 3])))) := by
  simp [allLeaves, ProvedLeaf]

end
end SigpyVerif.C01
