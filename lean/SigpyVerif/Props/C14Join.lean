/-
  C14, part "end to end": the GENERATED set-ups of `LinearLeastSquares` (Gen/C14Setup.lean) joined with the solver
  theorems of C12 (`ConjugateGradient`, the GENERATED machine `Gen.C12.init/update/done`) and C13 (`GradientMethod`,
  `PrimalDualHybridGradient`, machines sequencing the GENERATED `Gen.C13.*` formulas).  Real or complex data
  (`𝕜 = ℝ` or `ℂ`, class `ReInner`, Props/C14Cplx.lean).

  (a) CG route.  `cgSysK` is the generated system operator as a `𝕜`-linear map (`cgSysK_eq`); it is Hermitian
      (`cgSysK_symm`), positive semi-definite for `λ ≥ 0` (`cgSysK_psd`) and positive definite when `λ > 0` or `A` is
      injective (`cgSysK_hpd`: C12's `HPD`).  `cg_route_reaches_minimiser`: in exact arithmetic the generated CG
      machine run on the generated system from ANY start vector reaches THE minimiser of the documented objective after
      `K ≤ dim` updates, all of them regular, `done()` is false before and true at `K` for every `tol ≥ 0`.
      Semi-definite consistent case (`λ = 0`, `A` not injective): C12's theorems need `HPD` and say nothing directly;
      what holds is `cg_route_psd_partial`: every solution of the generated system is a (non-unique) global minimiser,
      and an update breaks down (`pAp ≤ 0`) exactly when the search direction lies in the kernel of `A`.
  (b) GradientMethod route.  `gm_route_rate`: with the generated default `alpha` (`alpha=None`) and `max_eig` a bound of
      the Rayleigh quotient of the operator the set-up handed to `MaxEig`, the iterates of the C13 machine driven by the
      generated `gradf` satisfy `F(x_k) - F(w) ≤ ‖x₀-w‖²/(2 alpha k)` (un-accelerated) and
      `F(x_{k+1}) - F(w) ≤ 2‖x₀-w‖²/(alpha (k+2)²)` (`accelerate=True`, the default) for EVERY comparison point `w`,
      `F` the documented objective.
  (c) PDHG route (PARTIAL).  `pdhg_route_fejer_noG_partial`: without `G` and with `λ > 0` (then `gamma_primal = λ > 0`,
      `gamma_dual = 1 > 0`: the step-size block of the solver takes its `else` branch, constant steps, `pdStep_both_pos`)
      and the generated default `tau` (`tau=None`), every step-related hypothesis of C13's `pdhg_fejer_monotone` holds
      (`tau, sigma > 0`, `tau·sigma·‖A‖² ≤ 1`, the generated dual prox is the prox of the conjugate data term:
      `proxfc_data_proxOf`), hence the coupled distance to any saddle point never increases.  Still hypotheses: the
      generated primal prox tree is the variational prox of `g + λ/2‖·-z‖²`, and a KKT point is a saddle point.
      Not covered: `λ = 0` without `G` (`gamma_dual = 1`: accelerated, outside C13's theorem) and the set-up with `G`.
  (d) `ista_descent_relaxed`: what survives the power-method gap (Props/C14Power.lean).
-/
import SigpyVerif.Props.C14Cplx
import SigpyVerif.Props.C12
import SigpyVerif.Props.C13

namespace SigpyVerif.C14
open SigpyVerif.Gen.C14
open RCLike
open scoped RealInnerProductSpace

set_option linter.unusedSectionVars false
set_option linter.unusedVariables false

variable {𝕜 : Type} [RCLike 𝕜]
variable {E F : Type}
  [NormedAddCommGroup E] [InnerProductSpace 𝕜 E] [InnerProductSpace ℝ E] [IsScalarTower ℝ 𝕜 E] [ReInner 𝕜 E]
  [NormedAddCommGroup F] [InnerProductSpace 𝕜 F] [InnerProductSpace ℝ F] [IsScalarTower ℝ 𝕜 F] [ReInner 𝕜 F]

/-! ## (a) ConjugateGradient route -/

/-- the system operator `AᴴA + λI` as a `𝕜`-linear map -/
def cgSysK (A : E →ₗ[𝕜] F) (AH : F →ₗ[𝕜] E) (lam : ℝ) : E →ₗ[𝕜] E := AH ∘ₗ A + (lam : 𝕜) • LinearMap.id

theorem cgSysK_apply (A : E →ₗ[𝕜] F) (AH : F →ₗ[𝕜] E) (lam : ℝ) (v : E) :
    cgSysK A AH lam v = AH (A v) + lam • v := by
  rw [real_smul_eq (𝕜 := 𝕜)]; rfl

/-- the operator the GENERATED set-up hands to `ConjugateGradient` IS `cgSysK` -/
theorem cgSysK_eq (A : E →ₗ[𝕜] F) (AH : F →ₗ[𝕜] E) (y : F) (lam : ℝ) (z : Option E) :
    (cgArgs A AH y lam z).sys = ⇑(cgSysK A AH lam) := by
  funext x
  rw [cgArgs_sys_rc, cgSysK_apply]

/-- it is Hermitian -/
theorem cgSysK_symm (A : E →ₗ[𝕜] F) (AH : F →ₗ[𝕜] E) (hA : IsAdjK A AH) (lam : ℝ) (u v : E) :
    inner 𝕜 (cgSysK A AH lam u) v = inner 𝕜 u (cgSysK A AH lam v) := by
  have h1 : inner 𝕜 (AH (A u)) v = inner 𝕜 (A u) (A v) := by
    rw [← inner_conj_symm, ← hA v (A u), inner_conj_symm]
  have h2 : inner 𝕜 u (AH (A v)) = inner 𝕜 (A u) (A v) := (hA u (A v)).symm
  simp only [cgSysK, LinearMap.add_apply, LinearMap.comp_apply, LinearMap.smul_apply, LinearMap.id_apply,
    inner_add_left, inner_add_right, inner_smul_left, inner_smul_right, RCLike.conj_ofReal, h1, h2]

/-- its quadratic form is `‖A v‖² + λ‖v‖²` -/
theorem cgSysK_quad (A : E →ₗ[𝕜] F) (AH : F →ₗ[𝕜] E) (hA : IsAdjK A AH) (lam : ℝ) (v : E) :
    re (inner 𝕜 v (cgSysK A AH lam v)) = ‖A v‖ ^ 2 + lam * ‖v‖ ^ 2 := by
  rw [← ReInner.re_inner (𝕜 := 𝕜), cgSysK_apply]
  exact hessian_quad (A.restrictScalars ℝ) (AH.restrictScalars ℝ) (isAdj_restrict A AH hA) lam v

/-- positive semi-definite for `λ ≥ 0` -/
theorem cgSysK_psd (A : E →ₗ[𝕜] F) (AH : F →ₗ[𝕜] E) (hA : IsAdjK A AH) (lam : ℝ) (hl : 0 ≤ lam) (v : E) :
    0 ≤ re (inner 𝕜 v (cgSysK A AH lam v)) := by
  rw [cgSysK_quad A AH hA]; positivity

theorem pd_of_reg_or_inj (A : E →ₗ[𝕜] F) (lam : ℝ) (hl : 0 ≤ lam) (hpd : 0 < lam ∨ Function.Injective A)
    (h : E) (hh : h ≠ 0) : 0 < ‖A h‖ ^ 2 + lam * ‖h‖ ^ 2 := by
  have hn : 0 < ‖h‖ := norm_pos_iff.mpr hh
  rcases hpd with hp | hinj
  · have : 0 < lam * ‖h‖ ^ 2 := by positivity
    have : 0 ≤ ‖A h‖ ^ 2 := by positivity
    linarith
  · have hne : A h ≠ 0 := fun h0 => hh (hinj (by rw [h0, map_zero]))
    have : 0 < ‖A h‖ := norm_pos_iff.mpr hne
    have : 0 ≤ lam * ‖h‖ ^ 2 := by positivity
    have : 0 < ‖A h‖ ^ 2 := by positivity
    linarith

/-- Hermitian positive definite (the hypothesis `HPD` of C12's theorems) when `λ > 0` or `A` is injective -/
theorem cgSysK_hpd (A : E →ₗ[𝕜] F) (AH : F →ₗ[𝕜] E) (hA : IsAdjK A AH) (lam : ℝ) (hl : 0 ≤ lam)
    (hpd : 0 < lam ∨ Function.Injective A) : C12.HPD (cgSysK A AH lam) :=
  ⟨cgSysK_symm A AH hA lam, fun v hv => by rw [cgSysK_quad A AH hA]; exact pd_of_reg_or_inj A lam hl hpd v hv⟩

/-- the `not_positive_definite` flag stays `False` while the updates are regular -/
theorem cg_npd_false_of_regular (T P : E →ₗ[𝕜] E) (b x0 : E) (M : ℤ) (k : ℕ)
    (h : ∀ j < k, 0 < C12.pAp T P b x0 M j) : (C12.st T P b x0 M k).npd = false := by
  induction k with
  | zero => rw [C12.st_zero]
  | succ k ih =>
    have hk := ih (fun j hj => h j (Nat.lt_succ_of_lt hj))
    have hpos := h k (Nat.lt_succ_self k)
    have hnp : ¬ (re (inner 𝕜 (C12.st T P b x0 M k).p (T (C12.st T P b x0 M k).p)) ≤ 0) := not_le.mpr hpos
    show (C12.update (C12.ipOps 𝕜) (⇑T) (some ⇑P) M (C12.st T P b x0 M k)).npd = false
    simp only [C12.update, Gen.C12.update, Gen.C12.update_, C12.ipOps, hnp, decide_false, Bool.false_eq_true,
      if_false]
    split_ifs <;> exact hk

/-- **CG route, end to end** (real or complex data, exact arithmetic).  `λ ≥ 0` and (`λ > 0` or `A` injective); finite
    dimension `n`; budget `max_iter > n`; no preconditioner (`P=None`, what `LinearLeastSquares` passes by default); any
    start vector.  The GENERATED `ConjugateGradient` machine (`C12.run` = `Gen.C12.init/update`) run on the GENERATED system
    (`cgArgs … .sys`, `.rhs`) reaches after some `K ≤ n` updates the UNIQUE minimiser of `½‖Ax-y‖² + λ/2‖x-z‖²`;
    `done()` (any `tol ≥ 0`) is then true, and with `tol = 0` it was false before: `while not done(): update()` performs
    exactly `K` updates and returns the minimiser. -/
theorem cg_route_reaches_minimiser [FiniteDimensional 𝕜 E] (A : E →ₗ[𝕜] F) (AH : F →ₗ[𝕜] E) (hA : IsAdjK A AH)
    (y : F) (lam : ℝ) (hl : 0 ≤ lam) (hpd : 0 < lam ∨ Function.Injective A) (z : Option E) (x0 : E) (M : ℤ)
    (hM : (Module.finrank 𝕜 E : ℤ) ≤ M - 1) :
    ∃ K ≤ Module.finrank 𝕜 E,
      (∀ x', x' ≠ (C12.run (C12.ipOps 𝕜) (cgArgs A AH y lam z).sys none (cgArgs A AH y lam z).rhs x0 M K).x →
        1 / 2 * ‖A (C12.run (C12.ipOps 𝕜) (cgArgs A AH y lam z).sys none (cgArgs A AH y lam z).rhs x0 M K).x - y‖ ^ 2
          + lam / 2 * ‖(C12.run (C12.ipOps 𝕜) (cgArgs A AH y lam z).sys none (cgArgs A AH y lam z).rhs x0 M K).x - zOf z‖ ^ 2
        < 1 / 2 * ‖A x' - y‖ ^ 2 + lam / 2 * ‖x' - zOf z‖ ^ 2) ∧
      (∀ tol : ℝ, 0 ≤ tol → C12.done (C12.ipOps 𝕜) M tol
        (C12.run (C12.ipOps 𝕜) (cgArgs A AH y lam z).sys none (cgArgs A AH y lam z).rhs x0 M K) = true) ∧
      (∀ j < K, C12.done (C12.ipOps 𝕜) M 0
        (C12.run (C12.ipOps 𝕜) (cgArgs A AH y lam z).sys none (cgArgs A AH y lam z).rhs x0 M j) = false) := by
  set T := cgSysK A AH lam with hT
  set b := (cgArgs A AH y lam z).rhs with hb
  have hTP : C12.HPD T := cgSysK_hpd A AH hA lam hl hpd
  have hI : C12.HPD (LinearMap.id : E →ₗ[𝕜] E) := C12.hpd_id
  have hrun : ∀ k, C12.run (C12.ipOps 𝕜) (cgArgs A AH y lam z).sys none b x0 M k = C12.st T LinearMap.id b x0 M k := by
    intro k
    rw [cgSysK_eq A AH y lam z, C12.run_none]; rfl
  simp only [hrun]
  -- the first update that meets non-positive curvature, or `n` if there is none
  have key : ∃ K ≤ Module.finrank 𝕜 E, (∀ j < K, 0 < C12.pAp T LinearMap.id b x0 M j) ∧
      (C12.st T LinearMap.id b x0 M K).r = 0 ∧ T (C12.st T LinearMap.id b x0 M K).x = b := by
    by_cases hall : ∀ j < Module.finrank 𝕜 E, 0 < C12.pAp T LinearMap.id b x0 M j
    · exact ⟨_, le_rfl, hall, C12.cg_finite T LinearMap.id b x0 M hTP hI hall hM⟩
    · have hex : ∃ j, j < Module.finrank 𝕜 E ∧ C12.pAp T LinearMap.id b x0 M j ≤ 0 := by
        by_contra hc
        exact hall (fun j hj => not_le.mp (fun hle => hc ⟨j, hj, hle⟩))
      classical
      refine ⟨Nat.find hex, (Nat.find_spec hex).1.le, ?_, ?_⟩
      · intro j hj
        have := Nat.find_min hex hj
        exact not_le.mp (fun hle => this ⟨hj.trans (Nat.find_spec hex).1, hle⟩)
      · have hreg : ∀ j < Nat.find hex, 0 < C12.pAp T LinearMap.id b x0 M j := by
          intro j hj
          have := Nat.find_min hex hj
          exact not_le.mp (fun hle => this ⟨hj.trans (Nat.find_spec hex).1, hle⟩)
        have hle : ((Nat.find hex : ℕ) : ℤ) ≤ M - 1 := by
          have := (Nat.find_spec hex).1
          omega
        exact C12.cg_breakdown_converged T LinearMap.id b x0 M hTP hI _ hreg hle (Nat.find_spec hex).2
  obtain ⟨K, hKn, hreg, hr0, hsol⟩ := key
  have hKM : (K : ℤ) ≤ M - 1 := by omega
  refine ⟨K, hKn, ?_, ?_, ?_⟩
  · intro x' hne
    have hx : (cgArgs A AH y lam z).sys (C12.st T LinearMap.id b x0 M K).x = (cgArgs A AH y lam z).rhs := by
      rw [cgSysK_eq A AH y lam z]; exact hsol
    exact cg_unique_minimiser_rc A AH hA y lam z _ (pd_of_reg_or_inj A lam hl hpd) hx x' hne
  · intro tol htol
    have h2 : (C12.st T LinearMap.id b x0 M K).resid2 = 0 := by
      have e1 : (C12.st T LinearMap.id b x0 M K).resid2 = (C12.st T LinearMap.id b x0 M K).rzold :=
        C12.resid2_eq_rzold _ _ _ _ _ _ _
      rw [e1, C12.rz_always, hr0]; simp
    simp only [C12.done, Gen.C12.done, C12.ipOps, h2, Real.sqrt_zero, htol, decide_true, Bool.or_true]
  · intro j hj
    have hregj : ∀ i < j, 0 < C12.pAp T LinearMap.id b x0 M i := fun i hi => hreg i (hi.trans hj)
    have hjM : (j : ℤ) ≤ M - 1 := by omega
    have hIj := C12.inv_all T LinearMap.id b x0 M hTP hI j hregj hjM
    have hnpd := cg_npd_false_of_regular T LinearMap.id b x0 M j hregj
    have hit : (C12.st T LinearMap.id b x0 M j).iter = j := C12.iter_counts_updates _ _ _ _ _ _ _
    have hres : ¬ Real.sqrt (C12.st T LinearMap.id b x0 M j).resid2 ≤ 0 := by
      intro hle
      have e1 : (C12.st T LinearMap.id b x0 M j).resid2 = (C12.st T LinearMap.id b x0 M j).rzold :=
        C12.resid2_eq_rzold _ _ _ _ _ _ _
      have hnn : 0 ≤ (C12.st T LinearMap.id b x0 M j).rzold := by rw [C12.rz_always]; exact hI.nonneg _
      have h0 : (C12.st T LinearMap.id b x0 M j).rzold = 0 := by
        rw [e1] at hle
        have := Real.sqrt_eq_zero'.mp (le_antisymm hle (Real.sqrt_nonneg _))
        linarith
      have hp0 := hIj.p0 h0
      have := hreg j hj
      rw [C12.pAp, hp0] at this
      simp at this
    have hiter : ¬ ((C12.st T LinearMap.id b x0 M j).iter ≥ M) := by rw [hit]; omega
    simp only [C12.done, Gen.C12.done, C12.ipOps, hnpd, hres, hiter, decide_false, Bool.or_false]

/-- **semi-definite case** (`λ = 0`, `A` not injective; PARTIAL — C12's theorems need `HPD` and do not apply): for
    `λ ≥ 0` every solution of the generated system — in particular whatever CG converges to when the system is
    consistent — is a global (not necessarily unique) minimiser of the documented objective; the curvature `pAp` the
    solver tests is `‖A p‖² + λ‖p‖² ≥ 0`, so with `λ = 0` a breakdown `pAp ≤ 0` happens exactly for `p ∈ ker A`. -/
theorem cg_route_psd_partial (A : E →ₗ[𝕜] F) (AH : F →ₗ[𝕜] E) (hA : IsAdjK A AH) (y : F) (lam : ℝ) (hl : 0 ≤ lam)
    (z : Option E) :
    (∀ x, (cgArgs A AH y lam z).sys x = (cgArgs A AH y lam z).rhs →
      ∀ x', 1 / 2 * ‖A x - y‖ ^ 2 + lam / 2 * ‖x - zOf z‖ ^ 2 ≤ 1 / 2 * ‖A x' - y‖ ^ 2 + lam / 2 * ‖x' - zOf z‖ ^ 2) ∧
    (∀ p : E, (C12.ipOps 𝕜 (E := E)).rdot p ((cgArgs A AH y lam z).sys p) = ‖A p‖ ^ 2 + lam * ‖p‖ ^ 2) ∧
    (lam = 0 → ∀ p : E, (C12.ipOps 𝕜 (E := E)).nonpos ((C12.ipOps 𝕜 (E := E)).rdot p ((cgArgs A AH y lam z).sys p)) = true ↔ A p = 0) := by
  have hq : ∀ p : E, (C12.ipOps 𝕜 (E := E)).rdot p ((cgArgs A AH y lam z).sys p) = ‖A p‖ ^ 2 + lam * ‖p‖ ^ 2 := by
    intro p
    rw [cgSysK_eq A AH y lam z]
    exact cgSysK_quad A AH hA lam p
  refine ⟨fun x hx => (cg_normal_eq_rc A AH hA y lam hl z x).mp hx, hq, ?_⟩
  intro h0 p
  rw [hq p, h0]
  simp only [C12.ipOps, zero_mul, add_zero, decide_eq_true_eq]
  constructor
  · intro h
    have : ‖A p‖ ^ 2 = 0 := le_antisymm h (sq_nonneg _)
    exact norm_eq_zero.mp (pow_eq_zero_iff two_ne_zero |>.mp this)
  · intro h; rw [h, norm_zero]; norm_num

/-! ## (b) GradientMethod route -/

/-- **GradientMethod route, end to end** (real or complex data).  `alpha=None`: the set-up runs `MaxEig` on
    `AᴴA + λI` and takes `alpha = 1/max_eig`.  If `max_eig` bounds the Rayleigh quotient of the operator the GENERATED
    set-up handed to `MaxEig`, then for the iterates of `GradientMethod` (C13's machine over the GENERATED update
    formulas) driven by the GENERATED `gradf` and `alpha`, with `proxg` the prox of `g` (or `None`, `g = 0`), and EVERY
    comparison point `w` (e.g. a minimiser), `F(x) = ½‖Ax-y‖² + g(x) + λ/2‖x-z‖²`:
      `accelerate=False`: `F(x_k) - F(w) ≤ ‖x₀-w‖² / (2 alpha k)`   (`k ≥ 1`),
      `accelerate=True` (the default): `F(x_{k+1}) - F(w) ≤ 2‖x₀-w‖² / (alpha (k+2)²)`. -/
theorem gm_route_rate (A : E →ₗ[𝕜] F) (AH : F →ₗ[𝕜] E) (hA : IsAdjK A AH) (y : F) (lam : ℝ) (hl : 0 ≤ lam)
    (z : Option E) (me : ℝ) (hme : 0 ≤ me)
    (hR : ∀ f, (gmArgs A AH y lam z none me).eig = .primal f → ∀ h, re (inner 𝕜 h (f h)) ≤ me * ‖h‖ ^ 2)
    (g : E → ℝ) (proxg : Option (ℝ → E → E)) (hg : C13.ProxOpt g proxg) (x0 w : E) :
    let a := gmArgs A AH y lam z none me
    let Fo := fun x : E => 1 / 2 * ‖A x - y‖ ^ 2 + g x + lam / 2 * ‖x - zOf z‖ ^ 2
    (∀ k : ℕ, 0 < k →
      Fo (C13.gmRun Real.sqrt a.gradf proxg a.alpha false x0 k).x - Fo w ≤ ‖x0 - w‖ ^ 2 / (2 * a.alpha * k)) ∧
    (∀ k : ℕ,
      Fo (C13.gmRun Real.sqrt a.gradf proxg a.alpha true x0 (k + 1)).x - Fo w
        ≤ 2 * ‖x0 - w‖ ^ 2 / (a.alpha * ((k : ℝ) + 2) ^ 2)) := by
  intro a Fo
  have hAr := isAdj_restrict A AH hA
  have hd := default_steps_gm (A.restrictScalars ℝ) (AH.restrictScalars ℝ) hAr y lam z me hme
    (fun f hf h => by rw [ReInner.re_inner (𝕜 := 𝕜)]; exact hR f hf h)
  obtain ⟨hα, hL, hdesc⟩ := hd
  set f : E → ℝ := fun x => 1 / 2 * ‖A x - y‖ ^ 2 + lam / 2 * ‖x - zOf z‖ ^ 2 with hfdef
  have hconv : C13.ConvexGrad f a.gradf := fun x w' =>
    gm_convex_grad (A.restrictScalars ℝ) (AH.restrictScalars ℝ) hAr y lam hl z none me x w'
  have hdes : C13.Descent f a.gradf me := fun x p => hdesc x p
  have hFo : ∀ x, Fo x = f x + g x := by intro x; simp only [Fo, hfdef]; ring
  refine ⟨fun k hk => ?_, fun k => ?_⟩
  · rw [hFo, hFo]
    exact C13.ista_rate Real.sqrt f g a.gradf proxg a.alpha me hα hL hconv hdes hg x0 w k hk
  · rw [hFo, hFo]
    exact C13.fista_rate f g a.gradf proxg a.alpha me hα hL hconv hdes hg x0 w k

/-! ## (c) PrimalDualHybridGradient route (partial) -/

/-- (i) both gammas positive: the step-size block of `PrimalDualHybridGradient._update` takes its `else` branch -/
theorem pdStep_both_pos {E F : Type} [NormedAddCommGroup E] [InnerProductSpace ℝ E] [NormedAddCommGroup F]
    [InnerProductSpace ℝ F] (K : E → F) (KH : F → E) (pfc : ℝ → F → F) (pg : ℝ → E → E) (γp γd θ0 : ℝ)
    (hp : 0 < γp) (hd : 0 < γd) (s : C13.PDState ℝ E F ℝ ℝ) :
    C13.pdStep Real.sqrt K KH pfc pg γp γd θ0 s = C13.pdStep Real.sqrt K KH pfc pg 0 0 θ0 s := by
  have e : (C13.pdRescale Real.sqrt γp γd θ0 s.tau s.sigma s.tau_min s.sigma_min : C13.Rescale ℝ ℝ ℝ)
      = C13.pdRescale Real.sqrt 0 0 θ0 s.tau s.sigma s.tau_min s.sigma_min := by
    simp [C13.pdRescale, hp.ne', hd.ne']
  simp only [C13.pdStep, e]

/-- (ii) the dual prox of the generated set-up is the proximal map (variational form of C13) of the conjugate data term -/
theorem proxfc_data_proxOf {F : Type} [NormedAddCommGroup F] [InnerProductSpace ℝ F] (y : F) :
    C13.ProxOf (fDataConj y) ((PD.l2reg (1 : ℝ) (some (-y))).eval (fun _ v => v)) := by
  intro α v hα q
  set p := (PD.l2reg (1 : ℝ) (some (-y))).eval (fun _ v => v) α v with hp
  have h := (proxfc_data_is_prox y α hα v p).mp rfl
  rw [Set.mem_singleton_iff] at h
  rw [h]
  unfold fDataConj
  have e : ‖q‖ ^ 2 = ‖p‖ ^ 2 + 2 * ⟪p, q - p⟫ + ‖q - p‖ ^ 2 := by
    have := norm_add_sq_real p (q - p); rwa [add_sub_cancel] at this
  have e2 : ⟪q, y⟫ = ⟪p, y⟫ + ⟪y, q - p⟫ := by
    rw [real_inner_comm (q - p) y, ← inner_add_left]; congr 1; abel
  rw [inner_add_left, e, e2]
  nlinarith [sq_nonneg ‖q - p‖]

/-- **PDHG route (PARTIAL).**  Without `G`, `λ > 0`, `tau=None` (default `tau = 1/max_eig`, `sigma` given positive or
    defaulted to 1), `max_eig` a Rayleigh bound of the operator the GENERATED set-up handed to `MaxEig`.  Then every
    step-related hypothesis of C13's `pdhg_fejer_monotone` holds for the generated set-up: the solver's step-size block
    takes the constant branch (`gamma_primal = λ > 0` and `gamma_dual = 1 > 0`), `tau, sigma > 0`, `tau·sigma·‖A‖² ≤ 1`, the
    generated dual prox is the proximal map of the conjugate data term; HENCE the coupled distance of the iterates of
    `PrimalDualHybridGradient` (C13's machine) to any saddle point never increases.
    PARTIAL: that the generated primal prox tree is the proximal map (variational form) of `g' = g + λ/2‖·-z‖²` and that a
    KKT point of the documented objective (`pdhg_fixed_point_kkt_noG_rc`) is a saddle point of `(g', f*)` are still
    hypotheses (`hg`, `hs`). -/
theorem pdhg_route_fejer_noG_partial (A : E →ₗ[𝕜] F) (AH : F →ₗ[𝕜] E) (hA : IsAdjK A AH) (y : F) (lam : ℝ)
    (hl : 0 < lam) (z : Option E) (hasProxg : Bool) (sigma : Option ℝ) (hσ : ∀ s, sigma = some s → 0 < s)
    (me : ℝ) (hme : 0 < me)
    (hR : ∀ f, (pdhgArgsNoG A AH y lam z hasProxg none sigma me).eig = .primal f →
      ∀ x, re (inner 𝕜 x (f x)) ≤ me * ‖x‖ ^ 2)
    (user : ℝ → E → E) (g' : E → ℝ)
    (hg : C13.ProxOf g' ((pdhgArgsNoG A AH y lam z hasProxg none sigma me).proxg.eval user))
    (xs : E) (us : F) (hs : C13.IsSaddle g' (fDataConj y) A AH xs us)
    (s : C13.PDState ℝ E F ℝ ℝ) (h1 : s.tau = (pdhgArgsNoG A AH y lam z hasProxg none sigma me).tau)
    (h2 : s.sigma = (pdhgArgsNoG A AH y lam z hasProxg none sigma me).sigma) :
    let su := pdhgArgsNoG A AH y lam z hasProxg none sigma me
    let step := C13.pdStep Real.sqrt su.K su.KH (su.proxfc.eval (fun _ v => v)) (su.proxg.eval user)
      su.gammaP su.gammaD 1
    C13.coupled su.K s.tau s.sigma ((step s).x - xs) ((step (step s)).u - us)
      ≤ C13.coupled su.K s.tau s.sigma (s.x - xs) ((step s).u - us) := by
  intro su step
  have hAr := isAdj_restrict A AH hA
  have hds : 0 < su.tau ∧ 0 < su.sigma ∧ ∀ x, su.tau * su.sigma * ‖su.K x‖ ^ 2 ≤ ‖x‖ ^ 2 :=
    default_steps_pdhg_primal_noG (A.restrictScalars ℝ) (AH.restrictScalars ℝ) hAr y lam z
      hasProxg sigma hσ me hme (fun f hf x => by rw [ReInner.re_inner (𝕜 := 𝕜)]; exact hR f hf x)
  obtain ⟨hτ, hσ', hK⟩ := hds
  have hpp : su.proxfc = .l2reg 1 (some (-y)) ∧ su.gammaP = (if 0 < lam then lam else 0) ∧ su.gammaD = 1 := by
    have := pdhgArgs_parts_noG (A.restrictScalars ℝ) (AH.restrictScalars ℝ) y lam z hasProxg none sigma me
    exact ⟨this.1, this.2.2.2.1, this.2.2.2.2⟩
  obtain ⟨hfc, hgp, hgd⟩ := hpp
  have hγp : su.gammaP = lam := by rw [hgp]; simp [hl]
  have hγd : su.gammaD = 1 := hgd
  have hstepeq : ∀ t, step t = C13.pdStep Real.sqrt (⇑(A.restrictScalars ℝ)) (⇑AH)
      ((PD.l2reg (1 : ℝ) (some (-y))).eval (fun _ v => v)) (su.proxg.eval user) 0 0 1 t := by
    intro t
    show C13.pdStep Real.sqrt su.K su.KH (su.proxfc.eval (fun _ v => v)) (su.proxg.eval user) su.gammaP su.gammaD 1 t = _
    rw [hγp, hγd, pdStep_both_pos _ _ _ _ lam 1 1 hl one_pos, hfc]
    rfl
  have hts : 0 < s.tau * s.sigma := by rw [h1, h2]; exact mul_pos hτ hσ'
  set Lop := Real.sqrt (1 / (s.tau * s.sigma)) with hLop
  have hAop : ∀ x, ‖(A.restrictScalars ℝ) x‖ ≤ Lop * ‖x‖ := by
    intro x
    have hx := hK x
    rw [← h1, ← h2] at hx
    have hx2 : ‖A x‖ ^ 2 ≤ 1 / (s.tau * s.sigma) * ‖x‖ ^ 2 := by
      rw [one_div, inv_mul_eq_div, le_div_iff₀ hts]
      have : su.K x = A x := rfl
      rw [this] at hx
      linarith
    calc ‖(A.restrictScalars ℝ) x‖ = Real.sqrt (‖A x‖ ^ 2) := (Real.sqrt_sq (norm_nonneg _)).symm
      _ ≤ Real.sqrt (1 / (s.tau * s.sigma) * ‖x‖ ^ 2) := Real.sqrt_le_sqrt hx2
      _ = Lop * ‖x‖ := by rw [Real.sqrt_mul (by positivity), Real.sqrt_sq (norm_nonneg _)]
  have hstep : s.tau * s.sigma * Lop ^ 2 ≤ 1 := by
    rw [hLop, Real.sq_sqrt (by positivity), mul_one_div_cancel hts.ne']
  have key := C13.pdhg_fejer_monotone g' (fDataConj y) (su.proxg.eval user)
    ((PD.l2reg (1 : ℝ) (some (-y))).eval (fun _ v => v)) (A.restrictScalars ℝ) (⇑AH) hAr hg (proxfc_data_proxOf y)
    Lop hAop s (by rw [h1]; exact hτ) (by rw [h2]; exact hσ') hstep xs us hs
  simp only [hstepeq]
  exact key


/-! ## (d) what survives when `max_eig` under-estimates (Props/C14Power.lean) -/

/-- **relaxed descent.**  C13's `ista_descent` needs `α·L ≤ 1`.  With the power-method under-estimate,
    `α = 1/max_eig` may exceed `1/L`; one un-accelerated `GradientMethod.update()` still never increases the composite
    objective as long as `α·L ≤ 2` (`max_eig ≥ λmax/2`).  (The RATE theorems `ista_rate` / `fista_rate` do need `α·L ≤ 1`.) -/
theorem ista_descent_relaxed {E : Type} [NormedAddCommGroup E] [InnerProductSpace ℝ E]
    (sq : ℝ → ℝ) (f g : E → ℝ) (gf : E → E) (proxg : Option (ℝ → E → E)) (α L : ℝ)
    (hα : 0 < α) (hL : α * L ≤ 2) (hd : C13.Descent f gf L) (hg : C13.ProxOpt g proxg) (s : C13.GMState ℝ E) :
    f (C13.gmStep sq gf proxg α false s).x + g (C13.gmStep sq gf proxg α false s).x ≤ f s.x + g s.x := by
  have hp := C13.gmStep_x_isProx sq g gf proxg α hα hg false s
  simp only [Bool.false_eq_true, if_false] at hp
  set p := (C13.gmStep sq gf proxg α false s).x
  have h1 := hp s.x
  have h2 := hd s.x p
  have e1 : ⟪(1 / α) • (s.x - α • gf s.x - p), s.x - p⟫ = (1 / α) * ‖s.x - p‖ ^ 2 - ⟪gf s.x, s.x - p⟫ := by
    have : s.x - α • gf s.x - p = (s.x - p) - α • gf s.x := by abel
    rw [this, real_inner_smul_left, inner_sub_left, real_inner_smul_left, real_inner_self_eq_norm_sq]
    field_simp
  have e2 : ⟪gf s.x, p - s.x⟫ = - ⟪gf s.x, s.x - p⟫ := by
    rw [← inner_neg_right]; congr 1; abel
  have e3 : ‖p - s.x‖ = ‖s.x - p‖ := norm_sub_rev _ _
  rw [e1] at h1
  rw [e2, e3] at h2
  have h3 : (L / 2 - 1 / α) * ‖s.x - p‖ ^ 2 ≤ 0 := by
    apply mul_nonpos_of_nonpos_of_nonneg _ (sq_nonneg _)
    have : L / 2 ≤ 1 / α := by
      rw [le_div_iff₀ hα]; linarith
    linarith
  nlinarith

end SigpyVerif.C14
