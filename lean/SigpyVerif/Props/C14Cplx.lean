/-
  C14, part "complex data": the theorems of `Props/C14.lean` for operators over `𝕜 = ℝ` or `ℂ`.

  The property quantifies over real or complex `A`, `y`.  `lamda`, `alpha`, `tau`, `sigma`, `rho` are Python
  floats, so the GENERATED set-ups (`Gen.C14.cgArgs`, `gmArgs`, `pdhgArgs*`, `admmArgs*`) are instantiated with the
  scalar type `S = ℝ` and vector spaces `E`, `F`, `H` that are inner-product spaces over `𝕜`; the documented objective
  `½‖Ax-y‖² + g(Gx) + λ/2‖x-z‖²` uses the norm of that space (complex 2-norm for complex data), the gradient is
  `Aᴴ(Ax-y) + λ(x-z)` with the `𝕜`-adjoint `Aᴴ`, and the subgradient inequality of `g` uses `re ⟪·,·⟫`.

  Route taken: a complex inner-product space IS a real inner-product space with `⟪x,y⟫_ℝ = re ⟪x,y⟫_𝕜` (class
  `ReInner 𝕜 E`; instances for `𝕜 = ℝ` and for `𝕜 = ℂ` with Mathlib's `InnerProductSpace.complexToReal`), a
  `𝕜`-linear map restricts to an `ℝ`-linear map with the same underlying function, and the TRANSFER LEMMA
  `isAdj_restrict` says that a `𝕜`-adjoint pair is an adjoint pair for the real inner products.  Every theorem below
  is then the real theorem applied to the restricted maps; statements mention `A`, `AH` as `𝕜`-linear maps only
  (the set-ups take the underlying functions, which restriction does not change).
-/
import SigpyVerif.Props.C14
import Mathlib.Analysis.InnerProductSpace.Basic

namespace SigpyVerif.C14
open SigpyVerif.Gen.C14
open RCLike
open scoped RealInnerProductSpace

set_option linter.unusedSectionVars false
set_option linter.unusedVariables false

/-- `E` carries an inner product over `𝕜` and the real inner product `re ⟪·,·⟫_𝕜` (what `xp.real(xp.vdot(·,·))`
    computes) -/
class ReInner (𝕜 E : Type) [RCLike 𝕜] [NormedAddCommGroup E] [InnerProductSpace 𝕜 E] [InnerProductSpace ℝ E] :
    Prop where
  re_inner : ∀ x y : E, inner ℝ x y = re (inner 𝕜 x y)

/-- real data -/
instance reInner_real {E : Type} [NormedAddCommGroup E] [InnerProductSpace ℝ E] : ReInner ℝ E :=
  ⟨fun _ _ => rfl⟩

/-- complex data: `E` with Mathlib's real structure `InnerProductSpace.complexToReal` (`⟪x,y⟫_ℝ = re ⟪x,y⟫_ℂ`,
    i.e. `ℂⁿ` read as `ℝ²ⁿ`) on a complex inner-product space -/
theorem reInner_complex {E : Type} [NormedAddCommGroup E] [InnerProductSpace ℂ E] :
    @ReInner ℂ E _ _ _ InnerProductSpace.complexToReal :=
  @ReInner.mk ℂ E _ _ _ InnerProductSpace.complexToReal (fun x y => real_inner_eq_re_inner ℂ x y)

section rc
variable {𝕜 : Type} [RCLike 𝕜]
variable {E F H : Type}
  [NormedAddCommGroup E] [InnerProductSpace 𝕜 E] [InnerProductSpace ℝ E] [IsScalarTower ℝ 𝕜 E] [ReInner 𝕜 E]
  [NormedAddCommGroup F] [InnerProductSpace 𝕜 F] [InnerProductSpace ℝ F] [IsScalarTower ℝ 𝕜 F] [ReInner 𝕜 F]
  [NormedAddCommGroup H] [InnerProductSpace 𝕜 H] [InnerProductSpace ℝ H] [IsScalarTower ℝ 𝕜 H] [ReInner 𝕜 H]

/-- `AH` is the adjoint of `A` for the `𝕜`-inner products (`A.H` of a sigpy Linop) -/
def IsAdjK (A : E →ₗ[𝕜] F) (AH : F →ₗ[𝕜] E) : Prop := ∀ x u, inner 𝕜 (A x) u = inner 𝕜 x (AH u)

/-- **transfer lemma**: a `𝕜`-adjoint pair, restricted to real scalars, is an adjoint pair for `re ⟪·,·⟫` -/
theorem isAdj_restrict (A : E →ₗ[𝕜] F) (AH : F →ₗ[𝕜] E) (h : IsAdjK A AH) :
    IsAdj (A.restrictScalars ℝ) (AH.restrictScalars ℝ) := by
  intro x u
  simp only [LinearMap.coe_restrictScalars]
  rw [ReInner.re_inner (𝕜 := 𝕜), ReInner.re_inner (𝕜 := 𝕜), h]

/-- a Python-float multiple of an array is the `𝕜`-scalar multiple by the embedded real -/
theorem real_smul_eq (c : ℝ) (x : E) : c • x = (c : 𝕜) • x := RCLike.real_smul_eq_coe_smul (K := 𝕜) c x

/-- restriction does not change the underlying function: the generated set-ups see the same arguments -/
theorem restrict_coe (A : E →ₗ[𝕜] F) : (⇑(A.restrictScalars ℝ) : E → F) = ⇑A := rfl

/-- the generated CG system over `𝕜`: `AᴴA + λI` and `Aᴴy + λz` -/
theorem cgArgs_sys_rc (A : E →ₗ[𝕜] F) (AH : F →ₗ[𝕜] E) (y : F) (lam : ℝ) (z : Option E) (x : E) :
    (cgArgs A AH y lam z).sys x = AH (A x) + lam • x :=
  cgArgs_sys (A.restrictScalars ℝ) (AH.restrictScalars ℝ) y lam z x

theorem cgArgs_rhs_rc (A : E →ₗ[𝕜] F) (AH : F →ₗ[𝕜] E) (y : F) (lam : ℝ) (z : Option E) :
    (cgArgs A AH y lam z).rhs = AH y + lam • zOf z :=
  cgArgs_rhs (A.restrictScalars ℝ) (AH.restrictScalars ℝ) y lam z

/-- the CG system is the normal equation `Aᴴ(Ax-y) + λ(x-z) = 0` (complex gradient) -/
theorem cgSys_cgRhs_eq_normal_rc (A : E →ₗ[𝕜] F) (AH : F →ₗ[𝕜] E) (y : F) (lam : ℝ) (z : Option E) (x : E) :
    (cgArgs A AH y lam z).sys x = (cgArgs A AH y lam z).rhs ↔ AH (A x - y) + lam • (x - zOf z) = 0 :=
  cgSys_cgRhs_eq_normal (A.restrictScalars ℝ) (AH.restrictScalars ℝ) y lam z x

/-- second-order expansion of the smooth part over `𝕜`: the first-order term is `re ⟪Aᴴ(Ax-y) + λ(x-z), h⟫` -/
theorem obj_expand_rc (A : E →ₗ[𝕜] F) (AH : F →ₗ[𝕜] E) (hA : IsAdjK A AH) (y : F) (lam : ℝ) (z x h : E) :
    1 / 2 * ‖A (x + h) - y‖ ^ 2 + lam / 2 * ‖x + h - z‖ ^ 2 =
      1 / 2 * ‖A x - y‖ ^ 2 + lam / 2 * ‖x - z‖ ^ 2 + re (inner 𝕜 (AH (A x - y) + lam • (x - z)) h)
        + (1 / 2 * ‖A h‖ ^ 2 + lam / 2 * ‖h‖ ^ 2) := by
  rw [← ReInner.re_inner (𝕜 := 𝕜)]
  exact obj_expand (A.restrictScalars ℝ) (AH.restrictScalars ℝ) (isAdj_restrict A AH hA) y lam z x h

/-- real or complex data, `λ ≥ 0`: `x` solves the generated CG system iff it is a global minimiser of
    `½‖Ax-y‖² + λ/2‖x-z‖²` -/
theorem cg_normal_eq_rc (A : E →ₗ[𝕜] F) (AH : F →ₗ[𝕜] E) (hA : IsAdjK A AH) (y : F) (lam : ℝ) (hl : 0 ≤ lam)
    (z : Option E) (x : E) :
    (cgArgs A AH y lam z).sys x = (cgArgs A AH y lam z).rhs ↔
      ∀ x', 1 / 2 * ‖A x - y‖ ^ 2 + lam / 2 * ‖x - zOf z‖ ^ 2 ≤ 1 / 2 * ‖A x' - y‖ ^ 2 + lam / 2 * ‖x' - zOf z‖ ^ 2 :=
  cg_normal_eq (A.restrictScalars ℝ) (AH.restrictScalars ℝ) (isAdj_restrict A AH hA) y lam hl z x

/-- real or complex data: with `AᴴA + λI` positive definite the solution of the generated CG system is THE
    minimiser of the documented objective (no `proxg`) -/
theorem cg_unique_minimiser_rc (A : E →ₗ[𝕜] F) (AH : F →ₗ[𝕜] E) (hA : IsAdjK A AH) (y : F) (lam : ℝ)
    (z : Option E) (x : E) (hpd : ∀ h : E, h ≠ 0 → 0 < ‖A h‖ ^ 2 + lam * ‖h‖ ^ 2)
    (hx : (cgArgs A AH y lam z).sys x = (cgArgs A AH y lam z).rhs) (x' : E) (hne : x' ≠ x) :
    1 / 2 * ‖A x - y‖ ^ 2 + lam / 2 * ‖x - zOf z‖ ^ 2 < 1 / 2 * ‖A x' - y‖ ^ 2 + lam / 2 * ‖x' - zOf z‖ ^ 2 :=
  cg_unique_minimiser (A.restrictScalars ℝ) (AH.restrictScalars ℝ) (isAdj_restrict A AH hA) y lam z x hpd hx x' hne

/-- the generated `gradf` is the complex gradient `Aᴴ(Ax-y) + λ(x-z)` -/
theorem gm_gradient_rc (A : E →ₗ[𝕜] F) (AH : F →ₗ[𝕜] E) (y : F) (lam : ℝ) (z : Option E) (alpha : Option ℝ)
    (me : ℝ) (x : E) :
    (gmArgs A AH y lam z alpha me).gradf x = AH (A x - y) + lam • (x - zOf z) :=
  gm_gradient (A.restrictScalars ℝ) (AH.restrictScalars ℝ) y lam z alpha me x

/-- real or complex data, no `proxg`: a gradient step with a non-zero step leaves `x` fixed iff `x` minimises the
    documented objective -/
theorem gm_fixed_point_iff_minimiser_rc (A : E →ₗ[𝕜] F) (AH : F →ₗ[𝕜] E) (hA : IsAdjK A AH) (y : F) (lam : ℝ)
    (hl : 0 ≤ lam) (z : Option E) (alpha : Option ℝ) (me : ℝ) (x : E)
    (ha : (gmArgs A AH y lam z alpha me).alpha ≠ 0) :
    x - (gmArgs A AH y lam z alpha me).alpha • (gmArgs A AH y lam z alpha me).gradf x = x ↔
      ∀ x', 1 / 2 * ‖A x - y‖ ^ 2 + lam / 2 * ‖x - zOf z‖ ^ 2 ≤ 1 / 2 * ‖A x' - y‖ ^ 2 + lam / 2 * ‖x' - zOf z‖ ^ 2 :=
  gm_fixed_point_iff_minimiser (A.restrictScalars ℝ) (AH.restrictScalars ℝ) (isAdj_restrict A AH hA) y lam hl z
    alpha me x ha

/-- KKT point of `½‖Ax-y‖² + g(Gx) + λ/2‖x-z‖²` over `𝕜` with multiplier `w ∈ ∂g(Gx)` -/
def IsKKTK (A : E →ₗ[𝕜] F) (AH : F →ₗ[𝕜] E) (G : E →ₗ[𝕜] H) (GH : H →ₗ[𝕜] E) (dg : H → Set H)
    (y : F) (lam : ℝ) (z : E) (x : E) (w : H) : Prop :=
  w ∈ dg (G x) ∧ AH (A x - y) + lam • (x - z) + GH w = 0

theorem isKKTK_iff (A : E →ₗ[𝕜] F) (AH : F →ₗ[𝕜] E) (G : E →ₗ[𝕜] H) (GH : H →ₗ[𝕜] E) (dg : H → Set H)
    (y : F) (lam : ℝ) (z : E) (x : E) (w : H) :
    IsKKTK A AH G GH dg y lam z x w ↔
      IsKKT (A.restrictScalars ℝ) (AH.restrictScalars ℝ) (G.restrictScalars ℝ) (GH.restrictScalars ℝ) dg y lam z x w :=
  Iff.rfl

/-- real or complex data: a KKT point whose multiplier is a subgradient of `g` (for `re ⟪·,·⟫`) is a global
    minimiser of the documented objective (`λ ≥ 0`) -/
theorem kkt_is_minimiser_rc (A : E →ₗ[𝕜] F) (AH : F →ₗ[𝕜] E) (hA : IsAdjK A AH) (G : E →ₗ[𝕜] H)
    (GH : H →ₗ[𝕜] E) (hG : IsAdjK G GH) (g : H → ℝ) (dg : H → Set H)
    (hsub : ∀ p w, w ∈ dg p → ∀ q, g p + re (inner 𝕜 w (q - p)) ≤ g q)
    (y : F) (lam : ℝ) (hl : 0 ≤ lam) (z x : E) (w : H) (hk : IsKKTK A AH G GH dg y lam z x w) (x' : E) :
    1 / 2 * ‖A x - y‖ ^ 2 + g (G x) + lam / 2 * ‖x - z‖ ^ 2 ≤ 1 / 2 * ‖A x' - y‖ ^ 2 + g (G x') + lam / 2 * ‖x' - z‖ ^ 2 :=
  kkt_is_minimiser (A.restrictScalars ℝ) (AH.restrictScalars ℝ) (isAdj_restrict A AH hA) (G.restrictScalars ℝ)
    (GH.restrictScalars ℝ) (isAdj_restrict G GH hG) g dg
    (fun p w hw q => by rw [ReInner.re_inner (𝕜 := 𝕜)]; exact hsub p w hw q) y lam hl z x w
    ((isKKTK_iff A AH G GH dg y lam z x w).mp hk) x'

/-- **PDHG without `G`, real or complex data**: fixed points of the generated set-up = KKT points of the
    documented objective (`u = Ax - y`) -/
theorem pdhg_fixed_point_kkt_noG_rc (A : E →ₗ[𝕜] F) (AH : F →ₗ[𝕜] E) (y : F) (lam : ℝ) (hl : 0 ≤ lam)
    (z : Option E) (hasProxg : Bool) (tau sigma : Option ℝ) (me : ℝ) (user : ℝ → E → E) (dg : E → Set E)
    (hu : hasProxg = true → IsProxOf user dg) (τ σ : ℝ) (hτ : 0 < τ) (hσ : 0 < σ) (x : E) (u : F) :
    let su := pdhgArgsNoG A AH y lam z hasProxg tau sigma me
    (su.proxfc.eval (fun _ v => v) σ (u + σ • su.K x) = u ∧ su.proxg.eval user τ (x - τ • su.KH u) = x) ↔
    (u = A x - y ∧ ∃ w, IsKKTK A AH (LinearMap.id : E →ₗ[𝕜] E) LinearMap.id (effDg hasProxg dg) y lam (zOf z) x w) :=
  pdhg_fixed_point_kkt_noG (A.restrictScalars ℝ) (AH.restrictScalars ℝ) y lam hl z hasProxg tau sigma me user dg hu
    τ σ hτ hσ x u

/-- **PDHG with `G`, real or complex data** -/
theorem pdhg_fixed_point_kkt_G_rc (A : E →ₗ[𝕜] F) (AH : F →ₗ[𝕜] E) (G : E →ₗ[𝕜] H) (GH : H →ₗ[𝕜] E)
    (y : F) (lam : ℝ) (hl : 0 ≤ lam) (z : Option E) (hasProxg : Bool) (tau sigma : Option ℝ) (me : ℝ)
    (user : ℝ → H → H) (userE : ℝ → E → E)
    (dg : H → Set H) (hu : hasProxg = true → IsProxOf user dg) (τ σ : ℝ) (hτ : 0 < τ) (hσ : 0 < σ)
    (x : E) (u : Pair F H) :
    let su := pdhgArgsG A AH G GH y lam z hasProxg tau sigma me
    (su.proxfc.eval (fun _ v => v) user σ (u + σ • su.K x) = u ∧ su.proxg.eval userE τ (x - τ • su.KH u) = x) ↔
    (u.fst = A x - y ∧ IsKKTK A AH G GH (effDg hasProxg dg) y lam (zOf z) x u.snd) :=
  pdhg_fixed_point_kkt_G (A.restrictScalars ℝ) (AH.restrictScalars ℝ) (G.restrictScalars ℝ) (GH.restrictScalars ℝ)
    y lam hl z hasProxg tau sigma me user userE dg hu τ σ hτ hσ x u

/-- **ADMM without `G`, real or complex data** -/
theorem admm_fixed_point_kkt_noG_rc (A : E →ₗ[𝕜] F) (AH : F →ₗ[𝕜] E) (y : F) (lam : ℝ) (z : Option E)
    (proxg : Option (ℝ → E → E)) (dg : E → Set E) (hp : ∀ p, proxg = some p → IsProxOf p dg)
    (ρ : ℝ) (hρ : 0 < ρ) (x v u : E) :
    let a := admmArgsNoG A AH y lam z ρ proxg
    ((a.minLx x v u).sys x = (a.minLx x v u).rhs ∧ a.minLv x v u = v ∧ u + (a.A x + a.B v) = u) ↔
    (v = x ∧ IsKKTK A AH (LinearMap.id : E →ₗ[𝕜] E) LinearMap.id (effDg proxg.isSome dg) y lam (zOf z) x (ρ • u)) :=
  admm_fixed_point_kkt_noG (A.restrictScalars ℝ) (AH.restrictScalars ℝ) y lam z proxg dg hp ρ hρ x v u

/-- **ADMM with `G`, real or complex data** -/
theorem admm_fixed_point_kkt_G_rc (A : E →ₗ[𝕜] F) (AH : F →ₗ[𝕜] E) (G : E →ₗ[𝕜] H) (GH : H →ₗ[𝕜] E)
    (y : F) (lam : ℝ) (hl : 0 ≤ lam) (z : Option E)
    (proxg : Option (ℝ → H → H)) (dg : H → Set H) (hp : ∀ p, proxg = some p → IsProxOf p dg)
    (ρ : ℝ) (hρ : 0 < ρ) (x : E) (v u : H) :
    let a := admmArgsG A AH G GH y lam z ρ proxg
    ((a.minLx x v u).sys x = (a.minLx x v u).rhs ∧ a.minLv x v u = v ∧ u + (a.A x + a.B v) = u) ↔
    (v = G x ∧ IsKKTK A AH G GH (effDg proxg.isSome dg) y lam (zOf z) x (ρ • u)) :=
  admm_fixed_point_kkt_G (A.restrictScalars ℝ) (AH.restrictScalars ℝ) (G.restrictScalars ℝ) (GH.restrictScalars ℝ)
    y lam hl z proxg dg hp ρ hρ x v u

/-- **default step of GradientMethod, real or complex data**: with `max_eig` a bound of the Rayleigh quotient
    `re ⟪h, (AᴴA+λI)h⟫ = ‖Ah‖² + λ‖h‖²` of the operator handed to `MaxEig`, `alpha = 1/max_eig` and `L = max_eig`
    satisfy the hypotheses of C13's rate theorems -/
theorem default_steps_gm_rc (A : E →ₗ[𝕜] F) (AH : F →ₗ[𝕜] E) (hA : IsAdjK A AH) (y : F) (lam : ℝ) (z : Option E)
    (me : ℝ) (hme : 0 ≤ me)
    (hR : ∀ f, (gmArgs A AH y lam z none me).eig = .primal f → ∀ h, re (inner 𝕜 h (f h)) ≤ me * ‖h‖ ^ 2) :
    let a := gmArgs A AH y lam z none me
    0 < a.alpha ∧ a.alpha * me ≤ 1 ∧
    ∀ x p, 1 / 2 * ‖A p - y‖ ^ 2 + lam / 2 * ‖p - zOf z‖ ^ 2 ≤
      1 / 2 * ‖A x - y‖ ^ 2 + lam / 2 * ‖x - zOf z‖ ^ 2 + re (inner 𝕜 (a.gradf x) (p - x)) + me / 2 * ‖p - x‖ ^ 2 := by
  intro a
  have h := default_steps_gm (A.restrictScalars ℝ) (AH.restrictScalars ℝ) (isAdj_restrict A AH hA) y lam z me hme
    (fun f hf h => by rw [ReInner.re_inner (𝕜 := 𝕜)]; exact hR f hf h)
  refine ⟨h.1, h.2.1, fun x p => ?_⟩
  rw [← ReInner.re_inner (𝕜 := 𝕜)]
  exact h.2.2 x p

end rc

/-! ## the complex instantiation, spelled out (`𝕜 = ℂ`, real structure = Mathlib's `complexToReal`) -/
section complex
variable {E F : Type} [NormedAddCommGroup E] [InnerProductSpace ℂ E] [NormedAddCommGroup F] [InnerProductSpace ℂ F]
attribute [local instance] InnerProductSpace.complexToReal

/-- **complex data**: for complex-linear `A` with adjoint `AH` (for the complex inner product), the solution of
    the generated CG system is the unique minimiser of `½‖Ax-y‖² + λ/2‖x-z‖²` (complex 2-norms) -/
theorem cg_unique_minimiser_complex (A : E →ₗ[ℂ] F) (AH : F →ₗ[ℂ] E)
    (hA : ∀ x u, inner ℂ (A x) u = inner ℂ x (AH u)) (y : F) (lam : ℝ)
    (z : Option E) (x : E) (hpd : ∀ h : E, h ≠ 0 → 0 < ‖A h‖ ^ 2 + lam * ‖h‖ ^ 2)
    (hx : (cgArgs A AH y lam z).sys x = (cgArgs A AH y lam z).rhs) (x' : E) (hne : x' ≠ x) :
    1 / 2 * ‖A x - y‖ ^ 2 + lam / 2 * ‖x - zOf z‖ ^ 2 < 1 / 2 * ‖A x' - y‖ ^ 2 + lam / 2 * ‖x' - zOf z‖ ^ 2 :=
  haveI := reInner_complex (E := E); haveI := reInner_complex (E := F)
  cg_unique_minimiser_rc (𝕜 := ℂ) A AH hA y lam z x hpd hx x' hne

/-- **complex data**: fixed points of the generated gradient step are the minimisers -/
theorem gm_fixed_point_iff_minimiser_complex (A : E →ₗ[ℂ] F) (AH : F →ₗ[ℂ] E)
    (hA : ∀ x u, inner ℂ (A x) u = inner ℂ x (AH u)) (y : F) (lam : ℝ)
    (hl : 0 ≤ lam) (z : Option E) (alpha : Option ℝ) (me : ℝ) (x : E)
    (ha : (gmArgs A AH y lam z alpha me).alpha ≠ 0) :
    x - (gmArgs A AH y lam z alpha me).alpha • (gmArgs A AH y lam z alpha me).gradf x = x ↔
      ∀ x', 1 / 2 * ‖A x - y‖ ^ 2 + lam / 2 * ‖x - zOf z‖ ^ 2 ≤ 1 / 2 * ‖A x' - y‖ ^ 2 + lam / 2 * ‖x' - zOf z‖ ^ 2 :=
  haveI := reInner_complex (E := E); haveI := reInner_complex (E := F)
  gm_fixed_point_iff_minimiser_rc (𝕜 := ℂ) A AH hA y lam hl z alpha me x ha

end complex

/-! ## non-vacuity: genuinely complex instances -/

/-- on `E = ℂ` (one complex unknown) multiplication by `i` has the adjoint "multiplication by `-i`": a `𝕜`-adjoint
    pair that is NOT symmetric over ℝ² -/
example : IsAdjK (𝕜 := ℂ) (E := ℂ) (F := ℂ) (Complex.I • LinearMap.id) ((-Complex.I) • LinearMap.id) := by
  intro x u
  simp only [LinearMap.smul_apply, LinearMap.id_coe, id_eq, smul_eq_mul, RCLike.inner_apply, map_mul,
    Complex.conj_I]
  ring

/-- the positive-definiteness hypothesis of `cg_unique_minimiser_rc` holds for that operator with `λ = 0` -/
example (h : ℂ) (hh : h ≠ 0) :
    0 < ‖(Complex.I • (LinearMap.id : ℂ →ₗ[ℂ] ℂ)) h‖ ^ 2 + (0 : ℝ) * ‖h‖ ^ 2 := by
  simp only [LinearMap.smul_apply, LinearMap.id_coe, id_eq, smul_eq_mul, norm_mul, Complex.norm_I, one_mul,
    zero_mul, add_zero]
  have : 0 < ‖h‖ := norm_pos_iff.mpr hh
  positivity

end SigpyVerif.C14
