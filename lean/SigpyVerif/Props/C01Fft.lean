import SigpyVerif.Props.C01Ext
import SigpyVerif.Props.C05Nd
/-
  C01 — FFT / IFFT leaves, imported from C05.

  The entries of an `FFT(shape, axes, center)` leaf are the complex numbers the C05 table denotes
  (`C05.denote (C05.entry (pipeOf inv center) ortho=true axes …)`, the table C05's correspondence compares
  with `sigpy.fft` / `sigpy.ifft` on every run, N-d, any axes subset, centred or not); the adjoint side is
  the table of the class the *generated* `FFT._adjoint_linop` returns (`Gen.LinopAdjoint.adjOpaque`: IFFT
  with the same shape, axes, center).  C05's `ifft_table_eq_conjTranspose` (the inverse table is the
  conjugate transpose of the forward table, entry by entry) makes the leaf satisfy `LeafProved`, so trees
  over ℂ that contain FFT / IFFT leaves are covered by `adj_denote_leaves`.
-/
set_option linter.unusedSectionVars false
set_option linter.unusedVariables false
set_option linter.unusedSimpArgs false
namespace SigpyVerif.C01
open SigpyVerif

noncomputable section

/-- entries of `fft` (`inv = false`) / `ifft` (`inv = true`) with `norm='ortho'` on a `shape` array -/
def fftE (inv center : Bool) (sh axes : List Int) : List (Ent ℂ) :=
  (allIdx sh).flatMap fun k => (allIdx sh).flatMap fun j =>
    [((fl sh k, fl sh j, C05.denote (C05.entry (C05.pipeOf inv center) true axes sh sh k j)) : Ent ℂ)]

def fftSem : Opaque ℂ → Option (Sem ℂ)
  | .fft sh axes center => some ⟨sh, sh, fftE false center sh (C05.normAxes center axes sh.length)⟩
  | .ifft sh axes center => some ⟨sh, sh, fftE true center sh (C05.normAxes center axes sh.length)⟩
  | _ => none

/-- the leaf of `FFT(..)` / `IFFT(..)`: its own table and the table of what the generated `_adjoint_linop` returns -/
def fftLeaf (c : Opaque ℂ) : Option (Leaf ℂ) :=
  match fftSem c, fftSem (Gen.LinopAdjoint.adjOpaque c) with
  | some s, some s' => some (.ext 5 s.osh s.ish s.E s'.E)
  | _, _ => none

/-- an in-bounds multi-index, written as the `List.ofFn` of a dependent function into `Fin` -/
theorem idx_ofFn {sh k : List Int} (hk : InB sh k) :
    (sh = List.ofFn fun d : Fin sh.length => (((sh.get d).toNat : ℕ) : ℤ)) ∧
    ∃ K : (d : Fin sh.length) → Fin (sh.get d).toNat, k = List.ofFn fun d => (((K d : ℕ) : ℕ) : ℤ) := by
  obtain ⟨hkl, hkb⟩ := inB_iff_getI.mp hk
  have hb : ∀ d : Fin sh.length, 0 ≤ getI k d ∧ getI k d < sh.get d := by
    intro d
    have := hkb d d.2
    rwa [getI_eq_getElem sh d d.2] at this
  constructor
  · apply List.ext_getElem
    · simp
    · intro i h1 h2
      simp only [List.getElem_ofFn, List.get_eq_getElem]
      have := hb ⟨i, h1⟩
      simp only [List.get_eq_getElem] at this
      omega
  · refine ⟨fun d => ⟨(getI k d).toNat, by have := hb d; omega⟩, ?_⟩
    apply List.ext_getElem
    · simp [hkl]
    · intro i h1 h2
      simp only [List.getElem_ofFn]
      have hi : i < sh.length := hkl ▸ h1
      have := hb ⟨i, hi⟩
      rw [getI_eq_getElem k i h1] at this ⊢
      omega

/-- C05, on list multi-indices: the `ifft` entry is the conjugate of the transposed `fft` entry -/
theorem fft_entry_conj (center : Bool) (sh axes : List Int) {k j : List Int} (hk : InB sh k) (hj : InB sh j) :
    C05.denote (C05.entry (C05.pipeOf true center) true axes sh sh k j)
      = star (C05.denote (C05.entry (C05.pipeOf false center) true axes sh sh j k)) := by
  obtain ⟨hsh, K, hK⟩ := idx_ofFn hk
  obtain ⟨_, J, hJ⟩ := idx_ofFn hj
  have key := C05.ifft_table_eq_conjTranspose true center (fun d : Fin sh.length => (sh.get d).toNat) axes
    (fun d => rfl) K J
  rw [← hsh, ← hK, ← hJ] at key
  rw [key]
  rfl

theorem fftE_inv_eq (center : Bool) (sh axes : List Int) :
    fftE true center sh axes = (allIdx sh).flatMap fun k => (allIdx sh).flatMap fun j =>
      [((fl sh k, fl sh j, star (C05.denote (C05.entry (C05.pipeOf false center) true axes sh sh j k))) : Ent ℂ)] := by
  unfold fftE
  apply List.flatMap_congr; intro k hk
  apply List.flatMap_congr; intro j hj
  rw [fft_entry_conj center sh axes (mem_allIdx.mp hk) (mem_allIdx.mp hj)]

/-- the `ifft` table is, as a multiset of entries, the conjugate transpose of the `fft` table -/
theorem ifftE_perm_adj (center : Bool) (sh axes : List Int) :
    (fftE true center sh axes).Perm (adjE star (fftE false center sh axes)) := by
  rw [fftE_inv_eq]
  unfold fftE adjE
  simp only [List.map_flatMap, List.map_cons, List.map_nil]
  exact flatMap_swap_perm _ _ _

/-- **FFT / IFFT:** the leaf built from the C05 table of the class and of the class its generated
    `_adjoint_linop` returns satisfies `LeafProved` — any rank, shape, axes (`None` or a list), centred or
    not: `FFT.H = IFFT` and `IFFT.H = FFT` (same axes, same `center`) are true adjoints. -/
theorem fft_leaf_proved (c : Opaque ℂ) (l : Leaf ℂ) (h : fftLeaf c = some l) : LeafProved l := by
  unfold fftLeaf at h
  cases c with
  | fft sh axes center =>
    simp only [fftSem, Gen.LinopAdjoint.adjOpaque, Option.some.injEq] at h
    subst h
    simp only [LeafProved]
    exact isAdj_clip_of_perm _ _ _ _ (ifftE_perm_adj center sh _)
  | ifft sh axes center =>
    simp only [fftSem, Gen.LinopAdjoint.adjOpaque, Option.some.injEq] at h
    subst h
    simp only [LeafProved]
    exact isAdj_clip_of_perm _ _ _ _ (perm_adjE_symm (ifftE_perm_adj center sh _))
  | _ => simp [fftSem] at h

/-- hence every tree over ℂ built from FFT / IFFT leaves and the exact classes has `⟨A x, y⟩ = ⟨x, A.H y⟩`
    (e.g. the SENSE-like `Σ_c  Resize ∘ FFT ∘ Multiply(maps_c)` written with Vstack) -/
theorem fft_tree_adjoint (c : Opaque ℂ) (l : Leaf ℂ) (h : fftLeaf c = some l) (e₁ e₂ : Expr ℂ)
    (h₁ : allLeaves LeafProved e₁) (h₂ : allLeaves LeafProved e₂) :
    AdjOK (fun r : Rat => (r : ℂ)) (.comp e₁ (.comp (.leaf l) e₂)) :=
  adj_denote_leaves _ (fun r => by simp) _ ⟨h₁, fft_leaf_proved c l h, h₂⟩

/-- non-vacuity: an FFT over the last axis of a `[2, 3]` array is a leaf (36 entries each side) -/
example : ∃ l, fftLeaf (.fft [2, 3] (some [-1]) true) = some l := ⟨_, rfl⟩

end
end SigpyVerif.C01
