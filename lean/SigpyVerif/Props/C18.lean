import SigpyVerif.Model.C18
import SigpyVerif.Lemmas.C18
import Mathlib.Analysis.SpecialFunctions.Sqrt
import Mathlib.Data.Finset.Card
/-
  C18 — Poisson-disc masks are binary, reproducible, calibrated and hit the acceleration.
  Property theorems only.  `Gen.Samp.*` are regenerated from sigpy/mri/samp.py on every run; the machines
  `run` (sampler) and `loop`/`poissonG` (driver) of Model/C18.lean are assembled from them and tied to the
  real code by the correspondence streams calib / sampler / driver / keep of harness/props/c18.py.

  Termination of the bisection: the loop body has a second `break` (`slope == slope_min or slope == slope_max`,
  fix of the former finding C18:bisection:non-terminating).  Proved: a midpoint equal to an end point exits the
  loop (`stall_exits`), every other iteration strictly shrinks the interval (`interval_shrinks`), hence over any
  finite grid of slope values containing the end points and the midpoints the loop ends (`terminates`).  That
  float64 `(a + b) / 2` lies in `[a, b]` is an IEEE fact that is not proved here; the `driver` stream checks it on
  every real trace.  In exact rational arithmetic neither exit is reachable (`exact_bisection_never_raises`).
-/
namespace SigpyVerif.C18
open SigpyVerif

/-! ### structure of the two functions (statement order, `=` vs `+=`, generator calls) -/

/-- The structural facts the model relies on hold for the current source: the crop precedes the
    acceleration test, the tolerance test precedes `return`, the global generator state is saved and restored
    under `seed is not None`, the Python driver makes no other `np.random` call, `_poisson` seeds numba's
    generator, the accept/retire branches have the modelled form, the calibration block is filled with 1 and
    `mask` is written at exactly three sites. -/
theorem structure_ok :
    Gen.Samp.cropBeforeAccel = true ∧ Gen.Samp.raiseBeforeReturn = true ∧
    Gen.Samp.savesRngWhenSeeded = true ∧ Gen.Samp.restoresRngWhenSeeded = true ∧
    Gen.Samp.pythonSideRngCalls = 0 ∧ Gen.Samp.samplerSeedsPrivateRng = true ∧
    Gen.Samp.acceptPushes = true ∧ Gen.Samp.retireSwapsLast = true ∧ Gen.Samp.maskWriteSites = 3 ∧
    Gen.Samp.calibFillValue = 1 ∧ (∀ old, Gen.Samp.cellWrite old = 1) := by
  refine ⟨rfl, rfl, rfl, rfl, rfl, rfl, rfl, rfl, rfl, ?_, ?_⟩
  · simp [Gen.Samp.calibFillValue]
  · intro old; simp [Gen.Samp.cellWrite]

/-! ### calibration block -/

/-- For `0 ≤ c ≤ n` the generated slice bounds `int(n/2 - c/2)`, `int(n/2 + c/2)` are `(n-c)//2` and
    `(n+c)//2`; they lie in `[0, n]` in the right order, so the Python slice is the plain index range. -/
theorem calib_block_bounds (n c : Int) (h0 : 0 ≤ c) (h1 : c ≤ n) :
    Gen.Samp.calibLoX n c = (n - c) / 2 ∧ Gen.Samp.calibHiX n c = (n + c) / 2 ∧
    Gen.Samp.calibLoY n c = (n - c) / 2 ∧ Gen.Samp.calibHiY n c = (n + c) / 2 ∧
    0 ≤ (n - c) / 2 ∧ (n - c) / 2 ≤ (n + c) / 2 ∧ (n + c) / 2 ≤ n := by
  refine ⟨?_, ?_, ?_, ?_, ?_, ?_, ?_⟩
  · unfold Gen.Samp.calibLoX; exact ratTrunc_of_eq_half _ (n - c) (by omega) (by push_cast; ring)
  · unfold Gen.Samp.calibHiX; exact ratTrunc_of_eq_half _ (n + c) (by omega) (by push_cast; ring)
  · unfold Gen.Samp.calibLoY; exact ratTrunc_of_eq_half _ (n - c) (by omega) (by push_cast; ring)
  · unfold Gen.Samp.calibHiY; exact ratTrunc_of_eq_half _ (n + c) (by omega) (by push_cast; ring)
  all_goals omega

/-- … and the block has exactly `c` indices per axis (for every parity of `n` and `c`). -/
theorem calib_block_size (n c : Int) (h0 : 0 ≤ c) (h1 : c ≤ n) :
    Gen.Samp.calibHiX n c - Gen.Samp.calibLoX n c = c ∧ Gen.Samp.calibHiY n c - Gen.Samp.calibLoY n c = c := by
  obtain ⟨a, b, c', d, _⟩ := calib_block_bounds n c h0 h1
  rw [a, b, c', d]; omega

example : Gen.Samp.calibLoX 16 15 = 0 ∧ Gen.Samp.calibHiX 16 15 = 15 := by
  obtain ⟨a, b, _⟩ := calib_block_bounds 16 15 (by decide) (by decide)
  rw [a, b]; decide

/-! ### radius field -/

/-- `x.max()` is attained at index 0 and equals `(n - c)/2`: the normalisation `x /= x.max()` divides by
    `radX n c 0`, as `rSqAt` assumes. -/
theorem radX_max_at_zero (n c x : Int) (h0 : 0 ≤ c) (h1 : c ≤ n) (hx0 : 0 ≤ x) (hx1 : x < n) :
    Gen.Samp.radX n c x ≤ Gen.Samp.radX n c 0 ∧ Gen.Samp.radX n c 0 = ((n - c : Int) : Rat) / 2 ∧
    Gen.Samp.radY n c x ≤ Gen.Samp.radY n c 0 ∧ Gen.Samp.radY n c 0 = ((n - c : Int) : Rat) / 2 ∧
    0 ≤ Gen.Samp.radX n c x ∧ 0 ≤ Gen.Samp.radY n c x := by
  have a0 : (0:ℚ) ≤ (c:ℚ) := by exact_mod_cast h0
  have a1 : (c:ℚ) ≤ (n:ℚ) := by exact_mod_cast h1
  have a2 : (0:ℚ) ≤ (x:ℚ) := by exact_mod_cast hx0
  have a3 : (x:ℚ) < (n:ℚ) := by exact_mod_cast hx1
  unfold Gen.Samp.radX Gen.Samp.radY ratMax ratAbs
  push_cast
  refine ⟨?_, ?_, ?_, ?_, ?_, ?_⟩ <;> split_ifs <;> linarith

/-- `mask *= r < 1` keeps a cell iff `r < 1`; for `r = √s` with `s ≥ 0` that is `s < 1`, which is how
    `keepAt` decides it on the exact rational `r²`. -/
theorem cropKeep_iff_sq :
    (∀ r : Rat, Gen.Samp.cropKeep r = true ↔ r < 1) ∧ (∀ s : ℝ, 0 ≤ s → (Real.sqrt s < 1 ↔ s < 1)) := by
  constructor
  · intro r; simp [Gen.Samp.cropKeep]
  · intro s _
    rw [Real.sqrt_lt' one_pos]; simp


/-! ### the sampler machine -/

theorem cellWrite_one (old : Rat) : Gen.Samp.cellWrite old = 1 := structure_ok.2.2.2.2.2.2.2.2.2.2 old

theorem tryCands_accepts (c : Cfg) (m : Mask) (px py : Int) (rx ry : Rat) (k : Int) (cs : List Cand) (q : Rat × Rat)
    (h : (tryCands c m px py rx ry k cs).1 = some q) : accepts c m q.1 q.2 rx ry = true := by
  induction cs generalizing k with
  | nil => simp [tryCands] at h
  | cons d ds ih =>
    unfold tryCands at h
    by_cases h1 : Gen.Samp.attemptCond k c.maxAttempts = true
    · rw [if_pos h1] at h
      by_cases h2 : accepts c m (Gen.Samp.candX px d.v rx d.c) (Gen.Samp.candY py d.v ry d.s) rx ry = true
      · simp only [h2, if_true, Option.some.injEq] at h; subst h; exact h2
      · simp only [h2] at h; exact ih _ h
    · rw [if_neg h1] at h; simp at h

/-- an accepted candidate passed the in-grid test, so its cell `(int qy, int qx)` is inside the grid -/
theorem accepted_in_grid (c : Cfg) (m : Mask) (qx qy rx ry : Rat) (h : accepts c m qx qy rx ry = true) :
    (0 ≤ ratTrunc qx ∧ ratTrunc qx < c.nx) ∧ (0 ≤ ratTrunc qy ∧ ratTrunc qy < c.ny) := by
  unfold accepts at h
  rw [Bool.and_eq_true] at h
  have hg := h.1
  -- robust against the spelling of the guard (order of the four tests, `>=` vs `<=`, chained comparisons,
  -- negated forms): normalise, then pick the four facts out of the conjunction whatever its shape
  simp only [Gen.Samp.inGrid, decide_eq_true_eq, Int.cast_zero, ge_iff_le, gt_iff_lt, not_lt, not_le, not_or,
    not_and_or] at hg
  have a1 : (0:ℚ) ≤ qx := by grind
  have a2 : qx < (c.nx : ℚ) := by grind
  have a3 : (0:ℚ) ≤ qy := by grind
  have a4 : qy < (c.ny : ℚ) := by grind
  exact ⟨ratTrunc_range qx c.nx a1 a2, ratTrunc_range qy c.ny a3 a4⟩

/-- one outer iteration changes `mask` at most at one cell, and only to 1 -/
theorem step_mask (c : Cfg) (s : PState) (i : Nat) (cs : List Cand) (y x : Int) :
    (step c s i cs).mask y x = s.mask y x ∨ (step c s i cs).mask y x = 1 := by
  unfold step
  dsimp only
  split
  · simp only [Mask.set]
    split_ifs
    · right; exact cellWrite_one _
    · left; rfl
  · left; rfl

/-- **entries only go 0 → 1**: along any draw stream an entry either keeps its value or becomes 1, and an
    entry that is 1 stays 1. -/
theorem mask_monotone (c : Cfg) (s : PState) (ds : Draws) (y x : Int) :
    ((run c s ds).mask y x = s.mask y x ∨ (run c s ds).mask y x = 1) ∧
    (s.mask y x = 1 → (run c s ds).mask y x = 1) := by
  induction ds generalizing s with
  | nil => simp [run]
  | cons d rest ih =>
    obtain ⟨i, cs⟩ := d
    unfold run
    split_ifs
    · have h1 := ih (step c s i cs)
      have h2 := step_mask c s i cs y x
      constructor
      · rcases h1.1 with a | a
        · rcases h2 with b | b
          · left; rw [a, b]
          · right; rw [a, b]
        · right; exact a
      · intro hs
        apply h1.2
        rcases h2 with b | b
        · rw [b, hs]
        · exact b
    · simp

/-- **values ⊂ {0, 1}** in every reachable state of `_poisson` (any grid, calibration, radii, draw stream) -/
theorem mask_binary (c : Cfg) (p0x p0y : Int) (ds : Draws) (y x : Int) :
    (run c (init c p0x p0y) ds).mask y x = 0 ∨ (run c (init c p0x p0y) ds).mask y x = 1 := by
  rcases (mask_monotone c (init c p0x p0y) ds y x).1 with a | a
  · rw [a]
    simp only [init, calibMask]
    split_ifs
    · right; exact structure_ok.2.2.2.2.2.2.2.2.2.1
    · left; rfl
  · right; exact a

/-- **every index of the calibration block is 1** in every reachable state of `_poisson` -/
theorem calib_ones (c : Cfg) (p0x p0y : Int) (ds : Draws) (y x : Int) (hb : inBlock c y x) :
    (run c (init c p0x p0y) ds).mask y x = 1 := by
  apply (mask_monotone c (init c p0x p0y) ds y x).2
  simp only [init, calibMask, if_pos hb]
  exact structure_ok.2.2.2.2.2.2.2.2.2.1

/-- invariant of the active list -/
structure ActiveInv (c : Cfg) (s : PState) : Prop where
  len : s.pxs.length = s.pys.length
  bound : (s.pxs.length : Int) ≤ c.nx * c.ny
  xr : ∀ p ∈ s.pxs, 0 ≤ p ∧ p < c.nx
  yr : ∀ p ∈ s.pys, 0 ≤ p ∧ p < c.ny

theorem step_inv (c : Cfg) (s : PState) (i : Nat) (cs : List Cand) (h : ActiveInv c s)
    (hc : Gen.Samp.outerCond c.nx c.ny s.pxs.length = true) : ActiveInv c (step c s i cs) := by
  simp only [Gen.Samp.outerCond, decide_eq_true_eq] at hc
  unfold step
  dsimp only
  split
  · rename_i qx qy heq
    have hin := accepted_in_grid c s.mask qx qy _ _ (tryCands_accepts c s.mask _ _ _ _ 0 cs (qx, qy) heq)
    refine ⟨by simp [h.len], ?_, ?_, ?_⟩
    · simp only [List.length_append, List.length_singleton]; push_cast; omega
    · intro p hp
      simp only [List.mem_append, List.mem_singleton] at hp
      rcases hp with hp | hp
      · exact h.xr p hp
      · rw [hp]; exact hin.1
    · intro p hp
      simp only [List.mem_append, List.mem_singleton] at hp
      rcases hp with hp | hp
      · exact h.yr p hp
      · rw [hp]; exact hin.2
  · refine ⟨by simp [h.len], ?_, ?_, ?_⟩
    · simp only [List.length_dropLast, List.length_set]; have := h.bound; omega
    · intro p hp; exact h.xr p (mem_retire _ _ _ _ hp)
    · intro p hp; exact h.yr p (mem_retire _ _ _ _ hp)

/-- **active list**: in every reachable state `0 ≤ num_actives ≤ nx·ny`, the two coordinate lists have the
    same length and every stored point is a grid point (so `radius_x[py, px]`, `pxs[num_actives] = qx` and
    `mask[int(qy), int(qx)] = 1` never index out of range). -/
theorem active_list_inv (c : Cfg) (p0x p0y : Int) (ds : Draws)
    (hx : 0 ≤ p0x ∧ p0x < c.nx) (hy : 0 ≤ p0y ∧ p0y < c.ny) :
    ActiveInv c (run c (init c p0x p0y) ds) := by
  have h0 : ActiveInv c (init c p0x p0y) := by
    refine ⟨rfl, ?_, ?_, ?_⟩
    · simp only [init, List.length_singleton]; push_cast
      have : 1 * 1 ≤ c.nx * c.ny := Int.mul_le_mul (by omega) (by omega) (by omega) (by omega)
      omega
    · intro p hp; simp only [init, List.mem_singleton] at hp; rw [hp]; exact hx
    · intro p hp; simp only [init, List.mem_singleton] at hp; rw [hp]; exact hy
  generalize init c p0x p0y = s at h0
  induction ds generalizing s with
  | nil => simpa [run] using h0
  | cons d rest ih =>
    obtain ⟨i, cs⟩ := d
    unfold run
    split_ifs with hc
    · exact ih _ (step_inv c s i cs h0 hc)
    · exact h0


/-! ### corner crop and the calibration block -/

/-- **crop keeps the calibration block** when the block stays at least two samples short of the grid on both
    axes (`c + 2 ≤ n`): every block index has `r² ≤ 1/2 < 1` (the block sticks out of the flat part of the
    radius coordinate by at most half a sample, normalised by `(n-c)/2 ≥ 1`). -/
theorem crop_keeps_calib (nx ny cx cy y x : Int) (hx0 : 0 ≤ cx) (hx2 : cx + 2 ≤ nx) (hy0 : 0 ≤ cy) (hy2 : cy + 2 ≤ ny)
    (hy : Gen.Samp.calibLoY ny cy ≤ y ∧ y < Gen.Samp.calibHiY ny cy)
    (hx : Gen.Samp.calibLoX nx cx ≤ x ∧ x < Gen.Samp.calibHiX nx cx) :
    keepAt nx ny cx cy y x = true := by
  obtain ⟨bx1, bx2, -, -, -⟩ := calib_block_bounds nx cx hx0 (by omega)
  obtain ⟨-, -, by1, by2, -⟩ := calib_block_bounds ny cy hy0 (by omega)
  rw [bx1, bx2] at hx
  rw [by1, by2] at hy
  obtain ⟨u0, u1⟩ := coord_block_norm nx cx x hx0 hx2 hx.1 hx.2
  obtain ⟨w0, w1⟩ := coord_block_norm ny cy y hy0 hy2 hy.1 hy.2
  simp only [keepAt, rSqAt, Gen.Samp.rSq, decide_eq_true_eq, radX_eq, radY_eq]
  nlinarith

/-- **exact class of the known finding**: for `0 ≤ c < n` on both axes, `crop_corner` removes some calibration
    sample iff the block is non-empty and touches the grid edge, i.e. `n - c = 1` on some axis (there the
    block contains index 0, whose normalised coordinate is exactly 1, so `r ≥ 1`). -/
theorem crop_loses_calib_iff (nx ny cx cy : Int) (hx0 : 0 ≤ cx) (hx1 : cx < nx) (hy0 : 0 ≤ cy) (hy1 : cy < ny) :
    (∃ y x, (Gen.Samp.calibLoY ny cy ≤ y ∧ y < Gen.Samp.calibHiY ny cy) ∧
            (Gen.Samp.calibLoX nx cx ≤ x ∧ x < Gen.Samp.calibHiX nx cx) ∧ keepAt nx ny cx cy y x = false) ↔
      (1 ≤ cx ∧ 1 ≤ cy ∧ (nx - cx = 1 ∨ ny - cy = 1)) := by
  obtain ⟨bx1, bx2, -, -, -⟩ := calib_block_bounds nx cx hx0 (by omega)
  obtain ⟨-, -, by1, by2, -⟩ := calib_block_bounds ny cy hy0 (by omega)
  constructor
  · rintro ⟨y, x, hy, hx, hk⟩
    by_contra hcls
    have hxx : cx + 2 ≤ nx ∧ cy + 2 ≤ ny := by
      rw [bx1, bx2] at hx; rw [by1, by2] at hy
      omega
    have := crop_keeps_calib nx ny cx cy y x hx0 hxx.1 hy0 hxx.2 hy hx
    rw [this] at hk; exact Bool.noConfusion hk
  · rintro ⟨h1, h2, h3⟩
    have zx := coord_zero nx cx hx0 (by omega)
    have zy := coord_zero ny cy hy0 (by omega)
    have qx : (cx:ℚ) < nx := by exact_mod_cast hx1
    have qy : (cy:ℚ) < ny := by exact_mod_cast hy1
    rcases h3 with h3 | h3
    · refine ⟨(ny - cy) / 2, 0, ?_, ?_, ?_⟩
      · rw [by1, by2]; omega
      · rw [bx1, bx2]; omega
      · simp only [keepAt, rSqAt, Gen.Samp.rSq, decide_eq_false_iff_not, radX_eq, radY_eq, not_lt]
        rw [div_self (by rw [zx]; linarith)]
        nlinarith [sq_nonneg (coord ny cy ((ny - cy) / 2) / coord ny cy 0)]
    · refine ⟨0, (nx - cx) / 2, ?_, ?_, ?_⟩
      · rw [by1, by2]; omega
      · rw [bx1, bx2]; omega
      · simp only [keepAt, rSqAt, Gen.Samp.rSq, decide_eq_false_iff_not, radX_eq, radY_eq, not_lt]
        rw [div_self (by rw [zy]; linarith)]
        nlinarith [sq_nonneg (coord nx cx ((nx - cx) / 2) / coord nx cx 0)]

/-- the probed exception, `n = 16`, `calib = 15`: index 0 belongs to the block `0 … 14` and is cropped -/
theorem crop_counterexample_16_15 :
    (Gen.Samp.calibLoX 16 15 ≤ 0 ∧ 0 < Gen.Samp.calibHiX 16 15) ∧
    (Gen.Samp.calibLoY 16 4 ≤ 6 ∧ 6 < Gen.Samp.calibHiY 16 4) ∧ keepAt 16 16 15 4 6 0 = false := by
  obtain ⟨a, b, -, -, -⟩ := calib_block_bounds 16 15 (by decide) (by decide)
  obtain ⟨-, -, c, d, -⟩ := calib_block_bounds 16 4 (by decide) (by decide)
  rw [a, b, c, d]
  refine ⟨by decide, by decide, ?_⟩
  simp only [keepAt, rSqAt, Gen.Samp.rSq, Gen.Samp.radX, Gen.Samp.radY, ratMax, ratAbs]
  norm_num

/-! ### the driver: crop, tolerance test, raise -/

/-- **no sample where `r ≥ 1`**: after `mask *= r < 1` every cell whose keep flag is false holds 0 -/
theorem crop_outside_zero (e : Env) (m : List Rat) (i : Nat) (v : Rat) (hc : e.crop = true)
    (hk : e.keep[i]? = some false) (hv : (cropMask e m)[i]? = some v) : v = 0 := by
  simp only [cropMask, hc, if_true, List.getElem?_zipWith] at hv
  cases hm : m[i]? with
  | none => simp [hm] at hv
  | some a => simp [hm, hk] at hv; exact hv.symm

/-- the crop only removes samples: a binary mask stays binary and kept cells are unchanged -/
theorem crop_binary (e : Env) (m : List Rat) (hb : ∀ a ∈ m, a = 0 ∨ a = 1) :
    ∀ a ∈ cropMask e m, a = 0 ∨ a = 1 := by
  intro a ha
  unfold cropMask at ha
  split_ifs at ha
  · rw [List.mem_iff_getElem?] at ha
    obtain ⟨i, hi⟩ := ha
    rw [List.getElem?_zipWith] at hi
    cases hm : m[i]? with
    | none => simp [hm] at hi
    | some b =>
      cases hk : e.keep[i]? with
      | none => simp [hm, hk] at hi
      | some k =>
        simp only [hm, hk, Option.map₂_some_some, Option.some.injEq] at hi
        have hb' := hb b (List.mem_of_getElem? hm)
        cases k <;> rcases hb' with h | h <;> subst h <;> simp at hi <;> simp [← hi]
  · exact hb a ha

/-- what the loop remembers about the last iteration: the mask is a cropped sampler output and `acc` is its
    acceleration -/
def LastOK (e : Env) (last : Option (List Rat × Option Rat)) : Prop :=
  ∀ m acc, last = some (m, acc) → acc = accOf e m ∧ ∃ slope, m = cropMask e (e.sampler slope)

/-- mask and acceleration of the iteration started at `(lo, hi)` -/
def mOf (e : Env) (lo hi : Rat) : List Rat := cropMask e (e.sampler (e.mid lo hi))
def aOf (e : Env) (lo hi : Rat) : Option Rat := accOf e (mOf e lo hi)

theorem stepD_cases (e : Env) (lo hi : Rat) :
    (stepD e lo hi = .exit ∧ Gen.Samp.loopCond lo hi = false) ∨
    (Gen.Samp.loopCond lo hi = true ∧
      ((brk e (aOf e lo hi) = true ∧ stepD e lo hi = .break (mOf e lo hi) (aOf e lo hi)) ∨
       (brk e (aOf e lo hi) = false ∧ Gen.Samp.stallCond (e.mid lo hi) lo hi = true ∧
          stepD e lo hi = .stall (mOf e lo hi) (aOf e lo hi)) ∨
       (brk e (aOf e lo hi) = false ∧ Gen.Samp.stallCond (e.mid lo hi) lo hi = false ∧ stepD e lo hi =
          .next (bounds e (aOf e lo hi) (e.mid lo hi) lo hi).1 (bounds e (aOf e lo hi) (e.mid lo hi) lo hi).2
            (mOf e lo hi) (aOf e lo hi)))) := by
  unfold stepD aOf mOf
  by_cases h : Gen.Samp.loopCond lo hi = true
  · right
    refine ⟨h, ?_⟩
    simp only [h, if_true]
    by_cases hb : brk e (accOf e (cropMask e (e.sampler (e.mid lo hi)))) = true
    · left; simp [hb]
    · right
      by_cases hs : Gen.Samp.stallCond (e.mid lo hi) lo hi = true
      · left; simp [hb, hs]
      · right; simp [hb, hs]
  · left; simp [h]

/-- `finish` returns a mask exactly when the last acceleration is finite and within `tol` -/
theorem finish_returned (e : Env) (last : Option (List Rat × Option Rat)) (m : List Rat)
    (h : finish e last = .returned m) :
    ∃ acc, last = some (m, acc) ∧ raises e acc = false := by
  unfold finish at h
  split at h
  · exact Outcome.noConfusion h
  · rename_i m' acc
    split_ifs at h with hr
    · injection h with h; subst h; exact ⟨acc, rfl, by simpa using hr⟩

theorem raises_false (e : Env) (acc : Option Rat) (h : raises e acc = false) :
    ∃ a, acc = some a ∧ ratAbs (a - e.accel) < e.tol := by
  cases acc with
  | none => simp [raises] at h
  | some a =>
    refine ⟨a, rfl, ?_⟩
    simp only [raises, Gen.Samp.raiseCond, decide_eq_false_iff_not, ge_iff_le, not_le] at h
    exact h

theorem loop_returned (e : Env) (fuel : Nat) (lo hi : Rat) (last : Option (List Rat × Option Rat)) (m : List Rat)
    (hl : LastOK e last) (h : loop e fuel lo hi last = .returned m) :
    ∃ acc, raises e acc = false ∧ acc = accOf e m ∧ ∃ slope, m = cropMask e (e.sampler slope) := by
  induction fuel generalizing lo hi last with
  | zero => exact Outcome.noConfusion h
  | succ n ih =>
    unfold loop at h
    have fin : ∀ acc', finish e (some (mOf e lo hi, acc')) = .returned m → acc' = aOf e lo hi →
        ∃ acc, raises e acc = false ∧ acc = accOf e m ∧ ∃ slope, m = cropMask e (e.sampler slope) := by
      intro acc' hf ha
      obtain ⟨acc, h1, h2⟩ := finish_returned e _ m hf
      injection h1 with h1; injection h1 with h1a h1b
      subst h1a; subst h1b
      exact ⟨acc', h2, ha, _, rfl⟩
    rcases stepD_cases e lo hi with ⟨hs, -⟩ | ⟨-, hs⟩
    · rw [hs] at h
      obtain ⟨acc, h1, h2⟩ := finish_returned e last m h
      obtain ⟨h3, h4⟩ := hl m acc h1
      exact ⟨acc, h2, h3, h4⟩
    · rcases hs with ⟨-, hs⟩ | ⟨-, -, hs⟩ | ⟨-, -, hs⟩
      · rw [hs] at h; exact fin _ h rfl
      · rw [hs] at h; exact fin _ h rfl
      · rw [hs] at h
        apply ih _ _ _ _ h
        intro m' acc' heq
        injection heq with heq; injection heq with ha hb
        subst ha; subst hb
        exact ⟨rfl, _, rfl⟩

/-- **a mask is returned only within tolerance**: if `poisson` returns `m` then `m` is a (cropped) output of
    `_poisson` for some slope, its sum is non-zero, and `|size / Σm − accel| < tol` — for every sampler,
    every midpoint function (exact or floating point) and any number of iterations, whichever of the three
    exits (tolerance break, stall break, loop condition) ended the loop. -/
theorem returned_within_tol (e : Env) (fuel : Nat) (m : List Rat) (h : poissonD e fuel = .returned m) :
    msum m ≠ 0 ∧ ratAbs (Gen.Samp.actualAccel e.nx e.ny (msum m) - e.accel) < e.tol ∧
    ∃ slope, m = cropMask e (e.sampler slope) := by
  obtain ⟨acc, h1, h2, h3⟩ := loop_returned e fuel _ _ none m (by intro m acc h; cases h) h
  obtain ⟨a, ha, hlt⟩ := raises_false e acc h1
  rw [ha] at h2
  unfold accOf at h2
  split_ifs at h2 with hz
  injection h2 with h2
  exact ⟨hz, by rw [← h2]; exact hlt, h3⟩

/-- break and raise are complementary: an iteration that breaks on the tolerance never raises … -/
theorem break_not_raise (e : Env) (acc : Option Rat) (h : brk e acc = true) : raises e acc = false := by
  cases acc with
  | none => simp [brk] at h
  | some a =>
    simp only [brk, Gen.Samp.breakCond, decide_eq_true_eq] at h
    simp only [raises, Gen.Samp.raiseCond, decide_eq_false_iff_not, ge_iff_le, not_le]
    exact h

/-- … and one that does not, raises if the loop ends there -/
theorem not_break_raises (e : Env) (acc : Option Rat) (h : brk e acc = false) : raises e acc = true := by
  cases acc with
  | none => rfl
  | some a =>
    simp only [brk, Gen.Samp.breakCond, decide_eq_false_iff_not, not_lt] at h
    simp only [raises, Gen.Samp.raiseCond, decide_eq_true_eq, ge_iff_le]
    exact h

/-- the stall break always ends in `ValueError` (the tolerance was tested just before and failed) -/
theorem stall_raises (e : Env) (lo hi : Rat) (m : List Rat) (acc : Option Rat) (h : stepD e lo hi = .stall m acc) :
    finish e (some (m, acc)) = .raised := by
  rcases stepD_cases e lo hi with ⟨hs, -⟩ | ⟨-, ⟨-, hs⟩ | ⟨hb, -, hs⟩ | ⟨-, -, hs⟩⟩ <;> rw [hs] at h
  · exact StepR.noConfusion h
  · exact StepR.noConfusion h
  · injection h with h1 h2
    subst h1; subst h2
    simp [finish, not_break_raises e _ hb]
  · exact StepR.noConfusion h

/-- zero or more iterations that neither break nor stall -/
inductive Iters (e : Env) : Rat → Rat → Option (List Rat × Option Rat) → Rat → Rat → Option (List Rat × Option Rat) → Prop
  | refl (lo hi last) : Iters e lo hi last lo hi last
  | step {lo hi last lo' hi' m acc lo'' hi'' last''} :
      stepD e lo hi = .next lo' hi' m acc → Iters e lo' hi' (some (m, acc)) lo'' hi'' last'' →
      Iters e lo hi last lo'' hi'' last''

/-- **raise iff**: `poisson` raises `ValueError` (for some number of iterations) exactly when, after some
    iterations that neither break nor stall, either the loop condition `slope_min < slope_max` fails (the last
    iteration then never met the tolerance) or the stall break fires (`slope` equals an end point).  The
    tolerance `break` never leads to the raise. -/
theorem raise_iff (e : Env) (lo hi : Rat) (last : Option (List Rat × Option Rat)) :
    (∃ fuel, loop e fuel lo hi last = .raised) ↔
      ∃ lo' hi' last', Iters e lo hi last lo' hi' last' ∧
        ((Gen.Samp.loopCond lo' hi' = false ∧ finish e last' = .raised) ∨ ∃ m acc, stepD e lo' hi' = .stall m acc) := by
  constructor
  · rintro ⟨fuel, h⟩
    induction fuel generalizing lo hi last with
    | zero => exact Outcome.noConfusion h
    | succ n ih =>
      unfold loop at h
      rcases stepD_cases e lo hi with ⟨hs, hc⟩ | ⟨-, hs⟩
      · rw [hs] at h
        exact ⟨lo, hi, last, Iters.refl _ _ _, Or.inl ⟨hc, h⟩⟩
      · rcases hs with ⟨hb, hs⟩ | ⟨-, -, hs⟩ | ⟨-, -, hs⟩
        · rw [hs] at h
          have := break_not_raise e _ hb
          simp only [finish, this] at h
          exact Outcome.noConfusion h
        · exact ⟨lo, hi, last, Iters.refl _ _ _, Or.inr ⟨_, _, hs⟩⟩
        · rw [hs] at h
          obtain ⟨lo', hi', last', h1, h2⟩ := ih _ _ _ h
          exact ⟨lo', hi', last', Iters.step hs h1, h2⟩
  · rintro ⟨lo', hi', last', hit, hx⟩
    induction hit with
    | refl lo hi last =>
      refine ⟨1, ?_⟩
      unfold loop
      rcases hx with ⟨hc, hf⟩ | ⟨m, acc, hst⟩
      · rcases stepD_cases e lo hi with ⟨hs, -⟩ | ⟨hc', -⟩
        · rw [hs]; exact hf
        · rw [hc] at hc'; exact Bool.noConfusion hc'
      · rw [hst]; exact stall_raises e lo hi m acc hst
    | step hs _ ih =>
      obtain ⟨fuel, h⟩ := ih hx
      refine ⟨fuel + 1, ?_⟩
      unfold loop
      rw [hs]; exact h

/-- `actual_accel` is never referenced unbound: shapes are positive, so the loop body runs at least once -/
theorem never_unbound (e : Env) (fuel : Nat) (h : 1 ≤ e.nx ∨ 1 ≤ e.ny) : poissonD e fuel ≠ .unbound := by
  have key : ∀ fuel lo hi last, loop e fuel lo hi last = .unbound → last = none ∧ Gen.Samp.loopCond lo hi = false := by
    intro fuel
    induction fuel with
    | zero => intro lo hi last h; exact Outcome.noConfusion h
    | succ n ih =>
      intro lo hi last h
      unfold loop at h
      rcases stepD_cases e lo hi with ⟨hs, hc⟩ | ⟨-, hs⟩
      · rw [hs] at h
        refine ⟨?_, hc⟩
        cases last with
        | none => rfl
        | some p => obtain ⟨m, acc⟩ := p; simp only [finish] at h; split_ifs at h
      · rcases hs with ⟨-, hs⟩ | ⟨-, -, hs⟩ | ⟨-, -, hs⟩
        · rw [hs] at h; simp only [finish] at h; split_ifs at h
        · rw [hs] at h; simp only [finish] at h; split_ifs at h
        · rw [hs] at h
          exact absurd (ih _ _ _ h).1 (by simp)
  intro hu
  have := (key fuel _ _ _ hu).2
  -- robust against `max(ny, nx)` / a hoisted `n_max`: only `1 ≤ max(..)` in either argument order is used
  simp only [Gen.Samp.loopCond, Gen.Samp.slopeMin0, Gen.Samp.slopeMax0] at this
  have hn := of_decide_eq_false this
  have g1 : 1 ≤ pyMax e.nx e.ny := by unfold pyMax; split_ifs <;> omega
  have g2 : 1 ≤ pyMax e.ny e.nx := by unfold pyMax; split_ifs <;> omega
  have g1q : (1:ℚ) ≤ ((pyMax e.nx e.ny : Int) : ℚ) := by exact_mod_cast g1
  have g2q : (1:ℚ) ≤ ((pyMax e.ny e.nx : Int) : ℚ) := by exact_mod_cast g2
  push_cast at hn g1q g2q
  rw [not_lt] at hn
  linarith

theorem bounds_cases (e : Env) (acc : Option Rat) (slope lo hi : Rat) :
    bounds e acc slope lo hi = (slope, hi) ∨ bounds e acc slope lo hi = (lo, slope) := by
  unfold bounds Gen.Samp.nextBounds
  cases acc <;> simp only <;> split_ifs <;> simp

/-- **direction of the bisection**: the sampling density falls as the slope grows, so when the mask is too
    dense (`actual_accel < accel`) the lower bound moves up to `slope`, otherwise the upper bound moves down. -/
theorem bisection_direction (a accel slope lo hi : Rat) :
    (a < accel → Gen.Samp.nextBounds a accel slope lo hi = (slope, hi)) ∧
    (¬ a < accel → Gen.Samp.nextBounds a accel slope lo hi = (lo, slope)) := by
  unfold Gen.Samp.nextBounds
  constructor <;> intro h <;> simp [h]

theorem stallCond_iff (slope lo hi : Rat) : Gen.Samp.stallCond slope lo hi = true ↔ (slope = lo ∨ slope = hi) := by
  simp only [Gen.Samp.stallCond, decide_eq_true_eq]
  grind

/-- **exact arithmetic**: with an exact midpoint (`slope_min < mid < slope_max`, e.g. `Gen.Samp.slopeMid` over
    the rationals) the interval never collapses and the midpoint never equals an end point, so neither the
    loop condition nor the stall break ever ends the loop: from `slope_min < slope_max` every run either returns
    or is still running.  The `ValueError` of the real code is produced only by floating-point exhaustion of
    the interval. -/
theorem exact_bisection_never_raises (e : Env) (hmid : ∀ lo hi, lo < hi → lo < e.mid lo hi ∧ e.mid lo hi < hi)
    (fuel : Nat) (lo hi : Rat) (last : Option (List Rat × Option Rat)) (h : lo < hi) :
    (∃ m, loop e fuel lo hi last = .returned m) ∨ loop e fuel lo hi last = .outOfFuel := by
  induction fuel generalizing lo hi last with
  | zero => right; rfl
  | succ n ih =>
    unfold loop
    obtain ⟨m1, m2⟩ := hmid lo hi h
    rcases stepD_cases e lo hi with ⟨-, hc⟩ | ⟨-, hs⟩
    · simp [Gen.Samp.loopCond] at hc; exact absurd h (not_lt.mpr hc)
    · rcases hs with ⟨hb, hs⟩ | ⟨-, hst, -⟩ | ⟨-, -, hs⟩
      · rw [hs]; left
        simp only [finish, break_not_raise e _ hb]
        exact ⟨_, rfl⟩
      · rcases (stallCond_iff _ _ _).mp hst with h1 | h1
        · exact absurd h1 (ne_of_gt m1)
        · exact absurd h1 (ne_of_lt m2)
      · rw [hs]
        apply ih
        rcases bounds_cases e (aOf e lo hi) (e.mid lo hi) lo hi with hb | hb <;> rw [hb] <;> assumption

/-- the exact rational midpoint of the source satisfies the hypothesis above -/
example (lo hi : Rat) (h : lo < hi) : lo < Gen.Samp.slopeMid lo hi ∧ Gen.Samp.slopeMid lo hi < hi := by
  unfold Gen.Samp.slopeMid; push_cast; constructor <;> linarith

/-- **a repeated midpoint exits the loop** (replaces the former `stuck_forever`): if the computed slope equals
    `slope_min` or `slope_max` — in floating point: the interval has shrunk to adjacent values, the only way the
    state could repeat — the iteration ends the loop: a mask within tolerance is returned, otherwise
    `ValueError` is raised.  `poisson` no longer neither-returns-nor-raises. -/
theorem stall_exits (e : Env) (lo hi : Rat) (hc : Gen.Samp.loopCond lo hi = true)
    (hm : e.mid lo hi = lo ∨ e.mid lo hi = hi) (fuel : Nat) (last : Option (List Rat × Option Rat)) :
    loop e (fuel + 1) lo hi last = .raised ∨ ∃ m, loop e (fuel + 1) lo hi last = .returned m := by
  unfold loop
  rcases stepD_cases e lo hi with ⟨-, hc'⟩ | ⟨-, hs⟩
  · rw [hc] at hc'; exact Bool.noConfusion hc'
  · rcases hs with ⟨hb, hs⟩ | ⟨-, -, hs⟩ | ⟨-, hst, -⟩
    · rw [hs]; right
      simp only [finish, break_not_raise e _ hb]
      exact ⟨_, rfl⟩
    · rw [hs]; left; exact stall_raises e lo hi _ _ hs
    · rw [(stallCond_iff _ _ _).mpr hm] at hst; exact Bool.noConfusion hst

/-- **every continuing iteration strictly shrinks the interval**: if `slope_min ≤ mid ≤ slope_max` then an
    iteration that neither breaks nor stalls replaces exactly one end point by the midpoint, which lies
    strictly inside: `(lo', hi') = (mid, hi)` with `lo < mid`, or `(lo, mid)` with `mid < hi`. -/
theorem interval_shrinks (e : Env) (lo hi lo' hi' : Rat) (m : List Rat) (acc : Option Rat)
    (hmid : lo ≤ e.mid lo hi ∧ e.mid lo hi ≤ hi) (h : stepD e lo hi = .next lo' hi' m acc) :
    (lo' = e.mid lo hi ∧ hi' = hi ∧ lo < lo' ∧ lo' < hi) ∨ (lo' = lo ∧ hi' = e.mid lo hi ∧ lo < hi' ∧ hi' < hi) := by
  rcases stepD_cases e lo hi with ⟨hs, -⟩ | ⟨-, ⟨-, hs⟩ | ⟨-, -, hs⟩ | ⟨-, hst, hs⟩⟩ <;> rw [hs] at h
  · exact StepR.noConfusion h
  · exact StepR.noConfusion h
  · exact StepR.noConfusion h
  · injection h with h1 h2 h3 h4
    have hne : ¬ (e.mid lo hi = lo ∨ e.mid lo hi = hi) := by
      intro hh; rw [(stallCond_iff _ _ _).mpr hh] at hst; exact Bool.noConfusion hst
    have n1 : lo < e.mid lo hi := lt_of_le_of_ne hmid.1 (fun hh => hne (Or.inl hh.symm))
    have n2 : e.mid lo hi < hi := lt_of_le_of_ne hmid.2 (fun hh => hne (Or.inr hh))
    rcases bounds_cases e (aOf e lo hi) (e.mid lo hi) lo hi with hb | hb <;> rw [hb] at h1 h2
    · left; exact ⟨h1.symm, h2.symm, h1 ▸ n1, h1 ▸ n2⟩
    · right; exact ⟨h1.symm, h2.symm, h2 ▸ n1, h2 ▸ n2⟩

/-- **termination over a finite grid**: let `grid` be any finite set of slope values (float64 is one) that
    contains the initial end points and every value of the midpoint function, and let the midpoint lie in
    `[slope_min, slope_max]`.  Then the loop ends — `poisson` returns or raises — within as many iterations as
    there are grid points between the end points (plus one).
    What is *not* proved: that the floating-point `(slope_max + slope_min) / 2` satisfies the two hypotheses
    (IEEE round-to-nearest does; the `driver` correspondence stream checks `lo ≤ mid ≤ hi` on every real trace). -/
theorem terminates (e : Env) (grid : Finset ℚ)
    (hmid : ∀ lo hi, lo < hi → lo ≤ e.mid lo hi ∧ e.mid lo hi ≤ hi ∧ e.mid lo hi ∈ grid)
    (n : Nat) (lo hi : Rat) (last : Option (List Rat × Option Rat)) (hlo : lo ∈ grid) (hhi : hi ∈ grid)
    (hn : (grid.filter (fun g => lo ≤ g ∧ g ≤ hi)).card ≤ n) :
    loop e (n + 1) lo hi last ≠ .outOfFuel := by
  have fin : ∀ l, finish e l ≠ .outOfFuel := by
    intro l; unfold finish; split
    · exact fun h => Outcome.noConfusion h
    · split_ifs <;> exact fun h => Outcome.noConfusion h
  induction n generalizing lo hi last with
  | zero =>
    unfold loop
    rcases stepD_cases e lo hi with ⟨hs, -⟩ | ⟨hc, -⟩
    · rw [hs]; exact fin _
    · simp only [Gen.Samp.loopCond, decide_eq_true_eq] at hc
      have : lo ∈ grid.filter (fun g => lo ≤ g ∧ g ≤ hi) := by
        simp only [Finset.mem_filter]; exact ⟨hlo, le_refl _, le_of_lt hc⟩
      have := Finset.card_pos.mpr ⟨lo, this⟩
      omega
  | succ k ih =>
    unfold loop
    rcases stepD_cases e lo hi with ⟨hs, -⟩ | ⟨hc, ⟨-, hs⟩ | ⟨-, -, hs⟩ | ⟨-, -, hs⟩⟩
    · rw [hs]; exact fin _
    · rw [hs]; exact fin _
    · rw [hs]; exact fin _
    · rw [hs]
      simp only [Gen.Samp.loopCond, decide_eq_true_eq] at hc
      obtain ⟨m1, m2, m3⟩ := hmid lo hi hc
      rcases interval_shrinks e lo hi _ _ _ _ ⟨m1, m2⟩ hs with ⟨a1, a2, a3, a4⟩ | ⟨a1, a2, a3, a4⟩
      · rw [a1, a2]
        apply ih _ _ _ m3 hhi
        have hsub : grid.filter (fun g => e.mid lo hi ≤ g ∧ g ≤ hi) ⊂ grid.filter (fun g => lo ≤ g ∧ g ≤ hi) := by
          rw [Finset.ssubset_iff_of_subset]
          · refine ⟨lo, ?_, ?_⟩
            · simp only [Finset.mem_filter]; exact ⟨hlo, le_refl _, le_of_lt hc⟩
            · simp only [Finset.mem_filter, not_and]; intro _ h1; rw [a1] at a3; exact absurd h1 (not_le.mpr a3)
          · intro g hg
            simp only [Finset.mem_filter] at hg ⊢
            rw [a1] at a3
            exact ⟨hg.1, le_trans (le_of_lt a3) hg.2.1, hg.2.2⟩
        have := Finset.card_lt_card hsub
        omega
      · rw [a1, a2]
        apply ih _ _ _ hlo m3
        have hsub : grid.filter (fun g => lo ≤ g ∧ g ≤ e.mid lo hi) ⊂ grid.filter (fun g => lo ≤ g ∧ g ≤ hi) := by
          rw [Finset.ssubset_iff_of_subset]
          · refine ⟨hi, ?_, ?_⟩
            · simp only [Finset.mem_filter]; exact ⟨hhi, le_of_lt hc, le_refl _⟩
            · simp only [Finset.mem_filter, not_and]; intro _ _; rw [a2] at a4; exact not_le.mpr a4
          · intro g hg
            simp only [Finset.mem_filter] at hg ⊢
            rw [a2] at a4
            exact ⟨hg.1, hg.2.1, le_trans hg.2.2 (le_of_lt a4)⟩
        have := Finset.card_lt_card hsub
        omega

/-! ### determinism and the generator states -/

theorem loopG_fst {G : Type} (e : Env) (touch : G → G) (fuel : Nat) (lo hi : Rat)
    (last : Option (List Rat × Option Rat)) (g : G) : (loopG e touch fuel lo hi last g).1 = loop e fuel lo hi last := by
  induction fuel generalizing lo hi last g with
  | zero => rfl
  | succ n ih => unfold loopG loop; split <;> simp [ih]

theorem loopG_id {G : Type} (e : Env) (fuel : Nat) (lo hi : Rat)
    (last : Option (List Rat × Option Rat)) (g : G) : (loopG e (fun g => g) fuel lo hi last g).2 = g := by
  induction fuel generalizing lo hi last g with
  | zero => rfl
  | succ n ih => unfold loopG; split <;> simp [ih]

/-- **the result is a function of the arguments and the seed**: (1) with `seed = some s` the sampler output
    does not depend on the prior state `p` of numba's private generator (it is re-seeded in every call);
    (2) the outcome of the whole call does not depend on the prior state `g` of NumPy's global generator, nor
    on what the calls do to it. -/
theorem deterministic {P D G : Type} :
    (∀ (sampleWith : D → Rat → List Rat) (ofSeed : Int → D) (ofState : P → D) (s : Int) (p₁ p₂ : P) (slope : Rat),
        samplerP sampleWith ofSeed ofState (some s) p₁ slope = samplerP sampleWith ofSeed ofState (some s) p₂ slope) ∧
    (∀ (e : Env) (seeded : Bool) (touch pyTouch touch' pyTouch' : G → G) (fuel : Nat) (g₁ g₂ : G),
        (poissonG e seeded touch pyTouch fuel g₁).1 = (poissonG e seeded touch' pyTouch' fuel g₂).1) := by
  constructor
  · intro sampleWith ofSeed ofState s p₁ p₂ slope
    simp [samplerP, structure_ok.2.2.2.2.2.1]
  · intro e seeded touch pyTouch touch' pyTouch' fuel g₁ g₂
    unfold poissonG
    simp only [loopG_fst]
    split <;> rfl

/-- **global generator state, seeded call**: whenever a seeded call returns a mask, NumPy's global state is
    exactly the state before the call — whatever the sampler or the driver did to it in between
    (`get_state` before the loop, `set_state` before `return`). -/
theorem global_rng_frame {G : Type} (e : Env) (touch pyTouch : G → G) (fuel : Nat) (g : G) (m : List Rat)
    (h : (poissonG e true touch pyTouch fuel g).1 = .returned m) : (poissonG e true touch pyTouch fuel g).2 = g := by
  have hs : (true && Gen.Samp.savesRngWhenSeeded && Gen.Samp.restoresRngWhenSeeded) = true := by
    rw [structure_ok.2.2.1, structure_ok.2.2.2.1]; rfl
  unfold poissonG at h ⊢
  dsimp only at h ⊢
  rw [hs] at h ⊢
  generalize (loopG e (fun g => touch (pyEffect pyTouch g)) fuel (Gen.Samp.slopeMin0 e.nx e.ny)
    (Gen.Samp.slopeMax0 e.nx e.ny) none (pyEffect pyTouch g)) = r at h ⊢
  obtain ⟨o, g'⟩ := r
  cases o <;> simp_all

/-- **global generator state, every path** (also `seed=None` and the `ValueError` path, where nothing is
    restored): the state is untouched provided `_poisson` does not write it (numba's generator is private —
    assumption, checked on the real code by the search) — the Python driver itself makes no other
    `np.random` call (`Gen.Samp.pythonSideRngCalls = 0`). -/
theorem global_rng_frame_private {G : Type} (e : Env) (seeded : Bool) (pyTouch : G → G) (fuel : Nat) (g : G) :
    (poissonG e seeded (fun g => g) pyTouch fuel g).2 = g := by
  have hp : pyEffect pyTouch = (fun g : G => g) := by
    unfold pyEffect; rw [if_pos structure_ok.2.2.2.2.1]; rfl
  unfold poissonG
  simp only [hp, loopG_id]
  split <;> simp


/-! ### non-vacuity: concrete environments -/

/-- a 2×2 grid, `accel = 2`, sampler returning two samples: the first iteration breaks and the mask is returned -/
def exEnv : Env := { nx := 2, ny := 2, accel := 2, tol := 1 / 10, crop := true, keep := [true, true, true, false],
                     mid := Gen.Samp.slopeMid, sampler := fun _ => [1, 0, 1, 1] }

example : ∃ m, poissonD exEnv 3 = .returned m ∧ m = [1, 0, 1, 0] := by
  refine ⟨[1, 0, 1, 0], ?_, rfl⟩
  decide +kernel

/-- a midpoint that rounds to the upper end and a sampler that is too sparse: formerly an infinite loop, now
    the stall break fires in the first iteration and the call raises -/
def stuckEnv : Env := { nx := 2, ny := 2, accel := 2, tol := 1 / 10, crop := false, keep := [],
                        mid := fun _ hi => hi, sampler := fun _ => [1, 0, 0, 0] }

example : poissonD stuckEnv 1 = .raised := by decide +kernel

end SigpyVerif.C18
