import SigpyVerif.Props.C09
import SigpyVerif.Lemmas.C01Block
import Mathlib.Data.List.Nodup
import Mathlib.Data.List.Perm.Basic
import Mathlib.Data.List.ProdSigma
/-
  C09 (blocks, deepened) — multiplicities of the generated block loop nests.

  (b) The gather kernels `_array_to_blocks{1,2,3}` write with `=`.  Every destination index is
      written at most once, so assignment and accumulation give the same result.
  (c) The scatter kernels `_blocks_to_array{1,2,3}` write with `+=`.  The number of updates landing
      on one array element is exactly the number of (block, offset) pairs covering it, and the
      count factorises over the axes; elements covered by no block receive no update.
-/
namespace SigpyVerif.C09
open SigpyVerif

/-! ### (b) gather: every destination is written at most once -/

/-- `_array_to_blocks1`: two emitted writes with the same destination block entry `[b, n, x]` are the
    same write (same source, same weight).  So the `=` in the kernel never overwrites a value
    written earlier by the same call. -/
theorem a2b1_dst_unique (osh ish : Int → Int) (batch B S N : Int) (u v : Upd Rat)
    (hu : u ∈ Gen.a2b1 osh ish batch B S N) (hv : v ∈ Gen.a2b1 osh ish batch B S N)
    (h : u.1 = v.1) : u = v := by
  rw [a2b1_mem] at hu hv
  obtain ⟨b, n, x, -, -, -, -, -, -, -, rfl⟩ := hu
  obtain ⟨b', n', x', -, -, -, -, -, -, -, rfl⟩ := hv
  simp only [List.cons.injEq, and_true] at h
  obtain ⟨rfl, rfl, rfl⟩ := h
  rfl

/-- `_array_to_blocks1` writes each destination block entry at most once: the list of destination
    indices has no repetition, so `=` (what sigpy uses) and `+=` (what the update-list semantics
    does) coincide for the gather kernel. -/
theorem a2b1_dst_nodup (osh ish : Int → Int) (batch B S N : Int) :
    ((Gen.a2b1 osh ish batch B S N).map (·.1)).Nodup :=
  List.Nodup.map_on (fun u hu v hv h => a2b1_dst_unique osh ish batch B S N u v hu hv h)
    (C01.a2b1_nodup osh ish batch B S N)

/-- `_array_to_blocks2`: two emitted writes with the same destination `[b, ny, nx, y, x]` are the
    same write. -/
theorem a2b2_dst_unique (osh ish : Int → Int) (batch Bx By Sx Sy Nx Ny : Int) (u v : Upd Rat)
    (hu : u ∈ Gen.a2b2 osh ish batch Bx By Sx Sy Nx Ny)
    (hv : v ∈ Gen.a2b2 osh ish batch Bx By Sx Sy Nx Ny) (h : u.1 = v.1) : u = v := by
  rw [a2b2_mem] at hu hv
  obtain ⟨b, ny, nx, y, x, -, -, -, -, -, -, -, -, -, -, -, -, rfl⟩ := hu
  obtain ⟨b', ny', nx', y', x', -, -, -, -, -, -, -, -, -, -, -, -, rfl⟩ := hv
  simp only [List.cons.injEq, and_true] at h
  obtain ⟨rfl, rfl, rfl, rfl, rfl⟩ := h
  rfl

/-- `_array_to_blocks2` writes each destination block entry at most once, so `=` and `+=`
    coincide for the 2-D gather kernel. -/
theorem a2b2_dst_nodup (osh ish : Int → Int) (batch Bx By Sx Sy Nx Ny : Int) :
    ((Gen.a2b2 osh ish batch Bx By Sx Sy Nx Ny).map (·.1)).Nodup :=
  List.Nodup.map_on
    (fun u hu v hv h => a2b2_dst_unique osh ish batch Bx By Sx Sy Nx Ny u v hu hv h)
    (C01.a2b2_nodup osh ish batch Bx By Sx Sy Nx Ny)

/-- `_array_to_blocks3`: two emitted writes with the same destination `[b, nz, ny, nx, z, y, x]`
    are the same write. -/
theorem a2b3_dst_unique (osh ish : Int → Int) (batch Bx By Bz Sx Sy Sz Nx Ny Nz : Int)
    (u v : Upd Rat)
    (hu : u ∈ Gen.a2b3 osh ish batch Bx By Bz Sx Sy Sz Nx Ny Nz)
    (hv : v ∈ Gen.a2b3 osh ish batch Bx By Bz Sx Sy Sz Nx Ny Nz) (h : u.1 = v.1) : u = v := by
  rw [a2b3_mem] at hu hv
  obtain ⟨b, nz, ny, nx, z, y, x, -, -, -, -, -, -, -, -, -, -, -, -, -, -, -, -, -, rfl⟩ := hu
  obtain ⟨b', nz', ny', nx', z', y', x', -, -, -, -, -, -, -, -, -, -, -, -, -, -, -, -, -, rfl⟩ := hv
  simp only [List.cons.injEq, and_true] at h
  obtain ⟨rfl, rfl, rfl, rfl, rfl, rfl, rfl⟩ := h
  rfl

/-- `_array_to_blocks3` writes each destination block entry at most once, so `=` and `+=`
    coincide for the 3-D gather kernel. -/
theorem a2b3_dst_nodup (osh ish : Int → Int) (batch Bx By Bz Sx Sy Sz Nx Ny Nz : Int) :
    ((Gen.a2b3 osh ish batch Bx By Bz Sx Sy Sz Nx Ny Nz).map (·.1)).Nodup :=
  List.Nodup.map_on
    (fun u hu v hv h => a2b3_dst_unique osh ish batch Bx By Bz Sx Sy Sz Nx Ny Nz u v hu hv h)
    (C01.a2b3_nodup osh ish batch Bx By Bz Sx Sy Sz Nx Ny Nz)

/-- non-vacuity: the 1-D gather list for a length-5 array, block 3, stride 1, 3 blocks has nine
    writes with nine distinct destinations (while its *sources* do repeat: index 2 is read 3 times) -/
example : ((Gen.a2b1 (shapeFn [1, 3, 3]) (shapeFn [1, 5]) 1 3 1 3).map (·.1)).length = 9 := by decide
example : ¬ ((Gen.a2b1 (shapeFn [1, 3, 3]) (shapeFn [1, 5]) 1 3 1 3).map (·.2.1)).Nodup := by decide

/-! ### (c) scatter: counting the `+=` updates per array element -/

/-- the (block `n`, offset `x`) pairs, `0 ≤ n < N`, `0 ≤ x < B`, that cover array index `i`,
    i.e. `n·S + x = i` -/
def coverPairs (N B S i : Int) : List (Int × Int) :=
  (pyRange0 N ×ˢ pyRange0 B).filter (fun p => decide (p.1 * S + p.2 = i))

/-- how many blocks cover array index `i` along one axis -/
def coverCount (N B S i : Int) : Nat := (coverPairs N B S i).length

/-- overlapping blocks (length 5, block 3, stride 1, 3 blocks): index 2 is covered 3 times -/
example : coverCount 3 3 1 2 = 3 := by decide
/-- the same geometry at the edge: index 0 is covered once -/
example : coverCount 3 3 1 0 = 1 := by decide
/-- a gap (block 1, stride 2): index 1 is covered by no block -/
example : coverCount 3 1 2 1 = 0 := by decide
/-- non-overlapping tiling (block 2, stride 2): every index is covered exactly once -/
example : coverCount 2 2 2 3 = 1 := by decide

/-- An array index is covered (count > 0) exactly when some in-range block `n` and in-block
    offset `x` satisfy `n·S + x = i`. -/
theorem coverCount_pos_iff (N B S i : Int) :
    0 < coverCount N B S i ↔ ∃ n x, 0 ≤ n ∧ n < N ∧ 0 ≤ x ∧ x < B ∧ n * S + x = i := by
  unfold coverCount coverPairs
  rw [List.length_pos_iff_exists_mem]
  constructor
  · rintro ⟨⟨n, x⟩, h⟩
    simp only [List.mem_filter, List.mem_product, mem_pyRange0, decide_eq_true_eq] at h
    exact ⟨n, x, h.1.1.1, h.1.1.2, h.1.2.1, h.1.2.2, h.2⟩
  · rintro ⟨n, x, h0, h1, h2, h3, h4⟩
    refine ⟨(n, x), ?_⟩
    simp only [List.mem_filter, List.mem_product, mem_pyRange0, decide_eq_true_eq]
    exact ⟨⟨⟨h0, h1⟩, ⟨h2, h3⟩⟩, h4⟩

/-- An array index is uncovered (count 0) exactly when no in-range (block, offset) pair hits it. -/
theorem coverCount_eq_zero_iff (N B S i : Int) :
    coverCount N B S i = 0 ↔ ∀ n x, 0 ≤ n → n < N → 0 ≤ x → x < B → n * S + x ≠ i := by
  have h := coverCount_pos_iff N B S i
  constructor
  · intro h0 n x a b c d e
    have : 0 < coverCount N B S i := h.mpr ⟨n, x, a, b, c, d, e⟩
    omega
  · intro hall
    by_contra hne
    obtain ⟨n, x, a, b, c, d, e⟩ := h.mp (Nat.pos_of_ne_zero hne)
    exact hall n x a b c d e

/-- Counting by bijection: if the selected members of a duplicate-free list `L` correspond one to
    one (via `g`) to the selected members of a duplicate-free list `T`, the two selections have the
    same length.  (Used with `L` = a scatter loop nest and `T` = a grid of (block, offset) pairs.) -/
theorem length_filter_eq_of_bij {β γ : Type} (L : List β) (T : List γ) (p : β → Bool)
    (q : γ → Bool) (g : γ → β) (hL : L.Nodup) (hT : T.Nodup)
    (hg : ∀ s ∈ T, ∀ t ∈ T, g s = g t → s = t)
    (h : ∀ u, (u ∈ L ∧ p u = true) ↔ ∃ t, t ∈ T ∧ q t = true ∧ g t = u) :
    (L.filter p).length = (T.filter q).length := by
  have hnd : ((T.filter q).map g).Nodup :=
    List.Nodup.map_on
      (fun s hs t ht e => hg s (List.mem_filter.1 hs).1 t (List.mem_filter.1 ht).1 e)
      (hT.filter _)
  have hperm : (L.filter p).Perm ((T.filter q).map g) := by
    rw [List.perm_ext_iff_of_nodup (hL.filter _) hnd]
    intro u
    rw [List.mem_filter, h, List.mem_map]
    constructor
    · rintro ⟨t, ht, hq, e⟩
      exact ⟨t, List.mem_filter.2 ⟨ht, hq⟩, e⟩
    · rintro ⟨t, ht, e⟩
      exact ⟨t, (List.mem_filter.1 ht).1, (List.mem_filter.1 ht).2, e⟩
  rw [hperm.length_eq, List.length_map]

/-- Selecting from a grid by a test that is a conjunction of one test per axis selects a grid:
    the count is the product of the per-axis counts. -/
theorem length_filter_product {α β : Type} (A : List α) (B : List β) (qa : α → Bool)
    (qb : β → Bool) :
    ((A ×ˢ B).filter (fun p => qa p.1 && qb p.2)).length =
      (A.filter qa).length * (B.filter qb).length := by
  induction A with
  | nil => simp
  | cons a A ih =>
    rw [List.product_cons, List.filter_append, List.length_append, ih, List.filter_map,
      List.length_map]
    cases hqa : qa a
    · have : ((fun p : α × β => qa p.1 && qb p.2) ∘ Prod.mk a) = fun _ => false := by
        funext y; simp [hqa]
      rw [this, List.filter_cons_of_neg (by simp [hqa])]
      simp
    · have : ((fun p : α × β => qa p.1 && qb p.2) ∘ Prod.mk a) = qb := by
        funext y; simp [hqa]
      rw [this, List.filter_cons_of_pos (by simp [hqa]), List.length_cons]
      ring

/-- `_blocks_to_array1`: the number of `+=` updates landing on array index `ix` of batch `b` is the
    number of (block, offset) pairs with `n·S + x = ix`.  With overlapping blocks this is > 1
    (the overlaps are summed); with gaps it is 0. -/
theorem b2a1_cover (osh ish : Int → Int) (batch B S N : Int) (hS : 0 < S) (b ix : Int)
    (hb : 0 ≤ b ∧ b < batch) (hix : 0 ≤ ix ∧ ix < osh (-1)) :
    ((Gen.b2a1 osh ish batch B S N).filter (fun u => decide (u.1 = [b, ix]))).length =
      coverCount N B S ix := by
  unfold coverCount coverPairs
  refine length_filter_eq_of_bij _ _ _ _ (fun t => ([b, ix], [b, t.1, t.2], (1 : Rat)))
    (C01.b2a1_nodup osh ish batch B S N)
    (List.Nodup.product (C01.pyRange_nodup _ _ _) (C01.pyRange_nodup _ _ _)) ?_ ?_
  · rintro ⟨n, x⟩ _ ⟨n', x'⟩ _ e
    simp only [Prod.mk.injEq, List.cons.injEq, and_true, true_and] at e
    obtain ⟨rfl, rfl⟩ := e
    rfl
  · intro u
    rw [b2a1_mem osh ish batch B S N hS]
    simp only [Prod.exists, decide_eq_true_eq, List.mem_product, mem_pyRange0]
    constructor
    · rintro ⟨⟨b', n, x, -, -, hn0, hn1, hx0, hx1, -, rfl⟩, e⟩
      simp only [List.cons.injEq, and_true] at e
      obtain ⟨rfl, rfl⟩ := e
      exact ⟨n, x, ⟨⟨hn0, hn1⟩, ⟨hx0, hx1⟩⟩, rfl, rfl⟩
    · rintro ⟨n, x, ⟨⟨hn0, hn1⟩, ⟨hx0, hx1⟩⟩, e, rfl⟩
      subst e
      exact ⟨⟨b, n, x, hb.1, hb.2, hn0, hn1, hx0, hx1, hix.2, rfl⟩, rfl⟩

/-- the overlap example of `coverCount 3 3 1 2 = 3`, seen on the generated loop nest itself -/
example : ((Gen.b2a1 (shapeFn [1, 5]) (shapeFn [1, 3, 3]) 1 3 1 3).filter
    (fun u => decide (u.1 = [0, 2]))).length = coverCount 3 3 1 2 := by decide

/-- `_blocks_to_array1`: an array index covered by no block receives no update at all, so it keeps
    the 0 the output was initialised with. -/
theorem b2a1_uncovered (osh ish : Int → Int) (batch B S N : Int) (hS : 0 < S) (b ix : Int)
    (h0 : coverCount N B S ix = 0) :
    ∀ u ∈ Gen.b2a1 osh ish batch B S N, u.1 ≠ [b, ix] := by
  intro u hu e
  rw [b2a1_mem osh ish batch B S N hS] at hu
  obtain ⟨b', n, x, -, -, hn0, hn1, hx0, hx1, -, rfl⟩ := hu
  simp only [List.cons.injEq, and_true] at e
  exact (coverCount_eq_zero_iff N B S ix).mp h0 n x hn0 hn1 hx0 hx1 e.2

/-- `_blocks_to_array1`: positions outside the output array or outside the batch are never
    written (no out-of-bounds `+=`). -/
theorem b2a1_out_of_range (osh ish : Int → Int) (batch B S N : Int) (hS : 0 < S) (b ix : Int)
    (h : b < 0 ∨ batch ≤ b ∨ ix < 0 ∨ osh (-1) ≤ ix) :
    ∀ u ∈ Gen.b2a1 osh ish batch B S N, u.1 ≠ [b, ix] := by
  intro u hu e
  rw [b2a1_mem osh ish batch B S N hS] at hu
  obtain ⟨b', n, x, hb0, hb1, hn0, hn1, hx0, hx1, hg, rfl⟩ := hu
  simp only [List.cons.injEq, and_true] at e
  obtain ⟨rfl, rfl⟩ := e
  have : 0 ≤ n * S := Int.mul_nonneg hn0 (Int.le_of_lt hS)
  omega

/-- `_blocks_to_array1`, filter form: the list of updates landing on an uncovered index is empty. -/
theorem b2a1_uncovered_nil (osh ish : Int → Int) (batch B S N : Int) (hS : 0 < S) (b ix : Int)
    (h0 : coverCount N B S ix = 0) :
    (Gen.b2a1 osh ish batch B S N).filter (fun u => decide (u.1 = [b, ix])) = [] := by
  rw [List.filter_eq_nil_iff]
  intro u hu
  simpa using b2a1_uncovered osh ish batch B S N hS b ix h0 u hu

/-- `_blocks_to_array2`: the number of `+=` updates landing on array element `(iy, ix)` of batch `b`
    is the product of the per-axis cover counts: (blocks covering `iy` along y) × (blocks covering
    `ix` along x). -/
theorem b2a2_cover (osh ish : Int → Int) (batch Bx By Sx Sy Nx Ny : Int) (hSx : 0 < Sx)
    (hSy : 0 < Sy) (b iy ix : Int) (hb : 0 ≤ b ∧ b < batch) (hiy : 0 ≤ iy ∧ iy < osh (-2))
    (hix : 0 ≤ ix ∧ ix < osh (-1)) :
    ((Gen.b2a2 osh ish batch Bx By Sx Sy Nx Ny).filter
        (fun u => decide (u.1 = [b, iy, ix]))).length =
      coverCount Ny By Sy iy * coverCount Nx Bx Sx ix := by
  unfold coverCount coverPairs
  rw [← length_filter_product]
  refine length_filter_eq_of_bij _ _ _ _
    (fun t : (Int × Int) × (Int × Int) =>
      ([b, iy, ix], [b, t.1.1, t.2.1, t.1.2, t.2.2], (1 : Rat)))
    (C01.b2a2_nodup osh ish batch Bx By Sx Sy Nx Ny)
    (List.Nodup.product
      (List.Nodup.product (C01.pyRange_nodup _ _ _) (C01.pyRange_nodup _ _ _))
      (List.Nodup.product (C01.pyRange_nodup _ _ _) (C01.pyRange_nodup _ _ _))) ?_ ?_
  · rintro ⟨⟨ny, y⟩, ⟨nx, x⟩⟩ _ ⟨⟨ny', y'⟩, ⟨nx', x'⟩⟩ _ e
    simp only [Prod.mk.injEq, List.cons.injEq, and_true, true_and] at e
    obtain ⟨rfl, rfl, rfl, rfl⟩ := e
    rfl
  · intro u
    rw [b2a2_mem osh ish batch Bx By Sx Sy Nx Ny hSx hSy]
    simp only [Prod.exists, decide_eq_true_eq, List.mem_product, mem_pyRange0, Bool.and_eq_true]
    constructor
    · rintro ⟨⟨b', ny, nx, y, x, -, -, hny0, hny1, hnx0, hnx1, hy0, hy1, hx0, hx1, -, -, rfl⟩, e⟩
      simp only [List.cons.injEq, and_true] at e
      obtain ⟨rfl, rfl, rfl⟩ := e
      exact ⟨ny, y, nx, x, ⟨⟨⟨hny0, hny1⟩, ⟨hy0, hy1⟩⟩, ⟨⟨hnx0, hnx1⟩, ⟨hx0, hx1⟩⟩⟩, ⟨rfl, rfl⟩, rfl⟩
    · rintro ⟨ny, y, nx, x, ⟨⟨⟨hny0, hny1⟩, ⟨hy0, hy1⟩⟩, ⟨⟨hnx0, hnx1⟩, ⟨hx0, hx1⟩⟩⟩, ⟨ey, ex⟩, rfl⟩
      subst ey ex
      exact ⟨⟨b, ny, nx, y, x, hb.1, hb.2, hny0, hny1, hnx0, hnx1, hy0, hy1, hx0, hx1,
        hix.2, hiy.2, rfl⟩, rfl⟩

/-- 3×3 array, 2×2 blocks, stride 1, 2×2 blocks: the centre element (1,1) is covered by all four
    blocks (2 along y × 2 along x), a corner by one. -/
example : ((Gen.b2a2 (shapeFn [1, 3, 3]) (shapeFn [1, 2, 2, 2, 2]) 1 2 2 1 1 2 2).filter
    (fun u => decide (u.1 = [0, 1, 1]))).length = 4 := by decide
example : coverCount 2 2 1 1 * coverCount 2 2 1 1 = 4 := by decide
example : coverCount 2 2 1 0 * coverCount 2 2 1 0 = 1 := by decide

/-- `_blocks_to_array2`: an element whose row or column is covered by no block receives no
    update (stays 0). -/
theorem b2a2_uncovered (osh ish : Int → Int) (batch Bx By Sx Sy Nx Ny : Int) (hSx : 0 < Sx)
    (hSy : 0 < Sy) (b iy ix : Int)
    (h0 : coverCount Ny By Sy iy = 0 ∨ coverCount Nx Bx Sx ix = 0) :
    ∀ u ∈ Gen.b2a2 osh ish batch Bx By Sx Sy Nx Ny, u.1 ≠ [b, iy, ix] := by
  intro u hu e
  rw [b2a2_mem osh ish batch Bx By Sx Sy Nx Ny hSx hSy] at hu
  obtain ⟨b', ny, nx, y, x, -, -, hny0, hny1, hnx0, hnx1, hy0, hy1, hx0, hx1, -, -, rfl⟩ := hu
  simp only [List.cons.injEq, and_true] at e
  rcases h0 with h0 | h0
  · exact (coverCount_eq_zero_iff Ny By Sy iy).mp h0 ny y hny0 hny1 hy0 hy1 e.2.1
  · exact (coverCount_eq_zero_iff Nx Bx Sx ix).mp h0 nx x hnx0 hnx1 hx0 hx1 e.2.2

/-- `_blocks_to_array2`: positions outside the output array or outside the batch are never
    written. -/
theorem b2a2_out_of_range (osh ish : Int → Int) (batch Bx By Sx Sy Nx Ny : Int) (hSx : 0 < Sx)
    (hSy : 0 < Sy) (b iy ix : Int)
    (h : b < 0 ∨ batch ≤ b ∨ iy < 0 ∨ osh (-2) ≤ iy ∨ ix < 0 ∨ osh (-1) ≤ ix) :
    ∀ u ∈ Gen.b2a2 osh ish batch Bx By Sx Sy Nx Ny, u.1 ≠ [b, iy, ix] := by
  intro u hu e
  rw [b2a2_mem osh ish batch Bx By Sx Sy Nx Ny hSx hSy] at hu
  obtain ⟨b', ny, nx, y, x, hb0, hb1, hny0, hny1, hnx0, hnx1, hy0, hy1, hx0, hx1, hgx, hgy, rfl⟩ := hu
  simp only [List.cons.injEq, and_true] at e
  obtain ⟨rfl, rfl, rfl⟩ := e
  have : 0 ≤ ny * Sy := Int.mul_nonneg hny0 (Int.le_of_lt hSy)
  have : 0 ≤ nx * Sx := Int.mul_nonneg hnx0 (Int.le_of_lt hSx)
  omega

/-- `_blocks_to_array2`, filter form: the list of updates landing on an uncovered element is
    empty. -/
theorem b2a2_uncovered_nil (osh ish : Int → Int) (batch Bx By Sx Sy Nx Ny : Int) (hSx : 0 < Sx)
    (hSy : 0 < Sy) (b iy ix : Int)
    (h0 : coverCount Ny By Sy iy = 0 ∨ coverCount Nx Bx Sx ix = 0) :
    (Gen.b2a2 osh ish batch Bx By Sx Sy Nx Ny).filter (fun u => decide (u.1 = [b, iy, ix])) = [] := by
  rw [List.filter_eq_nil_iff]
  intro u hu
  simpa using b2a2_uncovered osh ish batch Bx By Sx Sy Nx Ny hSx hSy b iy ix h0 u hu

/-- `_blocks_to_array3`: the number of `+=` updates landing on array element `(iz, iy, ix)` of batch
    `b` is the product of the three per-axis cover counts. -/
theorem b2a3_cover (osh ish : Int → Int) (batch Bx By Bz Sx Sy Sz Nx Ny Nz : Int)
    (hSx : 0 < Sx) (hSy : 0 < Sy) (hSz : 0 < Sz) (b iz iy ix : Int) (hb : 0 ≤ b ∧ b < batch)
    (hiz : 0 ≤ iz ∧ iz < osh (-3)) (hiy : 0 ≤ iy ∧ iy < osh (-2))
    (hix : 0 ≤ ix ∧ ix < osh (-1)) :
    ((Gen.b2a3 osh ish batch Bx By Bz Sx Sy Sz Nx Ny Nz).filter
        (fun u => decide (u.1 = [b, iz, iy, ix]))).length =
      coverCount Nz Bz Sz iz * coverCount Ny By Sy iy * coverCount Nx Bx Sx ix := by
  unfold coverCount coverPairs
  rw [mul_assoc, ← length_filter_product (pyRange0 Ny ×ˢ pyRange0 By), ← length_filter_product]
  refine length_filter_eq_of_bij _ _ _ _
    (fun t : (Int × Int) × ((Int × Int) × (Int × Int)) =>
      ([b, iz, iy, ix], [b, t.1.1, t.2.1.1, t.2.2.1, t.1.2, t.2.1.2, t.2.2.2], (1 : Rat)))
    (C01.b2a3_nodup osh ish batch Bx By Bz Sx Sy Sz Nx Ny Nz)
    (List.Nodup.product
      (List.Nodup.product (C01.pyRange_nodup _ _ _) (C01.pyRange_nodup _ _ _))
      (List.Nodup.product
        (List.Nodup.product (C01.pyRange_nodup _ _ _) (C01.pyRange_nodup _ _ _))
        (List.Nodup.product (C01.pyRange_nodup _ _ _) (C01.pyRange_nodup _ _ _)))) ?_ ?_
  · rintro ⟨⟨nz, z⟩, ⟨ny, y⟩, ⟨nx, x⟩⟩ _ ⟨⟨nz', z'⟩, ⟨ny', y'⟩, ⟨nx', x'⟩⟩ _ e
    simp only [Prod.mk.injEq, List.cons.injEq, and_true, true_and] at e
    obtain ⟨rfl, rfl, rfl, rfl, rfl, rfl⟩ := e
    rfl
  · intro u
    rw [b2a3_mem osh ish batch Bx By Bz Sx Sy Sz Nx Ny Nz hSx hSy hSz]
    simp only [Prod.exists, decide_eq_true_eq, List.mem_product, mem_pyRange0, Bool.and_eq_true]
    constructor
    · rintro ⟨⟨b', nz, ny, nx, z, y, x, -, -, hnz0, hnz1, hny0, hny1, hnx0, hnx1, hz0, hz1,
        hy0, hy1, hx0, hx1, -, -, -, rfl⟩, e⟩
      simp only [List.cons.injEq, and_true] at e
      obtain ⟨rfl, rfl, rfl, rfl⟩ := e
      exact ⟨nz, z, ny, y, nx, x,
        ⟨⟨⟨hnz0, hnz1⟩, ⟨hz0, hz1⟩⟩, ⟨⟨hny0, hny1⟩, ⟨hy0, hy1⟩⟩, ⟨⟨hnx0, hnx1⟩, ⟨hx0, hx1⟩⟩⟩,
        ⟨rfl, rfl, rfl⟩, rfl⟩
    · rintro ⟨nz, z, ny, y, nx, x,
        ⟨⟨⟨hnz0, hnz1⟩, ⟨hz0, hz1⟩⟩, ⟨⟨hny0, hny1⟩, ⟨hy0, hy1⟩⟩, ⟨⟨hnx0, hnx1⟩, ⟨hx0, hx1⟩⟩⟩,
        ⟨ez, ey, ex⟩, rfl⟩
      subst ez ey ex
      exact ⟨⟨b, nz, ny, nx, z, y, x, hb.1, hb.2, hnz0, hnz1, hny0, hny1, hnx0, hnx1, hz0, hz1,
        hy0, hy1, hx0, hx1, hix.2, hiy.2, hiz.2, rfl⟩, rfl⟩

/-- 1×1×3 array, blocks of 1×1×2 with stride 1 (one block along z and y, two along x): element
    (0,0,1) is covered by both x-blocks, so it receives two updates. -/
example : ((Gen.b2a3 (shapeFn [1, 1, 1, 3]) (shapeFn [1, 1, 1, 2, 1, 1, 2]) 1 2 1 1 1 1 1 2 1 1).filter
    (fun u => decide (u.1 = [0, 0, 0, 1]))).length = 2 := by decide
example : coverCount 1 1 1 0 * coverCount 1 1 1 0 * coverCount 2 2 1 1 = 2 := by decide

/-- `_blocks_to_array3`: an element that is uncovered along at least one axis receives no update
    (stays 0). -/
theorem b2a3_uncovered (osh ish : Int → Int) (batch Bx By Bz Sx Sy Sz Nx Ny Nz : Int)
    (hSx : 0 < Sx) (hSy : 0 < Sy) (hSz : 0 < Sz) (b iz iy ix : Int)
    (h0 : coverCount Nz Bz Sz iz = 0 ∨ coverCount Ny By Sy iy = 0 ∨ coverCount Nx Bx Sx ix = 0) :
    ∀ u ∈ Gen.b2a3 osh ish batch Bx By Bz Sx Sy Sz Nx Ny Nz, u.1 ≠ [b, iz, iy, ix] := by
  intro u hu e
  rw [b2a3_mem osh ish batch Bx By Bz Sx Sy Sz Nx Ny Nz hSx hSy hSz] at hu
  obtain ⟨b', nz, ny, nx, z, y, x, -, -, hnz0, hnz1, hny0, hny1, hnx0, hnx1, hz0, hz1,
    hy0, hy1, hx0, hx1, -, -, -, rfl⟩ := hu
  simp only [List.cons.injEq, and_true] at e
  rcases h0 with h0 | h0 | h0
  · exact (coverCount_eq_zero_iff Nz Bz Sz iz).mp h0 nz z hnz0 hnz1 hz0 hz1 e.2.1
  · exact (coverCount_eq_zero_iff Ny By Sy iy).mp h0 ny y hny0 hny1 hy0 hy1 e.2.2.1
  · exact (coverCount_eq_zero_iff Nx Bx Sx ix).mp h0 nx x hnx0 hnx1 hx0 hx1 e.2.2.2

/-- `_blocks_to_array3`: positions outside the output array or outside the batch are never
    written. -/
theorem b2a3_out_of_range (osh ish : Int → Int) (batch Bx By Bz Sx Sy Sz Nx Ny Nz : Int)
    (hSx : 0 < Sx) (hSy : 0 < Sy) (hSz : 0 < Sz) (b iz iy ix : Int)
    (h : b < 0 ∨ batch ≤ b ∨ iz < 0 ∨ osh (-3) ≤ iz ∨ iy < 0 ∨ osh (-2) ≤ iy ∨
      ix < 0 ∨ osh (-1) ≤ ix) :
    ∀ u ∈ Gen.b2a3 osh ish batch Bx By Bz Sx Sy Sz Nx Ny Nz, u.1 ≠ [b, iz, iy, ix] := by
  intro u hu e
  rw [b2a3_mem osh ish batch Bx By Bz Sx Sy Sz Nx Ny Nz hSx hSy hSz] at hu
  obtain ⟨b', nz, ny, nx, z, y, x, hb0, hb1, hnz0, hnz1, hny0, hny1, hnx0, hnx1, hz0, hz1,
    hy0, hy1, hx0, hx1, hgx, hgy, hgz, rfl⟩ := hu
  simp only [List.cons.injEq, and_true] at e
  obtain ⟨rfl, rfl, rfl, rfl⟩ := e
  have : 0 ≤ nz * Sz := Int.mul_nonneg hnz0 (Int.le_of_lt hSz)
  have : 0 ≤ ny * Sy := Int.mul_nonneg hny0 (Int.le_of_lt hSy)
  have : 0 ≤ nx * Sx := Int.mul_nonneg hnx0 (Int.le_of_lt hSx)
  omega

/-- `_blocks_to_array3`, filter form: the list of updates landing on an uncovered element is
    empty. -/
theorem b2a3_uncovered_nil (osh ish : Int → Int) (batch Bx By Bz Sx Sy Sz Nx Ny Nz : Int)
    (hSx : 0 < Sx) (hSy : 0 < Sy) (hSz : 0 < Sz) (b iz iy ix : Int)
    (h0 : coverCount Nz Bz Sz iz = 0 ∨ coverCount Ny By Sy iy = 0 ∨ coverCount Nx Bx Sx ix = 0) :
    (Gen.b2a3 osh ish batch Bx By Bz Sx Sy Sz Nx Ny Nz).filter
      (fun u => decide (u.1 = [b, iz, iy, ix])) = [] := by
  rw [List.filter_eq_nil_iff]
  intro u hu
  simpa using b2a3_uncovered osh ish batch Bx By Bz Sx Sy Sz Nx Ny Nz hSx hSy hSz b iz iy ix h0 u hu

/-- a gap seen on the generated loop nest: block 1, stride 2, 3 blocks on a length-5 array leaves
    index 1 without any update -/
example : (Gen.b2a1 (shapeFn [1, 5]) (shapeFn [1, 3, 1]) 1 1 2 3).filter
    (fun u => decide (u.1 = [0, 1])) = [] := by decide

/-- The scatter kernels `_blocks_to_array{1,2,3}` accumulate (`+=`).  By `b2a1_cover` several updates
    land on one array index as soon as blocks overlap (`coverCount > 1`), so an assignment (`=`) would
    keep only the last block's value; the gather kernels may use either (`a2b*_dst_nodup`). -/
theorem b2a_accumulates :
    Gen.b2a1_accumulates = true ∧ Gen.b2a2_accumulates = true ∧ Gen.b2a3_accumulates = true :=
  ⟨rfl, rfl, rfl⟩

end SigpyVerif.C09
