import SigpyVerif.Props.C09
import SigpyVerif.Lemmas.C09
import Mathlib.Data.List.Basic
import Mathlib.Data.List.Perm.Basic
import Mathlib.Algebra.BigOperators.Group.List.Basic
/-
  C09, array level: `util.flip` and `util.circshift` as whole-array index maps.
-/
namespace SigpyVerif.C09
open SigpyVerif

/-- the per-axis source map both `flip` and `circshift` use -/
def mapAxes (g : Nat → Int → Int → Int) (shape k : List Int) : List Int :=
  (List.zip (List.range shape.length) (List.zip shape k)).map fun (d, n, kd) => g d n kd

/-- the source index that `util.flip` / `util.circshift` compute has the rank of the array -/
theorem mapAxes_length (g : Nat → Int → Int → Int) (shape k : List Int)
    (h : k.length = shape.length) : (mapAxes g shape k).length = shape.length := by
  simp [mapAxes, h]

/-- helper: `getD` inside the list is `getElem` -/
theorem getD_of_lt (l : List Int) (d : Nat) (h : d < l.length) : l.getD d 0 = l[d] := by
  simp [h]

/-- axis `d` of the source index of `util.flip` / `util.circshift` depends only on `d`, the extent
    `n_d` and the output coordinate `k_d` -/
theorem mapAxes_getD (g : Nat → Int → Int → Int) (shape k : List Int)
    (h : k.length = shape.length) (d : Nat) (hd : d < shape.length) :
    (mapAxes g shape k).getD d 0 = g d (shape.getD d 0) (k.getD d 0) := by
  have hl := mapAxes_length g shape k h
  rw [getD_of_lt _ _ (by omega), getD_of_lt _ _ hd, getD_of_lt _ _ (by omega)]
  simp [mapAxes]

/-- helper: two multi-indices of the same rank with equal coordinates are equal -/
theorem ext_getD {a b : List Int} (hl : a.length = b.length)
    (h : ∀ d, d < a.length → a.getD d 0 = b.getD d 0) : a = b := by
  apply List.ext_getElem hl
  intro i h1 h2
  have := h i h1
  rwa [getD_of_lt _ _ h1, getD_of_lt _ _ h2] at this

/-- if every axis map keeps `0 ≤ · < n`, the source index of `util.flip` / `util.circshift` is a valid
    index of the array (no out-of-bounds read) -/
theorem mapAxes_mem_allIdx (g : Nat → Int → Int → Int) (shape k : List Int)
    (hk : k ∈ allIdx shape)
    (hg : ∀ d n kd, 0 ≤ kd → kd < n → 0 ≤ g d n kd ∧ g d n kd < n) :
    mapAxes g shape k ∈ allIdx shape := by
  obtain ⟨hl, hb⟩ := mem_allIdx_iff_getD.mp hk
  refine mem_allIdx_iff_getD.mpr ⟨mapAxes_length g shape k hl, fun d hd => ?_⟩
  rw [mapAxes_getD g shape k hl d hd]
  exact hg d _ _ (hb d hd).1 (hb d hd).2

/-! ### `util.flip` as an array map -/

/-- where output multi-index `k` of `util.flip` reads from -/
def flipSrc (shape : List Int) (axes : Option (List Int)) (k : List Int) : List Int :=
  mapAxes (fun d n kd =>
    if (normalizeAxes axes shape.length).contains (d : Int) then n - 1 - kd else kd) shape k

/-- `util.flip(x, axes)`: the output at multi-index `k` is the input at `flipSrc k`, for every
    in-range `k` (whole-array statement, not just per axis). -/
theorem flip_array_spec {α : Type} [Zero α] (shape : List Int) (axes : Option (List Int))
    (x : Array α) (k : List Int) (hk : k ∈ allIdx shape) :
    (flip shape axes x).getD (ravel shape k).toNat 0
      = x.getD (ravel shape (flipSrc shape axes k)).toNat 0 :=
  map_allIdx_getD shape (fun k => x.getD (ravel shape (flipSrc shape axes k)).toNat 0) k hk

/-- `util.flip`: axis `d` of the source index is `n_d - 1 - k_d` when `d` is among the normalised
    axes (`axes % ndim`, or all axes for `None`), and `k_d` otherwise. -/
theorem flipSrc_getD (shape : List Int) (axes : Option (List Int)) (k : List Int)
    (hk : k ∈ allIdx shape) (d : Nat) (hd : d < shape.length) :
    (flipSrc shape axes k).getD d 0 =
      if (normalizeAxes axes shape.length).contains (d : Int)
      then shape.getD d 0 - 1 - k.getD d 0 else k.getD d 0 :=
  mapAxes_getD _ shape k (length_of_mem_allIdx hk) d hd

/-- `util.flip` never reads outside the input array. -/
theorem flipSrc_mem (shape : List Int) (axes : Option (List Int)) (k : List Int)
    (hk : k ∈ allIdx shape) : flipSrc shape axes k ∈ allIdx shape := by
  refine mapAxes_mem_allIdx _ shape k hk fun d n kd h0 h1 => ?_
  split <;> omega

/-- the index map of `util.flip` is an involution of the index set -/
theorem flipSrc_involutive (shape : List Int) (axes : Option (List Int)) (k : List Int)
    (hk : k ∈ allIdx shape) : flipSrc shape axes (flipSrc shape axes k) = k := by
  have hm := flipSrc_mem shape axes k hk
  have hl := length_of_mem_allIdx hk
  have hl' := length_of_mem_allIdx hm
  have hl'' := length_of_mem_allIdx (flipSrc_mem shape axes _ hm)
  refine ext_getD (by omega) fun d hd => ?_
  have hd' : d < shape.length := by omega
  rw [flipSrc_getD shape axes _ hm d hd', flipSrc_getD shape axes k hk d hd']
  split <;> omega

/-- `util.flip(util.flip(x, axes), axes) == x` at every position of the array. -/
theorem flip_flip_array {α : Type} [Zero α] (shape : List Int) (axes : Option (List Int))
    (x : Array α) (k : List Int) (hk : k ∈ allIdx shape) :
    (flip shape axes (flip shape axes x)).getD (ravel shape k).toNat 0
      = x.getD (ravel shape k).toNat 0 := by
  rw [flip_array_spec shape axes _ k hk,
    flip_array_spec shape axes x _ (flipSrc_mem shape axes k hk),
    flipSrc_involutive shape axes k hk]

example : flipSrc [3, 4] (some [-1]) [0, 1] = [0, 2] := by decide
example : flipSrc [3, 4] none [0, 1] = [2, 2] := by decide
example : flip [2, 3] (some [1]) #[(1 : Int), 2, 3, 4, 5, 6] = #[3, 2, 1, 6, 5, 4] := by decide

/-! ### `util.circshift` as an array map -/

/-- source index of one `np.roll(·, s, axis=a)` -/
def rollStep (shape : List Int) (a s : Int) (k : List Int) : List Int :=
  mapAxes (fun d n kd => if (d : Int) = a then rollSrc n s kd else kd) shape k

/-- source index of a sequence of rolls `ps = [(axis, shift), …]` applied in list order: the LAST
    roll is undone first. -/
def circSrc (shape : List Int) (ps : List (Int × Int)) (k : List Int) : List Int :=
  ps.foldr (fun p acc => rollStep shape p.1 p.2 acc) k

/-- `util.circshift` with no (axis, shift) pair reads position `k` from `k` -/
theorem circSrc_nil (shape k : List Int) : circSrc shape [] k = k := rfl

/-- `util.circshift`: the first roll of the list is the outermost map of the source index
    (`out_m[k] = x[g_1 (g_2 (… g_m k))]`) -/
theorem circSrc_cons (shape : List Int) (p : Int × Int) (ps : List (Int × Int)) (k : List Int) :
    circSrc shape (p :: ps) k = rollStep shape p.1 p.2 (circSrc shape ps k) := rfl

/-- one `np.roll` along one axis never reads outside the array -/
theorem rollStep_mem (shape : List Int) (a s : Int) (k : List Int) (hk : k ∈ allIdx shape) :
    rollStep shape a s k ∈ allIdx shape := by
  refine mapAxes_mem_allIdx _ shape k hk fun d n kd h0 h1 => ?_
  split
  · exact roll_in_range n s kd (by omega)
  · omega

/-- `util.circshift` never reads outside the input array -/
theorem circSrc_mem (shape : List Int) (ps : List (Int × Int)) (k : List Int)
    (hk : k ∈ allIdx shape) : circSrc shape ps k ∈ allIdx shape := by
  induction ps with
  | nil => exact hk
  | cons p ps ih => rw [circSrc_cons]; exact rollStep_mem shape p.1 p.2 _ ih

/-- one roll of the model, as a function on flat arrays -/
def rollArr {α : Type} [Zero α] (shape : List Int) (cur : Array α) (p : Int × Int) : Array α :=
  ((allIdx shape).map fun k => cur.getD (ravel shape (rollStep shape p.1 p.2 k)).toNat 0).toArray

/-- `util.circshift` of the model is the fold of `rollArr` over the (normalised axis, shift) pairs -/
theorem circshift_eq {α : Type} [Zero α] (shape shifts : List Int) (axes : Option (List Int))
    (x : Array α) :
    circshift shape shifts axes x =
      if ((axes.getD (pyRange0 shape.length)).map (fun a => pyMod a shape.length)).length
          ≠ shifts.length then none
      else some ((List.zip ((axes.getD (pyRange0 shape.length)).map
        (fun a => pyMod a shape.length)) shifts).foldl (rollArr shape) x) := rfl

/-- a sequence of `np.roll`s (the loop of `util.circshift`) reads output position `k` from `circSrc k` -/
theorem foldl_rollArr_getD {α : Type} [Zero α] (shape : List Int) (ps : List (Int × Int))
    (x : Array α) (k : List Int) (hk : k ∈ allIdx shape) :
    (ps.foldl (rollArr shape) x).getD (ravel shape k).toNat 0
      = x.getD (ravel shape (circSrc shape ps k)).toNat 0 := by
  induction ps generalizing x with
  | nil => rfl
  | cons p ps ih =>
    rw [List.foldl_cons, ih, circSrc_cons]
    exact map_allIdx_getD shape _ _ (circSrc_mem shape ps k hk)

/-- `util.circshift(x, shifts, axes)` succeeds exactly when there is one shift per axis
    (`axes=None` means all axes). -/
theorem circshift_isSome_iff {α : Type} [Zero α] (shape shifts : List Int)
    (axes : Option (List Int)) (x : Array α) :
    (circshift shape shifts axes x).isSome ↔
      ((axes.getD (pyRange0 shape.length)).map (fun a => pyMod a shape.length)).length
        = shifts.length := by
  rw [circshift_eq]
  split <;> simp_all

/-- `util.circshift(x, shifts, axes)`: the output at multi-index `k` is the input at
    `circSrc k`, the composition of the single-axis roll sources over the (normalised axis, shift)
    pairs — for every in-range `k` of the whole array. -/
theorem circshift_array_spec {α : Type} [Zero α] (shape shifts : List Int)
    (axes : Option (List Int)) (x y : Array α) (h : circshift shape shifts axes x = some y)
    (k : List Int) (hk : k ∈ allIdx shape) :
    y.getD (ravel shape k).toNat 0
      = x.getD (ravel shape (circSrc shape
          (List.zip ((axes.getD (pyRange0 shape.length)).map (fun a => pyMod a shape.length))
            shifts) k)).toNat 0 := by
  rw [circshift_eq] at h
  split at h
  · exact absurd h (by simp)
  · rw [← Option.some.inj h]
    exact foldl_rollArr_getD shape _ x k hk

/-! ### total shift per axis -/

/-- one `np.roll(·, s, axis=a)` changes coordinate `a` to `(k_a - s) mod n_a` and no other -/
theorem rollStep_getD (shape : List Int) (a s : Int) (k : List Int)
    (hl : k.length = shape.length) (d : Nat) (hd : d < shape.length) :
    (rollStep shape a s k).getD d 0 =
      if (d : Int) = a then rollSrc (shape.getD d 0) s (k.getD d 0) else k.getD d 0 :=
  mapAxes_getD _ shape k hl d hd

/-- rolling an already rolled axis adds the shifts -/
theorem rollSrc_pyMod (n s t k : Int) (hn : 0 < n) :
    rollSrc n s (pyMod (k - t) n) = pyMod (k - (s + t)) n := by
  unfold rollSrc
  rw [pyMod_of_pos _ hn, pyMod_of_pos _ hn, pyMod_of_pos _ hn, Int.emod_sub_emod]
  congr 1; ring

/-- **Total shift per axis.**  `util.circshift` with (normalised axis, shift) pairs `ps` reads, on
    axis `d`, from `(k_d - Σ shifts on axis d) mod n_d`: repeated axes add their shifts, the order of
    the pairs is irrelevant, and an axis that is not mentioned is untouched. -/
theorem circSrc_getD (shape : List Int) (ps : List (Int × Int)) (k : List Int)
    (hk : k ∈ allIdx shape) (d : Nat) (hd : d < shape.length) :
    (circSrc shape ps k).getD d 0 =
      pyMod (k.getD d 0 - ((ps.filter (fun p => decide (p.1 = (d : Int)))).map (·.2)).sum)
        (shape.getD d 0) := by
  obtain ⟨hl, hb⟩ := mem_allIdx_iff_getD.mp hk
  obtain ⟨h0, h1⟩ := hb d hd
  have hn : 0 < shape.getD d 0 := by omega
  induction ps with
  | nil =>
    simp only [circSrc_nil, List.filter_nil, List.map_nil, List.sum_nil, sub_zero]
    rw [pyMod_of_pos _ hn, Int.emod_eq_of_lt h0 h1]
  | cons p ps ih =>
    rw [circSrc_cons,
      rollStep_getD shape p.1 p.2 _ (length_of_mem_allIdx (circSrc_mem shape ps k hk)) d hd, ih]
    by_cases h : p.1 = (d : Int)
    · rw [List.filter_cons_of_pos (by simpa using h), List.map_cons, List.sum_cons,
        if_pos h.symm, rollSrc_pyMod _ _ _ _ hn]
    · rw [List.filter_cons_of_neg (by simpa using h), if_neg (fun e => h e.symm)]

/-- an axis that no pair mentions is not moved by `util.circshift` -/
theorem circSrc_getD_untouched (shape : List Int) (ps : List (Int × Int)) (k : List Int)
    (hk : k ∈ allIdx shape) (d : Nat) (hd : d < shape.length)
    (hnot : (d : Int) ∉ ps.map (·.1)) : (circSrc shape ps k).getD d 0 = k.getD d 0 := by
  obtain ⟨hl, hb⟩ := mem_allIdx_iff_getD.mp hk
  obtain ⟨h0, h1⟩ := hb d hd
  have hf : ps.filter (fun p => decide (p.1 = (d : Int))) = [] := by
    rw [List.filter_eq_nil_iff]
    intro p hp
    simp only [decide_eq_true_eq]
    intro e
    exact hnot (List.mem_map.mpr ⟨p, hp, e⟩)
  rw [circSrc_getD shape ps k hk d hd, hf]
  simp only [List.map_nil, List.sum_nil, sub_zero]
  rw [pyMod_of_pos _ (by omega), Int.emod_eq_of_lt h0 h1]

/-- helper for `util.circshift` with distinct axes: the total shift on axis `a` is the single shift
    paired with it -/
theorem filter_sum_of_nodup (ps : List (Int × Int)) (hnd : (ps.map (·.1)).Nodup) (a s : Int)
    (hm : (a, s) ∈ ps) : ((ps.filter (fun p => decide (p.1 = a))).map (·.2)).sum = s := by
  induction ps with
  | nil => simp at hm
  | cons p ps ih =>
    rw [List.map_cons, List.nodup_cons] at hnd
    rcases List.mem_cons.mp hm with e | hm'
    · subst e
      have hf : ps.filter (fun p => decide (p.1 = a)) = [] := by
        rw [List.filter_eq_nil_iff]
        intro q hq
        simp only [decide_eq_true_eq]
        intro e
        exact hnd.1 (List.mem_map.mpr ⟨q, hq, e⟩)
      rw [List.filter_cons_of_pos (by simp), hf]; simp
    · have hne : p.1 ≠ a := fun e =>
        hnd.1 (List.mem_map.mpr ⟨(a, s), hm', e.symm⟩)
      rw [List.filter_cons_of_neg (by simpa using hne)]
      exact ih hnd.2 hm'

/-- **Distinct axes = simultaneous shift.**  When the normalised axes of `util.circshift` are pairwise
    distinct (the documented use), axis `d` of the source is `(k_d - s) mod n_d` if `(d, s)` is one of
    the pairs and `k_d` if `d` is not an axis of the call. -/
theorem circshift_distinct_axes (shape : List Int) (ps : List (Int × Int)) (k : List Int)
    (hk : k ∈ allIdx shape) (hnd : (ps.map (·.1)).Nodup) (d : Nat) (hd : d < shape.length) :
    (∀ s, ((d : Int), s) ∈ ps →
        (circSrc shape ps k).getD d 0 = rollSrc (shape.getD d 0) s (k.getD d 0)) ∧
    ((d : Int) ∉ ps.map (·.1) → (circSrc shape ps k).getD d 0 = k.getD d 0) := by
  refine ⟨fun s hs => ?_, circSrc_getD_untouched shape ps k hk d hd⟩
  rw [circSrc_getD shape ps k hk d hd, filter_sum_of_nodup ps hnd d s hs]
  rfl

/-- **Order independence.**  `util.circshift` gives the same result for any reordering of its
    (axis, shift) pairs. -/
theorem circshift_perm (shape : List Int) (ps ps' : List (Int × Int)) (hp : ps.Perm ps')
    (k : List Int) (hk : k ∈ allIdx shape) : circSrc shape ps k = circSrc shape ps' k := by
  have h1 := length_of_mem_allIdx (circSrc_mem shape ps k hk)
  have h2 := length_of_mem_allIdx (circSrc_mem shape ps' k hk)
  refine ext_getD (by omega) fun d hd => ?_
  have hd' : d < shape.length := by omega
  rw [circSrc_getD shape ps k hk d hd', circSrc_getD shape ps' k hk d hd',
    ((hp.filter _).map _).sum_eq]

/-- the array-level form of `circshift_perm` -/
theorem circshift_perm_array {α : Type} [Zero α] (shape : List Int) (ps ps' : List (Int × Int))
    (hp : ps.Perm ps') (x : Array α) (k : List Int) (hk : k ∈ allIdx shape) :
    (ps.foldl (rollArr shape) x).getD (ravel shape k).toNat 0
      = (ps'.foldl (rollArr shape) x).getD (ravel shape k).toNat 0 := by
  rw [foldl_rollArr_getD shape ps x k hk, foldl_rollArr_getD shape ps' x k hk,
    circshift_perm shape ps ps' hp k hk]

/-- helper for `util.circshift` with negated shifts: the total shift per axis is negated -/
theorem filter_neg_sum (ps : List (Int × Int)) (a : Int) :
    (((ps.map (fun p => (p.1, -p.2))).filter (fun p => decide (p.1 = a))).map (·.2)).sum
      = -((ps.filter (fun p => decide (p.1 = a))).map (·.2)).sum := by
  induction ps with
  | nil => simp
  | cons p ps ih =>
    rw [List.map_cons]
    by_cases h : p.1 = a
    · rw [List.filter_cons_of_pos (by simpa using h), List.filter_cons_of_pos (by simpa using h),
        List.map_cons, List.sum_cons, List.map_cons, List.sum_cons, ih]
      ring
    · rw [List.filter_cons_of_neg (by simpa using h), List.filter_cons_of_neg (by simpa using h), ih]

/-- **Inverse.**  `circshift(circshift(x, shifts, axes), -shifts, axes)` reads every entry from its
    own position: the source index of the combined (axis, shift) list is `k` itself. -/
theorem circshift_inverse_array (shape : List Int) (ps : List (Int × Int)) (k : List Int)
    (hk : k ∈ allIdx shape) :
    circSrc shape (ps ++ ps.map (fun p => (p.1, -p.2))) k = k := by
  obtain ⟨hl, hb⟩ := mem_allIdx_iff_getD.mp hk
  have h1 := length_of_mem_allIdx (circSrc_mem shape (ps ++ ps.map (fun p => (p.1, -p.2))) k hk)
  refine ext_getD (by omega) fun d hd => ?_
  have hd' : d < shape.length := by omega
  obtain ⟨h0, h1⟩ := hb d hd'
  rw [circSrc_getD shape _ k hk d hd', List.filter_append, List.map_append, List.sum_append,
    filter_neg_sum, add_neg_cancel, sub_zero, pyMod_of_pos _ (by omega), Int.emod_eq_of_lt h0 h1]

/-- array form: two successive model rolls, by `ps` then by the negated shifts, restore `x`. -/
theorem circshift_inverse_array_getD {α : Type} [Zero α] (shape : List Int)
    (ps : List (Int × Int)) (x : Array α) (k : List Int) (hk : k ∈ allIdx shape) :
    ((ps.map (fun p => (p.1, -p.2))).foldl (rollArr shape) (ps.foldl (rollArr shape) x)).getD
        (ravel shape k).toNat 0 = x.getD (ravel shape k).toNat 0 := by
  rw [← List.foldl_append, foldl_rollArr_getD shape _ x k hk,
    circshift_inverse_array shape ps k hk]

/-- **Round trip through the model.**  If `y = circshift(x, shifts, axes)` and
    `z = circshift(y, -shifts, axes)` then `z` equals `x` at every position. -/
theorem circshift_roundtrip {α : Type} [Zero α] (shape shifts : List Int)
    (axes : Option (List Int)) (x y z : Array α)
    (h1 : circshift shape shifts axes x = some y)
    (h2 : circshift shape (shifts.map (fun s => -s)) axes y = some z)
    (k : List Int) (hk : k ∈ allIdx shape) :
    z.getD (ravel shape k).toNat 0 = x.getD (ravel shape k).toNat 0 := by
  rw [circshift_array_spec shape _ axes y z h2 k hk,
    circshift_array_spec shape shifts axes x y h1 _ (circSrc_mem shape _ k hk)]
  have e : ∀ ax : List Int, List.zip ax (shifts.map (fun s => -s))
      = (List.zip ax shifts).map (fun p => (p.1, -p.2)) := by
    intro ax
    rw [List.zip_map_right]
    rfl
  rw [e]
  have := circshift_inverse_array shape
    (List.zip ((axes.getD (pyRange0 shape.length)).map (fun a => pyMod a shape.length)) shifts) k hk
  unfold circSrc at this ⊢
  rw [List.foldr_append] at this
  rw [this]

example : circSrc [3, 4] [(1, 1), (1, 2), (0, -1)] [0, 0] = [1, 1] := by decide
example : circSrc [3, 4] [(0, -1), (1, 2), (1, 1)] [0, 0] = [1, 1] := by decide
example : circSrc [3, 4] ([(1, 1), (0, 2)] ++ [(1, -1), (0, -2)]) [2, 3] = [2, 3] := by decide
example : rollStep [3, 4] 1 1 [0, 0] = [0, 3] := by decide
example : circshift [2, 3] [1] (some [-1]) #[(1 : Int), 2, 3, 4, 5, 6]
    = some #[3, 1, 2, 6, 4, 5] := by decide
example : circshift [2, 3] [1, 1] (some [1]) #[(1 : Int), 2, 3, 4, 5, 6] = none := by decide
example : (circshift [2, 3] [1, 1] none #[(1 : Int), 2, 3, 4, 5, 6]).isSome = true := by decide

end SigpyVerif.C09
