import SigpyVerif.Props.C06Toeplitz
import SigpyVerif.Props.C06Nd
set_option linter.unusedSectionVars false
set_option linter.unusedTactic false
set_option linter.unreachableTactic false
/-
  C06 — the Toeplitz normal operator in N dimensions, by per-axis composition.

  `NUFFT._normal_linop(toeplitz=True)` returns `R.H * F.H * P * F * R` with `R = Resize(psf.shape, ishape)` (zero-pad
  every transform axis `N_d → 2 N_d`, `toep_embed_len`), `F = FFT(psf.shape, axes=<last ndim axes>)` (centred,
  orthonormal) and `P = Multiply(psf)`.  Props/C06Toeplitz.lean proves for one axis that this is EXACTLY the Toeplitz
  operator of the kernel.  Here:

  * `CircDiag F U lag` — "`Fᴴ diag(U q) F` has the entries `q (lag a b)`" — holds for one centred DFT axis
    (`circDiag_axis`, = `circulant_diagonalised`) and is inherited by Kronecker products, one axis at a time, for
    NON-separable kernels `q` (`circDiag_kron`);
  * C09's N-d zero-pad with default shifts puts sample `(n₁, n₂[, n₃])` on `(padIdx n₁, padIdx n₂[, padIdx n₃])`
    (`resizeMatNd_pad2/3`, from `C09.resize_default_aligns_nd`), crop is its conjugate transpose;
  * **`toeplitz_embedding_exact_2d/_3d`**: for ANY kernel `t : ℤ → ℤ (→ ℤ) → ℂ`,
    `Rᴴ (F₁⊗F₂)ᴴ diag((U₁⊗U₂) psf) (F₁⊗F₂) R = [t(n₁ - n₁', n₂ - n₂')]`, `psf[m] = t(m₁ - N₁, m₂ - N₂)`, with sigpy's
    centred conventions on every axis;
  * `nudft_gram_toeplitz_2d/_3d`: `AᴴA` of the exact N-d NUDFT is (block-)Toeplitz with kernel
    `|c|² Σ_j Π_d exp(2πi k_{j,d} δ_d / N_d)`; `toeplitz_structure_2d/_3d` put the two together: the Toeplitz normal
    operator with the EXACT psf equals the exact `AᴴA`.
-/
namespace SigpyVerif.C06
open SigpyVerif Matrix ComplexConjugate Finset

/-! ### circulant diagonalisation is inherited by Kronecker products -/

section circ
variable {ι κ ν : Type} [Fintype ι] [Fintype κ] [Fintype ν] [DecidableEq ι] [DecidableEq κ] [DecidableEq ν]

/-- `Fᴴ · diag(U q) · F` is the (generalised) circular convolution with `q`: entry `(a, b)` is `q (lag a b)` -/
def CircDiag (F U : Matrix ι ι ℂ) (lag : ι → ι → ι) : Prop :=
  ∀ (q : ι → ℂ) (a b : ι), (Fᴴ * Matrix.diagonal (U.mulVec q) * F) a b = q (lag a b)

theorem circ_entry (F U : Matrix ι ι ℂ) (q : ι → ℂ) (a b : ι) :
    (Fᴴ * Matrix.diagonal (U.mulVec q) * F) a b = ∑ k : ι, star (F k a) * (∑ m : ι, U k m * q m) * F k b := by
  rw [Matrix.mul_apply]
  simp only [Matrix.mul_diagonal, conjTranspose_apply, mulVec, dotProduct]

/-- one axis: C05's centred DFT with orthonormal scale, `U` = the same unnormalised (`circulant_diagonalised`) -/
theorem circDiag_axis {L : ℕ} {ω : ℂ} (hω : IsPrimitiveRoot ω L) (hL : 0 < L) (s : ℝ) (hs : s * s * L = 1) :
    CircDiag (C05.dftMatrix ω L true s) (C05.dftMatrix ω L true 1) (lagIdx hL) :=
  fun q a b => circulant_diagonalised hω hL s hs q a b

/-- **per-axis composition**: if two axes diagonalise their circular convolutions, the Kronecker product
    diagonalises the two-axis circular convolution — for an arbitrary (non-separable) kernel image `q` -/
theorem circDiag_kron {F1 U1 : Matrix ι ι ℂ} {F2 U2 : Matrix κ κ ℂ} {lag1 : ι → ι → ι} {lag2 : κ → κ → κ}
    (h1 : CircDiag F1 U1 lag1) (h2 : CircDiag F2 U2 lag2) :
    CircDiag (kroneckerMap (· * ·) F1 F2) (kroneckerMap (· * ·) U1 U2)
      (fun a b => (lag1 a.1 b.1, lag2 a.2 b.2)) := by
  intro q a b
  have h2' : ∀ m1 : ι, ∑ k : κ, star (F2 k a.2) * (∑ m : κ, U2 k m * q (m1, m)) * F2 k b.2 = q (m1, lag2 a.2 b.2) := by
    intro m1
    have := h2 (fun m2 => q (m1, m2)) a.2 b.2
    rwa [circ_entry] at this
  have h1' : ∑ k : ι, star (F1 k a.1) * (∑ m : ι, U1 k m * q (m, lag2 a.2 b.2)) * F1 k b.1
      = q (lag1 a.1 b.1, lag2 a.2 b.2) := by
    have := h1 (fun m1 => q (m1, lag2 a.2 b.2)) a.1 b.1
    rwa [circ_entry] at this
  rw [circ_entry, ← h1']
  simp only [kroneckerMap_apply, Fintype.sum_prod_type, ← h2']
  apply Finset.sum_congr rfl
  intro k1 _
  simp only [Finset.mul_sum, Finset.sum_mul]
  rw [Finset.sum_comm]
  apply Finset.sum_congr rfl
  intro m1 _
  apply Finset.sum_congr rfl
  intro k2 _
  apply Finset.sum_congr rfl
  intro m2 _
  rw [star_mul']
  ring

/-- crop ∘ (circular convolution) ∘ zero-pad reads the kernel image at `lag (pad n) (pad n')` -/
theorem embed_entry {F U : Matrix ι ι ℂ} {lag : ι → ι → ι} (h : CircDiag F U lag) (pad : ν → ι)
    (R : Matrix ι ν ℂ) (R' : Matrix ν ι ℂ) (hR : ∀ m n, R m n = if m = pad n then 1 else 0)
    (hR' : ∀ n m, R' n m = if m = pad n then 1 else 0) (q : ι → ℂ) (n n' : ν) :
    (R' * (Fᴴ * Matrix.diagonal (U.mulVec q) * F) * R) n n' = q (lag (pad n) (pad n')) := by
  rw [Matrix.mul_apply]
  simp only [Matrix.mul_apply (M := R'), hR, hR', mul_ite, mul_one, mul_zero, ite_mul, one_mul, zero_mul,
    Finset.sum_ite_eq', Finset.mem_univ, if_true]
  exact h q _ _

end circ

/-- the lag of two padded samples is their difference, re-centred at `N` (the index of the unit sample of
    `toeplitz_psf`, `toep_delta_on_centre`) -/
theorem lag_pad (N : ℕ) (hL : 0 < 2 * N) (n n' : Fin N) :
    (((lagIdx hL (padIdx N n) (padIdx N n') : Fin (2 * N)) : ℕ) : ℤ) - (N : ℤ) = ((n : ℕ) : ℤ) - ((n' : ℕ) : ℤ) := by
  rw [lagIdx_val]
  simp only [padIdx]
  have h1 := n.2
  have h2 := n'.2
  push_cast
  have e : (((n : ℕ) : ℤ) + ((N : ℤ) - (N : ℤ) / 2) - (((n' : ℕ) : ℤ) + ((N : ℤ) - (N : ℤ) / 2)) + 2 * (N : ℤ) / 2)
      = ((n : ℕ) : ℤ) - ((n' : ℕ) : ℤ) + N := by omega
  have hsub : ((N - N / 2 : ℕ) : ℤ) = (N : ℤ) - (N : ℤ) / 2 := by omega
  rw [hsub, e, Int.emod_eq_of_lt (by omega) (by omega)]
  ring

/-! ### N-d zero-pad: every axis padded around its own centre -/

theorem pad_axis_iff (N : ℕ) (m : Fin (2 * N)) (n : Fin N) :
    (((n : ℕ) : ℤ) - (N : ℤ) / 2 = ((m : ℕ) : ℤ) - ((2 * N : ℕ) : ℤ) / 2) ↔ m = padIdx N n := by
  simp only [Fin.ext_iff, padIdx]
  have := n.2
  push_cast
  constructor <;> intro h <;> omega

theorem resizeMatNd_pad2 (N1 N2 : ℕ) (m : Fin (2 * N1) × Fin (2 * N2)) (n : Fin N1 × Fin N2) :
    resizeMatNd [1, (N1 : ℤ), (N2 : ℤ)] [1, ((2 * N1 : ℕ) : ℤ), ((2 * N2 : ℕ) : ℤ)] (ix2 N1 N2) (ix2 (2 * N1) (2 * N2)) m n
      = if m = (padIdx N1 n.1, padIdx N2 n.2) then 1 else 0 := by
  unfold resizeMatNd
  simp only [of_apply]
  congr 1
  rw [eq_iff_iff, C09.resize_default_aligns_nd _ _ _ _ (by simp)]
  simp only [ix2, List.length_cons, List.length_nil]
  have hm1 := m.1.2
  have hm2 := m.2.2
  have hn1 := n.1.2
  have hn2 := n.2.2
  constructor
  · rintro ⟨_, _, h⟩
    have a1 := (h 1 (by norm_num)).2.2.2.2
    have a2 := (h 2 (by norm_num)).2.2.2.2
    simp only [List.getD_cons_succ, List.getD_cons_zero] at a1 a2
    exact Prod.ext ((pad_axis_iff N1 m.1 n.1).mp a1) ((pad_axis_iff N2 m.2 n.2).mp a2)
  · intro hmn
    have e1 : m.1 = padIdx N1 n.1 := congrArg Prod.fst hmn
    have e2 : m.2 = padIdx N2 n.2 := congrArg Prod.snd hmn
    have a1 := (pad_axis_iff N1 m.1 n.1).mpr e1
    have a2 := (pad_axis_iff N2 m.2 n.2).mpr e2
    refine ⟨trivial, trivial, fun d hd => ?_⟩
    have hd' : d = 0 ∨ d = 1 ∨ d = 2 := by omega
    rcases hd' with rfl | rfl | rfl
    · simp
    · simp only [List.getD_cons_succ, List.getD_cons_zero]
      exact ⟨by omega, by omega, by omega, by omega, a1⟩
    · simp only [List.getD_cons_succ, List.getD_cons_zero]
      exact ⟨by omega, by omega, by omega, by omega, a2⟩

theorem resizeMatNd_crop2 (N1 N2 : ℕ) (n : Fin N1 × Fin N2) (m : Fin (2 * N1) × Fin (2 * N2)) :
    resizeMatNd [1, ((2 * N1 : ℕ) : ℤ), ((2 * N2 : ℕ) : ℤ)] [1, (N1 : ℤ), (N2 : ℤ)] (ix2 (2 * N1) (2 * N2)) (ix2 N1 N2) n m
      = if m = (padIdx N1 n.1, padIdx N2 n.2) then 1 else 0 := by
  rw [← resizeMatNd_conjTranspose, conjTranspose_apply, resizeMatNd_pad2]
  split_ifs <;> simp

/-- multi-index of grid sample `(a, b, c)`: `[batch = 0, a, b, c]` -/
def ix3 (L1 L2 L3 : ℕ) : Fin L1 × Fin L2 × Fin L3 → List Int :=
  fun p => [0, ((p.1 : ℕ) : ℤ), ((p.2.1 : ℕ) : ℤ), ((p.2.2 : ℕ) : ℤ)]

theorem resizeMatNd_pad3 (N1 N2 N3 : ℕ) (m : Fin (2 * N1) × Fin (2 * N2) × Fin (2 * N3)) (n : Fin N1 × Fin N2 × Fin N3) :
    resizeMatNd [1, (N1 : ℤ), (N2 : ℤ), (N3 : ℤ)] [1, ((2 * N1 : ℕ) : ℤ), ((2 * N2 : ℕ) : ℤ), ((2 * N3 : ℕ) : ℤ)]
        (ix3 N1 N2 N3) (ix3 (2 * N1) (2 * N2) (2 * N3)) m n
      = if m = (padIdx N1 n.1, padIdx N2 n.2.1, padIdx N3 n.2.2) then 1 else 0 := by
  unfold resizeMatNd
  simp only [of_apply]
  congr 1
  rw [eq_iff_iff, C09.resize_default_aligns_nd _ _ _ _ (by simp)]
  simp only [ix3, List.length_cons, List.length_nil]
  have hm1 := m.1.2
  have hm2 := m.2.1.2
  have hm3 := m.2.2.2
  have hn1 := n.1.2
  have hn2 := n.2.1.2
  have hn3 := n.2.2.2
  constructor
  · rintro ⟨_, _, h⟩
    have a1 := (h 1 (by norm_num)).2.2.2.2
    have a2 := (h 2 (by norm_num)).2.2.2.2
    have a3 := (h 3 (by norm_num)).2.2.2.2
    simp only [List.getD_cons_succ, List.getD_cons_zero] at a1 a2 a3
    exact Prod.ext ((pad_axis_iff N1 m.1 n.1).mp a1)
      (Prod.ext ((pad_axis_iff N2 m.2.1 n.2.1).mp a2) ((pad_axis_iff N3 m.2.2 n.2.2).mp a3))
  · intro hmn
    have e1 : m.1 = padIdx N1 n.1 := congrArg Prod.fst hmn
    have e2 : m.2.1 = padIdx N2 n.2.1 := congrArg (fun p => p.2.1) hmn
    have e3 : m.2.2 = padIdx N3 n.2.2 := congrArg (fun p => p.2.2) hmn
    have a1 := (pad_axis_iff N1 m.1 n.1).mpr e1
    have a2 := (pad_axis_iff N2 m.2.1 n.2.1).mpr e2
    have a3 := (pad_axis_iff N3 m.2.2 n.2.2).mpr e3
    refine ⟨trivial, trivial, fun d hd => ?_⟩
    have hd' : d = 0 ∨ d = 1 ∨ d = 2 ∨ d = 3 := by omega
    rcases hd' with rfl | rfl | rfl | rfl
    · simp
    · simp only [List.getD_cons_succ, List.getD_cons_zero]
      exact ⟨by omega, by omega, by omega, by omega, a1⟩
    · simp only [List.getD_cons_succ, List.getD_cons_zero]
      exact ⟨by omega, by omega, by omega, by omega, a2⟩
    · simp only [List.getD_cons_succ, List.getD_cons_zero]
      exact ⟨by omega, by omega, by omega, by omega, a3⟩

theorem resizeMatNd_crop3 (N1 N2 N3 : ℕ) (n : Fin N1 × Fin N2 × Fin N3) (m : Fin (2 * N1) × Fin (2 * N2) × Fin (2 * N3)) :
    resizeMatNd [1, ((2 * N1 : ℕ) : ℤ), ((2 * N2 : ℕ) : ℤ), ((2 * N3 : ℕ) : ℤ)] [1, (N1 : ℤ), (N2 : ℤ), (N3 : ℤ)]
        (ix3 (2 * N1) (2 * N2) (2 * N3)) (ix3 N1 N2 N3) n m
      = if m = (padIdx N1 n.1, padIdx N2 n.2.1, padIdx N3 n.2.2) then 1 else 0 := by
  rw [← resizeMatNd_conjTranspose, conjTranspose_apply, resizeMatNd_pad3]
  split_ifs <;> simp

/-! ### the embedding is exact in two and three dimensions -/

/-- **Toeplitz embedding is exact, two transform axes (sigpy's centred conventions on both).**  For ANY kernel
    `t : ℤ → ℤ → ℂ` (not necessarily separable) and `T[(n₁,n₂),(n₁',n₂')] = t(n₁ - n₁', n₂ - n₂')` on `N₁ × N₂`:
    with `R` / `Rᴴ` = C09's N-d zero-pad / crop `[1,N₁,N₂] ↔ [1,2N₁,2N₂]` (default shifts), `F = F₁ ⊗ F₂` the centred
    orthonormal DFT over both axes (C05's matrices, `s_d² · 2N_d = 1`), `psf[m₁,m₂] = t(m₁ - N₁, m₂ - N₂)` and
    `p = (U₁ ⊗ U₂) psf` its centred unnormalised DFT:  `Rᴴ Fᴴ diag(p) F R = T`, entry by entry. -/
theorem toeplitz_embedding_exact_2d (N1 N2 : ℕ) (hN1 : 0 < N1) (hN2 : 0 < N2) {ω1 ω2 : ℂ}
    (hω1 : IsPrimitiveRoot ω1 (2 * N1)) (hω2 : IsPrimitiveRoot ω2 (2 * N2)) (s1 s2 : ℝ)
    (hs1 : s1 * s1 * ((2 * N1 : ℕ) : ℝ) = 1) (hs2 : s2 * s2 * ((2 * N2 : ℕ) : ℝ) = 1) (t : ℤ → ℤ → ℂ)
    (n n' : Fin N1 × Fin N2) :
    (resizeMatNd [1, ((2 * N1 : ℕ) : ℤ), ((2 * N2 : ℕ) : ℤ)] [1, (N1 : ℤ), (N2 : ℤ)] (ix2 (2 * N1) (2 * N2)) (ix2 N1 N2) *
      ((kroneckerMap (· * ·) (C05.dftMatrix ω1 (2 * N1) true s1) (C05.dftMatrix ω2 (2 * N2) true s2))ᴴ *
        Matrix.diagonal ((kroneckerMap (· * ·) (C05.dftMatrix ω1 (2 * N1) true 1) (C05.dftMatrix ω2 (2 * N2) true 1)).mulVec
          fun m : Fin (2 * N1) × Fin (2 * N2) => t (((m.1 : ℕ) : ℤ) - N1) (((m.2 : ℕ) : ℤ) - N2)) *
        kroneckerMap (· * ·) (C05.dftMatrix ω1 (2 * N1) true s1) (C05.dftMatrix ω2 (2 * N2) true s2)) *
      resizeMatNd [1, (N1 : ℤ), (N2 : ℤ)] [1, ((2 * N1 : ℕ) : ℤ), ((2 * N2 : ℕ) : ℤ)] (ix2 N1 N2) (ix2 (2 * N1) (2 * N2))) n n'
      = t (((n.1 : ℕ) : ℤ) - ((n'.1 : ℕ) : ℤ)) (((n.2 : ℕ) : ℤ) - ((n'.2 : ℕ) : ℤ)) := by
  have hL1 : 0 < 2 * N1 := by omega
  have hL2 : 0 < 2 * N2 := by omega
  have hc := circDiag_kron (circDiag_axis hω1 hL1 s1 hs1) (circDiag_axis hω2 hL2 s2 hs2)
  rw [embed_entry hc (fun p : Fin N1 × Fin N2 => (padIdx N1 p.1, padIdx N2 p.2)) _ _
    (fun m p => resizeMatNd_pad2 N1 N2 m p) (fun p m => resizeMatNd_crop2 N1 N2 p m)]
  simp only [lag_pad]

/-- **three transform axes** -/
theorem toeplitz_embedding_exact_3d (N1 N2 N3 : ℕ) (hN1 : 0 < N1) (hN2 : 0 < N2) (hN3 : 0 < N3) {ω1 ω2 ω3 : ℂ}
    (hω1 : IsPrimitiveRoot ω1 (2 * N1)) (hω2 : IsPrimitiveRoot ω2 (2 * N2)) (hω3 : IsPrimitiveRoot ω3 (2 * N3))
    (s1 s2 s3 : ℝ) (hs1 : s1 * s1 * ((2 * N1 : ℕ) : ℝ) = 1) (hs2 : s2 * s2 * ((2 * N2 : ℕ) : ℝ) = 1)
    (hs3 : s3 * s3 * ((2 * N3 : ℕ) : ℝ) = 1) (t : ℤ → ℤ → ℤ → ℂ) (n n' : Fin N1 × Fin N2 × Fin N3) :
    (resizeMatNd [1, ((2 * N1 : ℕ) : ℤ), ((2 * N2 : ℕ) : ℤ), ((2 * N3 : ℕ) : ℤ)] [1, (N1 : ℤ), (N2 : ℤ), (N3 : ℤ)]
        (ix3 (2 * N1) (2 * N2) (2 * N3)) (ix3 N1 N2 N3) *
      ((kroneckerMap (· * ·) (C05.dftMatrix ω1 (2 * N1) true s1)
          (kroneckerMap (· * ·) (C05.dftMatrix ω2 (2 * N2) true s2) (C05.dftMatrix ω3 (2 * N3) true s3)))ᴴ *
        Matrix.diagonal ((kroneckerMap (· * ·) (C05.dftMatrix ω1 (2 * N1) true 1)
          (kroneckerMap (· * ·) (C05.dftMatrix ω2 (2 * N2) true 1) (C05.dftMatrix ω3 (2 * N3) true 1))).mulVec
          fun m : Fin (2 * N1) × Fin (2 * N2) × Fin (2 * N3) =>
            t (((m.1 : ℕ) : ℤ) - N1) (((m.2.1 : ℕ) : ℤ) - N2) (((m.2.2 : ℕ) : ℤ) - N3)) *
        kroneckerMap (· * ·) (C05.dftMatrix ω1 (2 * N1) true s1)
          (kroneckerMap (· * ·) (C05.dftMatrix ω2 (2 * N2) true s2) (C05.dftMatrix ω3 (2 * N3) true s3))) *
      resizeMatNd [1, (N1 : ℤ), (N2 : ℤ), (N3 : ℤ)] [1, ((2 * N1 : ℕ) : ℤ), ((2 * N2 : ℕ) : ℤ), ((2 * N3 : ℕ) : ℤ)]
        (ix3 N1 N2 N3) (ix3 (2 * N1) (2 * N2) (2 * N3))) n n'
      = t (((n.1 : ℕ) : ℤ) - ((n'.1 : ℕ) : ℤ)) (((n.2.1 : ℕ) : ℤ) - ((n'.2.1 : ℕ) : ℤ))
          (((n.2.2 : ℕ) : ℤ) - ((n'.2.2 : ℕ) : ℤ)) := by
  have hL1 : 0 < 2 * N1 := by omega
  have hL2 : 0 < 2 * N2 := by omega
  have hL3 : 0 < 2 * N3 := by omega
  have hc := circDiag_kron (circDiag_axis hω1 hL1 s1 hs1)
    (circDiag_kron (circDiag_axis hω2 hL2 s2 hs2) (circDiag_axis hω3 hL3 s3 hs3))
  rw [embed_entry hc (fun p : Fin N1 × Fin N2 × Fin N3 => (padIdx N1 p.1, padIdx N2 p.2.1, padIdx N3 p.2.2)) _ _
    (fun m p => resizeMatNd_pad3 N1 N2 N3 m p) (fun p m => resizeMatNd_crop3 N1 N2 N3 p m)]
  simp only [lag_pad]

/-! ### `AᴴA` of the exact N-d NUDFT is Toeplitz in every axis -/

noncomputable def gramKernel2 {M : ℕ} (N1 N2 : ℤ) (k1 k2 : Fin M → ℝ) (c : ℂ) (d1 d2 : ℤ) : ℂ :=
  ∑ j : Fin M, Complex.exp (2 * Real.pi * Complex.I * k1 j * (d1 : ℂ) / N1) *
    Complex.exp (2 * Real.pi * Complex.I * k2 j * (d2 : ℂ) / N2) * (Complex.normSq c : ℂ)

noncomputable def gramKernel3 {M : ℕ} (N1 N2 N3 : ℤ) (k1 k2 k3 : Fin M → ℝ) (c : ℂ) (d1 d2 d3 : ℤ) : ℂ :=
  ∑ j : Fin M, Complex.exp (2 * Real.pi * Complex.I * k1 j * (d1 : ℂ) / N1) *
    Complex.exp (2 * Real.pi * Complex.I * k2 j * (d2 : ℂ) / N2) *
    Complex.exp (2 * Real.pi * Complex.I * k3 j * (d3 : ℂ) / N3) * (Complex.normSq c : ℂ)

/-- `A[j,(n₁,n₂)] = c · Π_d exp(-2πi k_{j,d} (n_d - N_d//2)/N_d)`: entry `((n₁,n₂),(n₁',n₂'))` of `AᴴA` depends on
    `(n₁ - n₁', n₂ - n₂')` only -/
theorem nudft_gram_toeplitz_2d {M : ℕ} (N1 N2 : ℤ) (k1 k2 : Fin M → ℝ) (c : ℂ) (n1 n2 n1' n2' : ℤ) :
    ∑ j : Fin M, conj (c * (nudftTerm N1 (k1 j) n1 * nudftTerm N2 (k2 j) n2)) *
        (c * (nudftTerm N1 (k1 j) n1' * nudftTerm N2 (k2 j) n2')) = gramKernel2 N1 N2 k1 k2 c (n1 - n1') (n2 - n2') := by
  unfold gramKernel2
  apply Finset.sum_congr rfl
  intro j _
  have h1 := conj_nudftTerm_mul N1 (k1 j) n1 n1'
  have h2 := conj_nudftTerm_mul N2 (k2 j) n2 n2'
  have hc : conj c * c = (Complex.normSq c : ℂ) := by rw [mul_comm, Complex.mul_conj]
  rw [map_mul, map_mul, ← h1, ← h2, ← hc]
  ring

theorem nudft_gram_toeplitz_3d {M : ℕ} (N1 N2 N3 : ℤ) (k1 k2 k3 : Fin M → ℝ) (c : ℂ) (n1 n2 n3 n1' n2' n3' : ℤ) :
    ∑ j : Fin M, conj (c * (nudftTerm N1 (k1 j) n1 * nudftTerm N2 (k2 j) n2 * nudftTerm N3 (k3 j) n3)) *
        (c * (nudftTerm N1 (k1 j) n1' * nudftTerm N2 (k2 j) n2' * nudftTerm N3 (k3 j) n3')) =
      gramKernel3 N1 N2 N3 k1 k2 k3 c (n1 - n1') (n2 - n2') (n3 - n3') := by
  unfold gramKernel3
  apply Finset.sum_congr rfl
  intro j _
  have h1 := conj_nudftTerm_mul N1 (k1 j) n1 n1'
  have h2 := conj_nudftTerm_mul N2 (k2 j) n2 n2'
  have h3 := conj_nudftTerm_mul N3 (k3 j) n3 n3'
  have hc : conj c * c = (Complex.normSq c : ℂ) := by rw [mul_comm, Complex.mul_conj]
  rw [map_mul, map_mul, map_mul, ← h1, ← h2, ← h3, ← hc]
  ring

/-- the Toeplitz normal operator with the EXACT psf equals the exact `AᴴA`, two transform axes -/
theorem toeplitz_structure_2d {M : ℕ} (N1 N2 : ℕ) (hN1 : 0 < N1) (hN2 : 0 < N2) {ω1 ω2 : ℂ}
    (hω1 : IsPrimitiveRoot ω1 (2 * N1)) (hω2 : IsPrimitiveRoot ω2 (2 * N2)) (s1 s2 : ℝ)
    (hs1 : s1 * s1 * ((2 * N1 : ℕ) : ℝ) = 1) (hs2 : s2 * s2 * ((2 * N2 : ℕ) : ℝ) = 1)
    (k1 k2 : Fin M → ℝ) (c : ℂ) (n n' : Fin N1 × Fin N2) :
    (resizeMatNd [1, ((2 * N1 : ℕ) : ℤ), ((2 * N2 : ℕ) : ℤ)] [1, (N1 : ℤ), (N2 : ℤ)] (ix2 (2 * N1) (2 * N2)) (ix2 N1 N2) *
      ((kroneckerMap (· * ·) (C05.dftMatrix ω1 (2 * N1) true s1) (C05.dftMatrix ω2 (2 * N2) true s2))ᴴ *
        Matrix.diagonal ((kroneckerMap (· * ·) (C05.dftMatrix ω1 (2 * N1) true 1) (C05.dftMatrix ω2 (2 * N2) true 1)).mulVec
          fun m : Fin (2 * N1) × Fin (2 * N2) =>
            gramKernel2 (N1 : ℤ) (N2 : ℤ) k1 k2 c (((m.1 : ℕ) : ℤ) - N1) (((m.2 : ℕ) : ℤ) - N2)) *
        kroneckerMap (· * ·) (C05.dftMatrix ω1 (2 * N1) true s1) (C05.dftMatrix ω2 (2 * N2) true s2)) *
      resizeMatNd [1, (N1 : ℤ), (N2 : ℤ)] [1, ((2 * N1 : ℕ) : ℤ), ((2 * N2 : ℕ) : ℤ)] (ix2 N1 N2) (ix2 (2 * N1) (2 * N2))) n n'
      = ∑ j : Fin M,
          conj (c * (nudftTerm (N1 : ℤ) (k1 j) ((n.1 : ℕ) : ℤ) * nudftTerm (N2 : ℤ) (k2 j) ((n.2 : ℕ) : ℤ))) *
            (c * (nudftTerm (N1 : ℤ) (k1 j) ((n'.1 : ℕ) : ℤ) * nudftTerm (N2 : ℤ) (k2 j) ((n'.2 : ℕ) : ℤ))) := by
  rw [toeplitz_embedding_exact_2d N1 N2 hN1 hN2 hω1 hω2 s1 s2 hs1 hs2 (gramKernel2 (N1 : ℤ) (N2 : ℤ) k1 k2 c) n n',
    nudft_gram_toeplitz_2d]

/-- three transform axes -/
theorem toeplitz_structure_3d {M : ℕ} (N1 N2 N3 : ℕ) (hN1 : 0 < N1) (hN2 : 0 < N2) (hN3 : 0 < N3) {ω1 ω2 ω3 : ℂ}
    (hω1 : IsPrimitiveRoot ω1 (2 * N1)) (hω2 : IsPrimitiveRoot ω2 (2 * N2)) (hω3 : IsPrimitiveRoot ω3 (2 * N3))
    (s1 s2 s3 : ℝ) (hs1 : s1 * s1 * ((2 * N1 : ℕ) : ℝ) = 1) (hs2 : s2 * s2 * ((2 * N2 : ℕ) : ℝ) = 1)
    (hs3 : s3 * s3 * ((2 * N3 : ℕ) : ℝ) = 1) (k1 k2 k3 : Fin M → ℝ) (c : ℂ) (n n' : Fin N1 × Fin N2 × Fin N3) :
    (resizeMatNd [1, ((2 * N1 : ℕ) : ℤ), ((2 * N2 : ℕ) : ℤ), ((2 * N3 : ℕ) : ℤ)] [1, (N1 : ℤ), (N2 : ℤ), (N3 : ℤ)]
        (ix3 (2 * N1) (2 * N2) (2 * N3)) (ix3 N1 N2 N3) *
      ((kroneckerMap (· * ·) (C05.dftMatrix ω1 (2 * N1) true s1)
          (kroneckerMap (· * ·) (C05.dftMatrix ω2 (2 * N2) true s2) (C05.dftMatrix ω3 (2 * N3) true s3)))ᴴ *
        Matrix.diagonal ((kroneckerMap (· * ·) (C05.dftMatrix ω1 (2 * N1) true 1)
          (kroneckerMap (· * ·) (C05.dftMatrix ω2 (2 * N2) true 1) (C05.dftMatrix ω3 (2 * N3) true 1))).mulVec
          fun m : Fin (2 * N1) × Fin (2 * N2) × Fin (2 * N3) =>
            gramKernel3 (N1 : ℤ) (N2 : ℤ) (N3 : ℤ) k1 k2 k3 c (((m.1 : ℕ) : ℤ) - N1) (((m.2.1 : ℕ) : ℤ) - N2)
              (((m.2.2 : ℕ) : ℤ) - N3)) *
        kroneckerMap (· * ·) (C05.dftMatrix ω1 (2 * N1) true s1)
          (kroneckerMap (· * ·) (C05.dftMatrix ω2 (2 * N2) true s2) (C05.dftMatrix ω3 (2 * N3) true s3))) *
      resizeMatNd [1, (N1 : ℤ), (N2 : ℤ), (N3 : ℤ)] [1, ((2 * N1 : ℕ) : ℤ), ((2 * N2 : ℕ) : ℤ), ((2 * N3 : ℕ) : ℤ)]
        (ix3 N1 N2 N3) (ix3 (2 * N1) (2 * N2) (2 * N3))) n n'
      = ∑ j : Fin M,
          conj (c * (nudftTerm (N1 : ℤ) (k1 j) ((n.1 : ℕ) : ℤ) * nudftTerm (N2 : ℤ) (k2 j) ((n.2.1 : ℕ) : ℤ) *
              nudftTerm (N3 : ℤ) (k3 j) ((n.2.2 : ℕ) : ℤ))) *
            (c * (nudftTerm (N1 : ℤ) (k1 j) ((n'.1 : ℕ) : ℤ) * nudftTerm (N2 : ℤ) (k2 j) ((n'.2.1 : ℕ) : ℤ) *
              nudftTerm (N3 : ℤ) (k3 j) ((n'.2.2 : ℕ) : ℤ))) := by
  rw [toeplitz_embedding_exact_3d N1 N2 N3 hN1 hN2 hN3 hω1 hω2 hω3 s1 s2 s3 hs1 hs2 hs3
    (gramKernel3 (N1 : ℤ) (N2 : ℤ) (N3 : ℤ) k1 k2 k3 c) n n', nudft_gram_toeplitz_3d]

/-- the embedding lengths and the orthonormal scale of `linop.FFT` on the embedding grid satisfy the hypotheses:
    the product of the per-axis scales is `1/√(Π 2N_d)` -/
example (N1 N2 : ℕ) (hN1 : 0 < N1) (hN2 : 0 < N2) :
    IsPrimitiveRoot (fftRoot (2 * N1)) (2 * N1) ∧ IsPrimitiveRoot (fftRoot (2 * N2)) (2 * N2) :=
  ⟨fftRoot_primitive _ (by omega), fftRoot_primitive _ (by omega)⟩

-- non-vacuity: a non-separable kernel on 1 × 2: t(d₁, d₂) = d₁ + d₂², entry ((0,1),(0,0)) of the embedded operator is 1
example {ω1 ω2 : ℂ} (hω1 : IsPrimitiveRoot ω1 (2 * 1)) (hω2 : IsPrimitiveRoot ω2 (2 * 2)) (s1 s2 : ℝ)
    (hs1 : s1 * s1 * ((2 * 1 : ℕ) : ℝ) = 1) (hs2 : s2 * s2 * ((2 * 2 : ℕ) : ℝ) = 1) :
    (resizeMatNd [1, ((2 * 1 : ℕ) : ℤ), ((2 * 2 : ℕ) : ℤ)] [1, ((1 : ℕ) : ℤ), ((2 : ℕ) : ℤ)] (ix2 (2 * 1) (2 * 2)) (ix2 1 2) *
      ((kroneckerMap (· * ·) (C05.dftMatrix ω1 (2 * 1) true s1) (C05.dftMatrix ω2 (2 * 2) true s2))ᴴ *
        Matrix.diagonal ((kroneckerMap (· * ·) (C05.dftMatrix ω1 (2 * 1) true 1) (C05.dftMatrix ω2 (2 * 2) true 1)).mulVec
          fun m : Fin (2 * 1) × Fin (2 * 2) => (fun d1 d2 : ℤ => ((d1 + d2 ^ 2 : ℤ) : ℂ)) (((m.1 : ℕ) : ℤ) - (1 : ℕ)) (((m.2 : ℕ) : ℤ) - (2 : ℕ))) *
        kroneckerMap (· * ·) (C05.dftMatrix ω1 (2 * 1) true s1) (C05.dftMatrix ω2 (2 * 2) true s2)) *
      resizeMatNd [1, ((1 : ℕ) : ℤ), ((2 : ℕ) : ℤ)] [1, ((2 * 1 : ℕ) : ℤ), ((2 * 2 : ℕ) : ℤ)] (ix2 1 2) (ix2 (2 * 1) (2 * 2)))
        ((0 : Fin 1), (1 : Fin 2)) ((0 : Fin 1), (0 : Fin 2)) = 1 := by
  refine (toeplitz_embedding_exact_2d 1 2 (by norm_num) (by norm_num) hω1 hω2 s1 s2 hs1 hs2
    (fun d1 d2 : ℤ => ((d1 + d2 ^ 2 : ℤ) : ℂ)) ((0 : Fin 1), (1 : Fin 2)) ((0 : Fin 1), (0 : Fin 2))).trans ?_
  norm_num

end SigpyVerif.C06
