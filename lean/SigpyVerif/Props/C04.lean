import SigpyVerif.Model.C01
import SigpyVerif.Props.C01
import SigpyVerif.Lemmas.C04Cover
/-
  C04 — the normal operator `A.N` is `Aᴴ A`.

  `normal : Expr → Expr` (Model/C01.lean) transcribes every `_normal_linop`: Identity for
  Identity / Reshape / Transpose / Circshift, and the default `A.H * A` for everything else
  (including ArrayToBlocks / BlocksToArray, for which the pinned commit returned Identity — wrong
  unless the blocks tile the array, `blocks_identity_wrong_witness`).

  This file: the default rule (`normal_eq_default`, `normal_default`, `normal_gram`).
  Props/C04Shortcut.lean (imports the C01 leaf-pair theorems): the Identity overrides agree with
  `Aᴴ A` at the entry level (`shortcut_normal_is_identity_{identity,reshape,transpose,circshift}`) and
  `normal_denote_leaves` — for every tree over the proved leaf classes `A.N` acts as `x ↦ Aᴴ(A x)`.
  Lemmas/C04Cover.lean, C04CoverND.lean, C04CoverIff.lean: the block operators, about the generated
  loop nests `Gen.a2b{1,2,3}` / `Gen.b2a{1,2,3}`: `Aᴴ A` = multiplication by the product of the
  per-axis cover counts (`b2a1_a2b1_cover`, `b2a2_a2b2_cover`, `b2a3_a2b3_cover`); cover ≡ 1 iff the
  blocks tile the axis or one block spans it (`cover_one_iff_tiling`); `BlocksToArray.N = Identity`
  iff `B ≤ S` or a single block (`b2a_normal_identity_iff`, `cover_le_one_iff`).
  FFT/IFFT `normal = Identity` is unitarity of the centred DFT: owned by C05 (`dftMatrix_unitary`).
  The Toeplitz NUFFT normal is covered by the search oracle only (tolerance 2× the C06 bound).
-/
set_option linter.unusedSectionVars false
namespace SigpyVerif.C04
open SigpyVerif SigpyVerif.C01

section
variable {α : Type} [CommRing α] [StarRing α] (ofRat : Rat → α)

/-- the classes whose `_normal_linop` is overridden by `Identity(ishape)` -/
def Shortcut : Expr α → Prop
  | .leaf (.identity _) => True
  | .leaf (.reshape _ _) => True
  | .leaf (.transpose _ _) => True
  | .leaf (.circshift _ _ _) => True
  | _ => False

/-- every operator without an override gets the default rule `A.N = A.H * A`
    (`Linop._normal_linop`), in particular every Compose / Add / stack and the block operators -/
theorem normal_eq_default (e : Expr α) (h : ¬ Shortcut e) : normal star e = .comp (adj star e) e := by
  cases e with
  | leaf l => cases l <;> first | rfl | (exact absurd trivial h)
  | _ => rfl

/-- **default rule:** when `A.H` is built with matching shapes, `A.N` denotes the composition and
    acts as `x ↦ A.H(A(x))`; together with `C01.adj_denote` (`A.H` is the true adjoint) this is
    `A.N = Aᴴ A`. -/
theorem normal_default (e : Expr α) (h : ¬ Shortcut e) (s sH : Sem α)
    (hs : denote star ofRat e = some s) (hH : denote star ofRat (adj star e) = some sH)
    (hsh : sH.ish = s.osh) :
    ∃ sN, denote star ofRat (normal star e) = some sN ∧ sN.osh = sH.osh ∧ sN.ish = s.ish ∧
      ∀ x o, applyF sN.E x o = applyF sH.E (applyF s.E x) o := by
  refine ⟨⟨sH.osh, s.ish, compE sH.E s.E⟩, ?_, rfl, rfl, fun x o => applyF_compE _ _ x o⟩
  rw [normal_eq_default e h]
  simp only [denote, hs, hH, if_pos hsh]

/-- `A.N` of a well-formed tree whose leaf pairings hold is `Aᴴ A` with `Aᴴ` the *true* adjoint:
    `⟨A.N x, z⟩ = ⟨A x, A z⟩` for all `x`, `z`. -/
theorem normal_gram (P : Leaf α → Prop) (hP : ∀ l, P l → AdjOK ofRat (.leaf l)) (e : Expr α)
    (he : allLeaves P e) (h : ¬ Shortcut e) (s : Sem α) (hs : denote star ofRat e = some s) :
    ∃ sN, denote star ofRat (normal star e) = some sN ∧ sN.osh = s.ish ∧ sN.ish = s.ish ∧
      ∀ x z : Nat → α, dotL star (List.range s.isz) (applyF sN.E x) z
        = dotL star (List.range s.osz) (applyF s.E x) (applyF s.E z) := by
  obtain ⟨sH, hH, ho, hi, hadj⟩ := adj_denote ofRat P hP e he s hs
  obtain ⟨sN, hN, hNo, hNi, hact⟩ := normal_default ofRat e h s sH hs hH hi
  refine ⟨sN, hN, by rw [hNo, ho], hNi, ?_⟩
  intro x z
  have e1 : applyF sN.E x = applyF sH.E (applyF s.E x) := by funext o; exact hact x o
  have hsw : ∀ (n : Nat) (a b : Nat → α), dotL star (List.range n) a b
      = star (dotL star (List.range n) b a) := by
    intro n a b
    unfold dotL
    rw [star_sum_list, List.map_map]
    congr 1
    apply List.map_congr_left
    intro i _
    simp [star_mul', mul_comm]
  rw [e1, hsw s.isz, ← hadj z (applyF s.E x), ← hsw s.osz]

/-- Circshift: shifting by `s` and then by `-s` (what `Circshift.H` does) returns every index of an
    axis to itself, so `Circshift.N = Identity` is right — per axis, from the numpy.roll contract -/
theorem circshift_normal_axis (n s k : Int) (hn : 0 < n) (hk : 0 ≤ k) (hkn : k < n) :
    C09.rollSrc n s (C09.rollSrc n (-s) k) = k ∧ C09.rollSrc n (-s) (C09.rollSrc n s k) = k := by
  refine ⟨C09.roll_inverse n s k hn hk hkn, ?_⟩
  have := C09.roll_inverse n (-s) k hn hk hkn
  simpa using this

example : ¬ Shortcut (.leaf (.a2b [5] [2] [1]) : Expr α) := by simp [Shortcut]
example : normal star (.leaf (.a2b [5] [2] [1]) : Expr α)
    = .comp (.leaf (.b2a [5] [2] [1])) (.leaf (.a2b [5] [2] [1])) := rfl

end
end SigpyVerif.C04
