import SigpyVerif.Model.C11
import SigpyVerif.Props.C11Duchi
import Mathlib.Algebra.Order.Field.Rat
import Mathlib.Algebra.BigOperators.Group.List.Basic
/-
  C11 — the executable model of Duchi's index search (`Model/C11.lean: duchiTheta` — insertion sort descending,
  cumsum, `zip` with `range`, the generated `l1projSt` / `l1projCond`, `filter`, `getLast?`) always returns a
  threshold that passes the exact KKT certificate `kktOk` (`duchiTheta_kkt`).  What the correspondence stream
  `duchi-kkt` evaluated per case is thereby a theorem about the model; the stream stays as a run-time cross-check
  of the compiled driver.
-/
set_option linter.unnecessarySeqFocus false
set_option linter.unusedTactic false
set_option linter.unreachableTactic false
namespace SigpyVerif.C11
open SigpyVerif.Gen.Prox Finset

/-! insertion sort -/
theorem insDesc_perm (a : Rat) (l : List Rat) : (insDesc a l).Perm (a :: l) := by
  induction l with
  | nil => exact List.Perm.refl _
  | cons b t ih =>
    unfold insDesc
    split_ifs
    · exact List.Perm.refl _
    · exact (List.Perm.cons b ih).trans (List.Perm.swap a b t)

theorem sortDesc_perm (l : List Rat) : (sortDesc l).Perm l := by
  induction l with
  | nil => exact List.Perm.refl _
  | cons a t ih =>
    have : sortDesc (a :: t) = insDesc a (sortDesc t) := rfl
    rw [this]
    exact (insDesc_perm a _).trans (List.Perm.cons a ih)

theorem insDesc_sorted (a : Rat) (l : List Rat) (h : l.Pairwise (· ≥ ·)) : (insDesc a l).Pairwise (· ≥ ·) := by
  induction l with
  | nil => simp [insDesc]
  | cons b t ih =>
    rw [List.pairwise_cons] at h
    unfold insDesc
    split_ifs with hba
    · refine List.pairwise_cons.mpr ⟨fun x hx => ?_, List.pairwise_cons.mpr h⟩
      rcases List.mem_cons.mp hx with rfl | hx
      · exact hba.le
      · exact le_trans (h.1 x hx) hba.le
    · refine List.pairwise_cons.mpr ⟨fun x hx => ?_, ih h.2⟩
      rcases List.mem_cons.mp ((insDesc_perm a t).mem_iff.mp hx) with rfl | hx
      · exact not_lt.mp hba
      · exact h.1 x hx

theorem sortDesc_sorted (l : List Rat) : (sortDesc l).Pairwise (· ≥ ·) := by
  induction l with
  | nil => simp [sortDesc]
  | cons a t ih =>
    have : sortDesc (a :: t) = insDesc a (sortDesc t) := rfl
    rw [this]; exact insDesc_sorted a _ ih

/-! cumsum = partial sums -/
def psums (acc : Rat) : List Rat → List Rat
  | [] => []
  | a :: t => (acc + a) :: psums (acc + a) t

theorem cumsum_fold (l : List Rat) (acc : Rat) (rev : List Rat) :
    l.foldl (fun (acc : Rat × List Rat) a => (acc.1 + a, (acc.1 + a) :: acc.2)) (acc, rev)
      = (acc + l.sum, (psums acc l).reverse ++ rev) := by
  induction l generalizing acc rev with
  | nil => simp [psums]
  | cons a t ih =>
    rw [List.foldl_cons, ih]
    simp [psums, add_assoc]

theorem cumsum_eq (l : List Rat) : cumsum l = psums 0 l := by
  unfold cumsum
  rw [cumsum_fold]; simp

theorem psums_length (acc : Rat) (l : List Rat) : (psums acc l).length = l.length := by
  induction l generalizing acc with
  | nil => rfl
  | cons a t ih => simp [psums, ih]

theorem take_sum_eq (l : List Rat) (k : ℕ) : (l.take k).sum = ∑ i ∈ range k, l.getD i 0 := by
  induction l generalizing k with
  | nil => simp
  | cons a t ih =>
    cases k with
    | zero => simp
    | succ k =>
      rw [List.take_succ_cons, List.sum_cons, ih, sum_range_succ']
      simp [add_comm]

theorem psums_getD (acc : Rat) (l : List Rat) (k : ℕ) (hk : k < l.length) :
    (psums acc l).getD k 0 = acc + ∑ i ∈ range (k + 1), l.getD i 0 := by
  induction l generalizing acc k with
  | nil => simp at hk
  | cons a t ih =>
    cases k with
    | zero => simp [psums]
    | succ k =>
      have hk' : k < t.length := by simpa using hk
      simp only [psums, List.getD_cons_succ]
      rw [ih _ _ hk', sum_range_succ' _ (k + 1)]
      simp [add_assoc, add_comm, add_left_comm]

theorem getD_eq (l : List Rat) (k : ℕ) (h : k < l.length) : l.getD k 0 = l[k] := by
  simp [List.getD_eq_getElem?_getD, h]

theorem map_sum_eq_range (g : Rat → Rat) (l : List Rat) :
    (l.map g).sum = ∑ i ∈ range l.length, g (l.getD i 0) := by
  induction l with
  | nil => simp
  | cons a t ih =>
    rw [List.map_cons, List.sum_cons, ih, List.length_cons, sum_range_succ']
    simp [add_comm]

theorem getLast?_filter_some {α : Type} (p : α → Bool) (L : List α) (x : α)
    (h : (L.filter p).getLast? = some x) :
    ∃ l₁ l₂, L = l₁ ++ x :: l₂ ∧ p x = true ∧ ∀ z ∈ l₂, p z = false := by
  obtain ⟨ys, hys⟩ := List.getLast?_eq_some_iff.mp h
  obtain ⟨a, b, hab, _, hb⟩ := List.filter_eq_append_iff.mp hys
  obtain ⟨b₁, b₂, hb12, _, hpx, hb2⟩ := List.filter_eq_cons_iff.mp hb
  refine ⟨a ++ b₁, b₂, by rw [hab, hb12, List.append_assoc], hpx, fun z hz => ?_⟩
  have := List.filter_eq_nil_iff.mp hb2 z hz
  simpa using this

/-- the sorted moduli as a sequence, and the list the code filters: `zip(s, st)` -/
theorem duchi_zip_eq (eps : Rat) (s : List Rat) :
    List.zip s ((List.zip (cumsum s) (List.range s.length)).map fun (ck, k) => l1projSt ck eps ((k : Nat) : Rat))
      = (List.range s.length).map fun k =>
          (s.getD k 0, l1projSt (∑ i ∈ range (k + 1), s.getD i 0) eps ((k : Nat) : Rat)) := by
  apply List.ext_getElem
  · simp [cumsum_eq, psums_length]
  · intro k h1 h2
    have hk : k < s.length := by simpa using h2
    simp only [List.getElem_zip, List.getElem_map, List.getElem_range]
    have hc : (cumsum s)[k]'(by rw [cumsum_eq, psums_length]; exact hk) = ∑ i ∈ range (k + 1), s.getD i 0 := by
      have := psums_getD 0 s k hk
      rw [getD_eq _ _ (by rw [psums_length]; exact hk), zero_add] at this
      simp only [cumsum_eq]; exact this
    rw [hc, getD_eq _ _ hk]


/-- the generated condition at index `k` of the sorted list, in inequality form -/
theorem model_cond_iff (eps : Rat) (s : List Rat) (k : ℕ) :
    l1projCond (s.getD k 0) (l1projSt (∑ i ∈ range (k + 1), s.getD i 0) eps ((k : Nat) : Rat)) = true ↔
      s.getD k 0 - ((∑ i ∈ range (k + 1), s.getD i 0) - eps) / ((k : Rat) + 1) > 0 := by
  unfold l1projCond l1projSt
  rw [decide_eq_true_iff] <;> (constructor <;> intro h <;> (try ring_nf at h ⊢) <;> linarith)

/-- **`duchiTheta` (the executable model of the index search of `l1_proj`) returns a KKT threshold**: for
    non-negative moduli with `Σ mods ≥ eps > 0` (the else-branch) it returns `some θ` — so `.max()` is never taken of
    an empty array — and `θ` passes the exact certificate `kktOk` (`θ ≥ 0`, `Σ (m - θ)₊ = eps`) that the
    correspondence stream `duchi-kkt` evaluates per case. -/
theorem duchiTheta_kkt (eps : Rat) (mods : List Rat) (hε : 0 < eps) (hnn : ∀ m ∈ mods, 0 ≤ m)
    (hsum : eps ≤ mods.sum) : ∃ θ, duchiTheta eps mods = some θ ∧ kktOk eps θ mods = true := by
  set s := sortDesc mods with hs
  have hperm : s.Perm mods := sortDesc_perm mods
  have hsorted : s.Pairwise (· ≥ ·) := sortDesc_sorted mods
  set n := s.length with hn
  have hssum : s.sum = mods.sum := hperm.sum_eq
  have hnpos : 0 < n := by
    rcases Nat.eq_zero_or_pos n with h0 | h0
    · have : s = [] := List.length_eq_zero_iff.mp h0
      rw [this, List.sum_nil] at hssum
      linarith
    · exact h0
  set F : ℕ → Rat × Rat := fun k =>
    (s.getD k 0, l1projSt (∑ i ∈ range (k + 1), s.getD i 0) eps ((k : Nat) : Rat)) with hF
  set p : Rat × Rat → Bool := fun x => l1projCond x.1 x.2 with hp
  have hdef : duchiTheta eps mods = (((List.range n).map F).filter p).getLast?.map (·.2) := by
    unfold duchiTheta
    simp only [← hs]
    rw [duchi_zip_eq]
  -- facts about the sorted sequence
  have hanti : ∀ i j, i ≤ j → j < n → s.getD j 0 ≤ s.getD i 0 := by
    intro i j hij hj
    have hi : i < n := lt_of_le_of_lt hij hj
    rw [getD_eq s i hi, getD_eq s j hj]
    rcases Nat.lt_or_eq_of_le hij with h | h
    · exact List.pairwise_iff_getElem.mp hsorted i j hi hj h
    · subst h; exact le_refl _
  have hnn' : ∀ i, i < n → 0 ≤ s.getD i 0 := by
    intro i hi
    rw [getD_eq s i hi]
    exact hnn _ (hperm.mem_iff.mp (List.getElem_mem hi))
  have hsum' : eps ≤ ∑ i ∈ range n, s.getD i 0 := by
    have := map_sum_eq_range (fun x => x) s
    rw [List.map_id'] at this
    rw [← this, hssum]; exact hsum
  have h0 : p (F 0) = true := by
    simp only [hp, hF]
    rw [model_cond_iff]
    simp [hε]
  cases hlast : (((List.range n).map F).filter p).getLast? with
  | none =>
    exfalso
    have hnil := List.getLast?_eq_none_iff.mp hlast
    have := List.filter_eq_nil_iff.mp hnil (F 0) (List.mem_map.mpr ⟨0, List.mem_range.mpr hnpos, rfl⟩)
    exact this h0
  | some x =>
    obtain ⟨l₁, l₂, hL, hpx, hl₂⟩ := getLast?_filter_some p _ x hlast
    obtain ⟨r₁, r₂, hr, _, hr₂⟩ := List.map_eq_append_iff.mp hL
    obtain ⟨ρ, r₃, hr₂', hxρ, hr₃⟩ := List.map_eq_cons_iff.mp hr₂
    subst hr₂'
    have hρmem : ρ ∈ List.range n := by rw [hr]; simp
    have hρ : ρ < n := List.mem_range.mp hρmem
    have hafter : ∀ k, ρ < k → k < n → p (F k) = false := by
      intro k hk hkn
      have hkmem : k ∈ List.range n := List.mem_range.mpr hkn
      rw [hr] at hkmem
      have hpw : (r₁ ++ ρ :: r₃).Pairwise (· < ·) := hr ▸ List.pairwise_lt_range
      rcases List.mem_append.mp hkmem with h | h
      · have := (List.pairwise_append.mp hpw).2.2 k h ρ (List.mem_cons_self)
        omega
      · rcases List.mem_cons.mp h with h | h
        · omega
        · exact hl₂ _ (hr₃ ▸ List.mem_map.mpr ⟨k, h, rfl⟩)
    have hx2 : x.2 = ((∑ i ∈ range (ρ + 1), s.getD i 0) - eps) / ((ρ : Rat) + 1) := by
      rw [← hxρ]; simp only [hF]; unfold l1projSt; ring
    have hcρ : p (F ρ) = true := by rw [hxρ]; exact hpx
    have core := duchi_core (fun k => s.getD k 0) n ρ hρ eps hanti hnn' hsum'
      ((model_cond_iff eps s ρ).mp hcρ)
      (fun h => by
        have := hafter (ρ + 1) (Nat.lt_succ_self ρ) h
        intro hc
        have h2 := (model_cond_iff eps s (ρ + 1)).mpr hc
        simp only [hp, hF] at this
        rw [this] at h2
        exact Bool.false_ne_true h2)
    refine ⟨x.2, by rw [hdef, hlast]; rfl, ?_⟩
    rw [← hx2] at core
    unfold kktOk
    rw [Bool.and_eq_true, decide_eq_true_iff, decide_eq_true_iff]
    refine ⟨core.1, ?_⟩
    have hfold : ∀ (l : List Rat) (acc : Rat),
        l.foldl (fun acc m => acc + (if m - x.2 > 0 then m - x.2 else 0)) acc
          = acc + (l.map fun m => max (m - x.2) 0).sum := by
      intro l
      induction l with
      | nil => intro acc; simp
      | cons a t ih =>
        intro acc
        rw [List.foldl_cons, ih, List.map_cons, List.sum_cons]
        have : (if a - x.2 > 0 then a - x.2 else 0) = max (a - x.2) 0 := by
          split_ifs with h
          · exact (max_eq_left h.le).symm
          · exact (max_eq_right (not_lt.mp h)).symm
        rw [this]; ring
    rw [hfold, zero_add, ← (hperm.map _).sum_eq, map_sum_eq_range]
    exact core.2

/-- non-vacuity of the hypotheses: `|y| = (1, 3)`, `eps = 2` -/
example : ∃ θ, duchiTheta 2 [1, 3] = some θ ∧ kktOk 2 θ [1, 3] = true :=
  duchiTheta_kkt 2 [1, 3] (by norm_num) (by intro m hm; simp at hm; rcases hm with rfl | rfl <;> norm_num) (by norm_num)

end SigpyVerif.C11
