import SigpyVerif.Props.C06Nudft
import SigpyVerif.Props.C06Batch
set_option linter.unusedSectionVars false
set_option linter.unusedVariables false
set_option linter.deprecated false
/-
  C06 — the batched 1-D pipeline entry by entry: the SAME linear map on every batch item.

  `nufft1B_eq_nudft_times_kernel`: for the generated batched pipeline `nufft1B` (Props/C06Batch.lean: C09's N-d resize
  on `[B, N] → [B, L]`, `1_B ⊗ U_L`, C07's `Gen.interp1` with `batch_size = B`, generated scalings),
      nufft(x)[b, j] = Σ_n x[b, n] · N^{-1/2} · exp(-2πi k_j (n - N//2)/N) · a[b, n] · S(κ_j, n - N//2)
  — output item `b` depends on input item `b` only, and with a batch-independent apodisation (what `_apodize`
  computes) through the same coefficients for every `b`: `nufft1B_per_item` says the batched transform restricted to
  item `b` IS the unbatched `nufft1` of that item.  This is the per-item statement the oracle checks as `C06:batch`,
  proved for one transform axis (2-D / 3-D: oracle + identity stream).
-/
namespace SigpyVerif.C06
open SigpyVerif Matrix ComplexConjugate Finset
open scoped InnerProductSpace

/-- the generated interpolation with `batch_size = B`, explicitly: item `b`, point `j` reads item `b` only -/
theorem interpLin1B_apply (K : Rat → Rat → Rat) (wt : Rat → ℝ) (B L M : ℕ) (hL : 0 < L) (coord : Int → Int → Rat)
    (width param : Int → Rat) (g : EuclideanSpace ℂ (Fin B × Fin L)) (b : Fin B) (j : Fin M) :
    WithLp.ofLp (interpLin1B K wt B L M coord width param g) (b, j) =
      ((pyRange (Rat.ceil (coord ((j : ℕ) : ℤ) (-1) - width (-1) / 2))
          (Rat.floor (coord ((j : ℕ) : ℤ) (-1) + width (-1) / 2) + 1) 1).map
        fun i : ℤ => ((wt (K (((i : Rat) - coord ((j : ℕ) : ℤ) (-1)) / (width (-1) / 2)) (param (-1))) : ℝ) : ℂ) *
          WithLp.ofLp g (b, wrapIdx L hL i)).sum := by
  unfold interpLin1B
  rw [updLinG_apply, updFunG_eq]
  have hf : ∀ (E : List (Upd Rat)) (d : List Int),
      (cw wt E).filter (fun u => u.1 = d) = cw wt (E.filter (fun u => u.1 = d)) := by
    intro E d
    unfold cw
    rw [List.filter_map]
    rfl
  have hj := j.2
  have hb := b.2
  have hd : bx1 B M (b, j) = [((b : ℕ) : ℤ), ((j : ℕ) : ℤ)] := rfl
  rw [hd, hf, C07.interp1_filter_dst K _ _ _ coord width param ((b : ℕ) : ℤ) ((j : ℕ) : ℤ)
    (by simp only [shape2, if_true]; omega) (by simp only [shape2, if_true]; omega)]
  unfold cw
  simp only [List.map_map]
  congr 1
  apply List.map_congr_left
  intro i _
  simp only [Function.comp]
  have e1 : shape2 (B : ℤ) (L : ℤ) 1 = L := by simp [shape2]
  have e2 : ([((b : ℕ) : ℤ), pyMod i (L : ℤ)] : List Int) = bx1 B L (b, wrapIdx L hL i) := by
    simp only [bx1, wrapIdx_val]
  rw [e1, e2, embG_apply (bx1_inj B L)]

/-- zero-pad `[B, N] → [B, L]` then FFT over the last axis, explicitly: item `b` only -/
theorem ufft_resize1B_apply (B N L : ℕ) (hL : 0 < L) (hNL : N ≤ L) (u : EuclideanSpace ℂ (Fin B × Fin N)) (b : Fin B)
    (s : Fin L) :
    WithLp.ofLp (ufftLin1B B L (resizeLin1B B N L u)) (b, s) =
      ∑ n : Fin N, fftRoot L ^ ((((s : ℕ) : ℤ) - (L : ℤ) / 2) * (((n : ℕ) : ℤ) - (N : ℤ) / 2)) * WithLp.ofLp u (b, n) := by
  unfold ufftLin1B resizeLin1B
  rw [Matrix.ofLp_toEuclideanLin_apply, Matrix.toEuclideanLin_apply]
  simp only [mulVec, dotProduct, kroneckerMap_apply, Matrix.one_apply, dft_entry (fftRoot_primitive L hL) hL,
    Complex.ofReal_one, one_mul, Fintype.sum_prod_type]
  -- the resize matrix entry: same batch item and aligned centres
  have hR : ∀ (b' : Fin B) (m : Fin L) (b'' : Fin B) (n : Fin N),
      resizeMatNd [(B : ℤ), (N : ℤ)] [(B : ℤ), (L : ℤ)] (bx1 B N) (bx1 B L) (b', m) (b'', n) =
        if b' = b'' ∧ m = padIdxG N L hNL n then 1 else 0 := by
    intro b' m b'' n
    unfold resizeMatNd
    simp only [of_apply]
    congr 1
    rw [eq_iff_iff, C09.resize_default_aligns_nd _ _ _ _ (by simp)]
    simp only [bx1, List.length_cons, List.length_nil]
    have hm := m.2
    have hn := n.2
    have hb' := b'.2
    have hb'' := b''.2
    constructor
    · rintro ⟨_, _, h⟩
      have a0 := (h 0 (by norm_num)).2.2.2.2
      have a1 := (h 1 (by norm_num)).2.2.2.2
      simp only [List.getD_cons_succ, List.getD_cons_zero] at a0 a1
      refine ⟨Fin.ext (by omega), Fin.ext ?_⟩
      simp only [padIdxG]
      omega
    · rintro ⟨rfl, rfl⟩
      refine ⟨trivial, trivial, fun d hd => ?_⟩
      have hd' : d = 0 ∨ d = 1 := by omega
      rcases hd' with rfl | rfl
      · simp only [List.getD_cons_zero]
        exact ⟨by omega, by omega, by omega, by omega, trivial⟩
      · simp only [List.getD_cons_succ, List.getD_cons_zero, padIdxG]
        push_cast
        exact ⟨by omega, by omega, by omega, by omega, by omega⟩
  simp only [hR]
  -- collapse the batch sums and the pad position
  have hv : ∀ n : Fin N, (((padIdxG N L hNL n : Fin L) : ℕ) : ℤ) - (L : ℤ) / 2 = ((n : ℕ) : ℤ) - (N : ℤ) / 2 := by
    intro n
    have := n.2
    simp only [padIdxG]; push_cast; omega
  calc _ = ∑ b' : Fin B, ∑ m : Fin L, ∑ b'' : Fin B, ∑ n : Fin N,
        (if b = b' ∧ b' = b'' ∧ m = padIdxG N L hNL n then
          fftRoot L ^ ((((s : ℕ) : ℤ) - (L : ℤ) / 2) * (((n : ℕ) : ℤ) - (N : ℤ) / 2)) * WithLp.ofLp u (b, n) else 0) := by
        apply Finset.sum_congr rfl; intro b' _
        apply Finset.sum_congr rfl; intro m _
        rw [Finset.mul_sum]
        apply Finset.sum_congr rfl; intro b'' _
        rw [Finset.mul_sum]
        apply Finset.sum_congr rfl; intro n _
        by_cases h1 : b = b'
        · by_cases h2 : b' = b'' ∧ m = padIdxG N L hNL n
          · obtain ⟨h2a, h2b⟩ := h2
            subst h1; subst h2a; subst h2b
            simp only [if_true, and_self, one_mul, hv]
          · have : ¬ (b = b' ∧ b' = b'' ∧ m = padIdxG N L hNL n) := fun h => h2 h.2
            rw [if_neg h2, if_neg this]; ring
        · have : ¬ (b = b' ∧ b' = b'' ∧ m = padIdxG N L hNL n) := fun h => h1 h.1
          rw [if_neg h1, if_neg this]; ring
    _ = _ := by
        rw [Finset.sum_eq_single b]
        · rw [Finset.sum_comm]
          rw [Finset.sum_eq_single b]
          · rw [Finset.sum_comm]
            apply Finset.sum_congr rfl; intro n _
            rw [Finset.sum_eq_single (padIdxG N L hNL n)]
            · simp
            · intro m _ hm; rw [if_neg]; exact fun h => hm h.2.2
            · simp
          · intro b'' _ hb''
            apply Finset.sum_eq_zero; intro m _
            apply Finset.sum_eq_zero; intro n _
            rw [if_neg]; exact fun h => hb'' h.2.1.symm
          · simp
        · intro b' _ hb'
          apply Finset.sum_eq_zero; intro m _
          apply Finset.sum_eq_zero; intro b'' _
          apply Finset.sum_eq_zero; intro n _
          rw [if_neg]; exact fun h => hb' h.1.symm
        · simp

/-- **batched `nufft`, entry by entry**: item `b` of the output is the NUDFT-times-kernel sum of item `b` of the input -/
theorem nufft1B_eq_nudft_times_kernel (os : Rat) (B N L M : ℕ) (hN : 0 < N) (hos : 1 ≤ os)
    (hLen : (L : ℤ) = Gen.oversampLen os N) (a : Fin B × Fin N → ℝ) (K : Rat → Rat → Rat) (wt : Rat → ℝ)
    (c : Int → Int → Rat) (W : Rat) (param : Int → Rat) (x : EuclideanSpace ℂ (Fin B × Fin N)) (b : Fin B) (j : Fin M) :
    WithLp.ofLp (nufft1B os B N L M a K wt c W param x) (b, j) =
      ∑ n : Fin N, WithLp.ofLp x (b, n) * ((Real.sqrt N : ℝ) : ℂ)⁻¹ *
        nudftTerm N (((c ((j : ℕ) : ℤ) (-1) : Rat)) : ℝ) ((n : ℕ) : ℤ) *
        (((a (b, n) : ℝ) : ℂ) * kernelSum K wt W (param (-1)) L (Gen.scaleCoord os N (c ((j : ℕ) : ℤ) (-1)))
          (((n : ℕ) : ℤ) - (N : ℤ) / 2)) := by
  have hNL : N ≤ L := by
    have := oversampLen_ge os N hos (by omega)
    omega
  have hL : 0 < L := by omega
  unfold nufft1B fwd
  simp only [map_smul, WithLp.ofLp_smul, Pi.smul_apply, smul_eq_mul]
  rw [interpLin1B_apply K wt B L M hL]
  have hU := fun (u : EuclideanSpace ℂ (Fin B × Fin N)) (s : Fin L) => ufft_resize1B_apply B N L hL hNL u b s
  simp only [hU]
  have hW := fun i : ℤ => wrapIdx_val L hL i
  have hR := fun i ν : ℤ => root_wrap L hL i ν
  have hP := fun (i n : ℤ) => phase_split os N L hN hL hLen (c ((j : ℕ) : ℤ) (-1)) i n
  simp only [hW, hR]
  simp only [apodLinG, Matrix.ofLp_toEuclideanLin_apply, Matrix.mulVec_diagonal]
  unfold kernelSum Gen.nufftFwdDiv Gen.nufftFwdWidthDiv
  simp only [pow_one, Finset.mul_sum]
  rw [sum_list_comm]
  simp only [Finset.mul_sum]
  apply Finset.sum_congr rfl
  intro n _
  simp only [hP, Int.cast_natCast]
  rw [list_sum_factor]
  ring

/-- **the same linear map on every batch item**: with a batch-independent apodisation `a'` (what `_apodize` computes),
    item `b` of the batched transform is the unbatched transform `nufft1` of item `b` -/
theorem nufft1B_per_item (os : Rat) (B N L M : ℕ) (hN : 0 < N) (hos : 1 ≤ os)
    (hLen : (L : ℤ) = Gen.oversampLen os N) (a' : Fin N → ℝ) (K : Rat → Rat → Rat) (wt : Rat → ℝ)
    (c : Int → Int → Rat) (W : Rat) (param : Int → Rat) (x : EuclideanSpace ℂ (Fin B × Fin N)) (b : Fin B) (j : Fin M) :
    WithLp.ofLp (nufft1B os B N L M (fun p => a' p.2) K wt c W param x) (b, j) =
      WithLp.ofLp (nufft1 os N L M a' K wt c W param (WithLp.toLp 2 fun n => WithLp.ofLp x (b, n))) j := by
  rw [nufft1B_eq_nudft_times_kernel os B N L M hN hos hLen, nufft1_eq_nudft_times_kernel os N L M hN hos hLen]

end SigpyVerif.C06
