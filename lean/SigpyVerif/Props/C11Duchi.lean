import SigpyVerif.Gen.Prox
import SigpyVerif.Props.C11
import Mathlib.Algebra.BigOperators.Intervals
import Mathlib.Algebra.BigOperators.Fin
import Mathlib.Algebra.Order.BigOperators.Group.Finset
import Mathlib.Algebra.Order.Field.Basic
/-
  C11 — Duchi–Shalev-Shwartz–Singer index search of `thresh.l1_proj`:

      s   = xp.sort(xp.abs(input))[::-1]
      st  = (xp.cumsum(s) - eps) / (xp.arange(size) + 1)
      idx = xp.flatnonzero((s - st) > 0).max()
      return soft_thresh(st[idx], input)

  `duchi_theta`: for a non-increasing, non-negative `s₀ ≥ … ≥ s_{n-1}` with `Σ s ≥ ε` (the else-branch of the
  code: `‖input‖₁ < eps` is false), `st k` the generated candidate `Gen.Prox.l1projSt (Σ_{i ≤ k} s i) ε k` and `ρ` the
  largest index satisfying the generated condition `Gen.Prox.l1projCond (s k) (st k)`, the threshold `θ = st ρ`
  satisfies the KKT hypothesis of `l1_proj_kkt_*`:  `θ ≥ 0` and `Σ_i (s i - θ)₊ = ε`.
  `duchi_index_exists`: for `ε > 0`, `n > 0` such a largest index exists (index 0 qualifies), so `.max()` does not
  raise.  `l1_proj_duchi_real / _complex`: hence `soft_thresh(st[idx], y)` **is** the projection of `y` onto the
  l1 ball, where the sort is any permutation `σ` that arranges the moduli in non-increasing order.
  Trusted (numpy semantics, exercised by the correspondence streams): `sort(...)[::-1]` returns such an arrangement,
  `cumsum` the partial sums, `arange(size)[k] = k`, `flatnonzero(m).max()` the largest index where `m` holds.
-/
set_option linter.unnecessarySeqFocus false
set_option linter.unusedTactic false
set_option linter.unreachableTactic false
namespace SigpyVerif.C11
open SigpyVerif.Gen.Prox Finset

/-- core of Duchi's index search (0-based): `C k = Σ_{i ≤ k} s i`, `θ = (C ρ - ε)/(ρ+1)`; over any ordered field
    (`ℝ` for the statement about arrays, `ℚ` for the executable model). -/
theorem duchi_core {K : Type*} [Field K] [LinearOrder K] [IsStrictOrderedRing K]
    (s : ℕ → K) (n ρ : ℕ) (hρ : ρ < n) (ε : K)
    (hanti : ∀ i j, i ≤ j → j < n → s j ≤ s i) (hnn : ∀ i, i < n → 0 ≤ s i)
    (hsum : ε ≤ ∑ i ∈ range n, s i)
    (hc : s ρ - ((∑ i ∈ range (ρ + 1), s i) - ε) / ((ρ : K) + 1) > 0)
    (hnc : ρ + 1 < n → ¬ (s (ρ + 1) - ((∑ i ∈ range (ρ + 1 + 1), s i) - ε) / (((ρ + 1 : ℕ) : K) + 1) > 0)) :
    0 ≤ ((∑ i ∈ range (ρ + 1), s i) - ε) / ((ρ : K) + 1) ∧
    ∑ i ∈ range n, max (s i - ((∑ i ∈ range (ρ + 1), s i) - ε) / ((ρ : K) + 1)) 0 = ε := by
  set C := ∑ i ∈ range (ρ + 1), s i with hC
  set θ := (C - ε) / ((ρ : K) + 1) with hθ
  have hp : (0 : K) < (ρ : K) + 1 := by positivity
  have hθmul : θ * ((ρ : K) + 1) = C - ε := by rw [hθ]; field_simp
  -- the next entry (if any) is ≤ θ
  have hnext : ρ + 1 < n → s (ρ + 1) ≤ θ := by
    intro h
    have h2 := hnc h
    rw [not_lt, sub_nonpos, sum_range_succ, ← hC] at h2
    have hp2 : (0 : K) < ((ρ + 1 : ℕ) : K) + 1 := by positivity
    rw [le_div_iff₀ hp2] at h2
    push_cast at h2
    rw [hθ, le_div_iff₀ hp]
    linarith
  have htail : ∀ i, ρ + 1 ≤ i → i < n → s i ≤ θ := fun i hi hin =>
    le_trans (hanti (ρ + 1) i hi hin) (hnext (lt_of_le_of_lt hi hin))
  have hθ0 : 0 ≤ θ := by
    rcases Nat.lt_or_ge (ρ + 1) n with h | h
    · exact le_trans (hnn _ h) (hnext h)
    · have : ρ + 1 = n := le_antisymm hρ h
      rw [hθ]; apply div_nonneg _ hp.le
      rw [hC, this]; linarith
  refine ⟨hθ0, ?_⟩
  rw [← sum_range_add_sum_Ico _ (Nat.succ_le_of_lt hρ)]
  have h1 : ∑ i ∈ range (ρ + 1), max (s i - θ) 0 = ∑ i ∈ range (ρ + 1), (s i - θ) := by
    refine sum_congr rfl fun i hi => max_eq_left ?_
    have : i ≤ ρ := Nat.lt_succ_iff.mp (mem_range.mp hi)
    have := hanti i ρ this hρ
    linarith
  have h2 : ∑ i ∈ Ico (ρ + 1) n, max (s i - θ) 0 = 0 := by
    refine sum_eq_zero fun i hi => max_eq_right ?_
    rw [mem_Ico] at hi
    have := htail i hi.1 hi.2
    linarith
  rw [Nat.succ_eq_add_one, h1, h2, sum_sub_distrib, ← hC]
  simp only [sum_const, card_range, nsmul_eq_mul, add_zero]
  push_cast
  linarith

/-- `st[k]` as the code computes it: `(cumsum(s)[k] - eps) / (arange(size)[k] + 1)` (generated `l1projSt`) -/
noncomputable def duchiSt (s : ℕ → ℝ) (ε : ℝ) (k : ℕ) : ℝ := l1projSt (∑ i ∈ range (k + 1), s i) ε (k : ℝ)

/-- `((s - st) > 0)[k]` (generated `l1projCond`) -/
noncomputable def duchiCond (s : ℕ → ℝ) (ε : ℝ) (k : ℕ) : Bool := l1projCond (s k) (duchiSt s ε k)

/-- `idx = flatnonzero((s - st) > 0).max()`: the largest index `< n` where the condition holds -/
def IsDuchiIdx (s : ℕ → ℝ) (ε : ℝ) (n ρ : ℕ) : Prop :=
  ρ < n ∧ duchiCond s ε ρ = true ∧ ∀ k, ρ < k → k < n → duchiCond s ε k = false

theorem duchiCond_iff (s : ℕ → ℝ) (ε : ℝ) (k : ℕ) :
    duchiCond s ε k = true ↔ s k - ((∑ i ∈ range (k + 1), s i) - ε) / ((k : ℝ) + 1) > 0 := by
  unfold duchiCond duchiSt l1projCond l1projSt
  rw [decide_eq_true_iff] <;> (constructor <;> intro h <;> (try ring_nf at h ⊢) <;> linarith)

/-- **`duchi_theta`.**  `s` non-increasing and non-negative on `[0, n)`, `Σ s ≥ ε`, `ρ` the index the code
    selects: `θ = st[ρ]` satisfies `θ ≥ 0` and `Σ_i (s i - θ)₊ = ε` (the hypothesis of `l1_proj_kkt_*`). -/
theorem duchi_theta (s : ℕ → ℝ) (n ρ : ℕ) (ε : ℝ)
    (hanti : ∀ i j, i ≤ j → j < n → s j ≤ s i) (hnn : ∀ i, i < n → 0 ≤ s i)
    (hsum : ε ≤ ∑ i ∈ range n, s i) (hidx : IsDuchiIdx s ε n ρ) :
    0 ≤ duchiSt s ε ρ ∧ ∑ i ∈ range n, max (s i - duchiSt s ε ρ) 0 = ε := by
  obtain ⟨hρ, hc, hmax⟩ := hidx
  have e : duchiSt s ε ρ = ((∑ i ∈ range (ρ + 1), s i) - ε) / ((ρ : ℝ) + 1) := by
    unfold duchiSt l1projSt; ring
  rw [e]
  refine duchi_core s n ρ hρ ε hanti hnn hsum ((duchiCond_iff s ε ρ).mp hc) fun h => ?_
  have := hmax (ρ + 1) (Nat.lt_succ_self ρ) h
  rw [← duchiCond_iff, this]
  exact Bool.false_ne_true

/-- **the index exists** (`.max()` of a non-empty set): for `ε > 0` index `0` satisfies the condition
    (`s₀ - (s₀ - ε)/1 = ε > 0`). -/
theorem duchi_index_exists (s : ℕ → ℝ) (n : ℕ) (hn : 0 < n) {ε : ℝ} (hε : 0 < ε) :
    ∃ ρ, IsDuchiIdx s ε n ρ := by
  classical
  have h0 : duchiCond s ε 0 = true := by
    rw [duchiCond_iff]; simp [hε]
  refine ⟨Nat.findGreatest (fun k => duchiCond s ε k = true) (n - 1), ?_, ?_, fun k hk hkn => ?_⟩
  · exact lt_of_le_of_lt (Nat.findGreatest_le _) (Nat.sub_lt hn Nat.one_pos)
  · exact Nat.findGreatest_spec (P := fun k => duchiCond s ε k = true) (Nat.zero_le _) h0
  · have := Nat.findGreatest_is_greatest (P := fun k => duchiCond s ε k = true) hk (Nat.le_sub_one_of_lt hkn)
    simpa using this

/-- the same for the moduli `a` of an array and a permutation `σ` that sorts them in non-increasing order -/
theorem duchi_kkt_of_sorted {n : ℕ} (a : Fin n → ℝ) (ha : ∀ i, 0 ≤ a i) (σ : Equiv.Perm (Fin n))
    (hσ : ∀ i j : Fin n, i ≤ j → a (σ j) ≤ a (σ i)) {ε : ℝ} (hsum : ε ≤ ∑ i, a i) (ρ : ℕ)
    (hidx : IsDuchiIdx (fun k => if h : k < n then a (σ ⟨k, h⟩) else 0) ε n ρ) :
    0 ≤ duchiSt (fun k => if h : k < n then a (σ ⟨k, h⟩) else 0) ε ρ ∧
    ∑ i, max (a i - duchiSt (fun k => if h : k < n then a (σ ⟨k, h⟩) else 0) ε ρ) 0 = ε := by
  set s : ℕ → ℝ := fun k => if h : k < n then a (σ ⟨k, h⟩) else 0 with hs
  have hval : ∀ i : Fin n, s i = a (σ i) := fun i => by simp [hs, i.2]
  have hsumf : ∀ f : ℝ → ℝ, ∑ i ∈ range n, f (s i) = ∑ i, f (a i) := by
    intro f
    rw [← Fin.sum_univ_eq_sum_range (fun i => f (s i)) n]
    simp only [hval]
    exact Equiv.sum_comp σ (fun i => f (a i))
  have := duchi_theta s n ρ ε
    (fun i j hij hj => by
      have hi : i < n := lt_of_le_of_lt hij hj
      have := hσ ⟨i, hi⟩ ⟨j, hj⟩ hij
      simpa [hs, hi, hj] using this)
    (fun i hi => by simp only [hs, hi, dite_true]; exact ha _)
    (by rw [hsumf fun x => x]; exact hsum) hidx
  refine ⟨this.1, ?_⟩
  rw [← hsumf fun x => max (x - duchiSt s ε ρ) 0]
  exact this.2

variable {n : ℕ}

/-- **`l1_proj` returns the projection onto the l1 ball** (real arrays, else-branch `‖y‖₁ ≥ ε`): with `σ` the
    descending sort of `|y|` and `ρ` the selected index, `soft_thresh(st[ρ], y)` is the nearest point of
    `{‖x‖₁ ≤ ε}` — Duchi's search composed with `l1_proj_kkt_real`. -/
theorem l1_proj_duchi_real (y : Vec (Fin n) ℝ) (σ : Equiv.Perm (Fin n))
    (hσ : ∀ i j : Fin n, i ≤ j → |y (σ j)| ≤ |y (σ i)|) {ε : ℝ} (hsum : ε ≤ ∑ i, |y i|) (ρ : ℕ)
    (hidx : IsDuchiIdx (fun k => if h : k < n then |y (σ ⟨k, h⟩)| else 0) ε n ρ) :
    IsProjOn {x : Vec (Fin n) ℝ | ∑ i, |x i| ≤ ε} y
      (vec fun i => softThresh (duchiSt (fun k => if h : k < n then |y (σ ⟨k, h⟩)| else 0) ε ρ) (y i) |y i|) := by
  obtain ⟨h1, h2⟩ := duchi_kkt_of_sorted (fun i => |y i|) (fun i => abs_nonneg _) σ hσ hsum ρ hidx
  exact l1_proj_kkt_real h1 y h2

/-- the same for complex arrays (`xp.abs` = modulus) with `l1_proj_kkt_complex` -/
theorem l1_proj_duchi_complex (y : Vec (Fin n) ℂ) (σ : Equiv.Perm (Fin n))
    (hσ : ∀ i j : Fin n, i ≤ j → ‖y (σ j)‖ ≤ ‖y (σ i)‖) {ε : ℝ} (hsum : ε ≤ ∑ i, ‖y i‖) (ρ : ℕ)
    (hidx : IsDuchiIdx (fun k => if h : k < n then ‖y (σ ⟨k, h⟩)‖ else 0) ε n ρ) :
    IsProjOn {x : Vec (Fin n) ℂ | ∑ i, ‖x i‖ ≤ ε} y
      (vec fun i => csoft (duchiSt (fun k => if h : k < n then ‖y (σ ⟨k, h⟩)‖ else 0) ε ρ) (y i)) := by
  obtain ⟨h1, h2⟩ := duchi_kkt_of_sorted (fun i => ‖y i‖) (fun i => norm_nonneg _) σ hσ hsum ρ hidx
  exact l1_proj_kkt_complex h1 y h2

/-! ### non-vacuity: `y = (3, 1)`, `ε = 2`: `s = (3, 1)`, `st = (1, 1)`, `idx = 0`, `θ = 1`, result `(2, 0)` -/

example : IsDuchiIdx (fun k => if k = 0 then (3 : ℝ) else 1) 2 2 0 := by
  refine ⟨by norm_num, ?_, fun k hk hkn => ?_⟩
  · rw [duchiCond_iff]; norm_num
  · have : k = 1 := by omega
    subst this
    rw [← Bool.not_eq_true, duchiCond_iff]
    norm_num [Finset.sum_range_succ]

example : duchiSt (fun k => if k = 0 then (3 : ℝ) else 1) 2 0 = 1 := by
  unfold duchiSt l1projSt; norm_num

end SigpyVerif.C11
