import SigpyVerif.Model.C10
import SigpyVerif.Lemmas.C10
import SigpyVerif.Lemmas.Py
import SigpyVerif.Props.C09
import Mathlib.Analysis.Real.Sqrt
/-
  C10 — orthogonal wavelet transform: isometry, perfect reconstruction, adjoint, advertised shape.

  Full property (sigpy level): for every orthogonal wavelet, shape, axes subset and level,
      iwt (fwt x) = x,   ‖fwt x‖ = ‖x‖,   ⟨fwt x, c⟩ = ⟨x, iwt c⟩,   (fwt x).shape = Wavelet(...).oshape.
  The transform itself is PyWavelets (C code), so the property is partial by nature.  What is PROVED here:
    (1) sigpy's own glue: the even padding formula (generated), pad/crop index maps (crop ∘ pad = id,
        crop = padᴴ, which end gets the extra zero), and that the shape function and `fwt`/`iwt` make the
        same PyWavelets calls on the same padded shape (generated call signatures);
    (2) the mathematics of one zero-extended filter-bank level in PyWavelets' convention, for ANY finite
        filter pair satisfying completeness: adjointness (no hypothesis), perfect reconstruction, isometry;
        non-vacuity by Haar; lifting to levels (the executed `wavedec`, by induction) and to axes.
  What is CONTRACT (validated by the correspondence check on every run, not proved): that PyWavelets'
  `dwt/idwt/wavedec/waverec/wavedecn/coeffs_to_array` compute the modelled formulas, and that the filter
  taps of every orthogonal wavelet satisfy `Complete` / `Orthonormal` (to 1e-10).
  Not proved: `Orthonormal → Complete` (polyphase argument), multi-level perfect reconstruction of the
  list model `waverec ∘ wavedec` (the trimming rule), N-D packing.
-/
namespace SigpyVerif.C10
open SigpyVerif Finset

variable {R : Type*} [CommRing R]

/-! ### (1) sigpy's glue: even padding, centre pad / centre crop, one padded shape at every site -/

/-- `zshape = ((i+1)//2)*2` is even, at least `i`, and adds at most one sample. -/
theorem zshape_spec (i : Int) :
    Gen.waveZshapeFwt i % 2 = 0 ∧ i ≤ Gen.waveZshapeFwt i ∧ Gen.waveZshapeFwt i - i = i % 2 := by
  unfold Gen.waveZshapeFwt
  rw [pyDiv_of_pos _ (show (0 : Int) < 2 by decide)]
  omega

/-- `get_wavelet_shape` (hence `Wavelet.oshape`, `InverseWavelet.ishape` and the stored `coeff_slices`)
    and `fwt` pad to the same even shape and make the same `wavedecn(..., mode='zero', axes, level)` and
    `coeffs_to_array(..., axes)` calls on an array of that shape: the advertised coefficient shape is
    computed exactly like the actual one.  (Structure statement about the regenerated call signatures.) -/
theorem shape_consistent :
    Gen.waveZshapeShape = Gen.waveZshapeFwt ∧ Gen.waveDecCallShape = Gen.waveDecCallFwt ∧
    Gen.wavePackCallShape = Gen.wavePackCallFwt ∧
    Gen.waveDecCallFwt = ["wavedecn", "shape:zshape", "arg:wave_name", "axes=axes", "level=level", "mode='zero'"] ∧
    Gen.wavePackCallFwt = ["coeffs_to_array", "arg:<wavedecn result>", "axes=axes"] ∧
    Gen.wavePadCallFwt = ["util.resize", "arg:input", "arg:zshape"] :=
  ⟨rfl, rfl, rfl, rfl, rfl, rfl⟩

/-- `iwt` mirrors `fwt`: it unpacks with the stored slices, reconstructs with the same wavelet, the same
    `mode='zero'` and the same `axes`, and centre-crops to `oshape` with the default shifts. -/
theorem inverse_mirrors_forward :
    Gen.waveUnpackCallIwt = ["array_to_coeffs", "arg:input", "arg:coeff_slices", "output_format='wavedecn'"] ∧
    Gen.waveRecCallIwt = ["waverecn", "arg:input", "arg:wave_name", "axes=axes", "mode='zero'"] ∧
    Gen.waveCropCallIwt = ["resize", "arg:output", "arg:oshape"] :=
  ⟨rfl, rfl, rfl⟩

/-- Which end receives the extra zero: padded index `k` holds input index `j` exactly when
    `k = j + (i mod 2)` — for odd `i` the inserted zero is at index 0 (in front), for even `i` nothing moves. -/
theorem pad_extra_zero_in_front (i k j : Int) :
    padSrc i k = some j ↔ (0 ≤ j ∧ j < i ∧ k = j + i % 2) := by
  unfold padSrc
  rw [C09.resize_default_aligns]
  have := zshape_spec i
  omega

/-- The centre crop of `iwt` is the transpose of the centre pad of `fwt` (`crop = padᴴ`), index by index. -/
theorem crop_is_pad_adjoint (i k j : Int) : padSrc i k = some j ↔ cropSrc i j = some k := by
  unfold padSrc cropSrc
  rw [show Gen.waveZshapeShape i = Gen.waveZshapeFwt i from rfl,
    C09.resize_default_aligns, C09.resize_default_aligns]
  omega

/-- `crop ∘ pad = id`: every input index `0 ≤ j < i` is stored at some padded index `k`, and the crop's
    output `j` reads exactly that `k`. -/
theorem pad_crop (i j : Int) (hj0 : 0 ≤ j) (hji : j < i) :
    ∃ k, padSrc i k = some j ∧ cropSrc i j = some k := by
  refine ⟨j + i % 2, ?_, ?_⟩
  · rw [pad_extra_zero_in_front]; omega
  · rw [← crop_is_pad_adjoint, pad_extra_zero_in_front]; omega

example : padSrc 5 0 = none ∧ padSrc 5 1 = some 0 ∧ cropSrc 5 4 = some 5 ∧ padSrc 4 0 = some 0 := by decide

/-! ### (2) filter-bank mathematics, one level, PyWavelets' zero-extension convention -/

/-- `iwt = fwtᴴ`, one level: `⟨analysis x, (a,d)⟩ = ⟨x, synthesis (a,d)⟩` for arbitrary coefficient
    sequences `a, d` (not only those in the range of the analysis) and ANY filters — pure index
    manipulation.  `ana`/`syn` are the definitions the driver executes against `pywt.dwt/idwt`. -/
theorem synthesis_is_adjoint (h g : ℤ → R) (N M : ℕ) (x a d : ℕ → R) :
    sumN M (fun k => ana h N x k * a k) + sumN M (fun k => ana g N x k * d k)
      = sumN N (fun n => x n * syn h g M a d n) := by
  simp only [ana, syn, sumN_eq_sum]
  simp only [sum_mul, mul_sum]
  rw [← sum_add_distrib, sum_comm]
  apply sum_congr rfl; intro k _
  rw [← sum_add_distrib]
  apply sum_congr rfl; intro n _
  ring

/-- `iwt(fwt(x)) = x`, one level: for filters of length `L` satisfying completeness, synthesis of the
    `M ≥ ⌊(N+L-1)/2⌋` coefficients kept by the zero-extended transform returns every sample of a length-`N`
    signal (any `N`, odd or even, shorter than the filter or not). -/
theorem qmf_perfect_reconstruction {L N M : ℕ} {h g : ℤ → R} (hh : SupportedOn L h) (hg : SupportedOn L g)
    (hc : Complete h g) (hM : L + N ≤ 2 * M + 2) (x : ℕ → R) {n : ℕ} (hn : n < N) :
    syn h g M (ana h N x) (ana g N x) n = x n := by
  simp only [ana, syn, sumN_eq_sum]
  calc _ = ∑ n' ∈ range N, (∑ k ∈ range M, (h (2 * (k : ℤ) + 1 - n) * h (2 * (k : ℤ) + 1 - n')
              + g (2 * (k : ℤ) + 1 - n) * g (2 * (k : ℤ) + 1 - n'))) * x n' := by
        simp only [mul_sum, sum_mul]
        rw [sum_comm]
        apply sum_congr rfl; intro k _
        rw [← sum_add_distrib]
        apply sum_congr rfl; intro n' _
        ring
    _ = ∑ n' ∈ range N, (if n = n' then 1 else 0) * x n' := by
        apply sum_congr rfl; intro n' _
        rw [complete_window hh hg hc hM hn n']
    _ = x n := by
        simp [hn]

/-- `‖fwt x‖ = ‖x‖`, one level: `‖a‖² + ‖d‖² = ‖x‖²` under the same hypotheses (over any commutative
    ring, in particular ℝ; for complex data PyWavelets transforms real and imaginary parts separately). -/
theorem qmf_isometry_1level {L N M : ℕ} {h g : ℤ → R} (hh : SupportedOn L h) (hg : SupportedOn L g)
    (hc : Complete h g) (hM : L + N ≤ 2 * M + 2) (x : ℕ → R) :
    sumN M (fun k => ana h N x k ^ 2) + sumN M (fun k => ana g N x k ^ 2) = sumN N (fun n => x n ^ 2) := by
  have adj := synthesis_is_adjoint h g N M x (ana h N x) (ana g N x)
  simp only [sq]
  rw [adj]
  simp only [sumN_eq_sum]
  apply sum_congr rfl; intro n hn
  rw [qmf_perfect_reconstruction hh hg hc hM x (mem_range.mp hn)]


/-! ### Haar: the hypotheses are satisfiable -/

/-- Haar low-pass `dec_lo = (s, s)` with `s = 1/√2` (any `s` with `2·s² = 1`) -/
def haarLo (s : R) (j : ℤ) : R := if j = 0 ∨ j = 1 then s else 0
/-- Haar high-pass `dec_hi = (-s, s)` -/
def haarHi (s : R) (j : ℤ) : R := if j = 0 then -s else if j = 1 then s else 0

theorem haar_supported (s : R) : SupportedOn 2 (haarLo s) ∧ SupportedOn 2 (haarHi s) := by
  constructor <;> intro j hj <;> simp only [haarLo, haarHi] <;> split_ifs <;> first | rfl | omega

theorem haar_complete (s : R) (hs : 2 * (s * s) = 1) : Complete (haarLo s) (haarHi s) := by
  intro n n'
  rw [finsum_eq_single _ (n / 2)]
  · simp only [haarLo, haarHi]
    split_ifs <;> first | omega | linear_combination hs | linear_combination (0 : R) * hs
  · intro k hk
    have h0 : haarLo s (2 * k + 1 - n) = 0 := by
      simp only [haarLo]; rw [if_neg (by omega)]
    have g0 : haarHi s (2 * k + 1 - n) = 0 := by
      simp only [haarHi]; rw [if_neg (by omega), if_neg (by omega)]
    rw [h0, g0]; ring


theorem haar_orthonormal (s : R) (hs : 2 * (s * s) = 1) : Orthonormal (haarLo s) (haarHi s) := by
  have supp : ∀ (f : ℤ → R) (u : ℤ → R), (∀ j : ℤ, (j < 0 ∨ (2 : ℤ) ≤ j) → f j = 0) →
      Function.support (fun n => f n * u n) ⊆ ((({0, 1} : Finset ℤ)) : Set ℤ) := by
    intro f u hf n hn
    rw [Function.mem_support] at hn
    simp only [coe_insert, coe_singleton, Set.mem_insert_iff, Set.mem_singleton_iff]
    by_contra hcon
    apply hn
    rw [hf n (by omega)]; ring
  have hl := (haar_supported s).1
  have hh := (haar_supported s).2
  refine ⟨fun m => ?_, fun m => ?_, fun m => ?_⟩
  · rw [finsum_eq_sum_of_support_subset _ (supp _ _ (fun j hj => hl j (by simpa using hj))),
      sum_pair (by decide)]
    simp only [haarLo]
    split_ifs <;> first | omega | linear_combination hs | linear_combination (0 : R) * hs | (exfalso; simp at *)
  · rw [finsum_eq_sum_of_support_subset _ (supp _ _ (fun j hj => hh j (by simpa using hj))),
      sum_pair (by decide)]
    simp only [haarHi]
    split_ifs <;> first | omega | linear_combination hs | linear_combination (0 : R) * hs
  · rw [finsum_eq_sum_of_support_subset _ (supp _ _ (fun j hj => hl j (by simpa using hj))),
      sum_pair (by decide)]
    simp only [haarLo, haarHi]
    split_ifs <;> first | omega | linear_combination (0 : R) * hs | (exfalso; simp at *)


/-- Non-vacuity over ℝ: with `s = √2/2` the Haar pair is supported on `{0,1}`, complete and orthonormal,
    so `qmf_isometry_1level` / `qmf_perfect_reconstruction` apply to it. -/
theorem haar_real :
    SupportedOn 2 (haarLo (Real.sqrt 2 / 2)) ∧ SupportedOn 2 (haarHi (Real.sqrt 2 / 2)) ∧
    Complete (haarLo (Real.sqrt 2 / 2)) (haarHi (Real.sqrt 2 / 2)) ∧
    Orthonormal (haarLo (Real.sqrt 2 / 2)) (haarHi (Real.sqrt 2 / 2)) := by
  have hs : 2 * ((Real.sqrt 2 / 2) * (Real.sqrt 2 / 2)) = (1 : ℝ) := by
    have := Real.mul_self_sqrt (show (0 : ℝ) ≤ 2 by norm_num)
    linear_combination (1 / 2 : ℝ) * this
  exact ⟨(haar_supported _).1, (haar_supported _).2, haar_complete _ hs, haar_orthonormal _ hs⟩

/-- one Haar level of a length-4 real signal preserves the sum of squares (instance of the theorem) -/
example (x : ℕ → ℝ) :
    sumN 2 (fun k => ana (haarLo (Real.sqrt 2 / 2)) 4 x k ^ 2) + sumN 2 (fun k => ana (haarHi (Real.sqrt 2 / 2)) 4 x k ^ 2)
      = sumN 4 (fun n => x n ^ 2) :=
  qmf_isometry_1level haar_real.1 haar_real.2.1 haar_real.2.2.1 (by norm_num) x


/-! ### lifting: levels (composition) and axes (separability) -/

omit [CommRing R] in
/-- A composition of norm-preserving maps is norm-preserving (levels: the next level acts on the
    approximation part; axes: one axis after the other). -/
theorem isometry_comp {α β γ : Type*} {nα : α → R} {nβ : β → R} {nγ : γ → R} {S : α → β} {T : β → γ}
    (hS : ∀ x, nβ (S x) = nα x) (hT : ∀ y, nγ (T y) = nβ y) (x : α) : nγ (T (S x)) = nα x := by
  rw [hT, hS]

omit [CommRing R] in
/-- The adjoint of a composition is the composition of the adjoints in reverse order
    (`waverecn` undoes the levels/axes of `wavedecn` last-to-first). -/
theorem adjoint_comp {α β γ : Type*} {ipα : α → α → R} {ipβ : β → β → R} {ipγ : γ → γ → R}
    {S : α → β} {S' : β → α} {T : β → γ} {T' : γ → β}
    (hS : ∀ x y, ipβ (S x) y = ipα x (S' y)) (hT : ∀ y z, ipγ (T y) z = ipβ y (T' z)) (x : α) (z : γ) :
    ipγ (T (S x)) z = ipα x (S' (T' z)) := by
  rw [hT, hS]

/-- Separable transform, last axis: one level along the rows of a `P × N` array keeps the sum of squares. -/
theorem qmf_isometry_rows {L N M : ℕ} {h g : ℤ → R} (hh : SupportedOn L h) (hg : SupportedOn L g)
    (hc : Complete h g) (hM : L + N ≤ 2 * M + 2) (P : ℕ) (X : ℕ → ℕ → R) :
    sumN P (fun r => sumN M (fun k => ana h N (X r) k ^ 2) + sumN M (fun k => ana g N (X r) k ^ 2))
      = sumN P (fun r => sumN N (fun n => X r n ^ 2)) := by
  simp only [qmf_isometry_1level hh hg hc hM]

/-- Separable transform, first axis: one level along the columns of a `P × N` array (signal length `P`). -/
theorem qmf_isometry_cols {L P M : ℕ} {h g : ℤ → R} (hh : SupportedOn L h) (hg : SupportedOn L g)
    (hc : Complete h g) (hM : L + P ≤ 2 * M + 2) (N : ℕ) (X : ℕ → ℕ → R) :
    sumN N (fun n => sumN M (fun k => ana h P (fun r => X r n) k ^ 2)
        + sumN M (fun k => ana g P (fun r => X r n) k ^ 2))
      = sumN P (fun r => sumN N (fun n => X r n ^ 2)) := by
  have e : ∀ n, sumN M (fun k => ana h P (fun r => X r n) k ^ 2)
      + sumN M (fun k => ana g P (fun r => X r n) k ^ 2) = sumN P (fun r => X r n ^ 2) :=
    fun n => qmf_isometry_1level hh hg hc hM (fun r => X r n)
  simp only [e]
  simp only [sumN_eq_sum]
  rw [sum_comm]

/-! ### the executed list model: every level of `wavedec` (any length, odd intermediate lengths included) -/

/-- sum of squares of a list / of a list of coefficient lists -/
def nsq (l : List R) : R := (l.map (· ^ 2)).sum
def nsqs (c : List (List R)) : R := (c.map nsq).sum

theorem nsq_map_range (M : ℕ) (f : ℕ → R) : nsq ((List.range M).map f) = ∑ k ∈ range M, f k ^ 2 := by
  unfold nsq
  induction M with
  | zero => simp
  | succ M ih =>
    rw [List.range_succ, List.map_append, List.map_append, List.sum_append, ih, sum_range_succ]
    simp

theorem nsq_eq_sum (x : List R) : nsq x = ∑ n ∈ range x.length, ofListN x n ^ 2 := by
  have hx : x = (List.range x.length).map (ofListN x) := by
    apply List.ext_getElem
    · simp
    · intro i h1 h2
      simp [ofListN, List.getElem?_eq_getElem h1]
  calc nsq x = nsq ((List.range x.length).map (ofListN x)) := by rw [← hx]
    _ = _ := nsq_map_range _ _

/-- One level of the executed model `dwt1` (= `pywt.dwt(mode='zero')`, by correspondence) preserves the
    sum of squares for every input length, for any filter pair satisfying completeness. -/
theorem dwt1_isometry (h g x : List R) (hL : g.length = h.length) (hc : Complete (ofList h) (ofList g)) :
    nsq (dwt1 h g x).1 + nsq (dwt1 h g x).2 = nsq x := by
  have hg : SupportedOn h.length (ofList g) := by rw [← hL]; exact supportedOn_ofList g
  have key := qmf_isometry_1level (supportedOn_ofList h) hg hc (M := dwtLen x.length h.length)
    (N := x.length) (by unfold dwtLen; omega) (ofListN x)
  simp only [sumN_eq_sum] at key
  unfold dwt1
  simp only [nsq_map_range, nsq_eq_sum x]
  exact key

/-- All `J` levels: the coefficient lists `[a_J, d_J, …, d_1]` of the executed `wavedec` have the same
    total sum of squares as the input (induction over the levels = `isometry_comp`). -/
theorem wavedec_isometry (h g : List R) (hL : g.length = h.length) (hc : Complete (ofList h) (ofList g)) :
    ∀ (J : ℕ) (x : List R), nsqs (wavedec h g J x) = nsq x := by
  intro J
  induction J with
  | zero => intro x; simp [wavedec, nsqs]
  | succ J ih =>
    intro x
    show nsqs (wavedec h g J (dwt1 h g x).1 ++ [(dwt1 h g x).2]) = nsq x
    have := ih (dwt1 h g x).1
    unfold nsqs at this ⊢
    rw [List.map_append, List.sum_append, this]
    simp only [List.map_cons, List.map_nil, List.sum_cons, List.sum_nil, add_zero]
    exact dwt1_isometry h g x hL hc

theorem nsq_flatten (c : List (List R)) : nsq c.flatten = nsqs c := by
  induction c with
  | nil => simp [nsq, nsqs]
  | cons a c ih =>
    unfold nsq nsqs at *
    rw [List.flatten_cons, List.map_append, List.sum_append, ih]
    simp [nsq]

/-- The packed 1-D coefficient array `[a_J | d_J | … | d_1]` (what `coeffs_to_array` builds and `fwt`
    returns, by correspondence) has the norm of the padded input. -/
theorem wavedec_packed_isometry (h g : List R) (hL : g.length = h.length)
    (hc : Complete (ofList h) (ofList g)) (J : ℕ) (x : List R) :
    nsq (wavedec h g J x).flatten = nsq x := by
  rw [nsq_flatten, wavedec_isometry h g hL hc]

end SigpyVerif.C10
