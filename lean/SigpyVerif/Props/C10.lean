import SigpyVerif.Model.C10
import SigpyVerif.Lemmas.C10
import SigpyVerif.Lemmas.C10List
import SigpyVerif.Lemmas.C10Nd
import SigpyVerif.Lemmas.C10Qmf
import SigpyVerif.Lemmas.Py
import SigpyVerif.Props.C09
import Mathlib.Analysis.Real.Sqrt
/-
  C10 — orthogonal wavelet transform: isometry, perfect reconstruction, adjoint, advertised shape.

  Full property (sigpy level): for every orthogonal wavelet, shape, axes subset and level,
      iwt (fwt x) = x,   ‖fwt x‖ = ‖x‖,   ⟨fwt x, c⟩ = ⟨x, iwt c⟩,   (fwt x).shape = Wavelet(...).oshape.
  The transform itself is PyWavelets (C code), so the property is partial by nature.  What is PROVED here:
    (1) sigpy's own glue: the even padding formula (generated), pad/crop index maps (crop ∘ pad = id,
        crop = padᴴ, which end gets the extra zero), and that the shape function and `fwt`/`iwt` make the
        same PyWavelets calls on the same padded shape (generated call signatures);
    (2) the mathematics of one zero-extended filter-bank level in PyWavelets' convention, for ANY finite
        filter pair satisfying completeness: adjointness (no hypothesis), perfect reconstruction, isometry;
        non-vacuity by Haar; lifting to levels (the executed `wavedec`, by induction) and to axes.
    (3) the executed multi-level 1-D list model (`wavedec`/`waverec`, the very definitions the driver runs
        against `pywt.wavedec/waverec`): perfect reconstruction (`waverec_wavedec`, exact form incl. the extra
        zero for odd lengths and the trimming rule at every level), adjointness for arbitrary coefficient lists
        (`wavedec_adjoint`, any filters), isometry;
    (4) the full 1-D sigpy pipeline `fwt1`/`iwt1` (pad to even with the zero in front, wavedec, pack | unpack
        with the stored lengths, waverec, centre crop): `fwt1_iwt1_id`, `iwt1_is_adjoint`, `fwt1_isometry`,
        `fwt1_length` — for every length, every level count (`level=None` included);
    (5) the separable N-d transform at level 1 as a composition of per-axis maps over an ARBITRARY list of axes
        (`fwtn_level1_isometry/_adjoint/_pr`, by induction over the list; padding of every axis included);
    (6) `Complete` from the orthonormality of `dec_lo` alone when `dec_hi` is its alternating flip
        (`complete_of_qmf_pair`), so that (3)–(4) hold from `OrthonormalLo` only (`fwt1_iwt1_id_qmf`).
  What is CONTRACT (validated by the correspondence check on every run, not proved): that PyWavelets'
  `dwt/idwt/wavedec/waverec/wavedecn/coeffs_to_array` compute the modelled formulas, that the filter taps of
  every orthogonal wavelet satisfy `OrthonormalLo`/`Orthonormal`/`Complete` (to 1e-10) and that `dec_hi` is the
  alternating flip of `dec_lo` (observed exact).
  Multi-level N-d (all levels, any rank / axes list / shape, `coeffs_to_array`'s block layout with its zero
  filling, recursion on the approximation block only): proved in Props/C10Ml.lean (`fwtn_isometry`, `fwtn_adjoint`,
  `fwtn_pr`, `fwtnOutShape_eq_waveShape`), model executed against the real code by the `ndlevels` stream.
  Not proved: the general `Orthonormal → Complete` for a `g` that is not assumed to be the flip of `h`.  It is true
  for finitely supported filters: with the 2×2 polyphase matrix `E(z)` over the commutative ring of Laurent
  polynomials, `Orthonormal` is `E(z)·Ẽ(z) = I` and `Complete` is `Ẽ(z)·E(z) = I`, and a one-sided inverse of a
  square matrix over a commutative ring is two-sided (`Matrix.mul_eq_one_comm`); the missing piece is the
  translation of the `∑ᶠ`-over-ℤ identities into Laurent-polynomial matrix identities.  (Without finite support /
  commutativity the implication fails: an isometry of ℓ² need not be onto.)  The alternating-flip hypothesis used
  instead is an exactly checkable property of PyWavelets' taps (bit-for-bit, every run), whereas the orthonormality
  sums only hold to ~1e-11.
-/
namespace SigpyVerif.C10
open SigpyVerif Finset

variable {R : Type*} [CommRing R]

/-! ### (1) sigpy's glue: even padding, centre pad / centre crop, one padded shape at every site -/

set_option linter.unusedSimpArgs false in
/-- `zshape = ((i+1)//2)*2` is even, at least `i`, and adds at most one sample. -/
theorem zshape_spec (i : Int) :
    Gen.waveZshapeFwt i % 2 = 0 ∧ i ≤ Gen.waveZshapeFwt i ∧ Gen.waveZshapeFwt i - i = i % 2 := by
  unfold Gen.waveZshapeFwt
  try simp only [pyDiv_of_pos _ (show (0 : Int) < 2 by decide), pyMod_of_pos _ (show (0 : Int) < 2 by decide)]
  first | omega | (split_ifs <;> omega)

set_option linter.unusedSimpArgs false in
/-- the padding formula of `get_wavelet_shape` and the one of `fwt` give the same length for every axis
    length (proved by arithmetic, so an algebraically equal rewrite of either site does not break it) -/
theorem zshape_sites_agree (i : Int) : Gen.waveZshapeShape i = Gen.waveZshapeFwt i := by
  unfold Gen.waveZshapeShape Gen.waveZshapeFwt
  try simp only [pyDiv_of_pos _ (show (0 : Int) < 2 by decide), pyMod_of_pos _ (show (0 : Int) < 2 by decide)]
  try (first | omega | (split_ifs <;> omega))

/-- `get_wavelet_shape` (hence `Wavelet.oshape`, `InverseWavelet.ishape` and the stored `coeff_slices`)
    and `fwt` pad to the same even shape and make the same `wavedecn(..., mode='zero', axes, level)` and
    `coeffs_to_array(..., axes)` calls on an array of that shape: the advertised coefficient shape is
    computed exactly like the actual one.  (Structure statement about the regenerated DATA FLOW of the two
    functions: every local name is replaced by the expression it holds, private helpers are inlined and call
    arguments are bound to the callee's parameter names, so this is a statement about what is computed, not about
    how the source spells it - see harness/translate/gen_c10.py.  `<zshape>` = the padded shape, whose element
    formula is `Gen.waveZshape*`, taken over the shape of the array being padded; `<dec>` = the value of the
    `wavedecn` call.) -/
theorem shape_consistent :
    Gen.waveZshapeShape = Gen.waveZshapeFwt ∧ Gen.waveDecCallShape = Gen.waveDecCallFwt ∧
    Gen.wavePackCallShape = Gen.wavePackCallFwt ∧
    Gen.waveDecCallFwt = ["wavedecn", "shape:<zshape>", "wavelet=wave_name", "mode='zero'", "level=level", "axes=axes"] ∧
    Gen.wavePackCallFwt = ["coeffs_to_array", "coeffs=<dec>", "padding=0", "axes=axes"] ∧
    Gen.wavePadCallFwt = ["resize", "input=backend.to_device(input=input, device=backend.cpu_device)", "oshape=<zshape>",
      "ishift=None", "oshift=None"] :=
  ⟨funext zshape_sites_agree, rfl, rfl, rfl, rfl, rfl⟩

/-- `iwt` mirrors `fwt`: it unpacks (the input moved to the CPU) with the stored slices, reconstructs from exactly
    those coefficients with the same wavelet, the same `mode='zero'` and the same `axes`, and centre-crops the
    reconstruction to `oshape` with the default shifts. -/
theorem inverse_mirrors_forward :
    Gen.waveUnpackCallIwt = ["array_to_coeffs", "arr=backend.to_device(input=input, device=backend.cpu_device)",
      "coeff_slices=coeff_slices", "output_format='wavedecn'"] ∧
    Gen.waveRecCallIwt = ["waverecn", "coeffs=<unpack>", "wavelet=wave_name", "mode='zero'", "axes=axes"] ∧
    Gen.waveCropCallIwt = ["resize", "input=<rec>", "oshape=oshape", "ishift=None", "oshift=None"] :=
  ⟨rfl, rfl, rfl⟩

/-- What the three functions RETURN (regenerated data flow): `get_wavelet_shape` returns the shape of the packed
    array together with the slices of the very same `coeffs_to_array` call; `fwt` returns the packed array (first
    component of its `coeffs_to_array` call) moved back to the device of the input; `iwt` returns the cropped
    reconstruction moved back to the device of the input.  Nothing else is applied to the values on the way out
    (a cast, a slice, another element of the pair would change these strings). -/
theorem glue_returns :
    Gen.waveRetShape = ["(<pack>[0].shape, <pack>[1])"] ∧
    Gen.waveRetFwt = ["backend.to_device(input=<pack>[0], device=backend.get_device(array=input))"] ∧
    Gen.waveRetIwt = ["backend.to_device(input=<crop>, device=backend.get_device(array=input))"] :=
  ⟨rfl, rfl, rfl⟩

/-- Which end receives the extra zero: padded index `k` holds input index `j` exactly when
    `k = j + (i mod 2)` — for odd `i` the inserted zero is at index 0 (in front), for even `i` nothing moves. -/
theorem pad_extra_zero_in_front (i k j : Int) :
    padSrc i k = some j ↔ (0 ≤ j ∧ j < i ∧ k = j + i % 2) := by
  unfold padSrc
  rw [C09.resize_default_aligns]
  have := zshape_spec i
  omega

/-- The centre crop of `iwt` is the transpose of the centre pad of `fwt` (`crop = padᴴ`), index by index. -/
theorem crop_is_pad_adjoint (i k j : Int) : padSrc i k = some j ↔ cropSrc i j = some k := by
  unfold padSrc cropSrc
  rw [zshape_sites_agree i,
    C09.resize_default_aligns, C09.resize_default_aligns]
  omega

/-- `crop ∘ pad = id`: every input index `0 ≤ j < i` is stored at some padded index `k`, and the crop's
    output `j` reads exactly that `k`. -/
theorem pad_crop (i j : Int) (hj0 : 0 ≤ j) (hji : j < i) :
    ∃ k, padSrc i k = some j ∧ cropSrc i j = some k := by
  refine ⟨j + i % 2, ?_, ?_⟩
  · rw [pad_extra_zero_in_front]; omega
  · rw [← crop_is_pad_adjoint, pad_extra_zero_in_front]; omega

example : padSrc 5 0 = none ∧ padSrc 5 1 = some 0 ∧ cropSrc 5 4 = some 5 ∧ padSrc 4 0 = some 0 := by decide

/-! ### (2) filter-bank mathematics, one level, PyWavelets' zero-extension convention -/

/-- `iwt = fwtᴴ`, one level: `⟨analysis x, (a,d)⟩ = ⟨x, synthesis (a,d)⟩` for arbitrary coefficient
    sequences `a, d` (not only those in the range of the analysis) and ANY filters — pure index
    manipulation.  `ana`/`syn` are the definitions the driver executes against `pywt.dwt/idwt`. -/
theorem synthesis_is_adjoint (h g : ℤ → R) (N M : ℕ) (x a d : ℕ → R) :
    sumN M (fun k => ana h N x k * a k) + sumN M (fun k => ana g N x k * d k)
      = sumN N (fun n => x n * syn h g M a d n) := by
  simp only [ana, syn, sumN_eq_sum]
  simp only [sum_mul, mul_sum]
  rw [← sum_add_distrib, sum_comm]
  apply sum_congr rfl; intro k _
  rw [← sum_add_distrib]
  apply sum_congr rfl; intro n _
  ring

/-- `iwt(fwt(x)) = x`, one level: for filters of length `L` satisfying completeness, synthesis of the
    `M ≥ ⌊(N+L-1)/2⌋` coefficients kept by the zero-extended transform returns every sample of a length-`N`
    signal (any `N`, odd or even, shorter than the filter or not). -/
theorem qmf_perfect_reconstruction {L N M : ℕ} {h g : ℤ → R} (hh : SupportedOn L h) (hg : SupportedOn L g)
    (hc : Complete h g) (hM : L + N ≤ 2 * M + 2) (x : ℕ → R) {n : ℕ} (hn : n < N) :
    syn h g M (ana h N x) (ana g N x) n = x n := by
  simp only [ana, syn, sumN_eq_sum]
  calc _ = ∑ n' ∈ range N, (∑ k ∈ range M, (h (2 * (k : ℤ) + 1 - n) * h (2 * (k : ℤ) + 1 - n')
              + g (2 * (k : ℤ) + 1 - n) * g (2 * (k : ℤ) + 1 - n'))) * x n' := by
        simp only [mul_sum, sum_mul]
        rw [sum_comm]
        apply sum_congr rfl; intro k _
        rw [← sum_add_distrib]
        apply sum_congr rfl; intro n' _
        ring
    _ = ∑ n' ∈ range N, (if n = n' then 1 else 0) * x n' := by
        apply sum_congr rfl; intro n' _
        rw [complete_window hh hg hc hM hn n']
    _ = x n := by
        simp [hn]

/-- `‖fwt x‖ = ‖x‖`, one level: `‖a‖² + ‖d‖² = ‖x‖²` under the same hypotheses (over any commutative
    ring, in particular ℝ; for complex data PyWavelets transforms real and imaginary parts separately). -/
theorem qmf_isometry_1level {L N M : ℕ} {h g : ℤ → R} (hh : SupportedOn L h) (hg : SupportedOn L g)
    (hc : Complete h g) (hM : L + N ≤ 2 * M + 2) (x : ℕ → R) :
    sumN M (fun k => ana h N x k ^ 2) + sumN M (fun k => ana g N x k ^ 2) = sumN N (fun n => x n ^ 2) := by
  have adj := synthesis_is_adjoint h g N M x (ana h N x) (ana g N x)
  simp only [sq]
  rw [adj]
  simp only [sumN_eq_sum]
  apply sum_congr rfl; intro n hn
  rw [qmf_perfect_reconstruction hh hg hc hM x (mem_range.mp hn)]


/-! ### Haar: the hypotheses are satisfiable -/

/-- Haar low-pass `dec_lo = (s, s)` with `s = 1/√2` (any `s` with `2·s² = 1`) -/
def haarLo (s : R) (j : ℤ) : R := if j = 0 ∨ j = 1 then s else 0
/-- Haar high-pass `dec_hi = (-s, s)` -/
def haarHi (s : R) (j : ℤ) : R := if j = 0 then -s else if j = 1 then s else 0

theorem haar_supported (s : R) : SupportedOn 2 (haarLo s) ∧ SupportedOn 2 (haarHi s) := by
  constructor <;> intro j hj <;> simp only [haarLo, haarHi] <;> split_ifs <;> first | rfl | omega

theorem haar_complete (s : R) (hs : 2 * (s * s) = 1) : Complete (haarLo s) (haarHi s) := by
  intro n n'
  rw [finsum_eq_single _ (n / 2)]
  · simp only [haarLo, haarHi]
    split_ifs <;> first | omega | linear_combination hs | linear_combination (0 : R) * hs
  · intro k hk
    have h0 : haarLo s (2 * k + 1 - n) = 0 := by
      simp only [haarLo]; rw [if_neg (by omega)]
    have g0 : haarHi s (2 * k + 1 - n) = 0 := by
      simp only [haarHi]; rw [if_neg (by omega), if_neg (by omega)]
    rw [h0, g0]; ring


theorem haar_orthonormal (s : R) (hs : 2 * (s * s) = 1) : Orthonormal (haarLo s) (haarHi s) := by
  have supp : ∀ (f : ℤ → R) (u : ℤ → R), (∀ j : ℤ, (j < 0 ∨ (2 : ℤ) ≤ j) → f j = 0) →
      Function.support (fun n => f n * u n) ⊆ ((({0, 1} : Finset ℤ)) : Set ℤ) := by
    intro f u hf n hn
    rw [Function.mem_support] at hn
    simp only [coe_insert, coe_singleton, Set.mem_insert_iff, Set.mem_singleton_iff]
    by_contra hcon
    apply hn
    rw [hf n (by omega)]; ring
  have hl := (haar_supported s).1
  have hh := (haar_supported s).2
  refine ⟨fun m => ?_, fun m => ?_, fun m => ?_⟩
  · rw [finsum_eq_sum_of_support_subset _ (supp _ _ (fun j hj => hl j (by simpa using hj))),
      sum_pair (by decide)]
    simp only [haarLo]
    split_ifs <;> first | omega | linear_combination hs | linear_combination (0 : R) * hs | (exfalso; simp at *)
  · rw [finsum_eq_sum_of_support_subset _ (supp _ _ (fun j hj => hh j (by simpa using hj))),
      sum_pair (by decide)]
    simp only [haarHi]
    split_ifs <;> first | omega | linear_combination hs | linear_combination (0 : R) * hs
  · rw [finsum_eq_sum_of_support_subset _ (supp _ _ (fun j hj => hl j (by simpa using hj))),
      sum_pair (by decide)]
    simp only [haarLo, haarHi]
    split_ifs <;> first | omega | linear_combination (0 : R) * hs | (exfalso; simp at *)


/-- Non-vacuity over ℝ: with `s = √2/2` the Haar pair is supported on `{0,1}`, complete and orthonormal,
    so `qmf_isometry_1level` / `qmf_perfect_reconstruction` apply to it. -/
theorem haar_real :
    SupportedOn 2 (haarLo (Real.sqrt 2 / 2)) ∧ SupportedOn 2 (haarHi (Real.sqrt 2 / 2)) ∧
    Complete (haarLo (Real.sqrt 2 / 2)) (haarHi (Real.sqrt 2 / 2)) ∧
    Orthonormal (haarLo (Real.sqrt 2 / 2)) (haarHi (Real.sqrt 2 / 2)) := by
  have hs : 2 * ((Real.sqrt 2 / 2) * (Real.sqrt 2 / 2)) = (1 : ℝ) := by
    have := Real.mul_self_sqrt (show (0 : ℝ) ≤ 2 by norm_num)
    linear_combination (1 / 2 : ℝ) * this
  exact ⟨(haar_supported _).1, (haar_supported _).2, haar_complete _ hs, haar_orthonormal _ hs⟩

/-- one Haar level of a length-4 real signal preserves the sum of squares (instance of the theorem) -/
example (x : ℕ → ℝ) :
    sumN 2 (fun k => ana (haarLo (Real.sqrt 2 / 2)) 4 x k ^ 2) + sumN 2 (fun k => ana (haarHi (Real.sqrt 2 / 2)) 4 x k ^ 2)
      = sumN 4 (fun n => x n ^ 2) :=
  qmf_isometry_1level haar_real.1 haar_real.2.1 haar_real.2.2.1 (by norm_num) x


/-! ### lifting: levels (composition) and axes (separability) -/

omit [CommRing R] in
/-- A composition of norm-preserving maps is norm-preserving (levels: the next level acts on the
    approximation part; axes: one axis after the other). -/
theorem isometry_comp {α β γ : Type*} {nα : α → R} {nβ : β → R} {nγ : γ → R} {S : α → β} {T : β → γ}
    (hS : ∀ x, nβ (S x) = nα x) (hT : ∀ y, nγ (T y) = nβ y) (x : α) : nγ (T (S x)) = nα x := by
  rw [hT, hS]

omit [CommRing R] in
/-- The adjoint of a composition is the composition of the adjoints in reverse order
    (`waverecn` undoes the levels/axes of `wavedecn` last-to-first). -/
theorem adjoint_comp {α β γ : Type*} {ipα : α → α → R} {ipβ : β → β → R} {ipγ : γ → γ → R}
    {S : α → β} {S' : β → α} {T : β → γ} {T' : γ → β}
    (hS : ∀ x y, ipβ (S x) y = ipα x (S' y)) (hT : ∀ y z, ipγ (T y) z = ipβ y (T' z)) (x : α) (z : γ) :
    ipγ (T (S x)) z = ipα x (S' (T' z)) := by
  rw [hT, hS]

/-- Separable transform, last axis: one level along the rows of a `P × N` array keeps the sum of squares. -/
theorem qmf_isometry_rows {L N M : ℕ} {h g : ℤ → R} (hh : SupportedOn L h) (hg : SupportedOn L g)
    (hc : Complete h g) (hM : L + N ≤ 2 * M + 2) (P : ℕ) (X : ℕ → ℕ → R) :
    sumN P (fun r => sumN M (fun k => ana h N (X r) k ^ 2) + sumN M (fun k => ana g N (X r) k ^ 2))
      = sumN P (fun r => sumN N (fun n => X r n ^ 2)) := by
  simp only [qmf_isometry_1level hh hg hc hM]

/-- Separable transform, first axis: one level along the columns of a `P × N` array (signal length `P`). -/
theorem qmf_isometry_cols {L P M : ℕ} {h g : ℤ → R} (hh : SupportedOn L h) (hg : SupportedOn L g)
    (hc : Complete h g) (hM : L + P ≤ 2 * M + 2) (N : ℕ) (X : ℕ → ℕ → R) :
    sumN N (fun n => sumN M (fun k => ana h P (fun r => X r n) k ^ 2)
        + sumN M (fun k => ana g P (fun r => X r n) k ^ 2))
      = sumN P (fun r => sumN N (fun n => X r n ^ 2)) := by
  have e : ∀ n, sumN M (fun k => ana h P (fun r => X r n) k ^ 2)
      + sumN M (fun k => ana g P (fun r => X r n) k ^ 2) = sumN P (fun r => X r n ^ 2) :=
    fun n => qmf_isometry_1level hh hg hc hM (fun r => X r n)
  simp only [e]
  simp only [sumN_eq_sum]
  rw [sum_comm]

/-! ### the executed list model: every level of `wavedec` (any length, odd intermediate lengths included) -/

/-- One level of the executed model `dwt1` (= `pywt.dwt(mode='zero')`, by correspondence) preserves the
    sum of squares for every input length, for any filter pair satisfying completeness. -/
theorem dwt1_isometry (h g x : List R) (hL : g.length = h.length) (hc : Complete (ofList h) (ofList g)) :
    nsq (dwt1 h g x).1 + nsq (dwt1 h g x).2 = nsq x := by
  have hg : SupportedOn h.length (ofList g) := by rw [← hL]; exact supportedOn_ofList g
  have key := qmf_isometry_1level (supportedOn_ofList h) hg hc (M := dwtLen x.length h.length)
    (N := x.length) (by unfold dwtLen; omega) (ofListN x)
  simp only [sumN_eq_sum] at key
  unfold dwt1
  simp only [nsq_map_range, nsq_eq_sum x]
  exact key

/-- All `J` levels: the coefficient lists `[a_J, d_J, …, d_1]` of the executed `wavedec` have the same
    total sum of squares as the input (induction over the levels = `isometry_comp`). -/
theorem wavedec_isometry (h g : List R) (hL : g.length = h.length) (hc : Complete (ofList h) (ofList g)) :
    ∀ (J : ℕ) (x : List R), nsqs (wavedec h g J x) = nsq x := by
  intro J
  induction J with
  | zero => intro x; simp [wavedec, nsqs]
  | succ J ih =>
    intro x
    show nsqs (wavedec h g J (dwt1 h g x).1 ++ [(dwt1 h g x).2]) = nsq x
    have := ih (dwt1 h g x).1
    unfold nsqs at this ⊢
    rw [List.map_append, List.sum_append, this]
    simp only [List.map_cons, List.map_nil, List.sum_cons, List.sum_nil, add_zero]
    exact dwt1_isometry h g x hL hc

/-- The packed 1-D coefficient array `[a_J | d_J | … | d_1]` (what `coeffs_to_array` builds and `fwt`
    returns, by correspondence) has the norm of the padded input. -/
theorem wavedec_packed_isometry (h g : List R) (hL : g.length = h.length)
    (hc : Complete (ofList h) (ofList g)) (J : ℕ) (x : List R) :
    nsq (wavedec h g J x).flatten = nsq x := by
  rw [nsq_flatten, wavedec_isometry h g hL hc]


/-! ### (1') the executed list model, all levels: perfect reconstruction and adjointness
    (`pywt.waverec`'s trimming rule included) -/

/-- One level of the executed model: `idwt(dwt(x))` returns `x`, followed by `2⌊(N+L-1)/2⌋+2-L-N` zeros
    (one zero when `N` is odd and `L` even, none when `N` is even) — this extra sample is what
    `pywt.waverec` trims at the next level. -/
theorem idwt1_dwt1 (h g x : List R) (hL : g.length = h.length) (hpos : 0 < h.length)
    (hc : Complete (ofList h) (ofList g)) :
    idwt1 h g (dwt1 h g x).1 (dwt1 h g x).2
      = x ++ List.replicate (2 * dwtLen x.length h.length + 2 - h.length - x.length) 0 := by
  have hg : SupportedOn h.length (ofList g) := by rw [← hL]; exact supportedOn_ofList g
  have hKN : x.length ≤ 2 * dwtLen x.length h.length + 2 - h.length := by unfold dwtLen; omega
  rw [← map_range_ofListN_ge x _ hKN]
  unfold idwt1 dwt1
  simp only [List.length_map, List.length_range]
  apply List.map_congr_left
  intro n hn
  rw [List.mem_range] at hn
  rw [syn_congr _ _ _ (fun k hk => ofListN_map_range _ _ hk) (fun k hk => ofListN_map_range _ _ hk)]
  have e1 : ∀ f : ℤ → R, ana f x.length (ofListN x)
      = ana f (2 * dwtLen x.length h.length + 2 - h.length) (ofListN x) := fun f =>
    funext fun k => (ana_extend f hKN _ (fun n hn => ofListN_of_le x hn) k).symm
  rw [e1, e1]
  exact qmf_perfect_reconstruction (supportedOn_ofList h) hg hc (by unfold dwtLen; omega) (ofListN x) hn

theorem wavedec_ne_nil (h g : List R) (J : ℕ) (x : List R) : wavedec h g J x ≠ [] := by
  cases J <;> simp [wavedec]

theorem waverec_append (h g : List R) (c : List (List R)) (d : List R) (hc : c ≠ []) :
    waverec h g (c ++ [d])
      = idwt1 h g (if (waverec h g c).length = d.length + 1 then (waverec h g c).dropLast else waverec h g c) d := by
  cases c with
  | nil => exact absurd rfl hc
  | cons a ds =>
    simp only [waverec, List.cons_append, List.foldl_append, List.foldl_cons, List.foldl_nil]
    rfl

theorem dwt1_length (h g x : List R) :
    (dwt1 h g x).1.length = dwtLen x.length h.length ∧ (dwt1 h g x).2.length = dwtLen x.length h.length := by
  simp [dwt1]

/-- the coefficient lists of `wavedec` have the lengths `coeffLens` (the 1-D `coeff_slices`) -/
theorem wavedec_map_length (h g : List R) : ∀ (J : ℕ) (x : List R),
    (wavedec h g J x).map List.length = coeffLens x.length h.length J := by
  intro J
  induction J with
  | zero => intro x; rfl
  | succ J ih =>
    intro x
    show (wavedec h g J (dwt1 h g x).1 ++ [(dwt1 h g x).2]).map List.length = _
    rw [List.map_append, ih, (dwt1_length h g x).1]
    simp [coeffLens, (dwt1_length h g x).2]

/-- **Perfect reconstruction, all levels, every length** (exact form).  For a filter pair of even length
    satisfying completeness, `pywt.waverec(pywt.wavedec(x, level=J))` — with the rule that an approximation
    one sample longer than the next detail loses its last sample — returns `x` when `len(x)` is even or
    `J = 0`, and `x` followed by one zero when `len(x)` is odd; odd intermediate lengths are handled by the
    trimming rule at every level. -/
theorem waverec_wavedec (h g : List R) (hL : g.length = h.length) (hev : h.length % 2 = 0)
    (hpos : 0 < h.length) (hc : Complete (ofList h) (ofList g)) : ∀ (J : ℕ) (x : List R),
    waverec h g (wavedec h g J x) = if J = 0 ∨ x.length % 2 = 0 then x else x ++ [0] := by
  intro J
  induction J with
  | zero => intro x; simp [wavedec, waverec]
  | succ J ih =>
    intro x
    show waverec h g (wavedec h g J (dwt1 h g x).1 ++ [(dwt1 h g x).2]) = _
    rw [waverec_append _ _ _ _ (wavedec_ne_nil h g J _), ih]
    have hl := dwt1_length h g x
    have trim : (if (if J = 0 ∨ (dwt1 h g x).1.length % 2 = 0 then (dwt1 h g x).1 else (dwt1 h g x).1 ++ [0]).length
          = (dwt1 h g x).2.length + 1
        then (if J = 0 ∨ (dwt1 h g x).1.length % 2 = 0 then (dwt1 h g x).1 else (dwt1 h g x).1 ++ [0]).dropLast
        else (if J = 0 ∨ (dwt1 h g x).1.length % 2 = 0 then (dwt1 h g x).1 else (dwt1 h g x).1 ++ [0]))
        = (dwt1 h g x).1 := by
      split_ifs with h1 h2 h2
      · rw [hl.1, hl.2] at h2; omega
      · rfl
      · simp
      · simp [hl.1, hl.2] at h2
    rw [trim, idwt1_dwt1 h g x hL hpos hc]
    have hK : 2 * dwtLen x.length h.length + 2 - h.length - x.length = x.length % 2 := by
      unfold dwtLen; omega
    rw [hK]
    rcases Nat.mod_two_eq_zero_or_one x.length with h0 | h1
    · simp [h0]
    · simp [h1]

/-- **C10 perfect reconstruction, multi-level 1-D (every level count, every intermediate length).**
    On an even-length signal — sigpy always pads to even before calling PyWavelets —
    `waverec(wavedec(x, level=J)) = x` exactly. -/
theorem wavedec_perfect_reconstruction (h g : List R) (hL : g.length = h.length) (hev : h.length % 2 = 0)
    (hpos : 0 < h.length) (hc : Complete (ofList h) (ofList g)) (J : ℕ) (x : List R)
    (hx : x.length % 2 = 0) : waverec h g (wavedec h g J x) = x := by
  rw [waverec_wavedec h g hL hev hpos hc, if_pos (Or.inr hx)]

/-- … and for a signal of any length the first `len(x)` samples of the reconstruction are `x`. -/
theorem wavedec_perfect_reconstruction_take (h g : List R) (hL : g.length = h.length) (hev : h.length % 2 = 0)
    (hpos : 0 < h.length) (hc : Complete (ofList h) (ofList g)) (J : ℕ) (x : List R) :
    (waverec h g (wavedec h g J x)).take x.length = x := by
  rw [waverec_wavedec h g hL hev hpos hc]
  split_ifs <;> simp

/-- One level, arbitrary coefficient lists of the right length: `⟨dwt x, (a, d)⟩ = ⟨x, idwt (a, d)⟩`
    for ANY filters (list form of `synthesis_is_adjoint`). -/
theorem dwt1_adjoint (h g x a d : List R) (ha : a.length = dwtLen x.length h.length) (hd : d.length = a.length)
    (hpos : 0 < h.length) :
    dot (dwt1 h g x).1 a + dot (dwt1 h g x).2 d = dot x (idwt1 h g a d) := by
  have hl := dwt1_length h g x
  have hKN : x.length ≤ 2 * a.length + 2 - h.length := by rw [ha]; unfold dwtLen; omega
  rw [dot_eq_sum _ a a.length (by simp), dot_eq_sum _ d a.length (by simp [hd]),
    dot_eq_sum x _ x.length (by simp)]
  have := synthesis_is_adjoint (ofList h) (ofList g) x.length a.length (ofListN x) (ofListN a) (ofListN d)
  simp only [sumN_eq_sum] at this
  have e1 : ∑ n ∈ range a.length, ofListN (dwt1 h g x).1 n * ofListN a n
      = ∑ k ∈ range a.length, ana (ofList h) x.length (ofListN x) k * ofListN a k := by
    apply sum_congr rfl; intro k hk
    unfold dwt1; simp only [← ha]
    rw [ofListN_map_range _ _ (mem_range.mp hk)]
  have e2 : ∑ n ∈ range a.length, ofListN (dwt1 h g x).2 n * ofListN d n
      = ∑ k ∈ range a.length, ana (ofList g) x.length (ofListN x) k * ofListN d k := by
    apply sum_congr rfl; intro k hk
    unfold dwt1; simp only [← ha]
    rw [ofListN_map_range _ _ (mem_range.mp hk)]
  have e3 : ∑ n ∈ range x.length, ofListN x n * ofListN (idwt1 h g a d) n
      = ∑ n ∈ range x.length, ofListN x n * syn (ofList h) (ofList g) a.length (ofListN a) (ofListN d) n := by
    apply sum_congr rfl; intro n hn
    unfold idwt1
    rw [ofListN_map_range _ _ (lt_of_lt_of_le (mem_range.mp hn) hKN)]
  rw [e1, e2, e3]
  exact this

/-- length of `waverec` on coefficient lists of the advertised lengths: `z` for level 0, otherwise
    `2⌊(z+L-1)/2⌋+2-L` (= `z` for even `z`, `L`) -/
theorem waverec_length (h g : List R) (hpos : 0 < h.length) : ∀ (J z : ℕ) (c : List (List R)),
    c.map List.length = coeffLens z h.length J →
    (waverec h g c).length = if J = 0 then z else 2 * dwtLen z h.length + 2 - h.length := by
  intro J
  induction J with
  | zero =>
    intro z c hs
    match c, hs with
    | [], hs => simp [coeffLens] at hs
    | [a], hs => simpa [waverec, coeffLens] using hs
    | _ :: _ :: _, hs => simp [coeffLens] at hs
  | succ J ih =>
    intro z c hs
    rcases List.eq_nil_or_concat' c with rfl | ⟨c', d, rfl⟩
    · simp [coeffLens] at hs
    · simp only [coeffLens, List.map_append, List.map_cons, List.map_nil] at hs
      obtain ⟨hs', hd⟩ := List.append_inj' hs rfl
      simp only [List.cons.injEq, and_true] at hd
      have hc' : c' ≠ [] := by
        intro h0; subst h0
        cases J <;> simp [coeffLens] at hs'
      have hlen := ih _ c' hs'
      rw [waverec_append _ _ _ _ hc']
      simp only [idwt1, List.length_map, List.length_range, if_neg (Nat.succ_ne_zero J)]
      have : (if (waverec h g c').length = d.length + 1 then (waverec h g c').dropLast
          else waverec h g c').length = dwtLen z h.length := by
        split_ifs with h1
        · simp [h1, hd]
        · rw [hlen] at h1 ⊢
          split_ifs at h1 ⊢ with h2
          · rfl
          · unfold dwtLen at *; omega
      rw [this]

/-- **C10 adjoint, multi-level 1-D (every level count, every intermediate length).**  For ANY filter pair and
    ARBITRARY coefficient lists `c` of the advertised lengths (not only those in the range of `wavedec`):
    `⟨wavedec x, c⟩ = ⟨x, waverec c⟩`, the trimming rule of `pywt.waverec` included. -/
theorem wavedec_adjoint (h g : List R) (hpos : 0 < h.length) : ∀ (J : ℕ) (x : List R) (c : List (List R)),
    c.map List.length = coeffLens x.length h.length J →
    dots (wavedec h g J x) c = dot x (waverec h g c) := by
  intro J
  induction J with
  | zero =>
    intro x c hs
    match c, hs with
    | [], hs => simp [coeffLens] at hs
    | [a], hs => simp [wavedec, waverec, dots]
    | _ :: _ :: _, hs => simp [coeffLens] at hs
  | succ J ih =>
    intro x c hs
    rcases List.eq_nil_or_concat' c with rfl | ⟨c', d, rfl⟩
    · simp [coeffLens] at hs
    · simp only [coeffLens, List.map_append, List.map_cons, List.map_nil] at hs
      obtain ⟨hs', hd⟩ := List.append_inj' hs rfl
      simp only [List.cons.injEq, and_true] at hd
      have hc' : c' ≠ [] := by
        intro h0; subst h0
        cases J <;> simp [coeffLens] at hs'
      have hl := dwt1_length h g x
      have hlen := waverec_length h g hpos J _ c' hs'
      show dots (wavedec h g J (dwt1 h g x).1 ++ [(dwt1 h g x).2]) (c' ++ [d]) = _
      have hcl : (wavedec h g J (dwt1 h g x).1).length = c'.length := by
        have := congrArg List.length (wavedec_map_length h g J (dwt1 h g x).1)
        have h2 := congrArg List.length hs'
        simp only [List.length_map] at this h2
        rw [this, h2, hl.1]
      rw [dots_append _ _ _ _ hcl, waverec_append _ _ _ _ hc', ih _ c' (by rw [hl.1]; exact hs')]
      have htrim : (if (waverec h g c').length = d.length + 1 then (waverec h g c').dropLast
          else waverec h g c') = (waverec h g c').take (dwt1 h g x).1.length := by
        rw [hl.1]
        split_ifs with h1
        · rw [List.dropLast_eq_take, h1, hd]; rfl
        · rw [List.take_of_length_le]
          rw [hlen] at h1 ⊢
          split_ifs at h1 ⊢ with h2
          · exact le_refl _
          · unfold dwtLen at *; omega
      rw [htrim, ← dot_take _ (waverec h g c')]
      apply dwt1_adjoint h g x _ d _ _ hpos
      · rw [List.length_take, hl.1, hlen]
        split_ifs with h2
        · simp
        · unfold dwtLen; omega
      · rw [List.length_take, hl.1, hlen, hd]
        split_ifs with h2
        · simp
        · unfold dwtLen; omega

/-! ### (2') the full 1-D sigpy pipeline: pad to even, `wavedec`, pack | unpack, `waverec`, centre crop -/

/-- `fwt`'s padding on a list: `util.resize(x, [zshape])` (C09 model with the generated default shifts and the
    generated `zshape`) returns `x` for even length and `0 :: x` — the extra zero in FRONT — for odd length
    (list form of `pad_extra_zero_in_front`). -/
theorem pad_list (x : List R) :
    (C09.resize [(x.length : Int)] [Gen.waveZshapeFwt x.length] none none x.toArray).toList
      = if x.length % 2 = 0 then x else 0 :: x := by
  rw [resize1d]
  have hz := zshape_spec (x.length : Int)
  by_cases hev : x.length % 2 = 0
  · rw [if_pos (by omega), if_pos hev]
  · rw [if_neg (by omega), if_neg hev]
    apply List.ext_getElem
    · simp; omega
    · intro k h1 h2
      simp only [List.getElem_map, List.getElem_range]
      have key := pad_extra_zero_in_front (x.length : Int) (k : Int)
      change (match padSrc (x.length : Int) (k : Int) with
        | some j => x.getD j.toNat 0
        | none => 0) = _
      cases hp : padSrc (x.length : Int) (k : Int) with
      | none =>
        cases k with
        | zero => rfl
        | succ k =>
          exfalso
          have := (key (k : Int)).mpr ⟨by omega, by simp at h2; omega, by push_cast; omega⟩
          rw [hp] at this; exact absurd this (by simp)
      | some j =>
        have := (key j).mp hp
        cases k with
        | zero => omega
        | succ k =>
          have hj : j.toNat = k := by omega
          have hk : k < x.length := by simpa using h2
          simp [hj, List.getElem?_eq_getElem hk]


/-- `iwt`'s final `util.resize(y, [n])` on a list of the padded length: `y` itself for even `n`, `y` without
    its FIRST sample for odd `n` (list form of `crop_is_pad_adjoint` + `pad_extra_zero_in_front`). -/
theorem crop_list (y : List R) (n : ℕ) (hy : (y.length : Int) = Gen.waveZshapeShape n) :
    (C09.resize [(y.length : Int)] [(n : Int)] none none y.toArray).toList
      = if n % 2 = 0 then y else y.drop 1 := by
  rw [resize1d]
  have hz := zshape_spec (n : Int)
  have hzz : Gen.waveZshapeShape (n : Int) = Gen.waveZshapeFwt n := zshape_sites_agree _
  by_cases hev : n % 2 = 0
  · rw [if_pos (by omega), if_pos hev]
  · rw [if_neg (by omega), if_neg hev]
    apply List.ext_getElem
    · simp; omega
    · intro j h1 h2
      simp only [List.getElem_map, List.getElem_range]
      have key := fun k => (crop_is_pad_adjoint (n : Int) k (j : Int)).symm.trans (pad_extra_zero_in_front (n : Int) k (j : Int))
      rw [hy]
      change (match cropSrc (n : Int) (j : Int) with
        | some k => y.getD k.toNat 0
        | none => 0) = _
      have hj : j < n := by simp at h2; omega
      have hk : j + 1 < y.length := by omega
      have := (key ((j : Int) + 1)).mpr ⟨by omega, by omega, by omega⟩
      rw [this]
      simp [List.getElem?_eq_getElem hk]

/-- **C10 perfect reconstruction, full 1-D pipeline.**  `iwt(fwt(x)) = x` for every length (odd included),
    every level count (`level=None` → PyWavelets' max level) and every even-length filter pair satisfying
    completeness: pad to even with the zero in front, `wavedec`, concatenate, split with the slices computed
    from the padded length, `waverec` (trimming rule), centre crop.  Both `zshape` formulas (`fwt`'s and
    `get_wavelet_shape`'s) enter: the proof breaks if they differ. -/
theorem fwt1_iwt1_id (h g : List R) (hL : g.length = h.length) (hev : h.length % 2 = 0)
    (hpos : 0 < h.length) (hc : Complete (ofList h) (ofList g)) (level : Option ℕ) (x : List R) :
    iwt1 h g level x.length (fwt1 h g level x) = x := by
  unfold iwt1 fwt1
  simp only []
  rw [pad_list]
  have hz := zshape_spec (x.length : Int)
  have hzz : Gen.waveZshapeShape (x.length : Int) = Gen.waveZshapeFwt x.length := zshape_sites_agree _
  generalize hxz : (if x.length % 2 = 0 then x else 0 :: x) = xz
  have hlen : (Gen.waveZshapeFwt (x.length : Int)).toNat = xz.length := by
    rw [← hxz]; split_ifs <;> (try simp only [List.length_cons]) <;> omega
  rw [hzz, hlen, ← wavedec_map_length h g, splitLens_flatten,
    wavedec_perfect_reconstruction h g hL hev hpos hc _ _ (by omega)]
  rw [crop_list xz x.length (by rw [hzz]; omega), ← hxz]
  split_ifs <;> simp

/-- **C10 isometry, full 1-D pipeline.**  `‖fwt x‖² = ‖x‖²` for every length and level. -/
theorem fwt1_isometry (h g : List R) (hL : g.length = h.length) (hc : Complete (ofList h) (ofList g))
    (level : Option ℕ) (x : List R) : nsq (fwt1 h g level x) = nsq x := by
  unfold fwt1
  simp only []
  rw [pad_list, wavedec_packed_isometry h g hL hc]
  split_ifs
  · rfl
  · simp [nsq]

/-- **C10 advertised shape, 1-D.**  `len(fwt(x))` is the packed length computed from the padded length — the
    formula `waveShape` (= `Wavelet.oshape`, by correspondence) uses on a transformed axis. -/
theorem fwt1_length (h g : List R) (level : Option ℕ) (x : List R) :
    (fwt1 h g level x).length
      = packedLen (zlen x.length) h.length (level.getD (maxLevel (zlen x.length) h.length)) := by
  unfold fwt1 packedLen zlen
  simp only []
  rw [List.length_flatten, wavedec_map_length, pad_list]
  have hz := zshape_spec (x.length : Int)
  have hlen : (if x.length % 2 = 0 then x else 0 :: x).length = (Gen.waveZshapeFwt (x.length : Int)).toNat := by
    split_ifs <;> (try simp only [List.length_cons]) <;> omega
  rw [hlen]

/-- **C10 adjoint, full 1-D pipeline.**  `⟨fwt x, c⟩ = ⟨x, iwt c⟩` for ARBITRARY coefficient arrays `c` of the
    advertised length, ANY filter pair of even length: `iwt = fwtᴴ` including crop = padᴴ, unpack = packᴴ and
    the trimming rule. -/
theorem iwt1_is_adjoint (h g : List R) (hev : h.length % 2 = 0) (hpos : 0 < h.length)
    (level : Option ℕ) (x c : List R)
    (hcl : c.length = packedLen (zlen x.length) h.length (level.getD (maxLevel (zlen x.length) h.length))) :
    dot (fwt1 h g level x) c = dot x (iwt1 h g level x.length c) := by
  unfold packedLen zlen at hcl
  unfold iwt1 fwt1
  simp only []
  rw [pad_list]
  have hz := zshape_spec (x.length : Int)
  have hzz : Gen.waveZshapeShape (x.length : Int) = Gen.waveZshapeFwt x.length := zshape_sites_agree _
  generalize hxz : (if x.length % 2 = 0 then x else 0 :: x) = xz
  have hlen : (Gen.waveZshapeFwt (x.length : Int)).toNat = xz.length := by
    rw [← hxz]; split_ifs <;> (try simp only [List.length_cons]) <;> omega
  rw [hlen] at hcl
  rw [hzz, hlen]
  generalize hJ : level.getD (maxLevel xz.length h.length) = J at *
  have hsp := splitLens_map_length _ c hcl
  have hy := waverec_length h g hpos J xz.length _ hsp
  have hy' : (waverec h g (splitLens (coeffLens xz.length h.length J) c)).length = xz.length := by
    rw [hy]; split_ifs
    · rfl
    · unfold dwtLen; omega
  conv_lhs => rw [← flatten_splitLens _ c hcl]
  rw [dot_flatten _ _ (by rw [wavedec_map_length, hsp]), wavedec_adjoint h g hpos J xz _ hsp]
  generalize waverec h g (splitLens (coeffLens xz.length h.length J) c) = y at *
  rw [crop_list y x.length (by rw [hzz, hy']; omega), ← hxz]
  split_ifs with h0
  · rfl
  · cases y with
    | nil => simp at hy'; omega
    | cons b y => simp [dot]

/-! ### (3') separable N-d transform at level 1 as a composition of per-axis maps (arbitrary list of axes) -/

/- `level1Map`, `padMap` are defined in Model/C10Nd.lean (core, executed) -/

theorem level1Map_isIso {L : ℕ} {h g : ℤ → R} (hh : SupportedOn L h) (hg : SupportedOn L g)
    (hc : Complete h g) : (level1Map h g L).IsIso := by
  intro N x
  have key := qmf_isometry_1level hh hg hc (M := dwtLen N L) (N := N) (by unfold dwtLen; omega) x
  simp only [sumN_eq_sum] at key
  simp only [level1Map]
  rw [two_mul, sum_range_add, ← key]
  congr 1
  · apply sum_congr rfl; intro k hk
    rw [if_pos (mem_range.mp hk)]
  · apply sum_congr rfl; intro k _
    rw [if_neg (by omega), Nat.add_sub_cancel_left]

theorem level1Map_isAdj (h g : ℤ → R) (L : ℕ) : (level1Map h g L).IsAdj := by
  intro N x c
  have key := synthesis_is_adjoint h g N (dwtLen N L) x c (fun k => c (dwtLen N L + k))
  simp only [sumN_eq_sum] at key
  simp only [level1Map]
  rw [two_mul, sum_range_add, ← key]
  congr 1
  · apply sum_congr rfl; intro k hk
    rw [if_pos (mem_range.mp hk)]
  · apply sum_congr rfl; intro k _
    rw [if_neg (by omega), Nat.add_sub_cancel_left]

theorem level1Map_isInv {L : ℕ} {h g : ℤ → R} (hh : SupportedOn L h) (hg : SupportedOn L g)
    (hc : Complete h g) : (level1Map h g L).IsInv := by
  constructor
  · intro N x n hn
    simp only [level1Map]
    rw [← qmf_perfect_reconstruction hh hg hc (M := dwtLen N L) (N := N) (by unfold dwtLen; omega) x hn]
    apply syn_congr
    · intro k hk; rw [if_pos hk]
    · intro k _; rw [if_neg (by omega), Nat.add_sub_cancel_left]
  · intro N c c' hcc n _
    simp only [level1Map] at hcc ⊢
    apply syn_congr
    · intro k hk; exact hcc k (by omega)
    · intro k hk; exact hcc _ (by omega)

theorem padMap_isIso : (padMap : AxisMap R).IsIso := by
  intro N x
  simp only [padMap]
  rcases Nat.mod_two_eq_zero_or_one N with h0 | h1
  · simp [h0]
  · rw [h1, sum_range_succ']
    simp

theorem padMap_isAdj : (padMap : AxisMap R).IsAdj := by
  intro N x c
  simp only [padMap]
  rcases Nat.mod_two_eq_zero_or_one N with h0 | h1
  · simp [h0]
  · rw [h1, sum_range_succ']
    simp

theorem padMap_isInv : (padMap : AxisMap R).IsInv := by
  constructor
  · intro N x n _
    simp only [padMap]
    rcases Nat.mod_two_eq_zero_or_one N with h0 | h1
    · simp [h0]
    · simp [h1]
  · intro N c c' hcc n hn
    simp only [padMap] at *
    exact hcc _ (by omega)


/-- the steps of `sigpy.fwt(x, axes, level=1)` on an array of rank `d`: every axis is padded to even, then one
    filter-bank level runs along each axis of `axes` in turn (separable transform) -/
def fwtnSteps (h g : ℤ → R) (L d : ℕ) (axes : List ℕ) : List (ℕ × AxisMap R) :=
  (List.range d).map (fun a => (a, padMap)) ++ axes.map (fun a => (a, level1Map h g L))

/-- `sigpy.fwt(X, axes, level=1)` / `sigpy.iwt(C, …, level=1)` as compositions of per-axis maps, and the
    coefficient shape -/
def fwtnLevel1 (h g : ℤ → R) (L : ℕ) (axes shape : List ℕ) (X : List ℕ → R) : List ℕ → R :=
  applyAxes (fwtnSteps h g L shape.length axes) shape X
def iwtnLevel1 (h g : ℤ → R) (L : ℕ) (axes shape : List ℕ) (C : List ℕ → R) : List ℕ → R :=
  unapplyAxes (fwtnSteps h g L shape.length axes) shape C
def fwtnShape (h g : ℤ → R) (L : ℕ) (axes shape : List ℕ) : List ℕ :=
  shapeAxes (fwtnSteps h g L shape.length axes) shape

theorem fwtnSteps_ok (h g : ℤ → R) (L : ℕ) (axes shape : List ℕ) (hax : ∀ a ∈ axes, a < shape.length)
    (P : AxisMap R → Prop) (hp : P padMap) (hl : P (level1Map h g L)) :
    ∀ s ∈ fwtnSteps h g L shape.length axes, s.1 < shape.length ∧ P s.2 := by
  intro s hs
  simp only [fwtnSteps, List.mem_append, List.mem_map, List.mem_range] at hs
  rcases hs with ⟨a, ha, rfl⟩ | ⟨a, ha, rfl⟩
  · exact ⟨ha, hp⟩
  · exact ⟨hax a ha, hl⟩

/-- **C10 isometry, N-d, level 1, arbitrary list of axes.**  `‖fwt X‖² = ‖X‖²` summed over the boxes. -/
theorem fwtn_level1_isometry {L : ℕ} {h g : ℤ → R} (hh : SupportedOn L h) (hg : SupportedOn L g)
    (hc : Complete h g) (axes shape : List ℕ) (hax : ∀ a ∈ axes, a < shape.length) (X : List ℕ → R) :
    boxSum (fwtnShape h g L axes shape) (fun idx => fwtnLevel1 h g L axes shape X idx ^ 2)
      = boxSum shape (fun idx => X idx ^ 2) :=
  applyAxes_isometry _ shape X
    (fwtnSteps_ok h g L axes shape hax AxisMap.IsIso padMap_isIso (level1Map_isIso hh hg hc))

/-- **C10 adjoint, N-d, level 1, arbitrary list of axes, ANY filters, ARBITRARY coefficient arrays.** -/
theorem fwtn_level1_adjoint (h g : ℤ → R) (L : ℕ) (axes shape : List ℕ) (hax : ∀ a ∈ axes, a < shape.length)
    (X C : List ℕ → R) :
    boxSum (fwtnShape h g L axes shape) (fun idx => fwtnLevel1 h g L axes shape X idx * C idx)
      = boxSum shape (fun idx => X idx * iwtnLevel1 h g L axes shape C idx) :=
  applyAxes_adjoint _ shape X C
    (fwtnSteps_ok h g L axes shape hax AxisMap.IsAdj padMap_isAdj (level1Map_isAdj h g L))

/-- **C10 perfect reconstruction, N-d, level 1, arbitrary list of axes**: at every multi-index of the box. -/
theorem fwtn_level1_pr {L : ℕ} {h g : ℤ → R} (hh : SupportedOn L h) (hg : SupportedOn L g)
    (hc : Complete h g) (axes shape : List ℕ) (hax : ∀ a ∈ axes, a < shape.length) (X : List ℕ → R)
    (idx : List ℕ) (hidx : InBox shape idx) :
    iwtnLevel1 h g L axes shape (fwtnLevel1 h g L axes shape X) idx = X idx :=
  applyAxes_left_inverse _ shape X idx
    (fwtnSteps_ok h g L axes shape hax AxisMap.IsInv padMap_isInv (level1Map_isInv hh hg hc)) hidx

/-- the coefficient shape: transformed axes get `2⌊(z+L-1)/2⌋` with `z` the padded length, the others `z` -/
example (h g : ℤ → R) : fwtnShape h g 4 [1] [5, 7] = [6, 10] ∧ fwtnShape h g 2 [0, 1] [3, 4] = [4, 4] := by
  constructor <;> simp [fwtnShape, fwtnSteps, shapeAxes, padMap, level1Map, dwtLen, List.range_succ]


/-! ### (4') `Complete` is not an independent hypothesis: it follows from the orthonormality of the low-pass
    filter when the high-pass filter is its alternating flip (checked exactly for every pywt wavelet) -/

/-- **Completeness from the orthonormality sums of `h` alone.**  If `h` has even length `L`, its even shifts
    are orthonormal (`Σ_n h[n]h[n+2m] = δ_m`) and `g` is the alternating flip of `h`, then the two-channel bank
    is complete (resolution of the identity) — pure index algebra: parity split and re-indexing. -/
theorem complete_of_qmf_pair {L : ℕ} {h : ℤ → R} (hh : SupportedOn L h) (hev : L % 2 = 0)
    (ho : ∀ m : ℤ, (∑ᶠ n : ℤ, h n * h (n + 2 * m)) = if m = 0 then 1 else 0)
    (s : R) (hs : s * s = 1) : Complete h (altFlip s L h) := by
  intro n n'
  -- the summand, with the `g` part expressed through `h`
  have hterm : ∀ k : ℤ, h (2 * k + 1 - n) * h (2 * k + 1 - n')
        + altFlip s L h (2 * k + 1 - n) * altFlip s L h (2 * k + 1 - n')
      = h (2 * k + 1 - n) * h (2 * k + 1 - n')
        + (if (n + n') % 2 = 0 then (1 : R) else -1) * (h ((L : ℤ) - 2 + n - 2 * k) * h ((L : ℤ) - 2 + n' - 2 * k)) := by
    intro k
    unfold altFlip
    have e1 : (L : ℤ) - 1 - (2 * k + 1 - n) = (L : ℤ) - 2 + n - 2 * k := by ring
    have e2 : (L : ℤ) - 1 - (2 * k + 1 - n') = (L : ℤ) - 2 + n' - 2 * k := by ring
    rw [e1, e2]
    have e3 : (sgn (2 * k + 1 - n) * sgn (2 * k + 1 - n') : R) = if (n + n') % 2 = 0 then 1 else -1 := by
      rw [sgn_mul_sgn]
      split_ifs <;> first | rfl | omega
    calc _ = h (2 * k + 1 - n) * h (2 * k + 1 - n') + (s * s) * (sgn (2 * k + 1 - n) * sgn (2 * k + 1 - n'))
              * (h ((L : ℤ) - 2 + n - 2 * k) * h ((L : ℤ) - 2 + n' - 2 * k)) := by ring
      _ = _ := by rw [hs, e3, one_mul]
  rw [finsum_congr hterm]
  have fA : (Function.support fun k : ℤ => h (2 * k + 1 - n) * h (2 * k + 1 - n')).Finite :=
    finite_support_of_bound _ ((n - 1) / 2 - 1) ((L + n) / 2 + 1) (fun k hk => by rw [hh _ (by omega)]; ring)
  have fB : ∀ c : R, (Function.support fun k : ℤ =>
      c * (h ((L : ℤ) - 2 + n - 2 * k) * h ((L : ℤ) - 2 + n' - 2 * k))).Finite := fun c =>
    finite_support_of_bound _ ((n - 2) / 2 - 1) ((L + n) / 2 + 1) (fun k hk => by rw [hh _ (by omega)]; ring)
  rw [finsum_add_distrib fA (fB _)]
  rcases Int.emod_two_eq_zero_or_one (n + n') with hpar | hpar
  · -- same parity: n' = n + 2m
    obtain ⟨m, hm⟩ : ∃ m : ℤ, n' = n + 2 * m := ⟨(n' - n) / 2, by omega⟩
    subst hm
    rw [if_pos hpar]
    simp only [one_mul]
    set F : ℤ → R := fun j => h j * h (j + 2 * m) with hF
    have hFfin : (Function.support F).Finite :=
      finite_support_of_bound _ (-1) (L + 1) (fun k hk => by simp only [hF]; rw [hh _ (by omega)]; ring)
    have eA : (∑ᶠ k : ℤ, h (2 * k + 1 - n) * h (2 * k + 1 - (n + 2 * m)))
        = ∑ᶠ k : ℤ, F (2 * k + (1 - n - 2 * m)) := by
      apply finsum_congr; intro k
      simp only [hF]
      rw [mul_comm]
      congr 1 <;> (congr 1; ring)
    have eB : (∑ᶠ k : ℤ, h ((L : ℤ) - 2 + n - 2 * k) * h ((L : ℤ) - 2 + (n + 2 * m) - 2 * k))
        = ∑ᶠ k : ℤ, F (2 * k + ((L : ℤ) - 2 + n)) := by
      rw [← finsum_flip2]
      apply finsum_congr; intro k
      simp only [hF]
      congr 1; congr 1; ring
    rw [eA, eB]
    have hd : (if n = n + 2 * m then (1 : R) else 0) = if m = 0 then 1 else 0 := by
      split_ifs <;> first | rfl | omega
    rw [hd, ← ho m, finsum_even_odd F hFfin]
    rcases Int.emod_two_eq_zero_or_one n with hn | hn
    · have e1 : 1 - n - 2 * m = 1 + 2 * ((1 - n - 2 * m - 1) / 2) := by omega
      have e2 : (L : ℤ) - 2 + n = 0 + 2 * (((L : ℤ) - 2 + n) / 2) := by omega
      rw [e1, e2, finsum_shift2, finsum_shift2, add_comm]
    · have e1 : 1 - n - 2 * m = 0 + 2 * ((1 - n - 2 * m) / 2) := by omega
      have e2 : (L : ℤ) - 2 + n = 1 + 2 * (((L : ℤ) - 2 + n - 1) / 2) := by omega
      rw [e1, e2, finsum_shift2, finsum_shift2]
  · -- different parity: the two sums cancel
    have hne : n ≠ n' := by omega
    rw [if_neg (by omega), if_neg hne]
    simp only [neg_mul, one_mul]
    rw [finsum_neg_distrib]
    set G : ℤ → R := fun j => h j * h (j + (n' - n)) with hG
    have eA : (∑ᶠ k : ℤ, h (2 * k + 1 - n) * h (2 * k + 1 - n')) = ∑ᶠ k : ℤ, G (2 * k + (1 - n')) := by
      apply finsum_congr; intro k
      simp only [hG]
      rw [mul_comm]
      congr 1 <;> (congr 1; ring)
    have eB : (∑ᶠ k : ℤ, h ((L : ℤ) - 2 + n - 2 * k) * h ((L : ℤ) - 2 + n' - 2 * k))
        = ∑ᶠ k : ℤ, G (2 * k + ((L : ℤ) - 2 + n)) := by
      rw [← finsum_flip2]
      apply finsum_congr; intro k
      simp only [hG]
      congr 1; congr 1; ring
    have e2 : (L : ℤ) - 2 + n = (1 - n') + 2 * (((L : ℤ) - 3 + n + n') / 2) := by omega
    rw [eA, eB, e2, finsum_shift2, add_neg_cancel]


/-- orthonormality of the even shifts of the low-pass filter alone: `Σ_n h[n]·h[n+2m] = δ_m` -/
def OrthonormalLo (h : ℤ → R) : Prop := ∀ m : ℤ, (∑ᶠ n : ℤ, h n * h (n + 2 * m)) = if m = 0 then 1 else 0

/-- list form: for a low-pass filter of even length with orthonormal even shifts, the pair
    `(dec_lo, alternating flip of dec_lo)` — which is what every orthogonal PyWavelets wavelet is, exactly
    (correspondence stream `filters`, `s = -1`) — is complete. -/
theorem complete_of_orthonormal_lo (h : List R) (hev : h.length % 2 = 0) (ho : OrthonormalLo (ofList h))
    (s : R) (hs : s * s = 1) : Complete (ofList h) (ofList (altFlipL s h)) := by
  rw [ofList_altFlipL]
  exact complete_of_qmf_pair (supportedOn_ofList h) hev ho s hs

/-- **C10, full 1-D pipeline, from the orthonormality of `dec_lo` alone**: perfect reconstruction, isometry
    (and `iwt1_is_adjoint`, which needs no filter hypothesis) for `dec_hi` = alternating flip of `dec_lo`. -/
theorem fwt1_iwt1_id_qmf (h : List R) (hev : h.length % 2 = 0) (hpos : 0 < h.length)
    (ho : OrthonormalLo (ofList h)) (s : R) (hs : s * s = 1) (level : Option ℕ) (x : List R) :
    iwt1 h (altFlipL s h) level x.length (fwt1 h (altFlipL s h) level x) = x :=
  fwt1_iwt1_id h _ (altFlipL_length s h) hev hpos (complete_of_orthonormal_lo h hev ho s hs) level x

theorem fwt1_isometry_qmf (h : List R) (hev : h.length % 2 = 0)
    (ho : OrthonormalLo (ofList h)) (s : R) (hs : s * s = 1) (level : Option ℕ) (x : List R) :
    nsq (fwt1 h (altFlipL s h) level x) = nsq x :=
  fwt1_isometry h _ (altFlipL_length s h) (complete_of_orthonormal_lo h hev ho s hs) level x

/-- non-vacuity: the Haar high-pass filter is the alternating flip (`s = -1`) of the Haar low-pass filter, and
    `complete_of_qmf_pair` reproves `haar_complete` from the orthonormality of the low-pass filter alone -/
example (s : R) (hs : 2 * (s * s) = 1) : Complete (haarLo s) (altFlip (-1) 2 (haarLo s)) :=
  complete_of_qmf_pair (haar_supported s).1 (by norm_num) (haar_orthonormal s hs).1 (-1) (by ring)

example (s : R) : altFlip (-1) 2 (haarLo s) = haarHi s := by
  funext j
  simp only [altFlip, haarLo, haarHi, sgn]
  split_ifs <;> first | omega | ring

/-- the list transform at level 1 on an even-length axis IS the per-axis map `level1Map` used in the N-d
    theorems (ties `fwtn_level1_*` to the executed `fwt1`, which the `separable` stream composes per axis) -/
theorem fwt1_level1_eq (h g x : List R) (hx : x.length % 2 = 0) :
    fwt1 h g (some 1) x = (List.range ((level1Map (ofList h) (ofList g) h.length).len x.length)).map
      ((level1Map (ofList h) (ofList g) h.length).fwd x.length (ofListN x)) := by
  unfold fwt1
  simp only [Option.getD_some]
  rw [pad_list, if_pos hx]
  simp only [wavedec, dwt1, level1Map, List.flatten_append, List.flatten_cons, List.flatten_nil, List.append_nil]
  rw [two_mul, List.range_add, List.map_append, List.map_map]
  congr 1
  · apply List.map_congr_left; intro k hk
    rw [if_pos (List.mem_range.mp hk)]
  · apply List.map_congr_left; intro k _
    simp only [Function.comp]
    rw [if_neg (by omega), Nat.add_sub_cancel_left]

/-! ### non-vacuity of the list-model and pipeline theorems: Haar as a list filter pair over ℝ -/

theorem ofList_haar (s : R) : ofList [s, s] = haarLo s ∧ ofList [-s, s] = haarHi s := by
  constructor <;> funext j
  all_goals
    simp only [ofList, haarLo, haarHi]
    by_cases h0 : j = 0
    · subst h0; simp
    · by_cases h1 : j = 1
      · subst h1; simp
      · by_cases hn : 0 ≤ j
        · obtain ⟨n, hn2⟩ : ∃ n, j.toNat = n + 2 := ⟨j.toNat - 2, by omega⟩
          simp [hn, hn2, h0, h1]
        · simp [hn, h0, h1]

/-- `sp.iwt(sp.fwt(x, 'haar')) = x`, `‖fwt x‖ = ‖x‖` in the model, every length, `level=None`
    (instances of `fwt1_iwt1_id`, `fwt1_isometry`) -/
example (x : List ℝ) :
    iwt1 [√2 / 2, √2 / 2] [-(√2 / 2), √2 / 2] none x.length (fwt1 [√2 / 2, √2 / 2] [-(√2 / 2), √2 / 2] none x) = x ∧
    nsq (fwt1 [√2 / 2, √2 / 2] [-(√2 / 2), √2 / 2] none x) = nsq x := by
  have hc : Complete (ofList [√2 / 2, √2 / 2]) (ofList [-(√2 / 2), √2 / 2] : ℤ → ℝ) := by
    rw [(ofList_haar _).1, (ofList_haar _).2]; exact haar_real.2.2.1
  exact ⟨fwt1_iwt1_id [√2 / 2, √2 / 2] [-(√2 / 2), √2 / 2] (by simp) (by simp) (by simp) hc none x,
    fwt1_isometry [√2 / 2, √2 / 2] [-(√2 / 2), √2 / 2] (by simp) hc none x⟩

/-- the odd-length case of the exact multi-level statement is not vacuous: three Haar levels of a length-5 signal
    reconstruct to the signal followed by one zero -/
example (x : List ℝ) (hx : x.length = 5) :
    waverec [√2 / 2, √2 / 2] [-(√2 / 2), √2 / 2] (wavedec [√2 / 2, √2 / 2] [-(√2 / 2), √2 / 2] 3 x) = x ++ [0] := by
  have hc : Complete (ofList [√2 / 2, √2 / 2]) (ofList [-(√2 / 2), √2 / 2] : ℤ → ℝ) := by
    rw [(ofList_haar _).1, (ofList_haar _).2]; exact haar_real.2.2.1
  rw [waverec_wavedec [√2 / 2, √2 / 2] [-(√2 / 2), √2 / 2] (by simp) (by simp) (by simp) hc, if_neg (by omega)]

end SigpyVerif.C10
