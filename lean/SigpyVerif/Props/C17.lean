import SigpyVerif.Model.C17
import Mathlib.Tactic.FieldSimp
import Mathlib.Tactic.NormNum
import SigpyVerif.Props.C09
import Mathlib.Analysis.InnerProductSpace.Basic
import Mathlib.Analysis.Complex.Basic
import Mathlib.Analysis.InnerProductSpace.Orthonormal
import Mathlib.Analysis.InnerProductSpace.PiL2
/-
  C17 — ESPIRiT maps: unit-norm or exactly zero, phase-referenced to coil 0, eigenvalue estimates of a
  Hermitian PSD Gram operator.

  Every theorem of the first part is about GENERATED definitions (`Gen/EspiritSteps.lean`, `Gen/EspiritFormulas.lean`,
  `Gen/C14Power.lean`; `Model/C17.lean` only names them), instantiated over ℂ by `cops`: `normalize_eq`, `pm_wiring`,
  `espirit_defaults`, `power_step_unit`, `power_run_succ`, `power_run_unit`, `phase_ref`, `phase_ref_norm`, `espirit_keeps_iff`,
  `espirit_tie_dropped`, `output_dropped`, `crop_dichotomy`, `espirit_voxel_output`, `gramTerm_eq`, `gram_entry_eq`; then
  `gram_symmetric`, `gram_psd`, `power_monotone`, `power_bounded`, `calib_index_map` / `_2d` / `_3d`, `espirit_scale`,
  `eig ≤ 1`: `bessel_gram_le`, `gram_quadratic_le`, `eig_le_one_of_orthonormal_kernels` (abstract) and
  `eig_le_one_espirit` (instantiated with the generated scale `N/kw^d`).  `Props/C17Power.lean`: the run for every
  iteration count (reusing `Props/C14Power.lean`); `Props/C17Dft.lean`: the DFT hypotheses of `eig_le_one_espirit` proved,
  leaving numpy's SVD contract (orthonormal rows of `VH`) as the only numerical hypothesis.
  NOT theorems (numerical / depends on smoothness and calibration size): orthonormality of the SVD output, the
  float power iteration reaching the eigenvalue, recovery of the true maps; they are checked by
  correspondence / the search oracle only.
-/
namespace SigpyVerif.C17
open SigpyVerif

/-- the scalar operations of the code over ℂ -/
noncomputable def cops : COps ℂ where
  zero := 0
  add := (· + ·)
  mul := (· * ·)
  conj := starRingEnd ℂ
  abs z := ((‖z‖ : ℝ) : ℂ)
  sqrt z := ((Real.sqrt z.re : ℝ) : ℂ)
  div := (· / ·)
  gt a b := decide (a.re > b.re)
  ofBool b := if b then 1 else 0

/-- `Σ_c |x_c|²` -/
noncomputable def sumSq (x : List ℂ) : ℝ := (x.map fun z => ‖z‖ ^ 2).sum

theorem sumSq_nonneg (x : List ℂ) : 0 ≤ sumSq x := by
  unfold sumSq
  induction x with
  | nil => simp
  | cons a l ih => simp only [List.map_cons, List.sum_cons]; positivity

theorem csum_eq_sum (l : List ℂ) : csum cops l = l.sum := by
  unfold csum
  induction l with
  | nil => simp [cops]
  | cons a l ih => simp only [List.foldr_cons, List.sum_cons, ih]; rfl

/-- literal powers of the generated code over ℂ -/
theorem cpow_eq (z : ℂ) (p : Nat) : cpow cops z p = z ^ p := by
  unfold cpow
  induction p with
  | zero => simp [cops]
  | succ p ih => rw [List.replicate_succ, List.foldr_cons, ih, pow_succ, mul_comm]; rfl

theorem sum_map_ofReal (x : List ℂ) (f : ℂ → ℝ) : (x.map fun z => ((f z : ℝ) : ℂ)).sum = (((x.map f).sum : ℝ) : ℂ) := by
  induction x with
  | nil => simp
  | cons a l ih => simp only [List.map_cons, List.sum_cons, ih]; push_cast; rfl

/-- **normalize_eq.** The GENERATED `normalize` (`sum(abs(x)**2, axis=coils, keepdims=True) ** 0.5` at one voxel) is
    the ℓ2 norm across coils. -/
theorem normalize_eq (x : List ℂ) : normalize cops x = ((Real.sqrt (sumSq x) : ℝ) : ℂ) := by
  have h : (fun v : ℂ => cpow cops (cops.abs v) 2) = fun v => (((‖v‖ ^ 2 : ℝ)) : ℂ) := by
    funext v; rw [cpow_eq]; simp [cops]
  simp only [normalize, Gen.Espirit.normalize, List.map_map, Function.comp_def, csum_eq_sum, h, sum_map_ofReal]
  simp [cops, sumSq]

theorem sumSq_map_div (y : List ℂ) (N : ℝ) :
    sumSq (y.map fun v => cops.div v ((N : ℝ) : ℂ)) = sumSq y / N ^ 2 := by
  unfold sumSq
  induction y with
  | nil => simp
  | cons a l ih =>
    simp only [List.map_cons, List.sum_cons, ih]
    have : ‖cops.div a ((N : ℝ) : ℂ)‖ ^ 2 = ‖a‖ ^ 2 / N ^ 2 := by
      simp [cops, div_pow]
    rw [this]; ring

/-- the operator, norm function, start vector and budget `EspiritCalib` hands to `PowerMethod` (as generated) -/
theorem pm_wiring (AHA : List (List ℂ)) (nc : Nat) (mi : Int) :
    Gen.Espirit.pmOperator cops AHA = matVec cops AHA ∧ Gen.Espirit.pmNormFunc cops = some (normalize cops) ∧
    Gen.Espirit.pmStart cops nc = List.replicate nc 1 ∧ Gen.Espirit.pmMaxIter mi = mi ∧ Gen.Espirit.defaultMaxIter = 100 := by
  refine ⟨rfl, rfl, ?_, rfl, rfl⟩
  simp [Gen.Espirit.pmStart, Gen.Espirit.initMps, cops]

/-- the signature defaults, as generated -/
theorem espirit_defaults : Gen.Espirit.defaultCalibWidth = 24 ∧ Gen.Espirit.defaultKernelWidth = 6 ∧
    Gen.Espirit.defaultThresh = 2 / 100 ∧ Gen.Espirit.defaultCrop = 95 / 100 ∧ Gen.Espirit.defaultMaxIter = 100 := by
  refine ⟨rfl, rfl, ?_, ?_, rfl⟩
  · unfold Gen.Espirit.defaultThresh; norm_num
  · unfold Gen.Espirit.defaultCrop; norm_num

/-- **power_step_unit.** One update of the GENERATED `PowerMethod._update` with `EspiritCalib`'s generated operator
    and norm function, `x ↦ Gx/‖Gx‖₂`, returns a vector of unit ℓ2 norm across coils whenever `Gx ≠ 0`, and the
    eigenvalue estimate is `‖Gx‖₂ > 0`. -/
theorem power_step_unit (G : List (List ℂ)) (x : List ℂ) (h : sumSq (matVec cops G x) ≠ 0) :
    sumSq (powerStep cops G x).1 = 1 ∧
    (powerStep cops G x).2 = ((Real.sqrt (sumSq (matVec cops G x)) : ℝ) : ℂ) ∧
    0 < Real.sqrt (sumSq (matVec cops G x)) := by
  have hpos : 0 < sumSq (matVec cops G x) := lt_of_le_of_ne (sumSq_nonneg _) (Ne.symm h)
  have hs : 0 < Real.sqrt (sumSq (matVec cops G x)) := Real.sqrt_pos.mpr hpos
  have hn := normalize_eq (matVec cops G x)
  simp only [normalize] at hn
  refine ⟨?_, ?_, hs⟩
  · simp only [powerStep, Gen.C14.pmUpdate, Gen.C14.pmUpdate_, Gen.C14.pmInit, Gen.Espirit.pmNormFunc, Gen.Espirit.pmOperator,
      Gen.Espirit.forward, voxOps, hn]
    rw [sumSq_map_div, Real.sq_sqrt (le_of_lt hpos)]
    exact div_self h
  · simp only [powerStep, Gen.C14.pmUpdate, Gen.C14.pmUpdate_, Gen.C14.pmInit, Gen.Espirit.pmNormFunc, Gen.Espirit.pmOperator,
      Gen.Espirit.forward, hn]

/-- every state of the per-voxel run after the first update: the iterate is `G x_k / ‖G x_k‖₂`, the estimate `‖G x_k‖₂`
    (the GENERATED step unfolded once; `powerRun` iterates it from the generated start vector) -/
theorem power_run_succ (G : List (List ℂ)) (nc k : Nat) :
    (powerRun cops G nc (k + 1)).x = (powerStep cops G (powerRun cops G nc k).x).1 ∧
    (powerRun cops G nc (k + 1)).maxEig = some (powerStep cops G (powerRun cops G nc k).x).2 ∧
    (powerRun cops G nc (k + 1)).iter = (powerRun cops G nc k).iter + 1 := ⟨rfl, rfl, rfl⟩

/-- **power_run_unit.** At every voxel, after every update of the run the iterate `self.mps` has unit ℓ2 norm across
    coils, provided that update did not divide by zero (`G x_k ≠ 0`). -/
theorem power_run_unit (G : List (List ℂ)) (nc k : Nat) (h : sumSq (matVec cops G (powerRun cops G nc k).x) ≠ 0) :
    sumSq (powerRun cops G nc (k + 1)).x = 1 := by
  rw [(power_run_succ G nc k).1]
  exact (power_step_unit G _ h).1

/-- the GENERATED Gram term of one kernel (`aH @ conj(aHᵀ)`): entry `(i, j)` is `v_i · conj v_j` -/
theorem gramTerm_eq (v : List ℂ) (i j : Nat) :
    Gen.Espirit.gramTerm cops v i j = v.getD i 0 * (starRingEnd ℂ) (v.getD j 0) := rfl

/-- entry `(i, j)` of the model's `AHA[q]`: `scale · Σ_k v_k[i] · conj v_k[j]` — the matrix of `gramOp` (`c · Σ_k v_k v_kᴴ`) -/
theorem gram_entry_eq (scale : ℂ) (vs : List (List ℂ)) (nc i j : Nat) (hi : i < nc) (hj : j < nc) :
    ((gram cops scale vs nc).getD i []).getD j 0 = scale * (vs.map fun v => v.getD i 0 * (starRingEnd ℂ) (v.getD j 0)).sum := by
  simp only [gram, csum_eq_sum, gramTerm_eq]
  simp [List.getD_eq_getElem?_getD, hi, hj, cops]


theorem sumSq_map_mul_unit (l : List ℂ) (u : ℂ) (hu : ‖u‖ = 1) : sumSq (l.map (· * u)) = sumSq l := by
  unfold sumSq
  simp [List.map_map, Function.comp_def, hu]

/-- **phase_ref.** For `m₀ ≠ 0` the GENERATED `_output` of a kept voxel multiplies every coil by one unimodular number
    `u`; coil 0 becomes `|m₀|` (real, `≥ 0`) and every coil's modulus — hence the ℓ2 norm — is unchanged. -/
theorem phase_ref (m₀ : ℂ) (rest : List ℂ) (h : m₀ ≠ 0) :
    ∃ u : ℂ, ‖u‖ = 1 ∧ output cops true (m₀ :: rest) = ((‖m₀‖ : ℝ) : ℂ) :: rest.map (· * u) := by
  have hn : (‖m₀‖ : ℝ) ≠ 0 := norm_ne_zero_iff.mpr h
  have hnc : ((‖m₀‖ : ℝ) : ℂ) ≠ 0 := by exact_mod_cast hn
  refine ⟨(starRingEnd ℂ) m₀ / ((‖m₀‖ : ℝ) : ℂ), ?_, ?_⟩
  · rw [norm_div, RCLike.norm_conj, Complex.norm_real, norm_norm, div_self hn]
  · have key : m₀ * ((starRingEnd ℂ) m₀ / ((‖m₀‖ : ℝ) : ℂ)) = ((‖m₀‖ : ℝ) : ℂ) := by
      rw [mul_div_assoc', Complex.mul_conj, Complex.normSq_eq_norm_sq]
      push_cast
      field_simp
    simp only [output, Gen.Espirit.output, cops, List.getD_cons_zero, List.map_cons, List.map_map, Function.comp_def,
      map_div₀, Complex.conj_ofReal, if_true, mul_one, key]

/-- the phase reference preserves the ℓ2 norm across coils -/
theorem phase_ref_norm (m₀ : ℂ) (rest : List ℂ) (h : m₀ ≠ 0) :
    sumSq (output cops true (m₀ :: rest)) = sumSq (m₀ :: rest) := by
  obtain ⟨u, hu, he⟩ := phase_ref m₀ rest h
  rw [he]
  have := sumSq_map_mul_unit rest u hu
  unfold sumSq at *
  simp only [List.map_cons, List.sum_cons, this]
  simp

/-- the crop test of the source is the strict comparison `eig > crop` -/
theorem espirit_keeps_iff (e c : Rat) : Gen.espiritKeeps e c = true ↔ e > c := by
  unfold Gen.espiritKeeps; simp

/-- at a tie `eig = crop` the voxel is NOT kept (the property: zero where the eigenvalue does not exceed the threshold) -/
theorem espirit_tie_dropped (c : Rat) : Gen.espiritKeeps c c = false := by
  unfold Gen.espiritKeeps; simp

/-- a dropped voxel is EXACTLY zero, whatever the power iteration left there (also for `m₀ = 0`, where the phase
    factor is `0/0`: over ℂ `x * 0 = 0`; in floating point `nan * 0 = nan` — see the oracle's re-run finding) -/
theorem output_dropped (m : List ℂ) : output cops false m = m.map fun _ => 0 := by
  simp [output, Gen.Espirit.output, cops, List.map_map, Function.comp_def]

/-- **crop_dichotomy.** The GENERATED `_output` at a voxel is the phase-referenced vector when the voxel is kept
    (`eig > crop`) and EXACTLY zero otherwise; so for a unit-norm power-method vector with `m₀ ≠ 0` the
    result has unit norm with coil 0 equal to `|m₀| ≥ 0`, or is exactly 0. -/
theorem crop_dichotomy (keep : Bool) (m₀ : ℂ) (rest : List ℂ) (h : m₀ ≠ 0) (hunit : sumSq (m₀ :: rest) = 1) :
    (keep = true → sumSq (output cops keep (m₀ :: rest)) = 1 ∧
        (output cops keep (m₀ :: rest)).head? = some ((‖m₀‖ : ℝ) : ℂ)) ∧
    (keep = false → output cops keep (m₀ :: rest) = (m₀ :: rest).map fun _ => 0) := by
  constructor
  · rintro rfl
    rw [phase_ref_norm m₀ rest h, hunit]
    obtain ⟨u, _, he⟩ := phase_ref m₀ rest h
    exact ⟨rfl, by rw [he]; rfl⟩
  · rintro rfl
    exact output_dropped _

/-- **espirit_voxel_output.** The whole per-voxel statement for the GENERATED pipeline: run `k+1` updates of the generated
    power step on `AHA[q]`, then the generated `_output` with the generated crop test on rationals `eig`, `crop`.  If the last
    update did not divide by zero and the first coil of the iterate is non-zero, the returned vector is EXACTLY zero when
    `eig ≤ crop` (ties included) and otherwise has unit ℓ2 norm with a real non-negative first coil. -/
theorem espirit_voxel_output (G : List (List ℂ)) (nc k : Nat) (eig crop : Rat) (m₀ : ℂ) (rest : List ℂ)
    (hx : (powerRun cops G nc (k + 1)).x = m₀ :: rest) (h0 : m₀ ≠ 0)
    (hne : sumSq (matVec cops G (powerRun cops G nc k).x) ≠ 0) :
    (eig ≤ crop → output cops (Gen.espiritKeeps eig crop) (powerRun cops G nc (k + 1)).x = (m₀ :: rest).map fun _ => 0) ∧
    (crop < eig → sumSq (output cops (Gen.espiritKeeps eig crop) (powerRun cops G nc (k + 1)).x) = 1 ∧
      ∃ r : ℝ, 0 ≤ r ∧ (output cops (Gen.espiritKeeps eig crop) (powerRun cops G nc (k + 1)).x).head? = some (r : ℂ)) := by
  have hu := power_run_unit G nc k hne
  rw [hx] at hu ⊢
  have hd := crop_dichotomy (Gen.espiritKeeps eig crop) m₀ rest h0 hu
  constructor
  · intro hle
    have : Gen.espiritKeeps eig crop = false := by
      cases hk : Gen.espiritKeeps eig crop
      · rfl
      · exact absurd ((espirit_keeps_iff eig crop).mp hk) (not_lt.mpr hle)
    exact hd.2 this
  · intro hlt
    have hk : Gen.espiritKeeps eig crop = true := (espirit_keeps_iff eig crop).mpr hlt
    obtain ⟨h1, h2⟩ := hd.1 hk
    exact ⟨h1, ‖m₀‖, norm_nonneg _, h2⟩

/-! ### the Gram operator and the power iteration -/

section gram
variable {E : Type} [NormedAddCommGroup E] [InnerProductSpace ℂ E]
open scoped InnerProductSpace

/-- `G x = c · Σ_k ⟪v_k, x⟫ v_k`: the matrix `c · Σ_k v_k v_kᴴ` that `AHA += aH @ a; AHA *= c` builds -/
noncomputable def gramOp {ι : Type} (S : Finset ι) (v : ι → E) (c : ℝ) (x : E) : E :=
  (c : ℂ) • ∑ k ∈ S, ⟪v k, x⟫_ℂ • v k

/-- **gram_symmetric.** `G` is Hermitian. -/
theorem gram_symmetric {ι : Type} (S : Finset ι) (v : ι → E) (c : ℝ) (x y : E) :
    ⟪gramOp S v c x, y⟫_ℂ = ⟪x, gramOp S v c y⟫_ℂ := by
  unfold gramOp
  simp only [inner_smul_left, inner_smul_right, sum_inner, inner_sum, Complex.conj_ofReal]
  congr 1
  apply Finset.sum_congr rfl
  intro k _
  rw [inner_conj_symm]; ring

/-- **gram_psd.** `⟪G x, x⟫ = c · Σ_k |⟪v_k, x⟫|² ≥ 0` for `c ≥ 0`: the Gram operator is positive
    semidefinite, so every eigenvalue (and every power-method estimate) is `≥ 0`. -/
theorem gram_psd {ι : Type} (S : Finset ι) (v : ι → E) (c : ℝ) (hc : 0 ≤ c) (x : E) :
    ⟪gramOp S v c x, x⟫_ℂ = ((c * ∑ k ∈ S, ‖⟪v k, x⟫_ℂ‖ ^ 2 : ℝ) : ℂ) ∧ 0 ≤ c * ∑ k ∈ S, ‖⟪v k, x⟫_ℂ‖ ^ 2 := by
  constructor
  · unfold gramOp
    simp only [inner_smul_left, sum_inner, Complex.conj_ofReal]
    push_cast
    congr 1
    apply Finset.sum_congr rfl
    intro k _
    rw [← Complex.mul_conj', mul_comm]
  · apply mul_nonneg hc
    apply Finset.sum_nonneg
    intro k _; positivity

/-- **power_monotone.** For a Hermitian `T` and a unit vector `x` with `T x ≠ 0`, the next iterate
    `x' = T x / ‖T x‖` is a unit vector and the estimate does not decrease: `‖T x‖ ≤ ‖T x'‖`
    (Cauchy–Schwarz: `‖Tx‖² = ⟪T²x, x⟫ ≤ ‖T²x‖`).  Since every iterate after the first update is a unit
    vector, the estimates are non-decreasing from the second update on. -/
theorem power_monotone (T : E →ₗ[ℂ] E) (hT : ∀ x y, ⟪T x, y⟫_ℂ = ⟪x, T y⟫_ℂ) (x : E) (hx : ‖x‖ = 1) (h : T x ≠ 0) :
    ‖((‖T x‖⁻¹ : ℝ) : ℂ) • T x‖ = 1 ∧ ‖T x‖ ≤ ‖T (((‖T x‖⁻¹ : ℝ) : ℂ) • T x)‖ := by
  have hpos : 0 < ‖T x‖ := norm_pos_iff.mpr h
  constructor
  · rw [norm_smul, Complex.norm_real, norm_inv, norm_norm, inv_mul_cancel₀ (ne_of_gt hpos)]
  · rw [map_smul, norm_smul, Complex.norm_real, norm_inv, norm_norm]
    have key : ‖T x‖ ^ 2 ≤ ‖T (T x)‖ := by
      have h1 : ⟪T (T x), x⟫_ℂ = ((‖T x‖ ^ 2 : ℝ) : ℂ) := by
        rw [hT, inner_self_eq_norm_sq_to_K]; norm_cast
      have h2 : ‖⟪T (T x), x⟫_ℂ‖ ≤ ‖T (T x)‖ * ‖x‖ := norm_inner_le_norm _ _
      rw [h1, hx, mul_one, Complex.norm_real, Real.norm_eq_abs, abs_of_nonneg (by positivity)] at h2
      exact h2
    rw [inv_mul_eq_div, le_div_iff₀ hpos]
    nlinarith

/-- **power_bounded.** Estimates at unit vectors never exceed the operator bound (`λmax` for a Hermitian
    PSD operator). -/
theorem power_bounded (T : E →ₗ[ℂ] E) (L : ℝ) (hL : ∀ z, ‖T z‖ ≤ L * ‖z‖) (x : E) (hx : ‖x‖ = 1) : ‖T x‖ ≤ L := by
  have := hL x; rwa [hx, mul_one] at this

end gram

/-! ### eigenvalues ≤ 1: Bessel's inequality for the orthonormal SVD kernels -/

section bessel
variable {E F : Type} [NormedAddCommGroup E] [InnerProductSpace ℂ E] [NormedAddCommGroup F] [InnerProductSpace ℂ F]
open scoped InnerProductSpace

/-- **bessel_gram_le** (Bessel's inequality). For an orthonormal family `v_k` and any vector `z`,
    `Σ_k |⟪v_k, z⟫|² ≤ ‖z‖²`. -/
theorem bessel_gram_le {ι : Type} (S : Finset ι) (v : ι → E) (hv : Orthonormal ℂ v) (z : E) :
    ∑ k ∈ S, ‖⟪v k, z⟫_ℂ‖ ^ 2 ≤ ‖z‖ ^ 2 := hv.sum_inner_products_le z

/-- The per-voxel quadratic form.  `v_k` orthonormal in `E` (`= ℂ^{coils × kw^d}`: the kept rows of `VH`),
    `T : F → E` (`x ↦ x ⊗ conj e_q`, the voxel's DFT phases) with `‖T x‖² = κ‖x‖²` (`κ = kw^d / N`), and image-domain
    kernels `a_k` with `⟪a_k, x⟫ = ⟪v_k, T x⟫`.  If the scale `c ≥ 0` satisfies `c·κ ≤ 1` then
    `c · Σ_k |⟪a_k, x⟫|² ≤ ‖x‖²`. -/
theorem gram_quadratic_le {ι : Type} (S : Finset ι) (v : ι → E) (hv : Orthonormal ℂ v) (a : ι → F) (T : F → E)
    (κ c : ℝ) (ha : ∀ k x, ⟪a k, x⟫_ℂ = ⟪v k, T x⟫_ℂ) (hT : ∀ x, ‖T x‖ ^ 2 = κ * ‖x‖ ^ 2) (hc : 0 ≤ c) (hcκ : c * κ ≤ 1)
    (x : F) : c * ∑ k ∈ S, ‖⟪a k, x⟫_ℂ‖ ^ 2 ≤ ‖x‖ ^ 2 := by
  have h1 : ∑ k ∈ S, ‖⟪a k, x⟫_ℂ‖ ^ 2 ≤ κ * ‖x‖ ^ 2 := by
    rw [← hT x]
    simp only [ha]
    exact bessel_gram_le S v hv (T x)
  calc c * ∑ k ∈ S, ‖⟪a k, x⟫_ℂ‖ ^ 2 ≤ c * (κ * ‖x‖ ^ 2) := mul_le_mul_of_nonneg_left h1 hc
    _ = (c * κ) * ‖x‖ ^ 2 := by ring
    _ ≤ 1 * ‖x‖ ^ 2 := mul_le_mul_of_nonneg_right hcκ (by positivity)
    _ = ‖x‖ ^ 2 := one_mul _

/-- `|⟪G x, y⟫| ≤ c · Σ_k |⟪a_k, x⟫|·|⟪a_k, y⟫|` -/
theorem gram_inner_le {ι : Type} (S : Finset ι) (a : ι → F) (c : ℝ) (hc : 0 ≤ c) (x y : F) :
    ‖⟪gramOp S a c x, y⟫_ℂ‖ ≤ c * ∑ k ∈ S, ‖⟪a k, x⟫_ℂ‖ * ‖⟪a k, y⟫_ℂ‖ := by
  unfold gramOp
  rw [inner_smul_left, norm_mul, Complex.conj_ofReal, Complex.norm_real, Real.norm_eq_abs, abs_of_nonneg hc, sum_inner]
  apply mul_le_mul_of_nonneg_left _ hc
  refine (norm_sum_le _ _).trans (le_of_eq ?_)
  apply Finset.sum_congr rfl
  intro k _
  rw [inner_smul_left, norm_mul, RCLike.norm_conj]

/-- **eig_le_one_of_orthonormal_kernels.**  Under the hypotheses of `gram_quadratic_le` the Gram operator
    `G_q = c·Σ_k a_k a_kᴴ` of a voxel is a contraction: `‖G_q x‖ ≤ ‖x‖` and `re ⟪G_q x, x⟫ ≤ ‖x‖²`.  So every
    eigenvalue of `G_q`, and every power-method estimate `‖G_q x‖` at a unit vector (`power_bounded` with `L = 1`),
    is `≤ 1`.  Facts that enter as hypotheses: the kept rows of numpy's `VH` are orthonormal (`hv`); the voxel's
    kernel values are `a_k = T† v_k` (`ha`) with `‖T x‖² = κ‖x‖²` (`hT`: the entries of the centred orthonormal DFT
    have modulus `1/√N`, zero padding only selects `kw^d` of them, so `κ ≤ kw^d/N`, with equality when the
    kernel fits into the image); `c·κ ≤ 1` holds for the scale `N/kw^d` the translator extracts (`espirit_scale`). -/
theorem eig_le_one_of_orthonormal_kernels {ι : Type} (S : Finset ι) (v : ι → E) (hv : Orthonormal ℂ v) (a : ι → F)
    (T : F → E) (κ c : ℝ) (ha : ∀ k x, ⟪a k, x⟫_ℂ = ⟪v k, T x⟫_ℂ) (hT : ∀ x, ‖T x‖ ^ 2 = κ * ‖x‖ ^ 2) (hc : 0 ≤ c)
    (hcκ : c * κ ≤ 1) (x : F) :
    ‖gramOp S a c x‖ ≤ ‖x‖ ∧ (⟪gramOp S a c x, x⟫_ℂ).re ≤ ‖x‖ ^ 2 := by
  have hq := gram_quadratic_le S v hv a T κ c ha hT hc hcκ
  constructor
  · set g := gramOp S a c x with hg
    have h1 := gram_inner_le S a c hc x g
    have h2 := Finset.sum_mul_sq_le_sq_mul_sq S (fun k => ‖⟪a k, x⟫_ℂ‖) (fun k => ‖⟪a k, g⟫_ℂ‖)
    have hx := hq x
    have hgq := hq g
    have hgg : ‖⟪g, g⟫_ℂ‖ = ‖g‖ ^ 2 := by
      rw [inner_self_eq_norm_sq_to_K]; norm_cast; exact abs_of_nonneg (by positivity)
    rw [← hg, hgg] at h1
    have hsx : 0 ≤ ∑ k ∈ S, ‖⟪a k, x⟫_ℂ‖ ^ 2 := Finset.sum_nonneg (fun _ _ => by positivity)
    have hsg : 0 ≤ ∑ k ∈ S, ‖⟪a k, g⟫_ℂ‖ ^ 2 := Finset.sum_nonneg (fun _ _ => by positivity)
    have hsxg : 0 ≤ ∑ k ∈ S, ‖⟪a k, x⟫_ℂ‖ * ‖⟪a k, g⟫_ℂ‖ := Finset.sum_nonneg (fun _ _ => by positivity)
    -- ‖g‖⁴ ≤ (c Σ f g)² ≤ (c Σ f²)(c Σ g²) ≤ ‖x‖² ‖g‖²
    have h3 : (‖g‖ ^ 2) ^ 2 ≤ ‖x‖ ^ 2 * ‖g‖ ^ 2 := by
      calc (‖g‖ ^ 2) ^ 2 ≤ (c * ∑ k ∈ S, ‖⟪a k, x⟫_ℂ‖ * ‖⟪a k, g⟫_ℂ‖) ^ 2 :=
            pow_le_pow_left₀ (by positivity) h1 2
        _ = c ^ 2 * (∑ k ∈ S, ‖⟪a k, x⟫_ℂ‖ * ‖⟪a k, g⟫_ℂ‖) ^ 2 := by ring
        _ ≤ c ^ 2 * ((∑ k ∈ S, ‖⟪a k, x⟫_ℂ‖ ^ 2) * ∑ k ∈ S, ‖⟪a k, g⟫_ℂ‖ ^ 2) :=
            mul_le_mul_of_nonneg_left h2 (by positivity)
        _ = (c * ∑ k ∈ S, ‖⟪a k, x⟫_ℂ‖ ^ 2) * (c * ∑ k ∈ S, ‖⟪a k, g⟫_ℂ‖ ^ 2) := by ring
        _ ≤ ‖x‖ ^ 2 * ‖g‖ ^ 2 := mul_le_mul hx hgq (mul_nonneg hc hsg) (by positivity)
    by_cases h0 : ‖g‖ = 0
    · rw [h0]; positivity
    · have hpos : 0 < ‖g‖ ^ 2 := by positivity
      have h4 : ‖g‖ ^ 2 ≤ ‖x‖ ^ 2 := by
        have : ‖g‖ ^ 2 * ‖g‖ ^ 2 ≤ ‖x‖ ^ 2 * ‖g‖ ^ 2 := by rw [← sq]; exact h3
        exact le_of_mul_le_mul_right this hpos
      exact (pow_le_pow_iff_left₀ (norm_nonneg _) (norm_nonneg _) (by norm_num)).mp h4
  · rw [(gram_psd S a c hc x).1, Complex.ofReal_re]
    exact hq x

/-- eigenvalue form: if `G_q x = λ x` with `x ≠ 0` then `|λ| ≤ 1` -/
theorem eigenvalue_le_one {ι : Type} (S : Finset ι) (v : ι → E) (hv : Orthonormal ℂ v) (a : ι → F)
    (T : F → E) (κ c : ℝ) (ha : ∀ k x, ⟪a k, x⟫_ℂ = ⟪v k, T x⟫_ℂ) (hT : ∀ x, ‖T x‖ ^ 2 = κ * ‖x‖ ^ 2) (hc : 0 ≤ c)
    (hcκ : c * κ ≤ 1) (x : F) (hx : x ≠ 0) (lam : ℂ) (hlam : gramOp S a c x = lam • x) : ‖lam‖ ≤ 1 := by
  have h := (eig_le_one_of_orthonormal_kernels S v hv a T κ c ha hT hc hcκ x).1
  rw [hlam, norm_smul] at h
  have hpos : 0 < ‖x‖ := norm_pos_iff.mpr hx
  exact le_of_mul_le_mul_right (by simpa using h) hpos

end bessel

/-! ### the instantiation for `EspiritCalib`: `E = ℂ^{coils × kernel offsets}`, `F = ℂ^{coils}` -/

section espirit_instance
open scoped InnerProductSpace
variable {C P : Type} [Fintype C] [Fintype P]

/-- `x ↦ x ⊗ conj ε`: coil vector times the conjugate DFT phases of the voxel over the kernel offsets -/
noncomputable def tensorPhase (ε : P → ℂ) (x : EuclideanSpace ℂ C) : EuclideanSpace ℂ (C × P) :=
  WithLp.toLp 2 fun cp => x cp.1 * (starRingEnd ℂ) (ε cp.2)

/-- value at one voxel of the inverse DFT of a zero-padded kernel `v[c, offset]`: `a[c] = Σ_p v[c,p]·ε_p`, where
    `ε_p` is the entry of the (centred, orthonormal) inverse DFT matrix for this voxel and the grid position the
    centre-padding `sp.resize(kernel, ksp.shape)` puts offset `p` at -/
noncomputable def imgKernel (ε : P → ℂ) (v : EuclideanSpace ℂ (C × P)) : EuclideanSpace ℂ C :=
  WithLp.toLp 2 fun c => ∑ p, v (c, p) * ε p

theorem imgKernel_inner (ε : P → ℂ) (v : EuclideanSpace ℂ (C × P)) (x : EuclideanSpace ℂ C) :
    ⟪imgKernel ε v, x⟫_ℂ = ⟪v, tensorPhase ε x⟫_ℂ := by
  simp only [PiLp.inner_apply, imgKernel, tensorPhase, RCLike.inner_apply, Fintype.sum_prod_type, map_sum, map_mul,
    Finset.mul_sum]
  apply Finset.sum_congr rfl; intro c _
  apply Finset.sum_congr rfl; intro p _
  ring

theorem tensorPhase_norm_sq (ε : P → ℂ) (x : EuclideanSpace ℂ C) :
    ‖tensorPhase ε x‖ ^ 2 = (∑ p, ‖ε p‖ ^ 2) * ‖x‖ ^ 2 := by
  rw [EuclideanSpace.norm_sq_eq, EuclideanSpace.norm_sq_eq, Fintype.sum_prod_type, Finset.mul_sum, ]
  apply Finset.sum_congr rfl; intro c _
  rw [Finset.sum_mul]
  apply Finset.sum_congr rfl; intro p _
  simp only [tensorPhase, norm_mul, RCLike.norm_conj, mul_pow]
  ring

/-- **eig_le_one_espirit.**  `EspiritCalib`'s per-voxel Gram matrix
    `AHA[q] = (N / kw^d) · Σ_k a_k(q) a_k(q)ᴴ` (scale = the generated `Gen.espiritScale`) is a contraction with
    quadratic form `≤ ‖x‖²`: all its eigenvalues and all power-method estimates at unit vectors are `≤ 1`.
    HYPOTHESES (numerical facts about numpy / the DFT, checked by the correspondence on every run):
    `hv` — the kept rows of `VH` from `numpy.linalg.svd(full_matrices=False)`, as vectors over
    `(coil, kernel offset)`, are orthonormal; `hε` — `a_k(q)[c] = Σ_p v_k[c,p]·ε_p` with `|ε_p|² ≤ 1/N`
    (centred orthonormal inverse DFT of the centre-padded kernel, `= 1/N` where the offset lands on the grid and `0`
    where `sp.resize` crops it; `N = prod(img_shape)`);
    `hP` — there are `kw^d` kernel offsets. -/
theorem eig_le_one_espirit {ι : Type} (S : Finset ι) (v : ι → EuclideanSpace ℂ (C × P)) (hv : Orthonormal ℂ v)
    (ε : P → ℂ) (N kw : Int) (d : Nat) (hN : 0 < N) (hkw : 0 < kw) (hP : (Fintype.card P : Int) = kw ^ d)
    (hε : ∀ p, ‖ε p‖ ^ 2 ≤ 1 / (N : ℝ)) (x : EuclideanSpace ℂ C) :
    ‖gramOp S (fun k => imgKernel ε (v k)) ((Gen.espiritScale N kw d : Rat) : ℝ) x‖ ≤ ‖x‖ ∧
    (⟪gramOp S (fun k => imgKernel ε (v k)) ((Gen.espiritScale N kw d : Rat) : ℝ) x, x⟫_ℂ).re ≤ ‖x‖ ^ 2 := by
  have hNr : (0 : ℝ) < (N : ℝ) := by exact_mod_cast hN
  have hkr : (0 : ℝ) < ((kw ^ d : Int) : ℝ) := by exact_mod_cast pow_pos hkw d
  have hsc : ((Gen.espiritScale N kw d : Rat) : ℝ) = (N : ℝ) / ((kw ^ d : Int) : ℝ) := by
    unfold Gen.espiritScale; push_cast; rfl
  have hκ : (∑ p, ‖ε p‖ ^ 2) ≤ ((kw ^ d : Int) : ℝ) / (N : ℝ) := by
    have h1 : (∑ p : P, ‖ε p‖ ^ 2) ≤ ∑ _p : P, 1 / (N : ℝ) := Finset.sum_le_sum (fun p _ => hε p)
    have : ((Fintype.card P : ℕ) : ℝ) = ((kw ^ d : Int) : ℝ) := by exact_mod_cast hP
    simp only [Finset.sum_const, Finset.card_univ, nsmul_eq_mul, this] at h1
    calc (∑ p, ‖ε p‖ ^ 2) ≤ ((kw ^ d : Int) : ℝ) * (1 / (N : ℝ)) := h1
      _ = ((kw ^ d : Int) : ℝ) / (N : ℝ) := by ring
  apply eig_le_one_of_orthonormal_kernels S v hv (fun k => imgKernel ε (v k)) (tensorPhase ε)
    (∑ p, ‖ε p‖ ^ 2) _ (fun k x => imgKernel_inner ε (v k) x) (fun x => tensorPhase_norm_sq ε x)
  · rw [hsc]; positivity
  · rw [hsc]
    calc (N : ℝ) / ((kw ^ d : Int) : ℝ) * ∑ p, ‖ε p‖ ^ 2
        ≤ (N : ℝ) / ((kw ^ d : Int) : ℝ) * (((kw ^ d : Int) : ℝ) / (N : ℝ)) :=
          mul_le_mul_of_nonneg_left hκ (by positivity)
      _ = 1 := by field_simp

/-- non-vacuity: one coil, `kw^d = 2` offsets, `N = 4`, the single unit kernel `(1, 0)` with phases `±1/2` -/
example : ∃ (v : Unit → EuclideanSpace ℂ (Unit × Fin 2)) (ε : Fin 2 → ℂ), Orthonormal ℂ v ∧
    (∀ p, ‖ε p‖ ^ 2 ≤ 1 / ((4 : Int) : ℝ)) ∧ ((Fintype.card (Fin 2) : Int) = 2 ^ 1) := by
  refine ⟨fun _ => EuclideanSpace.single ((), 0) 1, fun _ => (1 / 2 : ℂ), ?_, ?_, by simp⟩
  · rw [orthonormal_iff_ite]
    intro i j
    simp
  · intro p
    norm_num

end espirit_instance

/-- the Gram scaling of the source is `prod(img_shape) / kernel_width ^ img_ndim` -/
theorem espirit_scale (N kw : Int) (d : Nat) : Gen.espiritScale N kw d = (N : Rat) / ((kw ^ d : Int) : Rat) := rfl

/-- **calib_index_map** (1-D calibration region). Row `n` of the calibration matrix is the sliding block
    starting at `n` (stride 1), columns ordered `(coil, offset)`: entry `(n, c·kw + x)` reads `calib[c, n + x]`,
    for all `0 ≤ c < nc`, `0 ≤ n < cw - kw + 1`, `0 ≤ x < kw`, and there are no other entries. -/
theorem calib_index_map (nc cw kw : Int) (e : List Int × List Int) :
    (∃ E, calibEntries nc cw kw 1 = some E ∧ e ∈ E) ↔
      ∃ c n x, 0 ≤ c ∧ c < nc ∧ 0 ≤ n ∧ n < cw - kw + 1 ∧ 0 ≤ x ∧ x < kw ∧ e = ([n, c * kw + x], [c, n + x]) := by
  have hnb : Gen.numBlks cw kw 1 = cw - kw + 1 := by
    unfold Gen.numBlks; rw [pyDiv_of_pos _ (by decide)]; simp
  have hE : calibEntries nc cw kw 1 = some ((Gen.a2b1 (shapeFn ([nc] ++ [cw - kw + 1] ++ [kw])) (shapeFn ([nc] ++ [cw])) nc kw 1 (cw - kw + 1)).map
      fun (o, i, _) => ([ravel [cw - kw + 1] ((o.drop 1).take 1), o.headD 0 * shapeProd [kw] + ravel [kw] ((o.drop 2).take 1)], i)) := by
    simp [calibEntries, C09.numBlksList, C09.zip3With, C09.a2bEntries, Gen.espiritCalibLen, Gen.espiritBlk, Gen.espiritStride,
      Gen.espiritPerm, hnb, List.replicate]
  constructor
  · rintro ⟨E, hEq, hmem⟩
    rw [hE] at hEq
    cases hEq
    simp only [List.mem_map] at hmem
    obtain ⟨u, hu, rfl⟩ := hmem
    rw [C09.a2b1_mem] at hu
    obtain ⟨b, n, x, hb0, hb1, hn0, hn1, hx0, hx1, _, rfl⟩ := hu
    refine ⟨b, n, x, hb0, hb1, hn0, hn1, hx0, hx1, ?_⟩
    simp [ravel, shapeProd]
  · rintro ⟨c, n, x, hc0, hc1, hn0, hn1, hx0, hx1, rfl⟩
    refine ⟨_, hE, ?_⟩
    simp only [List.mem_map]
    refine ⟨([c, n, x], [c, n * 1 + x], 1), ?_, by simp [ravel, shapeProd]⟩
    rw [C09.a2b1_mem]
    refine ⟨c, n, x, hc0, hc1, hn0, hn1, hx0, hx1, ?_, rfl⟩
    simp [shapeFn]; omega

/-- the reshape / transpose / reshape that turn the blocks `[nc] + nb + [kw]*d` into the calibration matrix are
    `reshape([nc, -1, kw^d])`, `transpose([1, 0, 2])`, `reshape([-1, nc·kw^d])` (as generated from the source) -/
theorem calib_shape_steps (nc kw : Int) (d : Nat) :
    Gen.espiritReshape1 nc kw d = [nc, -1, kw ^ d] ∧ Gen.espiritPerm = [1, 0, 2] ∧
    Gen.espiritReshape2 nc kw d = [-1, nc * kw ^ d] ∧ Gen.espiritCalibLen = id ∧ Gen.espiritBlk = id ∧
    Gen.espiritStride = fun _ => 1 := ⟨rfl, rfl, rfl, rfl, rfl, rfl⟩

theorem numBlks_stride_one (cw kw : Int) : Gen.numBlks cw kw 1 = cw - kw + 1 := by
  unfold Gen.numBlks; rw [pyDiv_of_pos _ (by decide)]; simp

/-- **calib_index_map_2d** (2-D calibration region `[nc, cw, cw]`, kernel `kw × kw`, for ALL integers `nc, cw, kw`
    — in particular all `calib_width ≥ kernel_width ≥ 1`).  The calibration matrix handed to the SVD has one row
    per sliding block (row-major block index `ny·(cw-kw+1) + nx`, stride 1) and columns ordered
    `(coil, kernel offset row-major)`: entry `(ny·(cw-kw+1)+nx, c·kw² + y·kw + x)` reads `calib[c, ny+y, nx+x]`, and
    there are no other entries.  Through the GENERATED loop nest `Gen.a2b2` (`C09.a2b2_mem`) and the generated
    `reshape / transpose([1,0,2]) / reshape` steps. -/
theorem calib_index_map_2d (nc cw kw : Int) (e : List Int × List Int) :
    (∃ E, calibEntries nc cw kw 2 = some E ∧ e ∈ E) ↔
      ∃ c ny nx y x, 0 ≤ c ∧ c < nc ∧ 0 ≤ ny ∧ ny < cw - kw + 1 ∧ 0 ≤ nx ∧ nx < cw - kw + 1 ∧
        0 ≤ y ∧ y < kw ∧ 0 ≤ x ∧ x < kw ∧
        e = ([ny * (cw - kw + 1) + nx, c * (kw * kw) + (y * kw + x)], [c, ny + y, nx + x]) := by
  have hnb := numBlks_stride_one cw kw
  have hE : calibEntries nc cw kw 2 = some ((Gen.a2b2 (shapeFn ([nc] ++ [cw - kw + 1, cw - kw + 1] ++ [kw, kw]))
      (shapeFn ([nc] ++ [cw, cw])) nc kw kw 1 1 (cw - kw + 1) (cw - kw + 1)).map
      fun (o, i, _) => ([ravel [cw - kw + 1, cw - kw + 1] ((o.drop 1).take 2),
        o.headD 0 * shapeProd [kw, kw] + ravel [kw, kw] ((o.drop 3).take 2)], i)) := by
    simp [calibEntries, C09.numBlksList, C09.zip3With, C09.a2bEntries, Gen.espiritCalibLen, Gen.espiritBlk, Gen.espiritStride,
      Gen.espiritPerm, hnb, List.replicate]
  constructor
  · rintro ⟨E, hEq, hmem⟩
    rw [hE] at hEq
    cases hEq
    simp only [List.mem_map] at hmem
    obtain ⟨u, hu, rfl⟩ := hmem
    rw [C09.a2b2_mem] at hu
    obtain ⟨b, ny, nx, y, x, hb0, hb1, hny0, hny1, hnx0, hnx1, hy0, hy1, hx0, hx1, _, _, rfl⟩ := hu
    refine ⟨b, ny, nx, y, x, hb0, hb1, hny0, hny1, hnx0, hnx1, hy0, hy1, hx0, hx1, ?_⟩
    simp [ravel, shapeProd]
  · rintro ⟨c, ny, nx, y, x, hc0, hc1, hny0, hny1, hnx0, hnx1, hy0, hy1, hx0, hx1, rfl⟩
    refine ⟨_, hE, ?_⟩
    simp only [List.mem_map]
    refine ⟨([c, ny, nx, y, x], [c, ny * 1 + y, nx * 1 + x], 1), ?_, by simp [ravel, shapeProd]⟩
    rw [C09.a2b2_mem]
    refine ⟨c, ny, nx, y, x, hc0, hc1, hny0, hny1, hnx0, hnx1, hy0, hy1, hx0, hx1, ?_, ?_, rfl⟩
    · simp [shapeFn]; omega
    · simp [shapeFn]; omega

/-- **calib_index_map_3d** (3-D calibration region `[nc, cw, cw, cw]`, kernel `kw³`): entry
    `((nz·nb+ny)·nb+nx, c·kw³ + (z·kw+y)·kw+x)`, `nb = cw-kw+1`, reads `calib[c, nz+z, ny+y, nx+x]`; no other
    entries; for all integers `nc, cw, kw`.  Through `Gen.a2b3` (`C09.a2b3_mem`). -/
theorem calib_index_map_3d (nc cw kw : Int) (e : List Int × List Int) :
    (∃ E, calibEntries nc cw kw 3 = some E ∧ e ∈ E) ↔
      ∃ c nz ny nx z y x, 0 ≤ c ∧ c < nc ∧ 0 ≤ nz ∧ nz < cw - kw + 1 ∧ 0 ≤ ny ∧ ny < cw - kw + 1 ∧
        0 ≤ nx ∧ nx < cw - kw + 1 ∧ 0 ≤ z ∧ z < kw ∧ 0 ≤ y ∧ y < kw ∧ 0 ≤ x ∧ x < kw ∧
        e = ([(nz * (cw - kw + 1) + ny) * (cw - kw + 1) + nx, c * (kw * kw * kw) + ((z * kw + y) * kw + x)],
             [c, nz + z, ny + y, nx + x]) := by
  have hnb := numBlks_stride_one cw kw
  have hE : calibEntries nc cw kw 3 = some ((Gen.a2b3 (shapeFn ([nc] ++ [cw - kw + 1, cw - kw + 1, cw - kw + 1] ++ [kw, kw, kw]))
      (shapeFn ([nc] ++ [cw, cw, cw])) nc kw kw kw 1 1 1 (cw - kw + 1) (cw - kw + 1) (cw - kw + 1)).map
      fun (o, i, _) => ([ravel [cw - kw + 1, cw - kw + 1, cw - kw + 1] ((o.drop 1).take 3),
        o.headD 0 * shapeProd [kw, kw, kw] + ravel [kw, kw, kw] ((o.drop 4).take 3)], i)) := by
    simp [calibEntries, C09.numBlksList, C09.zip3With, C09.a2bEntries, Gen.espiritCalibLen, Gen.espiritBlk, Gen.espiritStride,
      Gen.espiritPerm, hnb, List.replicate]
  constructor
  · rintro ⟨E, hEq, hmem⟩
    rw [hE] at hEq
    cases hEq
    simp only [List.mem_map] at hmem
    obtain ⟨u, hu, rfl⟩ := hmem
    rw [C09.a2b3_mem] at hu
    obtain ⟨b, nz, ny, nx, z, y, x, hb0, hb1, hnz0, hnz1, hny0, hny1, hnx0, hnx1, hz0, hz1, hy0, hy1, hx0, hx1, _, _, _, rfl⟩ := hu
    refine ⟨b, nz, ny, nx, z, y, x, hb0, hb1, hnz0, hnz1, hny0, hny1, hnx0, hnx1, hz0, hz1, hy0, hy1, hx0, hx1, ?_⟩
    simp [ravel, shapeProd]
  · rintro ⟨c, nz, ny, nx, z, y, x, hc0, hc1, hnz0, hnz1, hny0, hny1, hnx0, hnx1, hz0, hz1, hy0, hy1, hx0, hx1, rfl⟩
    refine ⟨_, hE, ?_⟩
    simp only [List.mem_map]
    refine ⟨([c, nz, ny, nx, z, y, x], [c, nz * 1 + z, ny * 1 + y, nx * 1 + x], 1), ?_, by simp [ravel, shapeProd]⟩
    rw [C09.a2b3_mem]
    refine ⟨c, nz, ny, nx, z, y, x, hc0, hc1, hnz0, hnz1, hny0, hny1, hnx0, hnx1, hz0, hz1, hy0, hy1, hx0, hx1, ?_, ?_, ?_, rfl⟩
    · simp [shapeFn]; omega
    · simp [shapeFn]; omega
    · simp [shapeFn]; omega

/-- non-vacuity: `calib_width = 4`, `kernel_width = 2`, two coils — the 2-D calibration matrix has
    `2·3²·2² = 72` entries -/
example : (calibEntries 2 4 2 2).map List.length = some 72 := by decide

end SigpyVerif.C17
