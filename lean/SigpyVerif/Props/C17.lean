import SigpyVerif.Model.C17
import SigpyVerif.Props.C09
import Mathlib.Analysis.InnerProductSpace.Basic
import Mathlib.Analysis.Complex.Basic
/-
  C17 — ESPIRiT maps: unit-norm or exactly zero, phase-referenced to coil 0, eigenvalue estimates of a
  Hermitian PSD Gram operator.

  Proved (about `Model/C17.lean`, instantiated over ℂ by `cops`): `power_step_unit`, `phase_ref`,
  `crop_dichotomy`, `espirit_keeps_iff`, `gram_symmetric`, `gram_psd`, `power_monotone`, `power_bounded`,
  `calib_index_map` (1-D calibration region, through `C09.a2b1_mem`), `espirit_scale`.
  NOT theorems (property is partial by nature — numerical / depends on smoothness and calibration size):
  `eig ≤ 1` and the recovery of the true maps; they are checked by the search oracle only.
-/
namespace SigpyVerif.C17
open SigpyVerif

/-- the scalar operations of the code over ℂ -/
noncomputable def cops : COps ℂ where
  zero := 0
  add := (· + ·)
  mul := (· * ·)
  conj := starRingEnd ℂ
  abs z := ((‖z‖ : ℝ) : ℂ)
  sqrt z := ((Real.sqrt z.re : ℝ) : ℂ)
  div := (· / ·)
  gt a b := decide (a.re > b.re)
  ofBool b := if b then 1 else 0

/-- `Σ_c |x_c|²` -/
noncomputable def sumSq (x : List ℂ) : ℝ := (x.map fun z => ‖z‖ ^ 2).sum

theorem sumSq_nonneg (x : List ℂ) : 0 ≤ sumSq x := by
  unfold sumSq
  induction x with
  | nil => simp
  | cons a l ih => simp only [List.map_cons, List.sum_cons]; positivity

theorem csum_map_absPow (x : List ℂ) : csum cops (x.map (absPow cops)) = ((sumSq x : ℝ) : ℂ) := by
  unfold sumSq csum
  induction x with
  | nil => simp [cops]
  | cons a l ih =>
    simp only [List.map_cons, List.foldr_cons, List.sum_cons, ih]
    have : absPow cops a = ((‖a‖ ^ 2 : ℝ) : ℂ) := by
      simp [absPow, cops, Gen.espiritNormPow, List.replicate]
      ring
    rw [this]; simp [cops]

/-- `normalize` is the ℓ2 norm across coils -/
theorem normalize_eq (x : List ℂ) : normalize cops x = ((Real.sqrt (sumSq x) : ℝ) : ℂ) := by
  unfold normalize
  simp only [Gen.espiritNormRootIsHalf, if_true, csum_map_absPow]
  simp [cops]

theorem sumSq_map_div (y : List ℂ) (N : ℝ) :
    sumSq (y.map fun v => cops.div v ((N : ℝ) : ℂ)) = sumSq y / N ^ 2 := by
  unfold sumSq
  induction y with
  | nil => simp
  | cons a l ih =>
    simp only [List.map_cons, List.sum_cons, ih]
    have : ‖cops.div a ((N : ℝ) : ℂ)‖ ^ 2 = ‖a‖ ^ 2 / N ^ 2 := by
      simp [cops, div_pow]
    rw [this]; ring

/-- **power_step_unit.** One power-method update `x ↦ Gx/‖Gx‖₂` returns a vector of unit ℓ2 norm across
    coils whenever `Gx ≠ 0`, and the eigenvalue estimate is `‖Gx‖₂ > 0`. -/
theorem power_step_unit (G : List (List ℂ)) (x : List ℂ) (h : sumSq (matVec cops G x) ≠ 0) :
    sumSq (powerStep cops G x).1 = 1 ∧
    (powerStep cops G x).2 = ((Real.sqrt (sumSq (matVec cops G x)) : ℝ) : ℂ) ∧
    0 < Real.sqrt (sumSq (matVec cops G x)) := by
  have hpos : 0 < sumSq (matVec cops G x) := lt_of_le_of_ne (sumSq_nonneg _) (Ne.symm h)
  have hs : 0 < Real.sqrt (sumSq (matVec cops G x)) := Real.sqrt_pos.mpr hpos
  refine ⟨?_, ?_, hs⟩
  · simp only [powerStep, normalize_eq]
    rw [sumSq_map_div, Real.sq_sqrt (le_of_lt hpos)]
    exact div_self h
  · simp only [powerStep, normalize_eq]

theorem refCoil_zero : Gen.espiritRefCoil.toNat = 0 := rfl

/-- **phase_ref.** For `m₀ ≠ 0` the phase reference multiplies every coil by one unimodular number `u`;
    coil 0 becomes `|m₀|` (real, `≥ 0`) and every coil's modulus — hence the ℓ2 norm — is unchanged. -/
theorem phase_ref (m₀ : ℂ) (rest : List ℂ) (h : m₀ ≠ 0) :
    ∃ u : ℂ, ‖u‖ = 1 ∧ phaseRef cops (m₀ :: rest) = ((‖m₀‖ : ℝ) : ℂ) :: rest.map (· * u) := by
  have hn : (‖m₀‖ : ℝ) ≠ 0 := norm_ne_zero_iff.mpr h
  have hnc : ((‖m₀‖ : ℝ) : ℂ) ≠ 0 := by exact_mod_cast hn
  refine ⟨(starRingEnd ℂ) (m₀ / ((‖m₀‖ : ℝ) : ℂ)), ?_, ?_⟩
  · rw [RCLike.norm_conj, norm_div, Complex.norm_real, norm_norm, div_self hn]
  · simp only [phaseRef, refCoil_zero, List.getD_cons_zero, List.map_cons, cops]
    congr 1
    rw [map_div₀, Complex.conj_ofReal, mul_div_assoc', Complex.mul_conj, Complex.normSq_eq_norm_sq]
    push_cast
    field_simp

theorem sumSq_map_mul_unit (l : List ℂ) (u : ℂ) (hu : ‖u‖ = 1) : sumSq (l.map (· * u)) = sumSq l := by
  unfold sumSq
  simp [List.map_map, Function.comp_def, hu]

/-- the phase reference preserves the ℓ2 norm across coils -/
theorem phase_ref_norm (m₀ : ℂ) (rest : List ℂ) (h : m₀ ≠ 0) :
    sumSq (phaseRef cops (m₀ :: rest)) = sumSq (m₀ :: rest) := by
  obtain ⟨u, hu, he⟩ := phase_ref m₀ rest h
  rw [he]
  have := sumSq_map_mul_unit rest u hu
  unfold sumSq at *
  simp only [List.map_cons, List.sum_cons, this]
  simp

/-- the crop test of the source is the strict comparison `eig > crop` -/
theorem espirit_keeps_iff (e c : Rat) : Gen.espiritKeeps e c = true ↔ e > c := by
  unfold Gen.espiritKeeps; simp

/-- **crop_dichotomy.** `_output` at a voxel is the phase-referenced vector when the voxel is kept
    (`eig > crop`) and EXACTLY zero otherwise; so for a unit-norm power-method vector with `m₀ ≠ 0` the
    result has unit norm with coil 0 equal to `|m₀| ≥ 0`, or is exactly 0. -/
theorem crop_dichotomy (keep : Bool) (m₀ : ℂ) (rest : List ℂ) (h : m₀ ≠ 0) (hunit : sumSq (m₀ :: rest) = 1) :
    (keep = true → sumSq (output cops keep (m₀ :: rest)) = 1 ∧
        (output cops keep (m₀ :: rest)).head? = some ((‖m₀‖ : ℝ) : ℂ)) ∧
    (keep = false → output cops keep (m₀ :: rest) = (m₀ :: rest).map fun _ => 0) := by
  constructor
  · rintro rfl
    have : output cops true (m₀ :: rest) = phaseRef cops (m₀ :: rest) := by
      simp [output, cropMask, cops]
    rw [this, phase_ref_norm m₀ rest h, hunit]
    obtain ⟨u, _, he⟩ := phase_ref m₀ rest h
    exact ⟨rfl, by rw [he]; rfl⟩
  · rintro rfl
    have h1 : ∀ l : List ℂ, cropMask cops false l = l.map fun _ => 0 := by
      intro l; simp [cropMask, cops]
    rw [output, h1, phaseRef, List.map_map]
    rfl

/-! ### the Gram operator and the power iteration -/

section gram
variable {E : Type} [NormedAddCommGroup E] [InnerProductSpace ℂ E]
open scoped InnerProductSpace

/-- `G x = c · Σ_k ⟪v_k, x⟫ v_k`: the matrix `c · Σ_k v_k v_kᴴ` that `AHA += aH @ a; AHA *= c` builds -/
noncomputable def gramOp {ι : Type} (S : Finset ι) (v : ι → E) (c : ℝ) (x : E) : E :=
  (c : ℂ) • ∑ k ∈ S, ⟪v k, x⟫_ℂ • v k

/-- **gram_symmetric.** `G` is Hermitian. -/
theorem gram_symmetric {ι : Type} (S : Finset ι) (v : ι → E) (c : ℝ) (x y : E) :
    ⟪gramOp S v c x, y⟫_ℂ = ⟪x, gramOp S v c y⟫_ℂ := by
  unfold gramOp
  simp only [inner_smul_left, inner_smul_right, sum_inner, inner_sum, Complex.conj_ofReal]
  congr 1
  apply Finset.sum_congr rfl
  intro k _
  rw [inner_conj_symm]; ring

/-- **gram_psd.** `⟪G x, x⟫ = c · Σ_k |⟪v_k, x⟫|² ≥ 0` for `c ≥ 0`: the Gram operator is positive
    semidefinite, so every eigenvalue (and every power-method estimate) is `≥ 0`. -/
theorem gram_psd {ι : Type} (S : Finset ι) (v : ι → E) (c : ℝ) (hc : 0 ≤ c) (x : E) :
    ⟪gramOp S v c x, x⟫_ℂ = ((c * ∑ k ∈ S, ‖⟪v k, x⟫_ℂ‖ ^ 2 : ℝ) : ℂ) ∧ 0 ≤ c * ∑ k ∈ S, ‖⟪v k, x⟫_ℂ‖ ^ 2 := by
  constructor
  · unfold gramOp
    simp only [inner_smul_left, sum_inner, Complex.conj_ofReal]
    push_cast
    congr 1
    apply Finset.sum_congr rfl
    intro k _
    rw [← Complex.mul_conj', mul_comm]
  · apply mul_nonneg hc
    apply Finset.sum_nonneg
    intro k _; positivity

/-- **power_monotone.** For a Hermitian `T` and a unit vector `x` with `T x ≠ 0`, the next iterate
    `x' = T x / ‖T x‖` is a unit vector and the estimate does not decrease: `‖T x‖ ≤ ‖T x'‖`
    (Cauchy–Schwarz: `‖Tx‖² = ⟪T²x, x⟫ ≤ ‖T²x‖`).  Since every iterate after the first update is a unit
    vector, the estimates are non-decreasing from the second update on. -/
theorem power_monotone (T : E →ₗ[ℂ] E) (hT : ∀ x y, ⟪T x, y⟫_ℂ = ⟪x, T y⟫_ℂ) (x : E) (hx : ‖x‖ = 1) (h : T x ≠ 0) :
    ‖((‖T x‖⁻¹ : ℝ) : ℂ) • T x‖ = 1 ∧ ‖T x‖ ≤ ‖T (((‖T x‖⁻¹ : ℝ) : ℂ) • T x)‖ := by
  have hpos : 0 < ‖T x‖ := norm_pos_iff.mpr h
  constructor
  · rw [norm_smul, Complex.norm_real, norm_inv, norm_norm, inv_mul_cancel₀ (ne_of_gt hpos)]
  · rw [map_smul, norm_smul, Complex.norm_real, norm_inv, norm_norm]
    have key : ‖T x‖ ^ 2 ≤ ‖T (T x)‖ := by
      have h1 : ⟪T (T x), x⟫_ℂ = ((‖T x‖ ^ 2 : ℝ) : ℂ) := by
        rw [hT, inner_self_eq_norm_sq_to_K]; norm_cast
      have h2 : ‖⟪T (T x), x⟫_ℂ‖ ≤ ‖T (T x)‖ * ‖x‖ := norm_inner_le_norm _ _
      rw [h1, hx, mul_one, Complex.norm_real, Real.norm_eq_abs, abs_of_nonneg (by positivity)] at h2
      exact h2
    rw [inv_mul_eq_div, le_div_iff₀ hpos]
    nlinarith

/-- **power_bounded.** Estimates at unit vectors never exceed the operator bound (`λmax` for a Hermitian
    PSD operator). -/
theorem power_bounded (T : E →ₗ[ℂ] E) (L : ℝ) (hL : ∀ z, ‖T z‖ ≤ L * ‖z‖) (x : E) (hx : ‖x‖ = 1) : ‖T x‖ ≤ L := by
  have := hL x; rwa [hx, mul_one] at this

end gram

/-- the Gram scaling of the source is `prod(img_shape) / kernel_width ^ img_ndim` -/
theorem espirit_scale (N kw : Int) (d : Nat) : Gen.espiritScale N kw d = (N : Rat) / ((kw ^ d : Int) : Rat) := rfl

/-- **calib_index_map** (1-D calibration region). Row `n` of the calibration matrix is the sliding block
    starting at `n` (stride 1), columns ordered `(coil, offset)`: entry `(n, c·kw + x)` reads `calib[c, n + x]`,
    for all `0 ≤ c < nc`, `0 ≤ n < cw - kw + 1`, `0 ≤ x < kw`, and there are no other entries. -/
theorem calib_index_map (nc cw kw : Int) (e : List Int × List Int) :
    (∃ E, calibEntries nc cw kw 1 = some E ∧ e ∈ E) ↔
      ∃ c n x, 0 ≤ c ∧ c < nc ∧ 0 ≤ n ∧ n < cw - kw + 1 ∧ 0 ≤ x ∧ x < kw ∧ e = ([n, c * kw + x], [c, n + x]) := by
  have hnb : Gen.numBlks cw kw 1 = cw - kw + 1 := by
    unfold Gen.numBlks; rw [pyDiv_of_pos _ (by decide)]; simp
  have hE : calibEntries nc cw kw 1 = some ((Gen.a2b1 (shapeFn ([nc] ++ [cw - kw + 1] ++ [kw])) (shapeFn ([nc] ++ [cw])) nc kw 1 (cw - kw + 1)).map
      fun (o, i, _) => ([ravel [cw - kw + 1] ((o.drop 1).take 1), o.headD 0 * shapeProd [kw] + ravel [kw] ((o.drop 2).take 1)], i)) := by
    simp [calibEntries, C09.numBlksList, C09.zip3With, C09.a2bEntries, Gen.espiritCalibLen, Gen.espiritBlk, Gen.espiritStride,
      Gen.espiritPerm, hnb, List.replicate]
  constructor
  · rintro ⟨E, hEq, hmem⟩
    rw [hE] at hEq
    cases hEq
    simp only [List.mem_map] at hmem
    obtain ⟨u, hu, rfl⟩ := hmem
    rw [C09.a2b1_mem] at hu
    obtain ⟨b, n, x, hb0, hb1, hn0, hn1, hx0, hx1, _, rfl⟩ := hu
    refine ⟨b, n, x, hb0, hb1, hn0, hn1, hx0, hx1, ?_⟩
    simp [ravel, shapeProd]
  · rintro ⟨c, n, x, hc0, hc1, hn0, hn1, hx0, hx1, rfl⟩
    refine ⟨_, hE, ?_⟩
    simp only [List.mem_map]
    refine ⟨([c, n, x], [c, n * 1 + x], 1), ?_, by simp [ravel, shapeProd]⟩
    rw [C09.a2b1_mem]
    refine ⟨c, n, x, hc0, hc1, hn0, hn1, hx0, hx1, ?_, rfl⟩
    simp [shapeFn]; omega

end SigpyVerif.C17
