import SigpyVerif.Props.C08
import SigpyVerif.Lemmas.C08Flat
/-
  C08, second part — the flat-array executable model (what the driver runs and the correspondence compares with
  sigpy: `convolveM` / `adjointM` / `linopApply` of Model/C08.lean) versus the index-level definitions the adjoint
  theorems of Props/C08.lean are about; the generated guard table and reshape plumbing of `_get_convolve_params`,
  `_convolve`, `_convolve_data_adjoint`, `_convolve_filter_adjoint` (Gen.ConvParams, Gen.ConvWiring); the generated
  wiring of the four Linop classes (Gen.ConvLinops).
-/
namespace SigpyVerif.C08
open SigpyVerif

/-! ### the generated guard table and strides block of `_get_convolve_params` -/

/-- **guard table**: `_get_convolve_params` has exactly four explicit `raise` statements, in this order: the
    channel-count check (multi_channel), the length check of `strides`, the size test of mode 'valid', the `else` of
    the mode chain — and the model's error replies carry the exception classes the source names there (so a removed,
    added or reordered guard breaks this theorem, and another exception class changes the reply the correspondence
    compares with the real exception). -/
theorem guard_table :
    Gen.paramGuards.map (·.1) = [.channel, .stridesLen, .validSize, .badMode] ∧
    (∀ g : Gen.ConvGuard, ∃ r ∈ Gen.paramGuards, r.1 = g ∧ guardExc g = r.2) := by
  refine ⟨by decide, ?_⟩
  intro g
  cases g <;> decide

/-- **strides block** (generated): the default is `D` ones, and a given `strides` is rejected exactly when its
    length differs from `D`. -/
theorem strides_spec (D : Nat) (l : Nat) :
    Gen.paramStridesDefault D = List.replicate D 1 ∧ (Gen.paramStridesBad l D = true ↔ l ≠ D) := by
  unfold Gen.paramStridesDefault Gen.paramStridesBad
  constructor
  · simp
  · -- robust to the orientation / an equivalent spelling of the comparison in the source
    simp only [decide_eq_true_eq]
    constructor <;> intro h <;> omega

example : getStrides 2 none = .ok [1, 1] ∧ (getStrides 2 (some [3])).toOption = none ∧
    getStrides 2 (some [3, 2]) = .ok [3, 2] := by decide

/-! ### the caller's shapes and what `_get_convolve_params` returns for them -/

/-- `data.shape = b + (c_i,) + m` (multi_channel) / `b + m` -/
def dshOf (mc : Bool) (b : List Int) (ci : Int) (m : List Int) : List Int := b ++ (if mc then [ci] else []) ++ m
/-- `filt.shape = (c_o, c_i) + n` (multi_channel) / `n` -/
def fshOf (mc : Bool) (co ci : Int) (n : List Int) : List Int := (if mc then [co, ci] else []) ++ n
/-- `strides` is None or has one entry per spatial axis -/
def stridesOk (st : Option (List Int)) (D : Nat) : Prop := ∀ s, st = some s → s.length = D
/-- the strides in force -/
def stridesOf (st : Option (List Int)) (D : Nat) : List Int := st.getD (List.replicate D 1)

def paramsOf (full : Bool) (b m n s : List Int) (ci co : Int) : Params :=
  { b := b, B := shapeProd b, m := m, n := n, s := s, ci := ci, co := co, p := zip3With (codeLen full) m n s }

theorem stridesOf_length (st : Option (List Int)) (D : Nat) (h : stridesOk st D) : (stridesOf st D).length = D := by
  unfold stridesOf
  cases st with
  | none => simp
  | some s => simpa using h s rfl

/-- **`_get_convolve_params` on every admitted call** (index expressions, strides block and guards generated): for
    `data_shape = b + (c_i,) + m`, `filt_shape = (c_o, c_i) + n` (or `b + m`, `n` and `c_i = c_o = 1` without
    channels), `D = len(n) = len(m) ≥ 1`, strides None or of length `D`, mode 'full' or an admitted 'valid' size
    combination, it returns exactly `b, B = prod(b), m, n, s, c_i, c_o` and `p_d` = the generated length formula. -/
theorem getParams_eq (mc full : Bool) (b m n : List Int) (ci co : Int) (st : Option (List Int))
    (h : m.length = n.length) (hn : 1 ≤ n.length) (hc : mc = false → ci = 1 ∧ co = 1) (hst : stridesOk st n.length)
    (hadm : full = true ∨ Gen.convValidRejects m n = false) :
    getParams (dshOf mc b ci m) (fshOf mc co ci n) (some full) st mc =
      .ok (paramsOf full b m n (stridesOf st n.length) ci co) := by
  have hS : splitShapes (dshOf mc b ci m) (fshOf mc co ci n) mc =
      .ok { D := n.length, b := b, m := m, n := n, ci := ci, co := co } := by
    cases mc with
    | true =>
      have := split_mc b m n ci ci co h hn
      simpa [dshOf, fshOf] using this
    | false =>
      obtain ⟨rfl, rfl⟩ := hc rfl
      have := split_sc b m n h hn
      simpa [dshOf, fshOf] using this
  have hStr : getStrides (n.length : Int) st = .ok (stridesOf st n.length) := by
    unfold getStrides stridesOf
    cases st with
    | none => simp [(strides_spec n.length 0).1]
    | some s =>
      have : ¬ (Gen.paramStridesBad s.length n.length = true) := by
        rw [(strides_spec n.length s.length).2]; simpa using hst s rfl
      simp [this]
  have hP : getP (some full) m n (stridesOf st n.length) = .ok (zip3With (codeLen full) m n (stridesOf st n.length)) := by
    unfold getP
    cases full with
    | true =>
      have : codeLen true = Gen.convFullLen := by funext a b c; simp [codeLen]
      simp [this]
    | false =>
      have hr : Gen.convValidRejects m n = false := by simpa using hadm
      have : codeLen false = Gen.convValidLen := by funext a b c; simp [codeLen]
      simp [this, hr]
  unfold getParams
  simp only [hS, hStr, hP, paramsOf]

/-! ### small facts about numpy's reshape / broadcast contracts -/

theorem npReshape_self (dims : List Int) (size : Int) (hnn : ∀ d ∈ dims, 0 ≤ d) (h : shapeProd dims = size) :
    npReshape size dims = some dims := by
  unfold npReshape
  have f1 : dims.filter (fun d => decide (d ≥ 0)) = dims :=
    List.filter_eq_self.mpr (by intro d hd; simpa using hnn d hd)
  have f2 : dims.filter (fun d => decide (d < 0)) = [] :=
    List.filter_eq_nil_iff.mpr (by intro d hd; simpa using hnn d hd)
  simp [f1, f2, h]

theorem bcast_self (p : List Int) : bcast p p = true := by
  unfold bcast
  induction p with
  | nil => simp
  | cons a p ih => simp_all

theorem bIdx_self (p k : List Int) (hk : k ∈ allIdx p) : bIdx p k = k := by
  induction p generalizing k with
  | nil =>
    have : k = [] := by simpa [allIdx] using hk
    subst this
    simp [bIdx]
  | cons n p ih =>
    cases k with
    | nil => simp [C09.mem_allIdx] at hk
    | cons i k =>
      rw [C09.mem_allIdx, List.forall₂_cons] at hk
      obtain ⟨hi, hk'⟩ := hk
      unfold bIdx at ih ⊢
      rw [List.zipWith_cons_cons, ih k (C09.mem_allIdx.mpr hk')]
      by_cases h1 : n = 1
      · subst h1
        have : i = 0 := by omega
        simp [this]
      · simp [h1]

/-! ### per-axis records of `mkAxes` as lists -/

theorem zip3_map {β : Type} (g : Int × Int × Int → β) (m n s : List Int) :
    (List.zip m (List.zip n s)).map g = zip3With (fun a b c => g (a, b, c)) m n s := by
  induction m generalizing n s with
  | nil => simp [zip3With]
  | cons a m ih =>
    cases n with
    | nil => simp [zip3With]
    | cons b n =>
      cases s with
      | nil => simp [zip3With]
      | cons c s => simp [zip3With, ih]

theorem zip3With_12 {β : Type} (G : Int → Int → β) (m n s : List Int) (h1 : m.length = n.length)
    (h2 : n.length = s.length) : zip3With (fun a b _ => G a b) m n s = List.zipWith G m n := by
  induction m generalizing n s with
  | nil => simp [zip3With]
  | cons a m ih =>
    cases n with
    | nil => simp at h1
    | cons b n =>
      cases s with
      | nil => simp at h2
      | cons c s =>
        simp only [zip3With, List.zipWith_cons_cons]
        rw [ih n s (by simpa using h1) (by simpa using h2)]

theorem zip3With_3 (m n s : List Int) (h1 : m.length = n.length) (h2 : n.length = s.length) :
    zip3With (fun _ _ c => c) m n s = s := by
  induction m generalizing n s with
  | nil =>
    cases s with
    | nil => simp [zip3With]
    | cons c s => cases n <;> simp_all
  | cons a m ih =>
    cases n with
    | nil => simp at h1
    | cons b n =>
      cases s with
      | nil => simp at h2
      | cons c s =>
        simp only [zip3With]
        rw [ih n s (by simpa using h1) (by simpa using h2)]

theorem zipWith_fst (m n : List Int) (h : m.length = n.length) : List.zipWith (fun a _ => a) m n = m := by
  induction m generalizing n with
  | nil => simp
  | cons a m ih =>
    cases n with
    | nil => simp at h
    | cons b n => simp [ih n (by simpa using h)]

theorem zipWith_snd (m n : List Int) (h : m.length = n.length) : List.zipWith (fun _ b => b) m n = n := by
  induction m generalizing n with
  | nil => cases n <;> simp_all
  | cons a m ih =>
    cases n with
    | nil => simp at h
    | cons b n => simp [ih n (by simpa using h)]

theorem zip3With_map {β γ : Type} (F : β → γ) (f : Int → Int → Int → β) (m n s : List Int) :
    (zip3With f m n s).map F = zip3With (fun a b c => F (f a b c)) m n s := by
  induction m generalizing n s with
  | nil => simp [zip3With]
  | cons a m ih =>
    cases n with
    | nil => simp [zip3With]
    | cons b n =>
      cases s with
      | nil => simp [zip3With]
      | cons c s => simp [zip3With, ih]

/-- the per-axis fields of the records `mkAxes true …` (data adjoint / forward map), as lists -/
theorem mkAxes_true_fields (full : Bool) (m n s : List Int) (h1 : m.length = n.length) (h2 : n.length = s.length) :
    (mkAxes true full m n s).map (·.m) = m ∧ (mkAxes true full m n s).map (·.n) = n ∧
    (mkAxes true full m n s).map (·.s) = s ∧
    (mkAxes true full m n s).map (·.off) = List.zipWith (convOff full) m n ∧
    (mkAxes true full m n s).map (·.p) = zip3With (codeLen full) m n s ∧
    (mkAxes true full m n s).length = n.length := by
  have fN : (mkAxes true full m n s).map (·.n) = n := by
    unfold mkAxes
    simp only [zip3_map, zip3With_map]
    exact (zip3With_12 (fun _ b => b) m n s h1 h2).trans (zipWith_snd m n h1)
  refine ⟨?_, fN, ?_, ?_, ?_, ?_⟩
  · unfold mkAxes
    simp only [zip3_map, zip3With_map]
    exact (zip3With_12 (fun a _ => a) m n s h1 h2).trans (zipWith_fst m n h1)
  · unfold mkAxes
    simp only [zip3_map, zip3With_map]
    exact zip3With_3 m n s h1 h2
  · unfold mkAxes
    simp only [zip3_map, zip3With_map]
    exact zip3With_12 (convOff full) m n s h1 h2
  · unfold mkAxes
    simp only [zip3_map, zip3With_map]
  · rw [← List.length_map (f := fun a : Axis => a.n), fN]

theorem sliceLen_counts (L s : Int) (hs : 0 < s) (k : Int) :
    (0 ≤ k ∧ k * s < L) ↔ (0 ≤ k ∧ k < sliceLen L s) := by
  rw [ceil_count L s k hs, pyDiv_of_pos _ hs]
  unfold sliceLen pyRange
  simp only [show ¬ (s ≤ 0) by omega, if_false, List.length_map, List.length_range, sub_zero]
  constructor <;> rintro ⟨h0, h1⟩ <;> exact ⟨h0, by omega⟩

/-- the stride slice of scipy's result has exactly the advertised length (any mode, either size order) -/
theorem sliceLen_eq_codeLen (full : Bool) (a b c : Int) (ha : 1 ≤ a) (hb : 1 ≤ b) (hc : 1 ≤ c) :
    sliceLen (scipyLen full a b) c = codeLen full a b c := by
  have hs : 0 < c := by omega
  have h1 := sliceLen_counts (scipyLen full a b) c hs
  have h2 := fun k => conv_out_len_any full a b c k hs
  have hL : 1 ≤ scipyLen full a b := by
    unfold scipyLen intAbs; cases full <;> simp <;> (try split_ifs) <;> omega
  have hp2 : 0 < codeLen full a b c := ((h2 0).mp ⟨le_refl 0, by omega⟩).2
  have hp1 : 0 ≤ sliceLen (scipyLen full a b) c := by unfold sliceLen; exact Int.natCast_nonneg _
  rcases lt_trichotomy (sliceLen (scipyLen full a b) c) (codeLen full a b c) with hlt | heq | hgt
  · have := (h1 _).mp ((h2 _).mpr ⟨hp1, hlt⟩)
    omega
  · exact heq
  · have := (h2 _).mp ((h1 _).mpr ⟨le_of_lt hp2, hgt⟩)
    omega

theorem zipWith_sliceLen_eq (full : Bool) (m n s : List Int) (hm : ∀ x ∈ m, 1 ≤ x) (hn : ∀ x ∈ n, 1 ≤ x)
    (hs : ∀ x ∈ s, 1 ≤ x) :
    List.zipWith sliceLen (List.zipWith (scipyLen full) m n) s = zip3With (codeLen full) m n s := by
  induction m generalizing n s with
  | nil => simp [zip3With]
  | cons a m ih =>
    cases n with
    | nil => simp [zip3With]
    | cons b n =>
      cases s with
      | nil => simp [zip3With]
      | cons c s =>
        simp only [zip3With, List.zipWith_cons_cons]
        rw [sliceLen_eq_codeLen full a b c (hm a (by simp)) (hn b (by simp)) (hs c (by simp)),
          ih n s (fun x hx => hm x (by simp [hx])) (fun x hx => hn x (by simp [hx])) (fun x hx => hs x (by simp [hx]))]

/-! ### (1) the flat-array forward model is the index-level definition -/

section flat
variable {α : Type} [CommRing α]

/-- **`convolve` (flat arrays, what the driver runs and the correspondence compares with `sigpy.convolve`) equals the
    index-level definition `convMCD`** the adjoint theorems are about — for every number of spatial axes, every batch
    shape, with or without channels, both modes (either size order in 'valid'), default or explicit strides:
    on every admitted call with positive extents the reply is `ok`, its shape is `b + (c_o,) + p` (resp. `b + p`) with
    `p` the generated length formula, and the entry at the row-major position of `(b, o, k)` is
    `convMCD (mkAxes …) B c_o c_i data filt b o k` (`data`, `filt` read in the normalised `(B, c_i) + m`,
    `(c_o, c_i) + n` layouts).  Consequently `adjoint_nd_mc_code` is a statement about the very function compared with
    the real code. -/
theorem convolve_eq_index (mc full : Bool) (b m n : List Int) (ci co : Int) (st : Option (List Int)) (cd cf : Bool)
    (data filt : Array α)
    (hlen : m.length = n.length) (hn : 1 ≤ n.length) (hc : mc = false → ci = 1 ∧ co = 1)
    (hst : stridesOk st n.length) (hadm : full = true ∨ Gen.convValidRejects m n = false)
    (hpos : ∀ x ∈ b ++ [ci, co] ++ m ++ n ++ stridesOf st n.length, 1 ≤ x)
    (hdt : convOutcome cd cf ≠ .typeError) :
    convolve (dshOf mc b ci m) (fshOf mc co ci n) full st mc cd cf data filt =
      .ok (b ++ (if mc then [co] else []) ++ (mkAxes true full m n (stridesOf st n.length)).map (·.p),
        ((allIdx (shapeProd b :: co :: (mkAxes true full m n (stridesOf st n.length)).map (·.p))).map fun idx =>
          match idx with
          | bi :: o :: k =>
            convMCD (mkAxes true full m n (stridesOf st n.length)) (shapeProd b).toNat co.toNat ci.toNat
              (fun i j r => readZ (shapeProd b :: ci :: m) data (i :: j :: r))
              (fun i j r => readZ (co :: ci :: n) filt (i :: j :: r)) bi o k
          | _ => 0).toArray) := by
  have hsl : (stridesOf st n.length).length = n.length := stridesOf_length st _ hst
  generalize hs : stridesOf st n.length = s at *
  obtain ⟨fM, fN, fS, fOff, fP, fLen⟩ := mkAxes_true_fields full m n s hlen hsl.symm
  have hb1 : ∀ x ∈ b, 1 ≤ x := fun x hx => hpos x (by simp [hx])
  have hm1 : ∀ x ∈ m, 1 ≤ x := fun x hx => hpos x (by simp [hx])
  have hn1 : ∀ x ∈ n, 1 ≤ x := fun x hx => hpos x (by simp [hx])
  have hs1 : ∀ x ∈ s, 1 ≤ x := fun x hx => hpos x (by simp [hx])
  have hci : 1 ≤ ci := hpos ci (by simp)
  have hco : 1 ≤ co := hpos co (by simp)
  have hB : 0 < shapeProd b := C09.shapeProd_pos b (fun x hx => by have := hb1 x hx; omega)
  have hok := mkAxes_ok_admitted true full m n s
    (fun x hx => ⟨hm1 _ (List.of_mem_zip hx).1, hn1 _ (List.of_mem_zip hx).2⟩) hadm
    (fun c hc => by have := hs1 c hc; omega)
  have hp0 : ∀ x ∈ zip3With (codeLen full) m n s, 0 ≤ x := by
    intro x hx
    rw [← fP, List.mem_map] at hx
    obtain ⟨a, ha, rfl⟩ := hx
    exact (hok a ha).2.2.1
  rw [fP]
  unfold convolve convolveM
  rw [getParams_eq mc full b m n ci co st hlen hn hc hst hadm, hs]
  simp only [wiring_flags.1, Bool.not_true, Bool.false_eq_true, if_false, Option.getD_some]
  -- the generated shape expressions
  have eD : evalShape (paramsOf full b m n s ci co) (dshOf mc b ci m) (fshOf mc co ci n) Gen.convNorm_data =
      shapeProd b :: ci :: m := by simp [evalShape, evalTerm, Gen.convNorm_data, paramsOf]
  have eF : evalShape (paramsOf full b m n s ci co) (dshOf mc b ci m) (fshOf mc co ci n) Gen.convNorm_filt =
      co :: ci :: n := by simp [evalShape, evalTerm, Gen.convNorm_filt, paramsOf]
  have eO : evalShape (paramsOf full b m n s ci co) (dshOf mc b ci m) (fshOf mc co ci n) Gen.convNorm_output =
      shapeProd b :: co :: zip3With (codeLen full) m n s := by
    simp [evalShape, evalTerm, Gen.convNorm_output, paramsOf]
  have eFin : evalShape (paramsOf full b m n s ci co) (dshOf mc b ci m) (fshOf mc co ci n)
      (if mc then Gen.convFinalMc else Gen.convFinalSc) =
        b ++ (if mc then [co] else []) ++ zip3With (codeLen full) m n s := by
    cases mc <;> simp [evalShape, evalTerm, Gen.convFinalMc, Gen.convFinalSc, paramsOf]
  have g1 : domainBad (paramsOf full b m n s ci co) = false := by
    unfold domainBad paramsOf
    rw [List.any_eq_false]
    intro x hx
    have := hpos x (by simpa using hx)
    simp; omega
  have g2 : npReshape (shapeProd (dshOf mc b ci m)) (shapeProd b :: ci :: m) = some (shapeProd b :: ci :: m) := by
    apply npReshape_self
    · intro d hd
      simp only [List.mem_cons] at hd
      rcases hd with rfl | rfl | hd
      · omega
      · omega
      · have := hm1 d hd; omega
    · cases mc with
      | true => simp [dshOf, C09.shapeProd_append, C09.shapeProd_cons, C09.shapeProd_nil, mul_assoc]
      | false =>
        obtain ⟨rfl, _⟩ := hc rfl
        simp [dshOf, C09.shapeProd_append, C09.shapeProd_cons]
  have g3 : npReshape (shapeProd (fshOf mc co ci n)) (co :: ci :: n) = some (co :: ci :: n) := by
    apply npReshape_self
    · intro d hd
      simp only [List.mem_cons] at hd
      rcases hd with rfl | rfl | hd
      · omega
      · omega
      · have := hn1 d hd; omega
    · cases mc with
      | true => simp [fshOf, C09.shapeProd_cons]
      | false =>
        obtain ⟨rfl, rfl⟩ := hc rfl
        simp [fshOf, C09.shapeProd_cons]
  have g4 : (paramsOf full b m n s ci co).p.any (· < 0) = false := by
    rw [List.any_eq_false]
    intro x hx
    have := hp0 x (by simpa [paramsOf] using hx)
    simp; omega
  have g5 : List.zipWith sliceLen (List.zipWith (scipyLen full) m n) s = zip3With (codeLen full) m n s :=
    zipWith_sliceLen_eq full m n s hm1 hn1 hs1
  have g6 : (convOutcome cd cf == DtypeOutcome.typeError) = false := by
    simpa using hdt
  have g7 : npReshape (shapeProd (shapeProd b :: co :: zip3With (codeLen full) m n s))
      (b ++ (if mc then [co] else []) ++ zip3With (codeLen full) m n s) =
      some (b ++ (if mc then [co] else []) ++ zip3With (codeLen full) m n s) := by
    apply npReshape_self
    · intro d hd
      simp only [List.mem_append] at hd
      rcases hd with (hd | hd) | hd
      · have := hb1 d hd; omega
      · cases mc <;> simp at hd; omega
      · exact hp0 d hd
    · cases mc with
      | true => simp [C09.shapeProd_append, C09.shapeProd_cons, C09.shapeProd_nil, mul_assoc]
      | false =>
        obtain ⟨_, rfl⟩ := hc rfl
        simp [C09.shapeProd_append, C09.shapeProd_cons]
  unfold convolveCore
  simp only [eD, eF, eO, eFin, g1, g2, g3, g4, g6, g7, Bool.false_eq_true, if_false, ne_eq, not_true_eq_false,
    or_self]
  have hpm : (paramsOf full b m n s ci co).m = m := rfl
  have hpn : (paramsOf full b m n s ci co).n = n := rfl
  have hps : (paramsOf full b m n s ci co).s = s := rfl
  have hpp : (paramsOf full b m n s ci co).p = zip3With (codeLen full) m n s := rfl
  simp only [hpm, hpn, hps, hpp, g5, bcast_self, Bool.not_true, Bool.false_eq_true, if_false]
  congr 2
  apply congrArg
  apply List.map_congr_left
  intro idx hidx
  have hF := C09.mem_allIdx.mp hidx
  cases hF with
  | cons hb' hF2 =>
    cases hF2 with
    | cons ho' hk' =>
      rename_i bi o k
      have hk : k ∈ allIdx (zip3With (codeLen full) m n s) := C09.mem_allIdx.mpr hk'
      have hklen : k.length = (mkAxes true full m n s).length := by
        rw [C09.length_of_mem_allIdx hk, ← fP, List.length_map]
      simp only [bIdx_self _ k hk]
      unfold convMCD
      rw [loopSumL_eq]
      show loopSum _ _ _ _ _ _ _ = loopSum _ _ _ _ _ _ _
      congr 1
      funext b' o' c'
      have := convNDAt_eq_convD (mkAxes true full m n s)
        (fun ii => readZ (shapeProd b :: ci :: m) data (pick Gen.convLhsIdx.1 b' o' c' :: pick Gen.convLhsIdx.2 b' o' c' :: ii))
        (fun jj => readZ (co :: ci :: n) filt (pick Gen.convRhsIdx.1 b' o' c' :: pick Gen.convRhsIdx.2 b' o' c' :: jj))
        k hklen (by
          intro js hjs
          unfold readZ
          rw [fN] at hjs
          simp [inBounds_cons, hjs])
      rw [fM, fOff, fS] at this
      exact this

end flat

end SigpyVerif.C08

namespace SigpyVerif.C08
open SigpyVerif

/-! ### (4) the Linop classes: generated constructor / `_apply` / `_adjoint_linop` wiring, every mode / strides /
    multi_channel combination -/

/-- `Linop.apply`'s output-shape check around a `conv.*` call -/
def checkO {α : Type} (o : List Int) (r : Except String (List Int × Array α)) : Except String (List Int × Array α) :=
  match r with
  | .error e => .error e
  | .ok (sh, a) => if sh ≠ o then .error "ValueError" else .ok (sh, a)

/-- **`.H` of every Convolve* Linop** (generated wiring, all `mode` / `strides` / `multi_channel` values, any shapes):
    whenever the constructor of class `c` succeeds and registers `(oshape, ishape) = (o, i)`, `_adjoint_linop`
    constructs the partner class with *the same* constructor arguments (shape argument, frozen array, mode, strides,
    multi_channel), that constructor succeeds too and registers the swapped pair `(i, o)`; and the class's own
    shape argument is its `ishape` (ConvolveData / ConvolveFilter) resp. its `oshape` (the two adjoint classes). -/
theorem linop_H_wiring (c : Gen.ConvCls) (g : LinopCfg) (o i : List Int) (h : linopShapes c g = .ok (o, i)) :
    linopAdjoint c g = .ok (partner c, g) ∧ linopShapes (partner c) g = .ok (i, o) ∧
    ((c = .data ∨ c = .filter) → i = g.shapeArg) ∧ ((c = .dataAdjoint ∨ c = .filterAdjoint) → o = g.shapeArg) := by
  cases c <;>
  · have h' := h
    unfold linopShapes at h'
    dsimp only [Gen.convLinop] at h'
    simp only [Bool.and_self, Bool.not_true, Bool.false_eq_true, if_false] at h'
    split at h'
    · cases h'
    · rename_i P hP
      generalize hO : (P.b ++ (if g.mc = true then [P.co] else []) ++ P.p) = O at h'
      split_ifs at h' with h1
      cases h'
      have h2 : ∀ (x y : List Int), (x ++ y).any (· ≤ 0) = (y ++ x).any (· ≤ 0) := by
        intro x y; simp only [List.any_append, Bool.or_comm]
      refine ⟨?_, ?_, ?_, ?_⟩
      · unfold linopAdjoint
        rw [h]
        rfl
      · unfold linopShapes
        dsimp only [Gen.convLinop, partner]
        simp only [Bool.and_self, Bool.not_true, Bool.false_eq_true, if_false, hP, hO]
        rw [h2] at h1
        simp only [h1, Bool.false_eq_true, if_false]
      · simp
      · simp

section linop_apply
variable {α : Type} [Add α] [Mul α] [Zero α]

/-- **`_apply` of every Convolve* Linop** (generated wiring): applied to an input of its `ishape`, the class calls
    exactly `convolve(input, filt)` (ConvolveData), `convolve(data, input)` (ConvolveFilter),
    `convolve_data_adjoint(input, filt, data_shape)` / `convolve_filter_adjoint(input, data, filt_shape)` (the adjoint
    classes, with the shape given to the constructor), each with the stored `mode`, `strides`, `multi_channel` — for
    every value of these three.  With `linop_H_wiring`: `ConvolveData(ds, f).H(y) = convolve_data_adjoint(y, f, ds)`
    and `ConvolveFilter(fs, d).H(y) = convolve_filter_adjoint(y, d, fs)` with the same mode, strides, multi_channel,
    so the adjoint pairing of the Linops is the adjoint identity of the functions (`adjoint_nd_mc_code`). -/
theorem linop_apply_wiring (conj re : α → α) (c : Gen.ConvCls) (g : LinopCfg) (o i : List Int)
    (h : linopShapes c g = .ok (o, i)) (ca ci : Bool) (arr x : Array α) :
    linopApply conj re c g ca ci arr i x = checkO o (match c with
      | .data => convolveM i g.arrShape g.mode g.strides g.mc ci ca x arr
      | .filter => convolveM g.arrShape i g.mode g.strides g.mc ca ci arr x
      | .dataAdjoint => adjointM conj re true o g.arrShape g.mode g.strides g.mc false ca ci i x arr
      | .filterAdjoint => adjointM conj re false g.arrShape o g.mode g.strides g.mc ca false ci i x arr) := by
  cases c <;> simp [linopApply, h, Gen.convLinop, checkO] <;> rfl

end linop_apply

/-- non-vacuity: ConvolveData((2,3,5), filt of shape (4,3,2), 'valid', strides (2,), multi_channel) registers
    oshape (2,4,2), ishape (2,3,5); its `.H` is ConvolveDataAdjoint with the same arguments and the swapped shapes -/
example : linopShapes .data ⟨[2, 3, 5], [4, 3, 2], some false, some [2], true⟩ = .ok ([2, 4, 2], [2, 3, 5]) ∧
    linopShapes .dataAdjoint ⟨[2, 3, 5], [4, 3, 2], some false, some [2], true⟩ = .ok ([2, 3, 5], [2, 4, 2]) := by
  decide

end SigpyVerif.C08

namespace SigpyVerif.C08
open SigpyVerif

/-! ### (1) the flat-array adjoints are the index-level definitions -/

/-- inside the zero-stuffed buffer, at a multiple of the strides on every axis, `t / s` is an index of the
    output-side array (`p` counts the samples `0, s, 2s, … < L`) -/
theorem div_mem_allIdx (A : List Axis) (hok : ∀ a ∈ A, a.ok) (t : List Int) (ht : t.length = A.length)
    (hb : inBounds (A.map (·.L)) t = true)
    (hm : (List.zip t (A.map (·.s))).all (fun x => pyMod x.1 x.2 == 0) = true) :
    List.zipWith pyDiv t (A.map (·.s)) ∈ allIdx (A.map (·.p)) := by
  induction A generalizing t with
  | nil =>
    cases t with
    | nil => simp [allIdx]
    | cons _ _ => simp at ht
  | cons a R ih =>
    cases t with
    | nil => simp at ht
    | cons t1 tr =>
      obtain ⟨_, hs, _, hp⟩ := hok a (by simp)
      simp only [List.map_cons, inBounds_cons, Bool.and_eq_true, decide_eq_true_eq, List.zip_cons_cons,
        List.all_cons, beq_iff_eq] at hb hm
      rw [List.map_cons, List.map_cons, List.zipWith_cons_cons, C09.mem_allIdx, List.forall₂_cons, ← C09.mem_allIdx]
      refine ⟨?_, ih (fun b hb' => hok b (by simp [hb'])) tr (by simpa using ht) hb.2 hm.2⟩
      rw [pyDiv_of_pos _ hs]
      have hmod := hm.1
      rw [pyMod_of_pos _ hs] at hmod
      have hq : t1 / a.s * a.s = t1 := Int.ediv_mul_cancel (Int.dvd_of_emod_eq_zero hmod)
      have h0 : 0 ≤ t1 / a.s := Int.ediv_nonneg hb.1.1 (le_of_lt hs)
      exact (hp (t1 / a.s)).mp ⟨h0, by rw [hq]; exact hb.1.2⟩

/-- the per-axis fields of the records `mkAxes w …` as lists (`w`: data adjoint / filter adjoint) -/
theorem mkAxes_fields (w full : Bool) (m n s : List Int) (h1 : m.length = n.length) (h2 : n.length = s.length) :
    (mkAxes w full m n s).map (·.m) = (if w then m else n) ∧
    (mkAxes w full m n s).map (·.n) = (if w then n else m) ∧
    (mkAxes w full m n s).map (·.s) = s ∧
    (mkAxes w full m n s).map (·.L) = List.zipWith (scipyLen full) m n ∧
    (mkAxes w full m n s).map (·.shift) =
      List.zipWith (corrShift (if w then Gen.dataAdjCorrFull full m n else Gen.filtAdjCorrFull full m n))
        (List.zipWith (scipyLen full) m n) (if w then n else m) ∧
    (mkAxes w full m n s).map (·.p) = zip3With (codeLen full) m n s ∧
    (mkAxes w full m n s).length = n.length := by
  have fS : (mkAxes w full m n s).map (·.s) = s := by
    unfold mkAxes
    simp only [zip3_map, zip3With_map]
    exact zip3With_3 m n s h1 h2
  refine ⟨?_, ?_, fS, ?_, ?_, ?_, ?_⟩
  · unfold mkAxes
    simp only [zip3_map, zip3With_map]
    cases w
    · exact (zip3With_12 (fun _ b => b) m n s h1 h2).trans (zipWith_snd m n h1)
    · exact (zip3With_12 (fun a _ => a) m n s h1 h2).trans (zipWith_fst m n h1)
  · unfold mkAxes
    simp only [zip3_map, zip3With_map]
    cases w
    · exact (zip3With_12 (fun a _ => a) m n s h1 h2).trans (zipWith_fst m n h1)
    · exact (zip3With_12 (fun _ b => b) m n s h1 h2).trans (zipWith_snd m n h1)
  · unfold mkAxes
    simp only [zip3_map, zip3With_map]
    cases w
    -- `congr 1 <;> (…)`: when the generated buffer-length formula is already (definitionally) scipy's length
    -- — e.g. the source spells it `abs(m_d - n_d) + 1` — `congr` closes the goal itself
    · refine (zip3With_12 (fun a b => if full then Gen.filtAdjBufLenFull a b else Gen.filtAdjBufLenValid a b)
        m n s h1 h2).trans ?_
      congr 1 <;> (funext a b; exact (adj_buf_len full a b).2)
    · refine (zip3With_12 (fun a b => if full then Gen.dataAdjBufLenFull a b else Gen.dataAdjBufLenValid a b)
        m n s h1 h2).trans ?_
      congr 1 <;> (funext a b; exact (adj_buf_len full a b).1)
  · unfold mkAxes
    simp only [zip3_map, zip3With_map]
    cases w
    · refine (zip3With_12 (fun a b => corrShift (Gen.filtAdjCorrFull full m n)
        (if full then Gen.filtAdjBufLenFull a b else Gen.filtAdjBufLenValid a b) a) m n s h1 h2).trans ?_
      simp only [Bool.false_eq_true, if_false]
      rw [zipWith_zipWith_fst]
      congr 1 <;> (funext a b; rw [(adj_buf_len full a b).2])
    · refine (zip3With_12 (fun a b => corrShift (Gen.dataAdjCorrFull full m n)
        (if full then Gen.dataAdjBufLenFull a b else Gen.dataAdjBufLenValid a b) b) m n s h1 h2).trans ?_
      simp only [if_true]
      rw [zipWith_zipWith_snd]
      congr 1 <;> (funext a b; rw [(adj_buf_len full a b).1])
  · unfold mkAxes
    simp only [zip3_map, zip3With_map]
  · rw [← List.length_map (f := fun a : Axis => a.s), fS]; exact h2.symm

theorem adjL_eq (w full : Bool) (P : Params) : adjL w full P = List.zipWith (scipyLen full) P.m P.n := by
  unfold adjL
  cases w <;> cases full <;> simp only [Bool.false_eq_true, if_false, if_true] <;> congr 1 <;> funext a b <;>
    first
    | simpa using (adj_buf_len false a b).2
    | simpa using (adj_buf_len true a b).2
    | simpa using (adj_buf_len false a b).1
    | simpa using (adj_buf_len true a b).1

/-- both adjoints never drop an imaginary part: the outcome is a TypeError or exact -/
theorem adjOutcome_exact (w full cd cf cy : Bool) (h : adjOutcome w full cd cf cy ≠ .typeError) :
    adjOutcome w full cd cf cy = .exact := by
  revert h
  cases w <;> cases full <;> cases cd <;> cases cf <;> cases cy <;> decide

end SigpyVerif.C08

namespace SigpyVerif.C08
open SigpyVerif

section flatadj
variable {α : Type} [CommRing α]

/-- **`convolve_data_adjoint` (flat arrays, what the driver runs and the correspondence compares with sigpy) equals the
    index-level definition `dataAdjMCD`** — every number of spatial axes, batch shape, with or without channels, both
    modes (either size order in 'valid'), default or explicit strides, any `output` array with the element count of
    `(B, c_o) + p`: the reply is `ok`, has exactly the requested `data_shape`, and the entry at the row-major position
    of `(b, c, i)` is `dataAdjMCD (mkAxes true …) B c_o c_i output filt b c i`. -/
theorem data_adjoint_eq_index (conj re : α → α) (mc full : Bool) (b m n : List Int) (ci co : Int)
    (st : Option (List Int)) (cd cf cy : Bool) (ysh : List Int) (y filt : Array α)
    (hlen : m.length = n.length) (hn : 1 ≤ n.length) (hc : mc = false → ci = 1 ∧ co = 1)
    (hst : stridesOk st n.length) (hadm : full = true ∨ Gen.convValidRejects m n = false)
    (hpos : ∀ x ∈ b ++ [ci, co] ++ m ++ n ++ stridesOf st n.length, 1 ≤ x)
    (hy : shapeProd ysh = shapeProd (shapeProd b :: co :: zip3With (codeLen full) m n (stridesOf st n.length)))
    (hdt : adjOutcome true full cd cf cy ≠ .typeError) :
    adjoint conj re true (dshOf mc b ci m) (fshOf mc co ci n) full st mc cd cf cy ysh y filt =
      .ok (dshOf mc b ci m,
        ((allIdx (shapeProd b :: ci :: m)).map fun idx =>
          match idx with
          | bi :: c :: i =>
            dataAdjMCD conj (mkAxes true full m n (stridesOf st n.length)) (shapeProd b).toNat co.toNat ci.toNat
              (fun i j r => readZ (shapeProd b :: co :: zip3With (codeLen full) m n (stridesOf st n.length)) y (i :: j :: r))
              (fun i j r => readZ (co :: ci :: n) filt (i :: j :: r)) bi c i
          | _ => 0).toArray) := by
  have hsl : (stridesOf st n.length).length = n.length := stridesOf_length st _ hst
  generalize hs : stridesOf st n.length = s at *
  obtain ⟨fM, fN, fS, fL, fSh, fP, fLen⟩ := mkAxes_fields true full m n s hlen hsl.symm
  simp only [if_true] at fM fN fSh
  have hb1 : ∀ x ∈ b, 1 ≤ x := fun x hx => hpos x (by simp [hx])
  have hm1 : ∀ x ∈ m, 1 ≤ x := fun x hx => hpos x (by simp [hx])
  have hn1 : ∀ x ∈ n, 1 ≤ x := fun x hx => hpos x (by simp [hx])
  have hs1 : ∀ x ∈ s, 1 ≤ x := fun x hx => hpos x (by simp [hx])
  have hci : 1 ≤ ci := hpos ci (by simp)
  have hco : 1 ≤ co := hpos co (by simp)
  have hB : 0 < shapeProd b := C09.shapeProd_pos b (fun x hx => by have := hb1 x hx; omega)
  have hmn : ∀ x ∈ List.zip m n, 1 ≤ x.1 ∧ 1 ≤ x.2 :=
    fun x hx => ⟨hm1 _ (List.of_mem_zip hx).1, hn1 _ (List.of_mem_zip hx).2⟩
  have hok := mkAxes_ok_admitted true full m n s hmn hadm (fun c hc => by have := hs1 c hc; omega)
  have hp0 : ∀ x ∈ zip3With (codeLen full) m n s, 0 ≤ x := by
    intro x hx
    rw [← fP, List.mem_map] at hx
    obtain ⟨a, ha, rfl⟩ := hx
    exact (hok a ha).2.2.1
  unfold adjoint adjointM
  rw [getParams_eq mc full b m n ci co st hlen hn hc hst hadm, hs]
  simp only [wiring_flags.2.1, Bool.not_true, Bool.false_eq_true, if_false, Option.getD_some, if_true]
  have eD : evalShape (paramsOf full b m n s ci co) (dshOf mc b ci m) (fshOf mc co ci n) Gen.dataAdjNorm_data =
      shapeProd b :: ci :: m := by simp [evalShape, evalTerm, Gen.dataAdjNorm_data, paramsOf]
  have eF : evalShape (paramsOf full b m n s ci co) (dshOf mc b ci m) (fshOf mc co ci n) Gen.dataAdjNorm_filt =
      co :: ci :: n := by simp [evalShape, evalTerm, Gen.dataAdjNorm_filt, paramsOf]
  have eO : evalShape (paramsOf full b m n s ci co) (dshOf mc b ci m) (fshOf mc co ci n) Gen.dataAdjNorm_output =
      shapeProd b :: co :: zip3With (codeLen full) m n s := by
    simp [evalShape, evalTerm, Gen.dataAdjNorm_output, paramsOf]
  have eFin : evalShape (paramsOf full b m n s ci co) (dshOf mc b ci m) (fshOf mc co ci n)
      (if mc then Gen.dataAdjFinalMc else Gen.dataAdjFinalSc) = dshOf mc b ci m := by
    cases mc <;> simp [evalShape, evalTerm, Gen.dataAdjFinalMc, Gen.dataAdjFinalSc]
  have g1 : domainBad (paramsOf full b m n s ci co) = false := by
    unfold domainBad paramsOf
    rw [List.any_eq_false]
    intro x hx
    have := hpos x (by simpa using hx)
    simp; omega
  have gy : npReshape (shapeProd ysh) (shapeProd b :: co :: zip3With (codeLen full) m n s) =
      some (shapeProd b :: co :: zip3With (codeLen full) m n s) := by
    apply npReshape_self _ _ _ hy.symm
    intro d hd
    simp only [List.mem_cons] at hd
    rcases hd with rfl | rfl | hd
    · omega
    · omega
    · exact hp0 d hd
  have go : npReshape (shapeProd (fshOf mc co ci n)) (co :: ci :: n) = some (co :: ci :: n) := by
    apply npReshape_self
    · intro d hd
      simp only [List.mem_cons] at hd
      rcases hd with rfl | rfl | hd
      · omega
      · omega
      · have := hn1 d hd; omega
    · cases mc with
      | true => simp [fshOf, C09.shapeProd_cons]
      | false =>
        obtain ⟨rfl, rfl⟩ := hc rfl
        simp [fshOf, C09.shapeProd_cons]
  have hL : adjL true full (paramsOf full b m n s ci co) = List.zipWith (scipyLen full) m n := adjL_eq _ _ _
  have g5 : List.zipWith sliceLen (List.zipWith (scipyLen full) m n) s = zip3With (codeLen full) m n s :=
    zipWith_sliceLen_eq full m n s hm1 hn1 hs1
  have hcf : adjCF true full (paramsOf full b m n s ci co) = Gen.dataAdjCorrFull full m n := rfl
  have hout := adjOutcome_exact true full cd cf cy hdt
  have hcl : List.zipWith (scipyLen (Gen.dataAdjCorrFull full m n)) (List.zipWith (scipyLen full) m n) n = m := by
    rw [zipWith_zipWith_snd, zipWith_congr_mem _ (fun a _ => a) m n, zipWith_fst m n hlen]
    intro a b hab
    exact (data_adj_shift_nd full m n hadm a b hab (hmn _ hab).1 (hmn _ hab).2).2
  have gfin : npReshape (shapeProd (shapeProd b :: ci :: m)) (dshOf mc b ci m) = some (dshOf mc b ci m) := by
    apply npReshape_self
    · intro d hd
      unfold dshOf at hd
      simp only [List.mem_append] at hd
      rcases hd with (hd | hd) | hd
      · have := hb1 d hd; omega
      · cases mc <;> simp at hd; omega
      · have := hm1 d hd; omega
    · cases mc with
      | true => simp [dshOf, C09.shapeProd_append, C09.shapeProd_cons]
      | false =>
        obtain ⟨rfl, _⟩ := hc rfl
        simp [dshOf, C09.shapeProd_append, C09.shapeProd_cons]
  have hv : Gen.dataAdjCorrFull full m n = true ∨
      (∀ x ∈ List.zip (List.zipWith (scipyLen full) m n) n, x.1 ≥ x.2) ∨
      (∀ x ∈ List.zip (List.zipWith (scipyLen full) m n) n, x.2 ≥ x.1) := by
    cases full with
    | true =>
      right; left
      intro x hx
      obtain ⟨a, b', hab, rfl⟩ := mem_zip_zipWith_snd _ m n x hx
      have := hmn _ hab
      simp only [scipyLen, if_true] at *
      omega
    | false =>
      have hadm' : Gen.convValidRejects m n = false := by simpa using hadm
      rcases (admit_cases m n).mp hadm' with h | h
      · left
        have hall : ((List.zip m n).all fun ((m_d, n_d) : Int × Int) => decide (m_d ≥ n_d)) = true := by
          simp only [List.all_eq_true, decide_eq_true_eq]; exact fun x hx => h x hx
        unfold Gen.dataAdjCorrFull
        simp [hall]
      · right; right
        intro x hx
        obtain ⟨a, b', hab, rfl⟩ := mem_zip_zipWith_snd _ m n x hx
        have h1 := hmn _ hab
        have h2 := h _ hab
        simp only [scipyLen, intAbs, Bool.false_eq_true, if_false] at *
        split_ifs <;> omega
  have hvalid : (!Gen.dataAdjCorrFull full m n) = true ∧
      (!decide (((List.zip (List.zipWith (scipyLen full) m n) n).all fun x => decide (x.1 ≥ x.2)) = true ∨
        ((List.zip (List.zipWith (scipyLen full) m n) n).all fun x => decide (x.2 ≥ x.1)) = true)) = true ↔ False := by
    simp only [List.all_eq_true, decide_eq_true_eq, iff_false, not_and, Bool.not_eq_eq_eq_not, Bool.not_true,
      decide_eq_false_iff_not, not_not]
    intro hcf0
    rcases hv with h | h | h
    · rw [h] at hcf0; cases hcf0
    · exact Or.inl h
    · exact Or.inr h
  have hpm : (paramsOf full b m n s ci co).m = m := rfl
  have hpn : (paramsOf full b m n s ci co).n = n := rfl
  have hps : (paramsOf full b m n s ci co).s = s := rfl
  have hpB : (paramsOf full b m n s ci co).B = shapeProd b := rfl
  have hpci : (paramsOf full b m n s ci co).ci = ci := rfl
  have hpco : (paramsOf full b m n s ci co).co = co := rfl
  have hex1 : (DtypeOutcome.exact == DtypeOutcome.typeError) = false := by decide
  have hex2 : (DtypeOutcome.exact == DtypeOutcome.dropsImag) = false := by decide
  unfold adjointCore
  simp only [eD, eF, eO, eFin, g1, gy, go, hL, hcf, Bool.false_eq_true, if_false, ne_eq, not_true_eq_false, if_true,
    hpm, hpn, hps, hpB, hpci, hpco, List.drop_succ_cons, List.drop_zero, g5, bcast_self, Bool.not_true, hvalid, hout, hex1,
    hex2, hcl, gfin]
  congr 2
  apply congrArg
  apply List.map_congr_left
  intro idx hidx
  have hF := C09.mem_allIdx.mp hidx
  cases hF with
  | cons hb' hF2 =>
    cases hF2 with
    | cons ho' hk' =>
      rename_i bi c ii
      have hii : ii ∈ allIdx m := C09.mem_allIdx.mpr hk'
      have hiilen : ii.length = (mkAxes true full m n s).length := by
        rw [C09.length_of_mem_allIdx hii, fLen, hlen]
      simp only [bIdx_self _ ii hii]
      unfold dataAdjMCD
      rw [loopSumL_eq]
      show loopSum _ _ _ _ _ _ _ = loopSum _ _ _ _ _ _ _
      congr 1
      funext b' o' c'
      have key := fun Z V => corrNDAt_eq_corrD conj (mkAxes true full m n s) Z V ii hiilen
      simp only [fN, fSh] at key
      rw [key]
      unfold adjD
      apply corrD_congr
      intro ts hts
      rw [stuffD_eq _ _ ts hts, fL, fS]
      by_cases hC : inBounds (List.zipWith (scipyLen full) m n) ts = true ∧
          ((List.zip ts s).all fun x => pyMod x.1 x.2 == 0) = true
      · rw [if_pos hC, if_pos hC]
        have hmem := div_mem_allIdx _ hok ts hts (by rw [fL]; exact hC.1) (by rw [fS]; exact hC.2)
        rw [fS, fP] at hmem
        rw [bIdx_self _ _ hmem]
        rfl
      · rw [if_neg hC, if_neg hC]

/-- **`convolve_filter_adjoint` (flat arrays) equals the index-level definition `filtAdjMCD`** — same generality as
    `data_adjoint_eq_index`: the reply is `ok`, has exactly the requested `filt_shape`, and the entry at the row-major
    position of `(o, c, j)` is `filtAdjMCD (mkAxes false …) B c_o c_i output data o c j`. -/
theorem filter_adjoint_eq_index (conj re : α → α) (mc full : Bool) (b m n : List Int) (ci co : Int)
    (st : Option (List Int)) (cd cf cy : Bool) (ysh : List Int) (y data : Array α)
    (hlen : m.length = n.length) (hn : 1 ≤ n.length) (hc : mc = false → ci = 1 ∧ co = 1)
    (hst : stridesOk st n.length) (hadm : full = true ∨ Gen.convValidRejects m n = false)
    (hpos : ∀ x ∈ b ++ [ci, co] ++ m ++ n ++ stridesOf st n.length, 1 ≤ x)
    (hy : shapeProd ysh = shapeProd (shapeProd b :: co :: zip3With (codeLen full) m n (stridesOf st n.length)))
    (hdt : adjOutcome false full cd cf cy ≠ .typeError) :
    adjoint conj re false (dshOf mc b ci m) (fshOf mc co ci n) full st mc cd cf cy ysh y data =
      .ok (fshOf mc co ci n,
        ((allIdx (co :: ci :: n)).map fun idx =>
          match idx with
          | o :: c :: j =>
            filtAdjMCD conj (mkAxes false full m n (stridesOf st n.length)) (shapeProd b).toNat co.toNat ci.toNat
              (fun i j r => readZ (shapeProd b :: co :: zip3With (codeLen full) m n (stridesOf st n.length)) y (i :: j :: r))
              (fun i j r => readZ (shapeProd b :: ci :: m) data (i :: j :: r)) o c j
          | _ => 0).toArray) := by
  have hsl : (stridesOf st n.length).length = n.length := stridesOf_length st _ hst
  generalize hs : stridesOf st n.length = s at *
  obtain ⟨fM, fN, fS, fL, fSh, fP, fLen⟩ := mkAxes_fields false full m n s hlen hsl.symm
  simp only [Bool.false_eq_true, if_false] at fM fN fSh
  have hb1 : ∀ x ∈ b, 1 ≤ x := fun x hx => hpos x (by simp [hx])
  have hm1 : ∀ x ∈ m, 1 ≤ x := fun x hx => hpos x (by simp [hx])
  have hn1 : ∀ x ∈ n, 1 ≤ x := fun x hx => hpos x (by simp [hx])
  have hs1 : ∀ x ∈ s, 1 ≤ x := fun x hx => hpos x (by simp [hx])
  have hci : 1 ≤ ci := hpos ci (by simp)
  have hco : 1 ≤ co := hpos co (by simp)
  have hB : 0 < shapeProd b := C09.shapeProd_pos b (fun x hx => by have := hb1 x hx; omega)
  have hmn : ∀ x ∈ List.zip m n, 1 ≤ x.1 ∧ 1 ≤ x.2 :=
    fun x hx => ⟨hm1 _ (List.of_mem_zip hx).1, hn1 _ (List.of_mem_zip hx).2⟩
  have hok := mkAxes_ok_admitted false full m n s hmn hadm (fun c hc => by have := hs1 c hc; omega)
  have hp0 : ∀ x ∈ zip3With (codeLen full) m n s, 0 ≤ x := by
    intro x hx
    rw [← fP, List.mem_map] at hx
    obtain ⟨a, ha, rfl⟩ := hx
    exact (hok a ha).2.2.1
  unfold adjoint adjointM
  rw [getParams_eq mc full b m n ci co st hlen hn hc hst hadm, hs]
  simp only [wiring_flags.2.2, Bool.not_true, Bool.false_eq_true, if_false, Option.getD_some, if_true]
  have eD : evalShape (paramsOf full b m n s ci co) (dshOf mc b ci m) (fshOf mc co ci n) Gen.filtAdjNorm_data =
      shapeProd b :: ci :: m := by simp [evalShape, evalTerm, Gen.filtAdjNorm_data, paramsOf]
  have eF : evalShape (paramsOf full b m n s ci co) (dshOf mc b ci m) (fshOf mc co ci n) Gen.filtAdjNorm_filt =
      co :: ci :: n := by simp [evalShape, evalTerm, Gen.filtAdjNorm_filt, paramsOf]
  have eO : evalShape (paramsOf full b m n s ci co) (dshOf mc b ci m) (fshOf mc co ci n) Gen.filtAdjNorm_output =
      shapeProd b :: co :: zip3With (codeLen full) m n s := by
    simp [evalShape, evalTerm, Gen.filtAdjNorm_output, paramsOf]
  have eFin : evalShape (paramsOf full b m n s ci co) (dshOf mc b ci m) (fshOf mc co ci n)
      (if mc then Gen.filtAdjFinalMc else Gen.filtAdjFinalSc) = fshOf mc co ci n := by
    cases mc <;> simp [evalShape, evalTerm, Gen.filtAdjFinalMc, Gen.filtAdjFinalSc]
  have g1 : domainBad (paramsOf full b m n s ci co) = false := by
    unfold domainBad paramsOf
    rw [List.any_eq_false]
    intro x hx
    have := hpos x (by simpa using hx)
    simp; omega
  have gy : npReshape (shapeProd ysh) (shapeProd b :: co :: zip3With (codeLen full) m n s) =
      some (shapeProd b :: co :: zip3With (codeLen full) m n s) := by
    apply npReshape_self _ _ _ hy.symm
    intro d hd
    simp only [List.mem_cons] at hd
    rcases hd with rfl | rfl | hd
    · omega
    · omega
    · exact hp0 d hd
  have go : npReshape (shapeProd (dshOf mc b ci m)) (shapeProd b :: ci :: m) = some (shapeProd b :: ci :: m) := by
    apply npReshape_self
    · intro d hd
      simp only [List.mem_cons] at hd
      rcases hd with rfl | rfl | hd
      · omega
      · omega
      · have := hm1 d hd; omega
    · cases mc with
      | true => simp [dshOf, C09.shapeProd_append, C09.shapeProd_cons]
      | false =>
        obtain ⟨rfl, _⟩ := hc rfl
        simp [dshOf, C09.shapeProd_append, C09.shapeProd_cons]
  have hL : adjL false full (paramsOf full b m n s ci co) = List.zipWith (scipyLen full) m n := adjL_eq _ _ _
  have g5 : List.zipWith sliceLen (List.zipWith (scipyLen full) m n) s = zip3With (codeLen full) m n s :=
    zipWith_sliceLen_eq full m n s hm1 hn1 hs1
  have hcf : adjCF false full (paramsOf full b m n s ci co) = Gen.filtAdjCorrFull full m n := rfl
  have hout := adjOutcome_exact false full cd cf cy hdt
  have hcl : List.zipWith (scipyLen (Gen.filtAdjCorrFull full m n)) (List.zipWith (scipyLen full) m n) m = n := by
    rw [zipWith_zipWith_fst, zipWith_congr_mem _ (fun _ b => b) m n, zipWith_snd m n hlen]
    intro a b hab
    exact (filt_adj_shift_nd full m n hadm a b hab (hmn _ hab).1 (hmn _ hab).2).2
  have gfin : npReshape (shapeProd (co :: ci :: n)) (fshOf mc co ci n) = some (fshOf mc co ci n) := by
    apply npReshape_self
    · intro d hd
      unfold fshOf at hd
      simp only [List.mem_append] at hd
      rcases hd with hd | hd
      · cases mc <;> simp at hd; omega
      · have := hn1 d hd; omega
    · cases mc with
      | true => simp [fshOf, C09.shapeProd_cons]
      | false =>
        obtain ⟨rfl, rfl⟩ := hc rfl
        simp [fshOf, C09.shapeProd_cons]
  have hne : ∃ x, x ∈ List.zip m n := by
    cases m with
    | nil => simp at hlen; omega
    | cons a m' =>
      cases n with
      | nil => simp at hn
      | cons b' n' => exact ⟨(a, b'), by simp⟩
  have hv : Gen.filtAdjCorrFull full m n = true ∨
      (∀ x ∈ List.zip (List.zipWith (scipyLen full) m n) m, x.1 ≥ x.2) ∨
      (∀ x ∈ List.zip (List.zipWith (scipyLen full) m n) m, x.2 ≥ x.1) := by
    cases full with
    | true =>
      right; left
      intro x hx
      obtain ⟨a, b', hab, rfl⟩ := mem_zip_zipWith_fst _ m n x hx
      have := hmn _ hab
      simp only [scipyLen, if_true] at *
      omega
    | false =>
      have hadm' : Gen.convValidRejects m n = false := by simpa using hadm
      rcases (admit_cases m n).mp hadm' with h | h
      · right; right
        intro x hx
        obtain ⟨a, b', hab, rfl⟩ := mem_zip_zipWith_fst _ m n x hx
        have h1 := hmn _ hab
        have h2 := h _ hab
        simp only [scipyLen, intAbs, Bool.false_eq_true, if_false] at *
        split_ifs <;> omega
      · left
        obtain ⟨x0, hx0⟩ := hne
        have hall : ((List.zip m n).all fun ((m_d, n_d) : Int × Int) => decide (m_d ≥ n_d)) = false := by
          rw [← Bool.not_eq_true, List.all_eq_true]
          intro hc'
          have h1 := hc' _ hx0
          have h2 := h _ hx0
          simp at h1 h2; omega
        unfold Gen.filtAdjCorrFull
        simp [hall]
  have hvalid : (!Gen.filtAdjCorrFull full m n) = true ∧
      (!decide (((List.zip (List.zipWith (scipyLen full) m n) m).all fun x => decide (x.1 ≥ x.2)) = true ∨
        ((List.zip (List.zipWith (scipyLen full) m n) m).all fun x => decide (x.2 ≥ x.1)) = true)) = true ↔ False := by
    simp only [List.all_eq_true, decide_eq_true_eq, iff_false, not_and, Bool.not_eq_eq_eq_not, Bool.not_true,
      decide_eq_false_iff_not, not_not]
    intro hcf0
    rcases hv with h | h | h
    · rw [h] at hcf0; cases hcf0
    · exact Or.inl h
    · exact Or.inr h
  have hpm : (paramsOf full b m n s ci co).m = m := rfl
  have hpn : (paramsOf full b m n s ci co).n = n := rfl
  have hps : (paramsOf full b m n s ci co).s = s := rfl
  have hpB : (paramsOf full b m n s ci co).B = shapeProd b := rfl
  have hpci : (paramsOf full b m n s ci co).ci = ci := rfl
  have hpco : (paramsOf full b m n s ci co).co = co := rfl
  have hex1 : (DtypeOutcome.exact == DtypeOutcome.typeError) = false := by decide
  have hex2 : (DtypeOutcome.exact == DtypeOutcome.dropsImag) = false := by decide
  unfold adjointCore
  simp only [eD, eF, eO, eFin, g1, gy, go, hL, hcf, Bool.false_eq_true, if_false, ne_eq, not_true_eq_false, if_true,
    hpm, hpn, hps, hpB, hpci, hpco, List.drop_succ_cons, List.drop_zero, g5, bcast_self, Bool.not_true, hvalid, hout, hex1,
    hex2, hcl, gfin]
  congr 2
  apply congrArg
  apply List.map_congr_left
  intro idx hidx
  have hF := C09.mem_allIdx.mp hidx
  cases hF with
  | cons hb' hF2 =>
    cases hF2 with
    | cons ho' hk' =>
      rename_i bi c ii
      have hii : ii ∈ allIdx n := C09.mem_allIdx.mpr hk'
      have hiilen : ii.length = (mkAxes false full m n s).length := by
        rw [C09.length_of_mem_allIdx hii, fLen]
      simp only [bIdx_self _ ii hii]
      unfold filtAdjMCD
      rw [loopSumL_eq]
      show loopSum _ _ _ _ _ _ _ = loopSum _ _ _ _ _ _ _
      congr 1
      funext b' o' c'
      have key := fun Z V => corrNDAt_eq_corrD conj (mkAxes false full m n s) Z V ii hiilen
      simp only [fN, fSh] at key
      rw [key]
      unfold adjD
      apply corrD_congr
      intro ts hts
      rw [stuffD_eq _ _ ts hts, fL, fS]
      by_cases hC : inBounds (List.zipWith (scipyLen full) m n) ts = true ∧
          ((List.zip ts s).all fun x => pyMod x.1 x.2 == 0) = true
      · rw [if_pos hC, if_pos hC]
        have hmem := div_mem_allIdx _ hok ts hts (by rw [fL]; exact hC.1) (by rw [fS]; exact hC.2)
        rw [fS, fP] at hmem
        rw [bIdx_self _ _ hmem]
        rfl
      · rw [if_neg hC, if_neg hC]

end flatadj

end SigpyVerif.C08

namespace SigpyVerif.C08
open SigpyVerif

/-! ### (3) every argument combination: a result of exactly the computed shape, or an error -/

theorem split_at_getElem (l : List Int) (k : Nat) (r : Int) (h : l[k]? = some r) :
    l = l.take k ++ r :: l.drop (k + 1) := by
  obtain ⟨hk, rfl⟩ := List.getElem?_eq_some_iff.mp h
  rw [← List.drop_eq_getElem_cons hk, List.take_append_drop]

theorem pyGet_some (l : List Int) (i r : Int) (h : pyGet l i = some r) :
    ∃ k : Nat, (k : Int) = (if i < 0 then i + l.length else i) ∧ l[k]? = some r := by
  unfold pyGet at h
  simp only at h
  split_ifs at h with c1 c2
  · exact ⟨(i + l.length).toNat, by omega, h⟩
  · exact ⟨i.toNat, by omega, h⟩

/-- **`_get_convolve_params` inverted** (all argument combinations): whenever the shape split succeeds, the two shape
    arguments *are* `b + (c_i,) + m` and `(c_o, c_i) + n` (resp. `b + m`, `n` with `c_i = c_o = 1`) for the returned
    `b, m, n, c_i, c_o`, with `len(m) = len(n) = D ≥ 1` — no other pair of shapes gets past the split and the channel
    check. -/
theorem splitShapes_inv (dsh fsh : List Int) (mc : Bool) (S : Split) (h : splitShapes dsh fsh mc = .ok S) :
    dsh = dshOf mc S.b S.ci S.m ∧ fsh = fshOf mc S.co S.ci S.n ∧ S.m.length = S.n.length ∧
    S.D = S.n.length ∧ 1 ≤ S.n.length ∧ (mc = false → S.ci = 1 ∧ S.co = 1) := by
  unfold splitShapes at h
  cases mc with
  | false =>
    simp only [Bool.false_eq_true, if_false, Gen.paramD, Gen.paramMSrc, Gen.paramNSrc, Gen.paramBSrc, shapeArg,
      Gen.paramMLo, Gen.paramNLo, Gen.paramBHi, Gen.paramCiDefault, Gen.paramCoDefault] at h
    split_ifs at h with hg
    cases h
    simp only [dshOf, fshOf, Bool.false_eq_true, if_false, List.append_nil, List.nil_append]
    have e1 : pyBound dsh.length (-((fsh.length : Int) - 2 * 0)) = dsh.length - fsh.length := by
      unfold pyBound pyMax pyMin; split_ifs <;> omega
    have e1' : pyBound dsh.length (-((fsh.length : Int) - 2 * 0) - 0) = dsh.length - fsh.length := by
      unfold pyBound pyMax pyMin; split_ifs <;> omega
    have e2 : pyBound fsh.length (-((fsh.length : Int) - 2 * 0)) = 0 := by
      unfold pyBound pyMax pyMin; split_ifs <;> omega
    unfold pyFrom pyUpto
    rw [e1, e1', e2]
    refine ⟨(List.take_append_drop _ _).symm, by simp, ?_, ?_, ?_, by simp⟩
    · simp only [List.length_drop, List.drop_zero]; omega
    · simp
    · simp only [List.drop_zero]; omega
  | true =>
    simp only [if_true, Gen.paramD, Gen.paramMSrc, Gen.paramNSrc, Gen.paramBSrc, shapeArg,
      Gen.paramMLo, Gen.paramNLo, Gen.paramBHi, Gen.paramChkLhsSrc, Gen.paramChkRhsSrc, Gen.paramCiSrc, Gen.paramCoSrc,
      Gen.paramChkLhsIdx, Gen.paramChkRhsIdx, Gen.paramCiIdx, Gen.paramCoIdx] at h
    split_ifs at h with hg
    split at h
    · rename_i l r ci co h1 h2 h3 h4
      split_ifs at h with hne
      cases h
      have hlr : l = r := by simpa using hne
      subst hlr
      simp only [dshOf, fshOf, if_true]
      -- the slice bounds and item indices
      have eM : pyBound dsh.length (-((fsh.length : Int) - 2 * 1)) = dsh.length - (fsh.length - 2) := by
        unfold pyBound pyMax pyMin; split_ifs <;> omega
      have eB : pyBound dsh.length (-((fsh.length : Int) - 2 * 1) - 1) = dsh.length - (fsh.length - 2) - 1 := by
        unfold pyBound pyMax pyMin; split_ifs <;> omega
      have eN : pyBound fsh.length (-((fsh.length : Int) - 2 * 1)) = 2 := by
        unfold pyBound pyMax pyMin; split_ifs <;> omega
      have gD : dsh[dsh.length - (fsh.length - 2) - 1]? = some l := by
        obtain ⟨k, hk, gk⟩ := pyGet_some _ _ _ h2
        have : k = dsh.length - (fsh.length - 2) - 1 := by split_ifs at hk <;> omega
        rw [← this]; exact gk
      have gF1 : fsh[1]? = some l ∧ fsh[1]? = some ci := by
        obtain ⟨k, hk, gk⟩ := pyGet_some _ _ _ h1
        obtain ⟨k', hk', gk'⟩ := pyGet_some _ _ _ h3
        have e : k = 1 := by split_ifs at hk <;> omega
        have e' : k' = 1 := by split_ifs at hk' <;> omega
        subst e; subst e'
        exact ⟨gk, gk'⟩
      have gF0 : fsh[0]? = some co := by
        obtain ⟨k, hk, gk⟩ := pyGet_some _ _ _ h4
        have e : k = 0 := by split_ifs at hk <;> omega
        subst e
        exact gk
      have hci : ci = l := by
        have := gF1.1.symm.trans gF1.2
        simpa using this.symm
      subst hci
      unfold pyFrom pyUpto
      rw [eM, eB, eN]
      have k1 : dsh.length - (fsh.length - 2) = (dsh.length - (fsh.length - 2) - 1) + 1 := by omega
      refine ⟨?_, ?_, ?_, ?_, ?_, fun hc => by cases hc⟩
      · rw [k1]
        simpa using split_at_getElem dsh _ ci gD
      · have a0 := split_at_getElem fsh 0 co gF0
        have a1 := split_at_getElem (fsh.drop 1) 0 ci (by simpa using gF1.2)
        simp only [List.take_zero, List.nil_append, zero_add, List.drop_drop] at a0 a1
        rw [a1] at a0
        simpa using a0
      · simp only [List.length_drop]; omega
      · simp only [List.length_drop]; omega
      · simp only [List.length_drop]; omega
    · cases h

end SigpyVerif.C08

namespace SigpyVerif.C08
open SigpyVerif

/-- **every successful `_get_convolve_params` call is an admitted call** (all argument combinations; generated index
    expressions, strides block, guards): if no guard fires, the mode is 'full' or 'valid', the shapes are
    `b + (c_i,) + m` / `(c_o, c_i) + n` (resp. `b + m` / `n`) for the returned tuples, `strides` is None or has length
    `D`, the 'valid' size test admits `(m, n)`, and the returned `s`, `B`, `p` are the defaults / products / generated
    length formulas.  Conversely `getParams_eq`. -/
theorem getParams_inv (dsh fsh : List Int) (mode : Option Bool) (st : Option (List Int)) (mc : Bool) (P : Params)
    (h : getParams dsh fsh mode st mc = .ok P) :
    ∃ full, mode = some full ∧ dsh = dshOf mc P.b P.ci P.m ∧ fsh = fshOf mc P.co P.ci P.n ∧
      P.m.length = P.n.length ∧ 1 ≤ P.n.length ∧ (mc = false → P.ci = 1 ∧ P.co = 1) ∧
      stridesOk st P.n.length ∧ (full = true ∨ Gen.convValidRejects P.m P.n = false) ∧
      P = paramsOf full P.b P.m P.n (stridesOf st P.n.length) P.ci P.co := by
  unfold getParams at h
  split at h
  · cases h
  rename_i S hS
  split at h
  · cases h
  rename_i s hs
  split at h
  · cases h
  rename_i p hp
  cases h
  obtain ⟨e1, e2, e3, e4, e5, e6⟩ := splitShapes_inv _ _ _ _ hS
  have hst : stridesOk st S.n.length ∧ s = stridesOf st S.n.length := by
    unfold getStrides at hs
    rw [e4] at hs
    cases st with
    | none =>
      simp only [Except.ok.injEq] at hs
      subst hs
      exact ⟨fun s h => (by cases h), by simp [stridesOf, (strides_spec _ 0).1]⟩
    | some s' =>
      simp only at hs
      split_ifs at hs with hb
      simp only [Except.ok.injEq] at hs
      subst hs
      have hl : s'.length = S.n.length := by
        by_contra hne
        exact hb ((strides_spec S.n.length s'.length).2.mpr hne)
      exact ⟨fun s h => (by cases h; exact hl), by simp [stridesOf]⟩
  obtain ⟨hst1, rfl⟩ := hst
  unfold getP at hp
  cases mode with
  | none => simp at hp
  | some full =>
    refine ⟨full, rfl, e1, e2, e3, e5, e6, hst1, ?_, ?_⟩
    · cases full with
      | true => exact Or.inl rfl
      | false =>
        right
        simp only at hp
        split_ifs at hp with hr
        simpa using hr
    · cases full with
      | true =>
        simp only [Except.ok.injEq] at hp
        subst hp
        have : codeLen true = Gen.convFullLen := by funext a b c; simp [codeLen]
        simp [paramsOf, this]
      | false =>
        simp only at hp
        split_ifs at hp with hr
        simp only [Except.ok.injEq] at hp
        subst hp
        have : codeLen false = Gen.convValidLen := by funext a b c; simp [codeLen]
        simp [paramsOf, this]

end SigpyVerif.C08

namespace SigpyVerif.C08
open SigpyVerif

theorem npReshape_nonneg_some (dims r : List Int) (size : Int) (hnn : ∀ d ∈ dims, 0 ≤ d)
    (h : npReshape size dims = some r) : shapeProd dims = size ∧ r = dims := by
  unfold npReshape at h
  have f1 : dims.filter (fun d => decide (d ≥ 0)) = dims :=
    List.filter_eq_self.mpr (by intro d hd; simpa using hnn d hd)
  have f2 : dims.filter (fun d => decide (d < 0)) = [] :=
    List.filter_eq_nil_iff.mpr (by intro d hd; simpa using hnn d hd)
  simp only [f1, f2, List.length_nil] at h
  split_ifs at h with hc
  exact ⟨hc, by simpa using h.symm⟩

theorem domainBad_false (P : Params) (h : domainBad P = false) :
    ∀ x ∈ P.b ++ [P.ci, P.co] ++ P.m ++ P.n ++ P.s, 1 ≤ x := by
  unfold domainBad at h
  rw [List.any_eq_false] at h
  intro x hx
  have := h x hx
  simp at this
  omega

section total
variable {α : Type} [CommRing α]

theorem convolveCore_ok_inv (P : Params) (dsh fsh : List Int) (full mc cd cf : Bool) (data filt : Array α)
    (r : List Int × Array α) (h : convolveCore P dsh fsh full mc cd cf data filt = .ok r) :
    domainBad P = false ∧ (convOutcome cd cf == DtypeOutcome.typeError) = false := by
  unfold convolveCore at h
  dsimp only at h
  split_ifs at h with d1 d2 d3 d4 d5
  all_goals exact ⟨by simpa using d1, by simpa using d4⟩

/-- **`convolve`: exactly the computed shape, or an error — for ALL argument combinations** (any ranks, any channel
    counts, any strides argument, any mode string, filter longer or shorter than the data, any dtypes).  If the model
    of `convolve` answers with an array at all, then the call is an admitted one — the shapes are `b + (c_i,) + m` and
    `(c_o, c_i) + n` (resp. `b + m`, `n`), `len(m) = len(n) ≥ 1`, strides None or of that length, mode 'full' or
    'valid' with a size combination that passes the size test, extents and strides positive, no complex filter with
    real data — and the array has exactly the shape `b + (c_o,) + p` (resp. `b + p`) with `p_d` the generated length
    formula (which counts the samples `0, s, 2s, …` of scipy's result: `conv_out_len_any`), and as many elements as
    that shape.  Every other argument combination (rank or channel mismatch, strides of another length, unknown mode,
    mixed 'valid' sizes, …) is an error.  With `convolve_eq_index` the entries are determined as well. -/
theorem convolve_shape_or_raise (dsh fsh : List Int) (mode : Option Bool) (st : Option (List Int)) (mc cd cf : Bool)
    (data filt : Array α) (sh : List Int) (a : Array α)
    (h : convolveM dsh fsh mode st mc cd cf data filt = .ok (sh, a)) :
    ∃ (full : Bool) (b m n : List Int) (ci co : Int),
      mode = some full ∧ dsh = dshOf mc b ci m ∧ fsh = fshOf mc co ci n ∧ m.length = n.length ∧ 1 ≤ n.length ∧
      (mc = false → ci = 1 ∧ co = 1) ∧ stridesOk st n.length ∧ (full = true ∨ Gen.convValidRejects m n = false) ∧
      (∀ x ∈ b ++ [ci, co] ++ m ++ n ++ stridesOf st n.length, 1 ≤ x) ∧ convOutcome cd cf ≠ .typeError ∧
      sh = b ++ (if mc then [co] else []) ++ zip3With (codeLen full) m n (stridesOf st n.length) ∧
      (a.size : Int) = shapeProd sh := by
  have h0 := h
  unfold convolveM at h
  split_ifs at h with hw
  split at h
  · cases h
  rename_i P hP
  obtain ⟨full, rfl, e1, e2, e3, e4, e5, e6, e7, e8⟩ := getParams_inv _ _ _ _ _ _ hP
  obtain ⟨d1, d4⟩ := convolveCore_ok_inv _ _ _ _ _ _ _ _ _ _ h
  have hpos := domainBad_false P d1
  have hdt : convOutcome cd cf ≠ .typeError := by simpa using d4
  have hPs : P.s = stridesOf st P.n.length := by rw [e8]; rfl
  rw [hPs] at hpos
  refine ⟨full, P.b, P.m, P.n, P.ci, P.co, rfl, e1, e2, e3, e4, e5, e6, e7, hpos, hdt, ?_⟩
  have key := convolve_eq_index mc full P.b P.m P.n P.ci P.co st cd cf data filt e3 e4 e5 e6 e7 hpos hdt
  unfold convolve at key
  rw [e1, e2, key] at h0
  simp only [Except.ok.injEq, Prod.mk.injEq] at h0
  obtain ⟨hsh, ha⟩ := h0
  have hsl : (stridesOf st P.n.length).length = P.n.length := stridesOf_length st _ e6
  have fP := (mkAxes_true_fields full P.m P.n (stridesOf st P.n.length) e3 hsl.symm).2.2.2.2.1
  rw [fP] at hsh ha
  have hok := mkAxes_ok_admitted true full P.m P.n (stridesOf st P.n.length)
    (fun x hx => ⟨hpos _ (by simp [(List.of_mem_zip hx).1]), hpos _ (by simp [(List.of_mem_zip hx).2])⟩) e7
    (fun c hc => by have := hpos c (by simp [hc]); omega)
  have hp0 : ∀ x ∈ zip3With (codeLen full) P.m P.n (stridesOf st P.n.length), 0 ≤ x := by
    intro x hx
    rw [← fP, List.mem_map] at hx
    obtain ⟨a, ha, rfl⟩ := hx
    exact (hok a ha).2.2.1
  have hB : 0 < shapeProd P.b := C09.shapeProd_pos P.b (fun x hx => by have := hpos x (by simp [hx]); omega)
  have hco : 1 ≤ P.co := hpos _ (by simp)
  refine ⟨hsh.symm, ?_⟩
  rw [← ha, C09.map_allIdx_size _ _ (by
    intro d hd
    simp only [List.mem_cons] at hd
    rcases hd with rfl | rfl | hd
    · omega
    · omega
    · exact hp0 d hd), ← hsh]
  have hnn : 0 ≤ shapeProd (shapeProd P.b :: P.co :: zip3With (codeLen full) P.m P.n (stridesOf st P.n.length)) :=
    C09.shapeProd_nonneg _ (by
      intro d hd
      simp only [List.mem_cons] at hd
      rcases hd with rfl | rfl | hd
      · omega
      · omega
      · exact hp0 d hd)
  rw [Int.toNat_of_nonneg hnn]
  cases mc with
  | true => simp [C09.shapeProd_append, C09.shapeProd_cons]
  | false =>
    obtain ⟨_, hco1⟩ := e5 rfl
    simp [C09.shapeProd_append, C09.shapeProd_cons, hco1]

end total

end SigpyVerif.C08

namespace SigpyVerif.C08
open SigpyVerif

theorem shapeProd_dshOf (mc : Bool) (b m : List Int) (ci : Int) (hc : mc = false → ci = 1) :
    shapeProd (dshOf mc b ci m) = shapeProd (shapeProd b :: ci :: m) := by
  cases mc with
  | true => simp [dshOf, C09.shapeProd_append, C09.shapeProd_cons]
  | false =>
    obtain rfl := hc rfl
    simp [dshOf, C09.shapeProd_append, C09.shapeProd_cons]

theorem shapeProd_fshOf (mc : Bool) (n : List Int) (ci co : Int) (hc : mc = false → ci = 1 ∧ co = 1) :
    shapeProd (fshOf mc co ci n) = shapeProd (co :: ci :: n) := by
  cases mc with
  | true => simp [fshOf, C09.shapeProd_cons]
  | false =>
    obtain ⟨rfl, rfl⟩ := hc rfl
    simp [fshOf, C09.shapeProd_cons]

section total2
variable {α : Type} [CommRing α]

theorem adjointCore_ok_inv (conj re : α → α) (w : Bool) (P : Params) (dsh fsh : List Int) (full mc cd cf cy : Bool)
    (ysh osh : List Int) (y other : Array α) (r : List Int × Array α)
    (h : adjointCore conj re w P dsh fsh full mc cd cf cy ysh osh y other = .ok r) :
    domainBad P = false ∧ (adjOutcome w full cd cf cy == DtypeOutcome.typeError) = false ∧
    ∃ yshN, npReshape (shapeProd ysh)
      (evalShape P dsh fsh (if w then Gen.dataAdjNorm_output else Gen.filtAdjNorm_output)) = some yshN := by
  unfold adjointCore at h
  by_cases d1 : domainBad P = true
  · rw [if_pos d1] at h; cases h
  rw [if_neg d1] at h
  dsimp only at h
  cases w <;> simp only [if_true, Bool.false_eq_true, if_false] at h ⊢ <;>
  · split at h
    · cases h
    rename_i yshN hy
    split at h
    · cases h
    split at h
    · cases h
    split at h
    · cases h
    split at h
    · cases h
    rename_i d5
    exact ⟨by simpa using d1, by simpa using d5, yshN, hy⟩

/-- **the adjoints: exactly the requested shape, or an error — for ALL argument combinations** (`w = true`:
    `convolve_data_adjoint`, `w = false`: `convolve_filter_adjoint`; any ranks, channel counts, strides argument, mode
    string, dtypes, and any shape of the `output` array).  If the model answers with an array at all, then the call is
    an admitted one (as in `convolve_shape_or_raise`), the `output` array has exactly as many elements as
    `(B, c_o) + p`, no complex frozen operand meets a real `output`, and the result has exactly the requested shape
    (`data_shape` resp. `filt_shape`) and as many elements.  Everything else is an error.  With
    `data_adjoint_eq_index` / `filter_adjoint_eq_index` the entries are determined as well. -/
theorem adjoint_shape_or_raise (conj re : α → α) (w : Bool) (dsh fsh : List Int) (mode : Option Bool)
    (st : Option (List Int)) (mc cd cf cy : Bool) (ysh : List Int) (y other : Array α) (sh : List Int) (a : Array α)
    (h : adjointM conj re w dsh fsh mode st mc cd cf cy ysh y other = .ok (sh, a)) :
    ∃ (full : Bool) (b m n : List Int) (ci co : Int),
      mode = some full ∧ dsh = dshOf mc b ci m ∧ fsh = fshOf mc co ci n ∧ m.length = n.length ∧ 1 ≤ n.length ∧
      (mc = false → ci = 1 ∧ co = 1) ∧ stridesOk st n.length ∧ (full = true ∨ Gen.convValidRejects m n = false) ∧
      (∀ x ∈ b ++ [ci, co] ++ m ++ n ++ stridesOf st n.length, 1 ≤ x) ∧
      shapeProd ysh = shapeProd (shapeProd b :: co :: zip3With (codeLen full) m n (stridesOf st n.length)) ∧
      adjOutcome w full cd cf cy ≠ .typeError ∧
      sh = (if w then dsh else fsh) ∧ (a.size : Int) = shapeProd sh := by
  have h0 := h
  unfold adjointM at h
  split at h
  · cases h
  split at h
  · cases h
  rename_i P hP
  obtain ⟨full, rfl, e1, e2, e3, e4, e5, e6, e7, e8⟩ := getParams_inv _ _ _ _ _ _ hP
  obtain ⟨d1, d4, yshN, hyN⟩ := adjointCore_ok_inv _ _ _ _ _ _ _ _ _ _ _ _ _ _ _ _ h
  have hpos := domainBad_false P d1
  have hdt : adjOutcome w full cd cf cy ≠ .typeError := by simpa using d4
  have hPs : P.s = stridesOf st P.n.length := by rw [e8]; rfl
  rw [hPs] at hpos
  have hsl : (stridesOf st P.n.length).length = P.n.length := stridesOf_length st _ e6
  have fP := (mkAxes_true_fields full P.m P.n (stridesOf st P.n.length) e3 hsl.symm).2.2.2.2.1
  have hok := mkAxes_ok_admitted true full P.m P.n (stridesOf st P.n.length)
    (fun x hx => ⟨hpos _ (by simp [(List.of_mem_zip hx).1]), hpos _ (by simp [(List.of_mem_zip hx).2])⟩) e7
    (fun c hc => by have := hpos c (by simp [hc]); omega)
  have hp0 : ∀ x ∈ zip3With (codeLen full) P.m P.n (stridesOf st P.n.length), 0 ≤ x := by
    intro x hx
    rw [← fP, List.mem_map] at hx
    obtain ⟨a, ha, rfl⟩ := hx
    exact (hok a ha).2.2.1
  have hB : 0 < shapeProd P.b := C09.shapeProd_pos P.b (fun x hx => by have := hpos x (by simp [hx]); omega)
  have hci : 1 ≤ P.ci := hpos _ (by simp)
  have hco : 1 ≤ P.co := hpos _ (by simp)
  have eO : evalShape P dsh fsh (if w then Gen.dataAdjNorm_output else Gen.filtAdjNorm_output) =
      shapeProd P.b :: P.co :: zip3With (codeLen full) P.m P.n (stridesOf st P.n.length) := by
    rw [e8]
    cases w <;> simp [evalShape, evalTerm, Gen.dataAdjNorm_output, Gen.filtAdjNorm_output, paramsOf]
  rw [eO] at hyN
  have hy := (npReshape_nonneg_some _ _ _ (by
    intro d hd
    simp only [List.mem_cons] at hd
    rcases hd with rfl | rfl | hd
    · omega
    · omega
    · exact hp0 d hd) hyN).1.symm
  refine ⟨full, P.b, P.m, P.n, P.ci, P.co, rfl, e1, e2, e3, e4, e5, e6, e7, hpos, hy, hdt, ?_⟩
  cases w with
  | true =>
    have key := data_adjoint_eq_index conj re mc full P.b P.m P.n P.ci P.co st cd cf cy ysh y other e3 e4 e5 e6 e7
      hpos hy hdt
    unfold adjoint at key
    rw [e1, e2, key] at h0
    simp only [Except.ok.injEq, Prod.mk.injEq] at h0
    obtain ⟨hsh, ha⟩ := h0
    refine ⟨by simpa [e1] using hsh.symm, ?_⟩
    rw [← ha, C09.map_allIdx_size _ _ (by
      intro d hd
      simp only [List.mem_cons] at hd
      rcases hd with rfl | rfl | hd
      · omega
      · omega
      · have := hpos d (by simp [hd]); omega), ← hsh, shapeProd_dshOf mc P.b P.m P.ci (fun hc => (e5 hc).1)]
    exact Int.toNat_of_nonneg (C09.shapeProd_nonneg _ (by
      intro d hd
      simp only [List.mem_cons] at hd
      rcases hd with rfl | rfl | hd
      · omega
      · omega
      · have := hpos d (by simp [hd]); omega))
  | false =>
    have key := filter_adjoint_eq_index conj re mc full P.b P.m P.n P.ci P.co st cd cf cy ysh y other e3 e4 e5 e6 e7
      hpos hy hdt
    unfold adjoint at key
    rw [e1, e2, key] at h0
    simp only [Except.ok.injEq, Prod.mk.injEq] at h0
    obtain ⟨hsh, ha⟩ := h0
    refine ⟨by simpa [e2] using hsh.symm, ?_⟩
    rw [← ha, C09.map_allIdx_size _ _ (by
      intro d hd
      simp only [List.mem_cons] at hd
      rcases hd with rfl | rfl | hd
      · omega
      · omega
      · have := hpos d (by simp [hd]); omega), ← hsh, shapeProd_fshOf mc P.n P.ci P.co e5]
    exact Int.toNat_of_nonneg (C09.shapeProd_nonneg _ (by
      intro d hd
      simp only [List.mem_cons] at hd
      rcases hd with rfl | rfl | hd
      · omega
      · omega
      · have := hpos d (by simp [hd]); omega))

end total2

end SigpyVerif.C08

namespace SigpyVerif.C08
open SigpyVerif

/-! ### the adjoint identities for the flat-array functions themselves -/

theorem mem_allIdx_of_mem_idxSet (ns k : List Int) (h : k ∈ idxSet ns) : k ∈ allIdx ns := by
  induction ns generalizing k with
  | nil => simp [idxSet] at h; subst h; simp [allIdx]
  | cons n ns ih =>
    simp only [idxSet, Finset.mem_image, Finset.mem_product, Finset.mem_range, Prod.exists] at h
    obtain ⟨i, k', ⟨hi, hk'⟩, rfl⟩ := h
    rw [C09.mem_allIdx, List.forall₂_cons, ← C09.mem_allIdx]
    exact ⟨⟨Int.natCast_nonneg i, by omega⟩, ih k' hk'⟩

section capstone
variable {α : Type} [CommRing α] [StarRing α]

/-- `Σ_idx a[idx]·conj(b[idx])` over all multi-indices of `shape`, the arrays read row-major -/
def dotZ (shape : List Int) (a b : Array α) : α :=
  sumD shape fun idx => readZ shape a idx * star (readZ shape b idx)

theorem dotZ_cons2 (A C : Int) (rest : List Int) (a b : Array α) :
    dotZ (A :: C :: rest) a b = ∑ i ∈ Finset.range A.toNat, ∑ j ∈ Finset.range C.toNat, ∑ k ∈ idxSet rest,
      readZ (A :: C :: rest) a ((i : Int) :: (j : Int) :: k) * star (readZ (A :: C :: rest) b ((i : Int) :: (j : Int) :: k)) := by
  unfold dotZ
  simp only [sumD, sumTo_eq_sum, sumD_eq]

/-- reading a model array (built by `(allIdx sh).map F`) with `readZ` -/
theorem readZ_map_allIdx (sh : List Int) (F : List Int → α) (idx : List Int) (h : idx ∈ allIdx sh) :
    readZ sh ((allIdx sh).map F).toArray idx = F idx := by
  unfold readZ
  rw [if_pos ((inBounds_iff_mem_allIdx sh idx).mpr h)]
  exact C09.map_allIdx_getD sh F idx h

/-- **the data-adjoint identity, for the flat-array functions the driver runs and the correspondence compares with
    sigpy** — any number of spatial axes, batch shape, channels or not, both modes (either size order in 'valid'),
    default or explicit strides, any commutative *-ring, any dtype flags that are not rejected: the arrays returned by
    `convolve(data, filt)` and `convolve_data_adjoint(y, filt, data_shape)` of the executable model satisfy
    `⟨convolve(d, f), y⟩ = ⟨d, adj_d(y, f)⟩`, `⟨a, b⟩ = Σ a·conj(b)` over the normalised `(B, c_o) + p`, `(B, c_i) + m`
    layouts (on an admitted call both succeed: `convolve_eq_index`, `data_adjoint_eq_index`). -/
theorem flat_data_adjoint_identity (re : α → α) (mc full : Bool) (b m n : List Int) (ci co : Int) (st : Option (List Int))
    (cd cf cd' cf' cy : Bool) (ysh : List Int) (data filt y : Array α)
    (hlen : m.length = n.length) (hn : 1 ≤ n.length) (hc : mc = false → ci = 1 ∧ co = 1)
    (hst : stridesOk st n.length) (hadm : full = true ∨ Gen.convValidRejects m n = false)
    (hpos : ∀ x ∈ b ++ [ci, co] ++ m ++ n ++ stridesOf st n.length, 1 ≤ x)
    (hy : shapeProd ysh = shapeProd (shapeProd b :: co :: zip3With (codeLen full) m n (stridesOf st n.length)))
    (hd0 : convOutcome cd cf ≠ .typeError) (hd1 : adjOutcome true full cd' cf' cy ≠ .typeError)
    (s1 s2 : List Int) (out ad : Array α)
    (h1 : convolve (dshOf mc b ci m) (fshOf mc co ci n) full st mc cd cf data filt = .ok (s1, out))
    (h2 : adjoint star re true (dshOf mc b ci m) (fshOf mc co ci n) full st mc cd' cf' cy ysh y filt = .ok (s2, ad)) :
    dotZ (shapeProd b :: co :: zip3With (codeLen full) m n (stridesOf st n.length)) out y =
      dotZ (shapeProd b :: ci :: m) data ad := by
  have hsl : (stridesOf st n.length).length = n.length := stridesOf_length st _ hst
  rw [convolve_eq_index mc full b m n ci co st cd cf data filt hlen hn hc hst hadm hpos hd0] at h1
  rw [data_adjoint_eq_index star re mc full b m n ci co st cd' cf' cy ysh y filt hlen hn hc hst hadm hpos hy hd1] at h2
  generalize hs : stridesOf st n.length = s at *
  obtain ⟨fM, -, -, -, fP, -⟩ := mkAxes_true_fields full m n s hlen hsl.symm
  obtain ⟨fM', -, -, -, -, fP', -⟩ := mkAxes_fields false full m n s hlen hsl.symm
  simp only [Bool.false_eq_true, if_false] at fM'
  simp only [Except.ok.injEq, Prod.mk.injEq] at h1 h2
  obtain ⟨-, rfl⟩ := h1
  obtain ⟨-, rfl⟩ := h2
  have hmn : ∀ x ∈ List.zip m n, 1 ≤ x.1 ∧ 1 ≤ x.2 := fun x hx =>
    ⟨hpos _ (by simp [(List.of_mem_zip hx).1]), hpos _ (by simp [(List.of_mem_zip hx).2])⟩
  have hs0 : ∀ c ∈ s, 0 < c := fun c hc => by have := hpos c (by simp [hc]); omega
  have hB : 0 < shapeProd b := C09.shapeProd_pos b (fun x hx => by have := hpos x (by simp [hx]); omega)
  have hci : 1 ≤ ci := hpos _ (by simp)
  have hco : 1 ≤ co := hpos _ (by simp)
  have main := adjoint_nd_mc_code full m n s (shapeProd b).toNat co.toNat ci.toNat
    (fun i j r => readZ (shapeProd b :: ci :: m) data (i :: j :: r))
    (fun i j r => readZ (co :: ci :: n) filt (i :: j :: r))
    (fun i j r => readZ (shapeProd b :: co :: zip3With (codeLen full) m n s) y (i :: j :: r)) hmn hadm hs0
  rw [fP, fM, fM'] at main
  have mem3 : ∀ (A C : Int) (rest : List Int) (i j : Nat) (k : List Int), i ∈ Finset.range A.toNat →
      j ∈ Finset.range C.toNat → k ∈ idxSet rest → ((i : Int) :: (j : Int) :: k) ∈ allIdx (A :: C :: rest) := by
    intro A C rest i j k hi hj hk
    rw [Finset.mem_range] at hi hj
    rw [C09.mem_allIdx, List.forall₂_cons, List.forall₂_cons, ← C09.mem_allIdx]
    exact ⟨⟨Int.natCast_nonneg i, by omega⟩, ⟨Int.natCast_nonneg j, by omega⟩, mem_allIdx_of_mem_idxSet _ _ hk⟩
  have eL : dotZ (shapeProd b :: co :: zip3With (codeLen full) m n s)
      ((allIdx (shapeProd b :: co :: (mkAxes true full m n s).map (·.p))).map fun idx =>
        match idx with
        | bi :: o :: k =>
          convMCD (mkAxes true full m n s) (shapeProd b).toNat co.toNat ci.toNat
            (fun i j r => readZ (shapeProd b :: ci :: m) data (i :: j :: r))
            (fun i j r => readZ (co :: ci :: n) filt (i :: j :: r)) bi o k
        | _ => 0).toArray y =
      ∑ b' ∈ Finset.range (shapeProd b).toNat, ∑ o ∈ Finset.range co.toNat,
        ∑ k ∈ idxSet (zip3With (codeLen full) m n s),
          convMCD (mkAxes true full m n s) (shapeProd b).toNat co.toNat ci.toNat
            (fun i j r => readZ (shapeProd b :: ci :: m) data (i :: j :: r))
            (fun i j r => readZ (co :: ci :: n) filt (i :: j :: r)) b' o k *
          star (readZ (shapeProd b :: co :: zip3With (codeLen full) m n s) y ((b' : Int) :: (o : Int) :: k)) := by
    rw [fP, dotZ_cons2]
    apply Finset.sum_congr rfl; intro i hi
    apply Finset.sum_congr rfl; intro j hj
    apply Finset.sum_congr rfl; intro k hk
    rw [readZ_map_allIdx _ _ _ (mem3 _ _ _ i j k hi hj hk)]
  have eD : dotZ (shapeProd b :: ci :: m) data
      ((allIdx (shapeProd b :: ci :: m)).map fun idx =>
        match idx with
        | bi :: c :: i =>
          dataAdjMCD star (mkAxes true full m n s) (shapeProd b).toNat co.toNat ci.toNat
            (fun i j r => readZ (shapeProd b :: co :: zip3With (codeLen full) m n s) y (i :: j :: r))
            (fun i j r => readZ (co :: ci :: n) filt (i :: j :: r)) bi c i
        | _ => 0).toArray =
      ∑ b' ∈ Finset.range (shapeProd b).toNat, ∑ c ∈ Finset.range ci.toNat, ∑ i ∈ idxSet m,
        readZ (shapeProd b :: ci :: m) data ((b' : Int) :: (c : Int) :: i) *
          star (dataAdjMCD star (mkAxes true full m n s) (shapeProd b).toNat co.toNat ci.toNat
            (fun i j r => readZ (shapeProd b :: co :: zip3With (codeLen full) m n s) y (i :: j :: r))
            (fun i j r => readZ (co :: ci :: n) filt (i :: j :: r)) b' c i) := by
    rw [dotZ_cons2]
    apply Finset.sum_congr rfl; intro i hi
    apply Finset.sum_congr rfl; intro j hj
    apply Finset.sum_congr rfl; intro k hk
    rw [readZ_map_allIdx _ _ _ (mem3 _ _ _ i j k hi hj hk)]
  rw [eL, eD]
  exact main.1

/-- **the filter-adjoint identity for the flat-array functions** (same generality as `flat_data_adjoint_identity`):
    `⟨convolve(d, f), y⟩ = ⟨f, adj_f(y, d)⟩` for the arrays returned by `convolve(data, filt)` and
    `convolve_filter_adjoint(y, data, filt_shape)` of the executable model. -/
theorem flat_filter_adjoint_identity (re : α → α) (mc full : Bool) (b m n : List Int) (ci co : Int) (st : Option (List Int))
    (cd cf cd' cf' cy : Bool) (ysh : List Int) (data filt y : Array α)
    (hlen : m.length = n.length) (hn : 1 ≤ n.length) (hc : mc = false → ci = 1 ∧ co = 1)
    (hst : stridesOk st n.length) (hadm : full = true ∨ Gen.convValidRejects m n = false)
    (hpos : ∀ x ∈ b ++ [ci, co] ++ m ++ n ++ stridesOf st n.length, 1 ≤ x)
    (hy : shapeProd ysh = shapeProd (shapeProd b :: co :: zip3With (codeLen full) m n (stridesOf st n.length)))
    (hd0 : convOutcome cd cf ≠ .typeError) (hd2 : adjOutcome false full cd' cf' cy ≠ .typeError)
    (s1 s3 : List Int) (out af : Array α)
    (h1 : convolve (dshOf mc b ci m) (fshOf mc co ci n) full st mc cd cf data filt = .ok (s1, out))
    (h3 : adjoint star re false (dshOf mc b ci m) (fshOf mc co ci n) full st mc cd' cf' cy ysh y data = .ok (s3, af)) :
    dotZ (shapeProd b :: co :: zip3With (codeLen full) m n (stridesOf st n.length)) out y =
      dotZ (co :: ci :: n) filt af := by
  have hsl : (stridesOf st n.length).length = n.length := stridesOf_length st _ hst
  rw [convolve_eq_index mc full b m n ci co st cd cf data filt hlen hn hc hst hadm hpos hd0] at h1
  rw [filter_adjoint_eq_index star re mc full b m n ci co st cd' cf' cy ysh y data hlen hn hc hst hadm hpos hy hd2] at h3
  generalize hs : stridesOf st n.length = s at *
  obtain ⟨fM, -, -, -, fP, -⟩ := mkAxes_true_fields full m n s hlen hsl.symm
  obtain ⟨fM', -, -, -, -, fP', -⟩ := mkAxes_fields false full m n s hlen hsl.symm
  simp only [Bool.false_eq_true, if_false] at fM'
  simp only [Except.ok.injEq, Prod.mk.injEq] at h1 h3
  obtain ⟨-, rfl⟩ := h1
  obtain ⟨-, rfl⟩ := h3
  have hmn : ∀ x ∈ List.zip m n, 1 ≤ x.1 ∧ 1 ≤ x.2 := fun x hx =>
    ⟨hpos _ (by simp [(List.of_mem_zip hx).1]), hpos _ (by simp [(List.of_mem_zip hx).2])⟩
  have hs0 : ∀ c ∈ s, 0 < c := fun c hc => by have := hpos c (by simp [hc]); omega
  have hB : 0 < shapeProd b := C09.shapeProd_pos b (fun x hx => by have := hpos x (by simp [hx]); omega)
  have hci : 1 ≤ ci := hpos _ (by simp)
  have hco : 1 ≤ co := hpos _ (by simp)
  have main := adjoint_nd_mc_code full m n s (shapeProd b).toNat co.toNat ci.toNat
    (fun i j r => readZ (shapeProd b :: ci :: m) data (i :: j :: r))
    (fun i j r => readZ (co :: ci :: n) filt (i :: j :: r))
    (fun i j r => readZ (shapeProd b :: co :: zip3With (codeLen full) m n s) y (i :: j :: r)) hmn hadm hs0
  rw [fP, fM, fM'] at main
  have mem3 : ∀ (A C : Int) (rest : List Int) (i j : Nat) (k : List Int), i ∈ Finset.range A.toNat →
      j ∈ Finset.range C.toNat → k ∈ idxSet rest → ((i : Int) :: (j : Int) :: k) ∈ allIdx (A :: C :: rest) := by
    intro A C rest i j k hi hj hk
    rw [Finset.mem_range] at hi hj
    rw [C09.mem_allIdx, List.forall₂_cons, List.forall₂_cons, ← C09.mem_allIdx]
    exact ⟨⟨Int.natCast_nonneg i, by omega⟩, ⟨Int.natCast_nonneg j, by omega⟩, mem_allIdx_of_mem_idxSet _ _ hk⟩
  have eL : dotZ (shapeProd b :: co :: zip3With (codeLen full) m n s)
      ((allIdx (shapeProd b :: co :: (mkAxes true full m n s).map (·.p))).map fun idx =>
        match idx with
        | bi :: o :: k =>
          convMCD (mkAxes true full m n s) (shapeProd b).toNat co.toNat ci.toNat
            (fun i j r => readZ (shapeProd b :: ci :: m) data (i :: j :: r))
            (fun i j r => readZ (co :: ci :: n) filt (i :: j :: r)) bi o k
        | _ => 0).toArray y =
      ∑ b' ∈ Finset.range (shapeProd b).toNat, ∑ o ∈ Finset.range co.toNat,
        ∑ k ∈ idxSet (zip3With (codeLen full) m n s),
          convMCD (mkAxes true full m n s) (shapeProd b).toNat co.toNat ci.toNat
            (fun i j r => readZ (shapeProd b :: ci :: m) data (i :: j :: r))
            (fun i j r => readZ (co :: ci :: n) filt (i :: j :: r)) b' o k *
          star (readZ (shapeProd b :: co :: zip3With (codeLen full) m n s) y ((b' : Int) :: (o : Int) :: k)) := by
    rw [fP, dotZ_cons2]
    apply Finset.sum_congr rfl; intro i hi
    apply Finset.sum_congr rfl; intro j hj
    apply Finset.sum_congr rfl; intro k hk
    rw [readZ_map_allIdx _ _ _ (mem3 _ _ _ i j k hi hj hk)]
  have eF : dotZ (co :: ci :: n) filt
      ((allIdx (co :: ci :: n)).map fun idx =>
        match idx with
        | o :: c :: j =>
          filtAdjMCD star (mkAxes false full m n s) (shapeProd b).toNat co.toNat ci.toNat
            (fun i j r => readZ (shapeProd b :: co :: zip3With (codeLen full) m n s) y (i :: j :: r))
            (fun i j r => readZ (shapeProd b :: ci :: m) data (i :: j :: r)) o c j
        | _ => 0).toArray =
      ∑ o ∈ Finset.range co.toNat, ∑ c ∈ Finset.range ci.toNat, ∑ j ∈ idxSet n,
        readZ (co :: ci :: n) filt ((o : Int) :: (c : Int) :: j) *
          star (filtAdjMCD star (mkAxes false full m n s) (shapeProd b).toNat co.toNat ci.toNat
            (fun i j r => readZ (shapeProd b :: co :: zip3With (codeLen full) m n s) y (i :: j :: r))
            (fun i j r => readZ (shapeProd b :: ci :: m) data (i :: j :: r)) o c j) := by
    rw [dotZ_cons2]
    apply Finset.sum_congr rfl; intro i hi
    apply Finset.sum_congr rfl; intro j hj
    apply Finset.sum_congr rfl; intro k hk
    rw [readZ_map_allIdx _ _ _ (mem3 _ _ _ i j k hi hj hk)]
  rw [eL, eF]
  exact main.2

end capstone

end SigpyVerif.C08

namespace SigpyVerif.C08
open SigpyVerif

/-! ### (4) the adjoint pairing of the Linop classes, through the generated wiring -/

theorem checkO_ok {α : Type} {o : List Int} {r : Except String (List Int × Array α)} {x : List Int × Array α}
    (h : checkO o r = .ok x) : r = .ok x ∧ x.1 = o := by
  unfold checkO at h
  split at h
  · cases h
  · rename_i sh a
    split_ifs at h with hne
    cases h
    exact ⟨rfl, by simpa using hne⟩

theorem shapeProd_outOf (mc : Bool) (b p : List Int) (co : Int) (hc : mc = false → co = 1) :
    shapeProd (b ++ (if mc then [co] else []) ++ p) = shapeProd (shapeProd b :: co :: p) := by
  cases mc with
  | true => simp [C09.shapeProd_append, C09.shapeProd_cons]
  | false =>
    obtain rfl := hc rfl
    simp [C09.shapeProd_append, C09.shapeProd_cons]

section linop_pairing
variable {α : Type} [CommRing α] [StarRing α]

/-- **`ConvolveData(data_shape, filt, mode, strides, multi_channel)` and its `.H`** (generated class descriptions,
    every mode / strides / multi_channel value, any number of axes, batch, channels): if `A(x)` succeeds, then `A.H` is
    `ConvolveDataAdjoint` built with the same arguments, and whenever `A.H(y)` succeeds for a `y` of `A`'s output shape,
    `⟨A x, y⟩ = ⟨x, A.H y⟩`. -/
theorem linop_data_pairing (re : α → α) (mc full : Bool) (b m n : List Int) (ci co : Int) (st : Option (List Int))
    (ca cx cy : Bool) (data filt y : Array α)
    (hlen : m.length = n.length) (hn : 1 ≤ n.length) (hc : mc = false → ci = 1 ∧ co = 1)
    (hst : stridesOk st n.length) (hadm : full = true ∨ Gen.convValidRejects m n = false)
    (hpos : ∀ x ∈ b ++ [ci, co] ++ m ++ n ++ stridesOf st n.length, 1 ≤ x)
    (hd0 : convOutcome cx ca ≠ .typeError) (hd1 : adjOutcome true full false ca cy ≠ .typeError)
    (s1 s2 : List Int) (out ad : Array α) (c' : Gen.ConvCls) (g' : LinopCfg)
    (h1 : linopApply star re .data ⟨dshOf mc b ci m, fshOf mc co ci n, some full, st, mc⟩ ca cx filt
      (dshOf mc b ci m) data = .ok (s1, out))
    (hH : linopAdjoint .data ⟨dshOf mc b ci m, fshOf mc co ci n, some full, st, mc⟩ = .ok (c', g'))
    (h2 : linopApply star re c' g' ca cy filt s1 y = .ok (s2, ad)) :
    c' = .dataAdjoint ∧
    dotZ (shapeProd b :: co :: zip3With (codeLen full) m n (stridesOf st n.length)) out y =
      dotZ (shapeProd b :: ci :: m) data ad := by
  generalize hg : (⟨dshOf mc b ci m, fshOf mc co ci n, some full, st, mc⟩ : LinopCfg) = g at *
  cases hS : linopShapes .data g with
  | error e => simp [linopApply, hS] at h1
  | ok oi =>
    obtain ⟨o, i⟩ := oi
    obtain ⟨w1, w2, w3, -⟩ := linop_H_wiring .data g o i hS
    rw [w1] at hH
    simp only [Except.ok.injEq, Prod.mk.injEq] at hH
    obtain ⟨rfl, rfl⟩ := hH
    have hi : i = dshOf mc b ci m := by rw [w3 (Or.inl rfl), ← hg]
    have a1 := linop_apply_wiring star re .data g o i hS ca cx filt data
    rw [← hi] at h1
    rw [a1] at h1
    obtain ⟨k1, k1'⟩ := checkO_ok h1
    simp only at k1 k1'
    subst k1'
    have a2 := linop_apply_wiring star re (partner .data) g i s1 w2 ca cy filt y
    rw [a2] at h2
    obtain ⟨k2, -⟩ := checkO_ok h2
    simp only [partner] at k2
    have garr : g.arrShape = fshOf mc co ci n := by rw [← hg]
    have gmode : g.mode = some full := by rw [← hg]
    have gst : g.strides = st := by rw [← hg]
    have gmc : g.mc = mc := by rw [← hg]
    rw [hi, garr, gmode, gst, gmc] at k1 k2
    have e1 := convolve_eq_index mc full b m n ci co st cx ca data filt hlen hn hc hst hadm hpos hd0
    unfold convolve at e1
    have hs1 : s1 = b ++ (if mc then [co] else []) ++
        (mkAxes true full m n (stridesOf st n.length)).map (·.p) := by
      rw [e1] at k1
      simp only [Except.ok.injEq, Prod.mk.injEq] at k1
      exact k1.1.symm
    have hsl : (stridesOf st n.length).length = n.length := stridesOf_length st _ hst
    have fP := (mkAxes_true_fields full m n (stridesOf st n.length) hlen hsl.symm).2.2.2.2.1
    rw [fP] at hs1
    have hy : shapeProd s1 = shapeProd (shapeProd b :: co :: zip3With (codeLen full) m n (stridesOf st n.length)) := by
      rw [hs1]; exact shapeProd_outOf mc b _ co (fun h => (hc h).2)
    exact ⟨rfl, flat_data_adjoint_identity re mc full b m n ci co st cx ca false ca cy s1 data filt y hlen hn hc hst hadm
      hpos hy hd0 hd1 s1 s2 out ad k1 k2⟩

/-- **`ConvolveFilter(filt_shape, data, mode, strides, multi_channel)` and its `.H`**: the same for the operator that is
    linear in the filter: `A.H` is `ConvolveFilterAdjoint` with the same arguments and `⟨A f, y⟩ = ⟨f, A.H y⟩`. -/
theorem linop_filter_pairing (re : α → α) (mc full : Bool) (b m n : List Int) (ci co : Int) (st : Option (List Int))
    (ca cx cy : Bool) (data filt y : Array α)
    (hlen : m.length = n.length) (hn : 1 ≤ n.length) (hc : mc = false → ci = 1 ∧ co = 1)
    (hst : stridesOk st n.length) (hadm : full = true ∨ Gen.convValidRejects m n = false)
    (hpos : ∀ x ∈ b ++ [ci, co] ++ m ++ n ++ stridesOf st n.length, 1 ≤ x)
    (hd0 : convOutcome ca cx ≠ .typeError) (hd2 : adjOutcome false full ca false cy ≠ .typeError)
    (s1 s3 : List Int) (out af : Array α) (c' : Gen.ConvCls) (g' : LinopCfg)
    (h1 : linopApply star re .filter ⟨fshOf mc co ci n, dshOf mc b ci m, some full, st, mc⟩ ca cx data
      (fshOf mc co ci n) filt = .ok (s1, out))
    (hH : linopAdjoint .filter ⟨fshOf mc co ci n, dshOf mc b ci m, some full, st, mc⟩ = .ok (c', g'))
    (h3 : linopApply star re c' g' ca cy data s1 y = .ok (s3, af)) :
    c' = .filterAdjoint ∧
    dotZ (shapeProd b :: co :: zip3With (codeLen full) m n (stridesOf st n.length)) out y =
      dotZ (co :: ci :: n) filt af := by
  generalize hg : (⟨fshOf mc co ci n, dshOf mc b ci m, some full, st, mc⟩ : LinopCfg) = g at *
  cases hS : linopShapes .filter g with
  | error e => simp [linopApply, hS] at h1
  | ok oi =>
    obtain ⟨o, i⟩ := oi
    obtain ⟨w1, w2, w3, -⟩ := linop_H_wiring .filter g o i hS
    rw [w1] at hH
    simp only [Except.ok.injEq, Prod.mk.injEq] at hH
    obtain ⟨rfl, rfl⟩ := hH
    have hi : i = fshOf mc co ci n := by rw [w3 (Or.inr rfl), ← hg]
    have a1 := linop_apply_wiring star re .filter g o i hS ca cx data filt
    rw [← hi] at h1
    rw [a1] at h1
    obtain ⟨k1, k1'⟩ := checkO_ok h1
    simp only at k1 k1'
    subst k1'
    have a2 := linop_apply_wiring star re (partner .filter) g i s1 w2 ca cy data y
    rw [a2] at h3
    obtain ⟨k2, -⟩ := checkO_ok h3
    simp only [partner] at k2
    have garr : g.arrShape = dshOf mc b ci m := by rw [← hg]
    have gmode : g.mode = some full := by rw [← hg]
    have gst : g.strides = st := by rw [← hg]
    have gmc : g.mc = mc := by rw [← hg]
    rw [hi, garr, gmode, gst, gmc] at k1 k2
    have e1 := convolve_eq_index mc full b m n ci co st ca cx data filt hlen hn hc hst hadm hpos hd0
    unfold convolve at e1
    have hs1 : s1 = b ++ (if mc then [co] else []) ++
        (mkAxes true full m n (stridesOf st n.length)).map (·.p) := by
      rw [e1] at k1
      simp only [Except.ok.injEq, Prod.mk.injEq] at k1
      exact k1.1.symm
    have hsl : (stridesOf st n.length).length = n.length := stridesOf_length st _ hst
    have fP := (mkAxes_true_fields full m n (stridesOf st n.length) hlen hsl.symm).2.2.2.2.1
    rw [fP] at hs1
    have hy : shapeProd s1 = shapeProd (shapeProd b :: co :: zip3With (codeLen full) m n (stridesOf st n.length)) := by
      rw [hs1]; exact shapeProd_outOf mc b _ co (fun h => (hc h).2)
    exact ⟨rfl, flat_filter_adjoint_identity re mc full b m n ci co st ca cx ca false cy s1 data filt y hlen hn hc hst
      hadm hpos hy hd0 hd2 s1 s3 out af k1 k2⟩

end linop_pairing

end SigpyVerif.C08

namespace SigpyVerif.C08
open SigpyVerif

/-! ### non-vacuity -/

/-- the hypotheses of the flat-array theorems hold for a 2-D multi-channel 'valid' call (batch 2, c_i = 2, c_o = 3,
    data 3 x 2, filter 2 x 2, strides (2, 1)) -/
example : stridesOk (some [2, 1]) 2 ∧ (false = true ∨ Gen.convValidRejects [3, 2] [2, 2] = false) ∧
    (∀ x ∈ [2] ++ [2, 3] ++ [3, 2] ++ [2, 2] ++ stridesOf (some [2, 1]) 2, (1 : Int) ≤ x) ∧
    convOutcome true true ≠ .typeError ∧ adjOutcome true false true true true ≠ .typeError :=
  ⟨fun s h => by cases h; rfl, by decide, by decide, by decide, by decide⟩

/-- the executable model answers such calls, and rejects the others: shapes of a 1-D full convolution with stride 2,
    a channel mismatch, strides of the wrong length, an unknown mode, mixed 'valid' sizes, a rank mismatch -/
example :
    (convolveM (α := GI) [3] [2] (some true) (some [2]) false true true #[⟨1, 0⟩, ⟨2, 0⟩, ⟨3, 1⟩] #[⟨1, 0⟩, ⟨0, 1⟩]) =
      .ok ([2], #[⟨1, 0⟩, ⟨3, 3⟩]) ∧
    (convolveM (α := GI) [2, 3] [1, 3, 2] (some true) none true true true #[] #[]).toOption = none ∧
    (convolveM (α := GI) [3] [2] (some true) (some [1, 1]) false true true #[] #[]).toOption = none ∧
    (convolveM (α := GI) [3] [2] none none false true true #[] #[]).toOption = none ∧
    (convolveM (α := GI) [3, 2] [2, 3] (some false) none false true true #[] #[]).toOption = none ∧
    (convolveM (α := GI) [3] [2, 2] (some true) none false true true #[] #[]) = .error "bad-rank" := by
  decide

/-- ConvolveData((3,), filt (2,), 'full', strides (2,)) applied, and its `.H` (generated wiring) applied -/
example :
    linopApply (α := GI) GI.conj (fun a => ⟨a.re, 0⟩) .data ⟨[3], [2], some true, some [2], false⟩ true true
      #[⟨1, 0⟩, ⟨0, 1⟩] [3] #[⟨1, 0⟩, ⟨2, 0⟩, ⟨3, 1⟩] = .ok ([2], #[⟨1, 0⟩, ⟨3, 3⟩]) ∧
    linopAdjoint .data ⟨[3], [2], some true, some [2], false⟩ =
      .ok (.dataAdjoint, ⟨[3], [2], some true, some [2], false⟩) := by
  decide

end SigpyVerif.C08

namespace SigpyVerif.C08
open SigpyVerif

/-! ### which argument combinations raise -/

/-- the admitted calls of `convolve`: shapes `b + (c_i,) + m`, `(c_o, c_i) + n` (resp. `b + m`, `n`), equal spatial rank
    `D ≥ 1`, strides None or of length `D`, mode 'full' or 'valid' with an admitted size combination, positive extents
    and strides, and not a complex filter with real data -/
def ConvAdmitted (dsh fsh : List Int) (mode : Option Bool) (st : Option (List Int)) (mc cd cf : Bool) : Prop :=
  ∃ (full : Bool) (b m n : List Int) (ci co : Int),
    mode = some full ∧ dsh = dshOf mc b ci m ∧ fsh = fshOf mc co ci n ∧ m.length = n.length ∧ 1 ≤ n.length ∧
    (mc = false → ci = 1 ∧ co = 1) ∧ stridesOk st n.length ∧ (full = true ∨ Gen.convValidRejects m n = false) ∧
    (∀ x ∈ b ++ [ci, co] ++ m ++ n ++ stridesOf st n.length, 1 ≤ x) ∧ convOutcome cd cf ≠ .typeError

/-- the admitted calls of the two adjoints: as for `convolve`, plus an `output` array with the element count of
    `(B, c_o) + p`, and no complex frozen operand with a real `output` -/
def AdjAdmitted (w : Bool) (dsh fsh : List Int) (mode : Option Bool) (st : Option (List Int)) (mc cd cf cy : Bool)
    (ysh : List Int) : Prop :=
  ∃ (full : Bool) (b m n : List Int) (ci co : Int),
    mode = some full ∧ dsh = dshOf mc b ci m ∧ fsh = fshOf mc co ci n ∧ m.length = n.length ∧ 1 ≤ n.length ∧
    (mc = false → ci = 1 ∧ co = 1) ∧ stridesOk st n.length ∧ (full = true ∨ Gen.convValidRejects m n = false) ∧
    (∀ x ∈ b ++ [ci, co] ++ m ++ n ++ stridesOf st n.length, 1 ≤ x) ∧
    shapeProd ysh = shapeProd (shapeProd b :: co :: zip3With (codeLen full) m n (stridesOf st n.length)) ∧
    adjOutcome w full cd cf cy ≠ .typeError

section raises
variable {α : Type} [CommRing α]

/-- **which calls of `convolve` raise** (the guard table as one statement): the model answers with an error exactly
    on the calls that are not admitted — and on every admitted call with an array (`convolve_eq_index`). -/
theorem convolve_raises_iff (dsh fsh : List Int) (mode : Option Bool) (st : Option (List Int)) (mc cd cf : Bool)
    (data filt : Array α) :
    (∃ e, convolveM dsh fsh mode st mc cd cf data filt = .error e) ↔ ¬ ConvAdmitted dsh fsh mode st mc cd cf := by
  constructor
  · rintro ⟨e, he⟩ ⟨full, b, m, n, ci, co, rfl, rfl, rfl, h3, h4, h5, h6, h7, h8, h9⟩
    have := convolve_eq_index mc full b m n ci co st cd cf data filt h3 h4 h5 h6 h7 h8 h9
    unfold convolve at this
    rw [this] at he
    cases he
  · intro hna
    cases hr : convolveM dsh fsh mode st mc cd cf data filt with
    | error e => exact ⟨e, rfl⟩
    | ok r =>
      exfalso
      obtain ⟨sh, a⟩ := r
      obtain ⟨full, b, m, n, ci, co, h1, h2, h2', h3, h4, h5, h6, h7, h8, h9, -, -⟩ :=
        convolve_shape_or_raise dsh fsh mode st mc cd cf data filt sh a hr
      exact hna ⟨full, b, m, n, ci, co, h1, h2, h2', h3, h4, h5, h6, h7, h8, h9⟩

/-- **which calls of the adjoints raise**: exactly the calls that are not admitted. -/
theorem adjoint_raises_iff (conj re : α → α) (w : Bool) (dsh fsh : List Int) (mode : Option Bool)
    (st : Option (List Int)) (mc cd cf cy : Bool) (ysh : List Int) (y other : Array α) :
    (∃ e, adjointM conj re w dsh fsh mode st mc cd cf cy ysh y other = .error e) ↔
      ¬ AdjAdmitted w dsh fsh mode st mc cd cf cy ysh := by
  constructor
  · rintro ⟨e, he⟩ ⟨full, b, m, n, ci, co, rfl, rfl, rfl, h3, h4, h5, h6, h7, h8, hy, h9⟩
    cases w with
    | true =>
      have := data_adjoint_eq_index conj re mc full b m n ci co st cd cf cy ysh y other h3 h4 h5 h6 h7 h8 hy h9
      unfold adjoint at this
      rw [this] at he
      cases he
    | false =>
      have := filter_adjoint_eq_index conj re mc full b m n ci co st cd cf cy ysh y other h3 h4 h5 h6 h7 h8 hy h9
      unfold adjoint at this
      rw [this] at he
      cases he
  · intro hna
    cases hr : adjointM conj re w dsh fsh mode st mc cd cf cy ysh y other with
    | error e => exact ⟨e, rfl⟩
    | ok r =>
      exfalso
      obtain ⟨sh, a⟩ := r
      obtain ⟨full, b, m, n, ci, co, h1, h2, h2', h3, h4, h5, h6, h7, h8, hy, h9, -, -⟩ :=
        adjoint_shape_or_raise conj re w dsh fsh mode st mc cd cf cy ysh y other sh a hr
      exact hna ⟨full, b, m, n, ci, co, h1, h2, h2', h3, h4, h5, h6, h7, h8, hy, h9⟩

end raises

/-- non-vacuity: an admitted call -/
example : ConvAdmitted [2, 2, 3, 2] [3, 2, 2, 2] (some false) (some [2, 1]) true true true :=
  ⟨false, [2], [3, 2], [2, 2], 2, 3, rfl, rfl, rfl, rfl, by decide, by decide, fun s h => by cases h; rfl, by decide,
    by decide, by decide⟩

end SigpyVerif.C08
