import SigpyVerif.Model.Py
import SigpyVerif.Model.Proto
import SigpyVerif.Model.C07
namespace SigpyVerif.Drv.C07
open SigpyVerif SigpyVerif.Proto SigpyVerif.C07

/-- `s:<rat>` scalar, `l:<rat list>` per-axis -/
def parseBc (s : String) : Option Bc :=
  if s.startsWith "s:" then (parseRat? (s.drop 2).toString).map Bc.scalar
  else if s.startsWith "l:" then (parseRatList? (s.drop 2).toString).map Bc.perAxis
  else none

def fmtIdx (l : List Int) : String := ".".intercalate (l.map fmtInt)

def reply (shape : List Int) (d : Array (Rat × Rat)) : String :=
  s!"ok {fmtIntList shape} | {fmtCRatList d.toList}"

/-- protocol handler for property C07 (tokens after the property id). -/
def handle (toks : List String) : String :=
  let getL (k : String) := (kv toks k).bind parseIntList?
  let getR (k : String) := (kv toks k).bind parseRatList?
  let getB (k : String) := (kv toks k).bind parseBc
  let getX := ((kv toks "x").bind parseCRatList?).map List.toArray
  match toks.head? with
  | some "kernel" =>
    match (kv toks "x").bind parseRat?, (kv toks "order").bind parseRat? with
    | some x, some o => s!"ok {fmtRat (Gen.splineKernel x o)}"
    | _, _ => "err bad-op"
  | some "interp" =>
    match getL "gsh", getL "csh", getR "coord", getB "width", getB "param", getX with
    | some gsh, some csh, some coord, some w, some p, some x =>
      if x.size ≠ (shapeProd gsh).toNat then "err size" else
      match interpolate Gen.splineKernel gsh csh coord w p x with
      | some (o, y) => reply o y
      | none => "err index"
    | _, _, _, _, _, _ => "err bad-op"
  | some "grid" =>
    match getL "gsh", getL "csh", getR "coord", getB "width", getB "param", getX with
    | some gsh, some csh, some coord, some w, some p, some x =>
      match gridding Gen.splineKernel gsh csh coord w p x with
      | some (o, y) => reply o y
      | none => "err index"
    | _, _, _, _, _, _ => "err bad-op"
  | some "entries" =>
    match (kv toks "op"), getL "gsh", getL "csh", getR "coord", getB "width", getB "param" with
    | some op, some gsh, some csh, some coord, some w, some p =>
      if op ≠ "interp" ∧ op ≠ "grid" then "err bad-op" else
      match entries (op == "grid") Gen.splineKernel gsh csh coord w p with
      | some (E, acc) =>
        let body := " ".intercalate (E.map fun (d, s, wt) => s!"{fmtIdx d}:{fmtIdx s}:{fmtRat wt}")
        s!"ok acc={fmtBool acc} | {body}"
      | none => "err index"
    | _, _, _, _, _, _ => "err bad-op"
  | some "tagged" =>
    match (kv toks "op"), getL "gsh", getL "csh", getR "coord", getB "width" with
    | some op, some gsh, some csh, some coord, some w =>
      if op ≠ "interp" ∧ op ≠ "grid" then "err bad-op" else
      match entriesTagged (op == "grid") gsh csh coord w with
      | some E =>
        let body := " ".intercalate (E.map fun (d, s, us) =>
          s!"{fmtIdx d}:{fmtIdx s}:{";".intercalate (us.map fmtRat)}")
        s!"ok | {body}"
      | none => "err index"
    | _, _, _, _, _ => "err bad-op"
  | _ => "err bad-op"
end SigpyVerif.Drv.C07
