import SigpyVerif.Model.Py
import SigpyVerif.Model.Proto
import SigpyVerif.Model.C16
namespace SigpyVerif.Drv.C16
open SigpyVerif SigpyVerif.Proto SigpyVerif.C16

/-- Gaussian rationals -/
structure CR where
  re : Rat
  im : Rat
  deriving BEq

instance : Add CR := ⟨fun a b => ⟨a.re + b.re, a.im + b.im⟩⟩
instance : Mul CR := ⟨fun a b => ⟨a.re * b.re - a.im * b.im, a.re * b.im + a.im * b.re⟩⟩
instance : Zero CR := ⟨⟨0, 0⟩⟩
def CR.conj (a : CR) : CR := ⟨a.re, -a.im⟩

def isSquareNat (n : Nat) : Bool := n.sqrt * n.sqrt == n
/-- exact square root of a non-negative rational that is a perfect square -/
def ratSqrt? (q : Rat) : Option Rat :=
  if q.num < 0 then none
  else if isSquareNat q.num.toNat && isSquareNat q.den then some ((q.num.toNat.sqrt : Rat) / (q.den.sqrt : Rat))
  else none
def crSqrt (z : CR) : CR := ⟨(ratSqrt? z.re).getD 0, 0⟩

def chunk {β} (n : Nat) : Nat → List β → List (List β)
  | 0, _ => []
  | rows + 1, l => l.take n :: chunk n rows (l.drop n)

def ofPairs (l : List (Rat × Rat)) : List CR := l.map fun p => ⟨p.1, p.2⟩
def fmtMat (m : List (List CR)) : String :=
  let flat := m.flatten.map fun z => (z.re, z.im)
  s!"ok {m.length},{(m.headD []).length} | {fmtCRatList flat}"

def optInt (toks : List String) (k : String) : Option (Option Int) :=
  match kv toks k with
  | none => none
  | some "none" => some none
  | some s => (parseInt? s).map some

/-- weights of the request: `wsh` = shape of the weights array as given to `Sense`, data `w` (rationals,
    perfect squares), read the way numpy broadcasts it against `[coils, k-space]` (the DOCUMENTED rule, `Valid.wclass`
    of Props/C16.lean — independent of the generated `weights_per_coil` test, which the generated factory applies itself) -/
def getWeights (toks : List String) (n K : Nat) (kspnd : Int) : Except String (Weights CR × Int × Int) :=
  match kv toks "wsh" with
  | none => .error "err bad-op"
  | some "none" => .ok (.none, 0, 0)
  | some s =>
    match parseIntList? s, (kv toks "w").bind parseRatList? with
    | some wsh, some w =>
      if w.any (fun q => (ratSqrt? q).isNone) then .error "err inexact" else
      let wc : List CR := w.map fun q => ⟨q, 0⟩
      let per := decide ((wsh.length : Int) = kspnd + 1 ∧ wsh.headD 0 = (n : Int))
      if per then
        if wc.length = n * K then .ok (.perCoil (chunk K n wc), wsh.length, wsh.headD 0) else .error "err shape"
      else
        if wc.length = K then .ok (.shared wc, wsh.length, wsh.headD 0) else .error "err shape"
    | _, _ => .error "err bad-op"

/-- request: `n R K b mps F` as before plus `ish` (image shape = `mps.shape[1:]`), `ishape=none|given`,
    `cnd=none|<coord.ndim>`, `transp=0|1` -/
def getOpts (toks : List String) : Except String (SenseOpts CR × Nat × Nat × Nat) :=
  let getN (k : String) := ((kv toks k).bind parseInt?).map Int.toNat
  let getC (k : String) := ((kv toks k).bind parseCRatList?).map ofPairs
  let ishGiven : Option Bool := match kv toks "ishape" with
    | some "none" => some false
    | some "given" => some true
    | _ => none
  match getN "n", getN "R", getN "K", optInt toks "b", getC "mps", getC "F" with
  | some n, some R, some K, some b, some mps, some F =>
    match (kv toks "ish").bind parseIntList?, optInt toks "cnd", (kv toks "transp").bind parseInt?, ishGiven with
    | some ish, some cnd, some transp, some ig =>
      if mps.length ≠ n * R ∨ F.length ≠ K * R ∨ shapeProd ish ≠ (R : Int) then .error "err size" else
      let kspnd : Int := match cnd with
        | none => ish.length
        | some d => d - 1
      match getWeights toks n K kspnd with
      | .error e => .error e
      | .ok (w, wnd, ws0) =>
        .ok ({ mps := chunk R n mps, mpsNdim := (ish.length : Int) + 1, ishapeLen := if ig then some (ish.length : Int) else none,
               coordNdim := cnd, weights := w, wNdim := wnd, wShape0 := ws0, batch := b, transp := transp != 0,
               F := chunk R K F, sqrt := crSqrt }, n, R, K)
    | _, _, _, _ => .error "err bad-op"
  | _, _, _, _, _, _ => .error "err bad-op"

/-- leaf letters of the reified tree: `F<image axes>` for an FFT (axes normalised to `0 … ndim-1`), `N` for
    `NUFFT(coord)`, `Nt` for `NUFFT(-coord).H` -/
def leafName : Leaf CR → String
  | .multiplyMaps _ => "S"
  | .fourier (.fft axes ndim) _ _ _ => "F" ++ ".".intercalate (axes.map fun a => toString (pyMod a ndim))
  | .fourier (.nufft false false) _ _ _ => "N"
  | .fourier (.nufft true true) _ _ _ => "Nt"
  | .fourier _ _ _ _ => "N?"
  | .multiplyWShared _ => "P"
  | .multiplyWCoil _ => "Q"
  | .invalid => "!"

def fmtSetup (s : ReconSetup) : String :=
  let ws := match s.wsource with | .none => "none" | .given => "given" | .estimated => "estimated"
  s!"ok ws={ws} aw={fmtBool s.aWeighted} yw={fmtBool s.yWeighted} half={fmtBool s.yExpHalf} l2={fmtBool s.l2} prox={if s.prox.isEmpty then "-" else ",".intercalate s.prox} g={fmtBool s.hasG}"

/-- protocol handler for property C16 (tokens after the property id). -/
def handle (toks : List String) : String :=
  match toks.head? with
  | some "fwd" =>
    match getOpts toks, ((kv toks "x").bind parseCRatList?).map ofPairs with
    | .ok (o, _, R, _), some x =>
      if x.length ≠ R then "err size" else fmtMat ((sense o).apply [x])
    | .error e, _ => e
    | _, _ => "err bad-op"
  | some "adj" =>
    match getOpts toks, ((kv toks "y").bind parseCRatList?).map ofPairs with
    | .ok (o, n, _, K), some y =>
      if y.length ≠ n * K then "err size" else fmtMat ((sense o).adj CR.conj (chunk K n y))
    | .error e, _ => e
    | _, _ => "err bad-op"
  | some "tree" =>
    -- structure of the operator: per chain the leaf letters and the coil indices it receives
    match getOpts toks with
    | .ok (o, n, _, _) =>
      let coils := batchCoils (n : Int) o.batch
      let chains : List (Chain CR) := match sense o with
        | .single c => [c]
        | .vstack cs => cs
      let kind := match sense o with | .single _ => "C" | .vstack _ => "V"
      let parts := (List.zip chains coils).map fun (c, idx) =>
        s!"{String.join (c.map leafName)}:{fmtIntList idx}:{c.rows}"
      s!"ok {kind} {";".intercalate parts}"
    | .error e => e
  | some "recon" =>
    let kind := match kv toks "kind" with
      | some "SenseRecon" => some ReconKind.senseRecon
      | some "L1WaveletRecon" => some ReconKind.l1Wavelet
      | some "TotalVariationRecon" => some ReconKind.totalVariation
      | _ => none
    match kind, (kv toks "wg").bind parseInt?, (kv toks "cn").bind parseInt? with
    | some k, some wg, some cn => fmtSetup (reconSetup k (wg != 0) (cn != 0))
    | _, _, _ => "err bad-op"
  | some "estw" =>
    -- `_estimate_weights`: 1 where rss > 0
    match (kv toks "rss").bind parseRatList? with
    | some r => s!"ok {fmtIntList (r.map fun q => if Gen.estWeightsSampled q then 1 else 0)}"
    | none => "err bad-op"
  | _ => "err bad-op"
end SigpyVerif.Drv.C16
