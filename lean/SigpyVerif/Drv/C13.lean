import SigpyVerif.Model.Py
import SigpyVerif.Model.Proto
import SigpyVerif.Model.C13
/-
  Protocol handler for C13.  Runs `C13.gmRun`-style trajectories of the generic model over rational
  vectors: quadratic `f(x) = ½‖Ax-b‖²` (`gradf x = Aᵀ(Ax-b)`), prox maps of sigpy.prox, scalar or
  array-valued steps.  Square roots are looked up in the table `sq=a:s;a:s…` of values the real code
  computed; every table entry is checked against the defining inequality of the square root
  (relative 1e-15), a missing entry is an error.

    C13 gm m= n= A= b= x0= alpha= prox=none|noop|l2:λ|box:lo:hi|l1:λ accel=0|1 k= sq=
    C13 pd m= n= A= x0= u0= tau=s:r|a:r,.. sigma=… proxfc=<spec> proxg=<spec> gp= gd= theta= k= sq=
  reply: `ok <state after update 1> | <state after update 2> | …`
-/
namespace SigpyVerif.Drv.C13
open SigpyVerif SigpyVerif.Proto SigpyVerif.C13

def parseSq (s : String) : Option (List (Rat × Rat)) :=
  if s == "-" || s == "newton" then some [] else
  (s.splitOn ";").mapM fun e =>
    match e.splitOn ":" with
    | [a, b] => do let x ← parseRat? a; let y ← parseRat? b; some (x, y)
    | _ => none

def parseStep (s : String) : Option RStep :=
  match s.splitOn ":" with
  | ["s", r] => (parseRat? r).map RStep.sc
  | ["a", l] => (parseRatList? l).map RStep.ar
  | _ => none

/-- `none` (outer) = parse error; `some none` = Python `None` -/
def parseProx (s : String) : Option (Option ProxKind) :=
  match s.splitOn ":" with
  | ["none"] => some none
  | ["noop"] => some (some .noop)
  | ["l2", lam] => (parseRat? lam).map fun l => some (.l2 l none)
  | ["l2y", lam, y] => do let l ← parseRat? lam; let yy ← parseRatList? y; some (some (.l2 l (some yy)))
  | ["box", lo, hi] => do let a ← parseRat? lo; let b ← parseRat? hi; some (some (.box a b))
  | ["l1", lam] => (parseRat? lam).map fun l => some (.l1 l)
  | _ => none

def fmtStep : RStep → String
  | .sc r => "s:" ++ fmtRat r
  | .ar l => "a:" ++ fmtRatList l

def rows (n : Nat) (flat : List Rat) : List (List Rat) :=
  if n == 0 then [] else
  let rec go (fuel : Nat) (l : List Rat) : List (List Rat) :=
    match fuel with
    | 0 => []
    | f + 1 => if l.isEmpty then [] else l.take n :: go f (l.drop n)
  go flat.length flat

def sumSq (a : List Rat) : Rat := (a.map (fun v => v * v)).foldl (· + ·) 0

def handleGM (toks : List String) : String :=
  let getR (k : String) := (kv toks k).bind parseRat?
  let getL (k : String) := (kv toks k).bind parseRatList?
  let getN (k : String) := ((kv toks k).bind parseInt?).map Int.toNat
  match getN "m", getN "n", getL "A", getL "b", getL "x0", getR "alpha", (kv toks "prox").bind parseProx,
        getN "accel", getN "k", (kv toks "sq").bind parseSq with
  | some m, some n, some a, some b, some x0, some alpha, some prox, some acc, some k, some tab =>
    if a.length ≠ m * n ∨ b.length ≠ m ∨ x0.length ≠ n then "err size" else
    if tab.any (fun p => !sqOk p.1 p.2) then "err sqrt-bad" else
    let A := rows n a
    let AT := transpose n A
    let gradf : RVec → RVec := fun x => matVec AT (matVec A x - ⟨b⟩)
    let proxg : Option (Rat → RVec → RVec) := prox.map (fun p al v => p.apply (.sc al) v)
    let accel := acc == 1
    let sq := if kv toks "sq" == some "newton" then sqApprox else sqLookup tab
    let rec go (fuel : Nat) (s : GMState Rat RVec) (out : List String) : Option (List String) :=
      match fuel with
      | 0 => some out.reverse
      | f + 1 =>
        let s' := gmStep sq gradf proxg alpha accel s
        if accel && decide (s'.t < 1) then none else
        let r2 := sumSq (s'.x - s.x).d / (alpha * alpha)
          + (if accel then sumSq (s'.x - s.z).d / (alpha * alpha) else 0)
        go f s' (s!"x={fmtRatList s'.x.d} z={fmtRatList s'.z.d} t={fmtRat s'.t} r2={fmtRat r2}" :: out)
    match go k (gmInit ⟨x0⟩) [] with
    | some out => "ok " ++ " | ".intercalate out
    | none => "err sqrt-missing"
  | _, _, _, _, _, _, _, _, _, _ => "err bad-op"

def handlePD (toks : List String) : String :=
  let getR (k : String) := (kv toks k).bind parseRat?
  let getL (k : String) := (kv toks k).bind parseRatList?
  let getN (k : String) := ((kv toks k).bind parseInt?).map Int.toNat
  match getN "m", getN "n", getL "A", getL "x0", getL "u0", (kv toks "tau").bind parseStep,
        (kv toks "sigma").bind parseStep, (kv toks "proxfc").bind parseProx, (kv toks "proxg").bind parseProx,
        getR "gp", getR "gd", getR "theta", getN "k", (kv toks "sq").bind parseSq with
  | some m, some n, some a, some x0, some u0, some tau, some sigma, some (some pfc), some (some pg),
    some gp, some gd, some th, some k, some tab =>
    if a.length ≠ m * n ∨ u0.length ≠ m ∨ x0.length ≠ n then "err size" else
    if tab.any (fun p => !sqOk p.1 p.2) then "err sqrt-bad" else
    let A := rows n a
    let AT := transpose n A
    let sq := if kv toks "sq" == some "newton" then sqApprox else sqLookup tab
    let accelerating := (decide (0 < gp) && gd == 0) || (gp == 0 && decide (0 < gd))
    let rec go (fuel : Nat) (s : PDState Rat RVec RVec RStep RStep) (out : List String) : Option (List String) :=
      match fuel with
      | 0 => some out.reverse
      | f + 1 =>
        let s' := pdStep sq (matVec A) (matVec AT) pfc.apply pg.apply gp gd th s
        if accelerating && (s'.tau.minAbs == 0 || s'.sigma.minAbs == 0) then none else
        let r2 := sumSqDiv (s'.x - s.x).d (s'.tau.expand n) + sumSqDiv (s.x_ext - s.x).d (s'.tau.expand n)
          + sumSqDiv (s'.u - s.u).d (s.sigma.expand m)
        go f s' (s!"x={fmtRatList s'.x.d} u={fmtRatList s'.u.d} xe={fmtRatList s'.x_ext.d} tau={fmtStep s'.tau} sigma={fmtStep s'.sigma} r2={fmtRat r2}" :: out)
    match go k (pdInit RStep.minAbs RStep.minAbs ⟨x0⟩ ⟨u0⟩ tau sigma) [] with
    | some out => "ok " ++ " | ".intercalate out
    | none => "err sqrt-missing"
  | _, _, _, _, _, _, _, _, _, _, _, _, _, _ => "err bad-op"

/-- protocol handler for property C13 (tokens after the property id). -/
def handle (toks : List String) : String :=
  match toks.head? with
  | some "gm" => handleGM toks
  | some "pd" => handlePD toks
  | _ => "err bad-op"
end SigpyVerif.Drv.C13
