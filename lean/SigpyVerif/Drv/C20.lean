import SigpyVerif.Model.Py
import SigpyVerif.Model.Proto
import SigpyVerif.Model.C20
namespace SigpyVerif.Drv.C20
open SigpyVerif SigpyVerif.Proto SigpyVerif.C20

def getRat (toks : List String) (k : String) : Option Rat := (kv toks k).bind parseRat?
def getNat (toks : List String) (k : String) : Option Nat := ((kv toks k).bind parseInt?).map Int.toNat
def getIdx (toks : List String) : List Nat := (((kv toks "idx").bind parseIntList?).getD []).map Int.toNat

def replyDesign (d : Design Rat) (idx : List Nat) : String :=
  let w := d.wave
  let smp := idx.map fun i => w.getD i 0
  s!"ok r={d.ramppts} nflat={d.nflat} len={w.length} scale={fmtRat d.scale} sum={fmtRat w.sum} flatsum={fmtRat d.flat.sum} | {fmtRatList smp}"

/-- blips of one axis: `;`-separated, each `none` or an integer list -/
def parseBlips (s : String) : Option (List (Option (List Rat))) :=
  if s == "-" then some [] else
  (s.splitOn ";").mapM fun t => if t == "none" then some none else (parseRatList? t).map some

/-- protocol handler for property C20 (tokens after the property id). -/
def handle (toks : List String) : String :=
  match toks.head? with
  | some "trap" =>
    match getRat toks "area", getRat toks "gmax", getRat toks "dgdt", getRat toks "dt", getNat toks "hc" with
    | some area, some gmax, some dgdt, some dt, some hc =>
      if !(0 < area && 0 < gmax && 0 < dgdt && 0 < dt) then "err domain" else
      if !trapHintOk area dgdt dt hc then "err bad-hint" else
      replyDesign (trapGrad (ratOps hc 0) area gmax dgdt dt) (getIdx toks)
    | _, _, _, _, _ => "err bad-op"
  | some "mintrap" =>
    match getRat toks "area", getRat toks "gmax", getRat toks "dgdt", getRat toks "dt", getNat toks "hf" with
    | some area, some gmax, some dgdt, some dt, some hf =>
      if !(0 < area && 0 < gmax && 0 < dgdt && 0 < dt) then "err domain" else
      if !minHintOk area dgdt dt hf then "err bad-hint" else
      match minTrapGrad (ratOps 0 hf) area gmax dgdt dt with
      | some d => replyDesign d (getIdx toks)
      | none => "err value"
    | _, _, _, _, _ => "err bad-op"
  | some "spokesaxis" =>
    match getNat toks "nsub", getNat toks "nref", (kv toks "blips").bind parseBlips with
    | some nsub, some nref, some bl => s!"ok {fmtRatList (spokesAxis nsub nref bl)}"
    | _, _, _ => "err bad-op"
  | some "spokesgz" =>
    match (kv toks "sub").bind parseRatList?, (kv toks "ref").bind parseRatList?, getNat toks "n" with
    | some sub, some ref, some n => s!"ok {fmtRatList (spokesGz sub ref n)}"
    | _, _, _ => "err bad-op"
  | _ => "err bad-op"
end SigpyVerif.Drv.C20
